/-
Model of `tendril/src/utf8_decode.rs` (decode_utf8, IncompleteUtf8) and of
`tendril/src/stream.rs` (Utf8LossyDecoder::process / finish, and decode_to_sink of the
encoding_rs LossyDecoder against an abstract decoder).

Byte strings are `List UInt8`; a `Tendril<fmt::UTF8>` handed to the inner sink is the list of its
bytes.  Every `unwrap` / slice index / `split_at` / `pop_front` / `subtendril` / `copy_from_slice`
of the Rust is an explicit `.error` branch naming the site; the `while` loop of `process` runs on
explicit fuel (`bytes.length`), running out of fuel is an error branch too.

`str::from_utf8` is *modelled* (`fromUtf8`, following `core::str::validations::run_utf8_validation`
as of Rust 1.7x: `utf8_char_width` + the per-width checks; the word-at-a-time ASCII fast path is
one step per byte).  It is trusted; the harness validates it against the real function.

`IncompleteUtf8.buffer` is `[u8; 4]` in Rust with stale bytes beyond `buffer_len`; the stale bytes
are never read (every read is `buffer[..len]` after `len` was set), so the model keeps only the
live prefix `buf` and checks `buf.length ≤ 4` where Rust indexes the array.
-/
namespace H5V.Model.Utf8

/-! ### `core::str::from_utf8` -/

/-- `Result<&str, Utf8Error { valid_up_to, error_len }>` -/
inductive Utf8Res where
  | ok
  | err (validUpTo : Nat) (errorLen : Option Nat)
deriving Repr, DecidableEq

/-- `core::str::validations::utf8_char_width` (the `UTF8_CHAR_WIDTH` table) -/
def charWidth (b : UInt8) : Nat :=
  if b.toNat < 0x80 then 1
  else if b.toNat < 0xC2 then 0
  else if b.toNat < 0xE0 then 2
  else if b.toNat < 0xF0 then 3
  else if b.toNat < 0xF5 then 4
  else 0

/-- `(b as i8) < -64`, i.e. a continuation byte -/
def isCont (b : UInt8) : Bool := decide (0x80 ≤ b.toNat) && decide (b.toNat < 0xC0)

/-- the `match (first, next!())` of a 3-byte sequence -/
def second3 (first b : UInt8) : Bool :=
  let f := first.toNat
  let s := b.toNat
  (f == 0xE0 && 0xA0 ≤ s && s ≤ 0xBF) ||
  (0xE1 ≤ f && f ≤ 0xEC && 0x80 ≤ s && s ≤ 0xBF) ||
  (f == 0xED && 0x80 ≤ s && s ≤ 0x9F) ||
  (0xEE ≤ f && f ≤ 0xEF && 0x80 ≤ s && s ≤ 0xBF)

/-- the `match (first, next!())` of a 4-byte sequence -/
def second4 (first b : UInt8) : Bool :=
  let f := first.toNat
  let s := b.toNat
  (f == 0xF0 && 0x90 ≤ s && s ≤ 0xBF) ||
  (0xF1 ≤ f && f ≤ 0xF3 && 0x80 ≤ s && s ≤ 0xBF) ||
  (f == 0xF4 && 0x80 ≤ s && s ≤ 0x8F)

/-- one iteration of the validation loop -/
inductive Step where
  /-- a whole code point of `n` bytes was accepted -/
  | adv (n : Nat)
  /-- `err!(error_len)` -/
  | bad (errorLen : Option Nat)
deriving Repr, DecidableEq

/-- one iteration of `run_utf8_validation` at `v[index] = first`, `rest = v[index+1..]`;
`next!()` on an exhausted slice is `err!(None)` -/
def stdStep (first : UInt8) (rest : List UInt8) : Step :=
  match charWidth first with
  | 1 => .adv 1
  | 2 =>
    match rest with
    | [] => .bad none
    | b1 :: _ => if !isCont b1 then .bad (some 1) else .adv 2
  | 3 =>
    match rest with
    | [] => .bad none
    | b1 :: r1 =>
      if !second3 first b1 then .bad (some 1) else
      match r1 with
      | [] => .bad none
      | b2 :: _ => if !isCont b2 then .bad (some 2) else .adv 3
  | 4 =>
    match rest with
    | [] => .bad none
    | b1 :: r1 =>
      if !second4 first b1 then .bad (some 1) else
      match r1 with
      | [] => .bad none
      | b2 :: r2 =>
        if !isCont b2 then .bad (some 2) else
        match r2 with
        | [] => .bad none
        | b3 :: _ => if !isCont b3 then .bad (some 3) else .adv 4
  | _ => .bad (some 1)

/-- the validation loop from byte offset `idx` on -/
def fromUtf8Go (idx : Nat) : List UInt8 → Utf8Res
  | [] => .ok
  | b :: rest =>
    match stdStep b rest with
    | .adv n => fromUtf8Go (idx + n) (rest.drop (n - 1))
    | .bad e => .err idx e
termination_by bs => bs.length
decreasing_by simp only [List.length_drop, List.length_cons]; omega

def fromUtf8 (bs : List UInt8) : Utf8Res := fromUtf8Go 0 bs

/-! ### utf8_decode.rs -/

/-- `IncompleteUtf8 { buffer, buffer_len }`, live prefix only -/
structure Incomplete where
  buf : List UInt8
deriving Repr, DecidableEq

/-- `Result<&str, DecodeError>` of `decode_utf8` by offsets into the input -/
inductive Decoded where
  | ok
  /-- `Invalid { valid_prefix = input[..validLen], invalid_sequence = input[validLen..validLen+invLen] }` -/
  | invalid (validLen invLen : Nat)
  /-- `Incomplete { valid_prefix = input[..validLen], incomplete_suffix }` -/
  | incomplete (validLen : Nat) (inc : Incomplete)
deriving Repr, DecidableEq

/-- `IncompleteUtf8::new` : `buffer[..len].copy_from_slice(bytes)` -/
def Incomplete.new (bytes : List UInt8) : Except String Incomplete :=
  if bytes.length > 4 then .error "utf8_decode.rs:74 buffer[..len] out of range" else .ok ⟨bytes⟩

def decodeUtf8 (input : List UInt8) : Except String Decoded :=
  match fromUtf8 input with
  | .ok => .ok .ok
  | .err v e =>
    if v > input.length then .error "utf8_decode.rs:46 split_at out of bounds" else
    let afterValid := input.drop v
    match e with
    | some n =>
      if n > afterValid.length then .error "utf8_decode.rs:51 after_valid[..n] out of range"
      else .ok (.invalid v n)
    | none => do
      let inc ← Incomplete.new afterValid
      .ok (.incomplete v inc)

inductive Completion where
  | notEnoughInput | malformed | valid
deriving Repr, DecidableEq

/-- `IncompleteUtf8::try_complete_offsets`; returns the updated struct, `consumed`, the verdict -/
def tryCompleteOffsets (self : Incomplete) (input : List UInt8) :
    Except String (Incomplete × Nat × Completion) :=
  let initial := self.buf.length
  if initial > 4 then .error "utf8_decode.rs:95 buffer[initial..] out of range" else
  let copied := min (4 - initial) input.length
  let spliced := self.buf ++ input.take copied
  match fromUtf8 spliced with
  | .ok => .ok (⟨spliced⟩, copied, .valid)
  | .err v e =>
    if v > 0 then
      if v < initial then .error "utf8_decode.rs:108 checked_sub unwrap" else
      .ok (⟨spliced.take v⟩, v - initial, .valid)
    else
      match e with
      | some n =>
        if n < initial then .error "utf8_decode.rs:116 checked_sub unwrap" else
        .ok (⟨spliced.take n⟩, n - initial, .malformed)
      | none => .ok (⟨spliced⟩, copied, .notEnoughInput)

/-- result of `try_to_complete_codepoint`: `None` (keeping the updated buffer) or
`Some((Ok(str) | Err(bytes), remaining_input))` -/
inductive Completed where
  | needMore (inc : Incomplete)
  | done (okText : Bool) (taken : List UInt8) (remaining : List UInt8)
deriving Repr, DecidableEq

def tryToCompleteCodepoint (self : Incomplete) (input : List UInt8) : Except String Completed := do
  let (inc, consumed, verdict) ← tryCompleteOffsets self input
  match verdict with
  | .notEnoughInput => .ok (.needMore inc)
  | v =>
    -- take_buffer: &self.buffer[..len]
    if inc.buf.length > 4 then .error "utf8_decode.rs:85 buffer[..len] out of range" else
    if consumed > input.length then .error "utf8_decode.rs:149 input[consumed..] out of range" else
    .ok (.done (v == .valid) inc.buf (input.drop consumed))

/-! ### stream.rs : Utf8LossyDecoder -/

/-- calls on the inner sink -/
inductive Event where
  | text (bytes : List UInt8)
  | error
deriving Repr, DecidableEq

structure Decoder where
  incomplete : Option Incomplete
  /-- calls made on the inner sink so far, oldest first -/
  events : List Event
deriving Repr, DecidableEq

def Decoder.new : Decoder := ⟨none, []⟩

def replacement : List UInt8 := [0xEF, 0xBF, 0xBD]

/-- the `while !bytes.is_empty()` loop of `process`; returns the events and the new `incomplete` -/
def processLoop : Nat → List UInt8 → List Event → Except String (List Event × Option Incomplete)
  | _, [], evs => .ok (evs, none)
  | 0, _ :: _, _ => .error "stream.rs:173 loop does not terminate (model fuel exhausted)"
  | fuel + 1, bytes@(_ :: _), evs => do
    match ← decodeUtf8 bytes with
    | .ok => .ok (evs ++ [.text bytes], none)
    | .invalid validLen invLen =>
      if validLen > bytes.length then .error "stream.rs:211 subtendril out of bounds" else
      let evs := if validLen > 0 then evs ++ [.text (bytes.take validLen)] else evs
      let offset := validLen + invLen
      if offset > bytes.length then .error "stream.rs:226 pop_front out of bounds" else
      processLoop fuel (bytes.drop offset) (evs ++ [.error, .text replacement])
    | .incomplete validLen inc =>
      if validLen > bytes.length then .error "stream.rs:211 subtendril out of bounds" else
      let evs := if validLen > 0 then evs ++ [.text (bytes.take validLen)] else evs
      .ok (evs, some inc)

/-- `Utf8LossyDecoder::process` -/
def process (d : Decoder) (bytes : List UInt8) : Except String Decoder := do
  match d.incomplete with
  | some inc =>
    match ← tryToCompleteCodepoint inc bytes with
    | .needMore inc' => .ok { d with incomplete := some inc' }
    | .done okText taken remaining =>
      let evs := if okText then d.events ++ [.text taken] else d.events ++ [.error, .text replacement]
      -- resume_at = bytes.len() - rest.len(); bytes.pop_front(resume_at)
      if remaining.length > bytes.length then .error "stream.rs:163 usize subtraction overflow" else
      let resumeAt := bytes.length - remaining.length
      let bytes' := bytes.drop resumeAt
      let (evs', inc') ← processLoop bytes'.length bytes' evs
      .ok ⟨inc', evs'⟩
  | none =>
    let (evs', inc') ← processLoop bytes.length bytes d.events
    .ok ⟨inc', evs'⟩

/-- `Utf8LossyDecoder::finish` (up to the inner sink's own `finish`) -/
def finish (d : Decoder) : List Event :=
  if d.incomplete.isSome then d.events ++ [.error, .text replacement] else d.events

/-- `decoder.from_iter(chunks)` -/
def feedAll (d : Decoder) : List (List UInt8) → Except String Decoder
  | [] => .ok d
  | c :: cs => do
    let d' ← process d c
    feedAll d' cs

def run (chunks : List (List UInt8)) : Except String (List Event) := do
  let d ← feedAll Decoder.new chunks
  .ok (finish d)

/-! ### observations -/

def Event.marked : Event → List (Option UInt8)
  | .text bs => bs.map some
  | .error => [none]

/-- the sink's view with piece boundaries forgotten: text bytes as `some`, error calls as `none` -/
def markedOf (evs : List Event) : List (Option UInt8) := evs.flatMap Event.marked

def textOf (evs : List Event) : List UInt8 :=
  evs.flatMap (fun e => match e with | .text bs => bs | .error => [])

def errorsOf (evs : List Event) : Nat := evs.count .error

/-! ### stream.rs : LossyDecoder over encoding_rs (abstract decoder) -/

/-- `encoding_rs::DecoderResult` -/
inductive DecoderResult where
  | inputEmpty | outputFull | malformed
deriving Repr, DecidableEq

/-- An abstract `encoding_rs::Decoder`: state `σ`, and
`decode_to_utf8_without_replacement(src, dst_capacity, last) → (result, read, written bytes)`.
`maxLen` is `max_utf8_buffer_length_without_replacement`. -/
structure AbstractDecoder (σ : Type) where
  maxLen : σ → Nat → Option Nat
  decode : σ → List UInt8 → Nat → Bool → σ × DecoderResult × Nat × List UInt8

/-- `max_len.min(8192)` with `max_len = max_utf8_buffer_length_without_replacement(..).unwrap_or(8192)` -/
def capOf {σ} (D : AbstractDecoder σ) (st : σ) (input : List UInt8) : Nat :=
  min ((D.maxLen st input.length).getD 8192) 8192

/-- `decode_to_sink`; the Rust `loop` has no bound of its own, the model takes fuel and reports
exhaustion (the real decoders make progress by contract; that is *not* proved here).
Besides the decoder state and the sink calls the model returns two *ghost* values the Rust function
does not return: the result of the last decoder call and the input left unread at return. -/
def decodeToSink {σ} (D : AbstractDecoder σ) :
    Nat → σ → List UInt8 → Bool → List Event → Except String (σ × List Event × DecoderResult × List UInt8)
  | 0, _, _, _, _ => .error "stream.rs:392 loop fuel exhausted"
  | fuel + 1, st, input, last, evs =>
    match D.decode st input (capOf D st input) last with
    | (st', result, read, out) =>
    -- out.subtendril(0, bytes_written)
    if out.length > capOf D st input then .error "stream.rs:404 subtendril out of bounds" else
    let evs := if out.length > 0 then evs ++ [.text out] else evs
    match result with
    | .inputEmpty => .ok (st', evs, .inputEmpty, input)
    | r =>
      let evs := if r == .malformed then evs ++ [.error, .text replacement] else evs
      if read > input.length then .error "stream.rs:416 pop_front out of bounds" else
      let input' := input.drop read
      -- `if input.is_empty() && !last { return; }`: at end of stream the decoder is driven to InputEmpty
      if input'.isEmpty && !last then .ok (st', evs, r, input') else decodeToSink D fuel st' input' last evs

/-- the decoder calls `decode_to_sink` makes, in order: (result, bytes written) -/
def callTrace {σ} (D : AbstractDecoder σ) :
    Nat → σ → List UInt8 → Bool → List (DecoderResult × List UInt8)
  | 0, _, _, _ => []
  | fuel + 1, st, input, last =>
    match D.decode st input (capOf D st input) last with
    | (st', result, read, out) =>
    (result, out) ::
      match result with
      | .inputEmpty => []
      | _ => if (input.drop read).isEmpty && !last then [] else callTrace D fuel st' (input.drop read) last

end H5V.Model.Utf8
