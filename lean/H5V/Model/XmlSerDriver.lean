import H5V.Proto
/- engine `xmlser` (stub) -/
namespace H5V.Model.XmlSerDriver

def runCase (_fields : List String) : String := "unimplemented"

end H5V.Model.XmlSerDriver
