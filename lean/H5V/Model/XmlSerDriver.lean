import H5V.Proto
import H5V.Model.XmlTB
import H5V.Model.XmlTBDriver
import H5V.Model.XmlSer
/- engine `xmlser` — see harness/src/engines/xmlser.rs.
   `tree <dump>`: the document children in the dump syntax of engine `xmltb`; output
   `ser=<text>;err=<codes>;tree=<dump>` where err/tree come from running the tree-builder model on the
   assumed lexing (`lexAll`) of the serializer model's events.  `src` mode has no model (`no-model`). -/
namespace H5V.Model.XmlSerDriver
open H5V.Proto H5V.Model.XmlTB H5V.Model.XmlSer H5V.Model.XmlTBDriver

def isWordChar (c : Char) : Bool :=
  ('0' ≤ c && c ≤ '9') || ('a' ≤ c && c ≤ 'f') || c == '.' || c == '-' || c == '~'

def takeWord (s : List Char) : String × List Char :=
  (String.ofList (s.takeWhile isWordChar), s.dropWhile isWordChar)

def expect (lit : List Char) (s : List Char) : Option (List Char) :=
  if lit.isPrefixOf s then some (s.drop lit.length) else none

def pStr (s : List Char) : Option (Str × List Char) :=
  let (w, rest) := takeWord s
  (undhex? w).map (fun x => (x, rest))

def pName (s : List Char) : Option (QName × List Char) := do
  let (w, s) := takeWord s
  let p ← undhexOpt? w
  let s ← expect [':'] s
  let (ns, s) ← pStr s
  let s ← expect [':'] s
  let (l, s) ← pStr s
  pure (⟨p, ns, l⟩, s)

def pAttrs : Nat → List Char → Option (List Attr × List Char)
  | 0, _ => none
  | fuel + 1, s =>
    match s with
    | ' ' :: s => do
      let (n, s) ← pName s
      let s ← expect ['='] s
      let (v, s) ← pStr s
      let (as, s) ← pAttrs fuel s
      pure (⟨n, v⟩ :: as, s)
    | _ => some ([], s)

mutual
def pNode : Nat → List Char → Option (Node × List Char)
  | 0, _ => none
  | fuel + 1, s =>
    match s with
    | 't' :: '[' :: s => do
      let (t, s) ← pStr s
      let s ← expect [']'] s
      pure (.text t, s)
    | 'c' :: '[' :: s => do
      let (t, s) ← pStr s
      let s ← expect [']'] s
      pure (.comment t, s)
    | 'p' :: '[' :: s => do
      let (t, s) ← pStr s
      let s ← expect [':'] s
      let (d, s) ← pStr s
      let s ← expect [']'] s
      pure (.pi t d, s)
    | 'd' :: '[' :: s => do
      let (n, s) ← pStr s
      let s ← expect [':'] s
      let (p, s) ← pStr s
      let s ← expect [':'] s
      let (sy, s) ← pStr s
      let s ← expect [']'] s
      pure (.doctype n p sy, s)
    | 'e' :: '[' :: s => do
      let (n, s) ← pName s
      let (as, s) ← pAttrs (fuel + 1) s
      let s ← expect [']', '('] s
      let (ks, s) ← pNodes fuel s
      let s ← expect [')'] s
      pure (.elem n as ks, s)
    | _ => none
def pNodes : Nat → List Char → Option (List Node × List Char)
  | 0, _ => none
  | fuel + 1, s =>
    match s with
    | [] => some ([], [])
    | ')' :: _ => some ([], s)
    | _ => do
      let (n, s) ← pNode fuel s
      let (ns, s) ← pNodes fuel s
      pure (n :: ns, s)
end

def parseDump? (d : String) : Option (List Node) :=
  if d == "-" then some [] else
  match pNodes (d.length + 2) d.toList with
  | some (ns, []) => some ns
  | _ => none

def runTree (scfg : SerCfg) (lcfg : LexCfg) (tcfg : TbCfg) (dump : String) : String :=
    match parseDump? dump with
    | some doc =>
      let evs := serDoc scfg doc
      let ser := dhex (render scfg evs)
      match run tcfg State.init (lexAll scfg lcfg evs) with
      | .ok s => "ser=" ++ ser ++ ";" ++ dumpState s
      | .error e => "ser=" ++ ser ++ ";PANIC " ++ e
    | none => "bad-case"

/-- `tree` runs the `.current` configuration; `tree+fixed` the model with every proposed fix (no
harness counterpart: used to pre-validate patches against a patched copy of the crates) -/
def runCase (fields : List String) : String :=
  match fields with
  | ["tree", dump] => runTree SerCfg.current LexCfg.current TbCfg.current dump
  | ["tree", dump, _flag] => runTree SerCfg.current LexCfg.current TbCfg.current dump
  | ["tree+fixed", dump] => runTree SerCfg.fixed LexCfg.fixed TbCfg.fixed dump
  | ["tree+fixed", dump, _flag] => runTree SerCfg.fixed LexCfg.fixed TbCfg.fixed dump
  | ["src", _] => "no-model"
  | _ => "bad-case"

end H5V.Model.XmlSerDriver
