import H5V.Proto
import H5V.Model.HtmlTok
/- engine `tok` — HTML tokenizer.
   fields: opts (`exact=0|1,bom=0|1,…`) ; initial state (Rust Debug name or `-`) ;
           last start tag (hex, `~` = None) ; policy (`cdata=0|1;<hexname>=P|R0..R4|S|I;/<hexname>=…`) ;
           chunks (hex strings separated by `|`) ; injections (`k:hex,…` or `-`)
   output: canonical tokens separated by `;`, then ` F=` feed results -/
namespace H5V.Model.HtmlTokDriver
open H5V.Proto H5V.Model.HtmlTok

def allStates : List State :=
  let raw : List RawKind := [.rcdata, .rawtext, .scriptData, .scriptDataEscaped .escaped, .scriptDataEscaped .doubleEscaped]
  let esc : List ScriptEscapeKind := [.escaped, .doubleEscaped]
  let ids : List DoctypeIdKind := [.pub, .sys]
  [.data, .plaintext, .tagOpen, .endTagOpen, .tagName]
  ++ raw.map .rawData ++ raw.map .rawLessThanSign ++ raw.map .rawEndTagOpen ++ raw.map .rawEndTagName
  ++ esc.map .scriptDataEscapeStart ++ [.scriptDataEscapeStartDash]
  ++ esc.map .scriptDataEscapedDash ++ esc.map .scriptDataEscapedDashDash
  ++ [.scriptDataDoubleEscapeEnd, .beforeAttributeName, .attributeName, .afterAttributeName, .beforeAttributeValue]
  ++ [.attributeValue .unquoted, .attributeValue .singleQuoted, .attributeValue .doubleQuoted]
  ++ [.afterAttributeValueQuoted, .selfClosingStartTag, .bogusComment, .markupDeclarationOpen,
      .commentStart, .commentStartDash, .comment, .commentLessThanSign, .commentLessThanSignBang,
      .commentLessThanSignBangDash, .commentLessThanSignBangDashDash, .commentEndDash, .commentEnd,
      .commentEndBang, .doctype, .beforeDoctypeName, .doctypeName, .afterDoctypeName]
  ++ ids.map .afterDoctypeKeyword ++ ids.map .beforeDoctypeIdentifier
  ++ ids.map .doctypeIdentifierDoubleQuoted ++ ids.map .doctypeIdentifierSingleQuoted
  ++ ids.map .afterDoctypeIdentifier
  ++ [.betweenDoctypePublicAndSystemIdentifiers, .bogusDoctype, .cdataSection, .cdataSectionBracket, .cdataSectionEnd]

def parseState (s : String) : Option State :=
  allStates.find? (fun st => st.dbg == s)

def parseRes (s : String) : Option SinkRes :=
  match s with
  | "P" => some .plaintext
  | "R0" => some (.rawData .rcdata)
  | "R1" => some (.rawData .rawtext)
  | "R2" => some (.rawData .scriptData)
  | "R3" => some (.rawData (.scriptDataEscaped .escaped))
  | "R4" => some (.rawData (.scriptDataEscaped .doubleEscaped))
  | "S" => some .script
  | "I" => some .indicator
  | "C" => some .continue_
  | _ => none

structure Rules where
  cdata : Bool := false
  rules : List (Bool × Str × SinkRes) := []   -- (isEndTag, name, result)

def parseRules (s : String) : Option Rules :=
  let parts := (s.splitOn ";").filter (· ≠ "")
  parts.foldlM (fun (r : Rules) p =>
    match p.splitOn "=" with
    | ["cdata", v] => some { r with cdata := v == "1" }
    | [name, res] =>
      let isEnd := name.startsWith "/"
      let nm := if isEnd then (name.drop 1).toString else name
      match parseChars? nm, parseRes res with
      | some n, some rs => some { r with rules := r.rules ++ [(isEnd, n, rs)] }
      | _, _ => none
    | _ => none) {}

def polOf (r : Rules) : Pol :=
  { cdataOk := fun _ => r.cdata
    onTag := fun _ t =>
      match r.rules.find? (fun x => x.1 == (t.kind == .endTag) && x.2.1 == t.name) with
      | some x => x.2.2
      | none => .continue_ }

def optStr : Option Str → String
  | none => "~"
  | some s => showChars s

def showTok : Token × Nat → String
  | (.chars s, l) => s!"C:{showChars s}@{l}"
  | (.nullChar, l) => s!"N@{l}"
  | (.tag t, l) =>
    let k := if t.kind == .startTag then "s" else "e"
    let attrs := ",".intercalate (t.attrs.map fun a => showChars a.name ++ "=" ++ showChars a.value)
    s!"T:{k}:{showChars t.name}:{if t.selfClosing then 1 else 0}:{if t.hadDup then 1 else 0}:[{attrs}]@{l}"
  | (.comment s, l) => s!"M:{showChars s}@{l}"
  | (.doctype d, l) => s!"D:{optStr d.name}:{optStr d.publicId}:{optStr d.systemId}:{if d.forceQuirks then 1 else 0}@{l}"
  | (.error e, l) => s!"E:{showChars e}@{l}"
  | (.eof, l) => s!"EOF@{l}"
  | (.pause sc, l) => s!"P:{if sc then "s" else "i"}@{l}"

/-- merge adjacent character tokens; the merged token carries the line of its last piece -/
def canon : List (Token × Nat) → List (Token × Nat)
  | (.chars a, _) :: (.chars b, l2) :: rest => canon ((.chars (a ++ b), l2) :: rest)
  | x :: rest => x :: canon rest
  | [] => []
termination_by l => l.length

def showOut (out : Out) : String :=
  ";".intercalate ((canon out.reverse).map showTok)

def parseInj (s : String) : Option (List (Nat × Str)) :=
  if s.trimAscii.toString == "-" || s.isEmpty then some [] else
  (s.splitOn ",").mapM fun p =>
    match p.splitOn ":" with
    | [k, h] => match k.toNat?, parseChars? h with
      | some k, some h => some (k, h)
      | _, _ => none
    | _ => none

/-- feed one chunk, resuming after every pause (with injection at the front of the input) -/
def feedChunk (o : Opts) (pol : Pol) (inj : List (Nat × Str)) :
    Nat → Mach → Str → Str → Nat → List String → Except String (Mach × Str × Nat × List String)
  | 0, _, _, _, _, _ => .error "too-many-pauses"
  | fuel + 1, m, inp, chunk, pauses, log =>
    let injected (inp : Str) : Str := match inj.find? (·.1 == pauses) with
      | some (_, s) => s ++ inp
      | none => inp
    match feed o pol m inp chunk with
    | .done m inp => .ok (m, inp, pauses, "D" :: log)
    | .script m inp => feedChunk o pol inj fuel m (injected inp) [] (pauses + 1) ("S" :: log)
    | .indicator m inp => feedChunk o pol inj fuel m (injected inp) [] (pauses + 1) ("I" :: log)
    | .panic e => .error ("PANIC " ++ e)
    | .outOfFuel => .error "OUT-OF-FUEL"

def getOpt (opts : List (String × String)) (k : String) (d : Bool) : Bool :=
  match opts.find? (·.1 == k) with
  | some (_, v) => v == "1"
  | none => d

def runCase (fields : List String) : String :=
  match fields with
  | [optsS, stateS, lastS, polS, chunksS, injS] =>
    let opts := (optsS.splitOn ",").filterMap fun p =>
      match p.splitOn "=" with | [k, v] => some (k, v) | _ => none
    let o : Opts := { exactErrors := getOpt opts "exact" false }
    let st := if stateS == "-" then some State.data else parseState stateS
    let last : Option (Option Str) := if lastS == "~" then some none else (parseChars? lastS).map some
    let chunks := (chunksS.splitOn "|").mapM parseChars?
    match st, last, parseRules polS, chunks, parseInj injS with
    | some st, some last, some rules, some chunks, some inj =>
      let pol := polOf rules
      let m0 : Mach := { state := st, lastStartTag := last, discardBom := getOpt opts "bom" true }
      let r := chunks.foldlM (fun (acc : Mach × Str × Nat × List String) ch =>
        feedChunk o pol inj 64 acc.1 acc.2.1 ch acc.2.2.1 acc.2.2.2) (m0, [], 0, [])
      match r with
      | .error e => e
      | .ok (m, inp, _, log) =>
        if !inp.isEmpty then "QUEUE-NOT-DRAINED" else
        if !(getOpt opts "end" true) then showOut m.out ++ " F=" ++ ",".intercalate log.reverse else
        match finish o pol m with
        | .error e => "PANIC " ++ e
        | .ok m => showOut m.out ++ " F=" ++ ",".intercalate log.reverse
    | _, _, _, _, _ => "bad-case"
  | _ => "bad-case"

end H5V.Model.HtmlTokDriver
