import H5V.Proto
/- engine `tok` (stub) -/
namespace H5V.Model.HtmlTokDriver

def runCase (_fields : List String) : String := "unimplemented"

end H5V.Model.HtmlTokDriver
