import H5V.Proto
import H5V.Model.Meta
/- engine `meta`:
   `extract <content bytes hex>` → `some <label bytes hex>` | `none` (model of encoding.rs)
   `doc …` exercises the real tokenizer + tree builder only (no model here): `no-model`. -/
namespace H5V.Model.MetaDriver
open H5V.Proto H5V.Model.Meta

def parseByte? (n : Nat) : Option UInt8 := if n < 256 then some (UInt8.ofNat n) else none

def parseBytesStrict? (s : String) : Option (List UInt8) :=
  (parseNums? s).bind (·.mapM parseByte?)

def runCase (fields : List String) : String :=
  match fields with
  | ["extract", hex] =>
    match parseBytesStrict? hex with
    | none => "bad-case"
    | some bs =>
      match extract bs with
      | .error e => "PANIC " ++ e
      | .ok none => "none"
      | .ok (some l) => "some " ++ showBytes l
  | ["doc", _, _] => "no-model"
  | _ => "bad-case"

end H5V.Model.MetaDriver
