import H5V.Proto
/- engine `meta` (stub) -/
namespace H5V.Model.MetaDriver

def runCase (_fields : List String) : String := "unimplemented"

end H5V.Model.MetaDriver
