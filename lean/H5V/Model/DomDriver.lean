import H5V.Proto
/- engine `rcdom` (stub) -/
namespace H5V.Model.DomDriver

def runCase (_fields : List String) : String := "unimplemented"

end H5V.Model.DomDriver
