import H5V.Proto
import H5V.Model.Dom
/- engine `rcdom`: replay of a TreeSink call trace on the model of RcDom.

   case  = `rcdom<TAB>ops<TAB>op;op;…`   (`-` = no ops)
   Nodes are named by *handle numbers*: h0 = the document, every `create_*` call yields the next
   number (a template element yields two: the element, then its template contents).  Text nodes
   made by the sink and clones have no handle.
   ops (fields separated by `,`; strings hex; qualified name `prefix/ns/local`, prefix `~` = None;
   attribute list `qn=value&qn=value` or `-`; child = `n<h>` | `t<hex>`):
     pe,<msg>  doc  en,<h>  ce,<qn>,<flags: subset of tmd or ->,<attrs>  cc,<text>  cp,<target>,<data>
     ap,<parent>,<child>  abp,<element>,<prev>,<child>  dt,<name>,<public>,<system>  ms,<h>  pop,<h>
     tc,<h>  sn,<x>,<y>  qm,<q|l|n>  abs,<sibling>,<child>  aa,<h>,<attrs>  af,<t>,<form>,<node>,<prev|->
     rm,<h>  rc,<node>,<newparent>  ip,<h>  ln,<decimal>  adsr,<h>  ads,<loc>,<template>,<attrs>  mc,<h>
   output = `r;r;…@N=…@Q=…@E=…@S=…` — per op `ok` | `h<k>` | `T` | `F` | `n:<ns>/<local>` |
   `PANIC:<class>` (the replay stops there, no dump), prefixed by `!` when the call violates
   `Contract`; N = every node in canonical numbering (handles first, then breadth-first discovery
   through child lists) `num#data#template-contents#parent#children`; S = for every parentless
   handle the serializer calls (`ChildrenOnly` for documents, `IncludeNode` otherwise). -/
namespace H5V.Model.DomDriver
open H5V.Proto H5V.Model.Dom

def parseStr? (s : String) : Option Str := parseChars? s

def parseQual? (s : String) : Option QualName :=
  match s.splitOn "/" with
  | [p, ns, loc] => do
    let pfx ← if p == "~" then some none else (parseStr? p).map some
    let ns ← parseStr? ns
    let loc ← parseStr? loc
    some { pfx := pfx, ns := ns, loc := loc }
  | _ => none

def parseAttrs? (s : String) : Option (List Attr) :=
  if s == "-" then some [] else
  (s.splitOn "&").mapM (fun a =>
    match a.splitOn "=" with
    | [q, v] => do
      let q ← parseQual? q
      let v ← parseStr? v
      some { name := q, value := v }
    | _ => none)

def parseFlags? (s : String) : Option ElementFlags :=
  if s == "-" then some {} else
  if s.toList.all (fun c => c == 't' || c == 'm' || c == 'd') then
    some { template := s.toList.contains 't', mathmlIP := s.toList.contains 'm',
           hadDuplicateAttributes := s.toList.contains 'd' }
  else none

structure St where
  dom : Dom
  handles : Array Id

def handle? (st : St) (s : String) : Option Id := do
  let k ← s.toNat?
  st.handles[k]?

def parseChild? (st : St) (s : String) : Option NodeOrText :=
  match s.toList with
  | 'n' :: rest => (handle? st (String.ofList rest)).map .node
  | 't' :: rest => (parseStr? (String.ofList rest)).map .text
  | _ => none

def parseQuirks? : String → Option QuirksMode
  | "q" => some .quirks | "l" => some .limitedQuirks | "n" => some .noQuirks | _ => none

def parseOp? (st : St) (op : String) : Option SinkOp :=
  match op.splitOn "," with
  | ["pe", m] => (parseStr? m).map .parseError
  | ["doc"] => some .getDocument
  | ["en", h] => (handle? st h).map .elemName
  | ["ce", q, f, a] => do some (.createElement (← parseQual? q) (← parseAttrs? a) (← parseFlags? f))
  | ["cc", t] => (parseStr? t).map .createComment
  | ["cp", t, d] => do some (.createPi (← parseStr? t) (← parseStr? d))
  | ["ap", p, c] => do some (.append (← handle? st p) (← parseChild? st c))
  | ["abp", e, p, c] => do some (.appendBasedOnParentNode (← handle? st e) (← handle? st p) (← parseChild? st c))
  | ["dt", n, p, s] => do some (.appendDoctypeToDocument (← parseStr? n) (← parseStr? p) (← parseStr? s))
  | ["ms", h] => (handle? st h).map .markScriptAlreadyStarted
  | ["pop", h] => (handle? st h).map .pop
  | ["tc", h] => (handle? st h).map .getTemplateContents
  | ["sn", x, y] => do some (.sameNode (← handle? st x) (← handle? st y))
  | ["qm", m] => (parseQuirks? m).map .setQuirksMode
  | ["abs", s, c] => do some (.appendBeforeSibling (← handle? st s) (← parseChild? st c))
  | ["aa", h, a] => do some (.addAttrsIfMissing (← handle? st h) (← parseAttrs? a))
  | ["af", t, f, n, p] => do
      let p ← if p == "-" then some none else (handle? st p).map some
      some (.associateWithForm (← handle? st t) (← handle? st f) (← handle? st n) p)
  | ["rm", h] => (handle? st h).map .removeFromParent
  | ["rc", n, p] => do some (.reparentChildren (← handle? st n) (← handle? st p))
  | ["ip", h] => (handle? st h).map .isMathmlAnnotationXmlIntegrationPoint
  | ["ln", n] => n.toNat?.map .setCurrentLine
  | ["adsr", h] => (handle? st h).map .allowDeclarativeShadowRoots
  | ["ads", l, t, a] => do some (.attachDeclarativeShadow (← handle? st l) (← handle? st t) (← parseAttrs? a))
  | ["mc", h] => (handle? st h).map .maybeCloneAnOptionIntoSelectedcontent
  | _ => none

def showHandle (st : St) (id : Id) : String :=
  match st.handles.toList.idxOf? id with
  | some k => "h" ++ toString k
  | none => "h?"

def errClass (e : String) : String := (e.splitOn ":").headD "?"

/-- run one op: `none` = malformed, otherwise (new state, output token, panicked?) -/
def runOp (st : St) (op : String) : Option (St × String × Bool) := do
  let sop ← parseOp? st op
  let flag := if st.dom.contractOk sop then "" else "!"
  match st.dom.apply sop with
  | .error e => some (st, flag ++ "PANIC:" ++ errClass e, true)
  | .ok (d, out) =>
    match sop, out with
    | .createElement .., .node id =>
      let hs := st.handles.push id
      let hs := match d.templateContentsOf id with | some tc => hs.push tc | none => hs
      some ({ dom := d, handles := hs }, flag ++ "h" ++ toString st.handles.size, false)
    | .createComment _, .node id | .createPi _ _, .node id =>
      some ({ dom := d, handles := st.handles.push id }, flag ++ "h" ++ toString st.handles.size, false)
    | _, .node id => some ({ st with dom := d }, flag ++ showHandle st id, false)
    | _, .unit => some ({ st with dom := d }, flag ++ "ok", false)
    | _, .bool b => some ({ st with dom := d }, flag ++ (if b then "T" else "F"), false)
    | _, .name ns loc => some ({ st with dom := d }, flag ++ "n:" ++ Dom.hexStr ns ++ "/" ++ Dom.hexStr loc, false)

/-- canonical numbering: the handles, then breadth-first discovery through child lists -/
def discover (d : Dom) : Nat → Nat → Array Id → Array Id
  | 0, _, order => order
  | fuel + 1, i, order =>
    match order[i]? with
    | none => order
    | some x =>
      let order := (d.childrenOf x).foldl (fun (o : Array Id) c => if o.contains c then o else o.push c) order
      discover d fuel (i + 1) order

def numOf (order : Array Id) (id : Id) : String :=
  match order.toList.idxOf? id with
  | some k => toString k
  | none => "?"

def showNodes (d : Dom) (order : Array Id) : String :=
  "|".intercalate (order.toList.zipIdx.map (fun (id, k) =>
    match d.node? id with
    | none => toString k ++ "#?"
    | some n =>
      toString k ++ "#" ++ Dom.dataStr n.data ++ "#"
        ++ (match n.data with | .element _ _ (some tc) _ => numOf order tc | _ => "-") ++ "#"
        ++ (match n.parent with | none => "-" | some p => numOf order p) ++ "#"
        ++ (if n.children.isEmpty then "-" else " ".intercalate (n.children.map (numOf order)))))

def showEvent (d : Dom) : SerEvent → String
  | .startElem x => match d.dataOf x with
      | some (.element n as _ _) => "S" ++ Dom.qualNameStr n ++ "[" ++ Dom.attrsStr as ++ "]"
      | _ => "S?"
  | .endElem n => "E" ++ Dom.qualNameStr n
  | .doctype x => match d.dataOf x with | some (.doctype n _ _) => "D" ++ Dom.hexStr n | _ => "D?"
  | .text x => match d.dataOf x with | some (.text s) => "T" ++ Dom.hexStr s | _ => "T?"
  | .comment x => match d.dataOf x with | some (.comment s) => "C" ++ Dom.hexStr s | _ => "C?"
  | .pi x => match d.dataOf x with | some (.pi t c) => "P" ++ Dom.hexStr t ++ "," ++ Dom.hexStr c | _ => "P?"

def showSer (st : St) : String :=
  "|".intercalate (st.handles.toList.zipIdx.filterMap (fun (id, k) =>
    match st.dom.node? id with
    | none => none
    | some n =>
      if n.parent.isSome then none else
      let scope := match n.data with | .document => TraversalScope.childrenOnly | _ => .includeNode
      some ("h" ++ toString k ++ ":" ++
        (match st.dom.serialize scope id with
         | .ok ev => if ev.isEmpty then "-" else "+".intercalate (ev.map (showEvent st.dom))
         | .error e => "PANIC:" ++ errClass e))))

def showQuirks : QuirksMode → String
  | .quirks => "quirks" | .limitedQuirks => "limited" | .noQuirks => "no"

def finalDump (st : St) : String :=
  let order := discover st.dom (st.dom.size + 1) 0 st.handles
  "@N=" ++ showNodes st.dom order
    ++ "@Q=" ++ showQuirks st.dom.quirks
    ++ "@E=" ++ (if st.dom.errorsRev.isEmpty then "-" else "|".intercalate (st.dom.errorsRev.reverse.map Dom.hexStr))
    ++ "@S=" ++ showSer st

def runOps (st : St) (outs : List String) : List String → String
  | [] => ";".intercalate outs.reverse ++ finalDump st
  | op :: ops =>
    match runOp st op with
    | none => "bad-op"
    | some (st', o, panicked) =>
      if panicked then ";".intercalate (o :: outs).reverse
      else runOps st' (o :: outs) ops

def runCase (fields : List String) : String :=
  match fields with
  | ["ops", ops] =>
    let st : St := { dom := Dom.new, handles := #[Dom.document] }
    if ops == "-" then runOps st [] [] else runOps st [] (ops.splitOn ";")
  | _ => "bad-case"

end H5V.Model.DomDriver
