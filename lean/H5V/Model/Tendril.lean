/-
Model of the `tendril` crate: `tendril/src/tendril.rs`, `buf32.rs`, `fmt.rs`, `futf.rs` (the parts
`fmt.rs` uses), `util.rs`.

* The allocator is an index-checked arena: `Heap.bufs : List Buf`, a buffer id is its index, ids are
  never reused (a freed buffer stays in the list with `live = false`).  `Buf.data` is the
  initialised prefix of the payload, `Buf.cap` the true payload capacity of the allocation,
  `Buf.hdrCap` the `Header.cap` field, `Buf.refcount` the `Header.refcount` field.
* Every raw-pointer access of the Rust goes through a checked primitive (`Heap.read`, `Heap.write`,
  `Heap.free`, `Heap.incref`, …).  A primitive that would be undefined behaviour in Rust (wild
  pointer, use after free, double free, dealloc with the wrong layout, read of uninitialised bytes,
  write beyond the capacity, refcount underflow) returns `Fault.ub site`; a Rust panic
  (`expect(OFLOW)`, `assert!`, `unwrap`) returns `Fault.panic site`.
* `Heap.trace` is the allocation ledger (newest event first): alloc / free / write / incref /
  decref.  Reads are checked but not logged.
* A tendril value `T` is exactly the three representations of `tendril.rs`:
  `inline` (tag ≤ 0xF), `owned` (`aux` = capacity), `shared` (`aux` = offset, capacity in the header).
* Sizes are `Nat`; the places where the Rust does *checked* `u32` arithmetic are explicit panic
  branches.  `size_of::<Header<A>>() = 16` (64-bit target) is built into `roundCap`.
* A `Format` is the dictionary of the `fmt::Format` / `CharFormat` methods; instances for
  Bytes, ASCII, Latin1, UTF8, WTF8 follow `fmt.rs`; `classify`/`decode` follow `futf.rs`
  (masks and shifts written as `%`, `*` on `Nat`).  `str::from_utf8(..).is_ok()` is modelled by
  `validUtf8` (Unicode Table 3-7 of well-formed byte sequences), `str::char_indices` by the same
  table-driven decoder.
* Abstracted: pointer provenance, the `transmute`s between formats / atomicities (identity here),
  `Vec`/allocator internals (`with_capacity` gives exactly the requested capacity, `reserve_exact`
  reallocates = fresh id + copy + free), atomics (a linearised counter, see `Props/C12.lean`).
  On a panic the model discards the partially updated state (the step function keeps the old
  state); the only panic raised after a mutation in the Rust is `OFLOW` inside `grow` (after
  `make_owned`, which preserves the bytes), unreachable below 2 GiB.
-/
namespace H5V.Model.Tendril

inductive Fault where
  | panic (site : String)
  | ub (site : String)
deriving Repr, DecidableEq

abbrev M := Except Fault

/-! ## the heap -/

structure Buf where
  data : List UInt8
  cap : Nat
  hdrCap : Nat
  refcount : Nat
  live : Bool
deriving Repr, DecidableEq

inductive Event where
  | alloc (id cap : Nat)
  | free (id cap : Nat)
  | write (id lo hi : Nat)
  | incref (id old : Nat)
  | decref (id old : Nat)
deriving Repr, DecidableEq

structure Heap where
  bufs : List Buf
  trace : List Event
deriving Repr, DecidableEq

def Heap.empty : Heap := ⟨[], []⟩

/-- dereference of a header pointer -/
def Heap.get (h : Heap) (id : Nat) (site : String) : M Buf :=
  match h.bufs[id]? with
  | none => .error (.ub (site ++ ": wild pointer"))
  | some b => if b.live then .ok b else .error (.ub (site ++ ": use after free"))

/-- `Vec::<Header>::with_capacity` + `ptr::write(ptr, Header::new())`: refcount 1, header cap 0 -/
def Heap.alloc (h : Heap) (cap : Nat) : Heap × Nat :=
  (⟨h.bufs ++ [⟨[], cap, 0, 1, true⟩], .alloc h.bufs.length cap :: h.trace⟩, h.bufs.length)

/-- read of payload bytes `[lo, hi)`; they must be initialised -/
def Heap.read (h : Heap) (id lo hi : Nat) (site : String) : M (List UInt8) := do
  let b ← h.get id site
  if lo ≤ hi ∧ hi ≤ b.data.length ∧ hi ≤ b.cap then
    .ok ((b.data.drop lo).take (hi - lo))
  else .error (.ub (site ++ ": read outside initialised data"))

/-- `ptr::copy_nonoverlapping` of `bytes` to payload offset `pos` (extends the initialised prefix) -/
def Heap.write (h : Heap) (id pos : Nat) (bytes : List UInt8) (site : String) : M Heap := do
  let b ← h.get id site
  if pos ≤ b.data.length ∧ pos + bytes.length ≤ b.cap then
    .ok ⟨h.bufs.set id { b with data := b.data.take pos ++ bytes },
         .write id pos (pos + bytes.length) :: h.trace⟩
  else .error (.ub (site ++ ": write outside capacity"))

/-- in-place byte store through `DerefMut` (`as_mut_byte_slice`), index already bounds-checked
against the slice length by the caller -/
def Heap.poke (h : Heap) (id pos : Nat) (v : UInt8) (site : String) : M Heap := do
  let b ← h.get id site
  if pos < b.data.length ∧ pos < b.cap then
    .ok ⟨h.bufs.set id { b with data := b.data.set pos v }, .write id pos (pos + 1) :: h.trace⟩
  else .error (.ub (site ++ ": store outside initialised data"))

/-- `Buf32::destroy`: `Vec::from_raw_parts(ptr, 1, bytes_to_vec_capacity(cap))` dropped -/
def Heap.free (h : Heap) (id cap : Nat) (site : String) : M Heap := do
  let b ← h.get id (site ++ " (free)")
  if cap = b.cap then
    .ok ⟨h.bufs.set id { b with live := false }, .free id cap :: h.trace⟩
  else .error (.ub (site ++ ": dealloc with wrong layout"))

/-- `refcount.increment()` -/
def Heap.incref (h : Heap) (id : Nat) (site : String) : M Heap := do
  let b ← h.get id site
  .ok ⟨h.bufs.set id { b with refcount := b.refcount + 1 }, .incref id b.refcount :: h.trace⟩

/-- `refcount.decrement()`, returns the previous value -/
def Heap.decref (h : Heap) (id : Nat) (site : String) : M (Heap × Nat) := do
  let b ← h.get id site
  if b.refcount = 0 then .error (.ub (site ++ ": refcount underflow"))
  else .ok (⟨h.bufs.set id { b with refcount := b.refcount - 1 }, .decref id b.refcount :: h.trace⟩,
            b.refcount)

/-- `(*header).cap = cap` -/
def Heap.setHdrCap (h : Heap) (id cap : Nat) (site : String) : M Heap := do
  let b ← h.get id site
  .ok ⟨h.bufs.set id { b with hdrCap := cap }, h.trace⟩

/-- `(*header).cap` -/
def Heap.getHdrCap (h : Heap) (id : Nat) (site : String) : M Nat := do
  let b ← h.get id site
  .ok b.hdrCap

/-- `Vec::reserve_exact` on `Vec::from_raw_parts(ptr, 0, old)`: a `realloc`, modelled as a fresh
allocation carrying header and payload over, followed by the release of the old block -/
def Heap.realloc (h : Heap) (id oldCap newCap : Nat) (site : String) : M (Heap × Nat) := do
  let b ← h.get id site
  if oldCap = b.cap then
    let nid := h.bufs.length
    .ok (⟨(h.bufs.set id { b with live := false }) ++ [{ b with cap := newCap }],
          .free id oldCap :: .alloc nid newCap :: h.trace⟩, nid)
  else .error (.ub (site ++ ": realloc with wrong layout"))

/-! ## buf32.rs -/

/-- `vec_capacity_to_bytes(bytes_to_vec_capacity(x))` for a 16-byte header: round up to 16 -/
def roundCap (x : Nat) : Nat := ((x + 15) / 16) * 16

/-- `Buf32::with_capacity(cap, Header::new())` -/
def buf32WithCapacity (h : Heap) (cap : Nat) : M (Heap × Nat × Nat) :=
  let cap := if cap < 16 then 16 else cap
  let c := roundCap cap
  if c > 4294967295 then .error (.panic "OFLOW: vec_capacity_to_bytes")
  else
    let (h, id) := h.alloc c
    .ok (h, id, c)

/-- `u32::checked_next_power_of_two` -/
def nextPow2Fuel : Nat → Nat → Nat → Nat
  | 0, p, _ => p
  | f + 1, p, n => if n ≤ p then p else nextPow2Fuel f (2 * p) n

def nextPow2 (n : Nat) : Nat := nextPow2Fuel 33 1 n

/-- `Buf32::grow(new_cap)` on the buffer `id` of capacity `cap` -/
def buf32Grow (h : Heap) (id cap newCap : Nat) : M (Heap × Nat × Nat) :=
  if newCap ≤ cap then .ok (h, id, cap)
  else
    let np := nextPow2 newCap
    if np > 4294967295 then .error (.panic "OFLOW: checked_next_power_of_two")
    else
      let c := roundCap np
      if c > 4294967295 then .error (.panic "OFLOW: vec_capacity_to_bytes")
      else do
        let (h, nid) ← h.realloc id cap c "grow"
        .ok (h, nid, c)

/-! ## the tendril value -/

inductive T where
  | inline (bs : List UInt8)
  | owned (id len cap : Nat)
  | shared (id off len : Nat)
deriving Repr, DecidableEq

def T.len32 : T → Nat
  | .inline bs => bs.length
  | .owned _ len _ => len
  | .shared _ _ len => len

def T.isShared : T → Bool
  | .shared .. => true
  | _ => false

def T.bufId? : T → Option Nat
  | .inline _ => none
  | .owned id _ _ => some id
  | .shared id _ _ => some id

/-- `Tendril::inline(x)`: copies `x.len()` bytes into the 8-byte union field -/
def mkInline (x : List UInt8) (site : String) : M T :=
  if x.length ≤ 8 then .ok (.inline x) else .error (.ub (site ++ ": inline copy of more than 8 bytes"))

/-- `assume_buf`: (id, Buf32.len, Buf32.cap, shared, offset) -/
def assumeBuf (h : Heap) (t : T) (site : String) : M (Nat × Nat × Nat × Bool × Nat) :=
  match t with
  | .inline _ => .error (.ub (site ++ ": assume_buf on an inline tendril"))
  | .owned id len cap => .ok (id, len, cap, false, 0)
  | .shared id off len => do
    let c ← h.getHdrCap id site
    .ok (id, off + len, c, true, off)

/-- `as_byte_slice` -/
def asByteSlice (h : Heap) (t : T) : M (List UInt8) :=
  match t with
  | .inline bs => .ok bs
  | _ => do
    let (id, blen, _, _, off) ← assumeBuf h t "as_byte_slice"
    -- `buf.data()` is `[0, blen)`, then `unsafe_slice(.., offset, len32)`
    let _ ← h.read id 0 blen "as_byte_slice/data"
    h.read id off (off + t.len32) "as_byte_slice"

/-- `Drop for Tendril` -/
def dropT (h : Heap) (t : T) : M Heap :=
  match t with
  | .inline _ => .ok h
  | _ => do
    let (id, _, cap, shared, _) ← assumeBuf h t "drop"
    if shared then
      let (h, old) ← h.decref id "drop"
      if old = 1 then h.free id cap "drop" else .ok h
    else h.free id cap "drop"

/-- `owned_copy(x)` -/
def ownedCopy (h : Heap) (x : List UInt8) : M (Heap × T) := do
  let (h, id, cap) ← buf32WithCapacity h x.length
  let h ← h.write id 0 x "owned_copy"
  .ok (h, .owned id x.length cap)

/-- `make_buf_shared` -/
def makeBufShared (h : Heap) (t : T) (site : String) : M (Heap × T) :=
  match t with
  | .inline _ => .error (.ub (site ++ ": make_buf_shared on an inline tendril"))
  | .owned id len cap => do
    let h ← h.setHdrCap id cap site
    .ok (h, .shared id 0 len)
  | .shared .. => .ok (h, t)

/-- `incref` -/
def increfT (h : Heap) (t : T) (site : String) : M Heap :=
  match t.bufId? with
  | none => .error (.ub (site ++ ": incref on an inline tendril"))
  | some id => h.incref id site

/-- `Clone`: returns (heap, self afterwards, the clone) -/
def cloneT (h : Heap) (t : T) : M (Heap × T × T) :=
  match t with
  | .inline _ => .ok (h, t, t)
  | _ => do
    let (h, t) ← makeBufShared h t "clone"
    let h ← increfT h t "clone"
    .ok (h, t, t)

/-- `make_owned` -/
def makeOwned (h : Heap) (t : T) : M (Heap × T) :=
  match t with
  | .owned .. => .ok (h, t)
  | _ => do
    let bs ← asByteSlice h t
    let (h, t') ← ownedCopy h bs
    let h ← dropT h t      -- `*self = …` drops the old value
    .ok (h, t')

/-- `make_owned_with_capacity(cap)` -/
def makeOwnedWithCapacity (h : Heap) (t : T) (cap : Nat) : M (Heap × T) := do
  let (h, t) ← makeOwned h t
  match t with
  | .owned id len c =>
    let (h, id, c) ← buf32Grow h id c cap
    .ok (h, .owned id len c)
  | _ => .error (.ub "make_owned_with_capacity: not owned after make_owned")

/-! ## formats -/

structure Fixup where
  dropLeft : Nat := 0
  dropRight : Nat := 0
  insert : List UInt8 := []
deriving Repr, DecidableEq

structure Format where
  name : String
  validate : List UInt8 → Bool
  validatePrefix : List UInt8 → Bool
  validateSuffix : List UInt8 → Bool
  validateSubseq : List UInt8 → Bool
  fixup : List UInt8 → List UInt8 → Fixup
  /-- `CharFormat::char_indices` on validated bytes: `(byte index, code point)`; `none` = the format
  has no `CharFormat` impl, or the bytes are not valid (undefined behaviour in the Rust) -/
  charIndices : List UInt8 → Option (List (Nat × Nat))
  /-- `CharFormat::encode_char`; `none` = `Err(())` -/
  encodeChar : Nat → Option (List UInt8)

/-! ### futf.rs -/

inductive ByteK where
  | ascii | start (n : Nat) | cont
deriving Repr, DecidableEq

/-- `Byte::classify` -/
def byteK (x : UInt8) : Option ByteK :=
  let n := x.toNat
  if n < 0x80 then some .ascii
  else if n < 0xC0 then some .cont
  else if n < 0xE0 then some (.start 2)
  else if n < 0xF0 then some (.start 3)
  else if n < 0xF8 then some (.start 4)
  else none

def isCont (x : UInt8) : Bool := 0x80 ≤ x.toNat && x.toNat < 0xC0

inductive Meaning where
  | whole (c : Nat)
  | lead (n : Nat)
  | trail (n : Nat)
  | pfx (need : Nat)
  | sfx
deriving Repr, DecidableEq

/-- `char::from_u32(n).map(Whole)` -/
def wholeOf (n : Nat) : Option Meaning :=
  if n ≤ 0x10FFFF ∧ ¬ (0xD800 ≤ n ∧ n ≤ 0xDFFF) then some (.whole n) else none

/-- `futf::decode` (the caller has checked start byte and continuation bytes) -/
def decode : List UInt8 → Option Meaning
  | [a, b] =>
    let n := (a.toNat % 32) * 64 + b.toNat % 64
    if n < 0x80 then none else wholeOf n
  | [a, b, c] =>
    let n := (a.toNat % 16) * 4096 + (b.toNat % 64) * 64 + c.toNat % 64
    if n ≤ 0x7FF then none
    else if 0xD800 ≤ n ∧ n ≤ 0xDBFF then some (.lead (n - 0xD800))
    else if 0xDC00 ≤ n ∧ n ≤ 0xDFFF then some (.trail (n - 0xDC00))
    else wholeOf n
  | [a, b, c, d] =>
    let n := (a.toNat % 8) * 262144 + (b.toNat % 64) * 4096 + (c.toNat % 64) * 64 + d.toNat % 64
    if n < 0x10000 then none else wholeOf n
  | _ => none

structure Codepoint where
  start : Nat          -- index of the first byte (`idx - rewind`)
  len : Nat            -- `bytes.len()`
  meaning : Meaning
deriving Repr, DecidableEq

/-- a multi-byte sequence starting at `start` whose start byte announces `n` bytes; `checked` bytes
after the start byte are already known to be continuation bytes -/
def classifyAt (buf : List UInt8) (start n checked : Nat) : Option Codepoint :=
  let avail := buf.length - start
  if avail ≥ n then
    let bytes := (buf.drop start).take n
    if (bytes.drop checked).all isCont then
      (decode bytes).map (fun m => ⟨start, n, m⟩)
    else none
  else some ⟨start, avail, .pfx (n - avail)⟩

/-- the backward scan of `futf::classify` for a continuation byte at `idx`; the argument is the
current `start` (counted down) -/
def classifyBack (buf : List UInt8) (idx : Nat) : Nat → Option Codepoint
  | 0 => some ⟨0, idx + 1, .sfx⟩
  | s + 1 =>
    match buf[s]? with
    | none => none
    | some x =>
      match byteK x with
      | some .cont => if idx - s ≥ 3 then none else classifyBack buf idx s
      | some (.start n) => classifyAt buf s n (idx - s + 1)
      | _ => none

/-- `futf::classify(buf, idx)` -/
def classify (buf : List UInt8) (idx : Nat) : Option Codepoint :=
  match buf[idx]? with
  | none => none
  | some x =>
    match byteK x with
    | none => none
    | some .ascii => some ⟨idx, 1, .whole x.toNat⟩
    | some (.start n) => classifyAt buf idx n 1
    | some .cont => classifyBack buf idx idx

def isWhole : Option Codepoint → Bool
  | some ⟨_, _, .whole _⟩ => true
  | _ => false

def wtf8Meaningful : Meaning → Bool
  | .whole _ | .lead _ | .trail _ => true
  | _ => false

/-! ### UTF-8 well-formedness (Unicode Table 3-7) — the model of `str::from_utf8` -/

def inR (x : UInt8) (lo hi : Nat) : Bool := lo ≤ x.toNat && x.toNat ≤ hi

/-- length and scalar value of the well-formed UTF-8 sequence at the head of the list -/
def utf8Head : List UInt8 → Option (Nat × Nat)
  | [] => none
  | a :: rest =>
    if a.toNat < 0x80 then some (1, a.toNat)
    else match rest with
      | [] => none
      | b :: rest =>
        if inR a 0xC2 0xDF then
          if inR b 0x80 0xBF then some (2, (a.toNat % 32) * 64 + b.toNat % 64) else none
        else match rest with
          | [] => none
          | c :: rest =>
            if (inR a 0xE0 0xE0 && inR b 0xA0 0xBF || inR a 0xE1 0xEC && inR b 0x80 0xBF
                || inR a 0xED 0xED && inR b 0x80 0x9F || inR a 0xEE 0xEF && inR b 0x80 0xBF) then
              if inR c 0x80 0xBF then
                some (3, (a.toNat % 16) * 4096 + (b.toNat % 64) * 64 + c.toNat % 64) else none
            else match rest with
              | [] => none
              | d :: _ =>
                if (inR a 0xF0 0xF0 && inR b 0x90 0xBF || inR a 0xF1 0xF3 && inR b 0x80 0xBF
                    || inR a 0xF4 0xF4 && inR b 0x80 0x8F) && inR c 0x80 0xBF && inR d 0x80 0xBF then
                  some (4, (a.toNat % 8) * 262144 + (b.toNat % 64) * 4096 + (c.toNat % 64) * 64
                           + d.toNat % 64)
                else none

/-- decode a whole buffer from byte index `i` on; `none` = ill-formed -/
def utf8CharsFuel : Nat → Nat → List UInt8 → Option (List (Nat × Nat))
  | _, _, [] => some []
  | 0, _, _ :: _ => none
  | f + 1, i, l@(_ :: _) =>
    match utf8Head l with
    | none => none
    | some (k, c) => (utf8CharsFuel f (i + k) (l.drop k)).map (fun r => (i, c) :: r)

def utf8Chars (l : List UInt8) : Option (List (Nat × Nat)) := utf8CharsFuel l.length 0 l

def validUtf8 (l : List UInt8) : Bool := (utf8Chars l).isSome

/-- `char::encode_utf8` -/
def encodeUtf8 (c : Nat) : Option (List UInt8) :=
  if c < 0x80 then some [UInt8.ofNat c]
  else if c < 0x800 then some [UInt8.ofNat (0xC0 + c / 64), UInt8.ofNat (0x80 + c % 64)]
  else if 0xD800 ≤ c ∧ c ≤ 0xDFFF then none
  else if c < 0x10000 then
    some [UInt8.ofNat (0xE0 + c / 4096), UInt8.ofNat (0x80 + c / 64 % 64), UInt8.ofNat (0x80 + c % 64)]
  else if c ≤ 0x10FFFF then
    some [UInt8.ofNat (0xF0 + c / 262144), UInt8.ofNat (0x80 + c / 4096 % 64),
          UInt8.ofNat (0x80 + c / 64 % 64), UInt8.ofNat (0x80 + c % 64)]
  else none

/-! ### fmt.rs -/

def singleByteIndices (l : List UInt8) : List (Nat × Nat) :=
  (List.range l.length).zip (l.map UInt8.toNat)

def Format.bytes : Format where
  name := "bytes"
  validate _ := true
  validatePrefix _ := true
  validateSuffix _ := true
  validateSubseq _ := true
  fixup _ _ := {}
  charIndices _ := none
  encodeChar _ := none

def Format.ascii : Format where
  name := "ascii"
  validate l := l.all (fun b => b.toNat ≤ 127)
  validatePrefix _ := true
  validateSuffix _ := true
  validateSubseq _ := true
  fixup _ _ := {}
  charIndices l := some (singleByteIndices l)
  encodeChar c := if c > 0x7F then none else some [UInt8.ofNat c]

def Format.latin1 : Format where
  name := "latin1"
  validate _ := true
  validatePrefix _ := true
  validateSuffix _ := true
  validateSubseq _ := true
  fixup _ _ := {}
  charIndices l := some (singleByteIndices l)
  encodeChar c := if c > 0xFF then none else some [UInt8.ofNat c]

def utf8ValidatePrefix (buf : List UInt8) : Bool :=
  if buf.isEmpty then true else isWhole (classify buf (buf.length - 1))

def utf8ValidateSuffix (buf : List UInt8) : Bool :=
  if buf.isEmpty then true else isWhole (classify buf 0)

def Format.utf8 : Format where
  name := "utf8"
  validate := validUtf8
  validatePrefix := utf8ValidatePrefix
  validateSuffix := utf8ValidateSuffix
  validateSubseq l := utf8ValidatePrefix l && utf8ValidateSuffix l
  fixup _ _ := {}
  charIndices := utf8Chars
  encodeChar := encodeUtf8

/-- the `while i < buf.len()` loop of `WTF8::validate`, on the remaining suffix `buf.drop i`
(with the `codept.rewind != 0` guard of commit 218f57f: a character that does not start at `i` means
`i` sits on a stray continuation byte) -/
def wtf8ValidateFuel : Nat → List UInt8 → Nat → Bool → Bool
  | 0, buf, i, _ => decide (i ≥ buf.length)
  | f + 1, buf, i, prevLead =>
    if i ≥ buf.length then true
    else match classify buf i with
      | none => false
      | some cp =>
        if cp.start ≠ i then false
        else if !wtf8Meaningful cp.meaning then false
        else match cp.meaning with
          | .trail _ => if prevLead then false else wtf8ValidateFuel f buf (i + cp.len) false
          | .lead _ => wtf8ValidateFuel f buf (i + cp.len) true
          | _ => wtf8ValidateFuel f buf (i + cp.len) false

def wtf8Validate (buf : List UInt8) : Bool := wtf8ValidateFuel buf.length buf 0 false

/-- `WTF8::validate` as it was on the pinned tree (before commit 218f57f), without the `rewind`
guard; kept only for the witness theorem of the defect found by C11 -/
def wtf8ValidateFuelPinned : Nat → List UInt8 → Nat → Bool → Bool
  | 0, buf, i, _ => decide (i ≥ buf.length)
  | f + 1, buf, i, prevLead =>
    if i ≥ buf.length then true
    else match classify buf i with
      | none => false
      | some cp =>
        if !wtf8Meaningful cp.meaning then false
        else match cp.meaning with
          | .trail _ => if prevLead then false else wtf8ValidateFuelPinned f buf (i + cp.len) false
          | .lead _ => wtf8ValidateFuelPinned f buf (i + cp.len) true
          | _ => wtf8ValidateFuelPinned f buf (i + cp.len) false

def wtf8ValidatePinned (buf : List UInt8) : Bool := wtf8ValidateFuelPinned buf.length buf 0 false

def wtf8ValidatePrefix (buf : List UInt8) : Bool :=
  if buf.isEmpty then true
  else match classify buf (buf.length - 1) with
    | some c => wtf8Meaningful c.meaning
    | none => false

def wtf8ValidateSuffix (buf : List UInt8) : Bool :=
  if buf.isEmpty then true
  else match classify buf 0 with
    | some c => wtf8Meaningful c.meaning
    | none => false

/-- `WTF8::fixup`: join a lead surrogate at the end of `lhs` with a trail surrogate at the start of
`rhs` into one supplementary code point -/
def wtf8Fixup (lhs rhs : List UInt8) : Fixup :=
  if lhs.length ≥ 3 ∧ rhs.length ≥ 3 then
    match classify lhs (lhs.length - 1), classify rhs 0 with
    | some ⟨_, _, .lead hi⟩, some ⟨_, _, .trail lo⟩ =>
      let n := 0x10000 + hi * 1024 + lo
      match encodeUtf8 n with
      | some bs => { dropLeft := 3, dropRight := 3, insert := bs }
      | none => {}   -- `expect(ERR)`: unreachable, hi, lo < 1024
    | _, _ => {}
  else {}

def Format.wtf8 : Format where
  name := "wtf8"
  validate := wtf8Validate
  validatePrefix := wtf8ValidatePrefix
  validateSuffix := wtf8ValidateSuffix
  validateSubseq l := wtf8ValidatePrefix l && wtf8ValidateSuffix l
  fixup := wtf8Fixup
  charIndices _ := none
  encodeChar _ := none

/-! ## tendril.rs: the public operations (on one tendril value, heap threaded) -/

/-- `from_byte_slice_without_validating` -/
def fromBytesUnchecked (h : Heap) (x : List UInt8) : M (Heap × T) :=
  if x.length > 4294967295 then .error (.panic "assert: x.len() <= MAX_LEN")
  else if x.length ≤ 8 then do
    let t ← mkInline x "from_byte_slice"
    .ok (h, t)
  else ownedCopy h x

/-- `push_bytes_without_validating` -/
def pushBytesUnchecked (F : Format) (h : Heap) (t : T) (buf : List UInt8) : M (Heap × T) := do
  if buf.length > 4294967295 then .error (.panic "assert: buf.len() <= MAX_LEN") else
  let old ← asByteSlice h t
  let fx := F.fixup old buf
  let insLen := fx.insert.length
  if t.len32 + insLen > 4294967295 then .error (.panic "u32 overflow: len + insert_len") else
  if fx.dropLeft > t.len32 + insLen then .error (.panic "u32 underflow: - drop_left") else
  let adj := t.len32 + insLen - fx.dropLeft
  if adj + buf.length > 4294967295 then .error (.panic "OFLOW: checked_add") else
  if fx.dropRight > adj + buf.length then .error (.panic "u32 underflow: - drop_right") else
  let newLen := adj + buf.length - fx.dropRight
  if fx.dropLeft > old.length ∨ fx.dropRight > buf.length then
    .error (.ub "push_bytes: fixup out of bounds")
  else if newLen ≤ 8 then
    let tmp := old.take (old.length - fx.dropLeft) ++ fx.insert ++ buf.drop fx.dropRight
    if tmp.length > 8 then .error (.ub "push_bytes: tmp overflow") else
    let t' ← mkInline (tmp.take newLen) "push_bytes"
    let h ← dropT h t
    .ok (h, t')
  else do
    let (h, t) ← makeOwnedWithCapacity h t newLen
    match t with
    | .owned id len cap =>
      if fx.dropLeft > len then .error (.ub "push_bytes: dest before buffer") else
      let h ← h.write id (len - fx.dropLeft) (fx.insert ++ buf.drop fx.dropRight) "push_bytes"
      .ok (h, .owned id newLen cap)
    | _ => .error (.ub "push_bytes: not owned")

/-- `clear` -/
def clearT (h : Heap) (t : T) : M (Heap × T) :=
  match t with
  | .inline _ => .ok (h, .inline [])
  | .shared .. => do
    let h ← dropT h t
    .ok (h, .inline [])
  | .owned id _ cap => .ok (h, .owned id 0 cap)

/-- `unsafe_subtendril(offset, length)`: (heap, self afterwards, result) -/
def unsafeSubtendril (h : Heap) (t : T) (offset length : Nat) : M (Heap × T × T) :=
  if length ≤ 8 then do
    let bs ← asByteSlice h t
    if offset + length ≤ bs.length then
      let s ← mkInline ((bs.drop offset).take length) "unsafe_subtendril"
      .ok (h, t, s)
    else .error (.ub "unsafe_subtendril: slice out of bounds")
  else do
    let (h, t) ← makeBufShared h t "unsafe_subtendril"
    let h ← increfT h t "unsafe_subtendril"
    match t with
    | .shared id off len =>
      if offset + length ≤ len then .ok (h, t, .shared id (off + offset) length)
      else .error (.ub "unsafe_subtendril: view out of bounds")
    | _ => .error (.ub "unsafe_subtendril: not shared")

/-- `unsafe_pop_front(n)` -/
def unsafePopFront (h : Heap) (t : T) (n : Nat) : M (Heap × T) :=
  if n > t.len32 then .error (.ub "unsafe_pop_front: n > len") else
  let newLen := t.len32 - n
  if newLen ≤ 8 then do
    let bs ← asByteSlice h t
    let t' ← mkInline ((bs.drop n).take newLen) "unsafe_pop_front"
    let h ← dropT h t
    .ok (h, t')
  else do
    let (h, t) ← makeBufShared h t "unsafe_pop_front"
    match t with
    | .shared id off len => .ok (h, .shared id (off + n) (len - n))
    | _ => .error (.ub "unsafe_pop_front: not shared")

/-- `unsafe_pop_back(n)` -/
def unsafePopBack (h : Heap) (t : T) (n : Nat) : M (Heap × T) :=
  if n > t.len32 then .error (.ub "unsafe_pop_back: n > len") else
  let newLen := t.len32 - n
  if newLen ≤ 8 then do
    let bs ← asByteSlice h t
    let t' ← mkInline (bs.take newLen) "unsafe_pop_back"
    let h ← dropT h t
    .ok (h, t')
  else do
    let (h, t) ← makeBufShared h t "unsafe_pop_back"
    match t with
    | .shared id off len => .ok (h, .shared id off (len - n))
    | _ => .error (.ub "unsafe_pop_back: not shared")

inductive SubErr where
  | outOfBounds | validationFailed
deriving Repr, DecidableEq

/-- `try_pop_front(n)` -/
def tryPopFront (F : Format) (h : Heap) (t : T) (n : Nat) : M (Heap × T × Option SubErr) :=
  if n = 0 then .ok (h, t, none)
  else if n > t.len32 then .ok (h, t, some .outOfBounds)
  else do
    let bs ← asByteSlice h t
    if !F.validateSuffix ((bs.drop n).take (t.len32 - n)) then .ok (h, t, some .validationFailed)
    else
      let (h, t) ← unsafePopFront h t n
      .ok (h, t, none)

/-- `try_pop_back(n)` -/
def tryPopBack (F : Format) (h : Heap) (t : T) (n : Nat) : M (Heap × T × Option SubErr) :=
  if n = 0 then .ok (h, t, none)
  else if n > t.len32 then .ok (h, t, some .outOfBounds)
  else do
    let bs ← asByteSlice h t
    if !F.validatePrefix (bs.take (t.len32 - n)) then .ok (h, t, some .validationFailed)
    else
      let (h, t) ← unsafePopBack h t n
      .ok (h, t, none)

/-- `try_subtendril(offset, length)`: (heap, self afterwards, result) -/
def trySubtendril (F : Format) (h : Heap) (t : T) (offset length : Nat) :
    M (Heap × T × (SubErr ⊕ T)) :=
  if offset > t.len32 ∨ length > t.len32 - offset then .ok (h, t, .inl .outOfBounds)
  else do
    let bs ← asByteSlice h t
    if !F.validateSubseq ((bs.drop offset).take length) then .ok (h, t, .inl .validationFailed)
    else
      let (h, t, s) ← unsafeSubtendril h t offset length
      .ok (h, t, .inr s)

/-- `push_tendril(&other)`: `self` and `other` are distinct values (`&mut` / `&`) -/
def pushTendril (F : Format) (h : Heap) (t other : T) : M (Heap × T) :=
  if t.len32 + other.len32 > 4294967295 then .error (.panic "OFLOW: push_tendril") else
  match t, other with
  | .shared id off len, .shared id2 off2 _ =>
    -- `self_buf.data_ptr() == other_buf.data_ptr() && other.aux() == self.aux() + self.raw_len()`
    if id = id2 ∧ off2 = off + len then .ok (h, .shared id off (len + other.len32))
    else do
      let bs ← asByteSlice h other
      pushBytesUnchecked F h t bs
  | _, _ => do
    let bs ← asByteSlice h other
    pushBytesUnchecked F h t bs

/-- `pop_front_char`: returns the code point removed -/
def popFrontChar (F : Format) (h : Heap) (t : T) : M (Heap × T × Option Nat) := do
  let bs ← asByteSlice h t
  match F.charIndices bs with
  | none => .error (.ub "pop_front_char: char_indices on bytes invalid for the format")
  | some [] =>
    let (h, t) ← clearT h t
    .ok (h, t, none)
  | some [(_, c)] =>
    let (h, t) ← clearT h t
    .ok (h, t, some c)
  | some ((_, c) :: (n, _) :: _) =>
    if n = 0 then
      let (h, t) ← clearT h t
      .ok (h, t, some c)
    else
      let (h, t) ← unsafePopFront h t n
      .ok (h, t, some c)

/-- `pop_front_char_run(classify)`: (heap, self afterwards, (run, class)) -/
def popFrontCharRun (F : Format) (classOf : Nat → Nat) (h : Heap) (t : T) :
    M (Heap × T × Option (T × Nat)) := do
  let bs ← asByteSlice h t
  match F.charIndices bs with
  | none => .error (.ub "pop_front_char_run: char_indices on bytes invalid for the format")
  | some [] => .ok (h, t, none)
  | some ((_, first) :: rest) =>
    let cls := classOf first
    match rest.find? (fun p => classOf p.2 != cls) with
    | some (idx, _) =>
      let (h, t, s) ← unsafeSubtendril h t 0 idx
      let (h, t) ← unsafePopFront h t idx
      .ok (h, t, some (s, cls))
    | none =>
      let (h, t, s) ← cloneT h t
      let (h, t) ← clearT h t
      .ok (h, t, some (s, cls))

/-- `reserve(additional)` -/
def reserveT (h : Heap) (t : T) (additional : Nat) : M (Heap × T) :=
  if t.isShared then .ok (h, t)
  else if t.len32 + additional > 4294967295 then .error (.panic "OFLOW: force_reserve")
  else if t.len32 + additional > 8 then makeOwnedWithCapacity h t (t.len32 + additional)
  else .ok (h, t)

/-- `with_capacity(capacity)` -/
def withCapacity (h : Heap) (capacity : Nat) : M (Heap × T) :=
  if capacity > 8 then makeOwnedWithCapacity h (.inline []) capacity else .ok (h, .inline [])

/-- `as_mut_byte_slice` (`DerefMut`): makes a heap tendril owned -/
def derefMut (h : Heap) (t : T) : M (Heap × T) :=
  match t with
  | .inline _ => .ok (h, t)
  | _ => makeOwned h t

/-- `t[k] = v` through `DerefMut`, `k < len` already checked by the slice index -/
def storeByte (h : Heap) (t : T) (k : Nat) (v : UInt8) : M (Heap × T) :=
  match t with
  | .inline bs => if k < bs.length then .ok (h, .inline (bs.set k v))
                  else .error (.ub "store: index")
  | .owned id len cap =>
    if k < len then do
      let h ← h.poke id k v "deref_mut store"
      .ok (h, .owned id len cap)
    else .error (.ub "store: index")
  | .shared .. => .error (.ub "store through a shared buffer")

/-- the abstraction function: the bytes a tendril denotes -/
def abs (h : Heap) : T → List UInt8
  | .inline bs => bs
  | .owned id len _ => match h.bufs[id]? with
    | some b => b.data.take len
    | none => []
  | .shared id off len => match h.bufs[id]? with
    | some b => (b.data.drop off).take len
    | none => []

/-! ## the pool machine -/

structure St where
  heap : Heap
  pool : List (Option T)
deriving Repr, DecidableEq

def St.init (slots : Nat) : St := ⟨Heap.empty, List.replicate slots none⟩

inductive Op where
  | new (i : Nat)
  | fromBytes (i : Nat) (bs : List UInt8)        -- `try_from_byte_slice`
  | pushBytes (i : Nat) (bs : List UInt8)        -- `try_push_bytes` / `push_slice` on validated input
  | pushChar (i : Nat) (c : Nat)                 -- `try_push_char`
  | pushTendril (i j : Nat)
  | popFront (i n : Nat) | popBack (i n : Nat)   -- panicking variants
  | tryPopFront (i n : Nat) | tryPopBack (i n : Nat)
  | subtendril (i j off len : Nat)               -- panicking variant; result stored in slot `j`
  | trySubtendril (i j off len : Nat)
  | clone (i j : Nat)
  | clear (i : Nat)
  | drop (i : Nat)
  | popFrontChar (i : Nat)
  | popFrontCharRun (i j k : Nat)
  | sendRoundTrip (i : Nat)                      -- `into_send` then `From<SendTendril>`
  | reserve (i n : Nat)
  | withCapacity (i n : Nat)
  | setByte (i k : Nat) (v : UInt8)              -- `t[k] = v` via `DerefMut`
deriving Repr, DecidableEq

inductive Out where
  | ok | err | oob | inv | panic | badop
  | ch (c : Option Nat)
  | run (cls : Option Nat)
  | ub (site : String)
deriving Repr, DecidableEq

/-- the fixed classifiers offered to `pop_front_char_run` -/
def classifier (k : Nat) (c : Nat) : Nat :=
  match k with
  | 0 => if c = 0x20 ∨ c = 0x0A ∨ c = 0x09 then 1 else 0
  | 1 => if c < 0x80 then 1 else 0
  | _ => c % 2

/-- `pool[i] = Some(t)`: the old occupant is dropped after the new value exists -/
def store (st : St) (i : Nat) (t : T) : M St :=
  match st.pool[i]? with
  | none => .error (.panic "bad slot")
  | some none => .ok ⟨st.heap, st.pool.set i (some t)⟩
  | some (some old) => do
    let h ← dropT st.heap old
    .ok ⟨h, st.pool.set i (some t)⟩

def outOfErr : Option SubErr → Out
  | none => .ok
  | some .outOfBounds => .oob
  | some .validationFailed => .inv

/-- one operation; `none` = malformed (empty / out-of-range slot, `i = j` where the borrow checker
forbids it) -/
def stepM (F : Format) (st : St) : Op → Option (M (St × Out))
  | .new i => if i < st.pool.length then some (do
      let st ← store st i (.inline [])
      .ok (st, .ok)) else none
  | .fromBytes i bs => if i < st.pool.length then some (
      if F.validate bs then do
        let (h, t) ← fromBytesUnchecked st.heap bs
        let st ← store ⟨h, st.pool⟩ i t
        .ok (st, .ok)
      else .ok (st, .err)) else none
  | .pushBytes i bs => match st.pool[i]? with
    | some (some t) => some (
      if F.validate bs then do
        let (h, t) ← pushBytesUnchecked F st.heap t bs
        .ok (⟨h, st.pool.set i (some t)⟩, .ok)
      else .ok (st, .err))
    | _ => none
  | .pushChar i c => match st.pool[i]? with
    | some (some t) => some (
      match F.encodeChar c with
      | some bs => do
        let (h, t) ← pushBytesUnchecked F st.heap t bs
        .ok (⟨h, st.pool.set i (some t)⟩, .ok)
      | none => .ok (st, .err))
    | _ => none
  | .pushTendril i j => match st.pool[i]?, st.pool[j]? with
    | some (some t), some (some o) => if i = j then none else some (do
        let (h, t) ← pushTendril F st.heap t o
        .ok (⟨h, st.pool.set i (some t)⟩, .ok))
    | _, _ => none
  | .tryPopFront i n => match st.pool[i]? with
    | some (some t) => some (do
        let (h, t, e) ← tryPopFront F st.heap t n
        .ok (⟨h, st.pool.set i (some t)⟩, outOfErr e))
    | _ => none
  | .tryPopBack i n => match st.pool[i]? with
    | some (some t) => some (do
        let (h, t, e) ← tryPopBack F st.heap t n
        .ok (⟨h, st.pool.set i (some t)⟩, outOfErr e))
    | _ => none
  | .popFront i n => match st.pool[i]? with
    | some (some t) => some (do
        let (h, t, e) ← tryPopFront F st.heap t n
        match e with
        | none => .ok (⟨h, st.pool.set i (some t)⟩, .ok)
        | some _ => .error (.panic "pop_front: unwrap"))
    | _ => none
  | .popBack i n => match st.pool[i]? with
    | some (some t) => some (do
        let (h, t, e) ← tryPopBack F st.heap t n
        match e with
        | none => .ok (⟨h, st.pool.set i (some t)⟩, .ok)
        | some _ => .error (.panic "pop_back: unwrap"))
    | _ => none
  | .trySubtendril i j off len => match st.pool[i]? with
    | some (some t) => if j < st.pool.length then some (do
        let (h, t, r) ← trySubtendril F st.heap t off len
        let st := ⟨h, st.pool.set i (some t)⟩
        match r with
        | .inl e => .ok (st, outOfErr (some e))
        | .inr s =>
          let st ← store st j s
          .ok (st, .ok)) else none
    | _ => none
  | .subtendril i j off len => match st.pool[i]? with
    | some (some t) => if j < st.pool.length then some (do
        let (h, t, r) ← trySubtendril F st.heap t off len
        let st := ⟨h, st.pool.set i (some t)⟩
        match r with
        | .inl _ => .error (.panic "subtendril: unwrap")
        | .inr s =>
          let st ← store st j s
          .ok (st, .ok)) else none
    | _ => none
  | .clone i j => match st.pool[i]? with
    | some (some t) => if j < st.pool.length then some (do
        let (h, t, c) ← cloneT st.heap t
        let st ← store ⟨h, st.pool.set i (some t)⟩ j c
        .ok (st, .ok)) else none
    | _ => none
  | .clear i => match st.pool[i]? with
    | some (some t) => some (do
        let (h, t) ← clearT st.heap t
        .ok (⟨h, st.pool.set i (some t)⟩, .ok))
    | _ => none
  | .drop i => match st.pool[i]? with
    | some (some t) => some (do
        let h ← dropT st.heap t
        .ok (⟨h, st.pool.set i none⟩, .ok))
    | _ => none
  | .popFrontChar i => match st.pool[i]? with
    | some (some t) => if (F.charIndices []).isSome then some (do
        let (h, t, c) ← popFrontChar F st.heap t
        .ok (⟨h, st.pool.set i (some t)⟩, .ch c)) else none
    | _ => none
  | .popFrontCharRun i j k => match st.pool[i]? with
    | some (some t) => if (F.charIndices []).isSome ∧ j < st.pool.length ∧ i ≠ j then some (do
        let (h, t, r) ← popFrontCharRun F (classifier k) st.heap t
        let st := ⟨h, st.pool.set i (some t)⟩
        match r with
        | none => .ok (st, .run none)
        | some (s, cls) =>
          let st ← store st j s
          .ok (st, .run (some cls))) else none
    | _ => none
  | .sendRoundTrip i => match st.pool[i]? with
    | some (some t) => some (do
        let (h, t) ← makeOwned st.heap t
        .ok (⟨h, st.pool.set i (some t)⟩, .ok))
    | _ => none
  | .reserve i n => match st.pool[i]? with
    | some (some t) => some (do
        let (h, t) ← reserveT st.heap t n
        .ok (⟨h, st.pool.set i (some t)⟩, .ok))
    | _ => none
  | .withCapacity i n => if i < st.pool.length then some (do
      let (h, t) ← withCapacity st.heap n
      let st ← store ⟨h, st.pool⟩ i t
      .ok (st, .ok)) else none
  | .setByte i k v => match st.pool[i]? with
    | some (some t) => some (do
        -- `DerefMut` first (may copy), then the slice index check (a panic that keeps the copy)
        let (h, t) ← derefMut st.heap t
        let st := ⟨h, st.pool.set i (some t)⟩
        if k < t.len32 then
          let (h, t) ← storeByte h t k v
          .ok (⟨h, st.pool.set i (some t)⟩, .ok)
        else .ok (st, .panic))
    | _ => none

/-- one step of the pool machine; a panicking operation leaves the state as it was -/
def step (F : Format) (st : St) (op : Op) : St × Out :=
  match stepM F st op with
  | none => (st, .badop)
  | some (.ok r) => r
  | some (.error (.panic _)) => (st, .panic)
  | some (.error (.ub s)) => (st, .ub s)

def run (F : Format) (st : St) (ops : List Op) : St := ops.foldl (fun s op => (step F s op).1) st

/-- drop every tendril of the pool (end of a case) -/
def dropAll (st : St) : M St :=
  (List.range st.pool.length).foldlM (fun st i =>
    match st.pool[i]? with
    | some (some t) => do
      let h ← dropT st.heap t
      .ok ⟨h, st.pool.set i none⟩
    | _ => .ok st) st

def Heap.liveCount (h : Heap) : Nat := h.bufs.countP (·.live)

end H5V.Model.Tendril
