import H5V.Spec.TreeAlgo2
/-!
Step 18 of the adoption agency algorithm (C02, `H5V.Props.C02Algo`): the bookmark.

The standard removes the formatting element's entry from the list of active formatting elements and
then inserts the new entry at the bookmark (`TreeAlgo2.adoptionFinish`: `eraseIdx`, then
`insertAfter`).  html5ever inserts first and removes then.  `bookmark_insert_then_remove`: the
results agree.

The rest of the file: `listPos` (position of the first entry for a node) characterised by
`getElem?`, and how it moves under `insertIdx` / `eraseIdx`.
-/
namespace H5V.Lemmas.HtmlTBAlgo
open H5V.Spec.TreeAlgo2

section Bookmark
variable {N T : Type} [DecidableEq N]

/-! ### `listPos` by `getElem?` -/

/-- `listPos x l = some i`: the entry at `i` is for `x`, no earlier entry is -/
theorem listPos_iff_node (x : N) (l : List (Entry N T)) (i : Nat) :
    listPos x l = some i ↔
      (∃ e, l[i]? = some e ∧ e.node? = some x) ∧ ∀ j, j < i → ∀ e, l[j]? = some e → e.node? ≠ some x := by
  induction l generalizing i with
  | nil => simp [listPos]
  | cons a rest ih =>
    have hsucc : ∀ i', (∀ j, j < i' + 1 → ∀ e, (a :: rest)[j]? = some e → e.node? ≠ some x) ↔
        (a.node? ≠ some x ∧ ∀ j, j < i' → ∀ e, rest[j]? = some e → e.node? ≠ some x) := by
      intro i'
      constructor
      · intro h
        refine ⟨h 0 (Nat.succ_pos _) a (by simp), fun j hj e he => h (j + 1) (by omega) e (by simpa using he)⟩
      · rintro ⟨h0, h⟩ j hj e he
        cases j with
        | zero =>
          have : a = e := by simpa using he
          exact this ▸ h0
        | succ j => exact h j (by omega) e (by simpa using he)
    by_cases ha : a.node? = some x
    · -- the head is an entry for `x`
      have hpos : listPos x (a :: rest) = some 0 := by
        cases a with
        | marker => simp [Entry.node?] at ha
        | element n t =>
          have : n = x := by simpa [Entry.node?] using ha
          simp [listPos, this]
      rw [hpos]
      cases i with
      | zero =>
        refine ⟨fun _ => ⟨⟨a, by simp, ha⟩, fun j hj => absurd hj (Nat.not_lt_zero _)⟩, fun _ => rfl⟩
      | succ i' =>
        constructor
        · intro h
          exact absurd (Option.some.inj h) (by omega)
        · rintro ⟨_, h⟩
          exact absurd ha (((hsucc i').mp h).1)
    · -- the head is not an entry for `x`
      have hpos : listPos x (a :: rest) = (listPos x rest).map (· + 1) := by
        cases a with
        | marker => simp [listPos]
        | element n t =>
          have : n ≠ x := by simpa [Entry.node?] using ha
          simp [listPos, this]
      rw [hpos]
      cases i with
      | zero =>
        constructor
        · intro h
          cases hr : listPos x rest with
          | none => simp [hr] at h
          | some r => simp [hr] at h
        · rintro ⟨⟨e, he, hex⟩, _⟩
          have : a = e := by simpa using he
          exact absurd (this ▸ hex) ha
      | succ i' =>
        rw [hsucc i']
        have h1 : (Option.map (· + 1) (listPos x rest) = some (i' + 1)) ↔ listPos x rest = some i' := by
          cases hr : listPos x rest with
          | none => simp
          | some r => simp
        rw [h1, ih i']
        simp only [List.getElem?_cons_succ]
        exact ⟨fun ⟨h, h'⟩ => ⟨h, ha, h'⟩, fun ⟨h, _, h'⟩ => ⟨h, h'⟩⟩

omit [DecidableEq N] in
theorem node?_eq_some_iff (e : Entry N T) (x : N) : e.node? = some x ↔ ∃ t, e = .element x t := by
  cases e with
  | marker => simp [Entry.node?]
  | element n t =>
    constructor
    · intro h
      have : n = x := by simpa [Entry.node?] using h
      exact ⟨t, by rw [this]⟩
    · rintro ⟨t', h⟩
      cases h
      rfl

/-- `listPos x l = some i`: the entry at `i` is `.element x _`, no earlier entry is -/
theorem listPos_iff (x : N) (l : List (Entry N T)) (i : Nat) :
    listPos x l = some i ↔
      (∃ t, l[i]? = some (.element x t)) ∧ ∀ j, j < i → ∀ t, l[j]? ≠ some (.element x t) := by
  rw [listPos_iff_node]
  constructor
  · rintro ⟨⟨e, he, hex⟩, hfirst⟩
    obtain ⟨t, rfl⟩ := (node?_eq_some_iff e x).mp hex
    exact ⟨⟨t, he⟩, fun j hj t' h => hfirst j hj _ h rfl⟩
  · rintro ⟨⟨t, ht⟩, hfirst⟩
    refine ⟨⟨_, ht, rfl⟩, fun j hj e he hex => ?_⟩
    obtain ⟨t', rfl⟩ := (node?_eq_some_iff e x).mp hex
    exact hfirst j hj t' he

theorem listPos_getElem {x : N} {l : List (Entry N T)} {i : Nat} (h : listPos x l = some i) :
    ∃ t, l[i]? = some (.element x t) :=
  ((listPos_iff x l i).mp h).1

theorem listPos_lt {x : N} {l : List (Entry N T)} {i : Nat} (h : listPos x l = some i) : i < l.length := by
  obtain ⟨t, ht⟩ := listPos_getElem h
  exact (List.getElem?_eq_some_iff.mp ht).1

theorem listPos_first {x : N} {l : List (Entry N T)} {i : Nat} (h : listPos x l = some i) :
    ∀ j, j < i → ∀ t, l[j]? ≠ some (.element x t) :=
  ((listPos_iff x l i).mp h).2

/-- no earlier entry is for `x`, in terms of `Entry.node?` -/
theorem listPos_first_node {x : N} {l : List (Entry N T)} {i : Nat} (h : listPos x l = some i) :
    ∀ j, j < i → ∀ e, l[j]? = some e → e.node? ≠ some x :=
  ((listPos_iff_node x l i).mp h).2

/-- the converse characterisation -/
theorem listPos_eq_some_of {x : N} {l : List (Entry N T)} {i : Nat} {t : T}
    (hi : l[i]? = some (.element x t)) (hfirst : ∀ j, j < i → ∀ t', l[j]? ≠ some (.element x t')) :
    listPos x l = some i :=
  (listPos_iff x l i).mpr ⟨⟨t, hi⟩, hfirst⟩

theorem listPos_isSome_iff (x : N) (l : List (Entry N T)) :
    (listPos x l).isSome ↔ ∃ (i : Nat) (t : T), l[i]? = some (.element x t) := by
  constructor
  · intro h
    obtain ⟨i, hi⟩ := Option.isSome_iff_exists.mp h
    exact ⟨i, listPos_getElem hi⟩
  · rintro ⟨i, t, hi⟩
    induction i using Nat.strongRecOn generalizing t with
    | _ i ih =>
      by_cases hex : ∃ j, j < i ∧ ∃ t', l[j]? = some (.element x t')
      · obtain ⟨j, hj, t', ht'⟩ := hex
        exact ih j hj t' ht'
      · rw [listPos_eq_some_of hi (fun j hj t' h => hex ⟨j, hj, t', h⟩)]
        rfl

/-- the first entries for different nodes are at different positions -/
theorem listPos_ne_of_ne {x y : N} {l : List (Entry N T)} {i j : Nat} (hxy : x ≠ y)
    (hx : listPos x l = some i) (hy : listPos y l = some j) : i ≠ j := by
  rintro rfl
  obtain ⟨t, ht⟩ := listPos_getElem hx
  obtain ⟨t', ht'⟩ := listPos_getElem hy
  rw [ht] at ht'
  exact hxy (by injection ht' with h; injection h)

/-! ### `listPos` under `insertIdx` -/

/-- inserting behind the first entry for `x` does not move it (whatever is inserted) -/
theorem listPos_insertIdx_of_lt {x : N} {l : List (Entry N T)} {i m : Nat} (e : Entry N T)
    (h : listPos x l = some i) (hm : i < m) : listPos x (l.insertIdx m e) = some i := by
  rw [listPos_iff_node] at h ⊢
  obtain ⟨⟨a, ha, hax⟩, hfirst⟩ := h
  refine ⟨⟨a, ?_, hax⟩, fun j hj a' ha' => hfirst j hj a' ?_⟩
  · rw [List.getElem?_insertIdx, if_pos hm]
    exact ha
  · rw [List.getElem?_insertIdx, if_pos (by omega)] at ha'
    exact ha'

/-- inserting an entry for another node at or before the first entry for `x` moves it by one -/
theorem listPos_insertIdx_of_le {x : N} {l : List (Entry N T)} {i m : Nat} {e : Entry N T}
    (h : listPos x l = some i) (hm : m ≤ i) (he : e.node? ≠ some x) :
    listPos x (l.insertIdx m e) = some (i + 1) := by
  rw [listPos_iff_node] at h ⊢
  obtain ⟨⟨a, ha, hax⟩, hfirst⟩ := h
  refine ⟨⟨a, ?_, hax⟩, fun j hj a' ha' => ?_⟩
  · rw [List.getElem?_insertIdx, if_neg (by omega), if_neg (by omega)]
    exact ha
  · rw [List.getElem?_insertIdx] at ha'
    by_cases h1 : j < m
    · rw [if_pos h1] at ha'
      exact hfirst j (by omega) a' ha'
    · rw [if_neg h1] at ha'
      by_cases h2 : j = m
      · rw [if_pos h2] at ha'
        by_cases h3 : j ≤ l.length
        · rw [if_pos h3] at ha'
          exact (Option.some.inj ha') ▸ he
        · rw [if_neg h3] at ha'
          exact absurd ha' (by simp)
      · rw [if_neg h2] at ha'
        exact hfirst (j - 1) (by omega) a' ha'

/-! ### `listPos` under `eraseIdx` -/

/-- erasing behind the first entry for `x` does not move it -/
theorem listPos_eraseIdx_of_lt {x : N} {l : List (Entry N T)} {i m : Nat}
    (h : listPos x l = some i) (hm : i < m) : listPos x (l.eraseIdx m) = some i := by
  rw [listPos_iff_node] at h ⊢
  obtain ⟨⟨a, ha, hax⟩, hfirst⟩ := h
  refine ⟨⟨a, ?_, hax⟩, fun j hj a' ha' => hfirst j hj a' ?_⟩
  · rw [List.getElem?_eraseIdx, if_pos hm]
    exact ha
  · rw [List.getElem?_eraseIdx, if_pos (by omega)] at ha'
    exact ha'

/-- erasing before the first entry for `x` (necessarily an entry for another node, or a marker)
moves it by one -/
theorem listPos_eraseIdx_of_gt {x : N} {l : List (Entry N T)} {i m : Nat}
    (h : listPos x l = some i) (hm : m < i) : listPos x (l.eraseIdx m) = some (i - 1) := by
  rw [listPos_iff_node] at h ⊢
  obtain ⟨⟨a, ha, hax⟩, hfirst⟩ := h
  refine ⟨⟨a, ?_, hax⟩, fun j hj a' ha' => ?_⟩
  · rw [List.getElem?_eraseIdx, if_neg (by omega)]
    have : i - 1 + 1 = i := by omega
    rw [this]
    exact ha
  · rw [List.getElem?_eraseIdx] at ha'
    by_cases h1 : j < m
    · rw [if_pos h1] at ha'
      exact hfirst j (by omega) a' ha'
    · rw [if_neg h1] at ha'
      exact hfirst (j + 1) (by omega) a' ha'

/-- erasing an entry for another node: the first entry for `x` stays or moves by one -/
theorem listPos_eraseIdx_of_ne {x : N} {l : List (Entry N T)} {i m : Nat}
    (h : listPos x l = some i) (hm : m ≠ i) :
    listPos x (l.eraseIdx m) = some (if m < i then i - 1 else i) := by
  by_cases h1 : m < i
  · rw [if_pos h1]
    exact listPos_eraseIdx_of_gt h h1
  · rw [if_neg h1]
    exact listPos_eraseIdx_of_lt h (by omega)

/-! ### `insertIdx` and `eraseIdx` commute -/

theorem insertIdx_eraseIdx_of_lt {α : Type} (l : List α) (a : α) {i i0 : Nat} (h : i0 < i) (hi : i < l.length) :
    (l.insertIdx (i + 1) a).eraseIdx i0 = (l.eraseIdx i0).insertIdx i a := by
  have hlen : (l.eraseIdx i0).length = l.length - 1 := by
    rw [List.length_eraseIdx, if_pos (by omega)]
  apply List.ext_getElem?
  intro j
  simp only [List.getElem?_eraseIdx, List.getElem?_insertIdx, hlen]
  by_cases h1 : j < i0
  · simp only [h1, show j < i + 1 from by omega, show j < i from by omega, ↓reduceIte]
  · by_cases h2 : j < i
    · simp only [h1, h2, show j + 1 < i + 1 from by omega, ↓reduceIte]
    · by_cases h3 : j = i
      · simp only [h3, show ¬ i < i0 from by omega, show ¬ i + 1 < i + 1 from by omega,
          show i + 1 ≤ l.length from by omega, show i ≤ l.length - 1 from by omega, Nat.lt_irrefl, ↓reduceIte]
      · have e : j + 1 - 1 = j - 1 + 1 := by omega
        simp only [h1, h2, h3, show ¬ j + 1 < i + 1 from by omega, show ¬ j + 1 = i + 1 from by omega,
          show ¬ j - 1 < i0 from by omega, e, ↓reduceIte]

theorem insertIdx_eraseIdx_of_gt {α : Type} (l : List α) (a : α) {i i0 : Nat} (h : i < i0) (hi0 : i0 < l.length) :
    (l.insertIdx (i + 1) a).eraseIdx (i0 + 1) = (l.eraseIdx i0).insertIdx (i + 1) a := by
  have hlen : (l.eraseIdx i0).length = l.length - 1 := by
    rw [List.length_eraseIdx, if_pos (by omega)]
  apply List.ext_getElem?
  intro j
  simp only [List.getElem?_eraseIdx, List.getElem?_insertIdx, hlen]
  by_cases h1 : j < i + 1
  · simp only [h1, show j < i0 + 1 from by omega, show j < i0 from by omega, ↓reduceIte]
  · by_cases h2 : j = i + 1
    · simp only [h2, show i + 1 < i0 + 1 from by omega, show i + 1 ≤ l.length from by omega,
        show i + 1 ≤ l.length - 1 from by omega, Nat.lt_irrefl, ↓reduceIte]
    · by_cases h3 : j < i0 + 1
      · simp only [h1, h2, h3, show j - 1 < i0 from by omega, ↓reduceIte]
      · have e : j + 1 - 1 = j - 1 + 1 := by omega
        simp only [h1, h2, h3, show ¬ j + 1 < i + 1 from by omega, show ¬ j + 1 = i + 1 from by omega,
          show ¬ j - 1 < i0 from by omega, e, ↓reduceIte]

/-! ### the bookmark -/

/-- step 18 of the adoption agency algorithm: html5ever first inserts the new entry after the
bookmarked entry and then removes the formatting element's entry; the standard removes first and
inserts then.  The results agree. -/
theorem bookmark_insert_then_remove {N T : Type} [DecidableEq N] (l : List (Entry N T)) (x fe : N) (ne : Entry N T)
    (i : Nat) (hx : x ≠ fe) (hne : ne.node? ≠ some fe) (hi : listPos x l = some i) (hfe : (listPos fe l).isSome) :
    ∃ k, listPos fe (l.insertIdx (i + 1) ne) = some k ∧ k < (l.insertIdx (i + 1) ne).length ∧
      (listPos fe l).bind (fun i0 => insertAfter x ne (l.eraseIdx i0)) = some ((l.insertIdx (i + 1) ne).eraseIdx k) := by
  obtain ⟨i0, hi0⟩ := Option.isSome_iff_exists.mp hfe
  have hne0 : i ≠ i0 := listPos_ne_of_ne hx hi hi0
  have hil : i < l.length := listPos_lt hi
  have hi0l : i0 < l.length := listPos_lt hi0
  have hlen : (l.insertIdx (i + 1) ne).length = l.length + 1 := by
    rw [List.length_insertIdx, if_pos (by omega)]
  rw [hi0, Option.bind_some, insertAfter]
  by_cases hlt : i0 < i
  · refine ⟨i0, listPos_insertIdx_of_lt ne hi0 (by omega), by omega, ?_⟩
    rw [listPos_eraseIdx_of_gt hi hlt, Option.map_some, insertIdx_eraseIdx_of_lt l ne hlt hil]
    have : i - 1 + 1 = i := by omega
    rw [this]
  · have hgt : i < i0 := by omega
    refine ⟨i0 + 1, listPos_insertIdx_of_le hi0 (by omega) hne, by omega, ?_⟩
    rw [listPos_eraseIdx_of_lt hi hgt, Option.map_some, insertIdx_eraseIdx_of_gt l ne hgt hi0l]

end Bookmark

/-- a concrete instance: `fe = 1` before the bookmark `x = 3`, a marker in between -/
example :
    let l : List (Entry Nat Unit) := [.element 0 (), .element 1 (), .marker, .element 3 (), .element 1 (), .element 4 ()]
    listPos 3 l = some 3 ∧ listPos 1 (l.insertIdx 4 (.element 9 ())) = some 1 ∧
      (listPos 1 l).bind (fun i0 => insertAfter 3 (.element 9 ()) (l.eraseIdx i0))
        = some ((l.insertIdx 4 (.element 9 ())).eraseIdx 1) ∧
      (l.insertIdx 4 (.element 9 ())).eraseIdx 1
        = [.element 0 (), .marker, .element 3 (), .element 9 (), .element 1 (), .element 4 ()] := by
  decide

/-- a concrete instance: `fe = 4` behind the bookmark `x = 3` -/
example :
    let l : List (Entry Nat Unit) := [.element 0 (), .element 1 (), .marker, .element 3 (), .element 1 (), .element 4 ()]
    listPos 4 (l.insertIdx 4 (.element 9 ())) = some 6 ∧
      (listPos 4 l).bind (fun i0 => insertAfter 3 (.element 9 ()) (l.eraseIdx i0))
        = some ((l.insertIdx 4 (.element 9 ())).eraseIdx 6) := by
  decide

#print axioms bookmark_insert_then_remove

end H5V.Lemmas.HtmlTBAlgo
