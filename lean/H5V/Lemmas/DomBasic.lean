import H5V.Model.Dom
/-!
Basic lemmas about the arena primitives of `H5V.Model.Dom` (`setNode`, `alloc`, the total accessors)
and the list helpers (`indexOf?`, `removeAt`, `insertAt`).
-/
namespace H5V.Lemmas.Dom
open H5V.Model.Dom

/-! ### list helpers -/

theorem indexOf?_some {t : Id} {l : List Id} {i : Nat} (h : indexOf? t l = some i) :
    l = l.take i ++ t :: l.drop (i + 1) ∧ t ∉ l.take i ∧ i < l.length := by
  induction l generalizing i with
  | nil => simp [indexOf?] at h
  | cons x xs ih =>
    simp only [indexOf?] at h
    split at h
    · rename_i hx; cases h; subst hx; simp
    · rename_i hx
      cases hi : indexOf? t xs with
      | none => simp [hi] at h
      | some j =>
        simp [hi] at h; subst h
        obtain ⟨h1, h2, h3⟩ := ih hi
        refine ⟨?_, ?_, ?_⟩
        · simp only [List.take_succ_cons, List.drop_succ_cons, List.cons_append]; rw [← h1]
        · simp only [List.take_succ_cons, List.mem_cons, not_or]; exact ⟨fun e => hx e.symm, h2⟩
        · simp; omega

theorem indexOf?_of_mem {t : Id} {l : List Id} (h : t ∈ l) : ∃ i, indexOf? t l = some i := by
  induction l with
  | nil => cases h
  | cons x xs ih =>
    simp only [indexOf?]
    split
    · exact ⟨0, rfl⟩
    · rename_i hx
      have : t ∈ xs := by
        cases h with
        | head => exact absurd rfl hx
        | tail _ h => exact h
      obtain ⟨i, hi⟩ := ih this
      exact ⟨i + 1, by simp [hi]⟩

theorem indexOf?_none {t : Id} {l : List Id} (h : indexOf? t l = none) : t ∉ l := by
  intro hm
  obtain ⟨i, hi⟩ := indexOf?_of_mem hm
  rw [h] at hi; cases hi

theorem indexOf?_getElem {t : Id} {l : List Id} {i : Nat} (h : indexOf? t l = some i) :
    l[i]? = some t := by
  obtain ⟨h1, _, h3⟩ := indexOf?_some h
  have : l.take i ++ t :: l.drop (i + 1) = l := h1.symm
  rw [← this, List.getElem?_append_right (by simp; omega)]
  simp [List.length_take, Nat.min_eq_left (Nat.le_of_lt h3)]

theorem mem_removeAt_of_split {l : List Id} {i : Nat} {t x : Id}
    (h : l = l.take i ++ t :: l.drop (i + 1)) :
    x ∈ l ↔ x = t ∨ x ∈ removeAt l i := by
  unfold removeAt
  constructor
  · intro hx; rw [h] at hx
    simp only [List.mem_append, List.mem_cons] at hx ⊢
    rcases hx with hx | hx | hx
    · exact Or.inr (Or.inl hx)
    · exact Or.inl hx
    · exact Or.inr (Or.inr hx)
  · intro hx
    rcases hx with hx | hx
    · rw [h]; simp [hx]
    · simp only [List.mem_append] at hx
      rcases hx with hx | hx
      · exact List.mem_of_mem_take hx
      · exact List.mem_of_mem_drop hx

theorem removeAt_sublist (l : List Id) (i : Nat) : (removeAt l i).Sublist l := by
  unfold removeAt
  have : (l.take i ++ l.drop (i + 1)).Sublist (l.take i ++ l.drop i) :=
    List.Sublist.append (List.Sublist.refl _) (List.drop_sublist_drop_left l (Nat.le_succ i))
  simpa using this

theorem nodup_removeAt {l : List Id} (h : l.Nodup) (i : Nat) : (removeAt l i).Nodup :=
  List.Nodup.sublist (removeAt_sublist l i) h

theorem not_mem_removeAt {l : List Id} {i : Nat} {t : Id} (hn : l.Nodup)
    (h : l = l.take i ++ t :: l.drop (i + 1)) : t ∉ removeAt l i := by
  unfold removeAt
  rw [h] at hn
  have := List.nodup_append.mp hn
  obtain ⟨_, h2, h3⟩ := this
  intro hm
  simp only [List.mem_append] at hm
  rcases hm with hm | hm
  · exact h3 t hm t (by simp) rfl
  · exact (List.nodup_cons.mp h2).1 hm

theorem mem_insertAt {l : List Id} {i : Nat} {x y : Id} :
    y ∈ insertAt l i x ↔ y = x ∨ y ∈ l := by
  unfold insertAt
  constructor
  · intro h
    simp only [List.mem_append, List.mem_cons] at h
    rcases h with h | h | h
    · exact Or.inr (List.mem_of_mem_take h)
    · exact Or.inl h
    · exact Or.inr (List.mem_of_mem_drop h)
  · intro h
    simp only [List.mem_append, List.mem_cons]
    rcases h with h | h
    · exact Or.inr (Or.inl h)
    · rw [← List.take_append_drop i l] at h
      simp only [List.mem_append] at h
      rcases h with h | h
      · exact Or.inl h
      · exact Or.inr (Or.inr h)

theorem nodup_insertAt {l : List Id} {i : Nat} {x : Id} (hn : l.Nodup) (hx : x ∉ l) :
    (insertAt l i x).Nodup := by
  unfold insertAt
  have hsplit : (l.take i ++ l.drop i).Nodup := by simpa using hn
  obtain ⟨h1, h2, h3⟩ := List.nodup_append.mp hsplit
  refine List.nodup_append.mpr ⟨h1, ?_, ?_⟩
  · exact List.nodup_cons.mpr ⟨fun hm => hx (List.mem_of_mem_drop hm), h2⟩
  · intro a ha b hb
    simp only [List.mem_cons] at hb
    rcases hb with hb | hb
    · subst hb; intro e; subst e; exact hx (List.mem_of_mem_take ha)
    · exact h3 a ha b hb

/-! ### arena primitives -/

@[simp] theorem size_setNode (d : Dom) (i : Id) (n : Node) : (d.setNode i n).size = d.size := by
  simp [Dom.setNode, Dom.size]

@[simp] theorem quirks_setNode (d : Dom) (i : Id) (n : Node) : (d.setNode i n).quirks = d.quirks := rfl

theorem node?_setNode (d : Dom) (i j : Id) (n : Node) :
    (d.setNode i n).node? j = if i = j then (if i < d.size then some n else none) else d.node? j := by
  unfold Dom.setNode Dom.node? Dom.size
  simp only [Array.getElem?_setIfInBounds]

theorem node?_lt {d : Dom} {i : Id} {n : Node} (h : d.node? i = some n) : i < d.size := by
  unfold Dom.node? at h
  unfold Dom.size
  by_cases hi : i < d.nodes.size
  · exact hi
  · simp [Array.getElem?_eq_none (Nat.le_of_not_lt hi)] at h

theorem node?_of_lt {d : Dom} {i : Id} (h : i < d.size) : ∃ n, d.node? i = some n := by
  unfold Dom.size at h
  exact ⟨d.nodes[i], by simp [Dom.node?, h]⟩

theorem get_ok {d : Dom} {i : Id} {n : Node} : d.get i = .ok n ↔ d.node? i = some n := by
  unfold Dom.get Dom.node?
  split <;> simp_all

theorem get_ok_of {d : Dom} {i : Id} {n : Node} (h : d.node? i = some n) : d.get i = .ok n :=
  get_ok.mpr h

theorem get_error {d : Dom} {i : Id} {e : String} (h : d.get i = .error e) : d.node? i = none := by
  unfold Dom.get at h; unfold Dom.node?
  split at h <;> simp_all

theorem node?_setNode_of {d : Dom} {i : Id} {n0 : Node} (h : d.node? i = some n0) (j : Id) (n : Node) :
    (d.setNode i n).node? j = if j = i then some n else d.node? j := by
  rw [node?_setNode]
  have := node?_lt h
  by_cases hij : i = j
  · subst hij; simp [this]
  · have : ¬ j = i := fun e => hij e.symm
    simp [hij, this]

theorem parentOf_eq (d : Dom) (i : Id) : d.parentOf i = (d.node? i).bind (·.parent) := rfl
theorem childrenOf_eq (d : Dom) (i : Id) :
    d.childrenOf i = match d.node? i with | some n => n.children | none => [] := rfl
theorem dataOf_eq (d : Dom) (i : Id) : d.dataOf i = (d.node? i).map (·.data) := rfl

theorem parentOf_of_node {d : Dom} {i : Id} {n : Node} (h : d.node? i = some n) :
    d.parentOf i = n.parent := by simp [parentOf_eq, h]
theorem childrenOf_of_node {d : Dom} {i : Id} {n : Node} (h : d.node? i = some n) :
    d.childrenOf i = n.children := by simp [childrenOf_eq, h]
theorem dataOf_of_node {d : Dom} {i : Id} {n : Node} (h : d.node? i = some n) :
    d.dataOf i = some n.data := by simp [dataOf_eq, h]

theorem parentOf_none_of_ge {d : Dom} {i : Id} (h : d.size ≤ i) : d.parentOf i = none := by
  unfold Dom.parentOf; unfold Dom.size at h
  simp [Array.getElem?_eq_none h]

theorem childrenOf_nil_of_ge {d : Dom} {i : Id} (h : d.size ≤ i) : d.childrenOf i = [] := by
  unfold Dom.childrenOf; unfold Dom.size at h
  simp [Array.getElem?_eq_none h]

theorem parentOf_setNode {d : Dom} {i : Id} {n0 : Node} (h : d.node? i = some n0) (j : Id) (n : Node) :
    (d.setNode i n).parentOf j = if j = i then n.parent else d.parentOf j := by
  simp only [parentOf_eq, node?_setNode_of h]
  split <;> simp

theorem childrenOf_setNode {d : Dom} {i : Id} {n0 : Node} (h : d.node? i = some n0) (j : Id) (n : Node) :
    (d.setNode i n).childrenOf j = if j = i then n.children else d.childrenOf j := by
  simp only [childrenOf_eq, node?_setNode_of h]
  by_cases hj : j = i <;> simp [hj]

theorem dataOf_setNode {d : Dom} {i : Id} {n0 : Node} (h : d.node? i = some n0) (j : Id) (n : Node) :
    (d.setNode i n).dataOf j = if j = i then some n.data else d.dataOf j := by
  simp only [dataOf_eq, node?_setNode_of h]
  split <;> simp

/-! alloc -/

theorem alloc_id (d : Dom) (data : NodeData) : (d.alloc data).2 = d.size := rfl

@[simp] theorem size_alloc (d : Dom) (data : NodeData) : (d.alloc data).1.size = d.size + 1 := by
  simp [Dom.alloc, Dom.size]

theorem node?_alloc (d : Dom) (data : NodeData) (j : Id) :
    (d.alloc data).1.node? j = if j = d.size then some { data := data } else d.node? j := by
  unfold Dom.alloc Dom.node? Dom.size
  simp only [Array.getElem?_push]

theorem parentOf_alloc (d : Dom) (data : NodeData) (j : Id) :
    (d.alloc data).1.parentOf j = d.parentOf j := by
  simp only [parentOf_eq, node?_alloc]
  by_cases h : j = d.size
  · subst h
    have : d.node? d.size = none := by
      simp [Dom.node?, Dom.size]
    simp [this]
  · simp [h]

theorem childrenOf_alloc (d : Dom) (data : NodeData) (j : Id) :
    (d.alloc data).1.childrenOf j = d.childrenOf j := by
  simp only [childrenOf_eq, node?_alloc]
  by_cases h : j = d.size
  · subst h
    have : d.node? d.size = none := by
      simp [Dom.node?, Dom.size]
    simp [this]
  · simp [h]

theorem dataOf_alloc (d : Dom) (data : NodeData) (j : Id) :
    (d.alloc data).1.dataOf j = if j = d.size then some data else d.dataOf j := by
  simp only [dataOf_eq, node?_alloc]
  split <;> simp

end H5V.Lemmas.Dom
