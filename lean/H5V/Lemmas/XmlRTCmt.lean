import H5V.Lemmas.XmlRTMisc
/-!
C17, tokenizer half, part 4: comments.  After `<!--` the ten comment states of the XML tokenizer are
followed through an arbitrary comment text: `CS` is the abstract state, `CS.pend` the text already
consumed but not yet in the comment register (`-`, `--`, `--!`), `CS.next` the transition.  As long as
no `>` arrives in one of the states where it ends the comment (`CS.bad`), register ++ pending text =
consumed text (`cmt_step`).
-/
namespace H5V.Lemmas.XmlRT
open H5V.Model.XmlTok

inductive CS | start | startDash | cmt | lt | ltBang | ltBangDash | ltBangDD | endDash | end_ | endBang
deriving DecidableEq, Repr

def CS.st : CS → State
  | .start => .commentStart | .startDash => .commentStartDash | .cmt => .comment | .lt => .commentLessThan
  | .ltBang => .commentLessThanBang | .ltBangDash => .commentLessThanBangDash
  | .ltBangDD => .commentLessThanBangDashDash | .endDash => .commentEndDash | .end_ => .commentEnd
  | .endBang => .commentEndBang

/-- consumed, not yet in the register -/
def CS.pend : CS → Str
  | .startDash | .ltBangDash | .endDash => ['-']
  | .ltBangDD | .end_ => ['-', '-']
  | .endBang => ['-', '-', '!']
  | _ => []

/-- a `>` here ends the comment -/
def CS.bad : CS → Bool
  | .start | .startDash | .ltBangDD | .end_ | .endBang => true
  | _ => false

def cmtNext (c : Char) : CS := if c = '<' then .lt else if c = '-' then .endDash else .cmt
def endNext (c : Char) : CS := if c = '!' then .endBang else if c = '-' then .end_ else cmtNext c

def CS.next : CS → Char → CS
  | .start, c => if c = '-' then .startDash else cmtNext c
  | .startDash, c => if c = '-' then .end_ else cmtNext c
  | .cmt, c => cmtNext c
  | .lt, c => if c = '!' then .ltBang else if c = '<' then .lt else cmtNext c
  | .ltBang, c => if c = '-' then .ltBangDash else cmtNext c
  | .ltBangDash, c => if c = '-' then .ltBangDD else cmtNext c
  | .ltBangDD, c => endNext c
  | .endDash, c => if c = '-' then .end_ else cmtNext c
  | .end_, c => endNext c
  | .endBang, c => if c = '-' then .endDash else cmtNext c

theorem readKind_cs (q : CS) : readKind q.st = .getChar := by cases q <;> rfl

/-- the character `c` has been fetched (`current_char = c`); the table is applied and the reconsume
steps it triggers are taken; the input is not touched -/
def Go (o : Opts) (m0 : Mach) (c : Char) (inp : Str) (m' : Mach) : Prop :=
  ∃ m1, transChar o m0 c = (m1, .cont) ∧ Reach o m1 inp m' inp

theorem Go.direct {o : Opts} {m0 : Mach} {c : Char} {inp : Str} {m' : Mach}
    (h : transChar o m0 c = (m', .cont)) : Go o m0 c inp m' := ⟨m', h, Reach.refl _ _⟩

theorem Go.recon {o : Opts} {m0 : Mach} {c : Char} {inp : Str} {m' : Mach} (st' : State) (x : Mach)
    (h : transChar o m0 c = (reconsumeTo st' x, .cont)) (hx : x.charRef = none) (hk : readKind st' = .getChar)
    (hc : x.currentChar = c) (hrc : x.reconsume = false) (hgo : Go o (to st' x) c inp m') : Go o m0 c inp m' := by
  obtain ⟨m2, h2, hr⟩ := hgo
  refine ⟨_, h, Reach.cons ?_ hr⟩
  rw [step_reconsume o _ inp (by simpa [reconsumeTo] using hx) (by simpa [reconsumeTo] using hk) (by simp [reconsumeTo])]
  have e : (reconsumeTo st' x).setReconsume false = to st' x := by
    cases x; simp only [reconsumeTo, to, Mach.setReconsume] at hrc ⊢; subst hrc; rfl
  have e2 : (reconsumeTo st' x).currentChar = c := by simpa [reconsumeTo] using hc
  rw [e, e2, h2]; rfl

theorem reach_of_go (o : Opts) (ho : o.exactErrors = false) (m : Mach) (c : Char) (rest : Str) (st : State) (m' : Mach)
    (h : Ctl m st) (hk : readKind st = .getChar) (hp : PlainCh c) (hgo : Go o (m.setCurrentChar c) c rest m') :
    Reach o m (c :: rest) m' rest := by
  obtain ⟨s1, s2, s3, s4, s5⟩ := h
  obtain ⟨m1, h1, hr⟩ := hgo
  refine Reach.cons ?_ hr
  rw [step_char o ho m c rest s2 (by rw [s1]; exact hk) s3 s4 hp.1 hp.2, h1]; rfl

macro "cmt_simp" : tactic =>
  `(tactic| simp [to, reconsumeTo, pushComment, appendComment, emitComment, emit, emitErr, badChar,
      Mach.setCurrentChar, Mach.setReconsume, CS.st, CS.pend, *])

/-- the facts carried through a comment -/
structure CmtInv (m0 m' : Mach) (q' : CS) (consumed : Str) : Prop where
  ctl : Ctl m' q'.st
  clean : Clean m'
  cc : m'.currentChar = m0.currentChar
  txt : m'.comment ++ q'.pend = consumed
  out : cvOut m'.out = cvOut m0.out

/-- the comment state proper -/
theorem go_cmt (o : Opts) (m0 : Mach) (c : Char) (inp : Str)
    (h : Ctl m0 .comment) (hn : Clean m0) (hc : m0.currentChar = c) :
    ∃ m', Go o m0 c inp m' ∧ CmtInv m0 m' (cmtNext c) (m0.comment ++ [c]) := by
  obtain ⟨s1, s2, s3, s4, s5⟩ := h
  obtain ⟨n1, n2, n3⟩ := hn
  unfold cmtNext
  by_cases h1 : c = '<'
  · subst h1
    refine ⟨to .commentLessThan (pushComment '<' m0), Go.direct (by simp [transChar, s1]), ?_⟩
    refine ⟨?_, ?_, ?_, ?_, ?_⟩
    · constructor <;> cmt_simp
    · constructor <;> cmt_simp
    · cmt_simp
    · cmt_simp
    · cmt_simp
  by_cases h2 : c = '-'
  · subst h2
    refine ⟨to .commentEndDash m0, Go.direct (by simp [transChar, s1]), ?_⟩
    refine ⟨?_, ?_, ?_, ?_, ?_⟩
    · constructor <;> cmt_simp
    · constructor <;> cmt_simp
    · cmt_simp
    · cmt_simp
    · cmt_simp
  · refine ⟨pushComment c m0, Go.direct (by simp [transChar, s1, h1, h2]), ?_⟩
    simp only [h1, h2, if_false]
    refine ⟨?_, ?_, ?_, ?_, ?_⟩
    · constructor <;> cmt_simp
    · constructor <;> cmt_simp
    · cmt_simp
    · cmt_simp
    · cmt_simp

/-- hand-over to the comment state by a reconsume, after `pre` has been appended to the register -/
theorem go_to_cmt (o : Opts) (m0 : Mach) (c : Char) (inp : Str) (x : Mach) (pre : Str)
    (h : transChar o m0 c = (reconsumeTo .comment x, .cont))
    (s2 : x.charRef = none) (s3 : x.reconsume = false) (s4 : x.ignoreLf = false) (s5 : x.tempBuf = [])
    (hn : Clean x) (hc : x.currentChar = c) (hcc : m0.currentChar = c)
    (htxt : x.comment = m0.comment ++ pre) (hout : cvOut x.out = cvOut m0.out) :
    ∃ m', Go o m0 c inp m' ∧ CmtInv m0 m' (cmtNext c) (m0.comment ++ pre ++ [c]) := by
  obtain ⟨n1, n2, n3⟩ := hn
  obtain ⟨m', hgo, hi⟩ := go_cmt o (to .comment x) c inp
    (by constructor <;> simp [to, *]) (by constructor <;> simp [to, *]) (by simp [to, hc])
  refine ⟨m', Go.recon .comment x h s2 rfl hc s3 hgo, ?_⟩
  obtain ⟨i1, i2, i3, i4, i5⟩ := hi
  refine ⟨i1, i2, ?_, ?_, ?_⟩
  · rw [i3]; simp [to, hc, hcc]
  · rw [i4]; simp [to, htxt]
  · rw [i5]; simp [to, hout]

theorem badChar_cvOut (o : Opts) (m : Mach) : cvOut (badChar o m).out = cvOut m.out := by
  unfold badChar; split <;> simp [emit, emitErr, cvOut_err]

theorem badChar_regs (o : Opts) (m : Mach) :
    (badChar o m).comment = m.comment ∧ (badChar o m).attrName = m.attrName ∧
    (badChar o m).attrValue = m.attrValue ∧ (badChar o m).doctype = m.doctype := by
  unfold badChar; split <;> simp [emit, emitErr]

theorem go_endDash (o : Opts) (m0 : Mach) (c : Char) (inp : Str)
    (h : Ctl m0 .commentEndDash) (hn : Clean m0) (hc : m0.currentChar = c) :
    ∃ m', Go o m0 c inp m' ∧ CmtInv m0 m' (CS.next .endDash c) (m0.comment ++ ['-'] ++ [c]) := by
  obtain ⟨s1, s2, s3, s4, s5⟩ := h
  obtain ⟨n1, n2, n3⟩ := hn
  unfold CS.next
  by_cases h1 : c = '-'
  · subst h1
    refine ⟨to .commentEnd m0, Go.direct (by simp [transChar, s1]), ?_⟩
    refine ⟨?_, ?_, ?_, ?_, ?_⟩
    · constructor <;> cmt_simp
    · constructor <;> cmt_simp
    · cmt_simp
    · cmt_simp
    · cmt_simp
  · simp only [h1, if_false]
    exact go_to_cmt o m0 c inp (pushComment '-' m0) ['-'] (by simp [transChar, s1, h1])
      (by cmt_simp) (by cmt_simp) (by cmt_simp) (by cmt_simp) (by constructor <;> cmt_simp) (by cmt_simp) hc
      (by cmt_simp) (by cmt_simp)

theorem go_end (o : Opts) (m0 : Mach) (c : Char) (inp : Str)
    (h : Ctl m0 .commentEnd) (hn : Clean m0) (hc : m0.currentChar = c) (hb : c ≠ '>') :
    ∃ m', Go o m0 c inp m' ∧ CmtInv m0 m' (endNext c) (m0.comment ++ ['-', '-'] ++ [c]) := by
  obtain ⟨s1, s2, s3, s4, s5⟩ := h
  obtain ⟨n1, n2, n3⟩ := hn
  unfold endNext
  by_cases h1 : c = '!'
  · subst h1
    refine ⟨to .commentEndBang m0, Go.direct (by simp [transChar, s1]), ?_⟩
    refine ⟨?_, ?_, ?_, ?_, ?_⟩
    · constructor <;> cmt_simp
    · constructor <;> cmt_simp
    · cmt_simp
    · cmt_simp
    · cmt_simp
  by_cases h2 : c = '-'
  · subst h2
    refine ⟨pushComment '-' m0, Go.direct (by simp [transChar, s1]), ?_⟩
    refine ⟨?_, ?_, ?_, ?_, ?_⟩
    · constructor <;> cmt_simp
    · constructor <;> cmt_simp
    · cmt_simp
    · cmt_simp
    · cmt_simp
  · simp only [h1, h2, if_false]
    exact go_to_cmt o m0 c inp (appendComment "--" m0) ['-', '-'] (by simp [transChar, s1, h1, h2, hb])
      (by cmt_simp) (by cmt_simp) (by cmt_simp) (by cmt_simp) (by constructor <;> cmt_simp) (by cmt_simp) hc
      rfl (by cmt_simp)

/-- **one character of comment text**, in any of the ten comment states: unless it is a `>` that ends
the comment, the register plus the pending text grows by exactly that character -/
theorem go_cs (o : Opts) (q : CS) (m0 : Mach) (c : Char) (inp : Str)
    (h : Ctl m0 q.st) (hn : Clean m0) (hc : m0.currentChar = c) (hb : c = '>' → q.bad = false) :
    ∃ m', Go o m0 c inp m' ∧ CmtInv m0 m' (q.next c) (m0.comment ++ q.pend ++ [c]) := by
  have h' := h
  obtain ⟨s1, s2, s3, s4, s5⟩ := h
  have hn' := hn
  obtain ⟨n1, n2, n3⟩ := hn
  cases q with
  | start =>
    have hgt : c ≠ '>' := fun e => by simpa [CS.bad] using hb e
    simp only [CS.st] at s1
    unfold CS.next
    by_cases h1 : c = '-'
    · subst h1
      refine ⟨to .commentStartDash m0, Go.direct (by simp [transChar, s1]), ?_⟩
      refine ⟨?_, ?_, ?_, ?_, ?_⟩
      · constructor <;> cmt_simp
      · constructor <;> cmt_simp
      · cmt_simp
      · cmt_simp
      · cmt_simp
    · simp only [h1, if_false, CS.pend, List.append_nil]
      have := go_to_cmt o m0 c inp m0 [] (by simp [transChar, s1, h1, hgt]) s2 s3 s4 s5 hn' hc hc (by simp) rfl
      simpa using this
  | startDash =>
    have hgt : c ≠ '>' := fun e => by simpa [CS.bad] using hb e
    simp only [CS.st] at s1
    unfold CS.next
    by_cases h1 : c = '-'
    · subst h1
      refine ⟨to .commentEnd m0, Go.direct (by simp [transChar, s1]), ?_⟩
      refine ⟨?_, ?_, ?_, ?_, ?_⟩
      · constructor <;> cmt_simp
      · constructor <;> cmt_simp
      · cmt_simp
      · cmt_simp
      · cmt_simp
    · simp only [h1, if_false, CS.pend]
      exact go_to_cmt o m0 c inp (pushComment '-' m0) ['-'] (by simp [transChar, s1, h1, hgt])
        (by cmt_simp) (by cmt_simp) (by cmt_simp) (by cmt_simp) (by constructor <;> cmt_simp) (by cmt_simp) hc
        (by cmt_simp) (by cmt_simp)
  | cmt =>
    have := go_cmt o m0 c inp h' hn' hc
    simpa [CS.next, CS.pend] using this
  | lt =>
    simp only [CS.st] at s1
    unfold CS.next
    by_cases h1 : c = '!'
    · subst h1
      refine ⟨to .commentLessThanBang (pushComment '!' m0), Go.direct (by simp [transChar, s1]), ?_⟩
      refine ⟨?_, ?_, ?_, ?_, ?_⟩
      · constructor <;> cmt_simp
      · constructor <;> cmt_simp
      · cmt_simp
      · cmt_simp
      · cmt_simp
    by_cases h2 : c = '<'
    · subst h2
      refine ⟨pushComment '<' m0, Go.direct (by simp [transChar, s1]), ?_⟩
      refine ⟨?_, ?_, ?_, ?_, ?_⟩
      · constructor <;> cmt_simp
      · constructor <;> cmt_simp
      · cmt_simp
      · cmt_simp
      · cmt_simp
    · simp only [h1, h2, if_false, CS.pend, List.append_nil]
      have := go_to_cmt o m0 c inp m0 [] (by simp [transChar, s1, h1, h2]) s2 s3 s4 s5 hn' hc hc (by simp) rfl
      simpa using this
  | ltBang =>
    simp only [CS.st] at s1
    unfold CS.next
    by_cases h1 : c = '-'
    · subst h1
      refine ⟨to .commentLessThanBangDash m0, Go.direct (by simp [transChar, s1]), ?_⟩
      refine ⟨?_, ?_, ?_, ?_, ?_⟩
      · constructor <;> cmt_simp
      · constructor <;> cmt_simp
      · cmt_simp
      · cmt_simp
      · cmt_simp
    · simp only [h1, if_false, CS.pend, List.append_nil]
      have := go_to_cmt o m0 c inp m0 [] (by simp [transChar, s1, h1]) s2 s3 s4 s5 hn' hc hc (by simp) rfl
      simpa using this
  | ltBangDash =>
    simp only [CS.st] at s1
    by_cases h1 : c = '-'
    · subst h1
      refine ⟨to .commentLessThanBangDashDash m0, Go.direct (by simp [transChar, s1]), ?_⟩
      have e : CS.next .ltBangDash '-' = .ltBangDD := rfl
      rw [e]
      refine ⟨?_, ?_, ?_, ?_, ?_⟩
      · constructor <;> cmt_simp
      · constructor <;> cmt_simp
      · cmt_simp
      · cmt_simp
      · cmt_simp
    · obtain ⟨m', hgo, i1, i2, i3, i4, i5⟩ := go_endDash o (to .commentEndDash m0) c inp
        (by constructor <;> simp [to, *]) (by constructor <;> simp [to, *]) (by simp [to, hc])
      refine ⟨m', Go.recon .commentEndDash m0 (by simp [transChar, s1, h1]) s2 rfl hc s3 hgo, ?_⟩
      have e : CS.next .ltBangDash c = CS.next .endDash c := by simp [CS.next, h1]
      rw [e]
      refine ⟨i1, i2, ?_, ?_, ?_⟩
      · rw [i3]; simp [to]
      · rw [i4]; simp [to, CS.pend]
      · rw [i5]; simp [to]
  | ltBangDD =>
    have hgt : c ≠ '>' := fun e => by simpa [CS.bad] using hb e
    simp only [CS.st] at s1
    obtain ⟨b1, b2, b3, b4⟩ := badChar_regs o m0
    obtain ⟨m', hgo, i1, i2, i3, i4, i5⟩ := go_end o (to .commentEnd (badChar o m0)) c inp
      (by constructor <;> simp [to, *]) (by constructor <;> simp [to, *]) (by simp [to, hc]) hgt
    refine ⟨m', Go.recon .commentEnd (badChar o m0) (by simp [transChar, s1, hgt]) (by simp [s2]) rfl
      (by simp [hc]) (by simp [s3]) hgo, ?_⟩
    have e : CS.next .ltBangDD c = endNext c := rfl
    rw [e]
    refine ⟨i1, i2, ?_, ?_, ?_⟩
    · rw [i3]; simp [to]
    · rw [i4]; simp [to, CS.pend, b1]
    · rw [i5]; simp [to, badChar_cvOut]
  | endDash =>
    have := go_endDash o m0 c inp h' hn' hc
    simpa [CS.pend] using this
  | end_ =>
    have hgt : c ≠ '>' := fun e => by simpa [CS.bad] using hb e
    have := go_end o m0 c inp h' hn' hc hgt
    simpa [CS.pend, CS.next] using this
  | endBang =>
    have hgt : c ≠ '>' := fun e => by simpa [CS.bad] using hb e
    simp only [CS.st] at s1
    unfold CS.next
    by_cases h1 : c = '-'
    · subst h1
      refine ⟨to .commentEndDash (appendComment "--!" m0), Go.direct (by simp [transChar, s1]), ?_⟩
      refine ⟨?_, ?_, ?_, ?_, ?_⟩
      · constructor <;> cmt_simp
      · constructor <;> cmt_simp
      · cmt_simp
      · simp only [to, appendComment, CS.pend]; rfl
      · cmt_simp
    · simp only [h1, if_false, CS.pend]
      exact go_to_cmt o m0 c inp (appendComment "--!" m0) ['-', '-', '!'] (by simp [transChar, s1, h1, hgt])
        (by cmt_simp) (by cmt_simp) (by cmt_simp) (by cmt_simp) (by constructor <;> cmt_simp) (by cmt_simp) hc
        rfl (by cmt_simp)

/-! ### a whole comment -/

/-- may a `>` follow the comment text `p` without ending the comment: not at the very start
(`<!-->`), not after a single leading dash (`<!--->`), not after `--` or `--!` -/
def GtOk (p : Str) : Prop :=
  p ≠ [] ∧ p ≠ ['-'] ∧ ¬ (['-', '-'] <:+ p) ∧ ¬ (['-', '-', '!'] <:+ p)

/-- a comment text that the tokenizer reads back unchanged from `<!--` text `-->` -/
def CommentLex (s : Str) : Prop :=
  (∀ c ∈ s, PlainCh c) ∧ ∀ p t, s = p ++ '>' :: t → GtOk p

structure CI (m : Mach) (q : CS) (p : Str) : Prop where
  ctl : Ctl m q.st
  clean : Clean m
  txt : m.comment ++ q.pend = p
  st0 : q = .start → p = []
  st1 : q = .startDash → p = ['-']

theorem next_ne_start (q : CS) (c : Char) : q.next c ≠ .start := by
  cases q <;> simp only [CS.next, cmtNext, endNext] <;> (repeat' split) <;> simp

theorem next_startDash (q : CS) (c : Char) (h : q.next c = .startDash) : q = .start ∧ c = '-' := by
  cases q <;> simp only [CS.next, cmtNext, endNext] at h <;> (repeat' split at h) <;> simp_all

theorem bad_gtOk (m : Mach) (q : CS) (p : Str) (h : CI m q p) (hg : GtOk p) : q.bad = false := by
  obtain ⟨g1, g2, g3, g4⟩ := hg
  cases q with
  | start => exact absurd (h.st0 rfl) g1
  | startDash => exact absurd (h.st1 rfl) g2
  | ltBangDD => exact absurd ⟨m.comment, h.txt⟩ g3
  | end_ => exact absurd ⟨m.comment, h.txt⟩ g3
  | endBang => exact absurd ⟨m.comment, h.txt⟩ g4
  | _ => rfl

theorem cmt_char (o : Opts) (ho : o.exactErrors = false) (m : Mach) (q : CS) (p : Str) (c : Char) (rest : Str)
    (h : CI m q p) (hp : PlainCh c) (hg : c = '>' → GtOk p) :
    ∃ m', Reach o m (c :: rest) m' rest ∧ CI m' (q.next c) (p ++ [c]) ∧ cvOut m'.out = cvOut m.out := by
  obtain ⟨⟨s1, s2, s3, s4, s5⟩, ⟨n1, n2, n3⟩, ht, h0, h1⟩ := id h
  obtain ⟨m', hgo, i1, i2, i3, i4, i5⟩ := go_cs o q (m.setCurrentChar c) c rest
    (by constructor <;> simp [Mach.setCurrentChar, *]) (by constructor <;> simp [Mach.setCurrentChar, *])
    (by simp [Mach.setCurrentChar]) (fun e => bad_gtOk m q p h (hg e))
  refine ⟨m', reach_of_go o ho m c rest q.st m' h.ctl (readKind_cs q) hp hgo, ⟨i1, i2, ?_, ?_, ?_⟩, ?_⟩
  · rw [i4]; simp [Mach.setCurrentChar, ← ht]
  · intro e; exact absurd e (next_ne_start q c)
  · intro e
    obtain ⟨rfl, rfl⟩ := next_startDash q c e
    rw [h0 rfl]; rfl
  · rw [i5]; simp [Mach.setCurrentChar]

theorem cmt_run (o : Opts) (ho : o.exactErrors = false) (rest : Str) :
    ∀ (u p : Str) (q : CS) (m : Mach), CI m q p → (∀ c ∈ u, PlainCh c) →
      (∀ a t, u = a ++ '>' :: t → GtOk (p ++ a)) →
      ∃ m', Reach o m (u ++ rest) m' rest ∧ CI m' (u.foldl CS.next q) (p ++ u) ∧ cvOut m'.out = cvOut m.out := by
  intro u
  induction u with
  | nil => intro p q m h _ _; exact ⟨m, Reach.refl _ _, by simpa using h, rfl⟩
  | cons c u ih =>
    intro p q m h hp hg
    obtain ⟨m1, r1, h1, o1⟩ := cmt_char o ho m q p c (u ++ rest) h (hp c (by simp))
      (fun e => by have := hg [] u (by rw [e]; rfl); simpa using this)
    obtain ⟨m2, r2, h2, o2⟩ := ih (p ++ [c]) (q.next c) m1 h1 (fun d hd => hp d (by simp [hd]))
      (fun a t e => by have := hg (c :: a) t (by rw [e]; rfl); simpa using this)
    exact ⟨m2, Reach.trans r1 r2, by simpa using h2, by rw [o2, o1]⟩

theorem dash_dash (q : CS) : (q.next '-').next '-' = .end_ ∨ (q.next '-').next '-' = .ltBangDD := by
  cases q <;> decide

/-- the closing `>` after `--` -/
theorem cmt_close (o : Opts) (ho : o.exactErrors = false) (m : Mach) (q : CS) (rest : Str)
    (hq : q = .end_ ∨ q = .ltBangDD) (h : Ctl m q.st) (hn : Clean m) :
    ∃ m', Reach o m ('>' :: rest) m' rest ∧ Ctl m' .data ∧ Clean m' ∧ m'.out = .comment m.comment :: m.out := by
  obtain ⟨s1, s2, s3, s4, s5⟩ := h
  obtain ⟨n1, n2, n3⟩ := hn
  rcases hq with rfl | rfl
  · simp only [CS.st] at s1
    refine ⟨to .data (emitComment (m.setCurrentChar '>')), Reach.one ?_, ?_, ?_, ?_⟩
    · rw [step_char o ho m '>' rest s2 (by rw [s1]; rfl) s3 s4 (by decide) (by decide)]
      simp [transChar, s1, ofSig]
    · constructor <;> cmt_simp
    · constructor <;> cmt_simp
    · cmt_simp
  · simp only [CS.st] at s1
    refine ⟨to .data (emitComment ((reconsumeTo .commentEnd (m.setCurrentChar '>')).setReconsume false)),
      Reach.cons (m1 := reconsumeTo .commentEnd (m.setCurrentChar '>')) (i1 := rest) ?_ (Reach.one ?_), ?_, ?_, ?_⟩
    · rw [step_char o ho m '>' rest s2 (by rw [s1]; rfl) s3 s4 (by decide) (by decide)]
      simp [transChar, s1, ofSig]
    · rw [step_reconsume o _ rest (by cmt_simp) (by simp [reconsumeTo]; rfl) (by simp [reconsumeTo])]
      simp [transChar, reconsumeTo, Mach.setCurrentChar, Mach.setReconsume, ofSig]
    · constructor <;> cmt_simp
    · constructor <;> cmt_simp
    · cmt_simp

/-- **a whole comment**: after `<!--`, the text `s` and `-->` deliver the comment token `s` (and possibly
"Bad character" parse errors, for `<!--` inside the text) and lead back to the data state -/
theorem comment_body (o : Opts) (ho : o.exactErrors = false) (m : Mach) (s : Str) (rest : Str)
    (h : Ctl m .commentStart) (hn : Clean m) (hc : m.comment = []) (hs : CommentLex s) :
    ∃ m', Reach o m (s ++ '-' :: '-' :: '>' :: rest) m' rest ∧ Ctl m' .data ∧ Clean m' ∧
      cvOut m'.out = cvOut m.out ++ [.comment s] := by
  have h0 : CI m .start [] := ⟨h, hn, by simp [CS.pend, hc], fun _ => rfl, fun e => by cases e⟩
  obtain ⟨m1, r1, h1, o1⟩ := cmt_run o ho ('-' :: '-' :: '>' :: rest) s [] .start m h0 hs.1
    (fun a t e => by simpa using hs.2 a t e)
  obtain ⟨m2, r2, h2, o2⟩ := cmt_run o ho ('>' :: rest) ['-', '-'] ([] ++ s) _ m1 h1
    (fun c hc => by
      have : c = '-' := by simpa using hc
      subst this; exact ⟨by decide, by decide⟩)
    (fun a t e => by
      have : '>' ∈ ['-', '-'] := by rw [e]; simp
      simp at this)
  have hq := dash_dash (s.foldl CS.next .start)
  simp only [List.foldl_cons, List.foldl_nil] at h2
  have htxt : m2.comment = s := by
    have := h2.txt
    rcases hq with e | e <;> rw [e] at this <;> simpa [CS.pend] using this
  obtain ⟨m3, r3, c3, n3, o3⟩ := cmt_close o ho m2 _ rest hq h2.ctl h2.clean
  refine ⟨m3, ?_, c3, n3, ?_⟩
  · have : s ++ '-' :: '-' :: '>' :: rest = s ++ ('-' :: '-' :: '>' :: rest) := rfl
    exact Reach.trans r1 (Reach.trans (by simpa using r2) r3)
  · rw [o3, cvOut_cons, o2, o1, htxt]; rfl

end H5V.Lemmas.XmlRT
