import H5V.Lemmas.HtmlTBSafeInv
/-!
# Tree-builder safety, part 8: "any other end tag" and the adoption agency

None of the panic sites of `process_end_tag_in_body`, `adoption_agency` (outer loop, inner loop,
bookmark handling) and `handle_misnested_a_tags` is reachable from a state satisfying the handle
invariant `HInv` whose stack of open elements is `Rooted`; `AAPost` describes what these algorithms do
to the builder state.
-/
namespace H5V.Lemmas.TBSafe
open H5V.Model.HtmlTB
open H5V.Model.Dom (Id QualName Attr NodeOrText SinkOp Output ElementFlags QuirksMode Dom NodeData Node)

variable {al : Allow}

/-! ### names -/

theorem fmt_not_special {n : Str} (h : isOneOf n fmtNames = true) : specialTag ⟨nsHtml, n⟩ = false := by
  simp [isOneOf, fmtNames] at h
  rcases h with h | h | h | h | h | h | h | h | h | h | h | h | h | h <;> subst h <;> decide

theorem fmt_ne_html {n : Str} (h : isOneOf n fmtNames = true) : n ≠ "html".toList := by
  rintro rfl; revert h; decide

theorem isFmtE_mk {n : Str} (h : isOneOf n fmtNames = true) : isFmtE ⟨nsHtml, n⟩ = true := by
  simp only [isFmtE, beq_self_eq_true, Bool.true_and]; exact h

theorem isFmtE_eq {n : EName} (h : isFmtE n = true) : ∃ loc, n = ⟨nsHtml, loc⟩ ∧ isOneOf loc fmtNames = true := by
  cases n with
  | mk ns loc =>
    simp only [isFmtE, Bool.and_eq_true, beq_iff_eq] at h
    exact ⟨loc, by rw [h.1], h.2⟩

theorem isFmtE_not_special {n : EName} (h : isFmtE n = true) : specialTag n = false := by
  obtain ⟨loc, rfl, hl⟩ := isFmtE_eq h
  exact fmt_not_special hl

theorem isFmtE_ne_html {n : EName} (h : isFmtE n = true) : n ≠ htmlName := by
  obtain ⟨loc, rfl, hl⟩ := isFmtE_eq h
  intro he
  simp only [htmlName, EName.mk.injEq] at he
  exact fmt_ne_html hl he.2

theorem special_htmlName : specialTag htmlName = true := by decide

theorem isTmpl_of_fmt {d : Dom} {x : Id} (h : isFmtE (nm d x) = true) : isTmpl d x = false := by
  unfold isTmpl
  have := (NewOk.of_fmt h).1
  simpa using this

theorem tcOk_of_fmt {d : Dom} {x : Id} (h : isFmtE (nm d x) = true) : TcOk d x :=
  fun hn => absurd hn (NewOk.of_fmt h).1

theorem namedP_nm {d : Dom} {name : Str} {x : Id} (h : namedP d name x = true) : nm d x = ⟨nsHtml, name⟩ := by
  unfold namedP at h
  cases hh : nm d x with
  | mk ns loc =>
    rw [hh] at h
    simp only [Bool.and_eq_true, beq_iff_eq] at h
    rw [h.1, h.2]

theorem namedP_of_nm {d : Dom} {name : Str} {x : Id} (h : nm d x = ⟨nsHtml, name⟩) : namedP d name x = true := by
  unfold namedP; rw [h]; simp

/-! ### the postcondition -/

/-- what the adoption agency / "any other end tag" do to the builder state -/
structure AAPost (s s' : State) : Prop where
  fr : Fr s s'
  hinv : HInv s'
  rooted : Rooted s'.dom s'.openElems
  news : ∀ x ∈ s'.openElems, x ∈ s.openElems ∨ isFmtE (nm s'.dom x) = true
  keeps : ∀ x ∈ s.openElems, specialTag (nm s.dom x) = true → x ∈ s'.openElems
  tcnt : tcount s'.dom s'.openElems ≤ tcount s.dom s.openElems

theorem AAPost.refl {s : State} (hi : HInv s) (hr : Rooted s.dom s.openElems) : AAPost s s :=
  ⟨Fr.refl s, hi, hr, fun _ hx => Or.inl hx, fun _ hx _ => hx, Nat.le_refl _⟩

theorem AAPost.trans {a b c : State} (hi : HInv a) (h1 : AAPost a b) (h2 : AAPost b c) : AAPost a c where
  fr := h1.fr.trans h2.fr
  hinv := h2.hinv
  rooted := h2.rooted
  news := fun x hx => by
    rcases h2.news x hx with hb | hf
    · rcases h1.news x hb with ha | hf
      · exact Or.inl ha
      · exact Or.inr (by rw [nm_ext h2.fr.ext (h1.hinv.open_el x hb)]; exact hf)
    · exact Or.inr hf
  keeps := fun x hx hs => by
    have hb := h1.keeps x hx hs
    exact h2.keeps x hb (by rw [nm_ext h1.fr.ext (hi.open_el x hx)]; exact hs)
  tcnt := Nat.le_trans h2.tcnt h1.tcnt

theorem AAPost.of_same {s s' : State} (hi : HInv s) (hr : Rooted s.dom s.openElems) (h : Same s s') :
    AAPost s s' where
  fr := h.fr
  hinv := hi.of_same h
  rooted := by rw [h.openElems]; exact hr.ext h.fr.ext hi.open_el
  news := fun x hx => Or.inl (by rw [h.openElems] at hx; exact hx)
  keeps := fun x hx _ => by rw [h.openElems]; exact hx
  tcnt := by rw [h.openElems, tcount_ext h.fr.ext hi.open_el]; exact Nat.le_refl _

theorem AAPost.of_qf {s s' : State} (hi : HInv s) (hr : Rooted s.dom s.openElems) (h : QF s s') :
    AAPost s s' := AAPost.of_same hi hr h.same

/-- `AAPost a b` followed by a sink call -/
theorem AAPost.qf_right {a b c : State} (hi : HInv a) (h1 : AAPost a b) (h2 : QF b c) : AAPost a c :=
  h1.trans hi (AAPost.of_qf h1.hinv h1.rooted h2)

theorem rooted_of_head {d : Dom} {l l' : List Id} (hr : Rooted d l) (hh : l'.head? = l.head?) : Rooted d l' := by
  obtain ⟨r, rest, rfl, hn⟩ := hr
  cases l' with
  | nil => simp at hh
  | cons a t =>
    simp only [List.head?_cons, Option.some.injEq] at hh
    subst hh
    exact ⟨a, t, rfl, hn⟩

/-- an update of the two lists of the builder (same DOM): the bottom of the stack stays, new stack
entries are formatting elements, new entries of the list of active formatting elements are
well-formed, no special element leaves the stack -/
theorem aapost_upd {s : State} (hi : HInv s) (hr : Rooted s.dom s.openElems) (l' : List Id)
    (af' : List FormatEntry) (hhead : l'.head? = s.openElems.head?)
    (hnew : ∀ x ∈ l', x ∈ s.openElems ∨ (IsEl s.dom x ∧ isFmtE (nm s.dom x) = true))
    (haf : ∀ x t, FormatEntry.element x t ∈ af' → FormatEntry.element x t ∈ s.activeFormatting ∨
      (IsEl s.dom x ∧ nm s.dom x = ⟨nsHtml, t.name⟩ ∧ isOneOf t.name fmtNames = true))
    (hkeep : ∀ x ∈ s.openElems, specialTag (nm s.dom x) = true → x ∈ l')
    (htc : tcount s.dom l' ≤ tcount s.dom s.openElems) :
    AAPost s { s with openElems := l', activeFormatting := af' } where
  fr := (Fr.refl s).withOpenAF l' af'
  hinv := {
    open_el := fun x hx => by
      rcases hnew x hx with h | h
      · exact hi.open_el x h
      · exact h.1
    open_tc := fun x hx => by
      rcases hnew x hx with h | h
      · exact hi.open_tc x h
      · exact tcOk_of_fmt h.2
    af := fun x t hx => by
      rcases haf x t hx with h | h
      · exact hi.af x t h
      · exact h
    head := hi.head
    form := hi.form
    ctx := hi.ctx }
  rooted := rooted_of_head hr hhead
  news := fun x hx => by
    rcases hnew x hx with h | h
    · exact Or.inl h
    · exact Or.inr h.2
  keeps := hkeep
  tcnt := htc

theorem tcount_sublist {d : Dom} {l' l : List Id} (h : l'.Sublist l) : tcount d l' ≤ tcount d l :=
  List.Sublist.countP_le h

/-- cutting the stack down to a non-empty prefix, the dropped elements being non-special -/
theorem aapost_prefix {s : State} (hi : HInv s) (hr : Rooted s.dom s.openElems) {pre post : List Id}
    (af' : List FormatEntry) (heq : s.openElems = pre ++ post) (hne : pre ≠ [])
    (hpost : ∀ y ∈ post, specialTag (nm s.dom y) = false)
    (haf : ∀ e ∈ af', e ∈ s.activeFormatting) :
    AAPost s { s with openElems := pre, activeFormatting := af' } := by
  refine aapost_upd hi hr pre af' ?_ ?_ ?_ ?_ ?_
  · rw [heq]
    cases pre with
    | nil => exact absurd rfl hne
    | cons a t => rfl
  · intro x hx; exact Or.inl (by rw [heq]; exact List.mem_append_left _ hx)
  · intro x t hx; exact Or.inl (haf _ hx)
  · intro x hx hs
    rw [heq] at hx
    rcases List.mem_append.mp hx with h | h
    · exact h
    · rw [hpost x h] at hs; cases hs
  · rw [heq]; exact tcount_sublist (List.sublist_append_left _ _)

theorem AAPost.of_st_prefix {s s' : State} (hi : HInv s) (hr : Rooted s.dom s.openElems) {pre post : List Id}
    (heq : s.openElems = pre ++ post) (hne : pre ≠ [])
    (hpost : ∀ y ∈ post, specialTag (nm s.dom y) = false) (st : St s s' pre) : AAPost s s' := by
  have h1 := aapost_prefix hi hr s.activeFormatting heq hne hpost (fun _ h => h)
  have h2 : Same { s with openElems := pre, activeFormatting := s.activeFormatting } s' :=
    ⟨⟨st.fr.mode, st.fr.origMode, st.fr.templateModes, st.fr.pendingTableText, st.fr.headElem, st.fr.formElem,
      st.fr.contextElem, st.fr.docHandle, st.fr.opts, st.fr.ext⟩, st.openElems, st.af⟩
  exact h1.trans hi (AAPost.of_same h1.hinv h1.rooted h2)

/-! ### `process_end_tag_in_body` -/

def etsP (d : Dom) (name : Str) : List Id → Nat → Option (Option Nat)
  | [], _ => some none
  | e :: rest, len =>
    if namedP d name e then some (some (len - 1))
    else if specialTag (nm d e) then none else etsP d name rest (len - 1)

theorem etsP_congr {d d' : Dom} {name : Str} : ∀ {l : List Id} {n : Nat}, (∀ x ∈ l, nm d' x = nm d x) →
    etsP d' name l n = etsP d name l n := by
  intro l
  induction l with
  | nil => intro _ _; rfl
  | cons a t ih =>
    intro n h
    have h1 : namedP d' name a = namedP d name a := by unfold namedP; rw [h a List.mem_cons_self]
    simp only [etsP]
    rw [h1, h a List.mem_cons_self, ih (fun x hx => h x (List.mem_cons_of_mem _ hx))]

theorem sat_endTagSearch {name : Str} : ∀ (l : List Id) (n : Nat) (s : State), AllEl s.dom l →
    Sat (endTagSearch name l n) s (fun r s' => r = etsP s.dom name l n ∧ QF s s') := by
  intro l
  induction l with
  | nil => intro n s _; exact sat_pure ⟨rfl, QF.refl s⟩
  | cons e rest ih =>
    intro n s hall
    unfold endTagSearch
    have hel := hall e List.mem_cons_self
    refine (sat_htmlElemNamedS hel).bind ?_
    rintro b s1 ⟨rfl, hq1⟩
    by_cases hb : namedP s.dom name e = true
    · have hb' := hb
      unfold namedP at hb'
      simp only [hb', if_true]
      exact sat_pure ⟨by simp [etsP, hb], hq1⟩
    · have hb' := hb
      unfold namedP at hb'
      simp only [hb', if_false, Bool.false_eq_true]
      refine (sat_elemIn (hel.ext hq1.ext)).bind ?_
      rintro b2 s2 ⟨rfl, hq2⟩
      rw [nm_ext hq1.ext hel]
      have hq := hq1.trans hq2
      by_cases hsp : specialTag (nm s.dom e) = true
      · simp only [hsp, if_true]
        refine sat_parseError.bind ?_
        intro _ s3 hq3
        exact sat_pure ⟨by simp [etsP, hb, hsp], hq.trans hq3⟩
      · simp only [hsp, if_false, Bool.false_eq_true]
        have hall' : AllEl s.dom rest := hall.sub (fun x hx => List.mem_cons_of_mem _ hx)
        refine (ih (n - 1) s2 (hall'.ext hq.ext)).mono ?_
        rintro r s3 ⟨rfl, hq3⟩
        refine ⟨?_, hq.trans hq3⟩
        simp only [etsP, hb, hsp, if_false, Bool.false_eq_true]
        exact etsP_congr (fun x hx => hall'.nm_eq hq.ext hx)

theorem etsP_rev {d : Dom} {name : Str} : ∀ (r : List Id) (n i : Nat), n = r.length →
    etsP d name r n = some (some i) →
    ∃ a x b, r = a ++ x :: b ∧ i = b.length ∧ namedP d name x = true ∧
      ∀ y ∈ a, specialTag (nm d y) = false := by
  intro r
  induction r with
  | nil => intro n i _ h; simp [etsP] at h
  | cons z t ih =>
    intro n i hn h
    simp only [etsP] at h
    by_cases hP : namedP d name z = true
    · simp only [hP, if_true, Option.some.injEq] at h
      exact ⟨[], z, t, rfl, by rw [← h, hn]; simp, hP, by simp⟩
    · simp only [hP, if_false, Bool.false_eq_true] at h
      by_cases hsp : specialTag (nm d z) = true
      · simp [hsp] at h
      · simp only [hsp, if_false, Bool.false_eq_true] at h
        obtain ⟨a, x, b, rfl, hi, hx, ha⟩ := ih (n - 1) i (by simp [hn]) h
        refine ⟨z :: a, x, b, rfl, hi, hx, ?_⟩
        intro y hy
        rcases List.mem_cons.mp hy with rfl | hy
        · simpa using hsp
        · exact ha y hy

theorem etsP_spec {d : Dom} {name : Str} {l : List Id} {i : Nat}
    (h : etsP d name l.reverse l.length = some (some i)) :
    ∃ pre x post, l = pre ++ x :: post ∧ i = pre.length ∧ namedP d name x = true ∧
      ∀ y ∈ post, specialTag (nm d y) = false := by
  obtain ⟨a, x, b, hr, hi, hx, ha⟩ := etsP_rev l.reverse l.length i (by simp) h
  refine ⟨b.reverse, x, a.reverse, ?_, by simpa using hi, hx, fun y hy => ha y (List.mem_reverse.mp hy)⟩
  have := congrArg List.reverse hr
  simpa using this

theorem impliedExcept_named {d : Dom} {name : Str} {x : Id} (h : namedP d name x = true) :
    impliedExcept name (nm d x) = false := by
  rw [namedP_nm h]; simp [impliedExcept]

/-- `process_end_tag_in_body` ("any other end tag"): pops the matched element (an HTML element
named `tag.name`) and the non-special elements above it -/
theorem sat_processEndTagInBody {tag : Tag} {s : State} (hi : HInv s) (hr : Rooted s.dom s.openElems)
    (hname : tag.name ≠ "html".toList) :
    Sat (processEndTagInBody tag) s (fun _ s' => ∃ pre post, s.openElems = pre ++ post ∧ St s s' pre ∧ pre ≠ [] ∧
      ∀ y ∈ post, specialTag (nm s.dom y) = false ∨ namedP s.dom tag.name y = true) := by
  have hne : s.openElems ≠ [] := by obtain ⟨r, rest, hl, _⟩ := hr; rw [hl]; simp
  unfold processEndTagInBody
  refine sat_getS_bind ?_
  dsimp only
  refine (sat_endTagSearch _ _ s (hi.open_el.sub (fun x hx => List.mem_reverse.mp hx))).bind ?_
  rintro r s1 ⟨rfl, hq1⟩
  cases hres : etsP s.dom tag.name s.openElems.reverse s.openElems.length with
  | none =>
    exact sat_pure ⟨s.openElems, [], by simp, hq1.same, hne, by simp⟩
  | some r =>
    cases r with
    | none =>
      dsimp only
      refine sat_unexpected.bind ?_
      rintro _ s2 ⟨-, hq2⟩
      exact sat_pure ⟨s.openElems, [], by simp, (hq1.trans hq2).same, hne, by simp⟩
    | some matchIdx =>
      dsimp only
      obtain ⟨pre, x, post, heq, hidx, hx, hpost⟩ := etsP_spec hres
      subst hidx
      -- the match is not the root
      have hpre : pre ≠ [] := by
        intro e
        subst e
        obtain ⟨r, rest, hl, hn⟩ := hr
        rw [hl] at heq
        simp only [List.nil_append, List.cons.injEq] at heq
        rw [heq.1, namedP_nm hx] at hn
        simp only [htmlName, EName.mk.injEq] at hn
        exact hname hn.2
      have hall1 : AllEl s1.dom s1.openElems := by rw [hq1.openElems]; exact hi.open_el.ext hq1.ext
      unfold generateImpliedEndExcept
      refine (sat_generateImpliedEndTags hall1).bind ?_
      rintro _ s2 ⟨pre', post', heq', hst, hpost', -⟩
      rw [hq1.openElems, heq] at heq'
      -- the matched element is not popped
      have hlen : pre.length < pre'.length := by
        by_cases hlt : pre.length < pre'.length
        · exact hlt
        · exfalso
          have h1 : (pre ++ x :: post)[pre.length]? = some x := by simp
          rw [heq', List.getElem?_append_right (Nat.le_of_not_lt hlt)] at h1
          have hxm : x ∈ post' := List.mem_of_getElem? h1
          have := hpost' x hxm
          rw [nm_ext hq1.ext (hi.open_el x (by rw [heq]; simp)), impliedExcept_named hx] at this
          cases this
      have htake : pre'.take pre.length = pre := by
        have h1 : (pre' ++ post').take pre.length = pre'.take pre.length :=
          List.take_append_of_le_length (Nat.le_of_lt hlen)
        rw [← h1, ← heq']; simp
      refine sat_getS_bind ?_
      have hlen2 : s2.openElems.length = pre'.length := by rw [hst.openElems]
      have hz : (s2.openElems.length == 0) = false := by
        rw [hlen2]; cases hp : pre'.length with
        | zero => omega
        | succ k => rfl
      simp only [hz, Bool.false_eq_true, if_false]
      have hfin : ∀ s3, QF s2 s3 → Sat (modS fun s => { s with openElems := s.openElems.take pre.length }) s3
          (fun _ s' => ∃ pre post, s.openElems = pre ++ post ∧ St s s' pre ∧ pre ≠ [] ∧
            ∀ y ∈ post, specialTag (nm s.dom y) = false ∨ namedP s.dom tag.name y = true) := by
        intro s3 hq3
        refine sat_modS ⟨pre, x :: post, heq, ⟨?_, ?_, ?_⟩, hpre, ?_⟩
        · exact ((hq1.fr.trans hst.fr).trans hq3.fr).withOpen _
        · show s3.openElems.take pre.length = pre
          rw [hq3.openElems, hst.openElems]; exact htake
        · show s3.activeFormatting = s.activeFormatting
          rw [hq3.activeFormatting, hst.af, hq1.activeFormatting]
        · intro y hy
          rcases List.mem_cons.mp hy with rfl | hy
          · exact Or.inr hx
          · exact Or.inl (hpost y hy)
      split
      · refine sat_unexpected.bind ?_
        rintro _ s3 ⟨-, hq3⟩
        exact hfin s3 hq3
      · exact hfin s2 (QF.refl _)

/-! ### list facts -/

theorem mem_eraseIdx_of_ne {α : Type} {l : List α} {i : Nat} {x y : α} (hx : x ∈ l) (hy : l[i]? = some y)
    (hne : x ≠ y) : x ∈ l.eraseIdx i := by
  obtain ⟨k, hk⟩ := List.mem_iff_getElem?.mp hx
  refine List.mem_eraseIdx_iff_getElem?.mpr ⟨k, ?_, hk⟩
  rintro rfl
  rw [hy] at hk; cases hk; exact hne rfl

theorem mem_set_of_ne {α : Type} {l : List α} {i : Nat} {x y : α} (z : α) (hx : x ∈ l) (hy : l[i]? = some y)
    (hne : x ≠ y) : x ∈ l.set i z := by
  obtain ⟨k, hk⟩ := List.mem_iff_getElem?.mp hx
  have hki : i ≠ k := by
    rintro rfl
    rw [hy] at hk; cases hk; exact hne rfl
  refine List.mem_of_getElem? (i := k) ?_
  rw [List.getElem?_set]; simp only [hki, if_false]; exact hk

theorem head?_eraseIdx_pos {α : Type} {l : List α} {m : Nat} (hm : 0 < m) : (l.eraseIdx m).head? = l.head? := by
  rw [List.head?_eq_getElem?, List.head?_eq_getElem?, List.getElem?_eraseIdx_of_lt hm]

theorem head?_set_pos {α : Type} {l : List α} {m : Nat} {a : α} (hm : 0 < m) : (l.set m a).head? = l.head? := by
  rw [List.head?_eq_getElem?, List.head?_eq_getElem?, List.getElem?_set]
  have : m ≠ 0 := by omega
  simp only [this, if_false]

theorem head?_insertIdx_succ {α : Type} {l : List α} {k : Nat} {a : α} :
    (l.insertIdx (k + 1) a).head? = l.head? := by
  rw [List.head?_eq_getElem?, List.head?_eq_getElem?, List.getElem?_insertIdx_of_lt (Nat.succ_pos k)]

theorem getElem?_lt_of_some {α : Type} {l : List α} {i : Nat} {x : α} (h : l[i]? = some x) : i < l.length := by
  by_cases hj : i < l.length
  · exact hj
  · rw [List.getElem?_eq_none (Nat.le_of_not_lt hj)] at h; cases h

/-! ### single updates of the two lists -/

theorem aapost_af {s : State} (hi : HInv s) (hr : Rooted s.dom s.openElems) (af' : List FormatEntry)
    (haf : ∀ x t, FormatEntry.element x t ∈ af' → FormatEntry.element x t ∈ s.activeFormatting ∨
      (IsEl s.dom x ∧ nm s.dom x = ⟨nsHtml, t.name⟩ ∧ isOneOf t.name fmtNames = true)) :
    AAPost s { s with activeFormatting := af' } :=
  aapost_upd hi hr s.openElems af' rfl (fun _ hx => Or.inl hx) haf (fun _ hx _ => hx) (Nat.le_refl _)

theorem aapost_af_sub {s : State} (hi : HInv s) (hr : Rooted s.dom s.openElems) (af' : List FormatEntry)
    (haf : ∀ e ∈ af', e ∈ s.activeFormatting) : AAPost s { s with activeFormatting := af' } :=
  aapost_af hi hr af' (fun _ _ hx => Or.inl (haf _ hx))

theorem aapost_erase {s : State} (hi : HInv s) (hr : Rooted s.dom s.openElems) {m : Nat} {node : Id}
    (hm : 0 < m) (hget : s.openElems[m]? = some node) (hns : specialTag (nm s.dom node) = false) :
    AAPost s { s with openElems := s.openElems.eraseIdx m } := by
  refine aapost_upd hi hr (s.openElems.eraseIdx m) s.activeFormatting (head?_eraseIdx_pos hm) ?_
    (fun _ _ hx => Or.inl hx) ?_ (tcount_sublist (List.eraseIdx_sublist _ _))
  · intro x hx; exact Or.inl (List.mem_of_mem_eraseIdx hx)
  · intro x hx hs
    refine mem_eraseIdx_of_ne hx hget ?_
    rintro rfl; rw [hns] at hs; cases hs

theorem aapost_set {s : State} (hi : HInv s) (hr : Rooted s.dom s.openElems) {m : Nat} {node new : Id}
    (af' : List FormatEntry) (hm : 0 < m) (hget : s.openElems[m]? = some node)
    (hns : specialTag (nm s.dom node) = false) (hel : IsEl s.dom new) (hf : isFmtE (nm s.dom new) = true)
    (haf : ∀ x t, FormatEntry.element x t ∈ af' → FormatEntry.element x t ∈ s.activeFormatting ∨
      (IsEl s.dom x ∧ nm s.dom x = ⟨nsHtml, t.name⟩ ∧ isOneOf t.name fmtNames = true)) :
    AAPost s { s with openElems := s.openElems.set m new, activeFormatting := af' } := by
  refine aapost_upd hi hr (s.openElems.set m new) af' (head?_set_pos hm) ?_ haf ?_ ?_
  · intro x hx
    rcases List.mem_or_eq_of_mem_set hx with h | h
    · exact Or.inl h
    · subst h; exact Or.inr ⟨hel, hf⟩
  · intro x hx hs
    refine mem_set_of_ne _ hx hget ?_
    rintro rfl; rw [hns] at hs; cases hs
  · exact countP_set_le (isTmpl_of_fmt hf) _ _

theorem aapost_insert {s : State} (hi : HInv s) (hr : Rooted s.dom s.openElems) {k : Nat} {new : Id}
    (hk : k + 1 ≤ s.openElems.length) (hel : IsEl s.dom new) (hf : isFmtE (nm s.dom new) = true) :
    AAPost s { s with openElems := s.openElems.insertIdx (k + 1) new } := by
  refine aapost_upd hi hr (s.openElems.insertIdx (k + 1) new) s.activeFormatting head?_insertIdx_succ ?_
    (fun _ _ hx => Or.inl hx) ?_ (countP_insertIdx_le (isTmpl_of_fmt hf) _ _)
  · intro x hx
    rcases (List.mem_insertIdx hk).mp hx with h | h
    · subst h; exact Or.inr ⟨hel, hf⟩
    · exact Or.inl h
  · intro x hx _
    exact (List.mem_insertIdx hk).mpr (Or.inr hx)

/-! ### pure versions of the search loops -/

def ffbP (d : Dom) : List Id → Nat → Option (Nat × Id)
  | [], _ => none
  | e :: rest, i => if specialTag (nm d e) then some (i, e) else ffbP d rest (i + 1)

theorem ffbP_congr {d d' : Dom} : ∀ {l : List Id} {n : Nat}, (∀ x ∈ l, nm d' x = nm d x) →
    ffbP d' l n = ffbP d l n := by
  intro l
  induction l with
  | nil => intro _ _; rfl
  | cons a t ih =>
    intro n h
    simp only [ffbP]
    rw [h a List.mem_cons_self, ih (fun x hx => h x (List.mem_cons_of_mem _ hx))]

theorem sat_findFurthestBlock : ∀ (l : List Id) (i : Nat) (s : State), AllEl s.dom l →
    Sat (findFurthestBlock l i) s (fun r s' => r = ffbP s.dom l i ∧ QF s s') := by
  intro l
  induction l with
  | nil => intro i s _; exact sat_pure ⟨rfl, QF.refl s⟩
  | cons e rest ih =>
    intro i s hall
    unfold findFurthestBlock
    have hel := hall e List.mem_cons_self
    refine (sat_elemIn hel).bind ?_
    rintro b s1 ⟨rfl, hq1⟩
    by_cases hsp : specialTag (nm s.dom e) = true
    · simp only [hsp, if_true]
      exact sat_pure ⟨by simp [ffbP, hsp], hq1⟩
    · simp only [hsp, if_false, Bool.false_eq_true]
      have hall' : AllEl s.dom rest := hall.sub (fun x hx => List.mem_cons_of_mem _ hx)
      refine (ih (i + 1) s1 (hall'.ext hq1.ext)).mono ?_
      rintro r s2 ⟨rfl, hq2⟩
      refine ⟨?_, hq1.trans hq2⟩
      simp only [ffbP, hsp, if_false, Bool.false_eq_true]
      exact ffbP_congr (fun x hx => hall'.nm_eq hq1.ext hx)

theorem ffbP_none {d : Dom} : ∀ {l : List Id} {i : Nat}, ffbP d l i = none →
    ∀ y ∈ l, specialTag (nm d y) = false := by
  intro l
  induction l with
  | nil => intro i _ y hy; simp at hy
  | cons e rest ih =>
    intro i h y hy
    simp only [ffbP] at h
    by_cases hsp : specialTag (nm d e) = true
    · simp [hsp] at h
    · simp only [hsp, if_false, Bool.false_eq_true] at h
      rcases List.mem_cons.mp hy with rfl | hy
      · simpa using hsp
      · exact ih h y hy

theorem ffbP_some {d : Dom} : ∀ {l : List Id} {i j : Nat} {e : Id}, ffbP d l i = some (j, e) →
    i ≤ j ∧ l[j - i]? = some e ∧ specialTag (nm d e) = true ∧
      ∀ k y, k < j - i → l[k]? = some y → specialTag (nm d y) = false := by
  intro l
  induction l with
  | nil => intro i j e h; simp [ffbP] at h
  | cons z rest ih =>
    intro i j e h
    simp only [ffbP] at h
    by_cases hsp : specialTag (nm d z) = true
    · simp only [hsp, if_true, Option.some.injEq, Prod.mk.injEq] at h
      obtain ⟨rfl, rfl⟩ := h
      exact ⟨Nat.le_refl _, by simp, hsp, fun k y hk => by omega⟩
    · simp only [hsp, if_false, Bool.false_eq_true] at h
      obtain ⟨h1, h2, h3, h4⟩ := ih h
      have hji : j - i = (j - (i + 1)) + 1 := by omega
      refine ⟨by omega, by rw [hji, List.getElem?_cons_succ]; exact h2, h3, ?_⟩
      intro k y hk hy
      cases k with
      | zero =>
        simp only [List.getElem?_cons_zero, Option.some.injEq] at hy
        subst hy; simpa using hsp
      | succ k =>
        rw [List.getElem?_cons_succ] at hy
        exact h4 k y (by omega) hy

def posP (x : Id) : List Id → Nat → Option Nat
  | [], _ => none
  | n :: rest, i => if n == x then some i else posP x rest (i + 1)

theorem sat_positionSameNode {x : Id} : ∀ (l : List Id) (i : Nat) (s : State),
    Sat (positionSameNode x l i) s (fun r s' => r = posP x l i ∧ QF s s') := by
  intro l
  induction l with
  | nil => intro i s; exact sat_pure ⟨rfl, QF.refl s⟩
  | cons n rest ih =>
    intro i s
    unfold positionSameNode
    refine sat_sameNode.bind ?_
    rintro b s1 ⟨rfl, hq1⟩
    by_cases hb : (n == x) = true
    · simp only [hb, if_true]; exact sat_pure ⟨by simp [posP, hb], hq1⟩
    · simp only [hb, if_false, Bool.false_eq_true]
      exact (ih (i + 1) s1).mono (fun r s2 h => ⟨by rw [h.1]; simp [posP, hb], hq1.trans h.2⟩)

theorem posP_of_mem {x : Id} : ∀ {l : List Id} {i : Nat}, x ∈ l →
    ∃ j, posP x l i = some j ∧ i ≤ j ∧ j - i < l.length := by
  intro l
  induction l with
  | nil => intro i h; simp at h
  | cons n rest ih =>
    intro i h
    by_cases hb : (n == x) = true
    · exact ⟨i, by simp [posP, hb], Nat.le_refl _, by simp⟩
    · have hx : x ∈ rest := by
        rcases List.mem_cons.mp h with rfl | h
        · simp at hb
        · exact h
      obtain ⟨j, h1, h2, h3⟩ := ih (i := i + 1) hx
      exact ⟨j, by simp [posP, hb, h1], by omega, by simp; omega⟩

theorem sat_findAInAF : ∀ (l : List (Nat × Id × Tag)) (s : State), (∀ e ∈ l, IsEl s.dom e.2.1) →
    Sat (findAInAF l) s (fun r s' => QF s s' ∧
      ∀ n, r = some n → (∃ e ∈ l, e.2.1 = n) ∧ nm s.dom n = ⟨nsHtml, "a".toList⟩) := by
  intro l
  induction l with
  | nil => intro s _; exact sat_pure ⟨QF.refl s, by simp⟩
  | cons e rest ih =>
    intro s hall
    obtain ⟨i, n, t⟩ := e
    unfold findAInAF
    have hel : IsEl s.dom n := hall (i, n, t) List.mem_cons_self
    refine (sat_htmlElemNamed hel).bind ?_
    rintro b s1 ⟨rfl, hq1⟩
    split
    · rename_i hb
      refine sat_pure ⟨hq1, ?_⟩
      intro n' hn'
      cases hn'
      exact ⟨⟨_, List.mem_cons_self, rfl⟩, namedP_nm hb⟩
    · refine (ih s1 (fun e he => (hall e (List.mem_cons_of_mem _ he)).ext hq1.ext)).mono ?_
      rintro r s2 ⟨hq2, h⟩
      refine ⟨hq1.trans hq2, ?_⟩
      intro n' hn'
      obtain ⟨⟨e, he, hen⟩, h2⟩ := h n' hn'
      refine ⟨⟨e, List.mem_cons_of_mem _ he, hen⟩, ?_⟩
      have hel' : IsEl s.dom n' := by rw [← hen]; exact hall e (List.mem_cons_of_mem _ he)
      rw [← nm_ext hq1.ext hel']; exact h2

/-! ### the inner loop of the adoption agency -/

/-- the bookmark is the formatting element itself, or a (new) element that has an entry in the list
of active formatting elements and does not occur on the stack below `n` -/
def BmOk (s : State) (fmtElem : Id) (n : Nat) : Bookmark → Prop
  | .replace h => h = fmtElem
  | .insertAfter p => (∃ t, FormatEntry.element p t ∈ s.activeFormatting) ∧
      ∀ k : Nat, k < n → s.openElems[k]? ≠ some p

/-- the loop invariant: `n` is `node_index` (before `node_index -= 1`) -/
structure InnerInv (s : State) (fmtElem fb : Id) (fmtIdx n : Nat) (bm : Bookmark) : Prop where
  lt : fmtIdx < n
  le : n ≤ s.openElems.length
  atFmt : s.openElems[fmtIdx]? = some fmtElem
  mid : ∀ k y, fmtIdx < k → k < n → s.openElems[k]? = some y → specialTag (nm s.dom y) = false
  fbMem : fb ∈ s.openElems
  fbSp : specialTag (nm s.dom fb) = true
  fmtAF : ∃ t, FormatEntry.element fmtElem t ∈ s.activeFormatting
  bm : BmOk s fmtElem n bm

theorem BmOk.of_qf {s s' : State} {fmtElem : Id} {n : Nat} {bm : Bookmark} (h : BmOk s fmtElem n bm)
    (hq : QF s s') : BmOk s' fmtElem n bm := by
  cases bm with
  | replace x => exact h
  | insertAfter p =>
    unfold BmOk at h ⊢
    rw [hq.activeFormatting, hq.openElems]; exact h

theorem InnerInv.of_qf {s s' : State} {fmtElem fb : Id} {fmtIdx n : Nat} {bm : Bookmark} (hi : HInv s)
    (h : InnerInv s fmtElem fb fmtIdx n bm) (hq : QF s s') : InnerInv s' fmtElem fb fmtIdx n bm where
  lt := h.lt
  le := by rw [hq.openElems]; exact h.le
  atFmt := by rw [hq.openElems]; exact h.atFmt
  mid := fun k y h1 h2 h3 => by
    rw [hq.openElems] at h3
    rw [nm_ext hq.ext (hi.open_el y (List.mem_of_getElem? h3))]
    exact h.mid k y h1 h2 h3
  fbMem := by rw [hq.openElems]; exact h.fbMem
  fbSp := by rw [nm_ext hq.ext (hi.open_el fb h.fbMem)]; exact h.fbSp
  fmtAF := by rw [hq.activeFormatting]; exact h.fmtAF
  bm := h.bm.of_qf hq

theorem InnerInv.idx_lt {s : State} {fmtElem fb node : Id} {fmtIdx m : Nat} {bm : Bookmark}
    (h : InnerInv s fmtElem fb fmtIdx (m + 1) bm) (hget : s.openElems[m]? = some node) (hne : node ≠ fmtElem) :
    fmtIdx < m := by
  have := h.lt
  by_cases he : fmtIdx = m
  · subst he; rw [h.atFmt] at hget; cases hget; exact absurd rfl hne
  · omega

theorem InnerInv.node_ns {s : State} {fmtElem fb node : Id} {fmtIdx m : Nat} {bm : Bookmark}
    (h : InnerInv s fmtElem fb fmtIdx (m + 1) bm) (hget : s.openElems[m]? = some node) (hne : node ≠ fmtElem) :
    specialTag (nm s.dom node) = false :=
  h.mid m node (h.idx_lt hget hne) (Nat.lt_succ_self _) hget

theorem InnerInv.fb_ne {s : State} {fmtElem fb node : Id} {fmtIdx m : Nat} {bm : Bookmark}
    (h : InnerInv s fmtElem fb fmtIdx (m + 1) bm) (hget : s.openElems[m]? = some node) (hne : node ≠ fmtElem) :
    fb ≠ node := by
  rintro rfl
  have := h.node_ns hget hne
  rw [h.fbSp] at this; cases this

/-- `open_elems.remove(node_index)` -/
theorem InnerInv.erase {s : State} {fmtElem fb node : Id} {fmtIdx m : Nat} {bm : Bookmark}
    (h : InnerInv s fmtElem fb fmtIdx (m + 1) bm) (hget : s.openElems[m]? = some node) (hne : node ≠ fmtElem) :
    InnerInv { s with openElems := s.openElems.eraseIdx m } fmtElem fb fmtIdx m bm where
  lt := h.idx_lt hget hne
  le := by
    show m ≤ (s.openElems.eraseIdx m).length
    have := getElem?_lt_of_some hget
    rw [List.length_eraseIdx]; simp only [this, if_true]; omega
  atFmt := by
    show (s.openElems.eraseIdx m)[fmtIdx]? = _
    rw [List.getElem?_eraseIdx_of_lt (h.idx_lt hget hne)]; exact h.atFmt
  mid := fun k y h1 h2 h3 => by
    have h3' : (s.openElems.eraseIdx m)[k]? = some y := h3
    rw [List.getElem?_eraseIdx_of_lt h2] at h3'
    exact h.mid k y h1 (by omega) h3'
  fbMem := mem_eraseIdx_of_ne h.fbMem hget (h.fb_ne hget hne)
  fbSp := h.fbSp
  fmtAF := h.fmtAF
  bm := by
    have hb := h.bm
    cases bm with
    | replace x => exact hb
    | insertAfter p =>
      refine ⟨hb.1, ?_⟩
      intro k hk
      show (s.openElems.eraseIdx m)[k]? ≠ _
      rw [List.getElem?_eraseIdx_of_lt hk]
      exact hb.2 k (by omega)

/-- `active_formatting.remove(position)` for the entry of `node` -/
theorem InnerInv.afErase {s : State} {fmtElem fb node : Id} {fmtIdx m pos : Nat} {bm : Bookmark} {t : Tag}
    (h : InnerInv s fmtElem fb fmtIdx (m + 1) bm) (hget : s.openElems[m]? = some node) (hne : node ≠ fmtElem)
    (hpos : s.activeFormatting[pos]? = some (.element node t)) :
    InnerInv { s with activeFormatting := s.activeFormatting.eraseIdx pos } fmtElem fb fmtIdx (m + 1) bm where
  lt := h.lt
  le := h.le
  atFmt := h.atFmt
  mid := h.mid
  fbMem := h.fbMem
  fbSp := h.fbSp
  fmtAF := by
    obtain ⟨t', ht'⟩ := h.fmtAF
    refine ⟨t', mem_eraseIdx_of_ne ht' hpos ?_⟩
    intro he; cases he; exact hne rfl
  bm := by
    have hb := h.bm
    cases bm with
    | replace x => exact hb
    | insertAfter p =>
      obtain ⟨⟨t', ht'⟩, h2⟩ := hb
      refine ⟨⟨t', mem_eraseIdx_of_ne ht' hpos ?_⟩, h2⟩
      intro he; cases he
      exact h2 m (Nat.lt_succ_self _) hget

/-- `open_elems[node_index] = new_element; active_formatting[node_formatting_index] = new entry` -/
theorem InnerInv.replace {s : State} {fmtElem fb node new : Id} {fmtIdx m nfi : Nat} {bm bm' : Bookmark} {t : Tag}
    (h : InnerInv s fmtElem fb fmtIdx (m + 1) bm) (hget : s.openElems[m]? = some node) (hne : node ≠ fmtElem)
    (hpos : s.activeFormatting[nfi]? = some (.element node t))
    (hfresh : ∀ k : Nat, s.openElems[k]? ≠ some new) (hbm : bm' = bm ∨ bm' = .insertAfter new) :
    InnerInv { s with openElems := s.openElems.set m new,
                      activeFormatting := s.activeFormatting.set nfi (.element new t) } fmtElem fb fmtIdx m bm' where
  lt := h.idx_lt hget hne
  le := by
    show m ≤ (s.openElems.set m new).length
    have := getElem?_lt_of_some hget
    rw [List.length_set]; omega
  atFmt := by
    show (s.openElems.set m new)[fmtIdx]? = _
    have := h.idx_lt hget hne
    rw [List.getElem?_set]
    have hmf : m ≠ fmtIdx := by omega
    simp only [hmf, if_false]; exact h.atFmt
  mid := fun k y h1 h2 h3 => by
    have h3' : (s.openElems.set m new)[k]? = some y := h3
    rw [List.getElem?_set] at h3'
    have hmk : m ≠ k := by omega
    simp only [hmk, if_false] at h3'
    exact h.mid k y h1 (by omega) h3'
  fbMem := mem_set_of_ne _ h.fbMem hget (h.fb_ne hget hne)
  fbSp := h.fbSp
  fmtAF := by
    obtain ⟨t', ht'⟩ := h.fmtAF
    refine ⟨t', mem_set_of_ne _ ht' hpos ?_⟩
    intro he; cases he; exact hne rfl
  bm := by
    have hset : ∀ k, k < m → (s.openElems.set m new)[k]? = s.openElems[k]? := by
      intro k hk
      rw [List.getElem?_set]
      have hmk : m ≠ k := by omega
      simp only [hmk, if_false]
    rcases hbm with rfl | rfl
    · have hb := h.bm
      cases bm' with
      | replace x => exact hb
      | insertAfter p =>
        obtain ⟨⟨t', ht'⟩, h2⟩ := hb
        refine ⟨⟨t', mem_set_of_ne _ ht' hpos ?_⟩, ?_⟩
        · intro he; cases he
          exact h2 m (Nat.lt_succ_self _) hget
        · intro k hk
          show (s.openElems.set m new)[k]? ≠ _
          rw [hset k hk]; exact h2 k (by omega)
    · refine ⟨⟨t, List.mem_set (getElem?_lt_of_some hpos) _⟩, ?_⟩
      intro k hk
      show (s.openElems.set m new)[k]? ≠ _
      rw [hset k hk]; exact hfresh k

theorem BmOk.mono {s : State} {fmtElem : Id} {n n' : Nat} {bm : Bookmark} (h : BmOk s fmtElem n bm)
    (hn : n' ≤ n) : BmOk s fmtElem n' bm := by
  cases bm with
  | replace x => exact h
  | insertAfter p => exact ⟨h.1, fun k hk => h.2 k (by omega)⟩

abbrev InnerPost (s : State) (fmtElem fb : Id) (r : Id × Bookmark) (s' : State) : Prop :=
  AAPost s s' ∧ fb ∈ s'.openElems ∧ (∃ t, FormatEntry.element fmtElem t ∈ s'.activeFormatting) ∧
    BmOk s' fmtElem 0 r.2

theorem sat_aaInner {fmtElem fb : Id} {fmtIdx : Nat} : ∀ (n c : Nat) (s : State) (lastNode : Id) (bm : Bookmark),
    HInv s → Rooted s.dom s.openElems → InnerInv s fmtElem fb fmtIdx n bm →
    Sat (aaInner fmtElem fb n c lastNode bm) s (InnerPost s fmtElem fb) := by
  intro n
  induction n with
  | zero => intro c s lastNode bm _ _ hv; exact absurd hv.lt (Nat.not_lt_zero _)
  | succ m ih =>
    intro c s lastNode bm hi hr hv
    unfold aaInner
    dsimp only
    refine sat_getS_bind ?_
    have hmlt : m < s.openElems.length := hv.le
    obtain ⟨node, hget⟩ : ∃ node, s.openElems[m]? = some node := ⟨_, List.getElem?_eq_getElem hmlt⟩
    rw [hget]
    dsimp only
    refine Sat.bind (Q := fun r s1 => node = r ∧ s = s1) (sat_pure ⟨rfl, rfl⟩) ?_
    rintro node' s0 ⟨rfl, rfl⟩
    refine sat_sameNode.bind ?_
    rintro b s1 ⟨rfl, hq1⟩
    by_cases hb : (node == fmtElem) = true
    · simp only [hb, if_true]
      exact sat_pure ⟨AAPost.of_qf hi hr hq1, by rw [hq1.openElems]; exact hv.fbMem,
        by rw [hq1.activeFormatting]; exact hv.fmtAF, (hv.bm.mono (Nat.zero_le _)).of_qf hq1⟩
    · simp only [hb, if_false, Bool.false_eq_true]
      have hne : node ≠ fmtElem := by simpa using hb
      have hErase : ∀ s2, AAPost s s2 → InnerInv s2 fmtElem fb fmtIdx (m + 1) bm → s2.openElems[m]? = some node →
          Sat (do
            modS fun s => { s with openElems := s.openElems.eraseIdx m }
            aaInner fmtElem fb m (c + 1) lastNode bm) s2 (InnerPost s fmtElem fb) := by
        intro s2 hp2 hv2 hget2
        refine sat_modS_bind ?_
        have hm0 : 0 < m := by have := hv2.idx_lt hget2 hne; omega
        have hp3 := aapost_erase hp2.hinv hp2.rooted hm0 hget2 (hv2.node_ns hget2 hne)
        refine (ih (c + 1) _ lastNode bm hp3.hinv hp3.rooted (hv2.erase hget2 hne)).mono ?_
        rintro r s4 ⟨hp4, h1, h2, h3⟩
        exact ⟨(hp2.trans hi hp3).trans hi hp4, h1, h2, h3⟩
      have hRec : ∀ (bm' : Bookmark) (s6 : State) (new : Id), AAPost s s6 → InnerInv s6 fmtElem fb fmtIdx m bm' →
          Sat (do
            let bookmark ← pure bm'
            sinkUnit (SinkOp.removeFromParent lastNode)
            sinkUnit (SinkOp.append new (NodeOrText.node lastNode))
            aaInner fmtElem fb m (c + 1) new bookmark) s6 (InnerPost s fmtElem fb) := by
        intro bm' s6 new hp6 hv6
        refine Sat.bind (Q := fun r s' => bm' = r ∧ s6 = s') (sat_pure ⟨rfl, rfl⟩) ?_
        rintro bm'' s6' ⟨rfl, rfl⟩
        refine (sat_sinkUnit_mut (op := .removeFromParent lastNode) trivial).bind ?_
        intro _ s7 hq7
        refine (sat_sinkUnit_mut (op := .append new (.node lastNode)) trivial).bind ?_
        intro _ s8 hq8
        have hq68 := hq7.trans hq8
        have hp8 : AAPost s s8 := hp6.qf_right hi hq68
        refine (ih (c + 1) s8 new bm' hp8.hinv hp8.rooted (hv6.of_qf hp6.hinv hq68)).mono ?_
        rintro r s9 ⟨hp9, h1, h2, h3⟩
        exact ⟨hp8.trans hi hp9, h1, h2, h3⟩
      have hp1 : AAPost s s1 := AAPost.of_qf hi hr hq1
      have hv1 := hv.of_qf hi hq1
      have hget1 : s1.openElems[m]? = some node := by rw [hq1.openElems]; exact hget
      by_cases hc : c + 1 > 3
      · simp only [hc, if_true]
        refine sat_positionInActiveFormatting.bind ?_
        rintro r s2 ⟨rfl, hq2⟩
        have hp2 : AAPost s s2 := hp1.qf_right hi hq2
        have hv2 := hv1.of_qf hp1.hinv hq2
        have hget2 : s2.openElems[m]? = some node := by rw [hq2.openElems]; exact hget1
        cases hpos : afPos node s1.activeFormatting 0 with
        | none => dsimp only; exact hErase s2 hp2 hv2 hget2
        | some pos =>
          dsimp only
          obtain ⟨hlt, t, hent⟩ := afPos_zero_lt hpos
          rw [← hq2.activeFormatting] at hlt hent
          refine (sat_afRemove hlt).bind ?_
          rintro _ s3 rfl
          exact hErase _ (hp2.trans hi (aapost_af_sub hp2.hinv hp2.rooted _
            (fun e he => List.mem_of_mem_eraseIdx he))) (hv2.afErase hget2 hne hent) hget2
      · simp only [hc, if_false]
        refine sat_positionInActiveFormatting.bind ?_
        rintro r s2 ⟨rfl, hq2⟩
        have hp2 : AAPost s s2 := hp1.qf_right hi hq2
        have hv2 := hv1.of_qf hp1.hinv hq2
        have hget2 : s2.openElems[m]? = some node := by rw [hq2.openElems]; exact hget1
        cases hpos : afPos node s1.activeFormatting 0 with
        | none => dsimp only; exact hErase s2 hp2 hv2 hget2
        | some nfi =>
          dsimp only
          obtain ⟨hlt, t, hent⟩ := afPos_zero_lt hpos
          rw [← hq2.activeFormatting] at hlt hent
          refine sat_getS_bind ?_
          rw [hent]
          dsimp only
          refine sat_sameNode.bind ?_
          rintro b3 s3 ⟨rfl, hq3⟩
          simp only [beq_self_eq_true, Bool.not_true, Bool.false_eq_true, if_false]
          refine Sat.bind (Q := fun r s' => t = r ∧ s3 = s') (sat_pure ⟨rfl, rfl⟩) ?_
          rintro t' s3' ⟨rfl, rfl⟩
          have hp3 : AAPost s s3 := hp2.qf_right hi hq3
          have hv3 := hv2.of_qf hp2.hinv hq3
          have hget3 : s3.openElems[m]? = some node := by rw [hq3.openElems]; exact hget2
          have hent3 : s3.activeFormatting[nfi]? = some (.element node t) := by
            rw [hq3.activeFormatting]; exact hent
          refine sat_createElementWithFlags.bind ?_
          intro new s4 hcr
          have hp4 : AAPost s s4 := hp3.qf_right hi hcr.qf
          have hv4 := hv3.of_qf hp3.hinv hcr.qf
          have hget4 : s4.openElems[m]? = some node := by rw [hcr.qf.openElems]; exact hget3
          have hent4 : s4.activeFormatting[nfi]? = some (.element node t) := by
            rw [hcr.qf.activeFormatting]; exact hent3
          refine sat_modS_bind ?_
          -- the new element
          have htfmt : isOneOf t.name fmtNames = true :=
            (hp3.hinv.af node t (List.mem_of_getElem? hent3)).2.2
          have hnmnew : nm s4.dom new = ⟨nsHtml, t.name⟩ := hcr.nm
          have hfnew : isFmtE (nm s4.dom new) = true := by rw [hnmnew]; exact isFmtE_mk htfmt
          have hfresh : ∀ k : Nat, s4.openElems[k]? ≠ some new := by
            intro k hk
            rw [hcr.qf.openElems] at hk
            exact hcr.ne (hp3.hinv.open_el new (List.mem_of_getElem? hk)) rfl
          have hm0 : 0 < m := by have := hv4.idx_lt hget4 hne; omega
          have hp5 := aapost_set hp4.hinv hp4.rooted (s4.activeFormatting.set nfi (.element new t)) hm0 hget4
            (hv4.node_ns hget4 hne) hcr.el hfnew (by
              intro x t' hx
              rcases List.mem_or_eq_of_mem_set hx with h | h
              · exact Or.inl h
              · cases h; exact Or.inr ⟨hcr.el, hnmnew, htfmt⟩)
          refine sat_sameNode.bind ?_
          rintro b6 s6 ⟨rfl, hq6⟩
          have hp6 : AAPost s s6 := (hp4.trans hi hp5).qf_right hi hq6
          split
          · exact hRec _ s6 new hp6 ((hv4.replace hget4 hne hent4 hfresh (Or.inr rfl)).of_qf hp5.hinv hq6)
          · exact hRec _ s6 new hp6 ((hv4.replace hget4 hne hent4 hfresh (Or.inl rfl)).of_qf hp5.hinv hq6)

/-! ### one iteration of the outer loop -/

/-- `if c { pre } rest` -/
theorem sat_if_pre {β : Type} {c : Prop} [Decidable c] {pre : M Unit} {rest : M β} {s : State}
    {R : β → State → Prop} (hpre : Sat pre s (fun _ s' => QF s s')) (hrest : ∀ s', QF s s' → Sat rest s' R) :
    Sat (if c then (do pre; rest) else rest) s R := by
  split
  · exact hpre.bind (fun _ s' h => hrest s' h)
  · exact hrest s (QF.refl s)

theorem not_root_of_not_special {d : Dom} {l pre post : List Id} {x : Id} (hr : Rooted d l)
    (heq : l = pre ++ x :: post) (hns : specialTag (nm d x) = false) : pre ≠ [] := by
  rintro rfl
  obtain ⟨r, rest, hl, hn⟩ := hr
  rw [hl] at heq
  simp only [List.nil_append, List.cons.injEq] at heq
  rw [← heq.1, hn, special_htmlName] at hns
  cases hns

/-- a non-special element is removed from the stack -/
theorem AAPost.of_st_remove {s s' : State} (hi : HInv s) (hr : Rooted s.dom s.openElems) {pre post : List Id}
    {x : Id} (heq : s.openElems = pre ++ x :: post) (hns : specialTag (nm s.dom x) = false)
    (st : St s s' (pre ++ post)) : AAPost s s' := by
  have hpre := not_root_of_not_special hr heq hns
  have hm : 0 < pre.length := List.length_pos_iff.mpr hpre
  have hget : s.openElems[pre.length]? = some x := by rw [heq]; simp
  have h1 := aapost_erase hi hr hm hget hns
  have he : s.openElems.eraseIdx pre.length = pre ++ post := by rw [heq, eraseIdx_append_cons]
  have h2 : Same { s with openElems := s.openElems.eraseIdx pre.length } s' :=
    ⟨⟨st.fr.mode, st.fr.origMode, st.fr.templateModes, st.fr.pendingTableText, st.fr.headElem, st.fr.formElem,
      st.fr.contextElem, st.fr.docHandle, st.fr.opts, st.fr.ext⟩, by rw [st.openElems]; exact he.symm, st.af⟩
  exact h1.trans hi (AAPost.of_same h1.hinv h1.rooted h2)

/-- step 19: move the new element below the furthest block on the stack -/
theorem sat_aaStep19 {fmtElem fb new : Id} {s : State} (hi : HInv s) (hr : Rooted s.dom s.openElems)
    (hfb : fb ∈ s.openElems) (hbs : specialTag (nm s.dom fb) = true)
    (hfs : specialTag (nm s.dom fmtElem) = false) (hel : IsEl s.dom new) (hf : isFmtE (nm s.dom new) = true) :
    Sat (do
      removeFromStack fmtElem
      let __do_lift ← getS
      let __do_lift ← positionSameNode fb __do_lift.openElems 0
      match __do_lift with
        | none => panicAt "fb-missing" "mod.rs:916" "furthest block missing from open element stack"
        | some nfbi => do
          modS fun s => { s with openElems := s.openElems.insertIdx (nfbi + 1) new }
          pure false) s (fun _ s' => AAPost s s') := by
  have hne : fb ≠ fmtElem := by rintro rfl; rw [hbs] at hfs; cases hfs
  refine sat_removeFromStack.bind ?_
  intro _ s1 h1
  have hp1 : AAPost s s1 ∧ fb ∈ s1.openElems := by
    rcases h1 with ⟨_, hsame⟩ | ⟨pre, post, heq, _, hst⟩
    · exact ⟨AAPost.of_same hi hr hsame, by rw [hsame.openElems]; exact hfb⟩
    · refine ⟨AAPost.of_st_remove hi hr heq hfs hst, ?_⟩
      rw [hst.openElems]
      rw [heq] at hfb
      rcases List.mem_append.mp hfb with h | h
      · exact List.mem_append_left _ h
      · rcases List.mem_cons.mp h with h | h
        · exact absurd h hne
        · exact List.mem_append_right _ h
  obtain ⟨hp1, hfb1⟩ := hp1
  refine sat_getS_bind ?_
  refine (sat_positionSameNode _ 0 s1).bind ?_
  rintro r s2 ⟨rfl, hq2⟩
  obtain ⟨j, hj, _, hjl⟩ := posP_of_mem (i := 0) hfb1
  rw [hj]
  dsimp only
  refine sat_modS_bind ?_
  have hp2 : AAPost s s2 := hp1.qf_right hi hq2
  have he2 : Ext s.dom s2.dom := hp2.fr.ext
  refine sat_pure (hp2.trans hi (aapost_insert hp2.hinv hp2.rooted ?_ (hel.ext he2) ?_))
  · rw [hq2.openElems]; omega
  · rw [nm_ext he2 hel]; exact hf

theorem placeOk_some {s : State} (hi : HInv s) (hr : Rooted s.dom s.openElems) {ca : Id} (hel : IsEl s.dom ca)
    (htc : TcOk s.dom ca) : PlaceOk s (some ca) :=
  let h := PlaceOk.of_hinv hi hr
  ⟨h.ne, h.el, h.tc, h.bottom, fun t ht => by cases ht; exact ⟨hel, htc⟩⟩

theorem sat_aaOuterStep {subject : Str} {s : State} (hi : HInv s) (hr : Rooted s.dom s.openElems)
    (hsub : isOneOf subject fmtNames = true) :
    Sat (aaOuterStep subject) s (fun _ s' => AAPost s s') := by
  unfold aaOuterStep
  dsimp only
  refine sat_getS_bind ?_
  split
  · -- no formatting element: "any other end tag"
    refine (sat_processEndTagInBody (tag := Tag.mk .endTag subject false [] false) hi hr (fmt_ne_html hsub)).bind ?_
    rintro _ s1 ⟨pre, post, heq, hst, hne, hpost⟩
    refine sat_pure (AAPost.of_st_prefix hi hr heq hne ?_ hst)
    intro y hy
    rcases hpost y hy with h | h
    · exact h
    · rw [namedP_nm h]; exact fmt_not_special hsub
  · rename_i fmtElemIndex fmtElem fmtElemTag hfind
    have hname : fmtElemTag.name = subject := by have := List.find?_some hfind; simpa using this
    have hent := mem_afEndToMarker (List.mem_of_find?_eq_some hfind)
    have hilt : fmtElemIndex < s.activeFormatting.length := getElem?_lt_of_some hent
    obtain ⟨hfel, hfnm, htfmt⟩ := hi.af fmtElem fmtElemTag (List.mem_of_getElem? hent)
    rw [hname] at hfnm
    have hfns : specialTag (nm s.dom fmtElem) = false := by rw [hfnm]; exact fmt_not_special hsub
    refine (sat_rposition (P := fun n => n == fmtElem) (fun x _ => answers_sameNode_right)).bind ?_
    rintro r s1 ⟨rfl, hq1⟩
    rcases rposL_spec (P := fun n => n == fmtElem) s.openElems with ⟨h1, _⟩ | ⟨pre, x, post, heq, h1, h2, _⟩
    · -- the formatting element is not open
      rw [h1]
      dsimp only
      refine sat_parseError.bind ?_
      intro _ s2 hq2
      have hq := hq1.trans hq2
      refine (sat_afRemove (by rw [hq.activeFormatting]; exact hilt)).bind ?_
      rintro _ s3 rfl
      have hp2 := AAPost.of_qf hi hr hq
      exact sat_pure (hp2.trans hi (aapost_af_sub hp2.hinv hp2.rooted _ (fun e he => List.mem_of_mem_eraseIdx he)))
    · rw [h1]
      dsimp only
      have hx : x = fmtElem := by simpa using h2
      subst hx
      have hpre : pre ≠ [] := not_root_of_not_special hr heq hfns
      have hprelen : 0 < pre.length := List.length_pos_iff.mpr hpre
      have hall1 : AllEl s1.dom s1.openElems := by rw [hq1.openElems]; exact hi.open_el.ext hq1.ext
      refine (sat_inScope (P := fun n => n == x) hall1 (fun y _ => answers_sameNode_right)).bind ?_
      rintro b s2 ⟨rfl, hq2⟩
      split
      · refine sat_parseError.bind ?_
        intro _ s3 hq3
        exact sat_pure (AAPost.of_qf hi hr ((hq1.trans hq2).trans hq3))
      · have hq12 := hq1.trans hq2
        obtain ⟨cur, hcur⟩ := getLast?_of_ne_nil (l := s2.openElems) (by
          rw [hq12.openElems, heq]; simp)
        refine (sat_currentNode hcur).bind ?_
        rintro cur' s2' ⟨rfl, rfl⟩
        refine sat_sameNode.bind ?_
        rintro b3 s3 ⟨rfl, hq3⟩
        refine sat_if_pre sat_parseError ?_
        intro s4 hq4
        have hq : QF s s4 := (hq12.trans hq3).trans hq4
        refine sat_getS_bind ?_
        have hdrop : List.drop pre.length s4.openElems = x :: post := by rw [hq.openElems, heq]; simp
        rw [hdrop]
        have hp4 : AAPost s s4 := AAPost.of_qf hi hr hq
        have hall4 : AllEl s4.dom (x :: post) :=
          hp4.hinv.open_el.sub (fun y hy => by rw [hq.openElems, heq]; exact List.mem_append_right _ hy)
        refine (sat_findFurthestBlock _ _ s4 hall4).bind ?_
        rintro r s5 ⟨rfl, hq5⟩
        have hp5 : AAPost s s5 := hp4.qf_right hi hq5
        have hopen5 : s5.openElems = pre ++ x :: post := by rw [hq5.openElems, hq.openElems, heq]
        have haf5 : s5.activeFormatting = s.activeFormatting := by rw [hq5.activeFormatting, hq.activeFormatting]
        have hnm5 : ∀ y ∈ s5.openElems, nm s5.dom y = nm s4.dom y := by
          intro y hy
          rw [hq5.openElems] at hy
          exact nm_ext hq5.ext (hp4.hinv.open_el y hy)
        cases hffb : ffbP s4.dom (x :: post) pre.length with
        | none =>
          -- no furthest block: pop up to and including the formatting element
          dsimp only
          refine sat_modS_bind ?_
          refine (sat_afRemove (by show fmtElemIndex < s5.activeFormatting.length; rw [haf5]; exact hilt)).bind ?_
          rintro _ s6 rfl
          have htake : s5.openElems.take pre.length = pre := by rw [hopen5]; simp
          rw [htake]
          refine sat_pure (hp5.trans hi (aapost_prefix hp5.hinv hp5.rooted _ hopen5 hpre ?_
            (fun e he => List.mem_of_mem_eraseIdx he)))
          intro y hy
          rw [hnm5 y (by rw [hopen5]; exact List.mem_append_right _ hy)]
          exact ffbP_none hffb y hy
        | some p =>
          obtain ⟨fbi, fb⟩ := p
          dsimp only
          obtain ⟨hle, hfbget, hfbsp4, hmid4⟩ := ffbP_some hffb
          have hfbmem : fb ∈ x :: post := List.mem_of_getElem? hfbget
          have hfbmem5 : fb ∈ s5.openElems := by rw [hopen5]; exact List.mem_append_right _ hfbmem
          have hfbsp5 : specialTag (nm s5.dom fb) = true := by rw [hnm5 fb hfbmem5]; exact hfbsp4
          have hxmem5 : x ∈ s5.openElems := by rw [hopen5]; simp
          have hfns5 : specialTag (nm s5.dom x) = false := by
            rw [nm_ext hp5.fr.ext hfel]; exact hfns
          have hlt : pre.length < fbi := by
            by_cases h0 : fbi - pre.length = 0
            · exfalso
              rw [h0] at hfbget
              simp only [List.getElem?_cons_zero, Option.some.injEq] at hfbget
              subst hfbget
              rw [hfbsp5] at hfns5; cases hfns5
            · omega
          have hnz : ¬ ((pre.length == 0) = true) := by simp; omega
          rw [if_neg hnz]
          refine sat_getS_bind ?_
          obtain ⟨ca, hca⟩ : ∃ ca, s5.openElems[pre.length - 1]? = some ca :=
            ⟨_, List.getElem?_eq_getElem (by rw [hopen5]; simp; omega)⟩
          rw [hca]
          dsimp only
          refine Sat.bind (Q := fun r s' => ca = r ∧ s5 = s') (sat_pure ⟨rfl, rfl⟩) ?_
          rintro ca' s5' ⟨rfl, rfl⟩
          have hcamem : ca ∈ s5.openElems := List.mem_of_getElem? hca
          have hcael : IsEl s5.dom ca := hp5.hinv.open_el ca hcamem
          have hcatc : TcOk s5.dom ca := hp5.hinv.open_tc ca hcamem
          -- the invariant of the inner loop
          have hv5 : InnerInv s5 x fb pre.length fbi (.replace x) := by
            refine ⟨hlt, ?_, by rw [hopen5]; simp, ?_, hfbmem5, hfbsp5, ⟨fmtElemTag, ?_⟩, rfl⟩
            · have := getElem?_lt_of_some hfbget
              rw [hopen5]; simp at this ⊢; omega
            · intro k y hk1 hk2 hy
              rw [hnm5 y (List.mem_of_getElem? hy)]
              rw [hopen5, List.getElem?_append_right (Nat.le_of_lt hk1)] at hy
              exact hmid4 (k - pre.length) y (by omega) hy
            · rw [haf5]; exact List.mem_of_getElem? hent
          refine (sat_aaInner fbi 0 s5 fb (.replace x) hp5.hinv hp5.rooted hv5).bind ?_
          rintro ⟨lastNode, bm⟩ s6 ⟨hp56, hfb6, hfmt6, hbm6⟩
          dsimp only
          have hp6 : AAPost s s6 := hp5.trans hi hp56
          refine (sat_sinkUnit_mut (op := .removeFromParent lastNode) trivial).bind ?_
          intro _ s7 hq7
          have hp7 : AAPost s s7 := hp6.qf_right hi hq7
          have he57 : Ext s5.dom s7.dom := hp56.fr.ext.trans hq7.ext
          refine (sat_insertAppropriately (placeOk_some hp7.hinv hp7.rooted (hcael.ext he57)
            (hcatc.ext he57 hcael))).bind ?_
          intro _ s8 hq8
          refine sat_createElementWithFlags.bind ?_
          intro new s9 hcr
          refine (sat_sinkUnit_mut (op := .reparentChildren fb new) trivial).bind ?_
          intro _ s10 hq10
          refine (sat_sinkUnit_mut (op := .append fb (.node new)) trivial).bind ?_
          intro _ s11 hq11
          have hq9_11 : QF s9 s11 := hq10.trans hq11
          have hq6_11 : QF s6 s11 := ((hq7.trans hq8).trans hcr.qf).trans hq9_11
          have hp11 : AAPost s s11 := hp6.qf_right hi hq6_11
          have hfb11 : fb ∈ s11.openElems := by rw [hq6_11.openElems]; exact hfb6
          have hfmt11 : ∃ t, FormatEntry.element x t ∈ s11.activeFormatting := by
            rw [hq6_11.activeFormatting]; exact hfmt6
          have he5_11 : Ext s5.dom s11.dom := hp56.fr.ext.trans hq6_11.ext
          have hfbsp11 : specialTag (nm s11.dom fb) = true := by
            rw [nm_ext he5_11 (hp5.hinv.open_el fb hfbmem5)]; exact hfbsp5
          have hfns11 : specialTag (nm s11.dom x) = false := by
            rw [nm_ext he5_11 (hp5.hinv.open_el x hxmem5)]; exact hfns5
          have hnewel : IsEl s11.dom new := hcr.el.ext hq9_11.ext
          have hnewnm : nm s11.dom new = ⟨nsHtml, fmtElemTag.name⟩ := by
            rw [nm_ext hq9_11.ext hcr.el]; exact hcr.nm
          have hnewf : isFmtE (nm s11.dom new) = true := by rw [hnewnm]; exact isFmtE_mk htfmt
          cases bm with
          | replace toReplace =>
            dsimp only
            have hx : toReplace = x := hbm6
            subst hx
            refine sat_positionInActiveFormatting.bind ?_
            rintro r s12 ⟨rfl, hq12⟩
            obtain ⟨t, ht⟩ := hfmt11
            obtain ⟨index, hidx⟩ := afPos_of_mem ht
            rw [hidx]
            dsimp only
            refine sat_modS_bind ?_
            have hp12 : AAPost s s12 := hp11.qf_right hi hq12
            have he12 : Ext s11.dom s12.dom := hq12.ext
            have hp13 := aapost_af hp12.hinv hp12.rooted
              (s12.activeFormatting.set index (FormatEntry.element new fmtElemTag)) (by
                intro y t' hy
                rcases List.mem_or_eq_of_mem_set hy with h | h
                · exact Or.inl h
                · cases h
                  exact Or.inr ⟨hnewel.ext he12, by rw [nm_ext he12 hnewel]; exact hnewnm, htfmt⟩)
            refine (sat_aaStep19 (fmtElem := toReplace) (fb := fb) (new := new) hp13.hinv hp13.rooted ?_ ?_ ?_ ?_ ?_).mono ?_
            · show fb ∈ s12.openElems
              rw [hq12.openElems]; exact hfb11
            · show specialTag (nm s12.dom fb) = true
              rw [nm_ext he12 (hp11.hinv.open_el fb hfb11)]; exact hfbsp11
            · show specialTag (nm s12.dom toReplace) = false
              rw [nm_ext he12 ((hp5.hinv.open_el toReplace hxmem5).ext he5_11)]; exact hfns11
            · exact hnewel.ext he12
            · show isFmtE (nm s12.dom new) = true
              rw [nm_ext he12 hnewel]; exact hnewf
            · intro _ s14 hp14
              exact (hp12.trans hi hp13).trans hi hp14
          | insertAfter previous =>
            dsimp only
            obtain ⟨tp, htp⟩ := (show (∃ t, FormatEntry.element previous t ∈ s6.activeFormatting) from hbm6.1)
            rw [← hq6_11.activeFormatting] at htp
            refine sat_positionInActiveFormatting.bind ?_
            rintro r s12 ⟨rfl, hq12⟩
            obtain ⟨index, hidx⟩ := afPos_of_mem htp
            obtain ⟨hidxlt, _⟩ := afPos_zero_lt hidx
            rw [hidx]
            dsimp only
            refine sat_modS_bind ?_
            have hp12 : AAPost s s12 := hp11.qf_right hi hq12
            have he12 : Ext s11.dom s12.dom := hq12.ext
            have hins : index + 1 ≤ s12.activeFormatting.length := by rw [hq12.activeFormatting]; omega
            have hp13 := aapost_af hp12.hinv hp12.rooted
              (s12.activeFormatting.insertIdx (index + 1) (FormatEntry.element new fmtElemTag)) (by
                intro y t' hy
                rcases (List.mem_insertIdx hins).mp hy with h | h
                · cases h
                  exact Or.inr ⟨hnewel.ext he12, by rw [nm_ext he12 hnewel]; exact hnewnm, htfmt⟩
                · exact Or.inl h)
            refine sat_positionInActiveFormatting.bind ?_
            rintro r s14 ⟨rfl, hq14⟩
            obtain ⟨t, ht⟩ := hfmt11
            have ht13 : FormatEntry.element x t ∈
                s12.activeFormatting.insertIdx (index + 1) (FormatEntry.element new fmtElemTag) :=
              (List.mem_insertIdx hins).mpr (Or.inr (by rw [hq12.activeFormatting]; exact ht))
            obtain ⟨oldIndex, hold⟩ := afPos_of_mem ht13
            obtain ⟨holdlt, _⟩ := afPos_zero_lt hold
            have hold' : afPos x
                ({ s12 with
                    activeFormatting := s12.activeFormatting.insertIdx (index + 1)
                      (FormatEntry.element new fmtElemTag) } : State).activeFormatting 0 = some oldIndex := hold
            rw [hold']
            dsimp only
            have hp14 : AAPost s s14 := (hp12.trans hi hp13).qf_right hi hq14
            refine (sat_afRemove (by rw [hq14.activeFormatting]; exact holdlt)).bind ?_
            rintro _ s15 rfl
            have hp15 := aapost_af_sub hp14.hinv hp14.rooted (s14.activeFormatting.eraseIdx oldIndex)
              (fun e he => List.mem_of_mem_eraseIdx he)
            have he14 : Ext s11.dom s14.dom := he12.trans (hp13.fr.ext.trans hq14.ext)
            have hopen14 : s14.openElems = s11.openElems := by
              rw [hq14.openElems]; show s12.openElems = _; rw [hq12.openElems]
            refine (sat_aaStep19 (fmtElem := x) (fb := fb) (new := new) hp15.hinv hp15.rooted ?_ ?_ ?_ ?_ ?_).mono ?_
            · show fb ∈ s14.openElems
              rw [hopen14]; exact hfb11
            · show specialTag (nm s14.dom fb) = true
              rw [nm_ext he14 (hp11.hinv.open_el fb hfb11)]; exact hfbsp11
            · show specialTag (nm s14.dom x) = false
              rw [nm_ext he14 ((hp5.hinv.open_el x hxmem5).ext he5_11)]; exact hfns11
            · exact hnewel.ext he14
            · show isFmtE (nm s14.dom new) = true
              rw [nm_ext he14 hnewel]; exact hnewf
            · intro _ s16 hp16
              exact (hp14.trans hi hp15).trans hi hp16

/-! ### the outer loop, `adoption_agency`, `handle_misnested_a_tags` -/

theorem sat_aaOuter {subject : Str} (hsub : isOneOf subject fmtNames = true) : ∀ (n : Nat) (s : State),
    HInv s → Rooted s.dom s.openElems → Sat (aaOuter subject n) s (fun _ s' => AAPost s s') := by
  intro n
  induction n with
  | zero => intro s hi hr; exact sat_pure (AAPost.refl hi hr)
  | succ n ih =>
    intro s hi hr
    unfold aaOuter
    refine (sat_aaOuterStep hi hr hsub).bind ?_
    intro b s1 hp1
    split
    · exact sat_pure hp1
    · exact (ih s1 hp1.hinv hp1.rooted).mono (fun _ s2 hp2 => hp1.trans hi hp2)

theorem sat_adoptionAgency {subject : Str} {s : State} (hi : HInv s) (hr : Rooted s.dom s.openElems)
    (hsub : isOneOf subject fmtNames = true) :
    Sat (adoptionAgency subject) s (fun _ s' => AAPost s s') := by
  unfold adoptionAgency
  obtain ⟨cur, hcur⟩ := getLast?_of_ne_nil (l := s.openElems) (by
    obtain ⟨r, rest, hl, _⟩ := hr; rw [hl]; simp)
  have hcel : IsEl s.dom cur := hi.open_el cur (getLast?_mem hcur)
  have htail : ∀ (b : Bool) (s1 : State), QF s s1 → (b = true → namedP s.dom subject cur = true) →
      Sat (if b = true then do
            let _ ← pop
            pure ()
          else aaOuter subject 8) s1 (fun _ s' => AAPost s s') := by
    intro b s1 hq1 hb
    split
    · rename_i hbt
      have hnamed := hb hbt
      have hp1 : AAPost s s1 := AAPost.of_qf hi hr hq1
      have hcur1 : s1.openElems.getLast? = some cur := by rw [hq1.openElems]; exact hcur
      refine (sat_pop hcur1).bind ?_
      rintro _ s2 ⟨-, hst⟩
      have hdl : s1.openElems = s1.openElems.dropLast ++ [cur] := dropLast_append_getLast hcur1
      have hns : specialTag (nm s1.dom cur) = false := by
        rw [nm_ext hq1.ext hcel, namedP_nm hnamed]; exact fmt_not_special hsub
      have hne : s1.openElems.dropLast ≠ [] := not_root_of_not_special hp1.rooted hdl hns
      refine sat_pure (hp1.trans hi (AAPost.of_st_prefix hp1.hinv hp1.rooted hdl hne ?_ hst))
      intro y hy
      rw [List.mem_singleton.mp hy]; exact hns
    · exact (sat_aaOuter hsub 8 s1 (hi.of_qf hq1)
        (by rw [hq1.openElems]; exact hr.ext hq1.ext hi.open_el)).mono
        (fun _ s2 hp2 => (AAPost.of_qf hi hr hq1).trans hi hp2)
  dsimp only
  refine (sat_currentNodeNamedS hcur hcel).bind ?_
  rintro b s1 ⟨rfl, hq1⟩
  split
  · rename_i hb
    refine (sat_currentNode (by rw [hq1.openElems]; exact hcur)).bind ?_
    rintro c s1' ⟨rfl, rfl⟩
    refine sat_positionInActiveFormatting.bind ?_
    rintro r s2 ⟨rfl, hq2⟩
    refine Sat.bind (Q := fun b' s' => s2 = s') (sat_pure rfl) ?_
    rintro b' s2' rfl
    exact htail b' s2 (hq1.trans hq2) (fun _ => hb)
  · refine Sat.bind (Q := fun b' s' => false = b' ∧ s1 = s') (sat_pure ⟨rfl, rfl⟩) ?_
    rintro b' s1' ⟨rfl, rfl⟩
    exact htail false s1 hq1 (fun h => by cases h)

theorem sat_handleMisnestedATags {s : State} (hi : HInv s) (hr : Rooted s.dom s.openElems) :
    Sat handleMisnestedATags s (fun _ s' => AAPost s s') := by
  unfold handleMisnestedATags
  refine sat_getS_bind ?_
  have hall : ∀ e ∈ afEndToMarker s.activeFormatting, IsEl s.dom e.2.1 := by
    rintro ⟨i, n, t⟩ he
    exact (hi.af n t (List.mem_of_getElem? (mem_afEndToMarker he))).1
  refine (sat_findAInAF _ s hall).bind ?_
  rintro r s1 ⟨hq1, hres⟩
  cases r with
  | none => exact sat_pure (AAPost.of_qf hi hr hq1)
  | some node =>
    dsimp only
    obtain ⟨⟨e, he, hen⟩, hnm⟩ := hres node rfl
    have hnel : IsEl s.dom node := by rw [← hen]; exact hall e he
    refine sat_unexpected.bind ?_
    rintro _ s2 ⟨-, hq2⟩
    have hq := hq1.trans hq2
    have hp2 : AAPost s s2 := AAPost.of_qf hi hr hq
    refine (sat_adoptionAgency hp2.hinv hp2.rooted (subject := "a".toList) (by decide)).bind ?_
    intro _ s3 hp23
    have hp3 : AAPost s s3 := hp2.trans hi hp23
    have hns3 : specialTag (nm s3.dom node) = false := by
      rw [nm_ext hp3.fr.ext hnel, hnm]; decide
    have htail : ∀ s4, AAPost s s4 → specialTag (nm s4.dom node) = false →
        Sat (removeFromStack node) s4 (fun _ s' => AAPost s s') := by
      intro s4 hp4 hns4
      refine sat_removeFromStack.mono ?_
      rintro _ s5 (⟨_, hsame⟩ | ⟨pre, post, heq, _, hst⟩)
      · exact hp4.trans hi (AAPost.of_same hp4.hinv hp4.rooted hsame)
      · exact hp4.trans hi (AAPost.of_st_remove hp4.hinv hp4.rooted heq hns4 hst)
    refine sat_positionInActiveFormatting.bind ?_
    rintro r s4 ⟨rfl, hq4⟩
    have hp4 : AAPost s s4 := hp3.qf_right hi hq4
    have hns4 : specialTag (nm s4.dom node) = false := by
      rw [nm_ext hp4.fr.ext hnel, hnm]; decide
    cases hpos : afPos node s3.activeFormatting 0 with
    | none =>
      dsimp only
      exact htail s4 hp4 hns4
    | some index =>
      dsimp only
      obtain ⟨hlt, _⟩ := afPos_zero_lt hpos
      refine (sat_afRemove (by rw [hq4.activeFormatting]; exact hlt)).bind ?_
      rintro _ s5 rfl
      exact htail _ (hp4.trans hi (aapost_af_sub hp4.hinv hp4.rooted _
        (fun e he => List.mem_of_mem_eraseIdx he))) hns4

end H5V.Lemmas.TBSafe
