import H5V.Lemmas.HtmlTBSkelShapeScope
/-!
C06, "no two adjacent text siblings", part 3: the invariant `AdjD` under node creation and `insert_at`.
-/
namespace H5V.Props.C06
open H5V.Model.Dom hiding Str
open H5V.Model.HtmlTB hiding Str
open H5V.Lemmas.Dom

/-! ### allocation -/

theorem AdjD.alloc {d : Dom} {O : List Id} (h : AdjD d O) (hb : DomBase d) (hO : ∀ e ∈ O, e < d.size)
    (v : NodeData) : AdjD (d.alloc v).1 O := by
  refine h.congr (fun P => childrenOf_alloc d v P) (fun P x _ => parentOf_alloc d v x) ?_ ?_ ?_
  · intro P x hx
    have hlt := hb.kidsValid P x hx
    exact isText_of_data (by rw [dataOf_alloc]; simp [Nat.ne_of_lt hlt])
  · intro e he
    exact nm_of_data (by rw [dataOf_alloc]; simp [Nat.ne_of_lt (hO e he)])
  · intro T hT
    exact tc_of_data (by rw [dataOf_alloc]; simp [Nat.ne_of_lt (hO T hT)])

theorem alloc_new (d : Dom) (v : NodeData) :
    (d.alloc v).2 = d.size ∧ (d.alloc v).1.dataOf d.size = some v ∧ (d.alloc v).1.parentOf d.size = none ∧
      (d.alloc v).1.childrenOf d.size = [] := by
  refine ⟨rfl, by rw [dataOf_alloc]; simp, ?_, ?_⟩
  · rw [parentOf_alloc]; exact parentOf_none_of_ge (Nat.le_refl _)
  · rw [childrenOf_alloc]; exact childrenOf_nil_of_ge (Nat.le_refl _)

/-- what `create_element` does to the lists, pointers and data -/
theorem createElement_eff {d : Dom} (name : QualName) (attrs : List Attr) (flags : ElementFlags) :
    (∀ x, (d.createElement name attrs flags).1.childrenOf x = d.childrenOf x) ∧
      (∀ x, x < d.size → (d.createElement name attrs flags).1.parentOf x = d.parentOf x) ∧
      (∀ x, x < d.size → (d.createElement name attrs flags).1.dataOf x = d.dataOf x) ∧
      d.size ≤ (d.createElement name attrs flags).2 ∧
      (d.createElement name attrs flags).1.parentOf (d.createElement name attrs flags).2 = none ∧
      (d.createElement name attrs flags).1.childrenOf (d.createElement name attrs flags).2 = [] ∧
      (d.createElement name attrs flags).1.isText (d.createElement name attrs flags).2 = false ∧
      (∀ tc, (d.createElement name attrs flags).1.templateContentsOf (d.createElement name attrs flags).2 = some tc →
        (d.createElement name attrs flags).1.childrenOf tc = [] ∧ d.size ≤ tc) := by
  unfold Dom.createElement
  cases hft : flags.template with
  | true =>
    simp only [if_true]
    generalize hd1 : (d.alloc NodeData.document).1 = d1
    have h21 : (d.alloc NodeData.document).2 = d.size := rfl
    rw [h21]
    have hs1 : d1.size = d.size + 1 := by rw [← hd1]; exact size_alloc _ _
    have hc1 : ∀ x, d1.childrenOf x = d.childrenOf x := fun x => by rw [← hd1, childrenOf_alloc]
    have hp1 : ∀ x, d1.parentOf x = d.parentOf x := fun x => by rw [← hd1, parentOf_alloc]
    have hda1 : ∀ x, d1.dataOf x = if x = d.size then some NodeData.document else d.dataOf x := fun x => by
      rw [← hd1, dataOf_alloc]
    obtain ⟨n1, n2, n3, n4⟩ := alloc_new d1 (NodeData.element name attrs (some d.size) flags.mathmlIP)
    rw [n1]
    refine ⟨fun x => by rw [childrenOf_alloc, hc1], fun x _ => by rw [parentOf_alloc, hp1],
      fun x hx => ?_, by rw [hs1]; exact Nat.le_succ _, n3, n4, ?_, ?_⟩
    · rw [dataOf_alloc, hda1, hs1]
      simp [Nat.ne_of_lt hx, Nat.ne_of_lt (Nat.lt_succ_of_lt hx)]
    · unfold Dom.isText; rw [n2]
    · intro tc htc
      unfold Dom.templateContentsOf at htc
      rw [n2] at htc
      have : tc = d.size := by simpa using htc.symm
      subst this
      refine ⟨?_, Nat.le_refl _⟩
      rw [childrenOf_alloc, hc1]
      exact childrenOf_nil_of_ge (Nat.le_refl _)
  | false =>
    simp only [Bool.false_eq_true, if_false]
    obtain ⟨n1, n2, n3, n4⟩ := alloc_new d (NodeData.element name attrs none flags.mathmlIP)
    rw [n1]
    refine ⟨fun x => by rw [childrenOf_alloc], fun x _ => by rw [parentOf_alloc],
      fun x hx => by rw [dataOf_alloc]; simp [Nat.ne_of_lt hx], Nat.le_refl _, n3, n4, ?_, ?_⟩
    · unfold Dom.isText; rw [n2]
    · intro tc htc
      unfold Dom.templateContentsOf at htc
      rw [n2] at htc
      simp at htc

theorem AdjD.createElement {d : Dom} {O : List Id} (h : AdjD d O) (hb : DomBase d) (hO : ∀ e ∈ O, e < d.size)
    (name : QualName) (attrs : List Attr) (flags : ElementFlags) : AdjD (d.createElement name attrs flags).1 O := by
  obtain ⟨h1, h2, h3, _⟩ := createElement_eff (d := d) name attrs flags
  refine h.congr h1 (fun P x hx => h2 x (hb.kidsValid P x hx)) (fun P x hx => isText_of_data (h3 x (hb.kidsValid P x hx)))
    (fun e he => nm_of_data (h3 e (hO e he))) (fun T hT => tc_of_data (h3 T (hO T hT)))

/-- the open elements are old nodes -/
theorem Late.oe_lt {s : State} (h : Late s) : ∀ e ∈ s.openElems, e < s.dom.size :=
  fun e he => lt_of_isElement (h.st.oe e he)

/-- `create_element` at the level of the builder, for any stack of old nodes -/
theorem sinkCreate_adj' {s s' : State} {name : QualName} {attrs : List Attr} {fl : ElementFlags} {el : Id} {O : List Id}
    (hb : DomBase s.dom) (hO : ∀ e ∈ O, e < s.dom.size)
    (h : AdjD s.dom O) (e : sinkNode (.createElement name attrs fl) s = .ok (el, s')) :
    AdjD s'.dom O ∧ s'.dom.parentOf el = none ∧ s'.dom.childrenOf el = [] ∧ s'.dom.isText el = false ∧
      (∀ tc, s'.dom.templateContentsOf el = some tc → s'.dom.childrenOf tc = [] ∧ s.dom.size ≤ tc) ∧
      s.dom.size ≤ el ∧ (∀ x, s'.dom.childrenOf x = s.dom.childrenOf x) ∧
      (∀ x, x < s.dom.size → s'.dom.parentOf x = s.dom.parentOf x) ∧
      (∀ x, x < s.dom.size → s'.dom.dataOf x = s.dom.dataOf x) ∧ s'.openElems = s.openElems ∧
      s'.docHandle = s.docHandle := by
  have e' := sinkNode_ok.mp e
  obtain ⟨d, hd, rfl⟩ := sink_ok.mp e'
  obtain ⟨rfl, hout⟩ := apply_createElement hd
  cases hout
  obtain ⟨h1, h2, h3, h4, h5, h6, h7, h8⟩ := createElement_eff (d := s.dom) name attrs fl
  exact ⟨h.createElement hb hO _ _ _, h5, h6, h7, h8, h4, h1, h2, h3, rfl, rfl⟩

/-- `create_element` at the level of the builder -/
theorem sinkCreate_adj {s s' : State} {name : QualName} {attrs : List Attr} {fl : ElementFlags} {el : Id} (hl : Late s)
    (h : AdjD s.dom s.openElems) (e : sinkNode (.createElement name attrs fl) s = .ok (el, s')) :
    AdjD s'.dom s'.openElems ∧ s'.dom.parentOf el = none ∧ s'.dom.childrenOf el = [] ∧ s'.dom.isText el = false ∧
      (∀ tc, s'.dom.templateContentsOf el = some tc → s'.dom.childrenOf tc = [] ∧ s.dom.size ≤ tc) ∧
      s.dom.size ≤ el ∧ (∀ x, s'.dom.childrenOf x = s.dom.childrenOf x) ∧
      (∀ x, x < s.dom.size → s'.dom.parentOf x = s.dom.parentOf x) ∧
      (∀ x, x < s.dom.size → s'.dom.dataOf x = s.dom.dataOf x) := by
  have e' := sinkNode_ok.mp e
  obtain ⟨d, hd, rfl⟩ := sink_ok.mp e'
  obtain ⟨rfl, hout⟩ := apply_createElement hd
  cases hout
  obtain ⟨h1, h2, h3, h4, h5, h6, h7, h8⟩ := createElement_eff (d := s.dom) name attrs fl
  exact ⟨h.createElement hl.base hl.oe_lt _ _ _, h5, h6, h7, h8, h4, h1, h2, h3⟩

theorem createElement_adj {s s' : State} {name : QualName} {attrs : List Attr} {dup : Bool} {el : Id} (hl : Late s)
    (h : AdjD s.dom s.openElems) (e : createElementWithFlags name attrs dup s = .ok (el, s')) :
    AdjD s'.dom s'.openElems ∧ s'.dom.parentOf el = none ∧ s'.dom.childrenOf el = [] ∧ s'.dom.isText el = false ∧
      (∀ tc, s'.dom.templateContentsOf el = some tc → s'.dom.childrenOf tc = [] ∧ s.dom.size ≤ tc) ∧
      s.dom.size ≤ el ∧ (∀ x, s'.dom.childrenOf x = s.dom.childrenOf x) ∧
      (∀ x, x < s.dom.size → s'.dom.parentOf x = s.dom.parentOf x) ∧
      (∀ x, x < s.dom.size → s'.dom.dataOf x = s.dom.dataOf x) := by
  unfold createElementWithFlags at e
  exact sinkCreate_adj hl h e

/-- `create_comment` -/
theorem createComment_adj {s s' : State} {text : Str} {c : Id} (hl : Late s)
    (h : AdjD s.dom s.openElems) (e : sinkNode (.createComment text) s = .ok (c, s')) :
    AdjD s'.dom s'.openElems ∧ s'.dom.parentOf c = none ∧ s'.dom.isText c = false ∧ c ∉ s'.openElems := by
  have e' := sinkNode_ok.mp e
  obtain ⟨d, hd, rfl⟩ := sink_ok.mp e'
  obtain ⟨rfl, hout⟩ := apply_createComment hd
  cases hout
  obtain ⟨n1, n2, n3, n4⟩ := alloc_new s.dom (NodeData.comment text)
  refine ⟨h.alloc hl.base hl.oe_lt _, ?_, ?_, ?_⟩
  · show (s.dom.alloc _).1.parentOf (s.dom.alloc _).2 = none
    rw [n1]; exact n3
  · show (s.dom.alloc _).1.isText (s.dom.alloc _).2 = false
    rw [n1]; unfold Dom.isText; rw [n2]
  · intro hm
    have : (s.dom.createComment text).2 < s.dom.size := hl.oe_lt _ hm
    have h2 : (s.dom.createComment text).2 = s.dom.size := rfl
    rw [h2] at this; exact Nat.lt_irrefl _ this


/-! ### the effect of the insertion calls on a parentless node -/

theorem removeFromParent_noop {d d' : Dom} {c : Id} (hcp : d.parentOf c = none) (h : d.removeFromParent c = .ok d') :
    d' = d := by
  rcases removeFromParent_ok h with ⟨_, he⟩ | ⟨p, i, hp, _⟩
  · exact he
  · rw [hcp] at hp; cases hp

theorem split_of_indexOf {t : Id} {l : List Id} {i : Nat} (h : indexOf? t l = some i) :
    l = l.take i ++ t :: l.drop (i + 1) ∧ l.drop i = t :: l.drop (i + 1) := by
  obtain ⟨h1, _, h3⟩ := indexOf?_some h
  refine ⟨h1, ?_⟩
  have := indexOf?_getElem h
  have hlt : i < l.length := h3
  rw [List.drop_eq_getElem_cons hlt]
  have : l[i] = t := by
    have h2 := List.getElem?_eq_getElem hlt
    rw [this] at h2
    exact (Option.some.inj h2).symm
  rw [this]

theorem dom_appendNode_eff {d d' : Dom} {p c : Id} (h : d.append p (.node c) = .ok d') (hne : p ≠ c) :
    d.parentOf c = none ∧
      (∀ x, d'.childrenOf x = if x = p then d.childrenOf p ++ [c] else d.childrenOf x) ∧
      (∀ x, d'.parentOf x = if x = c then some p else d.parentOf x) ∧ (∀ x, d'.dataOf x = d.dataOf x) := by
  rw [append_node_eq] at h
  obtain ⟨cn, pn, hcn, hpn, _, h1, h2, h3, _⟩ := appendRaw_ok h hne
  exact ⟨by rw [parentOf_of_node hcn]; exact hpn, h2, h1, h3⟩

theorem dom_beforeNode_eff {d d' : Dom} {e c : Id} (hcp : d.parentOf c = none)
    (h : d.appendBeforeSiblingV Dom.beforeSiblingVariant e (.node c) = .ok d') :
    ∃ P i, d.parentOf e = some P ∧ indexOf? e (d.childrenOf P) = some i ∧
      (∀ x, d'.childrenOf x = if x = P then (d.childrenOf P).take i ++ c :: (d.childrenOf P).drop i
        else d.childrenOf x) ∧
      (∀ x, d'.parentOf x = if x = c then some P else d.parentOf x) ∧ (∀ x, d'.dataOf x = d.dataOf x) := by
  have h0 : d.appendBeforeSibling e (.node c) = .ok d' := by
    rcases appendBeforeSiblingV_ok h with h1 | ⟨c', d1, he, hr, h2⟩
    · exact h1
    · cases he
      rw [removeFromParent_noop hcp hr] at h2; exact h2
  obtain ⟨P, i, hpar, hi, _, hm⟩ := appendBeforeSibling_ok h0
  simp only at hm
  obtain ⟨d1, hr, _, _, _, h1, h2, h3, _⟩ := insertAtIndex_ok hm
  have hd1 := removeFromParent_noop hcp hr
  subst hd1
  exact ⟨P, i, hpar, hi, h2, h1, h3⟩

/-- where an inserted node ends up: what follows it is nothing, or the table it was put before -/
inductive NodePos (d : Dom) (ip : InsertionPoint) (P : Id) (b : List Id) : Prop
  | last : b = [] → (ip = .lastChild P ∨ ∃ e, ip = .tableFosterParenting e P ∧ d.parentOf e = none) → NodePos d ip P b
  | before (e p : Id) (b' : List Id) : ip = .tableFosterParenting e p → d.parentOf e = some P →
      e ∈ d.childrenOf P → b = e :: b' → NodePos d ip P b

/-- `insert_at` with a parentless node that is not open and not text -/
theorem NodePos.congr {d d' : Dom} {ip : InsertionPoint} {P : Id} {b : List Id}
    (hk : ∀ x, d'.childrenOf x = d.childrenOf x)
    (hp : ∀ p, ip.nodes.1 = p ∨ ip.nodes.2 = some p → d'.parentOf p = d.parentOf p)
    (h : NodePos d ip P b) : NodePos d' ip P b := by
  cases h with
  | last hb hip =>
    refine .last hb ?_
    rcases hip with hip | ⟨e, hip, hpe⟩
    · exact Or.inl hip
    · refine Or.inr ⟨e, hip, ?_⟩
      rw [hp e (by rw [hip]; exact Or.inl rfl)]; exact hpe
  | before e p b' hip hpe hem hb =>
    refine .before e p b' hip ?_ (by rw [hk]; exact hem) hb
    rw [hp e (by rw [hip]; exact Or.inl rfl)]; exact hpe

/-- the parent of the insertion position is not a childless node other than the places named by `ip` -/
theorem NodePos.ne {d : Dom} {ip : InsertionPoint} {P n : Id} {b : List Id} (h : NodePos d ip P b)
    (hn : d.childrenOf n = []) (hip : ∀ p, ip.nodes.1 = p ∨ ip.nodes.2 = some p → p ≠ n) : P ≠ n := by
  cases h with
  | last hb hip' =>
    rcases hip' with hip' | ⟨e, hip', _⟩
    · exact hip P (by rw [hip']; exact Or.inl rfl)
    · exact hip P (by rw [hip']; exact Or.inr rfl)
  | before e p b' _ _ hem _ =>
    rintro rfl
    rw [hn] at hem; cases hem

theorem parentOf_of_nodes {d d' : Dom} (h : d'.nodes = d.nodes) (x : Id) : d'.parentOf x = d.parentOf x := by
  unfold Dom.parentOf; rw [h]

theorem isText_false_of_isElement {d : Dom} {x : Id} (h : d.isElement x = true) : d.isText x = false := by
  unfold Dom.isElement at h
  unfold Dom.isText
  cases hd : d.dataOf x with
  | none => rfl
  | some v => rw [hd] at h; cases v <;> simp_all

/-- what `insert_at(ip, node)` does to the arena, for a parentless node -/
theorem insertAt_node_eff {s s' : State} {ip : InsertionPoint} {c : Id} {u : Unit}
    (hip : IpOk s.dom ip) (hcp : s.dom.parentOf c = none)
    (hcand : ∀ p, ip.nodes.1 = p ∨ ip.nodes.2 = some p → p ≠ c)
    (e : H5V.Model.HtmlTB.insertAt ip (.node c) s = .ok (u, s')) :
    ∃ P a b, s.dom.childrenOf P = a ++ b ∧
      (∀ x, s'.dom.childrenOf x = if x = P then a ++ c :: b else s.dom.childrenOf x) ∧
      (∀ x, s'.dom.parentOf x = if x = c then some P else s.dom.parentOf x) ∧
      (∀ x, s'.dom.dataOf x = s.dom.dataOf x) ∧ NodePos s.dom ip P b := by
  cases ip with
  | beforeSibling _ => exact absurd hip id
  | lastChild p =>
    unfold H5V.Model.HtmlTB.insertAt at e
    obtain ⟨out, hd, _⟩ := sinkUnit_dom e
    have ha := apply_append hd
    have hne : p ≠ c := hcand p (Or.inl rfl)
    obtain ⟨_, h2, h1, h3⟩ := dom_appendNode_eff ha hne
    exact ⟨p, s.dom.childrenOf p, [], by simp, by simpa using h2, h1, h3, .last rfl (Or.inl rfl)⟩
  | tableFosterParenting el p =>
    unfold H5V.Model.HtmlTB.insertAt at e
    obtain ⟨out, hd, _⟩ := sinkUnit_dom e
    have ha := apply_abopn hd
    have helt : el < s.dom.size := lt_of_isElement hip.1
    have hb := appendBasedOnParentNodeV_eq ha helt
    cases hpe : s.dom.parentOf el with
    | none =>
      rw [hpe] at hb
      simp only [Option.isSome_none, Bool.false_eq_true, if_false] at hb
      have ha' : s.dom.append p (.node c) = .ok s'.dom := hb.symm
      have hne : p ≠ c := hcand p (Or.inr rfl)
      obtain ⟨_, h2, h1, h3⟩ := dom_appendNode_eff ha' hne
      exact ⟨p, s.dom.childrenOf p, [], by simp, by simpa using h2, h1, h3, .last rfl (Or.inr ⟨el, rfl, hpe⟩)⟩
    | some P0 =>
      rw [hpe] at hb
      simp only [Option.isSome_some, if_true] at hb
      obtain ⟨P, i, hpar, hi, h2, h1, h3⟩ := dom_beforeNode_eff hcp hb.symm
      rw [hpe] at hpar; cases hpar
      obtain ⟨hs1, hs2⟩ := split_of_indexOf hi
      exact ⟨P0, (s.dom.childrenOf P0).take i, (s.dom.childrenOf P0).drop i, by simp, h2, h1, h3,
        .before el p _ rfl hpe (mem_of_indexOf? hi) hs2⟩

theorem insertAt_node_adj {s s' : State} {ip : InsertionPoint} {c : Id} {u : Unit} {O : List Id}
    (hl : Late s) (hip : IpOk s.dom ip) (h : AdjD s.dom O) (hcO : c ∉ O) (hcp : s.dom.parentOf c = none)
    (hct : s.dom.isText c = false)
    (hcand : ∀ p, ip.nodes.1 = p ∨ ip.nodes.2 = some p → p ≠ c)
    (e : H5V.Model.HtmlTB.insertAt ip (.node c) s = .ok (u, s')) :
    AdjD s'.dom O ∧ ∃ P a b, s.dom.childrenOf P = a ++ b ∧ s'.dom.childrenOf P = a ++ c :: b ∧
      (∀ Q, Q ≠ P → s'.dom.childrenOf Q = s.dom.childrenOf Q) ∧ (∀ x, s'.dom.dataOf x = s.dom.dataOf x) ∧
      (∀ Q, c ∉ s.dom.childrenOf Q) ∧ NodePos s.dom ip P b := by
  have hcn : ∀ Q, c ∉ s.dom.childrenOf Q := fun Q hm => by
    have := h.lk Q c hm; rw [hcp] at this; cases this
  obtain ⟨P, a, b, hP, hch, hpar, hd, hpos⟩ := insertAt_node_eff hip hcp hcand e
  exact ⟨h.insertNode_closed hP hch hpar hd hcp hct hcO, P, a, b, hP, by rw [hch]; simp,
    fun Q hQ => by rw [hch]; simp [hQ], hd, hcn, hpos⟩

/-- `insert_at(ip, node)` for a parentless element of the stack: the candidates for its parent, for a
template owning the parent, and for a later table sibling all precede it on the stack -/
theorem insertAt_open_adj {s s' : State} {ip : InsertionPoint} {c : Id} {u : Unit} {O : List Id}
    (hip : IpOk s.dom ip) (h : AdjD s.dom O) (hcp : s.dom.parentOf c = none)
    (hct : s.dom.isText c = false) (hnt : nm s.dom c ≠ hN "table")
    (hcand : ∀ p, ip.nodes.1 = p ∨ ip.nodes.2 = some p → p ≠ c)
    (hpos : ∀ P a b, s.dom.childrenOf P = a ++ b → NodePos s.dom ip P b →
      (P ∈ O → Before O P c) ∧
      (∀ T, s.dom.templateContentsOf T = some P → nm s.dom T = hN "template" → T ∈ O → Before O T c) ∧
      (∀ y ∈ b, y ∈ O → nm s.dom y = hN "table" → Before O y c))
    (e : H5V.Model.HtmlTB.insertAt ip (.node c) s = .ok (u, s')) : AdjD s'.dom O := by
  obtain ⟨P, a, b, hP, hch, hpar, hd, hps⟩ := insertAt_node_eff hip hcp hcand e
  obtain ⟨c1, c2, c3⟩ := hpos P a b hP hps
  refine h.insertNode hP hch hpar hd hcp hct ?_ (fun _ hPO => c1 hPO) (fun T hT hn _ hTO => c2 T hT hn hTO)
    (fun hn => absurd hn hnt) (fun _ _ y hy hyO hyn => c3 y hy hyO hyn)
  intro _ _
  cases hps with
  | last hb _ => rw [hb]; rfl
  | before e' p b' hip' _ _ hb =>
    rw [hb]
    show s.dom.isText e' = false
    rw [hip'] at hip
    exact isText_false_of_isElement hip.1

/-! ### text -/

/-- the node behind which `insert_at(ip, text)` puts the text -/
def PrevOf (d : Dom) (ip : InsertionPoint) (x : Id) : Prop :=
  match ip with
  | .lastChild p => (d.childrenOf p).getLast? = some x
  | .beforeSibling _ => False
  | .tableFosterParenting e p =>
    (d.parentOf e = none ∧ (d.childrenOf p).getLast? = some x) ∨
      ∃ P l1 l2, d.parentOf e = some P ∧ d.childrenOf P = l1 ++ x :: e :: l2

theorem PrevOf.pos {d : Dom} {ip : InsertionPoint} {x : Id} (h : PrevOf d ip x) :
    ∃ P a b, d.childrenOf P = a ++ b ∧ NodePos d ip P b ∧ x ∈ a := by
  cases ip with
  | lastChild p =>
    exact ⟨p, d.childrenOf p, [], by simp, .last rfl (Or.inl rfl), List.mem_of_getLast? h⟩
  | beforeSibling _ => exact absurd h id
  | tableFosterParenting e p =>
    rcases h with ⟨hpe, hl⟩ | ⟨P, l1, l2, hpe, hP⟩
    · exact ⟨p, d.childrenOf p, [], by simp, .last rfl (Or.inr ⟨e, rfl, hpe⟩), List.mem_of_getLast? hl⟩
    · exact ⟨P, l1 ++ [x], e :: l2, by rw [hP]; simp, .before e p l2 rfl hpe (by rw [hP]; simp) rfl, by simp⟩

/-- a text node gets more text: nothing the invariant looks at changes -/
theorem AdjD.textMerge {d d' : Dom} {O : List Id} (h : AdjD d O) (hO : ∀ e ∈ O, d.isElement e = true)
    (hs : SameShape d d') {t : Id} {old new : Str} (ht : d.dataOf t = some (.text old))
    (hd : ∀ x, d'.dataOf x = if x = t then some (.text new) else d.dataOf x) : AdjD d' O := by
  have hne : ∀ e ∈ O, e ≠ t := fun e he h0 => by
    have := hO e he
    unfold Dom.isElement at this
    rw [h0, ht] at this; cases this
  refine h.congr hs.children (fun P x _ => hs.parent x) ?_ ?_ ?_
  · intro P x _
    by_cases hx : x = t
    · subst hx
      unfold Dom.isText
      rw [hd, ht]; simp
    · exact isText_of_data (by rw [hd]; simp [hx])
  · intro e he
    exact nm_of_data (by rw [hd]; simp [hne e he])
  · intro T hT
    exact tc_of_data (by rw [hd]; simp [hne T hT])

theorem lastT_false_of {d : Dom} {l : List Id}
    (h : ∀ hl, l.getLast? = some hl → d.isText hl = false) : lastT d.isText l = false := by
  unfold lastT
  cases hl : l.getLast? with
  | none => rfl
  | some x => exact h x hl

/-- `append(parent, text)` -/
theorem AdjD.appendText {d d' : Dom} {O : List Id} {p : Id} {t : Str} (h : AdjD d O) (hb : DomBase d)
    (hO : ∀ e ∈ O, d.isElement e = true)
    (hprev : ∀ x, (d.childrenOf p).getLast? = some x → x ∈ O → exm (nm d x) = false → False)
    (e : d.append p (.text t) = .ok d') : AdjD d' O := by
  have hOlt : ∀ e ∈ O, e < d.size := fun e he => lt_of_isElement (hO e he)
  obtain ⟨hp, h1 | h2⟩ := append_text_ok e
  · obtain ⟨hl, old, _, hdl, hs, hd, _⟩ := h1
    exact h.textMerge hO hs hdl hd
  · obtain ⟨hpar, hch, hd, _, _⟩ := allocAppend_ok hp h2.2
    refine h.insertFresh (P := p) (a := d.childrenOf p) (b := []) (v := .text t) hb.kidsValid hOlt (by simp)
      (by intro x; rw [hch]) hpar hd ?_ ?_
    · intro _
      exact ⟨lastT_false_of h2.1, by simp [headT]⟩
    · intro _ a' x ha hx hxx
      exact hprev x (by rw [ha]; simp) hx hxx

/-- `insert_at` with text -/
theorem insertAt_text_adj {s s' : State} {ip : InsertionPoint} {t : Str} {u : Unit} {O : List Id}
    (hl : Late s) (hip : IpOk s.dom ip) (h : AdjD s.dom O) (hO : ∀ e ∈ O, s.dom.isElement e = true)
    (hprev : ∀ x, PrevOf s.dom ip x → x ∈ O → exm (nm s.dom x) = false → False)
    (e : H5V.Model.HtmlTB.insertAt ip (.text t) s = .ok (u, s')) : AdjD s'.dom O := by
  have hOlt : ∀ e ∈ O, e < s.dom.size := fun e he => lt_of_isElement (hO e he)
  cases ip with
  | beforeSibling _ => exact absurd hip id
  | lastChild p =>
    unfold H5V.Model.HtmlTB.insertAt at e
    obtain ⟨out, hd, _⟩ := sinkUnit_dom e
    exact h.appendText hl.base hO (fun x hx => hprev x hx) (apply_append hd)
  | tableFosterParenting el p =>
    unfold H5V.Model.HtmlTB.insertAt at e
    obtain ⟨out, hd, _⟩ := sinkUnit_dom e
    have ha := apply_abopn hd
    have helt : el < s.dom.size := lt_of_isElement hip.1
    have hb := appendBasedOnParentNodeV_eq ha helt
    cases hpe : s.dom.parentOf el with
    | none =>
      rw [hpe] at hb
      simp only [Option.isSome_none, Bool.false_eq_true, if_false] at hb
      exact h.appendText hl.base hO (fun x hx => hprev x (Or.inl ⟨hpe, hx⟩)) hb.symm
    | some P0 =>
      rw [hpe] at hb
      simp only [Option.isSome_some, if_true] at hb
      have h0 : s.dom.appendBeforeSibling el (.text t) = .ok s'.dom := by
        rcases appendBeforeSiblingV_ok hb.symm with h1 | ⟨c', d1, he, _, _⟩
        · exact h1
        · cases he
      obtain ⟨P, i, hpar, hi, _, hm⟩ := appendBeforeSibling_ok h0
      rw [hpe] at hpar; cases hpar
      obtain ⟨hs1, hs2⟩ := split_of_indexOf hi
      simp only at hm
      have helT : s.dom.isText el = false := by
        have := hip.1
        unfold Dom.isElement at this
        unfold Dom.isText
        cases hq : s.dom.dataOf el with
        | none => rfl
        | some v => rw [hq] at this; cases v <;> first | rfl | cases this
      rcases hm with ⟨prev, old, _, _, hdl, hs, hd', _⟩ | ⟨hprev', h2⟩
      · exact h.textMerge hO hs hdl hd'
      · obtain ⟨_, hpp, hch, hd', _, _⟩ := insertAtIndex_fresh_ok h2
        refine h.insertFresh (P := P0) (a := (s.dom.childrenOf P0).take i) (b := (s.dom.childrenOf P0).drop i)
          (v := .text t) hl.base.kidsValid hOlt (by simp) (by intro x; rw [hch]; rfl) hpp hd' ?_ ?_
        · intro _
          refine ⟨?_, by rw [hs2]; exact helT⟩
          rcases hprev' with h0' | ⟨prev, hp1, hp2⟩
          · subst h0'; simp [lastT]
          · by_cases h0' : i = 0
            · subst h0'; simp [lastT]
            · rw [lastT_take (Nat.pos_of_ne_zero h0') hp1]; exact hp2
        · intro _ a' x ha hx hxx
          refine hprev x (Or.inr ⟨P0, a', (s.dom.childrenOf P0).drop (i + 1), hpe, ?_⟩) hx hxx
          have := hs1
          rw [ha] at this
          exact this.trans (by simp)


/-! ### pushing the element that was just inserted -/

theorem not_before_last {l : List Id} {t x : Id} (hn : l.Nodup) (hl : l.getLast? = some t) : ¬ Before l t x := by
  intro h
  rcases nil_or_concat l with rfl | ⟨l0, z, rfl⟩
  · cases hl
  · have hz : z = t := by simpa using hl
    subst hz
    -- [t, x] <+ l0 ++ [t]: x comes after t, but t is last
    unfold Before at h
    rcases List.sublist_append_iff.mp h with ⟨m1, m2, e, s1, s2⟩
    have hnd := List.nodup_append.mp hn
    cases m1 with
    | nil =>
      simp at e; subst e
      have := s2.length_le; simp at this
    | cons w m1' =>
      have hw : w = z := by cases m1' <;> simp at e <;> exact e.1.symm
      subst hw
      exact hnd.2.2 w (s1.subset (by simp)) w (by simp) rfl

/-- an element of the stack that comes after `e` lies in the part `pre` above `e` -/
theorem mem_pre_of_before {O pre post : List Id} {e x : Id} (hn : O.Nodup) (hO : O.reverse = pre ++ e :: post)
    (h : Before O e x) : x ∈ pre := by
  have hO' : O = post.reverse ++ e :: pre.reverse := by
    have := congrArg List.reverse hO
    simpa using this
  rw [hO'] at h hn
  have hxe : x ≠ e := fun h0 => by subst h0; exact not_before_self hn x h
  have he : e ∉ post.reverse := fun hm =>
    (List.nodup_append.mp hn).2.2 e hm e (by simp) rfl
  have := before_mid_right h hxe he
  simpa using this

/-- with a foster-parenting target on top of the stack, what lies above the last `table` / `template`
is table structure -/
theorem pre_constrained {name : Id → EName} {O pre post : List Id} {e t : Id} (htg : TG name O)
    (hO : O.reverse = pre ++ e :: post) (ht : O.getLast? = some t) (hft : fosterTarget (name t) = true)
    (hpre : ∀ y ∈ pre, htmlIn (name y) ["table", "template"] = false) : ∀ y ∈ pre, constrained (name y) = true := by
  have hO' : O = post.reverse ++ e :: pre.reverse := by
    have := congrArg List.reverse hO
    simpa using this
  -- names of foster targets that are not table / template
  have key : ∀ n, fosterTarget n = true → htmlIn n ["table", "template"] = false →
      htmlIn n ["tbody", "tfoot", "thead", "tr"] = true := by
    intro n h1 h2
    obtain ⟨a, ha, rfl⟩ := htmlIn_eq h1
    simp only [List.mem_cons, List.not_mem_nil, or_false] at ha
    rcases ha with rfl | rfl | rfl | rfl | rfl <;> first | rfl | (revert h2; decide)
  rcases nil_or_concat pre.reverse with h0 | ⟨q, top, h0⟩
  · intro y hy
    have : pre = [] := by simpa using h0
    rw [this] at hy; cases hy
  · -- the top of the stack is `top`
    have htop : top = t := by
      rw [hO', h0] at ht
      have : (post.reverse ++ e :: (q ++ [top])) = (post.reverse ++ e :: q) ++ [top] := by simp
      rw [this, List.getLast?_append] at ht
      simpa using ht
    subst htop
    have hmem : ∀ y, y ∈ pre ↔ y ∈ q ∨ y = top := by
      intro y
      rw [← List.mem_reverse, h0]; simp
    have htopc := key _ hft (hpre top ((hmem top).mpr (Or.inr rfl)))
    rcases nil_or_concat q with rfl | ⟨q', pr, rfl⟩
    · intro y hy
      rcases (hmem y).mp hy with h1 | rfl
      · cases h1
      · obtain ⟨a, ha, heq⟩ := htmlIn_eq htopc
        rw [heq]
        simp only [List.mem_cons, List.not_mem_nil, or_false] at ha
        rcases ha with rfl | rfl | rfl | rfl <;> decide
    · -- pr is directly below top
      have hpo : predOk (name top) (name pr) = true :=
        htg (post.reverse ++ e :: q') pr top [] (by rw [hO', h0]; simp)
      have hprc := hpre pr ((hmem pr).mpr (Or.inl (by simp)))
      -- top is `tr`, pr a table section
      have htr : name top = hN "tr" ∧ htmlIn (name pr) ["tbody", "thead", "tfoot"] = true := by
        obtain ⟨a, ha, heq⟩ := htmlIn_eq htopc
        simp only [List.mem_cons, List.not_mem_nil, or_false] at ha
        rw [heq] at hpo
        rcases ha with rfl | rfl | rfl | rfl
        · exfalso
          unfold predOk at hpo
          rw [if_neg (by decide), if_pos (by decide)] at hpo
          rw [hprc] at hpo; cases hpo
        · exfalso
          unfold predOk at hpo
          rw [if_neg (by decide), if_pos (by decide)] at hpo
          rw [hprc] at hpo; cases hpo
        · exfalso
          unfold predOk at hpo
          rw [if_neg (by decide), if_pos (by decide)] at hpo
          rw [hprc] at hpo; cases hpo
        · refine ⟨heq, ?_⟩
          unfold predOk at hpo
          rw [if_pos (by decide)] at hpo
          obtain ⟨b, hb, heq2⟩ := htmlIn_eq hpo
          simp only [List.mem_cons, List.not_mem_nil, or_false] at hb
          rcases hb with rfl | rfl | rfl | rfl
          · rw [heq2]; decide
          · rw [heq2]; decide
          · rw [heq2]; decide
          · rw [heq2] at hprc; exact absurd hprc (by decide)
      -- nothing below pr inside pre
      rcases nil_or_concat q' with rfl | ⟨q'', pr2, rfl⟩
      · intro y hy
        rcases (hmem y).mp hy with h1 | rfl
        · have : y = pr := by simpa using h1
          subst this
          obtain ⟨b, hb, heq2⟩ := htmlIn_eq htr.2
          rw [heq2]
          simp only [List.mem_cons, List.not_mem_nil, or_false] at hb
          rcases hb with rfl | rfl | rfl <;> decide
        · rw [htr.1]; decide
      · exfalso
        have hpo2 : predOk (name pr) (name pr2) = true :=
          htg (post.reverse ++ e :: q'') pr2 pr [top] (by rw [hO', h0]; simp)
        have hpr2c := hpre pr2 ((hmem pr2).mpr (Or.inl (by simp)))
        obtain ⟨b, hb, heq2⟩ := htmlIn_eq htr.2
        rw [heq2] at hpo2
        simp only [List.mem_cons, List.not_mem_nil, or_false] at hb
        rcases hb with rfl | rfl | rfl <;>
          (unfold predOk at hpo2
           rw [if_neg (by decide), if_pos (by decide)] at hpo2
           rw [hpr2c] at hpo2; cases hpo2)

/-- the element `c` was inserted into `P` between `a` and `b`, it is childless and in no other list -/
theorem AdjD.push_inserted {d : Dom} {O : List Id} {P c : Id} {a b : List Id} (h : AdjD d O)
    (hP : d.childrenOf P = a ++ c :: b) (hca : c ∉ a) (hcb : c ∉ b) (hcQ : ∀ Q, Q ≠ P → c ∉ d.childrenOf Q)
    (hb : headT d.isText b = false) (hkids : d.childrenOf c = [])
    (htc : ∀ tc, d.templateContentsOf c = some tc → d.childrenOf tc = [])
    (hTB : nm d c = hN "table" → ∀ x ∈ a, x ∈ O → exm (nm d x) = false → False) : AdjD d (O ++ [c]) := by
  refine h.push ?_ (by rw [hkids]; simp) (by rw [hkids]; intro e he; cases he) ?_ ?_
  · intro _ Q l1 l2 hc
    by_cases hQ : Q = P
    · subst hQ
      rw [hP] at hc
      rcases mid_split hc with ⟨_, _, rfl⟩ | ⟨a2, ha, _⟩ | ⟨b1, hb', _⟩
      · exact hb
      · exact absurd (by rw [ha]; simp) hca
      · exact absurd (by rw [hb']; simp) hcb
    · exact absurd (by rw [hc]; simp) (hcQ Q hQ)
  · intro tc e htc' he _
    rw [htc tc htc'] at he; cases he
  · intro hn Q x hbf hx hxx
    by_cases hQ : Q = P
    · subst hQ
      rw [hP] at hbf
      have hxc : x ≠ c := by
        rintro rfl
        have hnd := h.nd Q
        rw [hP] at hnd
        exact not_before_self hnd x hbf
      exact hTB hn x (before_mid_left hbf hxc hcb) hx hxx
    · exact absurd (hbf.mem.2) (hcQ Q hQ)


/-- inserting a fresh, parentless, childless element at an appropriate place, then pushing it -/
theorem insertAt_new_adj {s s' : State} {ip : InsertionPoint} {el : Id} {u : Unit}
    (hl : Late s) (hip : IpOk s.dom ip) (h : AdjD s.dom s.openElems) (hcO : el ∉ s.openElems)
    (hcp : s.dom.parentOf el = none) (hct : s.dom.isText el = false) (hkids : s.dom.childrenOf el = [])
    (htc : ∀ tc, s.dom.templateContentsOf el = some tc → s.dom.childrenOf tc = [] ∧
      ∀ p, ip.nodes.1 = p ∨ ip.nodes.2 = some p → p ≠ tc)
    (hcand : ∀ p, ip.nodes.1 = p ∨ ip.nodes.2 = some p → p ≠ el)
    (hTB : ∀ P a b x, s.dom.childrenOf P = a ++ b → NodePos s.dom ip P b → x ∈ a → x ∈ s.openElems →
      exm (nm s.dom x) = false → False)
    (e : H5V.Model.HtmlTB.insertAt ip (.node el) s = .ok (u, s')) :
    AdjD s'.dom s.openElems ∧ AdjD s'.dom (s.openElems ++ [el]) := by
  obtain ⟨hadj, P, a, b, hP, hP', hQ, hdata, hcn, hpos⟩ := insertAt_node_adj hl hip h hcO hcp hct hcand e
  refine ⟨hadj, ?_⟩
  have hela : el ∉ a := fun hm => hcn P (by rw [hP]; exact List.mem_append_left _ hm)
  have helb : el ∉ b := fun hm => hcn P (by rw [hP]; exact List.mem_append_right _ hm)
  have hPel : P ≠ el := hpos.ne hkids hcand
  refine hadj.push_inserted hP' hela helb (fun Q hQP => by rw [hQ Q hQP]; exact hcn Q) ?_ ?_ ?_ ?_
  · cases hpos with
    | last hb _ => rw [hb]; rfl
    | before e' p b' hip' _ _ hb =>
      rw [hb]
      show s'.dom.isText e' = false
      rw [isText_of_data (hdata e')]
      rw [hip'] at hip
      exact isText_false_of_isElement hip.1
  · rw [hQ el (Ne.symm hPel)]; exact hkids
  · intro tc htc'
    rw [tc_of_data (hdata el)] at htc'
    obtain ⟨h1, h2⟩ := htc tc htc'
    have : P ≠ tc := hpos.ne h1 h2
    rw [hQ tc (Ne.symm this)]; exact h1
  · intro _ x hxa hxO hxx
    rw [nm_of_data (hdata x)] at hxx
    exact hTB P a b x hP hpos hxa hxO hxx


/-- `add_attrs_if_missing` changes the attribute list of one element only -/
theorem addAttrs_adj {d d' : Dom} {O : List Id} {t : Id} {attrs : List Attr} (h : AdjD d O)
    (e : d.addAttrsIfMissing t attrs = .ok d') : AdjD d' O := by
  obtain ⟨name, ex, tc, ip, hdt, hsh, hd, _⟩ := addAttrsIfMissing_ok e
  have hdat : ∀ x, x ≠ t → d'.dataOf x = d.dataOf x := fun x hx => by rw [hd]; simp [hx]
  refine h.congr hsh.children (fun _ x _ => hsh.parent x) (fun _ x _ => ?_) (fun x _ => ?_) (fun x _ => ?_)
  · by_cases hx : x = t
    · subst hx; unfold Dom.isText; rw [hd, hdt]; simp
    · exact isText_of_data (hdat x hx)
  · by_cases hx : x = t
    · subst hx; unfold nm; rw [hd, hdt]; simp
    · exact nm_of_data (hdat x hx)
  · by_cases hx : x = t
    · subst hx; unfold Dom.templateContentsOf; rw [hd, hdt]; simp
    · exact tc_of_data (hdat x hx)

end H5V.Props.C06
