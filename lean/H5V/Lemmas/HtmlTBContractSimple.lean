import H5V.Lemmas.HtmlTBContractRules1
/-!
# TreeSink contract for the HTML tree builder, part 8: the small insertion modes

`RS d0 tok (stepX tok)` for BeforeHtml, BeforeHead, InHeadNoscript, Text, InTemplate, AfterBody, InFrameset,
AfterFrameset, AfterAfterBody, AfterAfterFrameset, and `inTemplateEof`, against the delegation hypotheses
`HeadH`, `BodyH`.  (AfterHead is in `HtmlTBContractAfterHead`.)
-/
namespace H5V.Lemmas.TBC
open H5V.Model.HtmlTB
open H5V.Model.Dom (Id Dom Attr)
open H5V.Lemmas.TBSafe (Ext)
variable {d0 : Dom}

set_option maxHeartbeats 800000 in
theorem rs_stepBeforeHtml : ∀ tok, TokOk tok → RS d0 tok (stepBeforeHtml tok) := by
  unfold H5V.Model.HtmlTB.stepBeforeHtml
  rs_open

/-- the head element pointer is set to a freshly inserted element named `head` (`TcDoc` holds of it
vacuously) -/
theorem cpp_insertHead_bind {c : List Id} {β : Type} {name : Str} {attrs : List Attr} {hadDup : Bool}
    (ha : Dom.attrKeysNodup attrs = true) (hn : name = "head".toList) {f : Unit → M β} {R : β → List Id}
    {P : β → Prop} (hk : CPP d0 c (f ()) R P) :
    CPP d0 c (insertElement true nsHtml name attrs hadDup >>= fun h =>
      (modS fun s => { s with headElem := some h }) >>= f) R P := by
  intro s hcb hc
  refine (satc_insertElement_val hcb ha).bind ?_
  rintro r s1 ⟨hcb1, g1, hel, hnm⟩
  refine satc_modS_bind ?_
  have hcb2 : CB d0 { s1 with headElem := some r } :=
    ⟨⟨hcb1.d.inv, hcb1.d.run⟩, ⟨hcb1.h.docH, hcb1.h.doc0, hcb1.h.open_el, hcb1.h.open_tc, hcb1.h.af,
      (fun x hx => by have : r = x := Option.some.inj hx; subst this; exact hel), hcb1.h.form, hcb1.h.ctx,
      (fun x hx => by
        have : r = x := Option.some.inj hx
        subst this
        intro e
        rw [hnm, hn] at e
        exact absurd e (by decide))⟩, ⟨hcb1.l.mode, hcb1.l.orig, hcb1.l.tm⟩⟩
  have g2 : GrowRel s1 { s1 with headElem := some r } := GrowRel.of_sublist rfl (List.Sublist.refl _)
  refine (hk _ hcb2 (hc.ext (g1.trans g2).ext)).mono ?_
  rintro b s3 ⟨hcb3, g3, hr3, hp⟩
  exact ⟨hcb3, (g1.trans g2).trans g3, hr3, hp⟩

theorem name_of_isStart_head {tag : Tag} (h : tag.isStart ["head"] = true) : tag.name = "head".toList := by
  unfold Tag.isStart isOneOf at h
  simp only [Bool.and_eq_true, List.any_cons, List.any_nil, Bool.or_false] at h
  exact (eq_of_beq h.2).symm

/-- BeforeHead, "anything else" -/
theorem cpsp_beforeHead_else {c : List Id} (tok : Token) :
    CPSP d0 c (do
      let h ← insertPhantom "head"
      modS fun s => { s with headElem := some h }
      pure (ProcessResult.reprocess Mode.inHead tok)) (fun _ => []) (ResLate tok) := by
  unfold insertPhantom
  exact cpsp_of_cpp (cpp_insertHead_bind rfl rfl (cpp_pure_nil _ (resLate_rep (by decide))))

set_option maxHeartbeats 800000 in
theorem rs_stepBeforeHead (hB : BodyH d0) : ∀ tok, TokOk tok → RS d0 tok (stepBeforeHead tok) := by
  unfold H5V.Model.HtmlTB.stepBeforeHead
  intro tok ht
  unfold RS
  cases tok with
  | chars st text =>
    cases st with
    | notSplit => dsimp only; rs_walk
    | whitespace => dsimp only; rs_walk
    | notWhitespace => exact cpsp_beforeHead_else _
  | comment t => dsimp only; rs_walk
  | nullChar => exact cpsp_beforeHead_else _
  | eof => exact cpsp_beforeHead_else _
  | tag tag =>
    have ha : AttrsOk tag.attrs := ht
    dsimp only
    refine cpsp_ite (fun _ => BodyH.cpsp hB ht) (fun _ => ?_)
    refine cpsp_ite (fun h2 => ?_) (fun _ => ?_)
    · unfold insertElementFor
      refine cpsp_of_cpp (cpp_insertHead_bind (attrKeysNodup_of_attrsOk ha) (name_of_isStart_head h2) ?_)
      rs_walk
    refine cpsp_ite (fun _ => cpsp_beforeHead_else _) (fun _ => ?_)
    refine cpsp_ite (fun _ => ?_) (fun _ => cpsp_beforeHead_else _)
    rs_walk

set_option maxHeartbeats 800000 in
theorem rs_stepInHeadNoscript (hH : HeadH d0) (hB : BodyH d0) : ∀ tok, TokOk tok → RS d0 tok (stepInHeadNoscript tok) := by
  unfold H5V.Model.HtmlTB.stepInHeadNoscript
  rs_open

set_option maxHeartbeats 800000 in
theorem rs_stepAfterBody (hB : BodyH d0) : ∀ tok, TokOk tok → RS d0 tok (stepAfterBody tok) := by
  unfold H5V.Model.HtmlTB.stepAfterBody
  rs_open

set_option maxHeartbeats 800000 in
theorem rs_stepInFrameset (hH : HeadH d0) (hB : BodyH d0) : ∀ tok, TokOk tok → RS d0 tok (stepInFrameset tok) := by
  unfold H5V.Model.HtmlTB.stepInFrameset
  rs_open

set_option maxHeartbeats 800000 in
theorem rs_stepAfterFrameset (hH : HeadH d0) (hB : BodyH d0) : ∀ tok, TokOk tok → RS d0 tok (stepAfterFrameset tok) := by
  unfold H5V.Model.HtmlTB.stepAfterFrameset
  rs_open

set_option maxHeartbeats 800000 in
theorem rs_stepAfterAfterBody (hB : BodyH d0) : ∀ tok, TokOk tok → RS d0 tok (stepAfterAfterBody tok) := by
  unfold H5V.Model.HtmlTB.stepAfterAfterBody
  rs_open

set_option maxHeartbeats 800000 in
theorem rs_stepAfterAfterFrameset (hH : HeadH d0) (hB : BodyH d0) :
    ∀ tok, TokOk tok → RS d0 tok (stepAfterAfterFrameset tok) := by
  unfold H5V.Model.HtmlTB.stepAfterAfterFrameset
  rs_open

set_option maxHeartbeats 800000 in
theorem rs_stepText : ∀ tok, TokOk tok → RS d0 tok (stepText tok) := by
  unfold H5V.Model.HtmlTB.stepText
  intro tok ht
  unfold RS
  cases tok with
  | chars st text => dsimp only; rs_walk
  | comment t => dsimp only; rs_walk
  | nullChar => dsimp only; rs_walk
  | eof =>
    dsimp only
    have htail : ∀ c, CPSP d0 c (do
        let _ ← pop
        let s ← getS
        match s.origMode with
        | none => panicAt "unwrap-none" "rules.rs:1023" "orig_mode.take().unwrap()"
        | some m =>
          set { s with origMode := none }
          pure (ProcessResult.reprocess m Token.eof)) (fun _ => []) (ResLate Token.eof) := by
      intro c
      refine cpsp_bind_cp cp_pop (fun _ => ?_)
      exact cpsp_origReprocess (by decide)
    refine cpsp_bind_cp cp_unexpected (fun _ => ?_)
    refine cpsp_bind_cp cp_currentNodeNamed (fun b => ?_)
    refine cpsp_ite (fun _ => ?_) (fun _ => htail _)
    refine cpsp_getS_bind (fun s0 => ?_)
    cases hl : s0.openElems.getLast? with
    | none =>
      dsimp only
      intro s hcb hsa hc
      exact SatC.bind (Q := fun _ _ => False) (satc_panicAt (by decide)) (fun _ _ h => h.elim)
    | some cur =>
      dsimp only
      simp only [pure_bind]
      have hmem : cur ∈ s0.openElems := List.mem_of_getLast? hl
      refine cpsp_bind_cp (R := fun _ => []) ?_ (fun _ => htail _)
      refine cp_sinkUnit_nt rfl (fun s hcb hc => ?_)
      exact isElement_of_isEl (hc cur (by simp [stH, hmem]))
  | tag tag =>
    dsimp only
    refine cpsp_ite (fun _ => ?_) (fun _ => cpsp_panicAt)
    refine cpsp_bind_cp cp_pop (fun node => ?_)
    refine cpsp_getS_bind_at (fun s0 => ?_)
    intro hcb hsa hc
    cases hm : s0.origMode with
    | none => exact satc_panicAt (by decide)
    | some m =>
      dsimp only
      refine cpspat_set_bind (fun h1 h2 => cb_takeOrig (orig_late hcb hm) h1 h2) ?_ hcb hsa hc
      refine cpsp_ite (fun _ => cpsp_pure_nil _ trivial) (fun _ => cpsp_pure_nil _ trivial)

set_option maxHeartbeats 800000 in
theorem rs_inTemplateEof : RS d0 .eof inTemplateEof := by
  unfold H5V.Model.HtmlTB.inTemplateEof RS
  rs_walk

macro_rules | `(tactic| rs_leaf) => `(tactic| exact cpsp_of_rs rs_inTemplateEof)

set_option maxHeartbeats 800000 in
theorem rs_stepInTemplate (hH : HeadH d0) (hB : BodyH d0) : ∀ tok, TokOk tok → RS d0 tok (stepInTemplate tok) := by
  unfold H5V.Model.HtmlTB.stepInTemplate
  rs_open

end H5V.Lemmas.TBC
