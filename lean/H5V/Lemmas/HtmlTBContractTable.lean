import H5V.Lemmas.HtmlTBContractRules1
/-!
# TreeSink contract for the HTML tree builder, part 9: the table insertion modes

`RS d0 tok (stepX tok)` for InTable, InTableText, InCaption, InColumnGroup, InTableBody, InRow, InCell, with the
helpers `fosterParentInBody`, `processCharsInTable`, `flushPendingFoster`, `flushPendingPlain`, `popTr`, against
the delegation hypotheses `HeadH`, `BodyH`, `TableH`; `tableH` discharges `TableH` from `HeadH`, `BodyH`.
-/
namespace H5V.Lemmas.TBC
open H5V.Model.HtmlTB
open H5V.Model.Dom (Id Dom)
open H5V.Lemmas.TBSafe (Ext)
variable {d0 : Dom}

/-! ### `foster_parent_in_body` -/

theorem cpsp_fosterParentInBody (hB : BodyH d0) {c : List Id} {tok : Token} (ht : TokOk tok) :
    CPSP d0 c (fosterParentInBody tok) (fun _ => []) (ResLate tok) := by
  unfold H5V.Model.HtmlTB.fosterParentInBody
  refine cpsp_bind_cp cp_modS_foster (fun _ => ?_)
  refine cpsp_bind' (BodyH.cpsp hB ht) (fun res hres => ?_)
  refine cpsp_bind_cp cp_modS_foster (fun _ => ?_)
  exact cpsp_pure_nil _ hres

theorem rs_fosterParentInBody (hB : BodyH d0) : ∀ tok, TokOk tok → RS d0 tok (fosterParentInBody tok) :=
  fun _ ht => cpsp_fosterParentInBody hB ht

macro_rules | `(tactic| rs_leaf) => `(tactic| exact cpsp_fosterParentInBody (by assumption) (by assumption))

/-! ### `process_chars_in_table` -/

set_option maxHeartbeats 800000 in
theorem cpsp_processCharsInTable (hB : BodyH d0) {c : List Id} {tok : Token} (ht : TokOk tok) :
    CPSP d0 c (processCharsInTable tok) (fun _ => []) (ResLate tok) := by
  unfold H5V.Model.HtmlTB.processCharsInTable
  rs_walk

theorem rs_processCharsInTable (hB : BodyH d0) : ∀ tok, TokOk tok → RS d0 tok (processCharsInTable tok) :=
  fun _ ht => cpsp_processCharsInTable hB ht

macro_rules | `(tactic| rs_leaf) => `(tactic| exact cpsp_processCharsInTable (by assumption) (by assumption))

/-! ### InTable -/

set_option maxHeartbeats 1600000 in
theorem rs_stepInTable (hH : HeadH d0) (hB : BodyH d0) : ∀ tok, TokOk tok → RS d0 tok (stepInTable tok) := by
  unfold H5V.Model.HtmlTB.stepInTable
  rs_open

theorem tableH (hH : HeadH d0) (hB : BodyH d0) : TableH d0 := rs_stepInTable hH hB

/-! ### the pending table text -/

theorem cps_flushPendingFoster (hB : BodyH d0) :
    ∀ (l : List (SplitStatus × Str)) (c : List Id), CPS d0 c (flushPendingFoster l) (fun _ => [])
  | [], c => by
    unfold H5V.Model.HtmlTB.flushPendingFoster
    exact cp_toCPS (cp_pure_nil _)
  | (split, text) :: rest, c => by
    unfold H5V.Model.HtmlTB.flushPendingFoster
    refine cps_of_cpsp (P := fun _ => True) ?_
    refine cpsp_bind' (cpsp_fosterParentInBody hB (tok := .chars split text) trivial) (fun res _ => ?_)
    cases res <;> dsimp only <;>
      first
        | exact cpsp_panicAt
        | exact cpsp_of_cps (cps_flushPendingFoster hB rest _)

theorem cp_flushPendingPlain : ∀ (l : List (SplitStatus × Str)) (c : List Id), CP d0 c (flushPendingPlain l) (fun _ => [])
  | [], c => by
    unfold H5V.Model.HtmlTB.flushPendingPlain
    exact cp_pure_nil _
  | (_, text) :: rest, c => by
    unfold H5V.Model.HtmlTB.flushPendingPlain
    exact cp_bind cp_appendText (fun _ => cp_flushPendingPlain rest _)

macro_rules | `(tactic| cp_leaf) => `(tactic| with_reducible exact cp_flushPendingPlain _ _)

/-! ### InTableText -/

set_option maxHeartbeats 800000 in
theorem rs_stepInTableText (hB : BodyH d0) : ∀ tok, TokOk tok → RS d0 tok (stepInTableText tok) := by
  unfold H5V.Model.HtmlTB.stepInTableText
  intro tok ht
  unfold RS
  cases tok with
  | chars st text => dsimp only; rs_walk
  | nullChar => dsimp only; rs_walk
  | _ =>
    -- `pending` is a pure value read from the state; the continuation (`orig_mode.take()`) is duplicated
    -- into both branches of the `if`
    dsimp only
    refine cpsp_getS_bind (fun s0 => ?_)
    refine cpsp_bind_cp cp_modS_pendingClear (fun _ => ?_)
    refine cpsp_ite (fun _ => ?_) (fun _ => ?_)
    · refine cpsp_bind_cp cp_parseError (fun _ => ?_)
      refine cpsp_bind (cps_flushPendingFoster hB _ _) (fun _ => ?_)
      exact cpsp_origReprocess (by decide)
    · refine cpsp_bind_cp (cp_flushPendingPlain _ _) (fun _ => ?_)
      exact cpsp_origReprocess (by decide)

/-! ### InCaption, InColumnGroup, InTableBody -/

set_option maxHeartbeats 800000 in
theorem rs_stepInCaption (hB : BodyH d0) : ∀ tok, TokOk tok → RS d0 tok (stepInCaption tok) := by
  unfold H5V.Model.HtmlTB.stepInCaption
  rs_open

set_option maxHeartbeats 800000 in
theorem rs_stepInColumnGroup (hH : HeadH d0) (hB : BodyH d0) :
    ∀ tok, TokOk tok → RS d0 tok (stepInColumnGroup tok) := by
  unfold H5V.Model.HtmlTB.stepInColumnGroup
  rs_open

set_option maxHeartbeats 800000 in
theorem rs_stepInTableBody (hT : TableH d0) : ∀ tok, TokOk tok → RS d0 tok (stepInTableBody tok) := by
  unfold H5V.Model.HtmlTB.stepInTableBody
  rs_open

/-! ### InRow, InCell -/

/-- `let node = self.pop(); self.assert_named(&node, "tr")` at the only site used by the rules -/
theorem cp_popTr637 {c : List Id} : CP d0 c (popTr "mod.rs:637") (fun _ => []) := by
  unfold H5V.Model.HtmlTB.popTr
  cp_walk

macro_rules | `(tactic| cp_leaf) => `(tactic| with_reducible exact cp_popTr637)

set_option maxHeartbeats 800000 in
theorem rs_stepInRow (hT : TableH d0) : ∀ tok, TokOk tok → RS d0 tok (stepInRow tok) := by
  unfold H5V.Model.HtmlTB.stepInRow
  rs_open

set_option maxHeartbeats 800000 in
theorem rs_stepInCell (hB : BodyH d0) : ∀ tok, TokOk tok → RS d0 tok (stepInCell tok) := by
  unfold H5V.Model.HtmlTB.stepInCell
  rs_open

end H5V.Lemmas.TBC
