import H5V.Lemmas.HtmlTBSafeBase
/-!
# Tree-builder safety, part 13: the benign failures are none of the panic messages

`tbPanicMessages` lists the message of every `panicAt` site of the tree-builder model
(`grep panicAt H5V/Model/HtmlTB/*.lean`; the sites that take their location as a parameter —
`afRemove`, `contextIsSelect`, `popTr` — once per call site), `tbFuelMessages` the `fuelOut` messages of
the helper loops, `tbModelMessages` the three "sink answered with the wrong shape" messages.
`benign_not_listed`: a `Benign` failure is none of them — except the `unreachable!` of the Text
insertion mode (`textProtoMsg`), which is the one panic site of the tree builder that an arbitrary
token sequence CAN reach (it takes a token source that violates the tokenizer protocol), and the fuel
of `process_to_completion` (`ptcFuelMsg`, not in the lists).
-/
namespace H5V.Lemmas.TBSafe
open H5V.Model.HtmlTB

variable {al : Allow}

/-- the message `panicAt cls site text` throws -/
def panicMsg (cls site text : String) : String := cls ++ "@" ++ site ++ ": " ++ text

theorem panicAt_eq {α : Type} (cls site text : String) :
    (panicAt cls site text : M α) = throw (panicMsg cls site text) := rfl

def tbPanicMessages : List String := [
  panicMsg "no-current-element" "mod.rs:687" "expect(\"no current element\")",
  panicMsg "index-oob" "mod.rs:1041" "elems[0]",
  panicMsg "index-oob" "mod.rs:561" "open_elems[0]",
  panicMsg "no-current-element" "mod.rs:934" "expect(\"no current element\")",
  panicMsg "unwrap-none" "mod.rs:446" "iter.peek().unwrap()",
  panicMsg "unwrap-none" "mod.rs:1401" "form_elem unwrap",
  panicMsg "remove-oob" "mod.rs:1530" "Vec::remove",
  panicMsg "remove-oob" "mod.rs:817" "Vec::remove",
  panicMsg "remove-oob" "mod.rs:754" "Vec::remove",
  panicMsg "remove-oob" "mod.rs:784" "Vec::remove",
  panicMsg "remove-oob" "mod.rs:905" "Vec::remove",
  panicMsg "remove-oob" "mod.rs:1602" "Vec::remove",
  panicMsg "index-oob" "mod.rs:1000" "active_formatting[entry_index]",
  panicMsg "marker-in-reconstruct" "mod.rs:1012" "Found marker during formatting element reconstruction",
  panicMsg "index-oob" "mod.rs:1009" "active_formatting[entry_index]",
  panicMsg "index-oob" "mod.rs:1027" "active_formatting[entry_index] =",
  panicMsg "sub-overflow" "mod.rs:1032" "len() - 1",
  panicMsg "matches-no-index" "mod.rs:1532" "expect(\"matches with no index\")",
  panicMsg "sub-overflow" "mod.rs:1582" "open_elems.len() - 1",
  panicMsg "sub-overflow" "mod.rs:806" "node_index -= 1",
  panicMsg "index-oob" "mod.rs:807" "open_elems[node_index]",
  panicMsg "assert" "mod.rs:831" "assert!(self.sink.same_node(h, &node))",
  panicMsg "marker-in-aa" "mod.rs:834" "Found marker during adoption agency",
  panicMsg "index-oob" "mod.rs:829" "active_formatting[node_formatting_index]",
  panicMsg "sub-overflow" "mod.rs:789" "fmt_elem_stack_index - 1",
  panicMsg "index-oob" "mod.rs:789" "open_elems[fmt_elem_stack_index - 1]",
  panicMsg "bookmark-missing" "mod.rs:893" "bookmark not found in active formatting elements",
  panicMsg "bookmark-missing" "mod.rs:899" "bookmark not found in active formatting elements",
  panicMsg "fmt-missing" "mod.rs:904" "formatting element not found in active formatting elements",
  panicMsg "fb-missing" "mod.rs:916" "furthest block missing from open element stack",
  panicMsg "unwrap-none" "mod.rs:1294" "template_modes.last().unwrap()",
  panicMsg "unwrap-none" "rules.rs:276" "open_elems.last().unwrap()",
  panicMsg "unwrap-none" "rules.rs:278" "context_elem unwrap",
  panicMsg "unwrap-none" "rules.rs:823" "context_elem unwrap",
  panicMsg "unwrap-none" "rules.rs:903" "context_elem unwrap",
  panicMsg "no-head-element" "rules.rs:399" "expect(\"no head element\")",
  panicMsg "no-current-element" "rules.rs:34" "expect(\"no current element\")",
  panicMsg "unwrap-none" "rules.rs:1023" "orig_mode.take().unwrap()",
  panicMsg "unwrap-none" "rules.rs:1028" "orig_mode.take().unwrap()",
  panicMsg "assert" "mod.rs:1250" "assert!(self.pending_table_text.borrow().is_empty())",
  panicMsg "not-prepared" "rules.rs:1163" "not prepared to handle this!",
  panicMsg "unwrap-none" "rules.rs:1172" "orig_mode.take().unwrap()",
  panicMsg "assert" "mod.rs:637" "assert!(self.html_elem_named(node, name))",
  panicMsg "index-oob" "rules.rs:1669" "open_elems[stack_idx]",
  panicMsg "eof-foreign" "rules.rs:1692" "impossible case in foreign content",
  panicMsg "sub-overflow" "rules.rs:1659" "open_elems.len() - 1",
  panicMsg "assert" "mod.rs:393" "assert!(more_tokens.is_empty())",
  panicMsg "assert" "mod.rs:397" "assert!(more_tokens.is_empty())",
  panicMsg "assert" "mod.rs:401" "assert!(more_tokens.is_empty())"]

/-- `fuelOut` messages of the helper loops (`process_to_completion`'s is `ptcFuelMsg`) -/
def tbFuelMessages : List String := [
  "model-fuel@model: generate_implied_end_tags",
  "model-fuel@model: pop_until_current",
  "model-fuel@model: pop_until",
  "model-fuel@model: reconstruct_active_formatting_elements",
  "model-fuel@model: unexpected_start_tag_in_foreign_content"]

/-- a sink answer of the wrong shape -/
def tbModelMessages : List String := [
  "model-sink-output@model: node expected",
  "model-sink-output@model: bool expected",
  "model-sink-output@model: name expected"]

/-! ### a boolean over-approximation of `Benign` -/

def infixL (p : List Char) : List Char → Bool
  | [] => p.isEmpty
  | c :: t => p.isPrefixOf (c :: t) || infixL p t

theorem isPrefixOf_append (p b : List Char) : p.isPrefixOf (p ++ b) = true := by
  induction p with
  | nil => simp
  | cons c t ih => simp [ih]

theorem infixL_append (p : List Char) : ∀ (a b : List Char), infixL p (a ++ (p ++ b)) = true := by
  intro a
  induction a with
  | nil =>
    intro b
    cases hp : p ++ b with
    | nil =>
      have : p = [] := (List.append_eq_nil_iff.mp hp).1
      simp [infixL, this]
    | cons c t =>
      simp only [List.nil_append, infixL, Bool.or_eq_true]
      left; rw [← hp]; exact isPrefixOf_append p b
  | cons c t ih =>
    intro b
    simp only [List.cons_append, infixL, Bool.or_eq_true]
    right; exact ih b

def benignB (e : String) : Bool :=
  infixL "@sink: ".toList e.toList || e == ptcFuelMsg || e == textProtoMsg ||
  "meta-extract@encoding.rs: ".toList.isPrefixOf e.toList ||
  e == "subtendril-utf8@encoding.rs: subtendril is not valid UTF-8"

theorem benign_benignB {e : String} (h : Benign e) : benignB e = true := by
  cases h with
  | sinkMut d op x _ _ =>
    unfold benignB
    have : infixL "@sink: ".toList (errClass x ++ "@sink: " ++ x).toList = true := by
      rw [String.toList_append, String.toList_append, List.append_assoc]
      exact infixL_append _ _ _
    rw [this]; rfl
  | ptcFuel => simp [benignB]
  | textProto => simp [benignB]
  | metaExtract m =>
    unfold benignB
    have : "meta-extract@encoding.rs: ".toList.isPrefixOf ("meta-extract@encoding.rs: " ++ m).toList = true := by
      rw [String.toList_append]; exact isPrefixOf_append _ _
    simp only [this, Bool.or_true, Bool.true_or]
  | metaUtf8 => simp [benignB]

theorem panic_not_benignB_1 : (tbPanicMessages.take 17).all (fun m => !benignB m) = true := by decide
theorem panic_not_benignB_2 : ((tbPanicMessages.drop 17).take 16).all (fun m => !benignB m) = true := by decide
theorem panic_not_benignB_3 : (tbPanicMessages.drop 33).all (fun m => !benignB m) = true := by decide
theorem fuel_not_benignB : (tbFuelMessages ++ tbModelMessages).all (fun m => !benignB m) = true := by decide

/-- **a benign failure is none of the listed panic / helper-fuel / model messages** -/
theorem benign_not_listed {e : String} (h : Benign e) :
    e ∉ tbPanicMessages ∧ e ∉ tbFuelMessages ∧ e ∉ tbModelMessages := by
  have hb := benign_benignB h
  have key : ∀ (l : List String), l.all (fun m => !benignB m) = true → e ∉ l := by
    intro l hl hm
    have := List.all_eq_true.mp hl e hm
    rw [hb] at this; cases this
  have hsplit : tbPanicMessages = tbPanicMessages.take 17 ++ ((tbPanicMessages.drop 17).take 16 ++ tbPanicMessages.drop 33) := by
    rfl
  refine ⟨?_, ?_, ?_⟩
  · rw [hsplit]
    intro hm
    rcases List.mem_append.mp hm with h1 | h1
    · exact key _ panic_not_benignB_1 h1
    · rcases List.mem_append.mp h1 with h2 | h2
      · exact key _ panic_not_benignB_2 h2
      · exact key _ panic_not_benignB_3 h2
  · intro hm
    exact key _ fuel_not_benignB (List.mem_append_left _ hm)
  · intro hm
    exact key _ fuel_not_benignB (List.mem_append_right _ hm)

/-- a benign failure with the message `t` (not a sink / meta message) is one of the two
context-dependent ones, and then it is tolerated -/
theorem benign_eq_cases {t : String} (hs : infixL "@sink: ".toList t.toList = false)
    (hm : "meta-extract@encoding.rs: ".toList.isPrefixOf t.toList = false)
    (hu : t ≠ "subtendril-utf8@encoding.rs: subtendril is not valid UTF-8") {e : String} (h : Benign e)
    (he : e = t) : (t = ptcFuelMsg ∧ al.fuel) ∨ (t = textProtoMsg ∧ al.text) := by
  cases h with
  | sinkMut d op x _ _ =>
    exfalso
    have : infixL "@sink: ".toList (errClass x ++ "@sink: " ++ x).toList = true := by
      rw [String.toList_append, String.toList_append, List.append_assoc]
      exact infixL_append _ _ _
    rw [he, hs] at this; cases this
  | ptcFuel ha => exact Or.inl ⟨he.symm, ha⟩
  | textProto ha => exact Or.inr ⟨he.symm, ha⟩
  | metaExtract m =>
    exfalso
    have : "meta-extract@encoding.rs: ".toList.isPrefixOf ("meta-extract@encoding.rs: " ++ m).toList = true := by
      rw [String.toList_append]; exact isPrefixOf_append _ _
    rw [he, hm] at this; cases this
  | metaUtf8 => exact absurd he.symm hu

/-- when the Text-mode `unreachable!` is not tolerated, no benign failure is it -/
theorem benign_ne_textProto (hna : ¬ al.text) {e : String} (h : Benign e) : e ≠ textProtoMsg := by
  intro he
  rcases benign_eq_cases (t := textProtoMsg) (by decide) (by decide) (by decide) h he with ⟨h1, _⟩ | ⟨_, h2⟩
  · exact absurd h1 (by decide)
  · exact hna h2

/-- when running out of the fuel of `process_to_completion` is not tolerated, no benign failure is it -/
theorem benign_ne_ptcFuel (hna : ¬ al.fuel) {e : String} (h : Benign e) : e ≠ ptcFuelMsg := by
  intro he
  rcases benign_eq_cases (t := ptcFuelMsg) (by decide) (by decide) (by decide) h he with ⟨_, h2⟩ | ⟨h1, _⟩
  · exact hna h2
  · exact absurd h1 (by decide)

/-- the one message of a tree-builder panic site that IS benign -/
theorem textProtoMsg_eq : textProtoMsg = panicMsg "unreachable" "rules.rs:1037" "impossible case in Text mode" := by
  decide

end H5V.Lemmas.TBSafe
