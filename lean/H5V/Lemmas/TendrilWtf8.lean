import H5V.Lemmas.TendrilUtf8
/-!
Format-level facts about the model of `tendril::fmt::WTF8` (`Format.wtf8`).

Proved here (for all inputs):
* `wtf8_valid_nil`, `wtf8_not_noFixup`, `not_laws_wtf8` — WTF-8 has a real fix-up, so it is not a
  `H5V.Props.C11.Laws` format;
* `wtf8_fixup_ok` — the fix-up never reaches outside its operands;
* `wtf8Validate_iff : wtf8Validate l = true ↔ VW false l` — `WTF8::validate` accepts exactly the
  sequences of WTF-8 characters (`IsChar` of Table 3-7, `Lead` = `ED A0..AF xx`, `Trail` =
  `ED B0..BF xx`) in which no lead surrogate is directly followed by a trail surrogate; on the way
  `stepAt_shift` (one loop iteration at index `i` only depends on `buf.drop i`; this is where the
  `cp.start ≠ i` guard is used), `step_char` / `step_lead` / `step_trail` / `step_inv`;
* `wtf8_suffix_exact` — `validate_suffix` is exact inside a valid string; `wtf8_not_cont`;
* `wtf8_of_utf8`, `wtf8_append_utf8`, `wtf8_join_encode` (the `expect` of `WTF8::fixup` cannot fail).

* `wtf8_prefix_exact`, `wtf8_subseq_exact` — `validate_prefix` / `validate_subseq` are exact inside a
  valid string (`classify_last`: `classify` at the last byte of `a0 ++ d` is `classify d 0` moved by
  `a0.length`; `VW.cut_left`, `VW.cancel`, `wchar_unique`, `wchar_proper`);
* `wtf8_fixup_trivial : wtf8Validate (a ++ b) = true → wtf8Fixup a b = {}`;
* `wtf8_push_valid : wtf8Validate a = true → wtf8Validate b = true →
     wtf8Validate (pushSpec Format.wtf8 a b) = true` (`fixup_join`, `VW.snoc`, `VW.append_true`,
  `VW.append_valid_mid`).

All target statements of the work item are proved.
-/
namespace H5V.Lemmas.Tendril.Wtf8
open H5V.Model.Tendril H5V.Props.C11 H5V.Lemmas.Tendril H5V.Lemmas.Tendril.Utf8

set_option linter.unusedSimpArgs false

/-! ## 1. the empty string; WTF-8 is not a `Laws` format (it has a real fix-up) -/

theorem wtf8_valid_nil : wtf8Validate [] = true := rfl

theorem wtf8_not_noFixup : ¬ (∀ a b, Format.wtf8.fixup a b = {}) := by
  intro h
  have := h [0xED, 0xA0, 0x80] [0xED, 0xB0, 0x80]
  revert this
  decide

theorem not_laws_wtf8 : ¬ Laws Format.wtf8 := fun L => wtf8_not_noFixup L.noFixup

/-! ## 2. the fix-up stays inside its operands -/

theorem wtf8_fixup_ok (a b : List UInt8) :
    (wtf8Fixup a b).dropLeft ≤ a.length ∧ (wtf8Fixup a b).dropRight ≤ b.length := by
  unfold wtf8Fixup
  split
  · rename_i h
    split
    · simp only []
      split
      · exact ⟨h.1, h.2⟩
      · exact ⟨Nat.zero_le _, Nat.zero_le _⟩
    · exact ⟨Nat.zero_le _, Nat.zero_le _⟩
  · exact ⟨Nat.zero_le _, Nat.zero_le _⟩

/-! ## non-vacuity -/

example : wtf8Validate [0xED, 0xA0, 0x80] = true := by decide
example : wtf8Validate [0xED, 0xB0, 0x80, 0xED, 0xA0, 0x80] = true := by decide
example : wtf8Validate [0xED, 0xA0, 0x80, 0xED, 0xB0, 0x80] = false := by decide
example : wtf8Validate [0xC2, 0x80, 0x80] = false := by decide
example : wtf8Validate [0x80] = false := by decide
example : pushSpec Format.wtf8 [0xED, 0xA0, 0xBD] [0xED, 0xB8, 0x80] = [0xF0, 0x9F, 0x98, 0x80] := by
  decide

/-! ## 3. one step of the validation loop, relative to the remaining suffix -/

/-- what one iteration of the loop of `WTF8::validate` at index `i` learns: the length and the
meaning of the character starting exactly at `i` -/
def stepAt (buf : List UInt8) (i : Nat) : Option (Nat × Meaning) :=
  match classify buf i with
  | none => none
  | some cp => if cp.start ≠ i then none else if !wtf8Meaningful cp.meaning then none
    else some (cp.len, cp.meaning)

theorem fuel_succ (f : Nat) (buf : List UInt8) (i : Nat) (p : Bool) :
    wtf8ValidateFuel (f + 1) buf i p =
      if i ≥ buf.length then true
      else match stepAt buf i with
        | none => false
        | some (k, .trail _) => if p then false else wtf8ValidateFuel f buf (i + k) false
        | some (k, .lead _) => wtf8ValidateFuel f buf (i + k) true
        | some (k, _) => wtf8ValidateFuel f buf (i + k) false := by
  rw [wtf8ValidateFuel]
  split
  · rfl
  · unfold stepAt
    cases classify buf i with
    | none => rfl
    | some cp =>
      obtain ⟨s, l, m⟩ := cp
      simp only
      by_cases hs : s = i
      · simp only [hs, ne_eq, not_true_eq_false, if_false]
        cases m <;> simp [wtf8Meaningful]
      · simp only [ne_eq, hs, not_false_eq_true, if_true]

theorem classifyAt_start {buf : List UInt8} {s n k : Nat} {cp : Codepoint}
    (h : classifyAt buf s n k = some cp) : cp.start = s := by
  unfold classifyAt at h
  simp only at h
  split at h
  · split at h
    · rw [Option.map_eq_some_iff] at h
      obtain ⟨m, _, rfl⟩ := h; rfl
    · cases h
  · cases h; rfl

theorem back_start {buf : List UInt8} {idx : Nat} : ∀ (s : Nat) {cp : Codepoint},
    classifyBack buf idx s = some cp → cp.start < s ∨ cp.meaning = .sfx := by
  intro s
  induction s with
  | zero => intro cp h; simp only [classifyBack, Option.some.injEq] at h; subst h; exact .inr rfl
  | succ s ih =>
    intro cp h
    unfold classifyBack at h
    split at h
    · cases h
    · split at h
      · split at h
        · cases h
        · rcases ih h with h1 | h1
          · exact .inl (by omega)
          · exact .inr h1
      · have := classifyAt_start h; exact .inl (by omega)
      · cases h

/-- `classifyAt` only looks at the bytes from `start` on -/
theorem classifyAt_shift (a0 l : List UInt8) (n k : Nat) :
    classifyAt (a0 ++ l) a0.length n k =
      (classifyAt l 0 n k).map (fun cp => ⟨a0.length + cp.start, cp.len, cp.meaning⟩) := by
  unfold classifyAt
  simp only [List.length_append, Nat.add_sub_cancel_left, List.drop_left, Nat.sub_zero, List.drop_zero]
  split
  · split
    · cases decode (List.take n l) <;> rfl
    · rfl
  · rfl

theorem stepAt_shift (a0 : List UInt8) (x : UInt8) (r : List UInt8) :
    stepAt (a0 ++ x :: r) a0.length = stepAt (x :: r) 0 := by
  have hg : (a0 ++ x :: r)[a0.length]? = some x := by
    rw [List.getElem?_append_right (Nat.le_refl _), Nat.sub_self]; rfl
  unfold stepAt
  rw [classify_zero]
  unfold classify
  rw [hg]
  simp only
  cases hk : byteK x with
  | none => rfl
  | some bk =>
    cases bk with
    | ascii => simp
    | start n =>
      simp only
      rw [classifyAt_shift]
      cases hc : classifyAt (x :: r) 0 n 1 with
      | none => rfl
      | some cp =>
        have := classifyAt_start hc
        simp [this]
    | cont =>
      simp only [wtf8Meaningful]
      cases hc : classifyBack (a0 ++ x :: r) a0.length a0.length with
      | none => rfl
      | some cp =>
        simp only
        rcases back_start _ hc with h1 | h1
        · rw [if_pos (by omega)]; simp
        · rw [h1]; simp [wtf8Meaningful]

/-! ## WTF-8 characters -/

/-- a lead surrogate U+D800..U+DBFF in generalized UTF-8: `ED A0..AF 80..BF` -/
def Lead (c : List UInt8) : Prop :=
  ∃ a b d, c = [a, b, d] ∧ a.toNat = 0xED ∧ 0xA0 ≤ b.toNat ∧ b.toNat ≤ 0xAF ∧ 0x80 ≤ d.toNat ∧ d.toNat ≤ 0xBF
/-- a trail surrogate U+DC00..U+DFFF in generalized UTF-8: `ED B0..BF 80..BF` -/
def Trail (c : List UInt8) : Prop :=
  ∃ a b d, c = [a, b, d] ∧ a.toNat = 0xED ∧ 0xB0 ≤ b.toNat ∧ b.toNat ≤ 0xBF ∧ 0x80 ≤ d.toNat ∧ d.toNat ≤ 0xBF

/-- the three-byte value -/
def val3 (a b d : UInt8) : Nat := (a.toNat % 16) * 4096 + (b.toNat % 64) * 64 + d.toNat % 64

theorem E3 (x y z : UInt8) (r : List UInt8) :
    classifyAt (x :: y :: z :: r) 0 3 1 =
      if isCont y = true ∧ isCont z = true then (decode [x, y, z]).map (fun m => ⟨0, 3, m⟩) else none := by
  cases hy : isCont y <;> cases hz : isCont z <;>
  simp [classifyAt, hy, hz]

theorem Eshort (l : List UInt8) (n k : Nat) (h : l.length < n) :
    classifyAt l 0 n k = some ⟨0, l.length, .pfx (n - l.length)⟩ := by
  unfold classifyAt
  simp only [Nat.sub_zero]
  rw [if_neg (by omega)]

theorem decode3 (x y z : UInt8) : decode [x, y, z] =
    if val3 x y z ≤ 0x7FF then none
    else if 0xD800 ≤ val3 x y z ∧ val3 x y z ≤ 0xDBFF then some (.lead (val3 x y z - 0xD800))
    else if 0xDC00 ≤ val3 x y z ∧ val3 x y z ≤ 0xDFFF then some (.trail (val3 x y z - 0xDC00))
    else wholeOf (val3 x y z) := rfl

theorem wholeOf_whole {n : Nat} {m : Meaning} (h : wholeOf n = some m) : m = .whole n := by
  unfold wholeOf at h; split at h
  · cases h; rfl
  · cases h

/-- `decode` yields a surrogate only for a three-byte sequence -/
theorem decode_sur {bs : List UInt8} {m : Meaning} (h : decode bs = some m) (hm : ∀ v, m ≠ .whole v) :
    ∃ x y z, bs = [x, y, z] := by
  unfold decode at h
  split at h
  · simp only at h; split at h
    · cases h
    · exact absurd (wholeOf_whole h) (hm _)
  · exact ⟨_, _, _, rfl⟩
  · simp only at h; split at h
    · cases h
    · exact absurd (wholeOf_whole h) (hm _)
  · cases h

theorem step_lead {c : List UInt8} (h : Lead c) (r : List UInt8) :
    ∃ n, stepAt (c ++ r) 0 = some (3, .lead n) := by
  obtain ⟨a, b, d, rfl, ha, hb1, hb2, hd1, hd2⟩ := h
  refine ⟨val3 a b d - 0xD800, ?_⟩
  unfold stepAt
  simp only [List.cons_append, List.nil_append]
  rw [classify_zero, byteK_s3 (by omega)]
  simp only
  rw [E3, if_pos ⟨(isCont_iff _).mpr (by omega), (isCont_iff _).mpr (by omega)⟩, decode3]
  have : 0xD800 ≤ val3 a b d ∧ val3 a b d ≤ 0xDBFF := by unfold val3; omega
  rw [if_neg (by omega), if_pos this]
  simp [wtf8Meaningful]

theorem step_trail {c : List UInt8} (h : Trail c) (r : List UInt8) :
    ∃ n, stepAt (c ++ r) 0 = some (3, .trail n) := by
  obtain ⟨a, b, d, rfl, ha, hb1, hb2, hd1, hd2⟩ := h
  refine ⟨val3 a b d - 0xDC00, ?_⟩
  unfold stepAt
  simp only [List.cons_append, List.nil_append]
  rw [classify_zero, byteK_s3 (by omega)]
  simp only
  rw [E3, if_pos ⟨(isCont_iff _).mpr (by omega), (isCont_iff _).mpr (by omega)⟩, decode3]
  have : 0xDC00 ≤ val3 a b d ∧ val3 a b d ≤ 0xDFFF := by unfold val3; omega
  rw [if_neg (by omega), if_neg (by omega), if_pos this]
  simp [wtf8Meaningful]

/-- the length announced by the first byte -/
def blen (x : UInt8) : Nat :=
  if x.toNat < 0x80 then 1 else if x.toNat < 0xE0 then 2 else if x.toNat < 0xF0 then 3 else 4

theorem classifyAt_len {buf : List UInt8} {s n k : Nat} {cp : Codepoint}
    (h : classifyAt buf s n k = some cp) (hm : wtf8Meaningful cp.meaning = true) :
    cp.len = n ∧ (decode ((buf.drop s).take n)) = some cp.meaning ∧ n ≤ buf.length - s ∧
      (((buf.drop s).take n).drop k).all isCont = true := by
  unfold classifyAt at h
  simp only at h
  split at h
  · split at h
    · rw [Option.map_eq_some_iff] at h
      obtain ⟨m, hm', rfl⟩ := h
      rename_i h1 h2
      exact ⟨rfl, hm', h1, h2⟩
    · cases h
  · cases h; cases hm

theorem byteK_start {x : UInt8} {n : Nat} (h : byteK x = some (.start n)) :
    0xC0 ≤ x.toNat ∧ x.toNat < 0xF8 ∧ n = blen x := by
  unfold byteK at h
  unfold blen
  simp only at h
  repeat' split at h
  all_goals first | cases h | skip
  all_goals repeat' split
  all_goals omega

/-- a successful step at index 0: the sequence starts at the first byte and has the announced length -/
theorem step0_info {x : UInt8} {r : List UInt8} {k : Nat} {m : Meaning} (h : stepAt (x :: r) 0 = some (k, m)) :
    classify (x :: r) 0 = some ⟨0, k, m⟩ ∧ k = blen x ∧ k ≤ (x :: r).length := by
  unfold stepAt at h
  split at h
  · cases h
  · rename_i cp hc
    split at h
    · cases h
    · split at h
      · cases h
      · rename_i h1 h2
        simp only [Option.some.injEq, Prod.mk.injEq] at h
        obtain ⟨rfl, rfl⟩ := h
        obtain ⟨s, l, m⟩ := cp
        simp only [ne_eq, Decidable.not_not] at h1
        subst h1
        refine ⟨hc, ?_⟩
        simp only [Bool.not_eq_true, Bool.not_eq_false'] at h2
        rw [classify_zero] at hc
        cases hk : byteK x with
        | none => rw [hk] at hc; cases hc
        | some bk =>
          rw [hk] at hc
          cases bk with
          | ascii =>
            simp only [Option.some.injEq, Codepoint.mk.injEq] at hc
            have : x.toNat < 0x80 := by
              unfold byteK at hk; simp only at hk
              split at hk
              · assumption
              · repeat' split at hk
                all_goals cases hk
            refine ⟨?_, by simp [← hc.2.1]⟩
            unfold blen; rw [if_pos this]; exact hc.2.1.symm
          | cont => simp only [Option.some.injEq, Codepoint.mk.injEq] at hc; rw [← hc.2.2] at h2; cases h2
          | start n =>
            simp only at hc
            obtain ⟨h3, _, h4, _⟩ := classifyAt_len hc h2
            have h3 : l = n := h3
            have := byteK_start hk
            exact ⟨by omega, by simp only [Nat.sub_zero] at h4; omega⟩


theorem step0_meaningful {l : List UInt8} {k : Nat} {m : Meaning} (h : stepAt l 0 = some (k, m)) :
    wtf8Meaningful m = true := by
  unfold stepAt at h
  split at h
  · cases h
  · split at h
    · cases h
    · split at h
      · cases h
      · rename_i h2
        simp only [Option.some.injEq, Prod.mk.injEq] at h
        rw [← h.2]; simpa using h2

theorem step0_ne_nil {l : List UInt8} {k : Nat} {m : Meaning} (h : stepAt l 0 = some (k, m)) :
    ∃ x r, l = x :: r := by
  cases l with
  | nil => simp [stepAt, classify] at h
  | cons x r => exact ⟨x, r, rfl⟩

theorem isChar_blen {x : UInt8} {ys : List UInt8} (h : IsChar (x :: ys)) : (x :: ys).length = blen x := by
  unfold blen
  rcases isChar_forms h with ⟨a, e, hc⟩ | ⟨a, b, e, hc⟩ | ⟨a, b, d, e, hc⟩ | ⟨a, b, d, f, e, hc⟩ <;>
    cases e
  · unfold C1 at hc; rw [if_pos hc]; rfl
  · unfold C2 at hc; rw [if_neg (by omega), if_pos (by omega)]; rfl
  · unfold C3 at hc; rw [if_neg (by omega), if_neg (by omega), if_pos (by omega)]; rfl
  · unfold C4 at hc; rw [if_neg (by omega), if_neg (by omega), if_neg (by omega)]; rfl

theorem classify0_start {x : UInt8} {r : List UInt8} {cp : Codepoint} (h : classify (x :: r) 0 = some cp) :
    cp.start = 0 := by
  rw [classify_zero] at h
  split at h
  · cases h
  · cases h; rfl
  · exact classifyAt_start h
  · cases h; rfl

theorem step_char {c : List UInt8} (h : IsChar c) (r : List UInt8) :
    ∃ v, stepAt (c ++ r) 0 = some (c.length, .whole v) := by
  obtain ⟨v0, hv⟩ := head_append h r
  have hw := (whole0_iff (c ++ r)).mpr (by rw [hv]; rfl)
  obtain ⟨x, ys, rfl, _⟩ := isChar_shape h
  rw [List.cons_append] at hw ⊢
  cases hc : classify (x :: (ys ++ r)) 0 with
  | none => rw [hc] at hw; cases hw
  | some cp =>
    have hs := classify0_start hc
    obtain ⟨s, l, m⟩ := cp
    simp only at hs; subst hs
    rw [hc] at hw
    cases m with
    | whole v =>
      have hst : stepAt (x :: (ys ++ r)) 0 = some (l, .whole v) := by
        simp [stepAt, hc, wtf8Meaningful]
      obtain ⟨_, h2, _⟩ := step0_info hst
      rw [isChar_blen h, ← h2]
      exact ⟨v, hst⟩
    | _ => cases hw

/-- what a successful step at index 0 has recognised -/
theorem step_inv {l : List UInt8} {k : Nat} {m : Meaning} (h : stepAt l 0 = some (k, m)) :
    ∃ c r, l = c ++ r ∧ c.length = k ∧
      ((IsChar c ∧ ∃ v, m = .whole v) ∨ (Lead c ∧ ∃ n, m = .lead n) ∨ (Trail c ∧ ∃ n, m = .trail n)) := by
  obtain ⟨x, r, rfl⟩ := step0_ne_nil h
  have hm := step0_meaningful h
  obtain ⟨hc, hk, hlen⟩ := step0_info h
  have sur : (∀ v, m ≠ .whole v) → ∃ y z r', r = y :: z :: r' ∧ k = 3 ∧ isCont y = true ∧ isCont z = true ∧
      decode [x, y, z] = some m ∧ 0xE0 ≤ x.toNat ∧ x.toNat < 0xF0 := by
    intro hnw
    rw [classify_zero] at hc
    cases hb : byteK x with
    | none => rw [hb] at hc; cases hc
    | some bk =>
      rw [hb] at hc
      cases bk with
      | ascii => simp only [Option.some.injEq, Codepoint.mk.injEq] at hc; exact absurd hc.2.2.symm (hnw _)
      | cont => simp only [Option.some.injEq, Codepoint.mk.injEq] at hc; rw [← hc.2.2] at hm; cases hm
      | start n =>
        simp only at hc
        obtain ⟨h1, h2, h3, h4⟩ := classifyAt_len hc hm
        have h1 : k = n := h1
        subst h1
        simp only [List.drop_zero, Nat.sub_zero] at h2 h3 h4
        have h2 : decode (List.take k (x :: r)) = some m := h2
        obtain ⟨x', y, z, e⟩ := decode_sur h2 hnw
        have hl := congrArg List.length e
        rw [List.length_take] at hl
        simp only [List.length_cons, List.length_nil] at hl h3
        have hk3 : k = 3 := by omega
        subst hk3
        have hx := byteK_start hb
        have hx3 : 3 = blen x := hx.2.2
        unfold blen at hx3
        match r, e, h2, h4 with
        | [], e, _, _ => simp at e
        | [_], e, _, _ => simp at e
        | y' :: z' :: r', e, h2, h4 =>
          simp only [List.take_succ_cons, List.take_zero, List.drop_succ_cons, List.drop_zero,
            List.all_cons, List.all_nil, Bool.and_true, Bool.and_eq_true] at h2 h4
          refine ⟨y', z', r', rfl, rfl, h4.1, h4.2, h2, ?_⟩
          repeat' split at hx3
          all_goals omega
  cases m with
  | whole v =>
    have hw : isWhole (classify (x :: r) 0) = true := by rw [hc]; rfl
    rw [whole0_iff] at hw
    obtain ⟨⟨k', v'⟩, hv⟩ := Option.isSome_iff_exists.mp hw
    obtain ⟨c, r', e, _, hch⟩ := head_split hv
    obtain ⟨x', ys, rfl, _⟩ := isChar_shape hch
    rw [List.cons_append] at e
    cases e
    exact ⟨x :: ys, r', rfl, by rw [isChar_blen hch, hk], .inl ⟨hch, v, rfl⟩⟩
  | lead n =>
    obtain ⟨y, z, r', rfl, rfl, hy, hz, hd, hx1, hx2⟩ := sur (by intro v; simp)
    refine ⟨[x, y, z], r', rfl, rfl, .inr (.inl ⟨⟨x, y, z, rfl, ?_⟩, n, rfl⟩)⟩
    rw [decode3] at hd
    rw [isCont_iff] at hy hz
    unfold val3 at hd
    repeat' split at hd
    · cases hd
    · omega
    · simp at hd
    · exact absurd (wholeOf_whole hd) (by simp)
  | trail n =>
    obtain ⟨y, z, r', rfl, rfl, hy, hz, hd, hx1, hx2⟩ := sur (by intro v; simp)
    refine ⟨[x, y, z], r', rfl, rfl, .inr (.inr ⟨⟨x, y, z, rfl, ?_⟩, n, rfl⟩)⟩
    rw [decode3] at hd
    rw [isCont_iff] at hy hz
    unfold val3 at hd
    repeat' split at hd
    · cases hd
    · simp at hd
    · omega
    · exact absurd (wholeOf_whole hd) (by simp)
  | pfx n => cases hm
  | sfx => cases hm


/-! ## validity as an inductive predicate -/

/-- `VW p l`: `l` is a sequence of WTF-8 characters (UTF-8 characters, lead surrogates, trail
surrogates) in which no lead surrogate is directly followed by a trail surrogate; `p` says that the
character before `l` was a lead surrogate -/
inductive VW : Bool → List UInt8 → Prop
  | nil (p : Bool) : VW p []
  | char {p : Bool} {c r : List UInt8} : IsChar c → VW false r → VW p (c ++ r)
  | lead {p : Bool} {c r : List UInt8} : Lead c → VW true r → VW p (c ++ r)
  | trail {c r : List UInt8} : Trail c → VW false r → VW false (c ++ r)

theorem Lead.length {c : List UInt8} (h : Lead c) : c.length = 3 := by
  obtain ⟨_, _, _, rfl, _⟩ := h; rfl
theorem Trail.length {c : List UInt8} (h : Trail c) : c.length = 3 := by
  obtain ⟨_, _, _, rfl, _⟩ := h; rfl

theorem drop_cons_split {buf : List UInt8} {i : Nat} (h : ¬ i ≥ buf.length) :
    ∃ x r, buf.drop i = x :: r ∧ buf = buf.take i ++ x :: r ∧ (buf.take i).length = i := by
  have hl : (buf.drop i).length = buf.length - i := List.length_drop
  match hd : buf.drop i with
  | [] => rw [hd] at hl; simp at hl; omega
  | x :: r =>
    refine ⟨x, r, rfl, ?_, ?_⟩
    · rw [← hd, List.take_append_drop]
    · rw [List.length_take]; omega

theorem stepAt_drop {buf : List UInt8} {i : Nat} {x : UInt8} {r : List UInt8} (h : buf.drop i = x :: r)
    (hi : ¬ i ≥ buf.length) : stepAt buf i = stepAt (x :: r) 0 := by
  obtain ⟨x', r', h1, h2, h3⟩ := drop_cons_split hi
  rw [h] at h1; cases h1
  have := stepAt_shift (buf.take i) x r
  rw [h3, ← h2] at this
  exact this

theorem fuel_sound : ∀ (f : Nat) (buf : List UInt8) (i : Nat) (p : Bool),
    wtf8ValidateFuel f buf i p = true → VW p (buf.drop i) := by
  intro f
  induction f with
  | zero =>
    intro buf i p h
    simp only [wtf8ValidateFuel, decide_eq_true_eq] at h
    rw [List.drop_eq_nil_of_le h]; exact VW.nil p
  | succ f ih =>
    intro buf i p h
    rw [fuel_succ] at h
    split at h
    · rename_i hi; rw [List.drop_eq_nil_of_le hi]; exact VW.nil p
    · rename_i hi
      obtain ⟨x, r, hd, _, _⟩ := drop_cons_split hi
      rw [stepAt_drop hd hi] at h
      cases hs : stepAt (x :: r) 0 with
      | none => rw [hs] at h; cases h
      | some km =>
        obtain ⟨k, m⟩ := km
        rw [hs] at h
        obtain ⟨c, r', e, hk, hkind⟩ := step_inv hs
        have hdr : buf.drop (i + k) = r' := by
          rw [← List.drop_drop, hd, e, ← hk, List.drop_left]
        rw [hd, e]
        rcases hkind with ⟨hc, v, rfl⟩ | ⟨hc, n, rfl⟩ | ⟨hc, n, rfl⟩
        · simp only at h
          have := ih _ _ _ h; rw [hdr] at this
          exact VW.char hc this
        · simp only at h
          have := ih _ _ _ h; rw [hdr] at this
          exact VW.lead hc this
        · simp only at h
          split at h
          · cases h
          · rename_i hp
            simp only [Bool.not_eq_true] at hp; subst hp
            have := ih _ _ _ h; rw [hdr] at this
            exact VW.trail hc this

theorem fuel_complete : ∀ (f : Nat) (buf : List UInt8) (i : Nat) (p : Bool), buf.length - i ≤ f →
    VW p (buf.drop i) → wtf8ValidateFuel f buf i p = true := by
  intro f
  induction f with
  | zero =>
    intro buf i p hf _
    simp only [wtf8ValidateFuel, decide_eq_true_eq]; omega
  | succ f ih =>
    intro buf i p hf h
    rw [fuel_succ]
    split
    · rfl
    · rename_i hi
      obtain ⟨x, r, hd, _, _⟩ := drop_cons_split hi
      rw [stepAt_drop hd hi, ← hd]
      have key : ∀ (c r' : List UInt8), buf.drop i = c ++ r' → 0 < c.length →
          buf.drop (i + c.length) = r' ∧ buf.length - (i + c.length) ≤ f := by
        intro c r' e hc
        refine ⟨by rw [← List.drop_drop, e, List.drop_left], by omega⟩
      generalize e : buf.drop i = l at h
      cases h with
      | nil => rw [hd] at e; cases e
      | @char _ c r' hc hr =>
        obtain ⟨v, hv⟩ := step_char hc r'
        obtain ⟨h1, h2⟩ := key c r' e (isChar_length_pos hc)
        rw [hv]; simp only
        exact ih _ _ _ h2 (by rw [h1]; exact hr)
      | @lead _ c r' hc hr =>
        obtain ⟨v, hv⟩ := step_lead hc r'
        obtain ⟨h1, h2⟩ := key c r' e (by rw [hc.length]; omega)
        rw [hv]; simp only
        rw [← hc.length]
        exact ih _ _ _ h2 (by rw [h1]; exact hr)
      | @trail c r' hc hr =>
        obtain ⟨v, hv⟩ := step_trail hc r'
        obtain ⟨h1, h2⟩ := key c r' e (by rw [hc.length]; omega)
        rw [hv]; simp only [Bool.false_eq_true, if_false]
        rw [← hc.length]
        exact ih _ _ _ h2 (by rw [h1]; exact hr)

/-- **structural characterisation of `WTF8::validate`** -/
theorem wtf8Validate_iff (l : List UInt8) : wtf8Validate l = true ↔ VW false l :=
  ⟨fun h => fuel_sound _ _ _ _ h, fun h => fuel_complete _ _ _ _ (by omega) h⟩


/-! ## 4. the suffix check is exact inside a valid string -/

/-- a WTF-8 character -/
def WChar (c : List UInt8) : Prop := IsChar c ∨ Lead c ∨ Trail c

theorem wchar_shape {c : List UInt8} (h : WChar c) : ∃ x ys, c = x :: ys ∧ Shape x ys := by
  rcases h with h | ⟨a, b, d, rfl, ha, hb1, hb2, hd1, hd2⟩ | ⟨a, b, d, rfl, ha, hb1, hb2, hd1, hd2⟩
  · exact isChar_shape h
  · refine ⟨a, [b, d], rfl, .inr (by omega), ?_, by simp⟩
    simp only [List.all_cons, List.all_nil, Bool.and_true, Bool.and_eq_true, isCont_iff]; omega
  · refine ⟨a, [b, d], rfl, .inr (by omega), ?_, by simp⟩
    simp only [List.all_cons, List.all_nil, Bool.and_true, Bool.and_eq_true, isCont_iff]; omega

/-- what follows a proper non-empty prefix of a character starts with a continuation byte -/
theorem wchar_inner {d e : List UInt8} (h : WChar (d ++ e)) (hd : d ≠ []) (he : e ≠ []) :
    ∃ y e', e = y :: e' ∧ isCont y = true := by
  obtain ⟨x, ys, e1, _, hall, _⟩ := wchar_shape h
  cases d with
  | nil => exact absurd rfl hd
  | cons x0 ds =>
    simp only [List.cons_append, List.cons.injEq] at e1
    obtain ⟨rfl, rfl⟩ := e1
    rw [List.all_append, Bool.and_eq_true] at hall
    cases e with
    | nil => exact absurd rfl he
    | cons y e' =>
      have := hall.2
      simp only [List.all_cons, Bool.and_eq_true] at this
      exact ⟨y, e', rfl, this.1⟩

theorem VW.mono {p : Bool} {l : List UInt8} (h : VW p l) : VW false l := by
  cases h with
  | nil => exact VW.nil _
  | char hc hr => exact VW.char hc hr
  | lead hc hr => exact VW.lead hc hr
  | trail hc hr => exact VW.trail hc hr

/-- a cut of a valid string is a character boundary, or the part after it starts with a
continuation byte -/
theorem VW.cut_right {p : Bool} {l : List UInt8} (h : VW p l) : ∀ (a b : List UInt8), a ++ b = l →
    VW false b ∨ ∃ y r, b = y :: r ∧ isCont y = true := by
  have one : ∀ {c r : List UInt8} {q : Bool}, WChar c → VW false (c ++ r) → VW q r →
      (∀ (a b : List UInt8), a ++ b = r → VW false b ∨ ∃ y r, b = y :: r ∧ isCont y = true) →
      ∀ (a b : List UInt8), a ++ b = c ++ r → VW false b ∨ ∃ y r, b = y :: r ∧ isCont y = true := by
    intro c r q hc hall hr ih a b e
    rcases List.append_eq_append_iff.mp e with ⟨as, e1, e2⟩ | ⟨bs, e1, e2⟩
    · by_cases ha : a = []
      · subst ha; rw [List.nil_append] at e; rw [e]; exact .inl hall
      · by_cases has : as = []
        · subst has; rw [List.nil_append] at e2; rw [e2]; exact .inl hr.mono
        · rw [e1] at hc
          obtain ⟨y, e', rfl, hy⟩ := wchar_inner hc ha has
          exact .inr ⟨y, e' ++ r, by rw [e2]; rfl, hy⟩
    · exact ih bs b e2.symm
  induction h with
  | nil =>
    intro a b e
    rw [(List.append_eq_nil_iff.mp e).2]; exact .inl (VW.nil _)
  | char hc hr ih => exact one (.inl hc) (VW.char hc hr) hr ih
  | lead hc hr ih => exact one (.inr (.inl hc)) (VW.lead hc hr) hr ih
  | trail hc hr ih => exact one (.inr (.inr hc)) (VW.trail hc hr) hr ih

theorem VW.step_isSome {p : Bool} {l : List UInt8} (h : VW p l) (hne : l ≠ []) :
    (stepAt l 0).isSome = true := by
  cases h with
  | nil => exact absurd rfl hne
  | char hc _ => obtain ⟨v, hv⟩ := step_char hc _; rw [hv]; rfl
  | lead hc _ => obtain ⟨v, hv⟩ := step_lead hc _; rw [hv]; rfl
  | trail hc _ => obtain ⟨v, hv⟩ := step_trail hc _; rw [hv]; rfl

theorem step_cont {y : UInt8} (r : List UInt8) (h : isCont y = true) : stepAt (y :: r) 0 = none := by
  unfold stepAt
  rw [classify_zero, byteK_cont h]
  simp [wtf8Meaningful]

theorem suffix_eval (x : UInt8) (r : List UInt8) :
    wtf8ValidateSuffix (x :: r) = (stepAt (x :: r) 0).isSome := by
  unfold wtf8ValidateSuffix stepAt
  simp only [List.isEmpty_cons, Bool.false_eq_true, if_false]
  cases hc : classify (x :: r) 0 with
  | none => rfl
  | some cp =>
    have := classify0_start hc
    simp only [this, ne_eq, not_true_eq_false, if_false]
    cases wtf8Meaningful cp.meaning <;> rfl

theorem wtf8_suffix_exact (a b : List UInt8) (h : wtf8Validate (a ++ b) = true) :
    wtf8ValidateSuffix b = wtf8Validate b := by
  rw [wtf8Validate_iff] at h
  cases b with
  | nil => rfl
  | cons y r =>
    rw [suffix_eval]
    rcases h.cut_right a (y :: r) rfl with hv | ⟨y', r', e, hy⟩
    · rw [hv.step_isSome (by simp), (wtf8Validate_iff _).mpr hv]
    · cases e
      rw [step_cont r hy]
      symm
      show wtf8Validate (y :: r) = false
      rw [Bool.eq_false_iff]; intro hv
      rw [wtf8Validate_iff] at hv
      have := hv.step_isSome (by simp)
      rw [step_cont r hy] at this; cases this


/-! ## UTF-8 inside WTF-8; ingredients of the fix-up -/

theorem VW.of_valid {l : List UInt8} (h : Valid l) : ∀ p, VW p l := by
  induction h with
  | nil => exact VW.nil
  | cons hc _ ih => intro p; exact VW.char hc (ih false)

/-- well-formed UTF-8 is well-formed WTF-8 -/
theorem wtf8_of_utf8 (l : List UInt8) (h : validUtf8 l = true) : wtf8Validate l = true := by
  rw [validUtf8_iff] at h; rw [wtf8Validate_iff]; exact VW.of_valid h false

theorem VW.append_valid {p : Bool} {a b : List UInt8} (ha : VW p a) (hb : Valid b) : VW p (a ++ b) := by
  induction ha with
  | nil p => exact VW.of_valid hb p
  | char hc _ ih => rw [List.append_assoc]; exact VW.char hc ih
  | lead hc _ ih => rw [List.append_assoc]; exact VW.lead hc ih
  | trail hc _ ih => rw [List.append_assoc]; exact VW.trail hc ih

/-- appending well-formed UTF-8 keeps WTF-8 well-formed (no surrogate can be joined) -/
theorem wtf8_append_utf8 (a b : List UInt8) (ha : wtf8Validate a = true) (hb : validUtf8 b = true) :
    wtf8Validate (a ++ b) = true := by
  rw [validUtf8_iff] at hb; rw [wtf8Validate_iff] at *; exact ha.append_valid hb

/-- the `expect` in `WTF8::fixup` cannot fail: the joined code point encodes to four bytes of
well-formed UTF-8 -/
theorem wtf8_join_encode (hi lo : Nat) (h1 : hi < 1024) (h2 : lo < 1024) :
    ∃ bs, encodeUtf8 (0x10000 + hi * 1024 + lo) = some bs ∧ bs.length = 4 ∧ validUtf8 bs = true := by
  have : ∃ bs, encodeUtf8 (0x10000 + hi * 1024 + lo) = some bs ∧ bs.length = 4 := by
    unfold encodeUtf8
    rw [if_neg (by omega), if_neg (by omega), if_neg (by omega), if_neg (by omega), if_pos (by omega)]
    exact ⟨_, rfl, rfl⟩
  obtain ⟨bs, h3, h4⟩ := this
  exact ⟨bs, h3, h4, utf8_encode_valid _ _ h3⟩

/-- a valid string does not start with a continuation byte -/
theorem wtf8_not_cont (y : UInt8) (r : List UInt8) (hy : isCont y = true) : wtf8Validate (y :: r) = false := by
  rw [Bool.eq_false_iff]; intro hv
  rw [wtf8Validate_iff] at hv
  have := hv.step_isSome (by simp)
  rw [step_cont r hy] at this; cases this

example : wtf8ValidateSuffix [0xA0, 0x80] = false := by decide
example : wtf8ValidateSuffix [0xED, 0xB0, 0x80] = true := by decide
example : VW false [0xED, 0xA0, 0x80] := (wtf8Validate_iff _).mp (by decide)
example : ¬ VW false [0xED, 0xA0, 0x80, 0xED, 0xB0, 0x80] := fun h => by
  have := (wtf8Validate_iff _).mpr h; revert this; decide


/-! ## the prefix check -/

theorem classifyAt_checked {x : UInt8} {ys : List UInt8} (h : ys.all isCont = true) (n : Nat) {k : Nat}
    (hk : 1 ≤ k) : classifyAt (x :: ys) 0 n k = classifyAt (x :: ys) 0 n 1 := by
  unfold classifyAt
  simp only [List.drop_zero, all_drop_take h n hk, all_drop_take h n (Nat.le_refl 1)]

/-- `classify` at the last byte of `a0 ++ d`, `d` a non-empty prefix of a character, is `classify` of
`d` at index 0 (moved by `a0.length`) -/
theorem classify_last (a0 : List UInt8) {x : UInt8} {ys : List UInt8} (h : Shape x ys) :
    classify (a0 ++ x :: ys) (a0.length + ys.length) =
      (classify (x :: ys) 0).map (fun cp => ⟨a0.length + cp.start, cp.len, cp.meaning⟩) := by
  obtain ⟨hx, hall, hlen⟩ := h
  rcases hx with ⟨h1, rfl⟩ | h1
  · rw [classify_zero, byteK_ascii h1]
    simp only [classify, List.length_nil, Nat.add_zero, List.getElem?_append_right (Nat.le_refl _),
      Nat.sub_self, List.getElem?_cons_zero, byteK_ascii h1]
    rfl
  · obtain ⟨n, hn⟩ : ∃ n, byteK x = some (.start n) := by
      rcases (by omega : (0xC0 ≤ x.toNat ∧ x.toNat < 0xE0) ∨ (0xE0 ≤ x.toNat ∧ x.toNat < 0xF0) ∨
        (0xF0 ≤ x.toNat ∧ x.toNat < 0xF8)) with h2 | h2 | h2
      · exact ⟨_, byteK_s2 h2⟩
      · exact ⟨_, byteK_s3 h2⟩
      · exact ⟨_, byteK_s4 h2⟩
    rw [classify_zero, hn]
    simp only
    cases ys with
    | nil =>
      simp only [classify, List.length_nil, Nat.add_zero, List.getElem?_append_right (Nat.le_refl _),
        Nat.sub_self, List.getElem?_cons_zero, hn]
      exact classifyAt_shift a0 [x] n 1
    | cons y0 ys' =>
      have hy : ∃ y, (a0 ++ x :: y0 :: ys')[a0.length + (ys'.length + 1)]? = some y ∧ isCont y = true := by
        rw [List.getElem?_append_right (by omega), Nat.add_sub_cancel_left, List.getElem?_cons_succ]
        have hlt : ys'.length < (y0 :: ys').length := by simp
        refine ⟨(y0 :: ys')[ys'.length], List.getElem?_eq_getElem hlt, ?_⟩
        exact (List.all_eq_true.mp hall) _ (List.getElem_mem hlt)
      obtain ⟨y, hy1, hy2⟩ := hy
      simp only [List.length_cons] at hlen ⊢
      unfold classify
      simp only [hy1, byteK_cont hy2]
      have := Back a0 x hn hall (ys'.length + 1) (by omega) ys'.length (by simp) (by omega)
      rw [show a0.length + (ys'.length + 1) = a0.length + ys'.length + 1 from rfl] at this ⊢
      rw [this, classifyAt_shift, classifyAt_checked hall n (by omega)]

theorem prefix_eval_w (a0 : List UInt8) {x : UInt8} {ys : List UInt8} (h : Shape x ys) :
    wtf8ValidatePrefix (a0 ++ x :: ys) = (stepAt (x :: ys) 0).isSome := by
  have hne : (a0 ++ x :: ys).isEmpty = false := by cases a0 <;> rfl
  have hidx : (a0 ++ x :: ys).length - 1 = a0.length + ys.length := by
    rw [List.length_append, List.length_cons]; omega
  rw [← suffix_eval]
  unfold wtf8ValidatePrefix wtf8ValidateSuffix
  rw [hne, hidx, classify_last a0 h]
  simp only [List.isEmpty_cons, Bool.false_eq_true, if_false]
  cases classify (x :: ys) 0 <;> rfl

theorem wchar_step {c : List UInt8} (h : WChar c) (r : List UInt8) :
    ∃ m, stepAt (c ++ r) 0 = some (c.length, m) := by
  rcases h with h | h | h
  · obtain ⟨v, hv⟩ := step_char h r; exact ⟨_, hv⟩
  · obtain ⟨v, hv⟩ := step_lead h r; exact ⟨_, by rw [h.length]; exact hv⟩
  · obtain ⟨v, hv⟩ := step_trail h r; exact ⟨_, by rw [h.length]; exact hv⟩

/-- prefix-freeness of WTF-8 characters -/
theorem wchar_unique {c c' r r' : List UInt8} (h : WChar c) (h' : WChar c')
    (e : c ++ r = c' ++ r') : c = c' ∧ r = r' := by
  obtain ⟨m, hm⟩ := wchar_step h r
  obtain ⟨m', hm'⟩ := wchar_step h' r'
  rw [e, hm'] at hm
  simp only [Option.some.injEq, Prod.mk.injEq] at hm
  exact List.append_inj e hm.1.symm

theorem wchar_ne_nil {c : List UInt8} (h : WChar c) : c ≠ [] := by
  obtain ⟨x, ys, rfl, _⟩ := wchar_shape h; simp

theorem VW.inv {p : Bool} {l : List UInt8} (h : VW p l) (hne : l ≠ []) :
    ∃ c r q, l = c ++ r ∧ WChar c ∧ VW q r := by
  cases h with
  | nil => exact absurd rfl hne
  | char hc hr => exact ⟨_, _, _, rfl, .inl hc, hr⟩
  | lead hc hr => exact ⟨_, _, _, rfl, .inr (.inl hc), hr⟩
  | trail hc hr => exact ⟨_, _, _, rfl, .inr (.inr hc), hr⟩

/-- cancellation of a valid prefix -/
theorem VW.cancel {p : Bool} {a : List UInt8} (ha : VW p a) :
    ∀ (x : List UInt8) (q : Bool), VW q (a ++ x) → ∃ q', VW q' x := by
  have one : ∀ {c r : List UInt8}, WChar c → (∀ (x : List UInt8) (q : Bool), VW q (r ++ x) → ∃ q', VW q' x) →
      ∀ (x : List UInt8) (q : Bool), VW q ((c ++ r) ++ x) → ∃ q', VW q' x := by
    intro c r hc ih x q h
    rw [List.append_assoc] at h
    have hne : c ++ (r ++ x) ≠ [] := by
      intro e; exact wchar_ne_nil hc (List.append_eq_nil_iff.mp e).1
    obtain ⟨c', r', q', e, hc', hr'⟩ := h.inv hne
    obtain ⟨_, rfl⟩ := wchar_unique hc hc' e
    exact ih x q' hr'
  induction ha with
  | nil => intro x q h; exact ⟨q, h⟩
  | char hc _ ih => exact one (.inl hc) ih
  | lead hc _ ih => exact one (.inr (.inl hc)) ih
  | trail hc _ ih => exact one (.inr (.inr hc)) ih

/-- a proper prefix of a character is not recognised -/
theorem wchar_proper {d e : List UInt8} (h : WChar (d ++ e)) (he : e ≠ []) : stepAt d 0 = none := by
  cases hs : stepAt d 0 with
  | none => rfl
  | some km =>
    obtain ⟨k, m⟩ := km
    obtain ⟨c, r', e1, _, hk⟩ := step_inv hs
    have hc : WChar c := hk.imp (·.1) (·.imp (·.1) (·.1))
    have : c ++ (r' ++ e) = (d ++ e) ++ [] := by rw [List.append_nil, ← List.append_assoc, ← e1]
    obtain ⟨h1, _⟩ := wchar_unique hc h this
    have h2 := congrArg List.length h1
    have h3 := congrArg List.length e1
    rw [List.length_append] at h2 h3
    have : e.length = 0 := by omega
    exact absurd (List.eq_nil_of_length_eq_zero this) he

theorem wchar_prefix_shape {d e : List UInt8} (h : WChar (d ++ e)) (hd : d ≠ []) :
    ∃ x ys, d = x :: ys ∧ Shape x ys := by
  obtain ⟨x, ys', e1, hx, hall, hlen⟩ := wchar_shape h
  cases d with
  | nil => exact absurd rfl hd
  | cons x0 ds =>
    simp only [List.cons_append, List.cons.injEq] at e1
    obtain ⟨rfl, rfl⟩ := e1
    rw [List.all_append, Bool.and_eq_true] at hall
    rw [List.length_append] at hlen
    refine ⟨x0, ds, rfl, ?_, hall.1, by omega⟩
    rcases hx with ⟨h1, h2⟩ | h1
    · exact .inl ⟨h1, (List.append_eq_nil_iff.mp h2).1⟩
    · exact .inr h1

/-- the part before a cut of a valid string is a valid string followed by a non-empty prefix `d` of
a character `d ++ e`; if `d` is the whole character, the part is valid -/
theorem VW.cut_left {p : Bool} {l : List UInt8} (h : VW p l) : ∀ (a b : List UInt8), a ++ b = l → a ≠ [] →
    ∃ a0 d e, a = a0 ++ d ∧ VW p a0 ∧ d ≠ [] ∧ WChar (d ++ e) ∧ (e = [] → VW p a) := by
  have one : ∀ {c r : List UInt8} {p q : Bool}, WChar c → (∀ r', VW q r' → VW p (c ++ r')) →
      (∀ (a b : List UInt8), a ++ b = r → a ≠ [] →
        ∃ a0 d e, a = a0 ++ d ∧ VW q a0 ∧ d ≠ [] ∧ WChar (d ++ e) ∧ (e = [] → VW q a)) →
      ∀ (a b : List UInt8), a ++ b = c ++ r → a ≠ [] →
        ∃ a0 d e, a = a0 ++ d ∧ VW p a0 ∧ d ≠ [] ∧ WChar (d ++ e) ∧ (e = [] → VW p a) := by
    intro c r p q hc mk ih a b e ha
    have hcc : VW p c := by have := mk [] (VW.nil q); rwa [List.append_nil] at this
    rcases List.append_eq_append_iff.mp e with ⟨as, e1, _⟩ | ⟨bs, e1, e2⟩
    · refine ⟨[], a, as, rfl, VW.nil p, ha, e1 ▸ hc, ?_⟩
      intro has; subst has; rw [List.append_nil] at e1; subst e1; exact hcc
    · by_cases hbs : bs = []
      · subst hbs; rw [List.append_nil] at e1; subst e1
        exact ⟨[], a, [], rfl, VW.nil p, wchar_ne_nil hc, by rw [List.append_nil]; exact hc, fun _ => hcc⟩
      · obtain ⟨a0, d, e', h1, h2, h3, h4, h5⟩ := ih bs b e2.symm hbs
        exact ⟨c ++ a0, d, e', by rw [e1, h1, List.append_assoc], mk _ h2, h3, h4,
          fun he => e1 ▸ mk _ (h5 he)⟩
  induction h with
  | nil =>
    intro a b e ha
    exact absurd (List.append_eq_nil_iff.mp e).1 ha
  | char hc _ ih => exact one (.inl hc) (fun _ h => VW.char hc h) ih
  | lead hc _ ih => exact one (.inr (.inl hc)) (fun _ h => VW.lead hc h) ih
  | trail hc _ ih => exact one (.inr (.inr hc)) (fun _ h => VW.trail hc h) ih

theorem wtf8_prefix_exact (a b : List UInt8) (h : wtf8Validate (a ++ b) = true) :
    wtf8ValidatePrefix a = wtf8Validate a := by
  rw [wtf8Validate_iff] at h
  by_cases ha : a = []
  · subst ha; rfl
  · obtain ⟨a0, d, e, rfl, h0, hd, hde, hfull⟩ := h.cut_left a b rfl ha
    obtain ⟨x, ys, rfl, hsh⟩ := wchar_prefix_shape hde hd
    rw [prefix_eval_w a0 hsh]
    by_cases he : e = []
    · subst he; rw [List.append_nil] at hde
      obtain ⟨m, hm⟩ := wchar_step hde []
      rw [List.append_nil] at hm
      rw [hm, (wtf8Validate_iff _).mpr (hfull rfl)]; rfl
    · have hn := wchar_proper hde he
      rw [hn]; symm
      show wtf8Validate (a0 ++ x :: ys) = false
      rw [Bool.eq_false_iff]; intro hv
      rw [wtf8Validate_iff] at hv
      obtain ⟨q, hq⟩ := h0.cancel _ _ hv
      have := hq.step_isSome hd
      rw [hn] at this; cases this

theorem wtf8_subseq_exact (a b c : List UInt8) (h : wtf8Validate (a ++ (b ++ c)) = true) :
    (wtf8ValidatePrefix b && wtf8ValidateSuffix b) = wtf8Validate b := by
  have h' := (wtf8Validate_iff _).mp h
  cases b with
  | nil => rfl
  | cons y r =>
    rcases h'.cut_right a ((y :: r) ++ c) rfl with hv | ⟨y', r', e, hy⟩
    · have hp := wtf8_prefix_exact (y :: r) c ((wtf8Validate_iff _).mpr hv)
      rw [hp]
      cases hb : wtf8Validate (y :: r) with
      | false => rfl
      | true => rw [wtf8_suffix_exact [] (y :: r) hb, hb]; rfl
    · cases e
      have : wtf8ValidateSuffix (y :: r) = false := by rw [suffix_eval, step_cont r hy]; rfl
      rw [this, wtf8_not_cont y r hy, Bool.and_false]


/-! ## 5. the fix-up -/

theorem stepAt_of_classify0 {x : UInt8} {r : List UInt8} {cp : Codepoint} (h : classify (x :: r) 0 = some cp)
    (hm : wtf8Meaningful cp.meaning = true) : stepAt (x :: r) 0 = some (cp.len, cp.meaning) := by
  have := classify0_start h
  unfold stepAt; rw [h]; simp [this, hm]

theorem stepAt_nil : stepAt [] 0 = none := by simp [stepAt, classify]

theorem VW.inv_lead {q : Bool} {l : List UInt8} {k n : Nat} (h : VW q l)
    (hs : stepAt l 0 = some (k, .lead n)) : VW true (l.drop k) := by
  cases h with
  | nil => rw [stepAt_nil] at hs; cases hs
  | char hc hr => obtain ⟨v, hv⟩ := step_char hc _; rw [hv] at hs; simp at hs
  | lead hc hr =>
    obtain ⟨v, hv⟩ := step_lead hc _; rw [hv] at hs
    simp only [Option.some.injEq, Prod.mk.injEq] at hs
    rw [← hs.1, ← hc.length, List.drop_left]; exact hr
  | trail hc hr => obtain ⟨v, hv⟩ := step_trail hc _; rw [hv] at hs; simp at hs

theorem VW.not_trail {p : Bool} {l : List UInt8} {k n : Nat} (h : VW p l) (hp : p = true)
    (hs : stepAt l 0 = some (k, .trail n)) : False := by
  cases h with
  | nil => rw [stepAt_nil] at hs; cases hs
  | char hc hr => obtain ⟨v, hv⟩ := step_char hc _; rw [hv] at hs; simp at hs
  | lead hc hr => obtain ⟨v, hv⟩ := step_lead hc _; rw [hv] at hs; simp at hs
  | trail hc hr => cases hp

/-- inside a valid string, a part whose last byte `classify` calls a lead surrogate ends with a lead
surrogate character, and what follows does not start with a trail surrogate -/
theorem last_lead {a b : List UInt8} (h : VW false (a ++ b)) (ha : a ≠ []) {s l hi : Nat}
    (hc : classify a (a.length - 1) = some ⟨s, l, .lead hi⟩) :
    ∃ a0 d, a = a0 ++ d ∧ Lead d ∧ VW false a0 ∧ VW true b := by
  obtain ⟨a0, d, e, rfl, h0, hd, hde, _⟩ := h.cut_left a b rfl ha
  obtain ⟨x, ys, rfl, hsh⟩ := wchar_prefix_shape hde hd
  have hidx : (a0 ++ x :: ys).length - 1 = a0.length + ys.length := by
    rw [List.length_append, List.length_cons]; omega
  rw [hidx, classify_last a0 hsh, Option.map_eq_some_iff] at hc
  obtain ⟨cp, hcp, hf⟩ := hc
  simp only [Codepoint.mk.injEq] at hf
  have hst := stepAt_of_classify0 hcp (by rw [hf.2.2]; rfl)
  rw [hf.2.2] at hst
  have he : e = [] := by
    apply Classical.byContradiction; intro he
    rw [wchar_proper hde he] at hst; cases hst
  subst he; rw [List.append_nil] at hde
  obtain ⟨c, r', e1, _, hk⟩ := step_inv hst
  have hcl : Lead c := by
    rcases hk with ⟨_, v, hv⟩ | ⟨hl, _⟩ | ⟨_, n, hn⟩
    · cases hv
    · exact hl
    · cases hn
  have : c ++ r' = (x :: ys) ++ [] := by rw [List.append_nil, ← e1]
  obtain ⟨rfl, _⟩ := wchar_unique (.inr (.inl hcl)) hde this
  refine ⟨a0, x :: ys, rfl, hcl, h0, ?_⟩
  rw [List.append_assoc] at h
  obtain ⟨q, hq⟩ := h0.cancel _ _ h
  obtain ⟨n, hn⟩ := step_lead hcl b
  have := hq.inv_lead hn
  rwa [← hcl.length, List.drop_left] at this

theorem wtf8_fixup_trivial (a b : List UInt8) (h : wtf8Validate (a ++ b) = true) : wtf8Fixup a b = {} := by
  rw [wtf8Validate_iff] at h
  unfold wtf8Fixup
  split
  · rename_i hl
    split
    · rename_i h1 h2
      exfalso
      obtain ⟨a0, d, _, _, _, hb⟩ := last_lead h (by intro e; subst e; simp at hl) h1
      cases b with
      | nil => simp at hl
      | cons x r =>
        have := stepAt_of_classify0 h2 rfl
        exact hb.not_trail rfl this
    · rfl
  · rfl


/-! ## `push` keeps WTF-8 well-formed -/

theorem step_lead_lt {c : List UInt8} (h : Lead c) (r : List UInt8) :
    ∃ n, n < 1024 ∧ stepAt (c ++ r) 0 = some (3, .lead n) := by
  obtain ⟨a, b, d, rfl, ha, hb1, hb2, hd1, hd2⟩ := h
  have hr : 0xD800 ≤ val3 a b d ∧ val3 a b d ≤ 0xDBFF := by unfold val3; omega
  refine ⟨val3 a b d - 0xD800, by omega, ?_⟩
  unfold stepAt
  simp only [List.cons_append, List.nil_append]
  rw [classify_zero, byteK_s3 (by omega)]
  simp only
  rw [E3, if_pos ⟨(isCont_iff _).mpr (by omega), (isCont_iff _).mpr (by omega)⟩, decode3]
  rw [if_neg (by omega), if_pos hr]
  simp [wtf8Meaningful]

theorem step_trail_lt {c : List UInt8} (h : Trail c) (r : List UInt8) :
    ∃ n, n < 1024 ∧ stepAt (c ++ r) 0 = some (3, .trail n) := by
  obtain ⟨a, b, d, rfl, ha, hb1, hb2, hd1, hd2⟩ := h
  have hr : 0xDC00 ≤ val3 a b d ∧ val3 a b d ≤ 0xDFFF := by unfold val3; omega
  refine ⟨val3 a b d - 0xDC00, by omega, ?_⟩
  unfold stepAt
  simp only [List.cons_append, List.nil_append]
  rw [classify_zero, byteK_s3 (by omega)]
  simp only
  rw [E3, if_pos ⟨(isCont_iff _).mpr (by omega), (isCont_iff _).mpr (by omega)⟩, decode3]
  rw [if_neg (by omega), if_neg (by omega), if_pos hr]
  simp [wtf8Meaningful]

theorem VW.of_true {b : List UInt8} (h : VW true b) : ∀ p, VW p b
  | true => h
  | false => h.mono

theorem VW.append_true {p : Bool} {a b : List UInt8} (ha : VW p a) (hb : VW true b) : VW p (a ++ b) := by
  induction ha with
  | nil p => exact hb.of_true p
  | char hc _ ih => rw [List.append_assoc]; exact VW.char hc ih
  | lead hc _ ih => rw [List.append_assoc]; exact VW.lead hc ih
  | trail hc _ ih => rw [List.append_assoc]; exact VW.trail hc ih

theorem VW.valid_append {y z : List UInt8} (hy : Valid y) (hz : VW false z) : VW false (y ++ z) := by
  induction hy with
  | nil => exact hz
  | cons hc _ ih => rw [List.append_assoc]; exact VW.char hc ih

theorem VW.append_valid_mid {p : Bool} {x y z : List UInt8} (hx : VW p x) (hy : Valid y) (hne : y ≠ [])
    (hz : VW false z) : VW p (x ++ (y ++ z)) := by
  induction hx with
  | nil p =>
    cases hy with
    | nil => exact absurd rfl hne
    | cons hc hr => rw [List.nil_append, List.append_assoc]; exact VW.char hc (VW.valid_append hr hz)
  | char hc _ ih => rw [List.append_assoc]; exact VW.char hc ih
  | lead hc _ ih => rw [List.append_assoc]; exact VW.lead hc ih
  | trail hc _ ih => rw [List.append_assoc]; exact VW.trail hc ih

/-- the last character of a non-empty valid string; unless it is a lead surrogate, any valid string
may follow -/
theorem VW.snoc {p : Bool} {a : List UInt8} (h : VW p a) : a ≠ [] →
    ∃ a0 d, a = a0 ++ d ∧ WChar d ∧ VW p a0 ∧ (¬ Lead d → ∀ b, VW false b → VW p (a ++ b)) := by
  have one : ∀ {c r : List UInt8} {p q : Bool}, WChar c → (∀ r', VW q r' → VW p (c ++ r')) →
      (¬ Lead c → ∀ b, VW false b → VW p (c ++ b)) →
      (r ≠ [] → ∃ a0 d, r = a0 ++ d ∧ WChar d ∧ VW q a0 ∧ (¬ Lead d → ∀ b, VW false b → VW q (r ++ b))) →
      ∃ a0 d, c ++ r = a0 ++ d ∧ WChar d ∧ VW p a0 ∧ (¬ Lead d → ∀ b, VW false b → VW p ((c ++ r) ++ b)) := by
    intro c r p q hc mk last ih
    by_cases hr : r = []
    · subst hr
      refine ⟨[], c, by simp, hc, VW.nil p, ?_⟩
      intro hl b hb; rw [List.append_nil]; exact last hl b hb
    · obtain ⟨a0, d, rfl, hd, h0, happ⟩ := ih hr
      refine ⟨c ++ a0, d, by rw [List.append_assoc], hd, mk _ h0, ?_⟩
      intro hl b hb; rw [List.append_assoc]; exact mk _ (happ hl b hb)
  induction h with
  | nil => intro h; exact absurd rfl h
  | char hc _ ih => intro _; exact one (.inl hc) (fun _ h => VW.char hc h) (fun _ _ hb => VW.char hc hb) ih
  | lead hc _ ih =>
    intro _; exact one (.inr (.inl hc)) (fun _ h => VW.lead hc h) (fun hl => absurd hc hl) ih
  | trail hc _ ih =>
    intro _; exact one (.inr (.inr hc)) (fun _ h => VW.trail hc h) (fun _ _ hb => VW.trail hc hb) ih

theorem VW.trail_of_not_true {b : List UInt8} (h : VW false b) (hn : ¬ VW true b) :
    ∃ c r, b = c ++ r ∧ Trail c ∧ VW false r := by
  generalize hp : false = p at h
  cases h with
  | nil => exact absurd (VW.nil true) hn
  | char hc hr => exact absurd (VW.char hc hr) hn
  | lead hc hr => exact absurd (VW.lead hc hr) hn
  | trail hc hr => exact ⟨_, _, rfl, hc, hr⟩

/-- `classify` at the last byte of a string ending with the character `d` -/
theorem classify_end (a0 : List UInt8) {d : List UInt8} (hd : WChar d) {k : Nat} {m : Meaning}
    (hs : stepAt d 0 = some (k, m)) :
    classify (a0 ++ d) ((a0 ++ d).length - 1) = some ⟨a0.length, k, m⟩ := by
  obtain ⟨x, ys, rfl, hsh⟩ := wchar_shape hd
  have hidx : (a0 ++ x :: ys).length - 1 = a0.length + ys.length := by
    rw [List.length_append, List.length_cons]; omega
  rw [hidx, classify_last a0 hsh, (step0_info hs).1]
  rfl

theorem fixup_nolead (a b : List UInt8)
    (h : ∀ s l hi, classify a (a.length - 1) ≠ some ⟨s, l, .lead hi⟩) : wtf8Fixup a b = {} := by
  unfold wtf8Fixup
  split
  · split
    · rename_i h1 h2; exact absurd h1 (h _ _ _)
    · rfl
  · rfl

theorem fixup_notrail (a b : List UInt8)
    (h : ∀ s l lo, classify b 0 ≠ some ⟨s, l, .trail lo⟩) : wtf8Fixup a b = {} := by
  unfold wtf8Fixup
  split
  · split
    · rename_i h1 h2; exact absurd h2 (h _ _ _)
    · rfl
  · rfl

theorem pushSpec_trivial {a b : List UInt8} (h : wtf8Fixup a b = {}) : pushSpec Format.wtf8 a b = a ++ b := by
  simp [pushSpec, Format.wtf8, h]

/-- the fix-up at a lead/trail junction -/
theorem fixup_join (a0 r : List UInt8) {d c : List UInt8} (hd : Lead d) (hc : Trail c) :
    ∃ bs, bs.length = 4 ∧ validUtf8 bs = true ∧ wtf8Fixup (a0 ++ d) (c ++ r) = ⟨3, 3, bs⟩ := by
  obtain ⟨hi, hhi, h1⟩ := step_lead_lt hd []
  obtain ⟨lo, hlo, h2⟩ := step_trail_lt hc r
  rw [List.append_nil] at h1
  obtain ⟨bs, he, hl, hv⟩ := wtf8_join_encode hi lo hhi hlo
  refine ⟨bs, hl, hv, ?_⟩
  obtain ⟨x, r', e⟩ := step0_ne_nil h2
  have hc0 : classify (c ++ r) 0 = some ⟨0, 3, .trail lo⟩ := by
    rw [e] at h2 ⊢; exact (step0_info h2).1
  unfold wtf8Fixup
  rw [if_pos ⟨by rw [List.length_append, hd.length]; omega, by rw [List.length_append, hc.length]; omega⟩,
    classify_end a0 (.inr (.inl hd)) h1, hc0]
  simp only [he]

theorem wtf8_push_valid (a b : List UInt8) (ha : wtf8Validate a = true) (hb : wtf8Validate b = true) :
    wtf8Validate (pushSpec Format.wtf8 a b) = true := by
  rw [wtf8Validate_iff] at *
  by_cases hne : a = []
  · subst hne
    rw [pushSpec_trivial (fixup_nolead _ _ (by intro s l hi h; simp [classify] at h))]
    exact hb
  · obtain ⟨a0, d, rfl, hd, h0, happ⟩ := ha.snoc hne
    have nolead : ∀ {k : Nat} {m : Meaning}, stepAt d 0 = some (k, m) → (∀ hi, m ≠ .lead hi) →
        wtf8Fixup (a0 ++ d) b = {} := by
      intro k m hs hm
      apply fixup_nolead
      intro s l hi h
      rw [classify_end a0 hd hs] at h
      simp only [Option.some.injEq, Codepoint.mk.injEq] at h
      exact hm hi h.2.2
    rcases hd with hc | hc | hc
    · obtain ⟨v, hv⟩ := step_char hc []
      rw [List.append_nil] at hv
      rw [pushSpec_trivial (nolead hv (by intro hi; simp))]
      refine happ ?_ b hb
      intro hl
      obtain ⟨n, hn⟩ := step_lead hl []
      rw [List.append_nil, hv] at hn; simp at hn
    · by_cases hT : VW true b
      · have : wtf8Fixup (a0 ++ d) b = {} := by
          apply fixup_notrail
          intro s l lo h
          cases b with
          | nil => simp [classify] at h
          | cons x r => exact hT.not_trail rfl (stepAt_of_classify0 h rfl)
        rw [pushSpec_trivial this]
        exact ha.append_true hT
      · obtain ⟨c, r, rfl, hc', hr⟩ := hb.trail_of_not_true hT
        obtain ⟨bs, hl, hv, hF⟩ := fixup_join a0 r hc hc'
        have : pushSpec Format.wtf8 (a0 ++ d) (c ++ r) = a0 ++ (bs ++ r) := by
          simp only [pushSpec, Format.wtf8, hF]
          have h3 : List.drop 3 (c ++ r) = r := by rw [← hc'.length, List.drop_left]
          have h4 : List.take ((a0 ++ d).length - 3) (a0 ++ d) = a0 := by
            rw [List.length_append, hc.length, Nat.add_sub_cancel, List.take_left]
          rw [h3, h4, List.append_assoc]
        rw [this]
        refine h0.append_valid_mid ((validUtf8_iff _).mp hv) ?_ hr
        intro e; rw [e] at hl; cases hl
    · obtain ⟨v, hv⟩ := step_trail hc []
      rw [List.append_nil] at hv
      rw [pushSpec_trivial (nolead hv (by intro hi; simp))]
      refine happ ?_ b hb
      intro hl
      obtain ⟨n, hn⟩ := step_lead hl []
      rw [List.append_nil, hv] at hn; simp at hn


example : wtf8ValidatePrefix [0xED, 0xA0] = false := by decide
example : wtf8ValidatePrefix [0x41, 0xED, 0xA0, 0x80] = true := by decide
example : wtf8Fixup [0xED, 0xA0, 0xBD] [0xED, 0xB8, 0x80] = ⟨3, 3, [0xF0, 0x9F, 0x98, 0x80]⟩ := by decide
example : wtf8Fixup [0xED, 0xB8, 0x80] [0xED, 0xA0, 0xBD] = {} := by decide

/-! ## the format laws with a concatenation fix-up

`Laws` (C11) describes concatenation as plain append, which WTF-8 does not satisfy
(`not_laws_wtf8`).  `LawsFx` is its generalisation to `pushSpec` (append with the format's
fix-up): every `Laws` format satisfies it (`Laws.toFx`), and so does WTF-8
(`laws_wtf8_partial`).  What is *not* done is re-proving the refinement theorem of C11 over
`LawsFx` (the specification's push becoming `pushSpec`): besides the mechanical part it needs a
buffer-level invariant — every shared view lies inside a prefix of its buffer that was valid as a
whole — to show that the zero-copy merge of adjacent views in `push_tendril` (which skips the
fix-up) agrees with `pushSpec` (`fixup_trivial` then applies, the concatenation of the two views
being a part of a valid string).  Until then WTF-8 is covered by C12's safety theorems
(`SafeLaws`), the correspondence and the Python reference. -/

structure LawsFx (F : Format) : Prop where
  fixupOK : FixupOK F
  valid_nil : F.validate [] = true
  push_valid : ∀ a b, F.validate a = true → F.validate b = true → F.validate (pushSpec F a b) = true
  fixup_trivial : ∀ a b, F.validate (a ++ b) = true → F.fixup a b = {}
  suffix_exact : ∀ a b, F.validate (a ++ b) = true → F.validateSuffix b = F.validate b
  prefix_exact : ∀ a b, F.validate (a ++ b) = true → F.validatePrefix a = F.validate a
  subseq_exact : ∀ a b c, F.validate (a ++ (b ++ c)) = true → F.validateSubseq b = F.validate b

/-- every format without a fix-up that satisfies `Laws` satisfies the generalised laws -/
theorem _root_.H5V.Props.C11.Laws.toFx {F : Format} (L : Laws F) : LawsFx F where
  fixupOK := L.fixupOK
  valid_nil := L.valid_nil
  push_valid a b ha hb := by rw [L.pushSpec]; exact L.valid_append a b ha hb
  fixup_trivial a b _ := L.noFixup a b
  suffix_exact := L.suffix_exact
  prefix_exact := L.prefix_exact
  subseq_exact := L.subseq_exact

/-- **WTF-8 satisfies the format laws with fix-up** (partial with respect to C11: the laws are
proved, the refinement theorem is not yet stated over them — see above). -/
theorem laws_wtf8_partial : LawsFx Format.wtf8 where
  fixupOK := wtf8_fixup_ok
  valid_nil := wtf8_valid_nil
  push_valid := wtf8_push_valid
  fixup_trivial := wtf8_fixup_trivial
  suffix_exact := wtf8_suffix_exact
  prefix_exact := wtf8_prefix_exact
  subseq_exact := wtf8_subseq_exact

end H5V.Lemmas.Tendril.Wtf8
