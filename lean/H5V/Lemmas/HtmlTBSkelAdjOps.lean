import H5V.Lemmas.HtmlTBSkelAdjDef
/-!
C06, "no two adjacent text siblings", part 2: the invariant `AdjD` under the effects of the sink
operations on child lists (a node inserted into a child list, a fresh node inserted, a node taken out,
a child list moved to an empty element) and under pushes onto the stack.
-/
namespace H5V.Props.C06
open H5V.Model.Dom hiding Str
open H5V.Model.HtmlTB hiding Str
open H5V.Lemmas.Dom

/-! ### lists -/

theorem mid_split {a b l1 l2 : List Id} {c e : Id} (h : a ++ c :: b = l1 ++ e :: l2) :
    (l1 = a ∧ e = c ∧ l2 = b) ∨ (∃ a2, a = l1 ++ e :: a2 ∧ l2 = a2 ++ c :: b) ∨
      (∃ b1, b = b1 ++ e :: l2 ∧ l1 = a ++ c :: b1) := by
  rcases List.append_eq_append_iff.mp h with ⟨x, h1, h2⟩ | ⟨x, h1, h2⟩
  · -- l1 = a ++ x, c :: b = x ++ e :: l2
    cases x with
    | nil => simp at h1 h2; exact Or.inl ⟨h1, h2.1.symm, h2.2.symm⟩
    | cons z x' =>
      simp only [List.cons_append, List.cons.injEq] at h2
      exact Or.inr (Or.inr ⟨x', h2.2, by rw [h1, h2.1]⟩)
  · -- a = l1 ++ x, e :: l2 = x ++ c :: b
    cases x with
    | nil => simp at h1 h2; exact Or.inl ⟨h1.symm, h2.1, h2.2⟩
    | cons z x' =>
      simp only [List.cons_append, List.cons.injEq] at h2
      exact Or.inr (Or.inl ⟨x', by rw [h1, h2.1], h2.2⟩)

theorem split2 {a b l1 l2 : List Id} {e : Id} (h : a ++ b = l1 ++ e :: l2) :
    (∃ a2, a = l1 ++ e :: a2 ∧ l2 = a2 ++ b) ∨ (∃ b1, b = b1 ++ e :: l2 ∧ l1 = a ++ b1) := by
  rcases List.append_eq_append_iff.mp h with ⟨x, h1, h2⟩ | ⟨x, h1, h2⟩
  · exact Or.inr ⟨x, h2, h1⟩
  · cases x with
    | nil => simp at h1 h2; exact Or.inr ⟨[], by simp [h2], by simp [h1]⟩
    | cons z x' =>
      simp only [List.cons_append, List.cons.injEq] at h2
      exact Or.inl ⟨x', by rw [h1, h2.1], h2.2⟩

theorem headT_append_ne {isT : Id → Bool} {a b : List Id} (h : a ≠ []) : headT isT (a ++ b) = headT isT a := by
  cases a with
  | nil => exact absurd rfl h
  | cons x t => rfl

/-- a pair not involving `c` survives the removal of `c` -/
theorem before_drop_mid {a b : List Id} {c x y : Id} (h : Before (a ++ c :: b) x y) (hx : x ≠ c) (hy : y ≠ c) :
    Before (a ++ b) x y := by
  unfold Before at h ⊢
  have h1 := h.filter (fun z => z != c)
  have hx' : (x != c) = true := by simpa using hx
  have hy' : (y != c) = true := by simpa using hy
  have e1 : List.filter (fun z => z != c) [x, y] = [x, y] := by
    simp [List.filter, hx', hy']
  rw [e1] at h1
  refine h1.trans ?_
  rw [List.filter_append, List.filter_cons]
  simp only [bne_self_eq_false, Bool.false_eq_true, if_false]
  exact List.Sublist.append (List.filter_sublist) (List.filter_sublist)

theorem before_mid_left : ∀ {a b : List Id} {c x : Id}, Before (a ++ c :: b) x c → x ≠ c → c ∉ b → x ∈ a
  | [], b, c, x, h, hx, hb => by
    unfold Before at h
    simp only [List.nil_append] at h
    cases h with
    | cons _ h' => exact absurd (h'.subset (by simp)) hb
    | cons_cons _ h' => exact absurd rfl hx
  | z :: a', b, c, x, h, hx, hb => by
    unfold Before at h
    simp only [List.cons_append] at h
    cases h with
    | cons _ h' => exact List.mem_cons_of_mem _ (before_mid_left h' hx hb)
    | cons_cons _ h' => exact List.mem_cons_self

theorem before_mid_right : ∀ {a b : List Id} {c y : Id}, Before (a ++ c :: b) c y → y ≠ c → c ∉ a → y ∈ b
  | [], b, c, y, h, hy, _ => by
    unfold Before at h
    simp only [List.nil_append] at h
    cases h with
    | cons _ h' => exact h'.subset (by simp)
    | cons_cons _ h' => exact h'.subset (by simp)
  | z :: a', b, c, y, h, hy, ha => by
    unfold Before at h
    simp only [List.cons_append] at h
    cases h with
    | cons _ h' => exact before_mid_right h' hy (fun hm => ha (List.mem_cons_of_mem _ hm))
    | cons_cons _ h' => exact absurd List.mem_cons_self ha

/-! ### names and flags depend on the data only -/

theorem nm_of_data {d d' : Dom} {x : Id} (h : d'.dataOf x = d.dataOf x) : nm d' x = nm d x := by
  unfold nm; rw [h]

theorem tc_of_data {d d' : Dom} {x : Id} (h : d'.dataOf x = d.dataOf x) :
    d'.templateContentsOf x = d.templateContentsOf x := by
  unfold Dom.templateContentsOf; rw [h]


theorem noAdj_insert_nontext {isT : Id → Bool} {a b : List Id} {c : Id} (h : noAdj isT (a ++ b) = true)
    (hc : isT c = false) : noAdj isT (a ++ c :: b) = true := by
  rw [noAdj_append] at h ⊢
  rw [noAdj_cons]
  simp only [Bool.and_eq_true, Bool.not_eq_true', Bool.and_eq_false_iff] at h ⊢
  refine ⟨⟨h.1.1, by simp [hc], h.1.2⟩, ?_⟩
  right
  unfold headT
  simp [hc]

theorem noAdj_remove_mid {isT : Id → Bool} {a b : List Id} {t : Id} (h : noAdj isT (a ++ t :: b) = true)
    (hb : headT isT b = false) : noAdj isT (a ++ b) = true := by
  rw [noAdj_append] at h ⊢
  rw [noAdj_cons] at h
  simp only [Bool.and_eq_true, Bool.not_eq_true', Bool.and_eq_false_iff] at h ⊢
  exact ⟨⟨h.1.1, h.1.2.2⟩, Or.inr hb⟩

/-! ### an existing, parentless, non-text node is put into a child list -/

theorem AdjD.insertNode {d d' : Dom} {O : List Id} {P c : Id} {a b : List Id} (h : AdjD d O)
    (hP : d.childrenOf P = a ++ b)
    (hch : ∀ x, d'.childrenOf x = if x = P then a ++ c :: b else d.childrenOf x)
    (hpar : ∀ x, d'.parentOf x = if x = c then some P else d.parentOf x)
    (hd : ∀ x, d'.dataOf x = d.dataOf x)
    (hcp : d.parentOf c = none) (hct : d.isText c = false)
    (cOL : c ∈ O → exm (nm d c) = false → headT d.isText b = false)
    (cPB : c ∈ O → P ∈ O → Before O P c)
    (cPBt : ∀ T, d.templateContentsOf T = some P → nm d T = hN "template" → c ∈ O → T ∈ O → Before O T c)
    (cTB1 : nm d c = hN "table" → c ∈ O → ∀ x ∈ a, x ∈ O → exm (nm d x) = false → Before O c x)
    (cTB2 : c ∈ O → exm (nm d c) = false → ∀ y ∈ b, y ∈ O → nm d y = hN "table" → Before O y c) :
    AdjD d' O := by
  have hnm : ∀ x, nm d' x = nm d x := fun x => nm_of_data (hd x)
  have htx : ∀ x, d'.isText x = d.isText x := fun x => isText_of_data (hd x)
  have htc : ∀ x, d'.templateContentsOf x = d.templateContentsOf x := fun x => tc_of_data (hd x)
  have hcn : ∀ Q, c ∉ d.childrenOf Q := fun Q hm => by
    have := h.lk Q c hm; rw [hcp] at this; cases this
  have hca : c ∉ a := fun hm => hcn P (by rw [hP]; exact List.mem_append_left _ hm)
  have hcb : c ∉ b := fun hm => hcn P (by rw [hP]; exact List.mem_append_right _ hm)
  have hmem : ∀ Q e, e ∈ d'.childrenOf Q → (Q = P ∧ e = c) ∨ e ∈ d.childrenOf Q := by
    intro Q e he
    rw [hch] at he
    by_cases hQ : Q = P
    · subst hQ
      simp only [if_true] at he
      rcases List.mem_append.mp he with h1 | h1
      · exact Or.inr (by rw [hP]; exact List.mem_append_left _ h1)
      · rcases List.mem_cons.mp h1 with rfl | h1
        · exact Or.inl ⟨rfl, rfl⟩
        · exact Or.inr (by rw [hP]; exact List.mem_append_right _ h1)
    · simp only [hQ, if_false] at he; exact Or.inr he
  refine ⟨fun Q => ?_, ?_, fun Q => ?_, ?_, ?_, ?_, ?_⟩
  · rw [hch, noAdj_congr (fun x _ => htx x)]
    by_cases hQ : Q = P
    · subst hQ
      simp only [if_true]
      exact noAdj_insert_nontext (by rw [← hP]; exact h.nat Q) hct
    · simp only [hQ, if_false]; exact h.nat Q
  · intro Q e he
    rcases hmem Q e he with ⟨rfl, rfl⟩ | h1
    · rw [hpar]; simp
    · have hp := h.lk Q e h1
      have hec : e ≠ c := fun h0 => by rw [h0, hcp] at hp; cases hp
      rw [hpar]; simp only [hec, if_false]; exact hp
  · rw [hch]
    by_cases hQ : Q = P
    · subst hQ
      simp only [if_true]
      have := h.nd Q
      rw [hP] at this
      rw [List.nodup_append] at this ⊢
      refine ⟨this.1, List.nodup_cons.mpr ⟨hcb, this.2.1⟩, ?_⟩
      intro x hx y hy
      rcases List.mem_cons.mp hy with rfl | hy
      · rintro rfl; exact hca hx
      · exact this.2.2 x hx y hy
    · simp only [hQ, if_false]; exact h.nd Q
  · intro e he hx Q l1 l2 hc
    rw [hnm] at hx
    rw [hch] at hc
    have hcong : ∀ l, headT d'.isText l = headT d.isText l := fun l => by
      unfold headT; cases l.head? <;> simp [htx]
    rw [hcong]
    by_cases hQ : Q = P
    · subst hQ
      simp only [if_true] at hc
      rcases mid_split hc with ⟨_, rfl, rfl⟩ | ⟨a2, ha, rfl⟩ | ⟨b1, hb, _⟩
      · exact cOL he hx
      · cases a2 with
        | nil => simp [headT, hct]
        | cons z a2' =>
          have := h.ol e he hx Q l1 ((z :: a2') ++ b) (by rw [hP, ha]; simp)
          simpa [headT] using this
      · exact h.ol e he hx Q (a ++ b1) l2 (by rw [hP, hb]; simp)
    · simp only [hQ, if_false] at hc
      exact h.ol e he hx Q l1 l2 hc
  · intro Q e he heO hQ
    rcases hmem Q e he with ⟨rfl, rfl⟩ | h1
    · exact cPB heO hQ
    · exact h.pb Q e h1 heO hQ
  · intro T tc e htc' hT0 he heO hT
    rw [hnm] at hT0
    rw [htc] at htc'
    rcases hmem tc e he with ⟨rfl, rfl⟩ | h1
    · exact cPBt T htc' hT0 heO hT
    · exact h.pbt T tc e htc' hT0 h1 heO hT
  · intro Q x y hb hxO hyO hxx hyt
    rw [hnm] at hxx hyt
    rw [hch] at hb
    by_cases hQ : Q = P
    · subst hQ
      simp only [if_true] at hb
      by_cases hxc : x = c
      · subst hxc
        by_cases hyc : y = x
        · subst hyc
          exfalso
          have hnd : (a ++ y :: b).Nodup := by
            have := h.nd Q
            rw [hP, List.nodup_append] at this
            rw [List.nodup_append]
            refine ⟨this.1, List.nodup_cons.mpr ⟨hcb, this.2.1⟩, ?_⟩
            intro u hu v hv
            rcases List.mem_cons.mp hv with rfl | hv
            · rintro rfl; exact hca hu
            · exact this.2.2 u hu v hv
          exact not_before_self hnd y hb
        · exact cTB2 hxO hxx y (before_mid_right hb hyc hca) hyO hyt
      · by_cases hyc : y = c
        · subst hyc
          exact cTB1 hyt hyO x (before_mid_left hb hxc hcb) hxO hxx
        · exact h.tb Q x y (by rw [hP]; exact before_drop_mid hb hxc hyc) hxO hyO hxx hyt
    · simp only [hQ, if_false] at hb
      exact h.tb Q x y hb hxO hyO hxx hyt


/-- `c` is not open: no side conditions -/
theorem AdjD.insertNode_closed {d d' : Dom} {O : List Id} {P c : Id} {a b : List Id} (h : AdjD d O)
    (hP : d.childrenOf P = a ++ b)
    (hch : ∀ x, d'.childrenOf x = if x = P then a ++ c :: b else d.childrenOf x)
    (hpar : ∀ x, d'.parentOf x = if x = c then some P else d.parentOf x)
    (hd : ∀ x, d'.dataOf x = d.dataOf x)
    (hcp : d.parentOf c = none) (hct : d.isText c = false) (hc : c ∉ O) : AdjD d' O :=
  h.insertNode hP hch hpar hd hcp hct (fun h0 => absurd h0 hc) (fun h0 => absurd h0 hc)
    (fun _ _ _ h0 => absurd h0 hc) (fun _ h0 => absurd h0 hc) (fun h0 => absurd h0 hc)

/-! ### a fresh node (text, comment, …) is put into a child list -/

theorem AdjD.insertFresh {d d' : Dom} {O : List Id} {P : Id} {a b : List Id} {v : NodeData} (h : AdjD d O)
    (hkv : ∀ Q x, x ∈ d.childrenOf Q → x < d.size) (hO : ∀ e ∈ O, e < d.size)
    (hP : d.childrenOf P = a ++ b)
    (hch : ∀ x, d'.childrenOf x = if x = P then a ++ d.size :: b else d.childrenOf x)
    (hpar : ∀ x, d'.parentOf x = if x = d.size then some P else d.parentOf x)
    (hd : ∀ x, d'.dataOf x = if x = d.size then some v else d.dataOf x)
    (hok : d'.isText d.size = true → lastT d.isText a = false ∧ headT d.isText b = false)
    (cPrev : d'.isText d.size = true → ∀ a' p, a = a' ++ [p] → p ∈ O → exm (nm d p) = false → False) :
    AdjD d' O := by
  have hdo : ∀ x, x < d.size → d'.dataOf x = d.dataOf x := fun x hx => by
    rw [hd]; simp [Nat.ne_of_lt hx]
  have hnm : ∀ x, x < d.size → nm d' x = nm d x := fun x hx => nm_of_data (hdo x hx)
  have htx : ∀ x, x < d.size → d'.isText x = d.isText x := fun x hx => isText_of_data (hdo x hx)
  have htc : ∀ x, x < d.size → d'.templateContentsOf x = d.templateContentsOf x := fun x hx => tc_of_data (hdo x hx)
  have hnO : d.size ∉ O := fun hm => Nat.lt_irrefl _ (hO _ hm)
  have hna : d.size ∉ a := fun hm => Nat.lt_irrefl _ (hkv P _ (by rw [hP]; exact List.mem_append_left _ hm))
  have hnb : d.size ∉ b := fun hm => Nat.lt_irrefl _ (hkv P _ (by rw [hP]; exact List.mem_append_right _ hm))
  have hmem : ∀ Q e, e ∈ d'.childrenOf Q → (Q = P ∧ e = d.size) ∨ e ∈ d.childrenOf Q := by
    intro Q e he
    rw [hch] at he
    by_cases hQ : Q = P
    · subst hQ
      simp only [if_true] at he
      rcases List.mem_append.mp he with h1 | h1
      · exact Or.inr (by rw [hP]; exact List.mem_append_left _ h1)
      · rcases List.mem_cons.mp h1 with rfl | h1
        · exact Or.inl ⟨rfl, rfl⟩
        · exact Or.inr (by rw [hP]; exact List.mem_append_right _ h1)
    · simp only [hQ, if_false] at he; exact Or.inr he
  have hcongL : ∀ l : List Id, (∀ x ∈ l, x < d.size) → headT d'.isText l = headT d.isText l := by
    intro l hl
    unfold headT
    cases hh : l.head? with
    | none => rfl
    | some y => exact htx y (hl y (List.mem_of_head? hh))
  refine ⟨fun Q => ?_, ?_, fun Q => ?_, ?_, ?_, ?_, ?_⟩
  · rw [hch]
    by_cases hQ : Q = P
    · subst hQ
      simp only [if_true]
      have hold := h.nat Q
      rw [hP] at hold
      have hxa : ∀ x ∈ a, d'.isText x = d.isText x := fun x hx =>
        htx x (hkv Q x (by rw [hP]; exact List.mem_append_left _ hx))
      have hxb : ∀ x ∈ b, d'.isText x = d.isText x := fun x hx =>
        htx x (hkv Q x (by rw [hP]; exact List.mem_append_right _ hx))
      rw [noAdj_append] at hold ⊢
      rw [noAdj_cons, noAdj_congr hxa, noAdj_congr hxb, lastT_congr hxa]
      have hhb : headT d'.isText b = headT d.isText b :=
        hcongL b (fun x hx => hkv Q x (by rw [hP]; exact List.mem_append_right _ hx))
      rw [hhb]
      simp only [Bool.and_eq_true, Bool.not_eq_true', Bool.and_eq_false_iff] at hold ⊢
      have hh : headT d'.isText (d.size :: b) = d'.isText d.size := rfl
      rw [hh]
      cases hq : d'.isText d.size with
      | false => exact ⟨⟨hold.1.1, Or.inl rfl, hold.1.2⟩, Or.inr rfl⟩
      | true =>
        obtain ⟨h1, h2⟩ := hok hq
        exact ⟨⟨hold.1.1, Or.inr h2, hold.1.2⟩, Or.inl h1⟩
    · simp only [hQ, if_false]
      rw [noAdj_congr (fun x hx => htx x (hkv Q x hx))]; exact h.nat Q
  · intro Q e he
    rcases hmem Q e he with ⟨rfl, rfl⟩ | h1
    · rw [hpar]; simp
    · have hlt := hkv Q e h1
      rw [hpar]; simp only [Nat.ne_of_lt hlt, if_false]; exact h.lk Q e h1
  · rw [hch]
    by_cases hQ : Q = P
    · subst hQ
      simp only [if_true]
      have := h.nd Q
      rw [hP] at this
      rw [List.nodup_append] at this ⊢
      refine ⟨this.1, List.nodup_cons.mpr ⟨hnb, this.2.1⟩, ?_⟩
      intro x hx y hy
      rcases List.mem_cons.mp hy with rfl | hy
      · rintro rfl; exact hna hx
      · exact this.2.2 x hx y hy
    · simp only [hQ, if_false]; exact h.nd Q
  · intro e he hx Q l1 l2 hc
    have helt := hO e he
    rw [hnm e helt] at hx
    rw [hch] at hc
    by_cases hQ : Q = P
    · subst hQ
      simp only [if_true] at hc
      rcases mid_split hc with ⟨_, rfl, _⟩ | ⟨a2, ha, rfl⟩ | ⟨b1, hb, _⟩
      · exact absurd he hnO
      · cases a2 with
        | nil =>
          show headT d'.isText (d.size :: b) = false
          show d'.isText d.size = false
          cases hq : d'.isText d.size with
          | false => rfl
          | true => exact (cPrev hq l1 e (by rw [ha]) he hx).elim
        | cons z a2' =>
          have := h.ol e he hx Q l1 ((z :: a2') ++ b) (by rw [hP, ha]; simp)
          have hz : z < d.size := hkv Q z (by rw [hP, ha]; simp)
          show d'.isText z = false
          rw [htx z hz]
          simpa [headT] using this
      · have := h.ol e he hx Q (a ++ b1) l2 (by rw [hP, hb]; simp)
        rw [hcongL l2 (fun x hx' => hkv Q x (by rw [hP, hb]; simp [hx']))]
        exact this
    · simp only [hQ, if_false] at hc
      rw [hcongL l2 (fun x hx' => hkv Q x (by rw [hc]; simp [hx']))]
      exact h.ol e he hx Q l1 l2 hc
  · intro Q e he heO hQ
    rcases hmem Q e he with ⟨_, rfl⟩ | h1
    · exact absurd heO hnO
    · exact h.pb Q e h1 heO hQ
  · intro T tc e htc' hT0 he heO hT
    rw [hnm T (hO T hT)] at hT0
    rw [htc T (hO T hT)] at htc'
    rcases hmem tc e he with ⟨_, rfl⟩ | h1
    · exact absurd heO hnO
    · exact h.pbt T tc e htc' hT0 h1 heO hT
  · intro Q x y hb hxO hyO hxx hyt
    rw [hnm x (hO x hxO)] at hxx
    rw [hnm y (hO y hyO)] at hyt
    rw [hch] at hb
    by_cases hQ : Q = P
    · subst hQ
      simp only [if_true] at hb
      have hxc : x ≠ d.size := fun h0 => hnO (h0 ▸ hxO)
      have hyc : y ≠ d.size := fun h0 => hnO (h0 ▸ hyO)
      exact h.tb Q x y (by rw [hP]; exact before_drop_mid hb hxc hyc) hxO hyO hxx hyt
    · simp only [hQ, if_false] at hb
      exact h.tb Q x y hb hxO hyO hxx hyt

/-! ### a node is taken out of its child list -/

theorem AdjD.remove {d d' : Dom} {O : List Id} {P t : Id} {a b : List Id} (h : AdjD d O)
    (hP : d.childrenOf P = a ++ t :: b)
    (hch : ∀ x, d'.childrenOf x = if x = P then a ++ b else d.childrenOf x)
    (hpar : ∀ x, d'.parentOf x = if x = t then none else d.parentOf x)
    (hd : ∀ x, d'.dataOf x = d.dataOf x)
    (cNext : headT d.isText b = false) : AdjD d' O := by
  have hnm : ∀ x, nm d' x = nm d x := fun x => nm_of_data (hd x)
  have htx : ∀ x, d'.isText x = d.isText x := fun x => isText_of_data (hd x)
  have htc : ∀ x, d'.templateContentsOf x = d.templateContentsOf x := fun x => tc_of_data (hd x)
  have hcong : ∀ l, headT d'.isText l = headT d.isText l := fun l => by
    unfold headT; cases l.head? <;> simp [htx]
  have hndP := h.nd P
  rw [hP] at hndP
  have hta : t ∉ a := fun hm => (List.nodup_append.mp hndP).2.2 t hm t (by simp) rfl
  have htb : t ∉ b := (List.nodup_cons.mp (List.nodup_append.mp hndP).2.1).1
  have hmem : ∀ Q e, e ∈ d'.childrenOf Q → e ∈ d.childrenOf Q ∧ e ≠ t := by
    intro Q e he
    rw [hch] at he
    by_cases hQ : Q = P
    · subst hQ
      simp only [if_true] at he
      rcases List.mem_append.mp he with h1 | h1
      · exact ⟨by rw [hP]; exact List.mem_append_left _ h1, fun h0 => hta (h0 ▸ h1)⟩
      · exact ⟨by rw [hP]; simp [h1], fun h0 => htb (h0 ▸ h1)⟩
    · simp only [hQ, if_false] at he
      refine ⟨he, ?_⟩
      rintro rfl
      have h1 := h.lk Q e he
      have h2 := h.lk P e (by rw [hP]; simp)
      rw [h1] at h2; cases h2; exact hQ rfl
  have hsub : ∀ Q, (d'.childrenOf Q).Sublist (d.childrenOf Q) := by
    intro Q
    rw [hch]
    by_cases hQ : Q = P
    · subst hQ
      simp only [if_true]
      rw [hP]
      exact List.Sublist.append (List.Sublist.refl _) (List.sublist_cons_self _ _)
    · simp only [hQ, if_false]; exact List.Sublist.refl _
  refine ⟨fun Q => ?_, ?_, fun Q => (hsub Q).nodup (h.nd Q), ?_, ?_, ?_, ?_⟩
  · rw [hch, noAdj_congr (fun x _ => htx x)]
    by_cases hQ : Q = P
    · subst hQ
      simp only [if_true]
      exact noAdj_remove_mid (by rw [← hP]; exact h.nat Q) cNext
    · simp only [hQ, if_false]; exact h.nat Q
  · intro Q e he
    obtain ⟨h1, h2⟩ := hmem Q e he
    rw [hpar]; simp only [h2, if_false]; exact h.lk Q e h1
  · intro e he hx Q l1 l2 hc
    rw [hnm] at hx
    rw [hcong]
    rw [hch] at hc
    by_cases hQ : Q = P
    · subst hQ
      simp only [if_true] at hc
      rcases split2 hc with ⟨a2, ha, rfl⟩ | ⟨b1, hb, hl1⟩
      · cases a2 with
        | nil => simpa using cNext
        | cons z a2' =>
          have := h.ol e he hx Q l1 ((z :: a2') ++ t :: b) (by rw [hP, ha]; simp)
          simpa [headT] using this
      · exact h.ol e he hx Q (a ++ t :: b1) l2 (by rw [hP, hb]; simp)
    · simp only [hQ, if_false] at hc
      exact h.ol e he hx Q l1 l2 hc
  · intro Q e he heO hQ
    exact h.pb Q e (hmem Q e he).1 heO hQ
  · intro T tc e htc' hT0 he heO hT
    rw [hnm] at hT0
    rw [htc] at htc'
    exact h.pbt T tc e htc' hT0 (hmem tc e he).1 heO hT
  · intro Q x y hb hxO hyO hxx hyt
    rw [hnm] at hxx hyt
    exact h.tb Q x y (hb.mono (hsub Q)) hxO hyO hxx hyt

/-! ### the children of `n` are moved to the childless, closed node `np` -/

theorem AdjD.reparent {d d' : Dom} {O : List Id} {n np : Id} (h : AdjD d O) (hne : n ≠ np)
    (hnp : d.childrenOf np = [])
    (hch : ∀ x, d'.childrenOf x = if x = n then [] else if x = np then d.childrenOf np ++ d.childrenOf n
      else d.childrenOf x)
    (hpar : ∀ x, d'.parentOf x = if x ∈ d.childrenOf n then some np else d.parentOf x)
    (hd : ∀ x, d'.dataOf x = d.dataOf x)
    (hO : np ∉ O) (hTc : ∀ T ∈ O, d.templateContentsOf T ≠ some np) : AdjD d' O := by
  have hnm : ∀ x, nm d' x = nm d x := fun x => nm_of_data (hd x)
  have htx : ∀ x, d'.isText x = d.isText x := fun x => isText_of_data (hd x)
  have htc : ∀ x, d'.templateContentsOf x = d.templateContentsOf x := fun x => tc_of_data (hd x)
  have hcong : ∀ l, headT d'.isText l = headT d.isText l := fun l => by
    unfold headT; cases l.head? <;> simp [htx]
  have hch' : ∀ x, d'.childrenOf x = if x = n then [] else if x = np then d.childrenOf n else d.childrenOf x := by
    intro x; rw [hch, hnp]; simp
  -- every new child list is an old one
  have hold : ∀ Q, d'.childrenOf Q = [] ∨ (Q = np ∧ d'.childrenOf Q = d.childrenOf n) ∨
      (Q ≠ n ∧ Q ≠ np ∧ d'.childrenOf Q = d.childrenOf Q) := by
    intro Q
    rw [hch']
    by_cases h1 : Q = n
    · left; simp [h1]
    · by_cases h2 : Q = np
      · right; left; simp [h2, Ne.symm hne]
      · right; right; simp [h1, h2]
  refine ⟨fun Q => ?_, ?_, fun Q => ?_, ?_, ?_, ?_, ?_⟩
  · rw [noAdj_congr (fun x _ => htx x)]
    rcases hold Q with h1 | ⟨_, h1⟩ | ⟨_, _, h1⟩
    · rw [h1]; rfl
    · rw [h1]; exact h.nat n
    · rw [h1]; exact h.nat Q
  · intro Q e he
    rcases hold Q with h1 | ⟨rfl, h1⟩ | ⟨hq1, hq2, h1⟩
    · rw [h1] at he; cases he
    · rw [h1] at he
      rw [hpar]; simp [he]
    · rw [h1] at he
      have hp := h.lk Q e he
      rw [hpar]
      by_cases hen : e ∈ d.childrenOf n
      · have := h.lk n e hen
        rw [hp] at this; cases this; exact absurd rfl hq1
      · simp only [hen, if_false]; exact hp
  · rcases hold Q with h1 | ⟨_, h1⟩ | ⟨_, _, h1⟩
    · rw [h1]; exact List.nodup_nil
    · rw [h1]; exact h.nd n
    · rw [h1]; exact h.nd Q
  · intro e he hx Q l1 l2 hc
    rw [hnm] at hx
    rw [hcong]
    rcases hold Q with h1 | ⟨_, h1⟩ | ⟨_, _, h1⟩
    · rw [h1] at hc; cases l1 <;> simp at hc
    · rw [h1] at hc; exact h.ol e he hx n l1 l2 hc
    · rw [h1] at hc; exact h.ol e he hx Q l1 l2 hc
  · intro Q e he heO hQ
    rcases hold Q with h1 | ⟨rfl, h1⟩ | ⟨_, _, h1⟩
    · rw [h1] at he; cases he
    · exact absurd hQ hO
    · rw [h1] at he; exact h.pb Q e he heO hQ
  · intro T tc e htc' hT0 he heO hT
    rw [hnm] at hT0
    rw [htc] at htc'
    rcases hold tc with h1 | ⟨rfl, h1⟩ | ⟨_, _, h1⟩
    · rw [h1] at he; cases he
    · exact absurd htc' (hTc T hT)
    · rw [h1] at he; exact h.pbt T tc e htc' hT0 he heO hT
  · intro Q x y hb hxO hyO hxx hyt
    rw [hnm] at hxx hyt
    rcases hold Q with h1 | ⟨_, h1⟩ | ⟨_, _, h1⟩
    · rw [h1] at hb; cases hb
    · rw [h1] at hb; exact h.tb n x y hb hxO hyO hxx hyt
    · rw [h1] at hb; exact h.tb Q x y hb hxO hyO hxx hyt

/-! ### an element is put on the stack (anywhere) -/

theorem mem_mid {pre post : List Id} {c x : Id} (h : x ∈ pre ++ c :: post) : x = c ∨ x ∈ pre ++ post := by
  simp only [List.mem_append, List.mem_cons] at h ⊢
  rcases h with h | h | h
  · exact Or.inr (Or.inl h)
  · exact Or.inl h
  · exact Or.inr (Or.inr h)

theorem AdjD.stackInsert {d : Dom} {pre post : List Id} {c : Id} (h : AdjD d (pre ++ post))
    (cOL : exm (nm d c) = false → ∀ P l1 l2, d.childrenOf P = l1 ++ c :: l2 → headT d.isText l2 = false)
    (cSelf : c ∉ d.childrenOf c)
    (cPar : ∀ P, c ∈ d.childrenOf P → P ∈ pre ++ post → P ∈ pre)
    (cKids : ∀ e ∈ d.childrenOf c, e ∈ pre ++ post → e ∈ post)
    (cParT : ∀ T tc, d.templateContentsOf T = some tc → nm d T = hN "template" → c ∈ d.childrenOf tc →
      T ∈ pre ++ post → T ∈ pre)
    (cTc : ∀ tc e, d.templateContentsOf c = some tc → nm d c = hN "template" → e ∈ d.childrenOf tc →
      (e ∈ pre ++ post → e ∈ post) ∧ e ≠ c)
    (cTBx : exm (nm d c) = false → ∀ P y, Before (d.childrenOf P) c y → y ∈ pre ++ post →
      nm d y = hN "table" → y ∈ pre)
    (cTBy : nm d c = hN "table" → ∀ P x, Before (d.childrenOf P) x c → x ∈ pre ++ post →
      exm (nm d x) = false → x ∈ post) :
    AdjD d (pre ++ c :: post) := by
  have hsub : (pre ++ post).Sublist (pre ++ c :: post) :=
    List.Sublist.append (List.Sublist.refl pre) (List.sublist_cons_self c post)
  refine ⟨h.nat, h.lk, h.nd, ?_, ?_, ?_, ?_⟩
  · intro e he hx P l1 l2 hc
    rcases mem_mid he with rfl | h1
    · exact cOL hx P l1 l2 hc
    · exact h.ol e h1 hx P l1 l2 hc
  · intro P e hc he hP
    rcases mem_mid he with rfl | h1
    · rcases mem_mid hP with rfl | h2
      · exact absurd hc cSelf
      · exact before_mid_pre (cPar P hc h2)
    · rcases mem_mid hP with rfl | h2
      · exact before_mid_post (cKids e hc h1)
      · exact (h.pb P e hc h1 h2).mono hsub
  · intro T tc e htc hT0 hc he hT
    rcases mem_mid hT with rfl | h2
    · obtain ⟨k1, k2⟩ := cTc tc e htc hT0 hc
      rcases mem_mid he with rfl | h1
      · exact absurd rfl k2
      · exact before_mid_post (k1 h1)
    · rcases mem_mid he with rfl | h1
      · exact before_mid_pre (cParT T tc htc hT0 hc h2)
      · exact (h.pbt T tc e htc hT0 hc h1 h2).mono hsub
  · intro P x y hb hxO hyO hxx hyt
    rcases mem_mid hyO with rfl | h2
    · rcases mem_mid hxO with rfl | h1
      · exact absurd hb (not_before_self (h.nd P) _)
      · exact before_mid_post (cTBy hyt P x hb h1 hxx)
    · rcases mem_mid hxO with rfl | h1
      · exact before_mid_pre (cTBx hxx P y hb h2 hyt)
      · exact (h.tb P x y hb h1 h2 hxx hyt).mono hsub

/-- a node in no child list, without children, is put on the stack -/
theorem AdjD.stackInsert_isolated {d : Dom} {pre post : List Id} {c : Id} (h : AdjD d (pre ++ post))
    (hno : ∀ Q, c ∉ d.childrenOf Q) (hkids : d.childrenOf c = [])
    (htc : ∀ tc, d.templateContentsOf c = some tc → d.childrenOf tc = []) : AdjD d (pre ++ c :: post) := by
  refine h.stackInsert ?_ (hno c) (fun P hc => absurd hc (hno P)) (by rw [hkids]; intro e he; cases he)
    (fun T tc _ _ hc => absurd hc (hno tc)) ?_ ?_ ?_
  · intro _ P l1 l2 hc
    exact absurd (by rw [hc]; simp) (hno P)
  · intro tc e h1 _ he
    rw [htc tc h1] at he; cases he
  · intro _ P y hb
    exact absurd hb.mem.1 (hno P)
  · intro _ P x hb
    exact absurd hb.mem.2 (hno P)

/-! ### an element is pushed onto the stack -/

theorem AdjD.push {d : Dom} {O : List Id} {c : Id} (h : AdjD d O)
    (cOL : exm (nm d c) = false → ∀ P l1 l2, d.childrenOf P = l1 ++ c :: l2 → headT d.isText l2 = false)
    (cSelf : c ∉ d.childrenOf c)
    (cKids : ∀ e ∈ d.childrenOf c, e ∈ O → False)
    (cTc : ∀ tc e, d.templateContentsOf c = some tc → e ∈ d.childrenOf tc → e ∈ O ++ [c] → False)
    (cTB : nm d c = hN "table" → ∀ P x, Before (d.childrenOf P) x c → x ∈ O → exm (nm d x) = false → False) :
    AdjD d (O ++ [c]) := by
  have h' : AdjD d (O ++ []) := by rw [List.append_nil]; exact h
  refine h'.stackInsert cOL cSelf (fun P _ hP => by simpa using hP)
    (fun e he heO => (cKids e he (by simpa using heO)).elim)
    (fun T tc _ _ _ hT => by simpa using hT) ?_ (fun _ P y _ hy _ => by simpa using hy)
    (fun hn P x hb hx hxx => (cTB hn P x hb (by simpa using hx) hxx).elim)
  intro tc e h1 _ he
  refine ⟨fun heO => (cTc tc e h1 he (List.mem_append_left _ (by simpa using heO))).elim, ?_⟩
  rintro rfl
  exact cTc tc e h1 he (by simp)

end H5V.Props.C06
