import H5V.Lemmas.HtmlTokSpecBasic
import H5V.Props.C01
/-!
# C01 simulation — attributes and tag emission

html5ever keeps the finished attributes de-duplicated (`tagAttrs`, `tagHadDup`) plus the current one in
two registers (`attrName`, `attrValue`); the standard keeps all attributes (the last one is the current
one) and de-duplicates when the tag token is emitted.
-/
set_option linter.unusedSimpArgs false
namespace H5V.Lemmas.HtmlTokSpec
open H5V.Model.HtmlTok
open H5V.Spec.HtmlTokenizer (St Tok Emit Tree Switch Ctl ReturnSt dedupAttrs)

/-! ## `dedupAttrs` -/

@[simp] theorem dedupAttrs_nil : dedupAttrs [] = [] := rfl

theorem dedupAttrs_concat (l : List Attr) (a : Attr) :
    dedupAttrs (l ++ [a]) =
      if (dedupAttrs l).any (fun b => b.name == a.name) then dedupAttrs l else dedupAttrs l ++ [a] := by
  unfold dedupAttrs
  rw [List.foldl_append]
  rfl

theorem dedupAttrs_length_le (l : List Attr) : (dedupAttrs l).length ≤ l.length :=
  (H5V.Props.C01.C01_dedupAttrs_sublist l).length_le

/-! ## the current attribute of the specification -/

/-- `modifyCurrentAttribute` on the attribute list -/
def modLast (f : Attr → Attr) (L : List Attr) : List Attr :=
  match L.getLast? with
  | some a => L.dropLast ++ [f a]
  | none => [f ⟨[], []⟩]

@[simp] theorem modLast_nil (f : Attr → Attr) : modLast f [] = [f ⟨[], []⟩] := rfl

@[simp] theorem modLast_concat (f : Attr → Attr) (L : List Attr) (a : Attr) :
    modLast f (L ++ [a]) = L ++ [f a] := by
  unfold modLast
  simp

@[simp] theorem modLast_ne_nil (f : Attr → Attr) (L : List Attr) : modLast f L ≠ [] := by
  unfold modLast
  split <;> simp

theorem modifyCurrentAttribute_eq (t : Tok) (f : Attr → Attr) :
    t.modifyCurrentAttribute f = { t with attrs := modLast f t.attrs } := by
  unfold Tok.modifyCurrentAttribute modLast
  split <;> simp_all

@[simp] theorem appendAttributeName_eq (t : Tok) (c : Char) :
    t.appendAttributeName c = { t with attrs := modLast (fun a => { a with name := a.name ++ [c] }) t.attrs } := by
  unfold Tok.appendAttributeName; exact modifyCurrentAttribute_eq _ _

@[simp] theorem appendAttributeValue_eq (t : Tok) (c : Char) :
    t.appendAttributeValue c = { t with attrs := modLast (fun a => { a with value := a.value ++ [c] }) t.attrs } := by
  unfold Tok.appendAttributeValue; exact modifyCurrentAttribute_eq _ _

@[simp] theorem startAttribute_eq (t : Tok) :
    t.startAttribute = { t with attrs := t.attrs ++ [⟨[], []⟩] } := rfl

/-! ## `AttrR` -/

@[simp] theorem attrR_nil : AttrR [] false [] [] [] := by
  simp [AttrR]

theorem attrR_nil_iff (ta : List Attr) (hd : Bool) (an av : Str) :
    AttrR ta hd an av [] ↔ ta = [] ∧ hd = false ∧ an = [] ∧ av = [] := by
  simp [AttrR]

theorem attrR_concat_iff (ta : List Attr) (hd : Bool) (an av : Str) (L : List Attr) (a : Attr) :
    AttrR ta hd an av (L ++ [a]) ↔
      (∀ b ∈ L, b.name ≠ []) ∧ a.name ≠ [] ∧ ta = dedupAttrs L ∧
      hd = ((dedupAttrs L).length != L.length) ∧ an = a.name ∧ av = a.value := by
  simp only [AttrR, List.dropLast_concat, List.getLast?_concat, Option.map_some, Option.getD_some,
    List.mem_append, List.mem_singleton]
  constructor
  · rintro ⟨h1, h2, h3, h4, h5⟩
    exact ⟨fun b hb => h1 b (Or.inl hb), h1 a (Or.inr rfl), h2, h3, h4, h5⟩
  · rintro ⟨h1, h1', h2, h3, h4, h5⟩
    refine ⟨fun b hb => ?_, h2, h3, h4, h5⟩
    rcases hb with hb | hb
    · exact h1 b hb
    · rw [hb]; exact h1'

/-- `L = []` or `L = pre ++ [a]` -/
theorem list_nil_or_concat (L : List Attr) : L = [] ∨ ∃ pre a, L = pre ++ [a] := by
  rcases List.eq_nil_or_concat L with h | ⟨pre, a, h⟩
  · exact Or.inl h
  · exact Or.inr ⟨pre, a, by simpa using h⟩

/-- appending to the current attribute's name (`push_name` / "append to the current attribute's name") -/
theorem attrR_pushName {ta : List Attr} {hd : Bool} {an av : Str} {L : List Attr} (c : Char)
    (h : AttrR ta hd an av L) :
    AttrR ta hd (an ++ [c]) av (modLast (fun a => { a with name := a.name ++ [c] }) L) := by
  rcases list_nil_or_concat L with rfl | ⟨pre, a, rfl⟩
  · rw [attrR_nil_iff] at h
    obtain ⟨rfl, rfl, rfl, rfl⟩ := h
    rw [modLast_nil]
    have := (attrR_concat_iff [] false ([] ++ [c]) [] [] ⟨[] ++ [c], []⟩).mpr (by simp)
    simpa using this
  · rw [attrR_concat_iff] at h
    obtain ⟨h1, h1', h2, h3, h4, h5⟩ := h
    rw [modLast_concat, attrR_concat_iff]
    simp [h1, h2, h3, h4, h5]
    exact h1

/-- appending to the current attribute's value; there must be a current attribute -/
theorem attrR_appendValue {ta : List Attr} {hd : Bool} {an av : Str} {L : List Attr} (c : Char)
    (h : AttrR ta hd an av L) (hne : L ≠ []) :
    AttrR ta hd an (av ++ [c]) (modLast (fun a => { a with value := a.value ++ [c] }) L) := by
  rcases list_nil_or_concat L with rfl | ⟨pre, a, rfl⟩
  · exact absurd rfl hne
  · rw [attrR_concat_iff] at h
    obtain ⟨h1, h1', h2, h3, h4, h5⟩ := h
    rw [modLast_concat, attrR_concat_iff]
    simp [h1', h2, h3, h4, h5]
    exact h1

/-! ## `finish_attribute` -/

/-- `finish_attribute` under the relation: the registers afterwards -/
theorem finishAttribute_spec (m : Mach) (L : List Attr)
    (h : AttrR m.tagAttrs m.tagHadDup m.attrName m.attrValue L) :
    ∃ out', flat out' = flat m.out ∧
      finishAttribute m = { m with tagAttrs := dedupAttrs L,
                                   tagHadDup := ((dedupAttrs L).length != L.length),
                                   attrName := [], attrValue := [], out := out' } := by
  rcases list_nil_or_concat L with rfl | ⟨pre, a, rfl⟩
  · rw [attrR_nil_iff] at h
    obtain ⟨h1, h2, h3, h4⟩ := h
    refine ⟨m.out, rfl, ?_⟩
    cases m
    simp only at h1 h2 h3 h4
    subst h1 h2 h3 h4
    rfl
  · rw [attrR_concat_iff] at h
    obtain ⟨h1, h1', h2, h3, h4, h5⟩ := h
    have hlen := dedupAttrs_length_le pre
    obtain ⟨st, cr, cc, rcn, il, tk, tn, tsc, thd, ta, an0, av0, com, dt, lst, tb, ln, ae, db, out⟩ := m
    simp only at h2 h3 h4 h5
    subst h2 h3 h4 h5
    obtain ⟨an, av⟩ := a
    simp only at h1'
    have hne : an.isEmpty = false := by
      cases an with
      | nil => exact absurd rfl h1'
      | cons _ _ => rfl
    unfold finishAttribute
    simp only [hne, Bool.false_eq_true, if_false]
    rw [dedupAttrs_concat]
    by_cases hd : ((dedupAttrs pre).any fun b => b.name == an) = true
    · simp only [hd, if_true]
      refine ⟨(Token.error "Duplicate attribute".toList, ln) :: out, by simp, ?_⟩
      simp only [emitErr, emit, Mach.mk.injEq, true_and, List.length_append, List.length_singleton, and_true]
      symm
      simp only [bne_iff_ne, ne_eq]
      omega
    · simp only [hd, Bool.false_eq_true, if_false]
      refine ⟨out, rfl, ?_⟩
      simp only [Mach.mk.injEq, true_and, List.length_append, List.length_singleton, and_true]
      cases hb : ((dedupAttrs pre).length != pre.length) <;> simp_all

/-- `create_attr` against "start a new attribute, append `c` to its name" -/
theorem attrR_createAttr (m : Mach) (L : List Attr) (c : Char)
    (h : AttrR m.tagAttrs m.tagHadDup m.attrName m.attrValue L) :
    AttrR (createAttr c m).tagAttrs (createAttr c m).tagHadDup (createAttr c m).attrName
      (createAttr c m).attrValue (L ++ [⟨[c], []⟩]) := by
  obtain ⟨out', _, hf⟩ := finishAttribute_spec m L h
  unfold createAttr
  rw [hf]
  rw [attrR_concat_iff]
  exact ⟨h.1, by simp, rfl, rfl, by simp, rfl⟩

/-! ### `create_attr` leaves everything else alone -/

@[simp] theorem createAttr_state' (c : Char) (m : Mach) : (createAttr c m).state = m.state := by
  unfold createAttr finishAttribute; split
  · rfl
  · dsimp only; split <;> rfl
@[simp] theorem createAttr_charRef' (c : Char) (m : Mach) : (createAttr c m).charRef = m.charRef := by
  unfold createAttr finishAttribute; split
  · rfl
  · dsimp only; split <;> rfl
@[simp] theorem createAttr_tagKind' (c : Char) (m : Mach) : (createAttr c m).tagKind = m.tagKind := by
  unfold createAttr finishAttribute; split
  · rfl
  · dsimp only; split <;> rfl
@[simp] theorem createAttr_tagName' (c : Char) (m : Mach) : (createAttr c m).tagName = m.tagName := by
  unfold createAttr finishAttribute; split
  · rfl
  · dsimp only; split <;> rfl
@[simp] theorem createAttr_tagSelfClosing' (c : Char) (m : Mach) : (createAttr c m).tagSelfClosing = m.tagSelfClosing := by
  unfold createAttr finishAttribute; split
  · rfl
  · dsimp only; split <;> rfl
@[simp] theorem createAttr_lastStartTag' (c : Char) (m : Mach) : (createAttr c m).lastStartTag = m.lastStartTag := by
  unfold createAttr finishAttribute; split
  · rfl
  · dsimp only; split <;> rfl
@[simp] theorem createAttr_comment' (c : Char) (m : Mach) : (createAttr c m).comment = m.comment := by
  unfold createAttr finishAttribute; split
  · rfl
  · dsimp only; split <;> rfl
@[simp] theorem createAttr_doctype' (c : Char) (m : Mach) : (createAttr c m).doctype = m.doctype := by
  unfold createAttr finishAttribute; split
  · rfl
  · dsimp only; split <;> rfl
@[simp] theorem createAttr_tempBuf' (c : Char) (m : Mach) : (createAttr c m).tempBuf = m.tempBuf := by
  unfold createAttr finishAttribute; split
  · rfl
  · dsimp only; split <;> rfl
@[simp] theorem createAttr_reconsume' (c : Char) (m : Mach) : (createAttr c m).reconsume = m.reconsume := by
  unfold createAttr finishAttribute; split
  · rfl
  · dsimp only; split <;> rfl
@[simp] theorem createAttr_currentChar' (c : Char) (m : Mach) : (createAttr c m).currentChar = m.currentChar := by
  unfold createAttr finishAttribute; split
  · rfl
  · dsimp only; split <;> rfl
@[simp] theorem createAttr_ignoreLf' (c : Char) (m : Mach) : (createAttr c m).ignoreLf = m.ignoreLf := by
  unfold createAttr finishAttribute; split
  · rfl
  · dsimp only; split <;> rfl
@[simp] theorem createAttr_flat (c : Char) (m : Mach) : flat (createAttr c m).out = flat m.out := by
  unfold createAttr finishAttribute; split
  · rfl
  · dsimp only; split <;> simp [emitErr, emit]

/-! ## tag emission -/

theorem filter_named (L : List Attr) (h : ∀ a ∈ L, a.name ≠ []) :
    L.filter (fun a => !a.name.isEmpty) = L := by
  rw [List.filter_eq_self]
  intro a ha
  have := h a ha
  cases hn : a.name with
  | nil => exact absurd hn this
  | cons _ _ => rfl

/-- `emit_current_tag`, part 1, under the relation -/
theorem tagPrologue_spec (m : Mach) (L : List Attr)
    (h : AttrR m.tagAttrs m.tagHadDup m.attrName m.attrValue L) :
    ∃ out', flat out' = flat m.out ∧
      tagPrologue m = { m with tagAttrs := dedupAttrs L,
                               tagHadDup := ((dedupAttrs L).length != L.length),
                               attrName := [], attrValue := [],
                               lastStartTag := (if m.tagKind = .startTag then some m.tagName else m.lastStartTag),
                               out := out' } := by
  obtain ⟨out1, hfl, hf⟩ := finishAttribute_spec m L h
  unfold tagPrologue
  rw [hf]
  obtain ⟨st, cr, cc, rcn, il, tk, tn, tsc, thd, ta, an0, av0, com, dt, lst, tb, ln, ae, db, out⟩ := m
  simp only at hfl ⊢
  cases tk
  · exact ⟨out1, hfl, by simp⟩
  · simp only [reduceCtorEq, if_false]
    by_cases h1 : (!(dedupAttrs L).isEmpty) = true <;> by_cases h2 : tsc = true
    · refine ⟨(Token.error "Self-closing end tag".toList, ln) :: (Token.error "Attributes on an end tag".toList, ln) :: out1, by simp [hfl], ?_⟩
      simp [h1, h2, emitErr, emit]
    · refine ⟨(Token.error "Attributes on an end tag".toList, ln) :: out1, by simp [hfl], ?_⟩
      simp [h1, h2, emitErr, emit]
    · refine ⟨(Token.error "Self-closing end tag".toList, ln) :: out1, by simp [hfl], ?_⟩
      simp [h1, h2, emitErr, emit]
    · refine ⟨out1, hfl, ?_⟩
      simp [h1, h2]

/-- **`emit_current_tag` against "Emit the current tag token"**: same tag token (attributes
de-duplicated, duplicate flag), same last start tag, same tokenizer state afterwards -/
theorem emitTag_sim (pol : Pol) (tree : Tree) (hpt : PolTree pol tree) (m : Mach) (t : Tok)
    (hcr : m.charRef = none) (hlast : m.lastStartTag = t.lastStartTag)
    (hk : m.tagKind = t.tagKind) (hn : m.tagName = t.tagName) (hsc : m.tagSelfClosing = t.selfClosing)
    (ha : AttrR m.tagAttrs m.tagHadDup m.attrName m.attrValue t.attrs) (hout : t.out = flat m.out)
    (hcom : m.comment = []) :
    (emitTag pol .data m).2 = .cont ∧ (emitTag pol .data m).1.reconsume = m.reconsume ∧
    RegCore (emitTag pol .data m).1 ((t.setState .data).emitCurrentTag tree) := by
  obtain ⟨out', hfl, hf⟩ := tagPrologue_spec (to .data m) t.attrs ha
  have hnamed := filter_named t.attrs ha.1
  unfold emitTag emitCurrentTag
  rw [hf]
  unfold Tok.emitCurrentTag Tok.currentTag
  simp only [hnamed, to, takeTag, currentTag, emit, Tok.setState, Tok.emit] at hfl ⊢
  rw [← hk, ← hn, ← hsc]
  generalize htag : Tag.mk m.tagKind m.tagName m.tagSelfClosing (dedupAttrs t.attrs)
    ((dedupAttrs t.attrs).length != t.attrs.length) = tag
  -- the history the specification hands to the tree construction stage: the tag, then everything before
  have hes : ∀ (x y : Tok), x.out = Emit.tag tag :: t.out → y.out = Emit.tag tag :: t.out →
      ∀ (c : Prop) [Decidable c], (if c then x else y).out = Emit.tag tag :: flat out' := by
    intro x y hx hy c _
    split
    · rw [hx, hout, hfl]
    · rw [hy, hout, hfl]
  rw [hes _ _ rfl rfl, hpt.onTag out']
  have hnp := hpt.noPause out' tag
  have hkind : tag.kind = m.tagKind := by rw [← htag]
  have hname : tag.name = m.tagName := by rw [← htag]
  have hls : (if tag.kind = TagKind.startTag then some tag.name else t.lastStartTag) =
      (if m.tagKind = TagKind.startTag then some m.tagName else m.lastStartTag) := by
    rw [hkind, hname, hlast]
  cases hr : pol.onTag out' tag with
  | continue_ =>
    simp only [applySinkRes, switchOf, Switch.apply]
    refine ⟨trivial, trivial, ⟨by simp [Std], Or.inl ?_, hcr, ?_, ?_⟩⟩
    · split <;> rfl
    · simp only [RegRel, isTagSt, needsCur, usesTemp, usesComment, usesDoctype, Bool.false_eq_true, false_imp_iff,
        true_imp_iff, and_true, true_and]
      split <;> simp_all
    · simp only [OutRel, cdataBuf, isCdata, flat_cons, flatTok_tag, hfl, hout]
      split <;> simp
  | plaintext =>
    simp only [applySinkRes, switchOf, Switch.apply, to, Tok.setState]
    refine ⟨trivial, trivial, ⟨by simp [Std], Or.inl ?_, hcr, ?_, ?_⟩⟩
    · split <;> rfl
    · simp only [RegRel, isTagSt, needsCur, usesTemp, usesComment, usesDoctype, Bool.false_eq_true, false_imp_iff,
        true_imp_iff, and_true, true_and]
      split <;> simp_all
    · simp only [OutRel, cdataBuf, isCdata, flat_cons, flatTok_tag, hfl, hout]
      split <;> simp
  | rawData k =>
    have hsw : ∀ (x : Tok), ((switchOf (SinkRes.rawData k)).apply x).state = stOf (.rawData k) ∧
        (switchOf (SinkRes.rawData k)).apply x = { x with state := stOf (.rawData k) } := by
      intro x
      rcases k with _ | _ | _ | (_ | _) <;> exact ⟨rfl, rfl⟩
    simp only [applySinkRes, to]
    refine ⟨trivial, trivial, ⟨by simp [Std], Or.inl (hsw _).1, hcr, ?_, ?_⟩⟩
    · rw [(hsw _).2]
      simp only [RegRel, isTagSt, needsCur, usesTemp, usesComment, usesDoctype, Bool.false_eq_true, false_imp_iff,
        true_imp_iff, and_true, true_and]
      split <;> simp_all
    · rw [(hsw _).2]
      simp only [OutRel, cdataBuf, isCdata, flat_cons, flatTok_tag, hfl, hout]
      split <;> simp
  | script => exact absurd hr hnp.1
  | indicator => exact absurd hr hnp.2

end H5V.Lemmas.HtmlTokSpec
