import H5V.Lemmas.DomKinds
/-!
The repaired "clone an option into a selectedcontent" (`Dom.cloneOptionInto .fixed`, /repo ebdbd68)
preserves the invariant: every step of the deep copy is an allocation of a parentless node or an
attachment (`fn append`) of a freshly copied, parentless subtree under a node that cannot be inside
it; "replace all" detaches all old children at once.
-/
namespace H5V.Lemmas.Dom
open H5V.Model.Dom

/-- node data with the template-contents link erased (a copy links to a *copy* of the contents) -/
def eraseTc : NodeData → NodeData
  | .element n a _ ip => .element n a none ip
  | o => o

theorem eraseTc_document {v : NodeData} (h : eraseTc v = .document) : v = .document := by
  cases v <;> simp_all [eraseTc]

/-- `d'` extends `d`: every node of `d` keeps parent, data and — except for `ex` — children -/
structure FrameX (d d' : Dom) (ex : Option Id) : Prop where
  size : d.size ≤ d'.size
  parent : ∀ y, y < d.size → d'.parentOf y = d.parentOf y
  data : ∀ y, y < d.size → d'.dataOf y = d.dataOf y
  children : ∀ y, y < d.size → some y ≠ ex → d'.childrenOf y = d.childrenOf y

abbrev Frame (d d' : Dom) : Prop := FrameX d d' none

theorem FrameX.refl (d : Dom) (ex : Option Id) : FrameX d d ex :=
  ⟨Nat.le_refl _, fun _ _ => rfl, fun _ _ => rfl, fun _ _ _ => rfl⟩

theorem FrameX.trans {d1 d2 d3 : Dom} {ex : Option Id} (h1 : FrameX d1 d2 ex) (h2 : FrameX d2 d3 ex) :
    FrameX d1 d3 ex where
  size := Nat.le_trans h1.size h2.size
  parent := fun y hy => (h2.parent y (Nat.lt_of_lt_of_le hy h1.size)).trans (h1.parent y hy)
  data := fun y hy => (h2.data y (Nat.lt_of_lt_of_le hy h1.size)).trans (h1.data y hy)
  children := fun y hy he =>
    (h2.children y (Nat.lt_of_lt_of_le hy h1.size) he).trans (h1.children y hy he)

theorem FrameX.weaken {d d' : Dom} {ex : Option Id} (h : Frame d d') : FrameX d d' ex :=
  ⟨h.size, h.parent, h.data, fun y hy _ => h.children y hy (by simp)⟩

/-- an exception outside the old arena does not matter -/
theorem FrameX.strengthen {d d' : Dom} {i : Id} (h : FrameX d d' (some i)) (hi : d.size ≤ i) : Frame d d' :=
  ⟨h.size, h.parent, h.data, fun y hy _ => h.children y hy (by
    intro e; cases e; exact Nat.lt_irrefl _ (Nat.lt_of_lt_of_le hy hi))⟩

theorem frame_alloc (d : Dom) (data : NodeData) : Frame d (d.alloc data).1 where
  size := by simp
  parent := fun y _ => parentOf_alloc d data y
  data := fun y hy => by rw [dataOf_alloc]; simp [Nat.ne_of_lt hy]
  children := fun y _ _ => childrenOf_alloc d data y

/-- the result of copying the subtree of `x`: the invariant holds again, nothing old changed, the
copy `k` is a fresh parentless node carrying the data of `x` -/
structure CloneSpec (d d' : Dom) (x k : Id) : Prop where
  wf : WF d'
  kinds : Kinds d'
  frame : Frame d d'
  fresh : d.size ≤ k
  valid : k < d'.size
  root : d'.parentOf k = none
  data : (d'.dataOf k).map eraseTc = (d.dataOf x).map eraseTc

theorem anc_eq_of_parentless {d : Dom} {a x : Id} (hx : d.parentOf x = none) (h : Anc d a x) : a = x := by
  cases h with
  | refl => rfl
  | step hp _ => rw [hx] at hp; cases hp

theorem isContainer_of_eraseTc {d d' : Dom} {x k : Id}
    (h : (d'.dataOf k).map eraseTc = (d.dataOf x).map eraseTc) : d'.isContainer k = d.isContainer x := by
  unfold Dom.isContainer
  cases h1 : d'.dataOf k <;> cases h2 : d.dataOf x <;> simp [h1, h2] at h
  · rfl
  · rename_i v w
    cases v <;> cases w <;> simp_all [eraseTc]

theorem not_doc_of_eraseTc {d d' : Dom} {x k : Id}
    (h : (d'.dataOf k).map eraseTc = (d.dataOf x).map eraseTc) (hx : d.dataOf x ≠ some .document) :
    d'.dataOf k ≠ some .document := by
  intro hk
  rw [hk] at h
  cases h2 : d.dataOf x with
  | none => simp [h2] at h
  | some w =>
    simp [h2, eraseTc] at h
    exact hx (by rw [h2, eraseTc_document h.symm])

/-- the children loop of the repaired `clone_with_subtree` -/
theorem cloneKidsWith_spec {cl : Dom → Id → Except String (Dom × Id)}
    (hcl : ∀ d c d' k, WF d → Kinds d → cl d c = .ok (d', k) → CloneSpec d d' c k) {n0 id : Id} (hid0 : n0 ≤ id) :
    ∀ (cs : List Id) (d d' : Dom), WF d → Kinds d → id < d.size → d.parentOf id = none →
      (∀ c ∈ cs, c < n0 ∧ d.dataOf c ≠ some .document ∧ d.isContainer id = true) →
      Dom.cloneKidsWith cl id d cs = .ok d' →
      WF d' ∧ Kinds d' ∧ FrameX d d' (some id) ∧ d'.parentOf id = none := by
  intro cs
  induction cs with
  | nil =>
    intro d d' hw hk _ hp _ h
    simp [Dom.cloneKidsWith] at h; subst h
    exact ⟨hw, hk, FrameX.refl _ _, hp⟩
  | cons c cs ih =>
    intro d d' hw hk hid hp hcs h
    simp only [Dom.cloneKidsWith, bind, Except.bind] at h
    cases h1 : cl d c with
    | error e => simp [h1] at h
    | ok r =>
      obtain ⟨d1, k⟩ := r
      simp only [h1] at h
      have sp := hcl d c d1 k hw hk h1
      obtain ⟨hcn0, hcnd, hcont⟩ := hcs c (by simp)
      have hclt : c < d.size := Nat.lt_of_lt_of_le hcn0 (Nat.le_trans hid0 (Nat.le_of_lt hid))
      cases h2 : d1.appendRaw id k with
      | error e => simp [h2] at h
      | ok d2 =>
        simp only [h2] at h
        have hid1 : id < d1.size := Nat.lt_of_lt_of_le hid sp.frame.size
        have hp1 : d1.parentOf id = none := by rw [sp.frame.parent id hid]; exact hp
        have hne : id ≠ k := fun e => Nat.lt_irrefl _ (Nat.lt_of_lt_of_le (e ▸ hid) sp.fresh)
        have hanc : ¬ Anc d1 k id := fun ha => hne (anc_eq_of_parentless hp1 ha).symm
        obtain ⟨_, _, _, _, _, hpar2, hch2, hd2, hsz2, _⟩ := appendRaw_ok h2 hne
        have hw2 : WF d2 := sp.wf.appendRaw hanc h2
        have hcont1 : d1.isContainer id = true := by rw [isContainer_congr (sp.frame.data id hid)]; exact hcont
        have hk2 : Kinds d2 := sp.kinds.attach hpar2 hd2 hcont1 (not_doc_of_eraseTc sp.data hcnd)
        -- frame d → d2 (children of `id` excepted)
        have hf2 : FrameX d d2 (some id) := by
          refine ⟨by rw [hsz2]; exact sp.frame.size, ?_, ?_, ?_⟩
          · intro y hy
            rw [hpar2]
            have : y ≠ k := fun e => Nat.lt_irrefl _ (Nat.lt_of_lt_of_le (e ▸ hy) sp.fresh)
            simp [this]; exact sp.frame.parent y hy
          · intro y hy; rw [hd2]; exact sp.frame.data y hy
          · intro y hy hne'
            rw [hch2]
            have : y ≠ id := fun e => hne' (by rw [e])
            simp [this]; exact sp.frame.children y hy (by simp)
        have hid2 : id < d2.size := by rw [hsz2]; exact hid1
        have hp2 : d2.parentOf id = none := by rw [hpar2]; simp [hne, hp1]
        have hcs2 : ∀ c' ∈ cs, c' < n0 ∧ d2.dataOf c' ≠ some .document ∧ d2.isContainer id = true := by
          intro c' hc'
          obtain ⟨a1, a2, a3⟩ := hcs c' (by simp [hc'])
          have hc'lt : c' < d.size := Nat.lt_of_lt_of_le a1 (Nat.le_trans hid0 (Nat.le_of_lt hid))
          exact ⟨a1, by rw [hf2.data c' hc'lt]; exact a2, by rw [isContainer_congr (hf2.data id hid)]; exact a3⟩
        obtain ⟨hw', hk', hf', hp'⟩ := ih d2 d' hw2 hk2 hid2 hp2 hcs2 h
        exact ⟨hw', hk', hf2.trans hf', hp'⟩

/-- **the repaired `clone_with_subtree` preserves the invariant** and satisfies `CloneSpec` -/
theorem cloneFixed_spec : ∀ (fuel : Nat) (d : Dom) (x : Id) (d' : Dom) (k : Id), WF d → Kinds d →
    Dom.cloneFixed d fuel x = .ok (d', k) → CloneSpec d d' x k := by
  intro fuel
  induction fuel with
  | zero => intro d x d' k _ _ h; simp [Dom.cloneFixed] at h
  | succ fuel ih =>
    intro d x d' k hw hk h
    simp only [Dom.cloneFixed, bind, Except.bind] at h
    cases hx : d.get x with
    | error e => simp [hx] at h
    | ok n =>
      have hn := get_ok.mp hx
      have hxlt := node?_lt hn
      simp only [hx] at h
      -- what remains to be done once the template contents (if any) are copied into `d1`
      have finish : ∀ (d1 : Dom) (data : NodeData), WF d1 → Kinds d1 → Frame d d1 →
          eraseTc data = eraseTc n.data → ∀ d3,
          Dom.cloneKidsWith (fun d c => Dom.cloneFixed d fuel c) d1.size (d1.alloc data).1 n.children = .ok d3 →
          CloneSpec d d3 x d1.size := by
        intro d1 data hw1 hk1 hf1 hdat d3 hl
        have hw2 := hw1.alloc data
        have hk2 := hk1.alloc data
        have hf2 : Frame d (d1.alloc data).1 := hf1.trans (frame_alloc d1 data)
        have hidlt : d1.size < (d1.alloc data).1.size := by simp
        have hpid : (d1.alloc data).1.parentOf d1.size = none := by
          rw [parentOf_alloc]; exact parentOf_none_of_ge (Nat.le_refl _)
        have hdid : (d1.alloc data).1.dataOf d1.size = some data := by rw [dataOf_alloc]; simp
        have hcontid : d.isContainer x = true → (d1.alloc data).1.isContainer d1.size = true := by
          intro hc
          have : (((d1.alloc data).1.dataOf d1.size).map eraseTc) = ((d.dataOf x).map eraseTc) := by
            rw [hdid, dataOf_of_node hn]; simp [hdat]
          rw [isContainer_of_eraseTc this]; exact hc
        have hcs : ∀ c ∈ n.children, c < d.size ∧ (d1.alloc data).1.dataOf c ≠ some .document ∧
            (d1.alloc data).1.isContainer d1.size = true := by
          intro c hc
          have hcx : c ∈ d.childrenOf x := by rw [childrenOf_of_node hn]; exact hc
          have hclt := child_valid hw hcx
          have hpar := (hw.links c x).mpr hcx
          exact ⟨hclt, by rw [hf2.data c hclt]; exact hk.childNotDoc c x hpar,
            hcontid (hk.parentContainer c x hpar)⟩
        obtain ⟨hw3, hk3, hf3, hp3⟩ := cloneKidsWith_spec (cl := fun d c => Dom.cloneFixed d fuel c)
          (fun d c d' k hw hk h => ih d c d' k hw hk h) (n0 := d.size) (id := d1.size) hf1.size
          n.children _ _ hw2 hk2 hidlt hpid hcs hl
        have hf3' : Frame d d3 :=
          (FrameX.weaken hf2 : FrameX d (d1.alloc data).1 (some d1.size)).trans
            ⟨hf3.size, hf3.parent, hf3.data, hf3.children⟩ |>.strengthen hf1.size
        refine ⟨hw3, hk3, hf3', hf1.size, Nat.lt_of_lt_of_le hidlt hf3.size, hp3, ?_⟩
        rw [hf3.data d1.size hidlt, hdid, dataOf_of_node hn]; simp [hdat]
      cases hdata : n.data with
      | element name attrs tc ip =>
        cases tc with
        | none =>
          simp only [hdata, pure, Except.pure] at h
          split at h
          · cases h
          · rename_i d3 hl
            rw [alloc_id] at hl h
            obtain ⟨h1, h2⟩ := Prod.mk.inj (Except.ok.inj h)
            subst h1; subst h2
            exact finish d _ hw hk (FrameX.refl _ _) (by rw [hdata]) _ hl
        | some tc =>
          simp only [hdata, pure, Except.pure] at h
          cases htc : Dom.cloneFixed d fuel tc with
          | error e => simp [htc] at h
          | ok r =>
            obtain ⟨d1, tc'⟩ := r
            simp only [htc] at h
            have sp := ih d tc d1 tc' hw hk htc
            split at h
            · cases h
            · rename_i d3 hl
              rw [alloc_id] at hl h
              obtain ⟨h1, h2⟩ := Prod.mk.inj (Except.ok.inj h)
              subst h1; subst h2
              exact finish d1 _ sp.wf sp.kinds sp.frame (by rw [hdata]; simp [eraseTc]) _ hl
      | document | doctype _ _ _ | text _ | comment _ | pi _ _ =>
        simp only [hdata, pure, Except.pure] at h
        split at h
        · cases h
        · rename_i d3 hl
          rw [alloc_id] at hl h
          obtain ⟨h1, h2⟩ := Prod.mk.inj (Except.ok.inj h)
          subst h1; subst h2
          exact finish d _ hw hk (FrameX.refl _ _) (by rw [hdata]) _ hl

/-! ### "clone an option into a selectedcontent" -/

/-- element-wise relation between two lists of the same length -/
inductive Pairs (R : Id → Id → Prop) : List Id → List Id → Prop
  | nil : Pairs R [] []
  | cons {a b : Id} {l1 l2 : List Id} : R a b → Pairs R l1 l2 → Pairs R (a :: l1) (b :: l2)

theorem Pairs.length_eq {R : Id → Id → Prop} {l1 l2 : List Id} (h : Pairs R l1 l2) : l1.length = l2.length := by
  induction h with
  | nil => rfl
  | cons _ _ ih => simp [ih]

/-- step 2: the list of copies -/
theorem cloneListWith_spec {cl : Dom → Id → Except String (Dom × Id)}
    (hcl : ∀ d c d' k, WF d → Kinds d → cl d c = .ok (d', k) → CloneSpec d d' c k) :
    ∀ (cs : List Id) (d d' : Dom) (ks : List Id), WF d → Kinds d →
      (∀ c ∈ cs, c < d.size) → Dom.cloneListWith cl d cs = .ok (d', ks) →
      WF d' ∧ Kinds d' ∧ Frame d d' ∧ ks.Nodup ∧
      (∀ k ∈ ks, d.size ≤ k ∧ k < d'.size ∧ d'.parentOf k = none) ∧
      Pairs (fun c k => (d'.dataOf k).map eraseTc = (d.dataOf c).map eraseTc) cs ks := by
  intro cs
  induction cs with
  | nil =>
    intro d d' ks hw hk _ h
    simp [Dom.cloneListWith] at h
    obtain ⟨h1, h2⟩ := h; subst h1; subst h2
    exact ⟨hw, hk, FrameX.refl _ _, by simp, by simp, Pairs.nil⟩
  | cons c cs ih =>
    intro d d' ks hw hk hcs h
    simp only [Dom.cloneListWith, bind, Except.bind] at h
    cases h1 : cl d c with
    | error e => simp [h1] at h
    | ok r =>
      obtain ⟨d1, k⟩ := r
      simp only [h1] at h
      have sp := hcl d c d1 k hw hk h1
      cases h2 : Dom.cloneListWith cl d1 cs with
      | error e => simp [h2] at h
      | ok r2 =>
        obtain ⟨d2, ks'⟩ := r2
        simp only [h2] at h
        obtain ⟨e1, e2⟩ := Prod.mk.inj (Except.ok.inj h)
        subst e1; subst e2
        have hcs1 : ∀ c' ∈ cs, c' < d1.size := fun c' hc' =>
          Nat.lt_of_lt_of_le (hcs c' (by simp [hc'])) sp.frame.size
        obtain ⟨hw2, hk2, hf2, hnd, hks, hfa⟩ := ih d1 d2 ks' sp.wf sp.kinds hcs1 h2
        refine ⟨hw2, hk2, sp.frame.trans hf2, ?_, ?_, ?_⟩
        · refine List.nodup_cons.mpr ⟨?_, hnd⟩
          intro hm
          exact Nat.lt_irrefl _ (Nat.lt_of_lt_of_le sp.valid (hks k hm).1)
        · intro k' hk'
          simp only [List.mem_cons] at hk'
          rcases hk' with e | hk'
          · subst e
            exact ⟨sp.fresh, Nat.lt_of_lt_of_le sp.valid hf2.size, by rw [hf2.parent _ sp.valid]; exact sp.root⟩
          · obtain ⟨a1, a2, a3⟩ := hks k' hk'
            exact ⟨Nat.le_trans sp.frame.size a1, a2, a3⟩
        · refine Pairs.cons ?_ ?_
          · rw [hf2.data k sp.valid]; exact sp.data
          · -- the data of the remaining originals did not change while `c` was copied
            have : ∀ (l1 l2 : List Id), (∀ c' ∈ l1, c' < d.size) →
                Pairs (fun c k => (d2.dataOf k).map eraseTc = (d1.dataOf c).map eraseTc) l1 l2 →
                Pairs (fun c k => (d2.dataOf k).map eraseTc = (d.dataOf c).map eraseTc) l1 l2 := by
              intro l1 l2 hl hf
              induction hf with
              | nil => exact Pairs.nil
              | @cons a b l1 l2 hab _ ih2 =>
                refine Pairs.cons ?_ (ih2 (fun c' hc' => hl c' (by simp [hc'])))
                rw [hab, sp.frame.data a (hl a (by simp))]
            exact this cs ks' (fun c' hc' => hcs c' (by simp [hc'])) hfa

theorem clearParents_ok : ∀ (cs : List Id) (d : Dom),
    (∀ x, (d.clearParents cs).parentOf x = if x ∈ cs then none else d.parentOf x) ∧
    (∀ x, (d.clearParents cs).childrenOf x = d.childrenOf x) ∧
    (∀ x, (d.clearParents cs).dataOf x = d.dataOf x) ∧ (d.clearParents cs).size = d.size := by
  intro cs
  induction cs with
  | nil => intro d; simp [Dom.clearParents]
  | cons c cs ih =>
    intro d
    simp only [Dom.clearParents]
    cases hc : d.nodes[c]? with
    | none =>
      simp only
      obtain ⟨i1, i2, i3, i4⟩ := ih d
      refine ⟨?_, i2, i3, i4⟩
      intro x; rw [i1]
      by_cases hx : x ∈ cs
      · simp [hx]
      · by_cases hxc : x = c
        · subst hxc; simp [Dom.parentOf, hc]
        · simp [hx, hxc]
    | some cn =>
      simp only
      have hcn : d.node? c = some cn := hc
      obtain ⟨i1, i2, i3, i4⟩ := ih (d.setNode c { cn with parent := none })
      refine ⟨?_, ?_, ?_, ?_⟩
      · intro x; rw [i1, parentOf_setNode hcn]
        by_cases hx : x ∈ cs
        · simp [hx]
        · by_cases hxc : x = c
          · simp [hxc]
          · simp [hx, hxc]
      · intro x; rw [i2, childrenOf_setNode hcn]
        by_cases hxc : x = c
        · subst hxc; simp [childrenOf_of_node hcn]
        · simp [hxc]
      · intro x; rw [i3, dataOf_setNode hcn]
        by_cases hxc : x = c
        · subst hxc; simp [dataOf_of_node hcn]
        · simp [hxc]
      · rw [i4]; simp

theorem detachChildren_ok {d d' : Dom} {p : Id} (h : d.detachChildren p = .ok d') :
    p < d.size ∧
    (∀ x, d'.parentOf x = if x ∈ d.childrenOf p then none else d.parentOf x) ∧
    (∀ x, d'.childrenOf x = if x = p then [] else d.childrenOf x) ∧
    (∀ x, d'.dataOf x = d.dataOf x) ∧ d'.size = d.size := by
  unfold Dom.detachChildren at h
  simp only [bind, Except.bind] at h
  cases hp : d.get p with
  | error e => simp [hp] at h
  | ok pn =>
    have hpn := get_ok.mp hp
    simp only [hp] at h
    obtain ⟨c1, c2, c3, c4⟩ := clearParents_ok pn.children d
    have hplt : p < (d.clearParents pn.children).size := by rw [c4]; exact node?_lt hpn
    obtain ⟨pn1, hpn1⟩ := node?_of_lt hplt
    rw [get_ok_of hpn1] at h
    simp at h
    subst h
    refine ⟨node?_lt hpn, ?_, ?_, ?_, by simp [c4]⟩
    · intro x; rw [parentOf_setNode hpn1, childrenOf_of_node hpn]
      by_cases hx : x = p
      · subst hx; simp; rw [← parentOf_of_node hpn1, c1]
      · simp [hx]; exact c1 x
    · intro x; rw [childrenOf_setNode hpn1]
      by_cases hx : x = p
      · simp [hx]
      · simp [hx]; exact c2 x
    · intro x; rw [dataOf_setNode hpn1]
      by_cases hx : x = p
      · subst hx; simp; rw [← dataOf_of_node hpn1, c3]
      · simp [hx]; exact c3 x

/-- all children of `p` cut loose at once -/
theorem WF.detachAll {d d' : Dom} (h : WF d) {p : Id}
    (hp : ∀ x, d'.parentOf x = if x ∈ d.childrenOf p then none else d.parentOf x)
    (hch : ∀ x, d'.childrenOf x = if x = p then [] else d.childrenOf x) : WF d' where
  links := by
    intro c q
    rw [hp, hch]
    by_cases hc : c ∈ d.childrenOf p
    · have hpar := (h.links c p).mpr hc
      simp only [hc, if_true]
      by_cases hq : q = p
      · simp [hq]
      · have : ¬ c ∈ d.childrenOf q := fun hm => by
          have := (h.links c q).mpr hm; rw [hpar] at this; exact hq (Option.some.inj this).symm
        simp [hq, this]
    · simp only [hc, if_false]
      by_cases hq : q = p
      · subst hq; simp
        intro hh; exact hc ((h.links c q).mp hh)
      · simp [hq]; exact h.links c q
  nodup := by
    intro q; rw [hch]
    by_cases hq : q = p
    · simp [hq]
    · simp [hq]; exact h.nodup q
  rooted := by
    intro x
    refine rooted_redirect (S := fun _ => False) (q := p) (h.rooted p) ?_ ?_ ?_ x (h.rooted x)
    · intro s hs; exact hs.elim
    · intro x hx; exact hx.elim
    · intro x _; rw [hp]
      by_cases hx : x ∈ d.childrenOf p
      · exact Or.inr (by simp [hx])
      · exact Or.inl (by simp [hx])

/-- parents of the first `n0` nodes are among the first `n0` nodes -/
def OldClosed (n0 : Nat) (d : Dom) : Prop := ∀ y, y < n0 → ∀ q, d.parentOf y = some q → q < n0

theorem OldClosed.anc {n0 : Nat} {d : Dom} (ho : OldClosed n0 d) {a x : Id} (hx : x < n0) (h : Anc d a x) :
    a < n0 := by
  induction h with
  | refl => exact hx
  | @step x q hp _ ih => exact ih (ho x hx q hp)

/-- "replace all", second half -/
theorem attachAll_spec {n0 : Nat} {p : Id} (hpn : p < n0) : ∀ (ks : List Id) (d d' : Dom), WF d → Kinds d →
    OldClosed n0 d → d.isContainer p = true → ks.Nodup →
    (∀ k ∈ ks, n0 ≤ k ∧ d.parentOf k = none ∧ d.dataOf k ≠ some .document) →
    d.attachAll p ks = .ok d' →
    WF d' ∧ Kinds d' ∧ OldClosed n0 d' ∧ d'.childrenOf p = d.childrenOf p ++ ks ∧
    (∀ x, d'.parentOf x = if x ∈ ks then some p else d.parentOf x) ∧
    (∀ x, x ≠ p → d'.childrenOf x = d.childrenOf x) ∧ (∀ x, d'.dataOf x = d.dataOf x) ∧ d'.size = d.size := by
  intro ks
  induction ks with
  | nil =>
    intro d d' hw hk ho _ _ _ h
    simp [Dom.attachAll] at h; subst h
    exact ⟨hw, hk, ho, by simp, by simp, fun _ _ => rfl, fun _ => rfl, rfl⟩
  | cons k ks ih =>
    intro d d' hw hk ho hcont hnd hks h
    simp only [Dom.attachAll, bind, Except.bind] at h
    cases h1 : d.appendRaw p k with
    | error e => simp [h1] at h
    | ok d1 =>
      simp only [h1] at h
      obtain ⟨hk0, hkp, hkd⟩ := hks k (by simp)
      have hne : p ≠ k := fun e => Nat.lt_irrefl _ (Nat.lt_of_lt_of_le (e ▸ hpn) hk0)
      have hanc : ¬ Anc d k p := fun ha => Nat.lt_irrefl _ (Nat.lt_of_lt_of_le (ho.anc hpn ha) hk0)
      obtain ⟨_, _, _, _, _, hp1, hc1, hd1, hs1, _⟩ := appendRaw_ok h1 hne
      have hw1 := hw.appendRaw hanc h1
      have hk1 := hk.attach hp1 hd1 hcont hkd
      have ho1 : OldClosed n0 d1 := by
        intro y hy q hq
        rw [hp1] at hq
        have : y ≠ k := fun e => Nat.lt_irrefl _ (Nat.lt_of_lt_of_le (e ▸ hy) hk0)
        simp [this] at hq
        exact ho y hy q hq
      obtain ⟨hkn, hndt⟩ := List.nodup_cons.mp hnd
      have hks1 : ∀ k' ∈ ks, n0 ≤ k' ∧ d1.parentOf k' = none ∧ d1.dataOf k' ≠ some .document := by
        intro k' hk'
        obtain ⟨a1, a2, a3⟩ := hks k' (by simp [hk'])
        have : k' ≠ k := fun e => hkn (e ▸ hk')
        exact ⟨a1, by rw [hp1]; simp [this, a2], by rw [hd1]; exact a3⟩
      obtain ⟨r1, r2, r3, r4, r5, r6, r7, r8⟩ := ih d1 d' hw1 hk1 ho1
        (by rw [isContainer_congr (hd1 p)]; exact hcont) hndt hks1 h
      refine ⟨r1, r2, r3, ?_, ?_, ?_, ?_, by rw [r8, hs1]⟩
      · rw [r4, hc1]; simp
      · intro x; rw [r5, hp1]
        by_cases hx : x ∈ ks
        · simp [hx]
        · by_cases hxk : x = k
          · simp [hxk]
          · simp [hx, hxk]
      · intro x hx; rw [r6 x hx, hc1]; simp [hx]
      · intro x; rw [r7, hd1]

theorem Pairs.mem_right {R : Id → Id → Prop} {l1 l2 : List Id} (h : Pairs R l1 l2) :
    ∀ b ∈ l2, ∃ a ∈ l1, R a b := by
  induction h with
  | nil => intro b hb; cases hb
  | @cons a b l1 l2 hab _ ih =>
    intro b' hb'
    simp only [List.mem_cons] at hb'
    rcases hb' with e | hb'
    · subst e; exact ⟨a, by simp, hab⟩
    · obtain ⟨a', ha', hr⟩ := ih b' hb'
      exact ⟨a', by simp [ha'], hr⟩

theorem Pairs.imp {R S : Id → Id → Prop} {l1 l2 : List Id} (h : Pairs R l1 l2)
    (hi : ∀ a b, a ∈ l1 → b ∈ l2 → R a b → S a b) : Pairs S l1 l2 := by
  induction h with
  | nil => exact Pairs.nil
  | @cons a b l1 l2 hab _ ih =>
    exact Pairs.cons (hi a b (by simp) (by simp) hab)
      (ih (fun a' b' ha' hb' => hi a' b' (by simp [ha']) (by simp [hb'])))

/-- **"clone an option into a selectedcontent" (repaired) preserves the invariant**, and at the top
level does what the standard says: the children of the selectedcontent are fresh nodes, one per child
of the option, in order, carrying the same data; they point to the selectedcontent; the old
children are detached; nothing else that existed before changes. -/
theorem cloneOptionInto_fixed_spec {d d' : Dom} {o sc : Id} (hw : WF d) (hk : Kinds d)
    (hsc : d.isContainer sc = true) (h : d.cloneOptionInto .fixed o sc = .ok d') :
    WF d' ∧ Kinds d' ∧
    Pairs (fun c k => (d'.dataOf k).map eraseTc = (d.dataOf c).map eraseTc) (d.childrenOf o) (d'.childrenOf sc) ∧
    (∀ k ∈ d'.childrenOf sc, d.size ≤ k ∧ d'.parentOf k = some sc) ∧
    (∀ c ∈ d.childrenOf sc, d'.parentOf c = none) ∧
    (∀ y, y < d.size → d'.dataOf y = d.dataOf y) ∧
    (∀ y, y < d.size → y ≠ sc → d'.childrenOf y = d.childrenOf y) ∧
    (∀ y, y < d.size → y ∉ d.childrenOf sc → d'.parentOf y = d.parentOf y) := by
  unfold Dom.cloneOptionInto at h
  simp only [bind, Except.bind] at h
  cases ho : d.get o with
  | error e => simp [ho] at h
  | ok on =>
    have hon := get_ok.mp ho
    simp only [ho] at h
    have hsclt := lt_of_isContainer hsc
    cases h1 : Dom.cloneListWith (fun d c => Dom.cloneFixed d (d.size + 1) c) d on.children with
    | error e => simp [h1] at h
    | ok r =>
      obtain ⟨d1, ks⟩ := r
      simp only [h1] at h
      have hoch : d.childrenOf o = on.children := childrenOf_of_node hon
      obtain ⟨hw1, hk1, hf1, hnd, hks, hpairs⟩ := cloneListWith_spec
        (cl := fun d c => Dom.cloneFixed d (d.size + 1) c)
        (fun d c d' k hw hk h => cloneFixed_spec _ d c d' k hw hk h) on.children d d1 ks hw hk
        (fun c hc => child_valid hw (by rw [hoch]; exact hc)) h1
      cases h2 : d1.detachChildren sc with
      | error e => simp [h2] at h
      | ok d2 =>
        simp only [h2] at h
        obtain ⟨_, hp2, hc2, hd2, hs2⟩ := detachChildren_ok h2
        have hw2 : WF d2 := hw1.detachAll hp2 hc2
        have hk2 : Kinds d2 := by
          refine hk1.of_effects ?_ ?_ ?_
          · intro x hx; rw [isContainer_congr (hd2 x)]; exact hx
          · intro x _ hh; rw [← hd2 x]; exact hh
          · intro c q hh; rw [hp2] at hh
            by_cases hc : c ∈ d1.childrenOf sc
            · simp [hc] at hh
            · simp [hc] at hh; exact Or.inl hh
        have hsc1 : d1.childrenOf sc = d.childrenOf sc := hf1.children sc hsclt (by simp)
        have ho2 : OldClosed d.size d2 := by
          intro y hy q hq
          rw [hp2] at hq
          by_cases hc : y ∈ d1.childrenOf sc
          · simp [hc] at hq
          · simp [hc] at hq
            rw [hf1.parent y hy] at hq
            exact parent_lt_size hw hq
        have hcont2 : d2.isContainer sc = true := by
          rw [isContainer_congr (hd2 sc), isContainer_congr (hf1.data sc hsclt)]; exact hsc
        have hks2 : ∀ k ∈ ks, d.size ≤ k ∧ d2.parentOf k = none ∧ d2.dataOf k ≠ some .document := by
          intro k hkm
          obtain ⟨a1, _, a3⟩ := hks k hkm
          refine ⟨a1, ?_, ?_⟩
          · rw [hp2]; split
            · rfl
            · exact a3
          · rw [hd2]
            obtain ⟨c, hc, hr⟩ := hpairs.mem_right k hkm
            have hcx : c ∈ d.childrenOf o := by rw [hoch]; exact hc
            exact not_doc_of_eraseTc hr (hk.childNotDoc c o ((hw.links c o).mpr hcx))
        obtain ⟨r1, r2, _, r4, r5, r6, r7, r8⟩ :=
          attachAll_spec (n0 := d.size) hsclt ks d2 d' hw2 hk2 ho2 hcont2 hnd hks2 h
        have hch' : d'.childrenOf sc = ks := by rw [r4, hc2]; simp
        refine ⟨r1, r2, ?_, ?_, ?_, ?_, ?_, ?_⟩
        · rw [hch', hoch]
          exact hpairs.imp (fun a b _ _ hr => by rw [r7, hd2]; exact hr)
        · intro k hkm
          rw [hch'] at hkm
          exact ⟨(hks k hkm).1, by rw [r5]; simp [hkm]⟩
        · intro c hc
          rw [r5]
          have hcl : c < d.size := child_valid hw hc
          have : c ∉ ks := fun hm => Nat.lt_irrefl _ (Nat.lt_of_lt_of_le hcl (hks c hm).1)
          simp [this]; rw [hp2, hsc1]; simp [hc]
        · intro y hy; rw [r7, hd2]; exact hf1.data y hy
        · intro y hy hne; rw [r6 y hne, hc2]; simp [hne]; exact hf1.children y hy (by simp)
        · intro y hy hnc
          rw [r5]
          have : y ∉ ks := fun hm => Nat.lt_irrefl _ (Nat.lt_of_lt_of_le hy (hks y hm).1)
          simp [this]; rw [hp2, hsc1]; simp [hnc]; exact hf1.parent y hy

theorem enabledSelectedcontent_fixed_element {d : Dom} {select sc : Id}
    (h : d.enabledSelectedcontent .fixed select = .ok (some sc)) : d.isContainer sc = true := by
  unfold Dom.enabledSelectedcontent at h
  simp only [bind, Except.bind] at h
  cases hs : d.get select with
  | error e => simp [hs] at h
  | ok sn =>
    simp only [hs] at h
    cases hdata : sn.data with
    | element name attrs tc ip =>
      simp only [hdata] at h
      by_cases hn : name.loc ≠ sSelect
      · simp [hn, throw, throwThe, MonadExceptOf.throw] at h
      · simp only [hn, if_false] at h
        by_cases hm : Dom.hasAttrLocal attrs sMultiple = true
        · simp [hm] at h
        · simp [hm] at h
          have := List.find?_some h
          simp only [beq_iff_eq] at this
          unfold Dom.localNameOf at this
          unfold Dom.isContainer
          cases hd : d.dataOf sc with
          | none => simp [hd] at this
          | some v => cases v <;> simp_all
    | document | doctype _ _ _ | comment _ | text _ | pi _ _ =>
      simp [hdata, throw, throwThe, MonadExceptOf.throw] at h

theorem cloneTarget_fixed_element {d : Dom} {o sc : Id} (h : d.cloneTarget .fixed o = .ok (some sc)) :
    d.isContainer sc = true := by
  unfold Dom.cloneTarget at h
  simp only [bind, Except.bind] at h
  cases ho : d.get o with
  | error e => simp [ho] at h
  | ok on =>
    simp only [ho] at h
    cases hdata : on.data with
    | element name attrs tc ip =>
      simp only [hdata] at h
      by_cases hn : name.loc ≠ sOption
      · simp [hn, throw, throwThe, MonadExceptOf.throw] at h
      · simp only [hn, if_false] at h
        cases hsel : d.nearestAncestorSelect o with
        | error e => simp [hsel] at h
        | ok sel =>
          simp only [hsel] at h
          cases sel with
          | none => simp at h
          | some select =>
            simp only at h
            cases hsc : d.enabledSelectedcontent .fixed select with
            | error e => simp [hsc] at h
            | ok r =>
              simp only [hsc] at h
              cases r with
              | none => simp at h
              | some sc' =>
                simp only at h
                split at h
                · simp at h; subst h; exact enabledSelectedcontent_fixed_element hsc
                · simp at h
    | document | doctype _ _ _ | comment _ | text _ | pi _ _ =>
      simp [hdata, throw, throwThe, MonadExceptOf.throw] at h

/-- `maybe_clone_an_option_into_selectedcontent` (repaired) preserves the invariant -/
theorem maybeCloneOption_fixed_inv {d d' : Dom} {o : Id} (hw : WF d) (hk : Kinds d)
    (h : d.maybeCloneOption .fixed o = .ok d') : WF d' ∧ Kinds d' := by
  unfold Dom.maybeCloneOption at h
  simp only [bind, Except.bind] at h
  cases ht : d.cloneTarget .fixed o with
  | error e => simp [ht] at h
  | ok r =>
    simp only [ht] at h
    cases r with
    | none => simp at h; subst h; exact ⟨hw, hk⟩
    | some sc =>
      simp only at h
      obtain ⟨a, b, _⟩ := cloneOptionInto_fixed_spec hw hk (cloneTarget_fixed_element ht) h
      exact ⟨a, b⟩

end H5V.Lemmas.Dom
