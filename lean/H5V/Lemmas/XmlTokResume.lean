import H5V.Lemmas.XmlTokStep
/-!
Resumability of `XmlTokenizer::step`: a suspended step, re-executed after more input arrived,
behaves like the step on the concatenated input (up to a dead `current_char`).
Port of `H5V.Lemmas.HtmlTokResume`; the fast-path/slow-path comparison uses the side condition on
the `small_char_set!`s (`setOf_cover`: every set contains `\r`, `\0` and the state's special characters).
-/
namespace H5V.Model.XmlTok

/-! ### simulation up to a dead `current_char`

`pop_except_from` does not set `current_char` for a run of non-set characters ("It shouldn't
matter for the codepaths that use this", says the source). In a state read with `pop_except_from`,
with no pending reconsume and no character reference in progress, the register is dead: the next
read overwrites it before anything looks at it. -/

def deadCC (m : Mach) : Prop :=
  m.reconsume = false ∧ m.charRef = none ∧ readKind m.state = .popExcept

/-- equal, or equal up to a dead `current_char` -/
def Sim (m1 m2 : Mach) : Prop := m1 = m2 ∨ (deadCC m1 ∧ ∃ a, m2 = m1.setCurrentChar a)

theorem Sim.refl (m : Mach) : Sim m m := Or.inl rfl

def RSim : R → R → Prop
  | .cont a i, .cont b j => Sim a b ∧ i = j
  | .suspend a i, .suspend b j => Sim a b ∧ i = j
  | .panic x, .panic y => x = y
  | _, _ => False

theorem RSim.refl (r : R) : RSim r r := by
  cases r <;> simp [RSim, Sim.refl]

theorem RSim.of_eq {r1 r2 : R} (h : r1 = r2) : RSim r1 r2 := h ▸ RSim.refl r1

@[simp] theorem setCurrentChar_setCurrentChar (m : Mach) (a b : Char) :
    (m.setCurrentChar a).setCurrentChar b = m.setCurrentChar b := by
  cases m; rfl
theorem setIgnoreLf_setCurrentChar (m : Mach) (a : Char) (b : Bool) :
    (m.setCurrentChar a).setIgnoreLf b = (m.setIgnoreLf b).setCurrentChar a := by
  cases m; rfl
theorem emit_setCurrentChar (m : Mach) (a : Char) (t : Token) :
    emit (m.setCurrentChar a) t = (emit m t).setCurrentChar a := by
  cases m; rfl

/-- `foldChar` overwrites `current_char`: its previous value is irrelevant -/
theorem foldChar_setCurrentChar (o : Opts) (m : Mach) (a c : Char) :
    foldChar o (m.setCurrentChar a) c = foldChar o m c := by
  unfold foldChar
  by_cases h1 : c = '\r'
  · simp only [h1, ↓reduceIte, setIgnoreLf_setCurrentChar]
    split <;> split <;> simp only [emit_setCurrentChar, setCurrentChar_setCurrentChar]
  · simp only [h1, ↓reduceIte]
    split <;> split <;> simp only [emit_setCurrentChar, setCurrentChar_setCurrentChar]

theorem deadCC_setCurrentChar (m : Mach) (a : Char) : deadCC (m.setCurrentChar a) ↔ deadCC m := by
  unfold deadCC; simp

theorem Sim.symm {m1 m2 : Mach} (h : Sim m1 m2) : Sim m2 m1 := by
  rcases h with h | ⟨hd, a, ha⟩
  · exact Or.inl h.symm
  · subst ha
    exact Or.inr ⟨(deadCC_setCurrentChar m1 a).mpr hd, m1.currentChar, rfl⟩

theorem Sim.trans {m1 m2 m3 : Mach} (h12 : Sim m1 m2) (h23 : Sim m2 m3) : Sim m1 m3 := by
  rcases h12 with h | ⟨hd, a, ha⟩
  · subst h; exact h23
  · subst ha
    rcases h23 with h | ⟨_, b, hb⟩
    · subst h; exact Or.inr ⟨hd, a, rfl⟩
    · subst hb; exact Or.inr ⟨hd, b, rfl⟩

theorem Sim.out {m1 m2 : Mach} (h : Sim m1 m2) : m1.out = m2.out := by
  rcases h with h | ⟨_, a, ha⟩
  · rw [h]
  · subst ha; rfl

/-! ### resume: get_char states -/

theorem resume_getChar (o : Opts) (m m' : Mach) (inp inp' e : Str)
    (hcr : m.charRef = none) (hrk : readKind m.state = .getChar)
    (h : getChar o m inp = (none, m', inp')) :
    inp' = [] ∧ step o m' e = step o m (inp ++ e) := by
  have hres := getChar_resume o m m' inp inp' e h
  obtain ⟨h1, h2, h3⟩ := getChar_none o m m' inp inp' h
  subst h1
  refine ⟨rfl, ?_⟩
  have hs : m'.state = m.state ∧ m'.charRef = m.charRef := by
    rcases h3 with ⟨_, h4⟩ | ⟨_, _, h4⟩ <;> subst h4 <;> simp
  unfold step
  simp only [hs.2, hcr, hs.1, hrk]
  simp only [List.nil_append] at hres
  rw [hres]

/-! ### resume: pop_except_from states -/

theorem popExceptFrom_nil (o : Opts) (S : List Char) (m : Mach) (hr : m.reconsume = false) :
    popExceptFrom o S m [] = (none, m, []) := by
  unfold popExceptFrom getChar
  split <;> simp [hr]

theorem preprocess_plain (o : Opts) (m : Mach) (x : Char) (xs : Str) (h : m.ignoreLf = false) :
    preprocess o m x xs = (some (foldChar o m x).1, (foldChar o m x).2, xs) := by
  unfold preprocess; simp [h]

/-- the continuation of a `pop_except_from` state after its read -/
def contSet (r : Option SetRes × Mach × Str) : R :=
  match r with
  | (none, m, inp) => .suspend m inp
  | (some r, m, inp) => ofSig (transSet m r) inp

theorem step_popExcept (o : Opts) (m : Mach) (inp : Str)
    (hcr : m.charRef = none) (hrk : readKind m.state = .popExcept) :
    step o m inp = contSet (popExceptFrom o (setOf m.state) m inp) := by
  cases hp : popExceptFrom o (setOf m.state) m inp with
  | mk a b =>
    obtain ⟨m1, i1⟩ := b
    cases a <;> simp [step, contSet, hcr, hrk, hp]

/-- the characters a `pop_except_from` state's table distinguishes -/
def special : State → List Char
  | .data => ['&', '<']
  | .tagAttrValue .doubleQuoted => ['"', '&']
  | .tagAttrValue .singleQuoted => ['\'', '&']
  | .tagAttrValue .unquoted => ['\t', '\n', ' ', '&', '>']
  | _ => []

/-- **Side condition of the fast path** (what DESIGN 1.3 item 12 violated): every `small_char_set!`
contains `\r`, `\0` and every character its state's table treats specially -/
theorem setOf_cover (s : State) (h : readKind s = .popExcept) :
    '\r' ∈ setOf s ∧ '\x00' ∈ setOf s ∧ ∀ c ∈ special s, c ∈ setOf s := by
  cases s <;> simp [readKind] at h
  · decide
  · rename_i k; cases k <;> decide

/-- outside the set `get_preprocessed_char` is the identity (with `exact_errors` off) -/
theorem foldChar_plain (o : Opts) (m : Mach) (x : Char) (hex : o.exactErrors = false)
    (hr : x ≠ '\r') (h0 : x ≠ '\x00') : foldChar o m x = (x, m.setCurrentChar x) := by
  unfold foldChar; simp [hex, hr, h0]

/-- **fast path = slow path**: for a character outside the state's set, the table does the same with
a one-character `NotFromSet` run as with `FromSet` of that character -/
theorem transSet_dead (m : Mach) (x : Char) (hk : readKind m.state = .popExcept)
    (hx : x ∉ setOf m.state) : transSet m (.fromSet x) = transSet m (.notFromSet [x]) := by
  have hc := setOf_cover m.state hk
  have h0 : x ≠ '\x00' := fun h => hx (h ▸ hc.2.1)
  have hsp : ∀ c ∈ special m.state, x ≠ c := fun c hc' h => hx (h ▸ hc.2.2 c hc')
  unfold transSet
  cases hs : m.state <;> simp [hs, readKind] at hk
  · -- data
    have h1 := hsp '&' (by simp [hs, special]); have h2 := hsp '<' (by simp [hs, special])
    simp [h1, h2, emitChar, emitChars, h0]
  · rename_i k
    cases k with
    | doubleQuoted =>
      have h1 := hsp '"' (by simp [hs, special]); have h2 := hsp '&' (by simp [hs, special])
      simp [h1, h2, pushValue, appendValue]
    | singleQuoted =>
      have h1 := hsp '\'' (by simp [hs, special]); have h2 := hsp '&' (by simp [hs, special])
      simp [h1, h2, pushValue, appendValue]
    | unquoted =>
      have h1 := hsp '\t' (by simp [hs, special]); have h2 := hsp '\n' (by simp [hs, special])
      have h3 := hsp ' ' (by simp [hs, special]); have h4 := hsp '&' (by simp [hs, special])
      have h5 := hsp '>' (by simp [hs, special])
      simp [h1, h2, h3, h4, h5, pushValue, appendValue]


/-! the table never looks at `current_char` in a `pop_except_from` state -/

theorem to_setCC (s : State) (m : Mach) (a : Char) : to s (m.setCurrentChar a) = (to s m).setCurrentChar a := by
  cases m; rfl
theorem consumeCharRef_setCC (x : Option Char) (m : Mach) (a : Char) :
    consumeCharRef x (m.setCurrentChar a) = (consumeCharRef x m).setCurrentChar a := by cases m; rfl
theorem emitChar_setCC (m : Mach) (a c : Char) : emitChar (m.setCurrentChar a) c = (emitChar m c).setCurrentChar a := by
  cases m; rfl
theorem emitChars_setCC (m : Mach) (a : Char) (s : Str) :
    emitChars (m.setCurrentChar a) s = (emitChars m s).setCurrentChar a := by cases m; rfl
theorem pushValue_setCC (m : Mach) (a c : Char) : pushValue c (m.setCurrentChar a) = (pushValue c m).setCurrentChar a := by
  cases m; rfl
theorem appendValue_setCC (m : Mach) (a : Char) (s : Str) :
    appendValue s (m.setCurrentChar a) = (appendValue s m).setCurrentChar a := by cases m; rfl
theorem emitErr_setCC (m : Mach) (a : Char) (s : String) :
    emitErr (m.setCurrentChar a) s = (emitErr m s).setCurrentChar a := by cases m; rfl

theorem finishAttribute_setCC (m : Mach) (a : Char) :
    finishAttribute (m.setCurrentChar a) = (finishAttribute m).setCurrentChar a := by
  unfold finishAttribute
  have e1 : (m.setCurrentChar a).attrName = m.attrName := rfl
  have e2 : (m.setCurrentChar a).tagAttrs = m.tagAttrs := rfl
  have e3 : (m.setCurrentChar a).attrValue = m.attrValue := rfl
  simp only [e1, e2, e3]
  split
  · rfl
  · split
    · cases m; rfl
    · split <;> (cases m; rfl)

theorem emitCurrentTag_setCC (m : Mach) (a : Char) :
    emitCurrentTag (m.setCurrentChar a) = (emitCurrentTag m).setCurrentChar a := by
  unfold emitCurrentTag
  rw [finishAttribute_setCC]
  generalize finishAttribute m = m1
  cases m1 with
  | mk st cr cc rc il tk tn ta an av cm dt pt pd tb ae db out =>
    simp only [Mach.setCurrentChar]
    cases tk <;> cases ta <;> rfl

theorem emitTag_setCC (s : State) (m : Mach) (a : Char) :
    emitTag s (m.setCurrentChar a) = (emitTag s m).setCurrentChar a := by
  unfold emitTag; rw [to_setCC, emitCurrentTag_setCC]

theorem transSet_setCC (m : Mach) (a : Char) (r : SetRes) :
    transSet (m.setCurrentChar a) r = ((transSet m r).1.setCurrentChar a, (transSet m r).2) := by
  unfold transSet
  have e : (m.setCurrentChar a).state = m.state := rfl
  simp only [e]
  split <;> (try split) <;> (try split) <;> (try split) <;>
    simp only [to_setCC, consumeCharRef_setCC, emitChar_setCC, emitChars_setCC, pushValue_setCC,
      appendValue_setCC, emitTag_setCC]


/-- what a `NotFromSet` run does to the control registers: nothing -/
theorem transSet_notFromSet (m : Mach) (b : Str) (hk : readKind m.state = .popExcept) :
    (transSet m (.notFromSet b)).1.state = m.state ∧ (transSet m (.notFromSet b)).1.charRef = m.charRef ∧
    (transSet m (.notFromSet b)).1.reconsume = m.reconsume ∧ (transSet m (.notFromSet b)).2 = .cont := by
  unfold transSet
  cases hs : m.state <;> simp [hs, readKind] at hk <;> simp [hs]

theorem resume_popExcept (o : Opts) (m m' : Mach) (inp inp' e : Str)
    (hcr : m.charRef = none) (hrk : readKind m.state = .popExcept)
    (h : popExceptFrom o (setOf m.state) m inp = (none, m', inp')) :
    inp' = [] ∧ RSim (step o m (inp ++ e)) (step o m' e) := by
  obtain ⟨h1, h2, h3⟩ := popExceptFrom_none o _ m m' inp inp' h
  subst h1
  refine ⟨rfl, ?_⟩
  rcases h3 with ⟨h3, h4⟩ | ⟨h3, hil, h4⟩
  · subst h3 h4; exact RSim.refl _
  · subst h3 h4
    have hst : (m.setIgnoreLf false).state = m.state := by simp
    rw [step_popExcept o m _ hcr hrk, step_popExcept o (m.setIgnoreLf false) e (by simp [hcr]) (by simp [hrk])]
    simp only [hst]
    -- left: slow path through get_char
    have hl : popExceptFrom o (setOf m.state) m (['\n'] ++ e) =
        ((preprocess o m '\n' e).1.map .fromSet, (preprocess o m '\n' e).2) := by
      unfold popExceptFrom getChar
      simp [hil, h2]
    rw [hl]
    cases e with
    | nil =>
      have : preprocess o m '\n' [] = (none, m.setIgnoreLf false, []) := by
        unfold preprocess; simp [hil]
      rw [this, popExceptFrom_nil o _ _ (by simp [h2])]
      exact RSim.refl _
    | cons x xs =>
      rw [preprocess_resume o m x xs hil, preprocess_plain o _ x xs (by simp)]
      simp only [Option.map_some]
      generalize hm2 : m.setIgnoreLf false = m2
      have hr2 : m2.reconsume = false := by rw [← hm2]; simp [h2]
      have hi2 : m2.ignoreLf = false := by rw [← hm2]; simp
      have hc2 : m2.charRef = none := by rw [← hm2]; simp [hcr]
      have hs2 : m2.state = m.state := by rw [← hm2]; simp
      have hk2 : readKind m2.state = .popExcept := by rw [hs2]; exact hrk
      rw [← hs2]
      -- right: whichever path the resumed read takes
      unfold popExceptFrom
      by_cases hex : o.exactErrors = true
      · simp only [hex, Bool.true_or, ↓reduceIte, getChar, hr2, Bool.false_eq_true, preprocess_plain o m2 x xs hi2,
          Option.map_some]
        exact RSim.refl _
      · have hex' : o.exactErrors = false := by simpa using hex
        simp only [hex', hr2, hi2, Bool.or_self, Bool.false_eq_true, ↓reduceIte]
        by_cases hx : (setOf m2.state).contains x = true
        · simp only [hx, ↓reduceIte, preprocess_plain o m2 x xs hi2, Option.map_some]
          exact RSim.refl _
        · have hx' : (setOf m2.state).contains x = false := by simpa using hx
          have hmem : x ∉ setOf m2.state := by simpa using hx'
          simp only [hx', Bool.false_eq_true, ↓reduceIte]
          have hc := setOf_cover m2.state hk2
          have hxr : x ≠ '\r' := fun h => hmem (h ▸ hc.1)
          have hx0 : x ≠ '\x00' := fun h => hmem (h ▸ hc.2.1)
          rw [foldChar_plain o m2 x hex' hxr hx0]
          simp only [contSet]
          rw [transSet_setCC, transSet_dead m2 x hk2 hmem]
          obtain ⟨hst', hcr', hrec, hsig⟩ := transSet_notFromSet m2 [x] hk2
          generalize transSet m2 (.notFromSet [x]) = T at hst' hcr' hrec hsig ⊢
          obtain ⟨T1, T2⟩ := T
          simp only at hst' hcr' hrec hsig ⊢
          subst hsig
          have hdead : deadCC T1 := ⟨by rw [hrec, hr2], by rw [hcr', hc2], by rw [hst']; exact hk2⟩
          have hsim : Sim (T1.setCurrentChar x) T1 := Sim.symm (Or.inr ⟨hdead, x, rfl⟩)
          simp [ofSig, RSim, hsim]


/-! ### resume: character references -/

theorem setCharRef_self (m : Mach) (cr : Option CharRefSt) (h : m.charRef = cr) : m.setCharRef cr = m := by
  cases m; simp_all [Mach.setCharRef]

theorem notStuck_ne {r : CRRes} (h : r.notStuck) (m1 : Mach) (i1 : Str) (cr1 : CharRefSt) :
    r ≠ .ok (m1, i1, cr1, .stuck) := by
  intro he; rw [he] at h; exact h

/-- when a char-ref step is stuck nothing happened, except that `get_char` may have swallowed the LF
of a CRLF (named states only) -/
theorem crStep_stuck_inv (o : Opts) (m m1 : Mach) (inp i1 : Str) (cr cr1 : CharRefSt)
    (h : crStep o m inp cr = .ok (m1, i1, cr1, .stuck)) :
    cr1 = cr ∧ i1 = [] ∧ m.reconsume = false ∧
      ((inp = [] ∧ m1 = m) ∨
       (inp = ['\n'] ∧ m.ignoreLf = true ∧ m1 = m.setIgnoreLf false ∧
         (cr.state = .named ∨ cr.state = .bogusName))) := by
  unfold crStep at h
  cases hst : cr.state with
  | named =>
    simp only [hst] at h
    cases hg : getChar o m inp with
    | mk c r =>
      obtain ⟨m2, i2⟩ := r
      cases c with
      | none =>
        simp only [hg, Except.ok.injEq, Prod.mk.injEq] at h
        obtain ⟨rfl, rfl, rfl, _⟩ := h
        obtain ⟨g1, g2, g3⟩ := getChar_none o m m2 inp i2 hg
        refine ⟨rfl, g1, g2, ?_⟩
        rcases g3 with ⟨a, b⟩ | ⟨a, b, c⟩
        · exact Or.inl ⟨a, b⟩
        · exact Or.inr ⟨a, b, c, Or.inl rfl⟩
      | some c =>
        exfalso
        simp only [hg] at h
        split at h
        · cases h
        · split at h
          · split at h <;> simp at h
          · exact notStuck_ne (finishNamed_notStuck _ _ _ _ _) _ _ _ h
  | bogusName =>
    simp only [hst] at h
    cases hg : getChar o m inp with
    | mk c r =>
      obtain ⟨m2, i2⟩ := r
      cases c with
      | none =>
        simp only [hg, Except.ok.injEq, Prod.mk.injEq] at h
        obtain ⟨rfl, rfl, rfl, _⟩ := h
        obtain ⟨g1, g2, g3⟩ := getChar_none o m m2 inp i2 hg
        refine ⟨rfl, g1, g2, ?_⟩
        rcases g3 with ⟨a, b⟩ | ⟨a, b, c⟩
        · exact Or.inl ⟨a, b⟩
        · exact Or.inr ⟨a, b, c, Or.inr rfl⟩
      | some c =>
        exfalso
        simp only [hg] at h
        split at h
        · cases h
        · split at h
          · simp at h
          · exact notStuck_ne (unconsumeName_notStuck _ _ _) _ _ _ h
  | begin =>
    simp only [hst] at h
    cases hpk : peek m inp with
    | none =>
      simp only [hpk, Except.ok.injEq, Prod.mk.injEq] at h
      obtain ⟨rfl, rfl, rfl, _⟩ := h
      obtain ⟨a, b⟩ := peek_none m inp hpk
      exact ⟨rfl, b, a, Or.inl ⟨b, rfl⟩⟩
    | some c =>
      exfalso
      simp only [hpk] at h
      repeat' split at h
      all_goals simp at h
  | octothorpe =>
    simp only [hst] at h
    cases hpk : peek m inp with
    | none =>
      simp only [hpk, Except.ok.injEq, Prod.mk.injEq] at h
      obtain ⟨rfl, rfl, rfl, _⟩ := h
      obtain ⟨a, b⟩ := peek_none m inp hpk
      exact ⟨rfl, b, a, Or.inl ⟨b, rfl⟩⟩
    | some c =>
      exfalso
      simp only [hpk] at h
      repeat' split at h
      all_goals simp at h
  | numeric base =>
    simp only [hst] at h
    cases hpk : peek m inp with
    | none =>
      simp only [hpk, Except.ok.injEq, Prod.mk.injEq] at h
      obtain ⟨rfl, rfl, rfl, _⟩ := h
      obtain ⟨a, b⟩ := peek_none m inp hpk
      exact ⟨rfl, b, a, Or.inl ⟨b, rfl⟩⟩
    | some c =>
      exfalso
      simp only [hpk] at h
      split at h
      · split at h <;> simp at h
      · split at h
        · exact notStuck_ne (unconsumeNumeric_notStuck _ _ _) _ _ _ h
        · simp at h
  | numericSemicolon =>
    simp only [hst] at h
    cases hpk : peek m inp with
    | none =>
      simp only [hpk, Except.ok.injEq, Prod.mk.injEq] at h
      obtain ⟨rfl, rfl, rfl, _⟩ := h
      obtain ⟨a, b⟩ := peek_none m inp hpk
      exact ⟨rfl, b, a, Or.inl ⟨b, rfl⟩⟩
    | some c =>
      exfalso
      simp only [hpk] at h
      split at h
      · split at h
        · simp at h
        · exact notStuck_ne (finishNumericStatus_notStuck _ _ _ _) _ _ _ h
      · exact notStuck_ne (finishNumericStatus_notStuck _ _ _ _) _ _ _ h


/-- `crStep` in the named states depends on the machine and input only through `get_char` -/
theorem crStep_named_congr (o : Opts) (m m' : Mach) (inp inp' : Str) (cr : CharRefSt)
    (hs : cr.state = .named ∨ cr.state = .bogusName)
    (h : getChar o m' inp' = getChar o m inp) : crStep o m' inp' cr = crStep o m inp cr := by
  unfold crStep
  rcases hs with hs | hs <;> simp only [hs, h]

theorem resume_charRef (o : Opts) (m m' : Mach) (inp inp' e : Str) (cr : CharRefSt)
    (hcr : m.charRef = some cr) (h : stepCharRef o m inp cr = .suspend m' inp') :
    inp' = [] ∧ step o m' e = step o m (inp ++ e) ∧
      m'.state = m.state ∧ m'.charRef = m.charRef ∧ m'.tempBuf = m.tempBuf ∧ m'.atEof = m.atEof ∧
      (m'.ignoreLf = true → m.ignoreLf = true) := by
  unfold stepCharRef at h
  cases hc : crStep o m inp cr with
  | error x => rw [hc] at h; simp at h
  | ok v =>
    obtain ⟨m1, i1, cr1, st⟩ := v
    rw [hc] at h
    cases st with
    | progress => simp at h
    | done chars => simp only [ofSig] at h; split at h <;> simp at h
    | stuck =>
      simp only [R.suspend.injEq] at h
      obtain ⟨h4, h5⟩ := h
      obtain ⟨g1, g2, g3, g4⟩ := crStep_stuck_inv o m m1 inp i1 cr cr1 hc
      subst g1 g2 h5
      rcases g4 with ⟨a, b⟩ | ⟨a, hil, b, hs⟩
      · subst a
        rw [b, setCharRef_self m _ hcr] at h4
        subst h4
        exact ⟨rfl, rfl, rfl, rfl, rfl, rfl, id⟩
      · subst a
        have hcr1 : (m.setIgnoreLf false).charRef = some cr1 := by simp [hcr]
        rw [b, setCharRef_self _ _ hcr1] at h4
        subst h4
        refine ⟨rfl, ?_, by simp, by simp, by simp, by simp, by simp⟩
        have hg : getChar o m ['\n'] = (none, m.setIgnoreLf false, []) := by
          simp [getChar, g3, preprocess, hil]
        have hres := getChar_resume o m _ ['\n'] [] e hg
        unfold step
        simp only [hcr1, hcr, stepCharRef]
        rw [crStep_named_congr o m (m.setIgnoreLf false) (['\n'] ++ e) e cr1 hs (by simpa using hres)]


/-! ### resume: look-ahead states -/

/-- the machine after a definite `eat` answer: no pending LF, nothing stashed -/
def Settled (m : Mach) : Prop := m.ignoreLf = false ∧ m.tempBuf = []

theorem Settled.eat_core {m : Mach} (hs : Settled m) (o : Opts) (i pat : Str) :
    eat o m i pat = eatCore m i pat := by
  rw [eat_eq_core, eatSkipLf_id o m i hs.1, hs.2]; rfl

theorem Settled.setTempBuf {m : Mach} (hs : Settled m) : m.setTempBuf [] = m := by
  obtain ⟨_, h2⟩ := hs
  cases m; simp_all [Mach.setTempBuf]

theorem Settled.eatOk {m : Mach} (hs : Settled m) : EatOk m := fun _ => hs.2

/-- a failed `eat` leaves a settled machine and the whole logical input in the queue; the
mismatch is definite -/
theorem eat_false_settled (o : Opts) (m m1 : Mach) (inp i1 pat : Str)
    (hg : EatOk m) (hpat : pat ≠ []) (hat : m.atEof = false)
    (h : eat o m inp pat = (some false, m1, i1)) :
    Settled m1 ∧ eatCmp eqCi i1 pat = some false ∧ m1.atEof = false := by
  rw [eat_eq_core] at h
  unfold eatCore at h
  have hf := eatSkipLf_fields o m inp
  split at h
  · simp at h
  · rename_i hc
    simp only [Prod.mk.injEq, true_and] at h
    obtain ⟨h1, h2⟩ := h
    subst h1 h2
    refine ⟨⟨?_, by simp⟩, hc, by simp [hat]⟩
    simp only [setTempBuf_ignoreLf]
    cases hil : (eatSkipLf o m inp).1.ignoreLf with
    | false => rfl
    | true =>
      exfalso
      cases hpk : peek m inp with
      | none =>
        rw [eatSkipLf_none o m inp hpk] at hil hc
        obtain ⟨_, hinp⟩ := peek_none m inp hpk
        have := hg hil
        simp [this, hinp, eatCmp_nil_none eqCi pat hpat] at hc
      | some c =>
        have := hf.2.2.2.2 c hpk
        rw [this] at hil; cases hil
  · simp [hat] at h

theorem Settled.eat_false_inv {m : Mach} (hs : Settled m) (hat : m.atEof = false)
    (o : Opts) (i pat : Str) (m2 : Mach) (i2 : Str)
    (h : eat o m i pat = (some false, m2, i2)) :
    m2 = m ∧ i2 = i ∧ eatCmp eqCi i pat = some false := by
  rw [hs.eat_core, eatCore] at h
  split at h
  · simp at h
  · rename_i hc
    simp only [Prod.mk.injEq, true_and] at h
    rw [hs.setTempBuf] at h
    exact ⟨h.1.symm, h.2.symm, hc⟩
  · simp [hat] at h

theorem Settled.eat_false_again {m : Mach} (hs : Settled m) (o : Opts) (i e pat : Str)
    (hc : eatCmp eqCi i pat = some false) : eat o m (i ++ e) pat = (some false, m, i ++ e) := by
  rw [hs.eat_core, eatCore, eatCmp_mono eqCi i pat e false hc, hs.setTempBuf]

theorem eat_fields (o : Opts) (m m1 : Mach) (inp i1 pat : Str) (b : Option Bool)
    (h : eat o m inp pat = (b, m1, i1)) :
    m1.state = m.state ∧ m1.charRef = m.charRef ∧ m1.atEof = m.atEof := by
  rw [eat_eq_core] at h
  unfold eatCore at h
  have hf := eatSkipLf_fields o m inp
  repeat' split at h
  all_goals
    (simp only [Prod.mk.injEq] at h
     obtain ⟨_, h2, _⟩ := h
     subst h2
     simp [hf.1, hf.2.2.1, hf.2.2.2.1])

theorem kw_ne : kwDashDash ≠ [] ∧ kwCdata ≠ [] ∧ kwDoctype ≠ [] ∧ kwPublic ≠ [] ∧ kwSystem ≠ [] := by
  decide

theorem resume_md (o : Opts) (m m' : Mach) (inp inp' e : Str)
    (hg : EatOk m) (hat : m.atEof = false)
    (h : stepMd o m inp = .suspend m' inp') :
    inp' = [] ∧ EatOk m' ∧ stepMd o m' e = stepMd o m (inp ++ e) ∧
      m'.state = m.state ∧ m'.charRef = m.charRef ∧ m'.atEof = m.atEof := by
  unfold stepMd at h
  cases h1 : eat o m inp kwDashDash with
  | mk b1 r1 =>
    obtain ⟨m1, i1⟩ := r1
    have f1 := eat_fields o m m1 inp i1 _ b1 h1
    rw [h1] at h
    cases b1 with
    | none =>
      simp only [R.suspend.injEq] at h
      obtain ⟨h4, h5⟩ := h
      subst h4 h5
      obtain ⟨hi, hok, _, hre⟩ := eat_none o m m1 inp i1 _ hg h1
      refine ⟨hi, hok, ?_, f1⟩
      unfold stepMd
      rw [hre]
    | some b1 =>
      cases b1 with
      | true => simp at h
      | false =>
        simp only at h
        obtain ⟨hs1, hc1, hat1⟩ := eat_false_settled o m m1 inp i1 _ hg kw_ne.1 hat h1
        cases h2 : eat o m1 i1 kwCdata with
        | mk b2 r2 =>
          obtain ⟨m2, i2⟩ := r2
          have f2 := eat_fields o m1 m2 i1 i2 _ b2 h2
          rw [h2] at h
          cases b2 with
          | none =>
            simp only [R.suspend.injEq] at h
            obtain ⟨h4, h5⟩ := h
            subst h4 h5
            obtain ⟨hi, hok, _, hre⟩ := eat_none o m1 m2 i1 i2 _ hs1.eatOk h2
            refine ⟨hi, hok, ?_, f2.1.trans f1.1, f2.2.1.trans f1.2.1, f2.2.2.trans f1.2.2⟩
            unfold stepMd
            rw [hre, hs1.eat_false_again o i1 e _ hc1,
              eat_mono o m m1 inp i1 e _ false hg kw_ne.1 hat h1]
          | some b2 =>
            cases b2 with
            | true => simp at h
            | false =>
              simp only at h
              -- a failed eat on a settled machine changes nothing
              obtain ⟨hm, hi, hc2⟩ := hs1.eat_false_inv hat1 o i1 _ m2 i2 h2
              rw [hm, hi] at h
              cases h3 : eat o m1 i1 kwDoctype with
              | mk b3 r3 =>
                obtain ⟨m3, i3⟩ := r3
                have f3 := eat_fields o m1 m3 i1 i3 _ b3 h3
                rw [h3] at h
                cases b3 with
                | none =>
                  simp only [R.suspend.injEq] at h
                  obtain ⟨h4, h5⟩ := h
                  subst h4 h5
                  obtain ⟨hi, hok, _, hre⟩ := eat_none o m1 m3 i1 i3 _ hs1.eatOk h3
                  refine ⟨hi, hok, ?_, f3.1.trans f1.1, f3.2.1.trans f1.2.1, f3.2.2.trans f1.2.2⟩
                  unfold stepMd
                  simp only [hre, hs1.eat_false_again o i1 e _ hc1, hs1.eat_false_again o i1 e _ hc2,
                    eat_mono o m m1 inp i1 e _ false hg kw_ne.1 hat h1]
                | some b3 => cases b3 <;> simp at h

theorem resume_adn (o : Opts) (m m' : Mach) (inp inp' e : Str)
    (hg : EatOk m) (hat : m.atEof = false)
    (h : stepAdn o m inp = .suspend m' inp') :
    inp' = [] ∧ EatOk m' ∧ stepAdn o m' e = stepAdn o m (inp ++ e) ∧
      m'.state = m.state ∧ m'.charRef = m.charRef ∧ m'.atEof = m.atEof := by
  unfold stepAdn at h
  cases h1 : eat o m inp kwPublic with
  | mk b1 r1 =>
    obtain ⟨m1, i1⟩ := r1
    have f1 := eat_fields o m m1 inp i1 _ b1 h1
    rw [h1] at h
    cases b1 with
    | none =>
      simp only [R.suspend.injEq] at h
      obtain ⟨h4, h5⟩ := h
      subst h4 h5
      obtain ⟨hi, hok, _, hre⟩ := eat_none o m m1 inp i1 _ hg h1
      refine ⟨hi, hok, ?_, f1⟩
      unfold stepAdn
      rw [hre]
    | some b1 =>
      cases b1 with
      | true => simp at h
      | false =>
        simp only at h
        obtain ⟨hs1, hc1, hat1⟩ := eat_false_settled o m m1 inp i1 _ hg kw_ne.2.2.2.1 hat h1
        cases h2 : eat o m1 i1 kwSystem with
        | mk b2 r2 =>
          obtain ⟨m2, i2⟩ := r2
          have f2 := eat_fields o m1 m2 i1 i2 _ b2 h2
          rw [h2] at h
          cases b2 with
          | none =>
            simp only [R.suspend.injEq] at h
            obtain ⟨h4, h5⟩ := h
            subst h4 h5
            obtain ⟨hi, hok, _, hre⟩ := eat_none o m1 m2 i1 i2 _ hs1.eatOk h2
            refine ⟨hi, hok, ?_, f2.1.trans f1.1, f2.2.1.trans f1.2.1, f2.2.2.trans f1.2.2⟩
            unfold stepAdn
            rw [hre, hs1.eat_false_again o i1 e _ hc1,
              eat_mono o m m1 inp i1 e _ false hg kw_ne.2.2.2.1 hat h1]
          | some b2 =>
            cases b2 with
            | true => simp at h
            | false =>
              exfalso
              simp only at h
              obtain ⟨hs2, hc2, hat2⟩ := eat_false_settled o m1 m2 i1 i2 _ hs1.eatOk kw_ne.2.2.2.2 hat1 h2
              -- after two definite mismatches a character is available: get_char cannot suspend
              have hne : i2 ≠ [] := by
                intro h0; subst h0
                rw [eatCmp_nil_none eqCi kwSystem kw_ne.2.2.2.2] at hc2
                simp at hc2
              have hgc : ∃ c1 m3 i3, getChar o m2 i2 = (some c1, m3, i3) := by
                unfold getChar
                split
                · exact ⟨_, _, _, rfl⟩
                · cases i2 with
                  | nil => exact absurd rfl hne
                  | cons x xs => exact ⟨_, _, _, preprocess_plain o m2 x xs hs2.1⟩
              obtain ⟨c1, m3, i3, hgc⟩ := hgc
              rw [hgc] at h
              simp only [ofSig] at h
              split at h <;> simp at h

end H5V.Model.XmlTok
