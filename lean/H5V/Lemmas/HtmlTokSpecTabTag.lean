import H5V.Lemmas.HtmlTokSpecTac
/-!
# C01 simulation — table lemmas (`transChar`) for the tag and attribute states:
tag open, end tag open, tag name, before / in / after attribute name, after attribute value (quoted),
self-closing start tag
-/
set_option linter.unusedSimpArgs false
set_option linter.unusedVariables false
namespace H5V.Lemmas.HtmlTokSpec
open H5V.Model.HtmlTok
open H5V.Spec.HtmlTokenizer (St Tok Emit Tree Switch Ctl ReturnSt)

/-- start of a `>` leaf of a tag state: the parts of `RegCore` in normal form -/
macro "gt_intro" h:ident hs:ident : tactic => `(tactic| (
  obtain ⟨hstd, hst, hcr, hreg, hout⟩ := $h
  simp [$hs:ident, stOf, altSt, isRet] at hst
  simp [RegRel, AttrRel, $hs:ident, isTagSt, needsCur, usesTemp, usesComment, usesDoctype] at hreg
  simp [OutRel, cdataBuf, isCdata, $hs:ident] at hout))

set_option maxHeartbeats 1600000 in
theorem tab_tagOpen (o : Opts) (ho : o.exactErrors = false) (pol : Pol) (tree : Tree) (m : Mach) (t : Tok)
    (c : Char) (rest : Str) (h : RegCore m t) (hr : m.reconsume = false) (hs : m.state = .tagOpen) :
    TabOk tree t c rest (transChar o pol m c) := by
  tab_state h hs c ['!', '/', '?']

set_option maxHeartbeats 1600000 in
theorem tab_endTagOpen (o : Opts) (ho : o.exactErrors = false) (pol : Pol) (tree : Tree) (m : Mach) (t : Tok)
    (c : Char) (rest : Str) (h : RegCore m t) (hr : m.reconsume = false) (hs : m.state = .endTagOpen) :
    TabOk tree t c rest (transChar o pol m c) := by
  tab_state h hs c ['>']

set_option maxHeartbeats 1600000 in
theorem tab_tagName (o : Opts) (ho : o.exactErrors = false) (pol : Pol) (tree : Tree) (hpt : PolTree pol tree)
    (m : Mach) (t : Tok) (c : Char) (rest : Str) (h : RegCore m t) (hr : m.reconsume = false)
    (hs : m.state = .tagName) : TabOk tree t c rest (transChar o pol m c) := by
  by_cases hgt : c = '>'
  · subst hgt
    obtain ⟨hstd, hst, hcr, hreg, hout⟩ := h
    simp [hs, stOf, altSt, isRet] at hst
    simp [RegRel, AttrRel, hs, isTagSt, needsCur, usesTemp, usesComment, usesDoctype] at hreg
    simp [OutRel, cdataBuf, isCdata, hs] at hout
    obtain ⟨r1, ⟨r2, r3, r4, r5⟩, rcm⟩ := hreg
    have hm : transChar o pol m '>' = emitTag pol .data m := by
      unfold transChar; simp (config := {decide := true}) [hs, isWs]
    rw [hm]
    refine tabOk_gt pol tree hpt m t t t rest (Or.inl rfl) ?_ hcr hr r1 r2 r3 r4 r5 hout rcm
    simp [sstep, H5V.Spec.HtmlTokenizer.step, hst, H5V.Spec.HtmlTokenizer.tagNameState, Tok.done]
  · tab_state h hs c ['\t', '\n', '\x0c', ' ', '/', '>', '\x00']

set_option maxHeartbeats 1600000 in
theorem tab_beforeAttributeName (o : Opts) (ho : o.exactErrors = false) (pol : Pol) (tree : Tree)
    (hpt : PolTree pol tree) (m : Mach) (t : Tok) (c : Char) (rest : Str) (h : RegCore m t)
    (hr : m.reconsume = false) (hs : m.state = .beforeAttributeName) :
    TabOk tree t c rest (transChar o pol m c) := by
  by_cases hgt : c = '>'
  · subst hgt
    obtain ⟨hstd, hst, hcr, hreg, hout⟩ := h
    simp [hs, stOf, altSt, isRet] at hst
    simp [RegRel, AttrRel, hs, isTagSt, needsCur, usesTemp, usesComment, usesDoctype] at hreg
    simp [OutRel, cdataBuf, isCdata, hs] at hout
    obtain ⟨r1, ⟨r2, r3, r4, r5⟩, rcm⟩ := hreg
    have hm : transChar o pol m '>' = emitTag pol .data m := by
      unfold transChar; simp (config := {decide := true}) [hs, isWs]
    rw [hm]
    refine tabOk_gt pol tree hpt m t { t with state := .afterAttributeName } t rest (Or.inr ?_) ?_ hcr hr
      r1 r2 r3 r4 r5 hout rcm
    · simp [sstep, H5V.Spec.HtmlTokenizer.step, hst, H5V.Spec.HtmlTokenizer.beforeAttributeNameState,
        Tok.reconsumeIn]
    · simp [sstep, H5V.Spec.HtmlTokenizer.step, H5V.Spec.HtmlTokenizer.afterAttributeNameState, Tok.done,
        Tok.setState]
  · tab_state h hs c ['\t', '\n', '\x0c', ' ', '/', '>', '\x00', '"', '\'', '<', '=']

set_option maxHeartbeats 1600000 in
theorem tab_attributeName (o : Opts) (ho : o.exactErrors = false) (pol : Pol) (tree : Tree)
    (hpt : PolTree pol tree) (m : Mach) (t : Tok) (c : Char) (rest : Str) (h : RegCore m t)
    (hr : m.reconsume = false) (hs : m.state = .attributeName) :
    TabOk tree t c rest (transChar o pol m c) := by
  by_cases hgt : c = '>'
  · subst hgt
    obtain ⟨hstd, hst, hcr, hreg, hout⟩ := h
    simp [hs, stOf, altSt, isRet] at hst
    simp [RegRel, AttrRel, hs, isTagSt, needsCur, usesTemp, usesComment, usesDoctype] at hreg
    simp [OutRel, cdataBuf, isCdata, hs] at hout
    obtain ⟨r1, ⟨r2, r3, r4, r5⟩, r6, rcm⟩ := hreg
    have hm : transChar o pol m '>' = emitTag pol .data m := by
      unfold transChar; simp (config := {decide := true}) [hs, isWs]
    rw [hm]
    refine tabOk_gt pol tree hpt m t { t with state := .afterAttributeName } t rest (Or.inr ?_) ?_ hcr hr
      r1 r2 r3 r4 r5 hout rcm
    · simp [sstep, H5V.Spec.HtmlTokenizer.step, hst, H5V.Spec.HtmlTokenizer.attributeNameState,
        Tok.reconsumeIn]
    · simp [sstep, H5V.Spec.HtmlTokenizer.step, H5V.Spec.HtmlTokenizer.afterAttributeNameState, Tok.done,
        Tok.setState]
  · tab_state h hs c ['\t', '\n', '\x0c', ' ', '/', '>', '\x00', '"', '\'', '<', '=']

set_option maxHeartbeats 1600000 in
theorem tab_afterAttributeName (o : Opts) (ho : o.exactErrors = false) (pol : Pol) (tree : Tree)
    (hpt : PolTree pol tree) (m : Mach) (t : Tok) (c : Char) (rest : Str) (h : RegCore m t)
    (hr : m.reconsume = false) (hs : m.state = .afterAttributeName) :
    TabOk tree t c rest (transChar o pol m c) := by
  by_cases hgt : c = '>'
  · subst hgt
    obtain ⟨hstd, hst, hcr, hreg, hout⟩ := h
    simp [hs, stOf, altSt, isRet] at hst
    simp [RegRel, AttrRel, hs, isTagSt, needsCur, usesTemp, usesComment, usesDoctype] at hreg
    simp [OutRel, cdataBuf, isCdata, hs] at hout
    obtain ⟨r1, ⟨r2, r3, r4, r5⟩, r6, rcm⟩ := hreg
    have hm : transChar o pol m '>' = emitTag pol .data m := by
      unfold transChar; simp (config := {decide := true}) [hs, isWs]
    rw [hm]
    refine tabOk_gt pol tree hpt m t t t rest (Or.inl rfl) ?_ hcr hr r1 r2 r3 r4 r5 hout rcm
    simp [sstep, H5V.Spec.HtmlTokenizer.step, hst, H5V.Spec.HtmlTokenizer.afterAttributeNameState, Tok.done]
  · tab_state h hs c ['\t', '\n', '\x0c', ' ', '/', '>', '\x00', '"', '\'', '<', '=']

set_option maxHeartbeats 1600000 in
theorem tab_afterAttributeValueQuoted (o : Opts) (ho : o.exactErrors = false) (pol : Pol) (tree : Tree)
    (hpt : PolTree pol tree) (m : Mach) (t : Tok) (c : Char) (rest : Str) (h : RegCore m t)
    (hr : m.reconsume = false) (hs : m.state = .afterAttributeValueQuoted) :
    TabOk tree t c rest (transChar o pol m c) := by
  by_cases hgt : c = '>'
  · subst hgt
    obtain ⟨hstd, hst, hcr, hreg, hout⟩ := h
    simp [hs, stOf, altSt, isRet] at hst
    simp [RegRel, AttrRel, hs, isTagSt, needsCur, usesTemp, usesComment, usesDoctype] at hreg
    simp [OutRel, cdataBuf, isCdata, hs] at hout
    obtain ⟨r1, ⟨r2, r3, r4, r5⟩, rcm⟩ := hreg
    have hm : transChar o pol m '>' = emitTag pol .data m := by
      unfold transChar; simp (config := {decide := true}) [hs, isWs]
    rw [hm]
    refine tabOk_gt pol tree hpt m t t t rest (Or.inl rfl) ?_ hcr hr r1 r2 r3 r4 r5 hout rcm
    simp [sstep, H5V.Spec.HtmlTokenizer.step, hst, H5V.Spec.HtmlTokenizer.afterAttributeValueQuotedState,
      Tok.done]
  · tab_state h hs c ['\t', '\n', '\x0c', ' ', '/', '>']

set_option maxHeartbeats 1600000 in
theorem tab_selfClosingStartTag (o : Opts) (ho : o.exactErrors = false) (pol : Pol) (tree : Tree)
    (hpt : PolTree pol tree) (m : Mach) (t : Tok) (c : Char) (rest : Str) (h : RegCore m t)
    (hr : m.reconsume = false) (hs : m.state = .selfClosingStartTag) :
    TabOk tree t c rest (transChar o pol m c) := by
  by_cases hgt : c = '>'
  · subst hgt
    obtain ⟨hstd, hst, hcr, hreg, hout⟩ := h
    simp [hs, stOf, altSt, isRet] at hst
    simp [RegRel, AttrRel, hs, isTagSt, needsCur, usesTemp, usesComment, usesDoctype] at hreg
    simp [OutRel, cdataBuf, isCdata, hs] at hout
    obtain ⟨r1, ⟨r2, r3, r4, r5⟩, rcm⟩ := hreg
    have hm : transChar o pol m '>' = emitTag pol .data { m with tagSelfClosing := true } := by
      unfold transChar; simp (config := {decide := true}) [hs, isWs]
    rw [hm]
    refine tabOk_gt pol tree hpt { m with tagSelfClosing := true } t t t.setSelfClosing rest (Or.inl rfl) ?_
      hcr hr r1 r2 r3 rfl r5 hout rcm
    simp [sstep, H5V.Spec.HtmlTokenizer.step, hst, H5V.Spec.HtmlTokenizer.selfClosingStartTagState, Tok.done]
  · tab_state h hs c ['>']

end H5V.Lemmas.HtmlTokSpec
