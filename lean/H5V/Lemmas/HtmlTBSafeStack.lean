import H5V.Lemmas.HtmlTBSafeBase
/-!
# Tree-builder safety, part 3: frames, and the stack-walking helpers of `mod.rs`

`Fr s s'`: the safety-relevant scalar fields of the builder are unchanged and the DOM is extended.
`St s s' l`: `Fr`, the stack of open elements of `s'` is `l`, the list of active formatting elements is
unchanged.  The specifications of the popping loops describe the new stack by a decomposition
`old = kept ++ popped`.
-/
namespace H5V.Lemmas.TBSafe
open H5V.Model.HtmlTB
open H5V.Model.Dom (Id QualName Attr NodeOrText SinkOp Output ElementFlags QuirksMode Dom NodeData Node)

variable {al : Allow}

structure Fr (s s' : State) : Prop where
  mode : s'.mode = s.mode
  origMode : s'.origMode = s.origMode
  templateModes : s'.templateModes = s.templateModes
  pendingTableText : s'.pendingTableText = s.pendingTableText
  headElem : s'.headElem = s.headElem
  formElem : s'.formElem = s.formElem
  contextElem : s'.contextElem = s.contextElem
  docHandle : s'.docHandle = s.docHandle
  opts : s'.opts = s.opts
  ext : Ext s.dom s'.dom

theorem Fr.refl (s : State) : Fr s s := ⟨rfl, rfl, rfl, rfl, rfl, rfl, rfl, rfl, rfl, Ext.refl _⟩

theorem Fr.trans {a b c : State} (h1 : Fr a b) (h2 : Fr b c) : Fr a c :=
  ⟨h2.mode.trans h1.mode, h2.origMode.trans h1.origMode, h2.templateModes.trans h1.templateModes,
   h2.pendingTableText.trans h1.pendingTableText, h2.headElem.trans h1.headElem,
   h2.formElem.trans h1.formElem, h2.contextElem.trans h1.contextElem, h2.docHandle.trans h1.docHandle,
   h2.opts.trans h1.opts, h1.ext.trans h2.ext⟩

theorem Fr.withOpen {s s' : State} (f : Fr s s') (l : List Id) : Fr s { s' with openElems := l } :=
  ⟨f.mode, f.origMode, f.templateModes, f.pendingTableText, f.headElem, f.formElem, f.contextElem,
   f.docHandle, f.opts, f.ext⟩

theorem Fr.withAF {s s' : State} (f : Fr s s') (l : List FormatEntry) : Fr s { s' with activeFormatting := l } :=
  ⟨f.mode, f.origMode, f.templateModes, f.pendingTableText, f.headElem, f.formElem, f.contextElem,
   f.docHandle, f.opts, f.ext⟩

theorem Fr.withOpenAF {s s' : State} (f : Fr s s') (l : List Id) (a : List FormatEntry) :
    Fr s { s' with openElems := l, activeFormatting := a } :=
  ⟨f.mode, f.origMode, f.templateModes, f.pendingTableText, f.headElem, f.formElem, f.contextElem,
   f.docHandle, f.opts, f.ext⟩

theorem QF.fr {s s' : State} (h : QF s s') : Fr s s' :=
  ⟨h.mode, h.origMode, h.templateModes, h.pendingTableText, h.headElem, h.formElem, h.contextElem,
   h.docHandle, h.opts, h.ext⟩

/-- `Fr`, new stack `l`, same list of active formatting elements -/
structure St (s s' : State) (l : List Id) : Prop where
  fr : Fr s s'
  openElems : s'.openElems = l
  af : s'.activeFormatting = s.activeFormatting

abbrev Same (s s' : State) : Prop := St s s' s.openElems

theorem Same.refl (s : State) : Same s s := ⟨Fr.refl s, rfl, rfl⟩

theorem QF.same {s s' : State} (h : QF s s') : Same s s' := ⟨h.fr, h.openElems, h.activeFormatting⟩

theorem St.trans {a b c : State} {l1 l2 : List Id} (h1 : St a b l1) (h2 : St b c l2) : St a c l2 :=
  ⟨h1.fr.trans h2.fr, h2.openElems, h2.af.trans h1.af⟩

theorem Same.trans {a b c : State} (h1 : Same a b) (h2 : Same b c) : Same a c :=
  ⟨h1.fr.trans h2.fr, by rw [h2.openElems, h1.openElems], h2.af.trans h1.af⟩

theorem St.same_right {a b c : State} {l : List Id} (h1 : St a b l) (h2 : Same b c) : St a c l :=
  ⟨h1.fr.trans h2.fr, by rw [h2.openElems, h1.openElems], h2.af.trans h1.af⟩

theorem Same.st_left {a b c : State} {l : List Id} (h1 : Same a b) (h2 : St b c l) : St a c l :=
  ⟨h1.fr.trans h2.fr, h2.openElems, h2.af.trans h1.af⟩

/-- every handle of the list is an element of the DOM -/
def AllEl (d : Dom) (l : List Id) : Prop := ∀ h ∈ l, IsEl d h

theorem AllEl.ext {d d' : Dom} {l : List Id} (he : Ext d d') (h : AllEl d l) : AllEl d' l :=
  fun x hx => (h x hx).ext he

theorem AllEl.sub {d : Dom} {l l' : List Id} (h : AllEl d l) (hs : ∀ x ∈ l', x ∈ l) : AllEl d l' :=
  fun x hx => h x (hs x hx)

theorem AllEl.nm_eq {d d' : Dom} {l : List Id} (he : Ext d d') (h : AllEl d l) {x : Id} (hx : x ∈ l) :
    nm d' x = nm d x := _root_.H5V.Lemmas.TBSafe.nm_ext he (h x hx)

/-! ### trivial state updates -/

theorem sat_setMode {m : Mode} {s : State} :
    Sat (setMode m) s (fun _ s' => s' = { s with mode := m }) := sat_modS rfl

theorem sat_setFramesetOk {b : Bool} {s : State} : Sat (setFramesetOk b) s (fun _ s' => Same s s') :=
  sat_modS ⟨⟨rfl, rfl, rfl, rfl, rfl, rfl, rfl, rfl, rfl, Ext.refl _⟩, rfl, rfl⟩

theorem sat_isFragment {s : State} :
    Sat isFragment s (fun b s' => b = s.contextElem.isSome ∧ s' = s) := by
  unfold isFragment
  exact sat_getS_bind (sat_pure ⟨rfl, rfl⟩)

theorem sat_push {h : Id} {s : State} :
    Sat (push h) s (fun _ s' => s' = { s with openElems := s.openElems ++ [h] }) := sat_modS rfl

/-! ### the current node -/

theorem sat_currentNode {s : State} {h : Id} (hl : s.openElems.getLast? = some h) :
    Sat currentNode s (fun r s' => r = h ∧ s' = s) := by
  unfold currentNode
  refine sat_getS_bind ?_
  simp only [hl]
  exact sat_pure ⟨rfl, rfl⟩

theorem getLast?_of_ne_nil {l : List Id} (h : l ≠ []) : ∃ x, l.getLast? = some x := by
  cases hl : l.getLast? with
  | none => exact absurd (List.getLast?_eq_none_iff.mp hl) h
  | some x => exact ⟨x, rfl⟩

theorem getLast?_mem {l : List Id} {x : Id} (h : l.getLast? = some x) : x ∈ l :=
  List.mem_of_getLast? h

theorem sat_currentNodeIn {set : EName → Bool} {s : State} {h : Id} (hl : s.openElems.getLast? = some h)
    (hi : IsEl s.dom h) :
    Sat (currentNodeIn set) s (fun b s' => b = set (nm s.dom h) ∧ QF s s') := by
  unfold currentNodeIn
  refine (sat_currentNode hl).bind ?_
  rintro r s' ⟨rfl, rfl⟩
  refine (sat_elemName hi).bind ?_
  rintro n s' ⟨rfl, hq⟩
  exact sat_pure ⟨rfl, hq⟩

theorem sat_currentNodeNamedS {name : Str} {s : State} {h : Id} (hl : s.openElems.getLast? = some h)
    (hi : IsEl s.dom h) :
    Sat (currentNodeNamedS name) s
      (fun b s' => b = ((nm s.dom h).ns == nsHtml && (nm s.dom h).loc == name) ∧ QF s s') := by
  unfold currentNodeNamedS
  refine (sat_currentNode hl).bind ?_
  rintro r s' ⟨rfl, rfl⟩
  exact sat_htmlElemNamedS hi

theorem sat_currentNodeNamed {name : String} {s : State} {h : Id} (hl : s.openElems.getLast? = some h)
    (hi : IsEl s.dom h) :
    Sat (currentNodeNamed name) s
      (fun b s' => b = ((nm s.dom h).ns == nsHtml && (nm s.dom h).loc == name.toList) ∧ QF s s') :=
  sat_currentNodeNamedS hl hi

theorem sat_htmlElem {s : State} {r : Id} {rest : List Id} (hl : s.openElems = r :: rest) :
    Sat htmlElem s (fun x s' => x = r ∧ s' = s) := by
  unfold htmlElem
  refine sat_getS_bind ?_
  simp only [hl, List.head?_cons]
  exact sat_pure ⟨rfl, rfl⟩

theorem sat_htmlElemFn {s : State} {r : Id} {rest : List Id} (hl : s.openElems = r :: rest) :
    Sat htmlElemFn s (fun x s' => x = r ∧ s' = s) := by
  unfold htmlElemFn
  refine sat_getS_bind ?_
  simp only [hl, List.head?_cons]
  exact sat_pure ⟨rfl, rfl⟩

theorem sat_adjustedCurrentNode {s : State} {h : Id} (hl : s.openElems.getLast? = some h) :
    Sat adjustedCurrentNode s (fun r s' => s' = s ∧
      r = (if s.openElems.length == 1 then (match s.contextElem with | some c => c | none => h) else h)) := by
  unfold adjustedCurrentNode
  refine sat_getS_bind ?_
  by_cases hlen : (s.openElems.length == 1) = true
  · simp only [hlen, if_true]
    cases hc : s.contextElem with
    | some c => exact sat_pure ⟨rfl, rfl⟩
    | none => exact (sat_currentNode hl).mono (by rintro r s' ⟨rfl, rfl⟩; exact ⟨rfl, rfl⟩)
  · simp only [hlen, if_false, Bool.false_eq_true]
    exact (sat_currentNode hl).mono (by rintro r s' ⟨rfl, rfl⟩; exact ⟨rfl, rfl⟩)

/-! ### pop -/

theorem dropLast_append_getLast {l : List Id} {h : Id} (hl : l.getLast? = some h) : l = l.dropLast ++ [h] :=
  by
  obtain ⟨ys, rfl⟩ := List.getLast?_eq_some_iff.mp hl
  rw [List.dropLast_concat]

theorem sat_pop {s : State} {h : Id} (hl : s.openElems.getLast? = some h) :
    Sat pop s (fun r s' => r = h ∧ St s s' s.openElems.dropLast) := by
  unfold pop
  refine sat_getS_bind ?_
  simp only [hl]
  refine sat_set_bind ?_
  refine (sat_sinkUnit_total ⟨_, _, apply_pop _ _⟩).bind ?_
  intro _ s' hq
  refine sat_pure ⟨rfl, ?_⟩
  exact ⟨⟨hq.mode, hq.origMode, hq.templateModes, hq.pendingTableText, hq.headElem, hq.formElem,
    hq.contextElem, hq.docHandle, hq.opts, hq.ext⟩, hq.openElems, hq.activeFormatting⟩

theorem sat_popSilently_some {s : State} {h : Id} (hl : s.openElems.getLast? = some h) :
    Sat popSilently s (fun r s' => r = some h ∧ s' = { s with openElems := s.openElems.dropLast }) := by
  unfold popSilently
  refine sat_getS_bind ?_
  simp only [hl]
  exact sat_set_bind (sat_pure ⟨rfl, rfl⟩)

theorem st_dropLast (s : State) : St s { s with openElems := s.openElems.dropLast } s.openElems.dropLast :=
  ⟨⟨rfl, rfl, rfl, rfl, rfl, rfl, rfl, rfl, rfl, Ext.refl _⟩, rfl, rfl⟩

/-! ### `in_html_elem_named` -/

theorem sat_anyHtmlElemNamed {name : String} : ∀ (l : List Id) (s : State), AllEl s.dom l →
    Sat (anyHtmlElemNamed name l) s
      (fun b s' => b = l.any (fun h => (nm s.dom h).ns == nsHtml && (nm s.dom h).loc == name.toList) ∧ QF s s') := by
  intro l
  induction l with
  | nil => intro s _; exact sat_pure ⟨rfl, QF.refl s⟩
  | cons e rest ih =>
    intro s hall
    unfold anyHtmlElemNamed
    refine (sat_htmlElemNamed (hall e (List.mem_cons_self))).bind ?_
    rintro b s1 ⟨rfl, hq⟩
    split
    · rename_i hb
      exact sat_pure ⟨by simp [List.any_cons, hb], hq⟩
    · rename_i hb
      have hall1 : AllEl s1.dom rest := (hall.sub (fun x hx => List.mem_cons_of_mem _ hx)).ext hq.ext
      refine (ih s1 hall1).mono ?_
      rintro b s2 ⟨rfl, hq2⟩
      refine ⟨?_, hq.trans hq2⟩
      simp only [List.any_cons, hb, Bool.false_or]
      apply List.any_congr_left'
      intro x hx
      rw [(hall.sub (fun x hx => List.mem_cons_of_mem _ hx)).nm_eq hq.ext hx]
where
  List.any_congr_left' {l : List Id} {f g : Id → Bool} (h : ∀ x ∈ l, f x = g x) : l.any f = l.any g := by
    induction l with
    | nil => rfl
    | cons a t ih =>
      simp only [List.any_cons]
      rw [h a List.mem_cons_self, ih (fun x hx => h x (List.mem_cons_of_mem _ hx))]

/-- is an HTML element with this local name on the stack -/
def hasNamed (d : Dom) (l : List Id) (name : Str) : Bool :=
  l.any (fun h => (nm d h).ns == nsHtml && (nm d h).loc == name)

theorem sat_inHtmlElemNamed {name : String} {s : State} (hall : AllEl s.dom s.openElems) :
    Sat (inHtmlElemNamed name) s (fun b s' => b = hasNamed s.dom s.openElems name.toList ∧ QF s s') := by
  unfold inHtmlElemNamed
  exact sat_getS_bind (sat_anyHtmlElemNamed _ s hall)

end H5V.Lemmas.TBSafe
