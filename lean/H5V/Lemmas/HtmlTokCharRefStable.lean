import H5V.Lemmas.HtmlTokCharRefCases
import H5V.Lemmas.HtmlTokStep
/-!
A property of the specification `Spec.CharRef.specCharRef` alone: a decision taken on the text
received so far (`atEof = false`, outcome `resolved …`) is final — it is the decision for every
longer text and for the complete stream. (`needMore` is therefore only ever a postponement.)
Proved through the model: the sub-tokenizer is deterministic, monotone in the unread input, and
agrees with the specification on every text.
-/
namespace H5V.Props.C14
open H5V H5V.Model.HtmlTok

/-! ### on the specification: `atEof` only matters where the text ends -/

theorem spec_false_true (b : Bool) (s : Str) (chars : Str) (n : Nat) (err : Bool)
    (h : Spec.CharRef.specCharRef b s false = .resolved chars n err) :
    Spec.CharRef.specCharRef b s true = .resolved chars n err := by
  cases s with
  | nil => simp [Spec.CharRef.specCharRef] at h
  | cons c t =>
    simp only [Spec.CharRef.specCharRef] at h ⊢
    split
    · rename_i hc
      rw [if_pos hc] at h
      unfold Spec.CharRef.specNamed at h ⊢
      cases hp : Spec.CharRef.isNamePrefix (c :: t) with
      | true => simp [hp] at h
      | false =>
        simp only [hp, Bool.and_false, Bool.false_eq_true, ↓reduceIte] at h ⊢
        cases hl : Spec.CharRef.longestName (c :: t) with
        | some kv => rw [hl] at h; exact h
        | none =>
          rw [hl] at h
          simp only at h ⊢
          unfold Spec.CharRef.specAmbiguous at h ⊢
          cases hd : (c :: t).dropWhile Spec.CharRef.isAlnum with
          | nil => simp [hd] at h
          | cons f r => simp only [hd] at h ⊢; exact h
    · rename_i hc
      rw [if_neg hc] at h
      split
      · rename_i hh
        rw [if_pos hh] at h
        unfold Spec.CharRef.specNumeric at h ⊢
        have key : ∀ base lead u, Spec.CharRef.specDigits base lead u false = .resolved chars n err →
            Spec.CharRef.specDigits base lead u true = .resolved chars n err := by
          intro base lead u hd
          unfold Spec.CharRef.specDigits at hd ⊢
          dsimp only at hd ⊢
          cases he : (u.drop (u.takeWhile (fun c => (Spec.CharRef.digitVal base c).isSome)).length).isEmpty with
          | true => simp [he] at hd
          | false =>
            simp only [he, Bool.false_and, Bool.false_eq_true, ↓reduceIte] at hd ⊢
            exact hd
        split
        · rename_i hx; rw [if_pos hx] at h; exact key _ _ _ h
        · rename_i hx; rw [if_neg hx] at h; exact key _ _ _ h
      · rename_i hh
        rw [if_neg hh] at h
        exact h

/-! ### determinism of the sub-tokenizer -/

theorem Steps.prefix {o : Opts} {m a b : Mach} {inp ia ib : Str} {k l : Nat}
    (h1 : Steps o m inp a ia k) (h2 : Steps o m inp b ib l) (hkl : k ≤ l) : Steps o a ia b ib (l - k) := by
  induction h1 generalizing l with
  | refl => simpa using h2
  | @step m inp cr m1 i1 m2 i2 k' hc hs _ ih =>
    cases h2 with
    | refl => omega
    | @step _ _ cr' m1' i1' _ _ l' hc' hs' h2' =>
      rw [hc] at hc'
      simp only [Option.some.injEq] at hc'
      subst hc'
      rw [hs] at hs'
      simp only [R.cont.injEq] at hs'
      obtain ⟨rfl, rfl⟩ := hs'
      have := ih h2' (by omega)
      have e : l' + 1 - (k' + 1) = l' - k' := by omega
      rw [e]; exact this

theorem Steps.none_end {o : Opts} {a b : Mach} {ia ib : Str} {j : Nat} (h : Steps o a ia b ib j)
    (hn : a.charRef = none) : j = 0 ∧ b = a ∧ ib = ia := by
  cases h with
  | refl => exact ⟨rfl, rfl, rfl⟩
  | step hc _ _ => rw [hn] at hc; simp at hc

theorem Steps.stuck_end {o : Opts} {M b : Mach} {cr : CharRefSt} {ib : Str} {j : Nat}
    (h : Steps o (M.setCharRef (some cr)) [] b ib j) (hr : M.reconsume = false) : j = 0 := by
  cases h with
  | refl => rfl
  | step hc hs _ =>
    simp only [setCR_charRef, Option.some.injEq] at hc
    subst hc
    rw [stepCharRef_stuck hr] at hs
    simp at hs

theorem Steps.mono {o : Opts} {m m' : Mach} {inp inp' : Str} {k : Nat} (h : Steps o m inp m' inp' k) (e : Str) :
    Steps o m (inp ++ e) m' (inp' ++ e) k := by
  induction h with
  | refl => exact Steps.refl _ _
  | step hc hs _ ih =>
    refine Steps.step hc ?_ ih
    rw [stepCharRef_mono _ _ _ _ _ (by rw [hs]; rfl), hs]
    rfl

/-! ### separating delivered characters from error tokens -/

def isErrTok (t : Token × Nat) : Bool :=
  match t.1 with
  | .error _ => true
  | _ => false

theorem split_unique (A A' E E' : Out) (h : A ++ E = A' ++ E')
    (hA : ∀ t ∈ A, isErrTok t = false) (hA' : ∀ t ∈ A', isErrTok t = false)
    (hE : ∀ t ∈ E, isErrTok t = true) (hE' : ∀ t ∈ E', isErrTok t = true) : A = A' ∧ E = E' := by
  induction A generalizing A' with
  | nil =>
    cases A' with
    | nil => exact ⟨rfl, by simpa using h⟩
    | cons a' as' =>
      exfalso
      simp only [List.nil_append, List.cons_append] at h
      have h1 := hE a' (by rw [h]; simp)
      have h2 := hA' a' (by simp)
      rw [h1] at h2; simp at h2
  | cons a as ih =>
    cases A' with
    | nil =>
      exfalso
      simp only [List.nil_append, List.cons_append] at h
      have h1 := hE' a (by rw [← h]; simp)
      have h2 := hA a (by simp)
      rw [h1] at h2; simp at h2
    | cons a' as' =>
      simp only [List.cons_append, List.cons.injEq] at h
      obtain ⟨rfl, h⟩ := h
      obtain ⟨r1, r2⟩ := ih as' h (fun t ht => hA t (by simp [ht])) (fun t ht => hA' t (by simp [ht]))
      exact ⟨by rw [r1], r2⟩

theorem charTok_inj (ln : Nat) (cs cs' : Str)
    (h : cs.map (fun c => (charTok c, ln)) = cs'.map (fun c => (charTok c, ln))) : cs = cs' := by
  induction cs generalizing cs' with
  | nil => cases cs' with
    | nil => rfl
    | cons _ _ => simp at h
  | cons c cs ih =>
    cases cs' with
    | nil => simp at h
    | cons c' cs' =>
      simp only [List.map_cons, List.cons.injEq, Prod.mk.injEq, and_true] at h
      obtain ⟨h1, h2⟩ := h
      have hc : c = c' := by
        unfold charTok at h1
        split at h1 <;> split at h1 <;> simp_all
      rw [hc, ih cs' h2]

theorem errsOk_isErr {m : Mach} {errs : Out} {err : Bool} (h : ErrsOk m errs err) :
    ∀ t ∈ errs, isErrTok t = true := by
  intro t ht
  obtain ⟨msg, rfl⟩ := h.1 t ht
  rfl

theorem charToks_notErr (ln : Nat) (cs : Str) :
    ∀ t ∈ (cs.map (fun c => (charTok c, ln))).reverse, isErrTok t = false := by
  intro t ht
  simp only [List.mem_reverse, List.mem_map] at ht
  obtain ⟨c, _, rfl⟩ := ht
  by_cases h0 : c = '\x00' <;> simp [isErrTok, charTok, h0]

/-- two deliveries on a machine with nothing delivered yet that end in the same machine delivered
the same characters and agree on "parse error" -/
theorem deliver_inj (b : Bool) (M : Mach) (hout : M.out = []) (hav : M.attrValue = [])
    (errs errs' : Out) (lf lf' : Bool) (chars chars' : Str) (err err' : Bool)
    (he : ErrsOk M errs err) (he' : ErrsOk M errs' err')
    (h : deliver b M errs lf chars = deliver b M errs' lf' chars') : chars = chars' ∧ err = err' := by
  have herr : errs = errs' → err = err' := by
    intro e
    subst e
    have := he.2.symm.trans he'.2
    cases err <;> cases err' <;> simp_all
  cases b with
  | true =>
    have h1 : (deliver true M errs lf chars).attrValue = (deliver true M errs' lf' chars').attrValue := by rw [h]
    have h2 : (deliver true M errs lf chars).out = (deliver true M errs' lf' chars').out := by rw [h]
    simp only [deliver, ↓reduceIte, hav, List.nil_append, hout, List.append_nil] at h1 h2
    exact ⟨h1, herr h2⟩
  | false =>
    have h2 : (deliver false M errs lf chars).out = (deliver false M errs' lf' chars').out := by rw [h]
    simp only [deliver, Bool.false_eq_true, ↓reduceIte, hout, List.append_nil] at h2
    obtain ⟨r1, r2⟩ := split_unique _ _ _ _ h2 (charToks_notErr _ _) (charToks_notErr _ _)
      (errsOk_isErr he) (errsOk_isErr he')
    have r1' := congrArg List.reverse r1
    simp only [List.reverse_reverse] at r1'
    exact ⟨charTok_inj _ _ _ r1', herr r2⟩

/-! ### the reference never reaches beyond the text -/

theorem longestFrom_le (s : Str) (K k : Nat) (v : Nat × Nat)
    (h : Spec.CharRef.longestFrom s K = some (k, v)) : k ≤ K := by
  induction K with
  | zero => simp [Spec.CharRef.longestFrom] at h
  | succ K ih =>
    simp only [Spec.CharRef.longestFrom] at h
    split at h
    · simp only [Option.some.injEq, Prod.mk.injEq] at h; omega
    · have := ih h; omega

theorem specDigits_le (base lead : Nat) (u : Str) (atEof : Bool) (chars : Str) (n : Nat) (err : Bool)
    (h : Spec.CharRef.specDigits base lead u atEof = .resolved chars n err) : n ≤ lead + u.length := by
  unfold Spec.CharRef.specDigits at h
  dsimp only at h
  generalize hds : u.takeWhile (fun c => (Spec.CharRef.digitVal base c).isSome) = ds at h
  have hle : ds.length ≤ u.length := by
    have := congrArg List.length (@List.takeWhile_append_dropWhile _ (fun c => (Spec.CharRef.digitVal base c).isSome) u)
    rw [hds] at this
    simp only [List.length_append] at this
    omega
  split at h
  · simp at h
  · split at h
    · obtain ⟨_, rfl, _⟩ := literal_inj h; omega
    · split at h
      · rename_i hh
        injection h with _ h2 _
        cases ha : u.drop ds.length with
        | nil => rw [ha] at hh; simp at hh
        | cons x xs =>
          have : (u.drop ds.length).length = u.length - ds.length := List.length_drop
          rw [ha] at this
          simp at this
          omega
      · injection h with _ h2 _
        omega

theorem spec_consumed_le (b : Bool) (s : Str) (atEof : Bool) (chars : Str) (n : Nat) (err : Bool)
    (h : Spec.CharRef.specCharRef b s atEof = .resolved chars n err) : n ≤ s.length := by
  cases s with
  | nil =>
    simp only [Spec.CharRef.specCharRef] at h
    split at h
    · obtain ⟨_, rfl, _⟩ := literal_inj h; omega
    · simp at h
  | cons c t =>
    simp only [Spec.CharRef.specCharRef] at h
    split at h
    · unfold Spec.CharRef.specNamed at h
      split at h
      · simp at h
      · split at h
        · rename_i k v hl
          have hk := longestFrom_le _ _ _ _ hl
          dsimp only at h
          split at h
          · obtain ⟨_, rfl, _⟩ := literal_inj h; omega
          · injection h with _ h2 _
            omega
        · unfold Spec.CharRef.specAmbiguous at h
          dsimp only at h
          split at h
          · split at h
            · obtain ⟨_, rfl, _⟩ := literal_inj h; omega
            · simp at h
          · obtain ⟨_, rfl, _⟩ := literal_inj h; omega
    · split at h
      · unfold Spec.CharRef.specNumeric at h
        split at h
        · have := specDigits_le _ _ _ _ _ _ _ h
          rename_i hx
          cases t with
          | nil => simp at hx
          | cons x u => simp at this ⊢; omega
        · have := specDigits_le _ _ _ _ _ _ _ h
          simp; omega
      · obtain ⟨_, rfl, _⟩ := literal_inj h; omega

/-! ### stability -/

/-- a machine right after `&` with nothing delivered yet -/
def freshM (b : Bool) : Mach :=
  { state := if b then .attributeValue .doubleQuoted else .data, charRef := some { inAttr := b } }

theorem freshM_start (b : Bool) : StartState b (freshM b).state := by
  cases b
  · exact Or.inl ⟨rfl, Or.inl rfl⟩
  · exact Or.inr ⟨rfl, _, rfl⟩

theorem freshM_self (b : Bool) : (freshM b).setCharRef (some { inAttr := b }) = freshM b := rfl

theorem spec_stable_false (b : Bool) (s e : Str) (chars : Str) (n : Nat) (err : Bool)
    (h : Spec.CharRef.specCharRef b s false = .resolved chars n err) :
    Spec.CharRef.specCharRef b (s ++ e) false = .resolved chars n err := by
  have hr : (freshM b).reconsume = false := rfl
  obtain ⟨errs, lf, k, hs, _, he, _⟩ := run_resolves ⟨false⟩ b hr (freshM_start b) s chars n err h
  have hs' := hs.mono e
  have hD1 := deliver_charRef b (freshM b) errs lf chars
  cases h2 : Spec.CharRef.specCharRef b (s ++ e) false with
  | needMore =>
    exfalso
    obtain ⟨_, _, _, _, crm, k2, _, _, _, _, hst2, _⟩ := eof_resolves ⟨false⟩ b hr (s ++ e) h2
    by_cases hkk : k ≤ k2
    · obtain ⟨_, hb, _⟩ := (Steps.prefix hs' hst2 hkk).none_end hD1
      have : ((freshM b).setCharRef (some crm)).charRef = none := by rw [hb]; exact hD1
      simp at this
    · have hp := Steps.prefix hst2 hs' (by omega)
      have := hp.stuck_end hr
      omega
  | resolved chars' n' err' =>
    obtain ⟨errs', lf', k', hs2, _, he', _⟩ :=
      run_resolves ⟨false⟩ b hr (freshM_start b) (s ++ e) chars' n' err' h2
    have hD2 := deliver_charRef b (freshM b) errs' lf' chars'
    have key : deliver b (freshM b) errs lf chars = deliver b (freshM b) errs' lf' chars' ∧
        s.drop n ++ e = (s ++ e).drop n' := by
      by_cases hkk : k ≤ k'
      · obtain ⟨_, hb, hi⟩ := (Steps.prefix hs' hs2 hkk).none_end hD1
        exact ⟨hb.symm, hi.symm⟩
      · obtain ⟨_, hb, hi⟩ := (Steps.prefix hs2 hs' (by omega)).none_end hD2
        exact ⟨hb, hi⟩
    obtain ⟨hc, herr⟩ := deliver_inj b (freshM b) rfl rfl errs errs' lf lf' chars chars' err err' he he' key.1
    have hn1 := spec_consumed_le b s false chars n err h
    have hn2 := spec_consumed_le b (s ++ e) false chars' n' err' h2
    have hlen := congrArg List.length key.2
    simp only [List.length_append, List.length_drop] at hlen hn2
    have : n = n' := by omega
    rw [hc, herr, this]

/-- **a decision is final.** If the standard decides on the text `s` received so far, it decides
the same on every extension of `s`, whether the stream ends there or not. -/
theorem spec_stable (b : Bool) (s e : Str) (atEof : Bool) (chars : Str) (n : Nat) (err : Bool)
    (h : Spec.CharRef.specCharRef b s false = .resolved chars n err) :
    Spec.CharRef.specCharRef b (s ++ e) atEof = .resolved chars n err := by
  have h1 := spec_stable_false b s e chars n err h
  cases atEof with
  | false => exact h1
  | true => exact spec_false_true b _ _ _ _ h1

end H5V.Props.C14
