import H5V.Props.C05
import H5V.Lemmas.HtmlTBSafeMsgs
import H5V.Lemmas.HtmlTBSafeInsert
import H5V.Lemmas.HtmlTBContractKinds
/-!
# TreeSink contract for the HTML tree builder, part 1: the logic and the invariants

Second pass over the model of the HTML tree builder, for property C05: **every** sink call is made
inside the documented `TreeSink` contract (`H5V.Model.Dom.Contract`), hence (C05/C20) never fails in
the DOM model and keeps the arena invariant `Inv`.

* `Esc e` — the failures this pass does not exclude: anything that is not the failure of a sink call
  (panic sites, fuel: the business of `H5V.Props.C04TB`), the `<meta>` extraction failures, and a
  failure inside `maybe_clone_an_option_into_selectedcontent` (excluded from `C05_no_panic_partial`
  too: its contract is proved, its internal loops are not shown to terminate).
* `SatC m s Q` — run from `s`: an `Esc` failure, or a result/state satisfying `Q`.
* `DomI d0 s` — the sink-side invariant: `Inv s.dom`, and the recorded calls are a contract-abiding
  `C20.Run` from the initial arena `d0` to `s.dom` (so "every call so far was inside the contract");
* `HL s` — the handles the builder holds are elements, templates on the stack have `Document` template
  contents, active formatting entries are HTML elements named like their tag (a formatting name) with
  duplicate-free attributes; `LateS s` — no insertion mode (current, original, template) is Initial;
* `GrowRel s s'` — what all code except the adoption agency / frameset / selectedcontent does to the
  tree and the stack: old nodes keep their parent, new nodes have a parent with a smaller id, the
  stack is a sublist of the old one followed by new nodes in creation order;
* `SAnc d l` — the stack-order vs. ancestry invariant the adoption agency needs: a later stack entry
  is never an ancestor-or-self of an earlier one; `SAnc.grow`: preserved by `GrowRel`.
-/
namespace H5V.Lemmas.TBC
open H5V.Model.HtmlTB
open H5V.Model.Dom (Id QualName Attr NodeOrText SinkOp Output ElementFlags QuirksMode Dom NodeData Node Contract)
open H5V.Lemmas.Dom (Anc WF Kinds)
open H5V.Props.C20 (Inv Run)
open H5V.Props.C05 (isMirror NotMirror C05_no_panic_partial C05_inv_preserved)
open H5V.Lemmas.TBSafe (IsEl nm sigOf Ext apply_ext infixL infixL_append isPrefixOf_append tmplName fmtNames
  nm_ext sigOf_ext IsEl.ext)

/-! ### failures -/

/-- the message of a failing sink call -/
def sinkMsg (x : String) : String := errClass x ++ "@sink: " ++ x

def Esc (e : String) : Prop :=
  infixL "@sink: ".toList e.toList = false ∨
  "meta-extract@encoding.rs: ".toList.isPrefixOf e.toList = true ∨
  ∃ (d : Dom) (o : Id) (x : String), d.apply (.maybeCloneAnOptionIntoSelectedcontent o) = .error x ∧ e = sinkMsg x

/-- run from `s`: an `Esc` failure, or a result/state satisfying `Q` -/
def SatC {α : Type} (m : M α) (s : State) (Q : α → State → Prop) : Prop :=
  match m s with
  | .ok (a, s') => Q a s'
  | .error e => Esc e

theorem satc_pure {α : Type} {a : α} {s : State} {Q : α → State → Prop} (h : Q a s) :
    SatC (pure a : M α) s Q := h

theorem SatC.bind {α β : Type} {m : M α} {f : α → M β} {s : State} {Q : α → State → Prop}
    {R : β → State → Prop} (h : SatC m s Q) (hf : ∀ a s', Q a s' → SatC (f a) s' R) :
    SatC (m >>= f) s R := by
  unfold SatC at h ⊢
  show match (StateT.bind m f) s with | .ok (a, s') => R a s' | .error e => Esc e
  unfold StateT.bind
  cases hm : m s with
  | error e => simp only [hm] at h ⊢; exact h
  | ok r =>
    obtain ⟨a, s'⟩ := r
    simp only [hm] at h ⊢
    exact hf a s' h

theorem SatC.mono {α : Type} {m : M α} {s : State} {Q Q' : α → State → Prop} (h : SatC m s Q)
    (hq : ∀ a s', Q a s' → Q' a s') : SatC m s Q' := by
  unfold SatC at h ⊢
  cases hm : m s with
  | error e => simp only [hm] at h ⊢; exact h
  | ok r => obtain ⟨a, s'⟩ := r; simp only [hm] at h ⊢; exact hq a s' h

theorem satc_getS {s : State} {Q : State → State → Prop} (h : Q s s) : SatC getS s Q := h
theorem satc_set {s s1 : State} {Q : Unit → State → Prop} (h : Q () s1) : SatC (set s1 : M Unit) s Q := h
theorem satc_modS {s : State} {f : State → State} {Q : Unit → State → Prop} (h : Q () (f s)) :
    SatC (modS f) s Q := h
theorem satc_throw {α : Type} {e : String} {s : State} {Q : α → State → Prop} (h : Esc e) :
    SatC (throw e : M α) s Q := h

theorem satc_getS_bind {β : Type} {f : State → M β} {s : State} {R : β → State → Prop}
    (h : SatC (f s) s R) : SatC (getS >>= f) s R :=
  SatC.bind (satc_getS (Q := fun a s' => a = s ∧ s' = s) ⟨rfl, rfl⟩) (by rintro a s' ⟨rfl, rfl⟩; exact h)

theorem satc_modS_bind {β : Type} {g : State → State} {f : Unit → M β} {s : State} {R : β → State → Prop}
    (h : SatC (f ()) (g s) R) : SatC (modS g >>= f) s R :=
  SatC.bind (satc_modS (Q := fun _ s' => s' = g s) rfl) (by rintro a s' rfl; exact h)

theorem satc_set_bind {β : Type} {s1 : State} {f : Unit → M β} {s : State} {R : β → State → Prop}
    (h : SatC (f ()) s1 R) : SatC ((set s1 : M Unit) >>= f) s R :=
  SatC.bind (satc_set (Q := fun _ s' => s' = s1) rfl) (by rintro a s' rfl; exact h)

theorem satc_ite {α : Type} {c : Prop} [Decidable c] {a b : M α} {s : State} {Q : α → State → Prop}
    (h1 : c → SatC a s Q) (h2 : ¬c → SatC b s Q) : SatC (if c then a else b) s Q := by
  by_cases hc : c
  · rw [if_pos hc]; exact h1 hc
  · rw [if_neg hc]; exact h2 hc

/-- a panic site is not the failure of a sink call -/
theorem satc_panicAt {α : Type} {cls site text : String} {s : State} {Q : α → State → Prop}
    (h : infixL "@sink: ".toList (cls ++ "@" ++ site ++ ": " ++ text).toList = false := by decide) :
    SatC (panicAt cls site text : M α) s Q := Or.inl h

theorem satc_fuelOut {α : Type} {what : String} {s : State} {Q : α → State → Prop}
    (h : infixL "@sink: ".toList ("model-fuel@model: " ++ what).toList = false := by decide) :
    SatC (fuelOut what : M α) s Q := Or.inl h

theorem satc_throw_lit {α : Type} {e : String} {s : State} {Q : α → State → Prop}
    (h : infixL "@sink: ".toList e.toList = false := by decide) : SatC (throw e : M α) s Q := Or.inl h

/-! ### one sink call -/

theorem run_snoc {d0 d d' : Dom} {ops : List SinkOp} {op : SinkOp} {out : Output} (hr : Run d0 ops d)
    (hc : Contract d op) (ha : d.apply op = .ok (d', out)) : Run d0 (ops ++ [op]) d' := by
  induction hr with
  | nil => exact Run.cons hc ha Run.nil
  | cons hc1 ha1 _ ih => exact Run.cons hc1 ha1 (ih hc ha)

/-- the sink-side invariant: arena invariant, and the recorded calls are a contract-abiding run from
the initial arena -/
structure DomI (d0 : Dom) (s : State) : Prop where
  inv : Inv s.dom
  run : Run d0 (s.traceRev.reverse.map Prod.fst) s.dom

theorem DomI.step {d0 : Dom} {s : State} (h : DomI d0 s) {op : SinkOp} {d' : Dom} {out : Output}
    (hc : Contract s.dom op) (ha : s.dom.apply op = .ok (d', out)) :
    DomI d0 { s with dom := d', traceRev := (op, out) :: s.traceRev } where
  inv := C05_inv_preserved h.inv hc ha
  run := by
    show Run d0 (((op, out) :: s.traceRev).reverse.map Prod.fst) d'
    simp only [List.reverse_cons, List.map_append, List.map_cons, List.map_nil]
    exact run_snoc h.run hc ha

/-- **a sink call inside the contract**: it succeeds (or is the mirror op failing), and afterwards
the sink-side invariant holds again -/
theorem satc_sink {d0 : Dom} {op : SinkOp} {s : State} {Q : Output → State → Prop} (hd : DomI d0 s)
    (hc : Contract s.dom op)
    (hQ : ∀ d' out, s.dom.apply op = .ok (d', out) →
      DomI d0 { s with dom := d', traceRev := (op, out) :: s.traceRev } →
      Q out { s with dom := d', traceRev := (op, out) :: s.traceRev }) : SatC (sink op) s Q := by
  unfold SatC H5V.Model.HtmlTB.sink
  cases ha : s.dom.apply op with
  | ok r => obtain ⟨d', out⟩ := r; simp only; exact hQ d' out ha (hd.step hc ha)
  | error x =>
    simp only
    by_cases hm : isMirror op = true
    · cases op <;> simp [isMirror] at hm
      rename_i o
      exact Or.inr (Or.inr ⟨s.dom, o, x, ha, rfl⟩)
    · obtain ⟨d', out, h⟩ := C05_no_panic_partial hd.inv hc (by simpa [NotMirror] using hm)
      rw [ha] at h; cases h

/-! ### handles -/

/-- an HTML `template` element carries template contents, which is a `Document` node -/
def TcDoc (d : Dom) (h : Id) : Prop :=
  nm d h = tmplName → ∃ q tc ip, sigOf d h = some (q, some tc, ip) ∧ d.dataOf tc = some .document

theorem isDoc_kext {d d' : Dom} (hk : KExt d d') {x : Id} (h : d.dataOf x = some .document) :
    d'.dataOf x = some .document := by
  have h1 := hk x (lt_of_data h)
  rw [h] at h1
  cases hd : d'.dataOf x with
  | none => rw [hd] at h1; cases h1
  | some v =>
    rw [hd] at h1
    cases v <;> simp [kindOf] at h1
    rfl

theorem TcDoc.ext {d d' : Dom} {h : Id} (he : Ext d d') (hk : KExt d d') (hi : IsEl d h) (ht : TcDoc d h) :
    TcDoc d' h := by
  intro hn
  rw [nm_ext he hi] at hn
  obtain ⟨q, tc, ip, hs, hd⟩ := ht hn
  exact ⟨q, tc, ip, he h _ hs, isDoc_kext hk hd⟩

/-- what identifies an attribute list as the tokenizer delivers it: plain lower-case names, no
duplicates (`Joint.convTag`: `plainName`; the tokenizer lower-cases and de-duplicates) -/
def AttrsOk (attrs : List Attr) : Prop :=
  (∀ a ∈ attrs, a.name.ns = [] ∧ a.name.pfx = none ∧ ∀ c ∈ a.name.loc, ¬('A' ≤ c ∧ c ≤ 'Z')) ∧
  (attrs.map (·.name.loc)).Nodup

/-- the handles the builder holds -/
structure HL (s : State) : Prop where
  docH : s.docHandle = 0
  doc0 : s.dom.dataOf 0 = some .document
  open_el : ∀ h ∈ s.openElems, IsEl s.dom h
  open_tc : ∀ h ∈ s.openElems, TcDoc s.dom h
  af : ∀ h t, FormatEntry.element h t ∈ s.activeFormatting →
    IsEl s.dom h ∧ nm s.dom h = ⟨nsHtml, t.name⟩ ∧ isOneOf t.name fmtNames = true ∧ AttrsOk t.attrs
  head : ∀ h, s.headElem = some h → IsEl s.dom h
  form : ∀ h, s.formElem = some h → IsEl s.dom h
  ctx : ∀ h, s.contextElem = some h → IsEl s.dom h
  headTc : ∀ h, s.headElem = some h → TcDoc s.dom h

/-- no insertion mode is Initial -/
structure LateS (s : State) : Prop where
  mode : s.mode ≠ .initial
  orig : s.origMode ≠ some .initial
  tm : Mode.initial ∉ s.templateModes

/-- the base invariant of the contract pass -/
structure CB (d0 : Dom) (s : State) : Prop where
  d : DomI d0 s
  h : HL s
  l : LateS s

/-! ### growth -/

/-- what all code except the adoption agency, `<frameset>` and the selectedcontent mirror does -/
structure GrowRel (s s' : State) : Prop where
  ext : Ext s.dom s'.dom
  kext : KExt s.dom s'.dom
  size : s.dom.size ≤ s'.dom.size
  oldPar : ∀ x, x < s.dom.size → s'.dom.parentOf x = s.dom.parentOf x
  newPar : ∀ x p, s.dom.size ≤ x → s'.dom.parentOf x = some p → p < x
  stack : ∃ sub news, s'.openElems = sub ++ news ∧ sub.Sublist s.openElems ∧
    (∀ r ∈ news, s.dom.size ≤ r ∧ r < s'.dom.size) ∧ news.Pairwise (· < ·)

theorem GrowRel.refl (s : State) : GrowRel s s :=
  ⟨Ext.refl _, KExt.refl _, Nat.le_refl _, fun _ _ => rfl, (fun x p hx hp => by
    rw [H5V.Lemmas.Dom.parentOf_none_of_ge hx] at hp; cases hp),
   ⟨s.openElems, [], by simp, List.Sublist.refl _, by simp, List.Pairwise.nil⟩⟩

theorem GrowRel.trans {a b c : State} (h1 : GrowRel a b) (h2 : GrowRel b c) : GrowRel a c where
  ext := h1.ext.trans h2.ext
  kext := h1.kext.trans h2.kext
  size := Nat.le_trans h1.size h2.size
  oldPar := fun x hx => (h2.oldPar x (Nat.lt_of_lt_of_le hx h1.size)).trans (h1.oldPar x hx)
  newPar := fun x p hx hp => by
    by_cases hb : x < b.dom.size
    · rw [h2.oldPar x hb] at hp; exact h1.newPar x p hx hp
    · exact h2.newPar x p (Nat.le_of_not_lt hb) hp
  stack := by
    obtain ⟨sub1, news1, e1, hs1, hn1, hp1⟩ := h1.stack
    obtain ⟨sub2, news2, e2, hs2, hn2, hp2⟩ := h2.stack
    rw [e1] at hs2
    obtain ⟨l1, l2, rfl, hl1, hl2⟩ := List.sublist_append_iff.mp hs2
    refine ⟨l1, l2 ++ news2, by rw [e2, List.append_assoc], hl1.trans hs1, ?_, ?_⟩
    · intro r hr
      rcases List.mem_append.mp hr with hr | hr
      · have := hn1 r (hl2.subset hr)
        exact ⟨this.1, Nat.lt_of_lt_of_le this.2 h2.size⟩
      · have := hn2 r hr
        exact ⟨Nat.le_trans h1.size this.1, this.2⟩
    · rw [List.pairwise_append]
      refine ⟨hp1.sublist hl2, hp2, ?_⟩
      intro x hx y hy
      exact Nat.lt_of_lt_of_le (hn1 x (hl2.subset hx)).2 (hn2 y hy).1

/-- a later stack entry is never an ancestor-or-self of an earlier one -/
def SAnc (d : Dom) (l : List Id) : Prop := l.Pairwise (fun a b => ¬ Anc d b a)

theorem anc_old {d d' : Dom} (hw : WF d) (hop : ∀ x, x < d.size → d'.parentOf x = d.parentOf x) {b a : Id}
    (h : Anc d' b a) : a < d.size → Anc d b a ∧ b < d.size := by
  induction h with
  | refl => intro ha; exact ⟨Anc.refl, ha⟩
  | @step x p hpar _ ih =>
    intro hx
    rw [hop x hx] at hpar
    have hp : p < d.size := H5V.Lemmas.Dom.parent_lt_size hw hpar
    obtain ⟨h1, h2⟩ := ih hp
    exact ⟨Anc.step hpar h1, h2⟩

theorem anc_new {d d' : Dom} (hw : WF d) (hop : ∀ x, x < d.size → d'.parentOf x = d.parentOf x)
    (hnp : ∀ x p, d.size ≤ x → d'.parentOf x = some p → p < x) {b a : Id} (h : Anc d' b a) :
    b ≤ a ∨ b < d.size := by
  induction h with
  | refl => exact Or.inl (Nat.le_refl _)
  | @step x p hpar hanc ih =>
    by_cases hx : x < d.size
    · exact Or.inr (anc_old hw hop (Anc.step hpar hanc) hx).2
    · have hpx := hnp x p (Nat.le_of_not_lt hx) hpar
      rcases ih with h1 | h1
      · exact Or.inl (Nat.le_of_lt (Nat.lt_of_le_of_lt h1 hpx))
      · exact Or.inr h1

/-- **the stack-order invariant survives growth** -/
theorem SAnc.grow {s s' : State} (hw : WF s.dom) (hel : ∀ h ∈ s.openElems, h < s.dom.size)
    (h : SAnc s.dom s.openElems) (g : GrowRel s s') : SAnc s'.dom s'.openElems := by
  obtain ⟨sub, news, e, hs, hn, hp⟩ := g.stack
  unfold SAnc
  rw [e, List.pairwise_append]
  refine ⟨?_, ?_, ?_⟩
  · have hsub : sub.Pairwise (fun a b => ¬ Anc s.dom b a) := List.Pairwise.sublist hs h
    refine hsub.imp_of_mem ?_
    intro a b ha _ hnab hab
    exact hnab (anc_old hw g.oldPar hab (hel a (hs.subset ha))).1
  · refine hp.imp_of_mem ?_
    intro a b ha hb hlt hab
    rcases anc_new hw g.oldPar g.newPar hab with h1 | h1
    · exact Nat.lt_irrefl _ (Nat.lt_of_lt_of_le hlt h1)
    · exact Nat.lt_irrefl _ (Nat.lt_of_lt_of_le h1 (hn b hb).1)
  · intro a ha b hb hab
    have haold := hel a (hs.subset ha)
    exact Nat.lt_irrefl _ (Nat.lt_of_lt_of_le (anc_old hw g.oldPar hab haold).2 (hn b hb).1)

end H5V.Lemmas.TBC
