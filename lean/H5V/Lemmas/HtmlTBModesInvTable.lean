import H5V.Lemmas.HtmlTBModesInvCell
import H5V.Lemmas.HtmlTBModesInvBodyH
/-!
C02 (insertion modes), the invariant `Good` of the specification's run: the rules of the table modes "in table",
"in table text", "in caption", "in column group", "in table body", and of "in template".
-/
set_option linter.unusedSectionVars false
set_option linter.unusedSimpArgs false
namespace H5V.Lemmas.ModesInv
open H5V.Spec H5V.Spec.TreeModes
open H5V.Spec.TreeAlgo (Str Name nsHtml nsMathml nsSvg inHtml)
open H5V.Spec.TreeAlgo2 (Elem Entry PState)

section
variable {N : Type} [DecidableEq N]

/-! ### helpers -/

@[simp] theorem clearBackToTable_mode (s : State N) : (clearBackToTable s).mode = s.mode := rfl
@[simp] theorem clearBackToTable_orig (s : State N) : (clearBackToTable s).originalMode = s.originalMode := rfl
@[simp] theorem clearBackToTable_tms (s : State N) : (clearBackToTable s).templateModes = s.templateModes := rfl
@[simp] theorem clearBackToTable_stopped (s : State N) : (clearBackToTable s).stopped = s.stopped := rfl
@[simp] theorem clearBackToTable_list (s : State N) : (clearBackToTable s).p.list = s.p.list := rfl

@[simp] theorem clearBackToTableBody_mode (s : State N) : (clearBackToTableBody s).mode = s.mode := rfl
@[simp] theorem clearBackToTableBody_orig (s : State N) : (clearBackToTableBody s).originalMode = s.originalMode := rfl
@[simp] theorem clearBackToTableBody_tms (s : State N) : (clearBackToTableBody s).templateModes = s.templateModes := rfl
@[simp] theorem clearBackToTableBody_stopped (s : State N) : (clearBackToTableBody s).stopped = s.stopped := rfl
@[simp] theorem clearBackToTableBody_list (s : State N) : (clearBackToTableBody s).p.list = s.p.list := rfl

theorem tb_plain_of_tblOrig {m : IMode} (h : tblOrig m) : plainMode m := by
  rcases h with h | h | h <;> subst h <;> decide

/-- `Step.map` with "disable foster parenting" changes neither the node supply nor the stack -/
theorem tb_map_supply (r : Step N) (b : Bool) :
    (r.map fun s => s.setFoster b).state.p.supply = r.state.p.supply := by
  cases r <;> rfl

theorem tb_map_stack (r : Step N) (b : Bool) :
    (r.map fun s => s.setFoster b).state.p.stack = r.state.p.stack := by
  cases r <;> rfl

theorem tb_post_map {r : Step N} (b : Bool) (h : Post r) : Post (r.map fun s => s.setFoster b) := by
  cases r with
  | done s => exact fun hs => (h hs).same
  | reprocess s => exact ⟨h.1, h.2.same⟩
  | reprocessHtml s => exact h.elim

/-- "anything else" of "in table": "in body" with foster parenting enabled -/
theorem tb_anythingElse (hbody : Keeps (inBody (N := N)) PreBody) {cfg : Config N}
    (hed : cfg.edition = .customizableSelect) {σ : State N} {tok : STok} {r : Step N} (hg : Good σ)
    (hst : σ.stopped = false) (hl : LinkFor σ tok) (hfr : FreshFor σ tok r) (hpre : PreBody σ tok)
    (h : inTableAnythingElse cfg σ tok = .ok r) : Post r := by
  unfold inTableAnythingElse at h
  obtain ⟨r0, h1, h2⟩ := bind_ok h
  cases pure_ok h2
  apply tb_post_map
  refine hbody cfg hed ((σ.err "in table: foster parenting").setFoster true) tok r0 hg.same hst (fun hc => (hl hc).same) (fun hc => ?_) hpre h1
  have := hfr hc
  rw [tb_map_supply] at this
  exact this

/-- "anything else" of "in table" for a character token -/
theorem tb_anythingElse_char {cfg : Config N} {σ : State N} {c : Char} {r : Step N} (haf : AFOk σ.p.list)
    (h : inTableAnythingElse cfg σ (.character c) = .ok r) :
    r.state.mode = σ.mode ∧ r.state.originalMode = σ.originalMode ∧ r.state.templateModes = σ.templateModes ∧
      r.state.stopped = σ.stopped ∧ AFOk r.state.p.list := by
  unfold inTableAnythingElse at h
  obtain ⟨r0, h1, h2⟩ := bind_ok h
  cases pure_ok h2
  obtain ⟨s', rfl, es, l', hu, _, haf'⟩ := inBody_char_eff (σ := (σ.err "in table: foster parenting").setFoster true) haf h1
  refine ⟨hu.mode, hu.orig, hu.tms, hu.stopped, ?_⟩
  show AFOk s'.p.list
  rw [hu.list]; exact haf'

/-- the non-whitespace case of "in table text": the pending characters go through "anything else" of "in table" -/
theorem tb_flush_eff {cfg : Config N} : ∀ (cs : Str) {s s' : State N}, AFOk s.p.list →
    flushPendingFostered cfg cs s = .ok s' →
    s'.mode = s.mode ∧ s'.originalMode = s.originalMode ∧ s'.templateModes = s.templateModes ∧
      s'.stopped = s.stopped ∧ AFOk s'.p.list
  | [], s, s', haf, h => by
    unfold flushPendingFostered at h
    cases pure_ok h
    exact ⟨rfl, rfl, rfl, rfl, haf⟩
  | c :: cs, s, s', haf, h => by
    unfold flushPendingFostered at h
    obtain ⟨r, h1, h2⟩ := bind_ok h
    obtain ⟨a1, a2, a3, a4, a5⟩ := tb_anythingElse_char haf h1
    obtain ⟨b1, b2, b3, b4, b5⟩ := tb_flush_eff cs a5 h2
    exact ⟨b1.trans a1, b2.trans a2, b3.trans a3, b4.trans a4, b5⟩

/-- "reset the insertion mode appropriately" from a state with a good list and good template modes -/
theorem tb_good_reset {cfg : Config N} (hed : cfg.edition = .customizableSelect) {s s' : State N}
    (haf : AFOk s.p.list) (htm : ∀ m ∈ s.templateModes, tmOk m) (h : resetInsertionMode cfg s = .ok s') :
    Good s' ∧ s'.stopped = s.stopped := by
  obtain ⟨m, rfl, hm1, hm2, hm3, hm4, hmc⟩ := resetInsertionMode_eff cfg hed htm h
  refine ⟨?_, rfl⟩
  by_cases hc : m = .inCell
  · exact Good.ofCell hc (hmc hc) haf htm
  · exact Good.plain ⟨hc, hm1, hm2, hm3, hm4⟩ haf htm

theorem tb_tm_switch {l : List IMode} {m : IMode} (h : ∀ x ∈ l, tmOk x) (hm : tmOk m) :
    ∀ x ∈ l.dropLast ++ [m], tmOk x := by
  intro x hx
  rcases List.mem_append.mp hx with hx | hx
  · exact h x (List.dropLast_subset l hx)
  · simp only [List.mem_singleton] at hx
    subst hx; exact hm

/-! ### "in table" -/

/-- clear the stack back to a table context, (insert a marker,) insert an element, switch to the plain mode `m` -/
theorem tb_ins {σ : State N} (hg : Good σ) (hst : σ.stopped = false) {m : IMode} {t' : Tag} {s0 s1 : State N}
    (hp : plainMode m) (h1 : s0.templateModes = σ.templateModes) (h2 : s0.stopped = σ.stopped) (h3 : AFOk s0.p.list)
    (hi : insertHtml' s0 t' = .ok s1) : (s1.setMode m).stopped = false ∧ Good (s1.setMode m) := by
  obtain ⟨e, _, _, hu, _⟩ := insertHtml'_eff hi
  refine ⟨?_, Good.plain hp ?_ ?_⟩
  · rw [setMode_stopped, hu.stopped, h2]; exact hst
  · rw [setMode_p, hu.list]; exact h3
  · rw [setMode_tms, hu.tms, h1]; exact hg.tm

/-- pop until a `table` has been popped, reset the insertion mode -/
theorem tb_reset {cfg : Config N} (hed : cfg.edition = .customizableSelect) {σ : State N} (hg : Good σ)
    (hst : σ.stopped = false) {w : String} {s1 : State N}
    (h1 : resetInsertionMode cfg (popUntilPopped (σ.err w) "table") = .ok s1) : s1.stopped = false ∧ Good s1 := by
  obtain ⟨a, b⟩ := tb_good_reset hed (s := popUntilPopped (σ.err w) "table") hg.af hg.tm h1
  exact ⟨b.trans hst, a⟩

/-- the hypotheses of the parts of `keeps_inTable` -/
structure TbCtx (cfg : Config N) (σ : State N) (tok : STok) (r : Step N) : Prop where
  ed : cfg.edition = .customizableSelect
  good : Good σ
  live : σ.stopped = false
  pre : tblOrig σ.mode
  ae : inTableAnythingElse cfg σ tok = .ok r → Post r
  head : inHead cfg σ tok = .ok r → Post r

theorem tb_inTable_start1 {cfg : Config N} {σ : State N} {t : Tag} {r : Step N} (hc : TbCtx cfg σ (.startTag t) r)
    (hcase : t.is "caption" = true ∨ t.is "colgroup" = true ∨ t.is "col" = true ∨
      t.isOneOf ["tbody", "tfoot", "thead"] = true ∨ t.isOneOf ["td", "th", "tr"] = true)
    (h : inTable cfg σ (.startTag t) = .ok r) : Post r := by
  have hg := hc.good
  have hst := hc.live
  unfold inTable at h
  dsimp only at h
  split at h
  · -- caption
    obtain ⟨s1, h1, h2⟩ := bind_ok h
    cases pure_ok h2
    exact fun _ => (tb_ins hg hst (m := .inCaption) (s0 := (clearBackToTable σ).insertMarker) (by decide) rfl rfl
      hg.af.marker h1).2
  · split at h
    · -- colgroup
      obtain ⟨s1, h1, h2⟩ := bind_ok h
      cases pure_ok h2
      exact fun _ => (tb_ins hg hst (m := .inColumnGroup) (s0 := clearBackToTable σ) (by decide) rfl rfl hg.af h1).2
    · split at h
      · -- col
        obtain ⟨s1, h1, h2⟩ := bind_ok h
        cases pure_ok h2
        exact tb_ins hg hst (m := .inColumnGroup) (s0 := clearBackToTable σ) (by decide) rfl rfl hg.af h1
      · split at h
        · -- tbody, tfoot, thead
          obtain ⟨s1, h1, h2⟩ := bind_ok h
          cases pure_ok h2
          exact fun _ => (tb_ins hg hst (m := .inTableBody) (s0 := clearBackToTable σ) (by decide) rfl rfl hg.af h1).2
        · split at h
          · -- td, th, tr
            obtain ⟨s1, h1, h2⟩ := bind_ok h
            cases pure_ok h2
            exact tb_ins hg hst (m := .inTableBody) (s0 := clearBackToTable σ) (by decide) rfl rfl hg.af h1
          · rename_i a1 a2 a3 a4 a5
            rcases hcase with hx | hx | hx | hx | hx
            · exact absurd hx a1
            · exact absurd hx a2
            · exact absurd hx a3
            · exact absurd hx a4
            · exact absurd hx a5

theorem tb_inTable_start2 {cfg : Config N} {σ : State N} {t : Tag} {r : Step N} (hc : TbCtx cfg σ (.startTag t) r)
    (hcase : ¬ (t.is "caption" = true ∨ t.is "colgroup" = true ∨ t.is "col" = true ∨
      t.isOneOf ["tbody", "tfoot", "thead"] = true ∨ t.isOneOf ["td", "th", "tr"] = true))
    (h : inTable cfg σ (.startTag t) = .ok r) : Post r := by
  have hg := hc.good
  have hst := hc.live
  have hplain : plainMode σ.mode := tb_plain_of_tblOrig hc.pre
  simp only [not_or] at hcase
  obtain ⟨a1, a2, a3, a4, a5⟩ := hcase
  unfold inTable at h
  dsimp only at h
  rw [if_neg a1, if_neg a2, if_neg a3, if_neg a4, if_neg a5] at h
  split at h
  · -- table
    split at h
    · cases pure_ok h; exact fun _ => hg.same
    · obtain ⟨s1, h1, h2⟩ := map_ok h
      subst h2
      exact tb_reset hc.ed hg hst h1
  · split at h
    · -- style, script, template
      exact hc.head h
    · split at h
      · -- input
        split at h
        · exact hc.ae h
        · obtain ⟨s1, h1, h2⟩ := map_ok h
          subst h2
          obtain ⟨_, hu⟩ := insertVoid_eff h1
          exact fun _ => hg.same hu.mode hu.orig hu.tms hu.stack hu.list
      · split at h
        · -- form
          split at h
          · cases pure_ok h; exact fun _ => hg.same
          · obtain ⟨⟨s1, e⟩, h1, h2⟩ := bind_ok h
            cases pure_ok h2
            obtain ⟨_, _, hu, _⟩ := insertHtml_eff h1
            refine fun _ => hg.toPlain ?_ ?_ ?_
            · show plainMode s1.mode
              rw [hu.mode]; exact hplain
            · show s1.templateModes = σ.templateModes
              exact hu.tms
            · show s1.p.list = σ.p.list
              exact hu.list
        · exact hc.ae h

theorem tb_inTable_end {cfg : Config N} {σ : State N} {t : Tag} {r : Step N} (hc : TbCtx cfg σ (.endTag t) r)
    (h : inTable cfg σ (.endTag t) = .ok r) : Post r := by
  have hg := hc.good
  have hst := hc.live
  unfold inTable at h
  dsimp only at h
  split at h
  · split at h
    · cases pure_ok h; exact fun _ => hg.same
    · obtain ⟨s1, h1, h2⟩ := map_ok h
      subst h2
      exact fun _ => (tb_good_reset hc.ed (s := popUntilPopped σ "table") hg.af hg.tm h1).1
  · split at h
    · cases pure_ok h; exact fun _ => hg.same
    · split at h
      · exact hc.head h
      · exact hc.ae h

theorem keeps_inTable (hbody : Keeps (inBody (N := N)) PreBody) (hhead : Keeps0 (inHead (N := N)) PreHead) :
    Keeps (inTable (N := N)) PreTable := by
  intro cfg hed σ tok r hg hst hl hfr hpre h
  have hpre : tblOrig σ.mode := hpre
  have hplain : plainMode σ.mode := tb_plain_of_tblOrig hpre
  have hpb : PreBody σ tok := ⟨hplain.2.1, hplain.2.2.1, fun hc => absurd hc hplain.1⟩
  have hae : inTableAnythingElse cfg σ tok = .ok r → Post r := fun h =>
    tb_anythingElse hbody hed hg hst hl hfr hpb h
  have hhead' : inHead cfg σ tok = .ok r → Post r := fun h =>
    hhead cfg hed σ tok r hg hst ⟨hplain.2.1, hplain.2.2.1⟩ h
  have hc : TbCtx cfg σ tok r := ⟨hed, hg, hst, hpre, hae, hhead'⟩
  cases tok with
  | character c =>
    unfold inTable at h
    dsimp only at h
    split at h
    · rename_i hcur
      cases pure_ok h
      exact ⟨hst, Good.mk (fun hc => (by cases hc)) (fun hc => (by cases hc)) (fun _ => ⟨hpre, Or.inl hcur⟩)
        ⟨(by intro hc; cases hc), (by intro hc; cases hc)⟩ hg.af hg.tm⟩
    · exact hae h
  | comment d =>
    unfold inTable at h
    obtain ⟨s1, h1, h2⟩ := map_ok h
    subst h2
    have hu := insertComment_eff h1
    exact fun _ => hg.same hu.mode hu.orig hu.tms hu.stack hu.list
  | doctype _ _ _ _ =>
    unfold inTable at h
    cases pure_ok h; exact fun _ => hg.same
  | startTag t =>
    by_cases hcase : t.is "caption" = true ∨ t.is "colgroup" = true ∨ t.is "col" = true ∨
      t.isOneOf ["tbody", "tfoot", "thead"] = true ∨ t.isOneOf ["td", "th", "tr"] = true
    · exact tb_inTable_start1 hc hcase h
    · exact tb_inTable_start2 hc hcase h
  | endTag t => exact tb_inTable_end hc h
  | eof =>
    unfold inTable at h
    exact hbody cfg hed σ _ r hg hst hl hfr hpb h

/-! ### "in table text" -/

theorem keeps_inTableText : Keeps (inTableText (N := N)) (PreMode .inTableText) := by
  intro cfg hed σ tok r hg hst hl hfr hm h
  have hm : σ.mode = .inTableText := hm
  have htbl : tblOrig σ.originalMode := (hg.ttext hm).1
  -- "anything else"
  have hae : ∀ s1 : State N, s1.originalMode = σ.originalMode → s1.templateModes = σ.templateModes →
      s1.stopped = σ.stopped → AFOk s1.p.list →
      Post (.reprocess (s1.setMode s1.originalMode)) := by
    intro s1 h1 h2 h3 h4
    refine ⟨h3.trans hst, Good.plain ?_ h4 ?_⟩
    · show plainMode s1.originalMode
      rw [h1]; exact tb_plain_of_tblOrig htbl
    · show ∀ m ∈ s1.templateModes, tmOk m
      rw [h2]; exact hg.tm
  unfold inTableText at h
  cases tok with
  | character c =>
    dsimp only at h
    split at h
    · cases pure_ok h; exact fun _ => hg.same
    · cases pure_ok h; exact fun _ => hg.same
  | _ =>
    dsimp only at h
    split at h
    · obtain ⟨s1, h1, h2⟩ := bind_ok h
      cases pure_ok h2
      obtain ⟨_, b2, b3, b4, b5⟩ := tb_flush_eff (s := σ.err "in table text: non-whitespace") _ hg.af h1
      exact hae s1 b2 b3 b4 b5
    · obtain ⟨s1, h1, h2⟩ := bind_ok h
      cases pure_ok h2
      have hu := insertChars_eff h1
      exact hae s1 hu.orig hu.tms hu.stopped (by rw [hu.list]; exact hg.af)

/-! ### "in caption" -/

theorem tb_closeCaption {σ s' : State N} (hg : Good σ) (h : closeCaption σ = some s') :
    Good s' ∧ s'.stopped = σ.stopped := by
  unfold closeCaption at h
  dsimp only at h
  split at h
  · cases h
  · simp only [Option.some.injEq] at h
    subst h
    refine ⟨Good.plain' (m := .inTable) rfl (by decide) ?_ ?_, ?_⟩
    · simp only [setMode_p, clearToLastMarker_list, popUntilPopped_list]
      split <;> simp only [err_p, genImplied_list] <;> exact hg.af.clear
    · simp only [setMode_tms, clearToLastMarker_tms, popUntilPopped_tms]
      split <;> simp only [err_tms, genImplied_tms] <;> exact hg.tm
    · simp only [setMode_stopped, clearToLastMarker_stopped, popUntilPopped_stopped]
      split <;> simp only [err_stopped, genImplied_stopped]

theorem keeps_inCaption (hbody : Keeps (inBody (N := N)) PreBody) : Keeps (inCaption (N := N)) (PreMode .inCaption) := by
  intro cfg hed σ tok r hg hst hl hfr hm h
  have hm : σ.mode = .inCaption := hm
  have hbody' : ∀ r', r' = r → inBody cfg σ tok = .ok r' → Post r' := fun r' hr h =>
    hbody cfg hed σ tok r' hg hst hl (hr ▸ hfr) ⟨by rw [hm]; decide, by rw [hm]; decide, fun hc => by rw [hm] at hc; cases hc⟩ h
  unfold inCaption at h
  cases tok with
  | endTag t =>
    dsimp only at h
    split at h
    · split at h
      · cases pure_ok h; exact fun _ => hg.same
      · rename_i s' hcc
        cases pure_ok h
        exact fun _ => (tb_closeCaption hg hcc).1
    · split at h
      · split at h
        · cases pure_ok h; exact fun _ => hg.same
        · rename_i s' hcc
          cases pure_ok h
          obtain ⟨a, b⟩ := tb_closeCaption hg hcc
          exact ⟨b.trans hst, a⟩
      · split at h
        · cases pure_ok h; exact fun _ => hg.same
        · exact hbody' r rfl h
  | startTag t =>
    dsimp only at h
    split at h
    · split at h
      · cases pure_ok h; exact fun _ => hg.same
      · rename_i s' hcc
        cases pure_ok h
        obtain ⟨a, b⟩ := tb_closeCaption hg hcc
        exact ⟨b.trans hst, a⟩
    · exact hbody' r rfl h
  | character c => exact hbody' r rfl h
  | comment d => exact hbody' r rfl h
  | doctype _ _ _ _ => exact hbody' r rfl h
  | eof => exact hbody' r rfl h

/-! ### "in column group" -/

theorem keeps_inColumnGroup (hbody : Keeps (inBody (N := N)) PreBody) (hhead : Keeps0 (inHead (N := N)) PreHead) :
    Keeps (inColumnGroup (N := N)) (PreMode .inColumnGroup) := by
  intro cfg hed σ tok r hg hst hl hfr hm h
  have hm : σ.mode = .inColumnGroup := hm
  have hbody' : ∀ r', r' = r → inBody cfg σ tok = .ok r' → Post r' := fun r' hr h =>
    hbody cfg hed σ tok r' hg hst hl (hr ▸ hfr) ⟨by rw [hm]; decide, by rw [hm]; decide, fun hc => by rw [hm] at hc; cases hc⟩ h
  have hhead' : ∀ r', inHead cfg σ tok = .ok r' → Post r' := fun r' h =>
    hhead cfg hed σ tok r' hg hst ⟨by rw [hm]; decide, by rw [hm]; decide⟩ h
  have hpop : Good (σ.pop.setMode .inTable) := hg.toPlain' (m := .inTable) rfl (by decide)
  -- "anything else"
  have hae : ∀ r, (if (!σ.curIs "colgroup") = true then
        pure (Step.done (σ.err "in column group: current node is not colgroup"))
      else pure (Step.reprocess (σ.pop.setMode .inTable)) : M (Step N)) = .ok r → Post r := by
    intro r h
    split at h
    · cases pure_ok h; exact fun _ => hg.same
    · cases pure_ok h; exact ⟨hst, hpop⟩
  unfold inColumnGroup at h
  cases tok with
  | character c =>
    dsimp only at h
    split at h
    · obtain ⟨s1, h1, h2⟩ := map_ok h
      subst h2
      have hu := insertChar_eff h1
      exact fun _ => hg.same hu.mode hu.orig hu.tms hu.stack hu.list
    · exact hae r h
  | comment d =>
    obtain ⟨s1, h1, h2⟩ := map_ok h
    subst h2
    have hu := insertComment_eff h1
    exact fun _ => hg.same hu.mode hu.orig hu.tms hu.stack hu.list
  | doctype _ _ _ _ => cases pure_ok h; exact fun _ => hg.same
  | startTag t =>
    dsimp only at h
    split at h
    · exact hbody' r rfl h
    · split at h
      · obtain ⟨s1, h1, h2⟩ := map_ok h
        subst h2
        obtain ⟨_, hu⟩ := insertVoid_eff h1
        exact fun _ => hg.same hu.mode hu.orig hu.tms hu.stack hu.list
      · split at h
        · exact hhead' r h
        · exact hae r h
  | endTag t =>
    dsimp only at h
    split at h
    · split at h
      · cases pure_ok h; exact fun _ => hg.same
      · cases pure_ok h; exact fun _ => hpop
    · split at h
      · cases pure_ok h; exact fun _ => hg.same
      · split at h
        · exact hhead' r h
        · exact hae r h
  | eof => exact hbody' r rfl h

/-! ### "in table body" -/

theorem keeps_inTableBody (htable : Keeps (inTable (N := N)) PreTable) :
    Keeps (inTableBody (N := N)) (PreMode .inTableBody) := by
  intro cfg hed σ tok r hg hst hl hfr hm h
  have hm : σ.mode = .inTableBody := hm
  have htable' : ∀ r', r' = r → inTable cfg σ tok = .ok r' → Post r' := fun r' hr h =>
    htable cfg hed σ tok r' hg hst hl (hr ▸ hfr) (Or.inr (Or.inl hm)) h
  have hclose : Good ((clearBackToTableBody σ).pop.setMode .inTable) :=
    hg.toPlain' (m := .inTable) rfl (by decide)
  -- `closeBody`
  have hcb : ∀ r, (if (!hasAnyInTableScope σ ["tbody", "thead", "tfoot"]) = true then
        pure (Step.done (σ.err "in table body: no tbody/thead/tfoot in table scope"))
      else pure (Step.reprocess ((clearBackToTableBody σ).pop.setMode .inTable)) : M (Step N)) = .ok r → Post r := by
    intro r h
    split at h
    · cases pure_ok h; exact fun _ => hg.same
    · cases pure_ok h; exact ⟨hst, hclose⟩
  unfold inTableBody at h
  cases tok with
  | startTag t =>
    dsimp only at h
    split at h
    · obtain ⟨s1, h1, h2⟩ := bind_ok h
      cases pure_ok h2
      obtain ⟨e, _, _, hu, _⟩ := insertHtml'_eff h1
      refine fun _ => Good.plain' (m := .inRow) rfl (by decide) ?_ ?_
      · simp only [setMode_p, hu.list, clearBackToTableBody_list]; exact hg.af
      · simp only [setMode_tms, hu.tms, clearBackToTableBody_tms]; exact hg.tm
    · split at h
      · obtain ⟨s1, h1, h2⟩ := bind_ok h
        cases pure_ok h2
        obtain ⟨e, _, _, hu, _⟩ := insertHtml'_eff h1
        refine ⟨?_, Good.plain' (m := .inRow) rfl (by decide) ?_ ?_⟩
        · simp only [setMode_stopped, hu.stopped, clearBackToTableBody_stopped, err_stopped]; exact hst
        · simp only [setMode_p, hu.list, clearBackToTableBody_list, err_p]; exact hg.af
        · simp only [setMode_tms, hu.tms, clearBackToTableBody_tms, err_tms]; exact hg.tm
      · split at h
        · exact hcb r h
        · exact htable' r rfl h
  | endTag t =>
    dsimp only at h
    split at h
    · split at h
      · cases pure_ok h; exact fun _ => hg.same
      · cases pure_ok h; exact fun _ => hclose
    · split at h
      · exact hcb r h
      · split at h
        · cases pure_ok h; exact fun _ => hg.same
        · exact htable' r rfl h
  | character c => exact htable' r rfl h
  | comment d => exact htable' r rfl h
  | doctype _ _ _ _ => exact htable' r rfl h
  | eof => exact htable' r rfl h

/-! ### "in template" -/

theorem keeps_inTemplate (hbody : Keeps (inBody (N := N)) PreBody) (hhead : Keeps0 (inHead (N := N)) PreHead) :
    Keeps (inTemplate (N := N)) (PreMode .inTemplate) := by
  intro cfg hed σ tok r hg hst hl hfr hm h
  have hm : σ.mode = .inTemplate := hm
  have hbody' : ∀ r', r' = r → inBody cfg σ tok = .ok r' → Post r' := fun r' hr h =>
    hbody cfg hed σ tok r' hg hst hl (hr ▸ hfr) ⟨by rw [hm]; decide, by rw [hm]; decide, fun hc => by rw [hm] at hc; cases hc⟩ h
  have hhead' : ∀ r', inHead cfg σ tok = .ok r' → Post r' := fun r' h =>
    hhead cfg hed σ tok r' hg hst ⟨by rw [hm]; decide, by rw [hm]; decide⟩ h
  -- `switchTo m`
  have hsw : ∀ (m : IMode) r, plainMode m → tmOk m →
      (pure (Step.reprocess { σ with templateModes := σ.templateModes.dropLast ++ [m], mode := m }) : M (Step N)) = .ok r →
      Post r := by
    intro m r hp hm h
    cases pure_ok h
    exact ⟨hst, Good.plain hp hg.af (tb_tm_switch hg.tm hm)⟩
  unfold inTemplate at h
  cases tok with
  | character c => exact hbody' r rfl h
  | comment d => exact hbody' r rfl h
  | doctype _ _ _ _ => exact hbody' r rfl h
  | startTag t =>
    dsimp only at h
    split at h
    · exact hhead' r h
    · split at h
      · exact hsw .inTable r (by decide) (Or.inr (Or.inl rfl)) h
      · split at h
        · exact hsw .inColumnGroup r (by decide) (Or.inr (Or.inr (Or.inl rfl))) h
        · split at h
          · exact hsw .inTableBody r (by decide) (Or.inr (Or.inr (Or.inr (Or.inl rfl)))) h
          · split at h
            · exact hsw .inRow r (by decide) (Or.inr (Or.inr (Or.inr (Or.inr (Or.inl rfl))))) h
            · exact hsw .inBody r (by decide) (Or.inr (Or.inr (Or.inr (Or.inr (Or.inr rfl))))) h
  | endTag t =>
    dsimp only at h
    split at h
    · exact hhead' r h
    · cases pure_ok h; exact fun _ => hg.same
  | eof =>
    exact post_inTemplateEof ⟨hed, hg, hst, by rw [hm]; decide, by rw [hm]; decide⟩ h

end
end H5V.Lemmas.ModesInv
