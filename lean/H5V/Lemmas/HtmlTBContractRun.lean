import H5V.Lemmas.HtmlTBContractRules1
import H5V.Lemmas.HtmlTBContractTable
import H5V.Lemmas.HtmlTBContractInit
/-!
# TreeSink contract for the HTML tree builder, part 9: foreign content, `process_to_completion`,
`process_token`, `end`, the constructors

Everything here is relative to `StepH d0`: the judgement `RS` for `step m tok` in every mode but Initial
(assembled from the rule files in `HtmlTBContractAll`).
-/
namespace H5V.Lemmas.TBC
open H5V.Model.HtmlTB
open H5V.Model.Dom (Id QualName Attr NodeOrText SinkOp Output ElementFlags QuirksMode Dom NodeData Node Contract)
open H5V.Lemmas.Dom
open H5V.Props.C20 (Inv Run)
open H5V.Lemmas.TBSafe (IsEl nm sigOf Ext apply_ext)

variable {d0 : Dom}

/-- the rules of all modes but Initial -/
def StepH (d0 : Dom) : Prop := ∀ m tok, m ≠ .initial → TokOk tok → RS d0 tok (step m tok)

/-! ### foreign content -/

theorem res_foreignStartTag {tag : Tag} {s s' : State} {r : ProcessResult}
    (h : foreignStartTag tag s = .ok (r, s')) : NoRep r := by
  unfold foreignStartTag at h
  obtain ⟨_, s1, _, h2⟩ := ok_bind h
  obtain ⟨_, s2, _, h3⟩ := ok_bind h2
  dsimp only at h3
  refine ok_ite h3 ?_ ?_
  · intro s3 s4 r1 h4; rw [ok_bind_pure h4]; trivial
  · intro s3 s4 r1 h4; rw [ok_bind_pure h4]; trivial

theorem cpp_foreignStartTag {c : List Id} {tag : Tag} {tok : Token} (ha : AttrsOk tag.attrs) :
    CPP d0 c (foreignStartTag tag) (fun _ => []) (ResLate tok) :=
  cpp_of_cp_ok (cp_foreignStartTag ha) (fun _ _ _ h => ResLate.of_noRep (res_foreignStartTag h))

/-- `step(self.mode, token)` at the current state -/
theorem cpsp_stepCurrent (hS : StepH d0) {c : List Id} {tok : Token} (ht : TokOk tok) :
    CPSP d0 c (do step (← getS).mode tok) (fun _ => []) (ResLate tok) := by
  refine cpsp_getS_bind_at (fun s0 => ?_)
  intro hcb hsa hc
  exact cpsp_of_rs (hS s0.mode tok hcb.l.mode ht) s0 hcb hsa hc

theorem rs_unexpectedStartTagInForeignContent (hS : StepH d0) {tag : Tag} (ha : AttrsOk tag.attrs) :
    RS d0 (.tag tag) (unexpectedStartTagInForeignContent tag) := by
  unfold unexpectedStartTagInForeignContent RS
  refine cpsp_bind_cp cp_unexpected (fun _ => ?_)
  refine cpsp_getS_bind (fun s0 => ?_)
  refine cpsp_bind_cp (cp_popToIntegrationPointLoop _) (fun _ => ?_)
  exact cpsp_stepCurrent hS ha

theorem rs_foreignEndTagLoop (hS : StepH d0) {tag : Tag} (ha : AttrsOk tag.attrs) :
    ∀ (i : Nat) (first : Bool) (c : List Id),
      CPSP d0 c (foreignEndTagLoop tag i first) (fun _ => []) (ResLate (.tag tag)) := by
  intro i
  induction i with
  | zero =>
    intro first c
    unfold foreignEndTagLoop
    refine cpsp_getS_bind (fun s0 => ?_)
    cases hn : s0.openElems[0]? with
    | none =>
      dsimp only
      intro s hcb hsa hc
      exact SatC.bind (Q := fun _ _ => False) (satc_panicAt (by decide)) (fun _ _ h => h.elim)
    | some node =>
      dsimp only
      simp only [pure_bind]
      have hmem : node ∈ s0.openElems := List.mem_of_getElem? hn
      refine cpsp_bind_cp (cp_elemName (by simp [stH, hmem])) (fun nodeName => ?_)
      exact cpsp_ite (fun _ => cpsp_stepCurrent hS ha) (fun _ => cpsp_pure_nil _ trivial)
  | succ i ih =>
    intro first c
    unfold foreignEndTagLoop
    refine cpsp_getS_bind (fun s0 => ?_)
    cases hn : s0.openElems[i + 1]? with
    | none =>
      dsimp only
      intro s hcb hsa hc
      exact SatC.bind (Q := fun _ _ => False) (satc_panicAt (by decide)) (fun _ _ h => h.elim)
    | some node =>
      dsimp only
      simp only [pure_bind]
      have hmem : node ∈ s0.openElems := List.mem_of_getElem? hn
      refine cpsp_bind_cp (cp_elemName (by simp [stH, hmem])) (fun nodeName => ?_)
      refine cpsp_ite (fun _ => cpsp_stepCurrent hS ha) (fun _ => ?_)
      refine cpsp_ite (fun _ => ?_) (fun _ => ?_)
      · exact cpsp_bind_cp cp_modS_take (fun _ => cpsp_pure_nil _ trivial)
      · refine cpsp_ite (fun _ => ?_) (fun _ => ih false _)
        exact cpsp_bind_cp cp_unexpected (fun _ => ih false _)

set_option maxHeartbeats 800000 in
theorem rs_stepForeign (hS : StepH d0) : ∀ tok, TokOk tok → RS d0 tok (stepForeign tok) := by
  intro tok ht
  unfold stepForeign RS
  cases tok with
  | nullChar => dsimp only; rs_walk
  | chars st text => dsimp only; rs_walk
  | comment t => dsimp only; rs_walk
  | eof => dsimp only; exact cpsp_panicAt
  | tag tag =>
    have ha : AttrsOk tag.attrs := ht
    dsimp only
    refine cpsp_ite (fun _ => cpsp_of_rs (rs_unexpectedStartTagInForeignContent hS ha)) (fun _ => ?_)
    refine cpsp_ite (fun _ => ?_) (fun _ => ?_)
    · refine cpsp_ite (fun _ => cpsp_of_rs (rs_unexpectedStartTagInForeignContent hS ha)) (fun _ => ?_)
      exact cpsp_of_cpp (cpp_foreignStartTag ha)
    refine cpsp_ite (fun _ => cpsp_of_cpp (cpp_foreignStartTag ha)) (fun _ => ?_)
    refine cpsp_getS_bind (fun s0 => ?_)
    refine cpsp_ite (fun _ => cpsp_panicAt) (fun _ => ?_)
    exact rs_foreignEndTagLoop hS ha _ _ _

/-! ### the invariant of the run -/

/-- Initial mode (nothing but comments appended) or a late mode with the stack-order invariant -/
def PI (d0 : Dom) (s : State) : Prop := CI0 d0 s ∨ (CB d0 s ∧ SAnc s.dom s.openElems)

theorem PI.domI {s : State} (h : PI d0 s) : DomI d0 s := by
  rcases h with h | h
  · exact h.d
  · exact h.1.d

/-- a `CP` computation from a late state -/
theorem satc_of_cp {α : Type} {m : M α} {R : α → List Id} (h : CP d0 [] m R) {s : State} (hcb : CB d0 s)
    (hsa : SAnc s.dom s.openElems) : SatC m s (fun _ s' => CB d0 s' ∧ SAnc s'.dom s'.openElems) :=
  (cp_toCPS h s hcb hsa (CtxOk.nil _)).mono (fun _ _ h => ⟨h.1, h.2.1⟩)

theorem PI.parseError {s : State} (h : PI d0 s) {msg : String} :
    SatC (H5V.Model.HtmlTB.parseError msg) s (fun _ s' => PI d0 s') := by
  rcases h with h | h
  · exact (h.parseError).mono (fun _ _ h' => Or.inl h')
  · exact (satc_of_cp cp_parseError h.1 h.2).mono (fun _ _ h' => Or.inr h')

theorem PI.setMode {s : State} (h : PI d0 s) {m : Mode} (hm : m ≠ .initial) :
    SatC (H5V.Model.HtmlTB.setMode m) s (fun _ s' => PI d0 s') := by
  rcases h with h | h
  · unfold H5V.Model.HtmlTB.setMode
    exact satc_modS (Or.inr (h.toCB hm))
  · exact (satc_of_cp (cp_setMode hm) h.1 h.2).mono (fun _ _ h' => Or.inr h')

theorem CI0.isForeign {s : State} (h : CI0 d0 s) (tok : Token) :
    SatC (H5V.Model.HtmlTB.isForeign tok) s (fun b s' => b = false ∧ s' = s) := by
  unfold H5V.Model.HtmlTB.isForeign
  refine satc_ite (fun _ => satc_pure ⟨rfl, rfl⟩) (fun _ => ?_)
  refine satc_getS_bind ?_
  refine satc_ite (fun _ => satc_pure ⟨rfl, rfl⟩) (fun hne => ?_)
  exact (hne (by rw [h.st]; rfl)).elim

/-- one rule application -/
theorem satc_ptcStep (hS : StepH d0) {s : State} (hpi : PI d0 s) {tok : Token} (ht : TokOk tok) :
    SatC (do
      if ← isForeign tok then stepForeign tok
      else step (← getS).mode tok) s (fun res s' => PI d0 s' ∧ ResLate tok res) := by
  rcases hpi with h | h
  · refine (h.isForeign tok).bind ?_
    rintro b s1 ⟨rfl, rfl⟩
    rw [if_neg (by decide)]
    refine satc_getS_bind ?_
    rw [h.mode]
    refine (h.stepInitial tok).mono ?_
    rintro res s' ⟨h', hr⟩
    refine ⟨Or.inl h', ?_⟩
    rcases hr with hr | hr
    · rw [hr]; exact ⟨by decide, rfl⟩
    · exact ResLate.of_noRep hr
  · have hcps : CPSP d0 [] (do
        if ← isForeign tok then stepForeign tok
        else step (← getS).mode tok) (fun _ => []) (ResLate tok) := by
      refine cpsp_bind_cp cp_isForeign (fun b => ?_)
      refine cpsp_ite (fun _ => cpsp_of_rs (rs_stepForeign hS tok ht)) (fun _ => ?_)
      exact cpsp_stepCurrent hS ht
    exact (hcps s h.1 h.2 (CtxOk.nil _)).mono (fun _ _ h' => ⟨Or.inr ⟨h'.1, h'.2.1⟩, h'.2.2.2.2⟩)

theorem tokOk_chars (st : SplitStatus) (t : Str) : TokOk (.chars st t) := trivial

set_option hygiene false in
/-- the part of `process_to_completion` after the rule has answered (the `do` elaborator copies it
into every branch) -/
local macro "ptc_tail" : tactic => `(tactic|
  (rintro res s1 ⟨hpi1, hres⟩
   have hnext : ∀ s2, PI d0 s2 → SatC (match more with
       | [] => pure SinkResult.continue_
       | t :: rest => processToCompletion fuel t rest) s2 (fun _ s' => PI d0 s') := by
     intro s2 h2
     cases more with
     | nil => exact satc_pure h2
     | cons t rest =>
       exact ih t rest s2 h2 (hmore t (List.mem_cons_self ..)) (fun x hx => hmore x (List.mem_cons_of_mem _ hx))
   cases res with
   | done =>
     dsimp only
     refine satc_ite (fun _ => ?_) (fun _ => hnext s1 hpi1)
     exact (hpi1.parseError).bind (fun _ s2 h2 => hnext s2 h2)
   | doneAckSelfClosing => exact hnext s1 hpi1
   | reprocess m t =>
     obtain ⟨hm, rfl⟩ := hres
     dsimp only
     exact (hpi1.setMode hm).bind (fun _ s2 h2 => ih _ _ s2 h2 ht hmore)
   | reprocessForeign t =>
     have : t = tok := hres
     subst this
     exact ih _ _ s1 hpi1 ht hmore
   | splitWhitespace buf =>
     dsimp only
     cases hp : popFrontCharRun buf with
     | none => exact satc_pure hpi1
     | some r =>
       obtain ⟨first, isWs, rest⟩ := r
       dsimp only
       refine ih _ _ s1 hpi1 (tokOk_chars _ _) ?_
       intro x hx
       by_cases hl : rest.length > 0
       · rw [if_pos hl] at hx
         rcases List.mem_append.mp hx with hx | hx
         · exact hmore x hx
         · rw [List.mem_singleton.mp hx]; trivial
       · rw [if_neg hl] at hx; exact hmore x hx
   | script node =>
     dsimp only
     exact satc_ite (fun _ => SatC.bind (Q := fun _ _ => False) satc_panicAt (fun _ _ h => h.elim))
       (fun _ => satc_pure hpi1)
   | toPlaintext =>
     dsimp only
     exact satc_ite (fun _ => SatC.bind (Q := fun _ _ => False) satc_panicAt (fun _ _ h => h.elim))
       (fun _ => satc_pure hpi1)
   | toRawData k =>
     dsimp only
     exact satc_ite (fun _ => SatC.bind (Q := fun _ _ => False) satc_panicAt (fun _ _ h => h.elim))
       (fun _ => satc_pure hpi1)
   | encodingIndicator e => exact satc_pure hpi1))

/-- **`process_to_completion`** keeps the invariant -/
theorem satc_ptc (hS : StepH d0) : ∀ (fuel : Nat) (tok : Token) (more : List Token) (s : State),
    PI d0 s → TokOk tok → (∀ t ∈ more, TokOk t) →
    SatC (processToCompletion fuel tok more) s (fun _ s' => PI d0 s') := by
  intro fuel
  induction fuel with
  | zero => intro tok more s _ _ _; unfold processToCompletion; exact satc_fuelOut
  | succ fuel ih =>
    intro tok more s hpi ht hmore
    unfold processToCompletion
    dsimp only
    rcases hpi with h | h
    · refine (h.isForeign tok).bind ?_
      rintro b s0 ⟨rfl, rfl⟩
      rw [if_neg (by decide)]
      refine satc_getS_bind ?_
      rw [h.mode]
      refine SatC.bind (Q := fun res s' => PI d0 s' ∧ ResLate tok res) ?_ ?_
      · refine (h.stepInitial tok).mono ?_
        rintro res s' ⟨h', hr⟩
        refine ⟨Or.inl h', ?_⟩
        rcases hr with hr | hr
        · rw [hr]; exact ⟨by decide, rfl⟩
        · exact ResLate.of_noRep hr
      · ptc_tail
    · refine (cp_toCPS cp_isForeign s h.1 h.2 (CtxOk.nil _)).bind ?_
      rintro b s0 ⟨hcb0, hsa0, _, _⟩
      refine satc_ite (fun _ => ?_) (fun _ => ?_)
      · refine SatC.bind (Q := fun res s' => PI d0 s' ∧ ResLate tok res) ?_ ?_
        · exact (rs_stepForeign hS tok ht s0 hcb0 hsa0 (CtxOk.nil _)).mono
            (fun _ _ h' => ⟨Or.inr ⟨h'.1, h'.2.1⟩, h'.2.2.2.2⟩)
        · ptc_tail
      · refine satc_getS_bind ?_
        refine SatC.bind (Q := fun res s' => PI d0 s' ∧ ResLate tok res) ?_ ?_
        · exact (hS s0.mode tok hcb0.l.mode ht s0 hcb0 hsa0 (CtxOk.nil _)).mono
            (fun _ _ h' => ⟨Or.inr ⟨h'.1, h'.2.1⟩, h'.2.2.2.2⟩)
        · ptc_tail

/-! ### `process_token` -/

/-- the Initial mode after the doctype has been appended: `CI0` without `pristine` -/
structure CI1 (d0 : Dom) (s : State) : Prop where
  d : DomI d0 s
  mode : s.mode = .initial
  st : s.openElems = []
  af : s.activeFormatting = []
  head : s.headElem = none
  form : s.formElem = none
  ctx : s.contextElem = none
  docH : s.docHandle = 0
  doc0 : s.dom.dataOf 0 = some .document
  orig : s.origMode = none
  tm : s.templateModes = []

theorem CI0.toCI1 {s : State} (h : CI0 d0 s) : CI1 d0 s :=
  ⟨h.d, h.mode, h.st, h.af, h.head, h.form, h.ctx, h.docH, h.doc0, h.orig, h.tm⟩

theorem CI1.toCB {s : State} (h : CI1 d0 s) {m : Mode} (hm : m ≠ .initial) :
    CB d0 { s with mode := m } ∧ SAnc ({ s with mode := m } : State).dom ({ s with mode := m } : State).openElems := by
  refine ⟨⟨⟨h.d.inv, h.d.run⟩, ⟨h.docH, h.doc0, ?_, ?_, ?_, ?_, ?_, ?_, ?_⟩, ⟨hm, ?_, ?_⟩⟩, ?_⟩
  · show ∀ x ∈ s.openElems, _; rw [h.st]; intro x hx; cases hx
  · show ∀ x ∈ s.openElems, _; rw [h.st]; intro x hx; cases hx
  · show ∀ x t, _ ∈ s.activeFormatting → _; rw [h.af]; intro x t hx; cases hx
  · show ∀ x, s.headElem = some x → _; rw [h.head]; intro x hx; cases hx
  · show ∀ x, s.formElem = some x → _; rw [h.form]; intro x hx; cases hx
  · show ∀ x, s.contextElem = some x → _; rw [h.ctx]; intro x hx; cases hx
  · show ∀ x, s.headElem = some x → _; rw [h.head]; intro x hx; cases hx
  · show s.origMode ≠ _; rw [h.orig]; intro e; cases e
  · show _ ∉ s.templateModes; rw [h.tm]; intro e; cases e
  · show SAnc s.dom s.openElems; rw [h.st]; exact List.Pairwise.nil

theorem CI1.sink {s : State} (h : CI1 d0 s) {op : SinkOp} (hc : Contract s.dom op) :
    SatC (sink op) s (fun _ s' => CI1 d0 s') := by
  refine satc_sink h.d hc ?_
  intro d' out ha hd
  exact ⟨hd, h.mode, h.st, h.af, h.head, h.form, h.ctx, h.docH, isDoc_kext (apply_kext ha) h.doc0, h.orig, h.tm⟩

theorem CI1.sinkUnit {s : State} (h : CI1 d0 s) {op : SinkOp} (hc : Contract s.dom op) :
    SatC (sinkUnit op) s (fun _ s' => CI1 d0 s') := by
  unfold H5V.Model.HtmlTB.sinkUnit
  exact (h.sink hc).bind (fun _ _ h' => satc_pure h')

theorem CI1.setQuirks {s : State} (h : CI1 d0 s) {m : QuirksMode} :
    SatC (H5V.Model.HtmlTB.setQuirksMode m) s (fun _ s' => CI1 d0 s') := by
  unfold H5V.Model.HtmlTB.setQuirksMode
  refine satc_modS_bind ?_
  have h1 : CI1 d0 { s with quirksMode := m } :=
    ⟨⟨h.d.inv, h.d.run⟩, h.mode, h.st, h.af, h.head, h.form, h.ctx, h.docH, h.doc0, h.orig, h.tm⟩
  exact h1.sinkUnit (op := .setQuirksMode m) rfl

/-- the "in body" rules, from the rules of all modes -/
theorem StepH.bodyH (hS : StepH d0) : BodyH d0 := fun tok ht => hS .inBody tok (by decide) ht

/-- `flush_pending_table_text`: the sink calls of the "anything else" arm of "in table text"; the answer is
the original mode (not Initial) -/
theorem cpsp_flushPendingTableText (hB : BodyH d0) {c : List Id} :
    CPSP d0 c flushPendingTableText (fun _ => []) (fun m => m ≠ .initial) := by
  unfold flushPendingTableText
  dsimp only
  have htail : ∀ c', CPSP d0 c' (do
      let s ← getS
      match s.origMode with
      | none => panicAt "unwrap-none" "rules.rs:1172" "orig_mode.take().unwrap()"
      | some m =>
        set { s with origMode := none }
        pure m) (fun _ => []) (fun m => m ≠ .initial) := by
    intro c'
    refine cpsp_getS_bind_at (fun s0 => ?_)
    intro hcb hsa hc
    cases hm : s0.origMode with
    | none => exact satc_panicAt (by decide)
    | some m =>
      dsimp only
      refine cpspat_set_bind (fun h1 h2 => cb_clearOrig h1 h2) ?_ hcb hsa hc
      exact cpsp_pure_nil _ (orig_late hcb hm)
  refine cpsp_getS_bind (fun s0 => ?_)
  refine cpsp_bind_cp cp_modS_pendingClear (fun _ => ?_)
  refine cpsp_ite (fun _ => ?_) (fun _ => ?_)
  · refine cpsp_bind_cp cp_parseError (fun _ => ?_)
    refine cpsp_bind (cps_flushPendingFoster hB _ _) (fun _ => ?_)
    exact htail _
  · refine cpsp_bind_cp (cp_flushPendingPlain _ _) (fun _ => ?_)
    exact htail _

/-- the DOCTYPE token in "in table text": flush, continue in the original mode -/
theorem satc_flushThenSetMode (hS : StepH d0) {s : State} (hcb : CB d0 s) (hsa : SAnc s.dom s.openElems) :
    SatC (do let m ← flushPendingTableText; setMode m) s (fun _ s' => CB d0 s' ∧ SAnc s'.dom s'.openElems) := by
  refine (cpsp_flushPendingTableText hS.bodyH s hcb hsa (CtxOk.nil _)).bind ?_
  rintro m s1 ⟨hcb1, hsa1, _, _, hm⟩
  exact satc_of_cp (cp_setMode hm) hcb1 hsa1

/-- the tokens of the tokenizer: tags carry `AttrsOk` attribute lists -/
def TokTokOk : TokToken → Prop
  | .tag t => AttrsOk t.attrs
  | _ => True

theorem PI.ignoreLf {s : State} (h : PI d0 s) (b : Bool) : PI d0 { s with ignoreLf := b } := by
  rcases h with h | h
  · exact Or.inl ⟨⟨h.d.inv, h.d.run⟩, h.mode, h.st, h.af, h.head, h.form, h.ctx, h.docH, h.doc0, h.orig, h.tm,
      h.pristine⟩
  · exact Or.inr ⟨h.1.of_shrink rfl rfl rfl (fun _ hx => hx) (fun _ hx => hx) (fun _ hx => hx) (fun _ hx => hx)
      (fun _ hx => hx) ⟨h.1.l.mode, h.1.l.orig, h.1.l.tm⟩, h.2⟩

theorem PI.setLine {s : State} (h : PI d0 s) {n : Nat} :
    SatC (H5V.Model.HtmlTB.sinkUnit (.setCurrentLine n)) s (fun _ s' => PI d0 s') := by
  rcases h with h | h
  · exact (h.setLine).mono (fun _ _ h' => Or.inl h')
  · exact (satc_of_cp (cp_sinkUnit_nt rfl (fun _ _ _ => (rfl : Dom.contractOk _ _ = true))) h.1 h.2).mono (fun _ _ h' => Or.inr h')

theorem PI.parseErrorL {s : State} (h : PI d0 s) {e : Str} :
    SatC (H5V.Model.HtmlTB.sinkUnit (.parseError e)) s (fun _ s' => PI d0 s') := by
  rcases h with h | h
  · unfold H5V.Model.HtmlTB.sinkUnit
    refine SatC.bind (Q := fun _ s' => CI0 d0 s') ?_ (fun _ _ h' => satc_pure (Or.inl h'))
    refine h.sink (op := .parseError e) rfl ?_
    intro d' out ha
    rw [TBSafe.apply_parseError] at ha; cases ha
    exact pristine_of_nodes rfl h.pristine
  · exact (satc_of_cp (cp_sinkUnit_nt rfl (fun _ _ _ => (rfl : Dom.contractOk _ _ = true))) h.1 h.2).mono (fun _ _ h' => Or.inr h')

theorem CI0.contract_doctype {s : State} (h : CI0 d0 s) (n p sy : Str) :
    Contract s.dom (.appendDoctypeToDocument n p sy) := by
  have hc : s.dom.isContainer 0 = true := isContainer_of_doc h.doc0
  show (s.dom.isContainer Dom.document && (s.dom.childrenOf Dom.document).all
    (fun c => !s.dom.isDoctype c && !s.dom.isElement c)) = true
  rw [Bool.and_eq_true]
  refine ⟨hc, ?_⟩
  rw [List.all_eq_true]
  intro c _
  rw [(h.pristine c).1, (h.pristine c).2]; rfl

theorem tokOk_charsToken {b : Bool} {x : Str} {t : Token} (h : charsToken b x = some t) : TokOk t := by
  unfold charsToken at h
  by_cases hc : (dropIgnoredLf b x).isEmpty = true
  · rw [if_pos hc] at h; cases h
  · rw [if_neg hc] at h; cases h; trivial

/-- the end of `process_token` -/
theorem satc_ptcStart (hS : StepH d0) {s : State} (h : PI d0 s) {t : Token} (ht : TokOk t) :
    SatC (do processToCompletion (ptcFuel (← getS) t) t []) s (fun _ s' => PI d0 s') := by
  refine satc_getS_bind ?_
  exact satc_ptc hS _ t [] s h ht (fun _ hx => by cases hx)

set_option hygiene false in
/-- `set_quirks_mode(quirk); self.mode.set(BeforeHtml); Done` from `h2 : CI1 d0 s2` -/
local macro "dt_tail" : tactic => `(tactic|
  (refine (CI1.setQuirks h2).bind ?_
   intro _ s3 h3
   unfold H5V.Model.HtmlTB.setMode
   refine satc_modS_bind ?_
   simp only [pure_bind]
   exact satc_pure (Or.inr (h3.toCB (by decide)))))

set_option hygiene false in
/-- the doctype is appended (unless dropped), from `h1 : CI0 d0 s1` -/
local macro "dt_mid" : tactic => `(tactic|
  (refine satc_getS_bind ?_
   refine satc_ite (fun _ => ?_) (fun _ => ?_)
   · refine (h1.toCI1.sinkUnit (h1.contract_doctype _ _ _)).bind ?_
     intro _ s2 h2
     dt_tail
   · have h2 := h1.toCI1
     dt_tail))

set_option hygiene false in
/-- `process_token` after the line number has been passed on, from `h1 : PI d0 s1` -/
local macro "pt_rest" : tactic => `(tactic|
  (refine satc_getS_bind ?_
   refine satc_modS_bind ?_
   have h2 := h1.ignoreLf false
   cases token with
   | parseError e =>
     dsimp only
     refine (h2.parseErrorL).bind ?_
     intro _ s3 h3
     refine satc_modS_bind ?_
     simp only [pure_bind]
     exact satc_pure (h3.ignoreLf _)
   | doctype dt =>
     dsimp only
     refine satc_getS_bind ?_
     rcases h2 with h2 | h2
     · rw [if_pos (by rw [h2.mode]; rfl)]
       refine satc_getS_bind ?_
       refine satc_ite (fun _ => ?_) (fun _ => ?_)
       · refine (h2.parseError).bind ?_
         intro _ s1 h1
         dt_mid
       · have h1 := h2
         dt_mid
     · rw [if_neg (by
         intro e
         exact h2.1.l.mode (by simpa using e))]
       refine satc_getS_bind ?_
       refine satc_ite (fun _ => ?_) (fun _ => ?_)
       · refine (cpsp_flushPendingTableText hS.bodyH _ h2.1 h2.2 (CtxOk.nil _)).bind ?_
         rintro m s2' ⟨hcb2, hsa2, _, _, hm⟩
         refine (satc_of_cp (cp_setMode hm) hcb2 hsa2).bind ?_
         intro _ s3 h3
         refine (PI.parseError (Or.inr h3)).bind ?_
         intro _ s4 h4
         simp only [pure_bind]
         exact satc_pure h4
       · refine (PI.parseError (Or.inr h2)).bind ?_
         intro _ s3 h3
         simp only [pure_bind]
         exact satc_pure h3
   | tag t => dsimp only; simp only [pure_bind]; exact satc_ptcStart hS h2 ht
   | comment c => dsimp only; simp only [pure_bind]; exact satc_ptcStart hS h2 trivial
   | nullChar => dsimp only; simp only [pure_bind]; exact satc_ptcStart hS h2 trivial
   | eof => dsimp only; simp only [pure_bind]; exact satc_ptcStart hS h2 trivial
   | chars x =>
     dsimp only
     simp only [pure_bind]
     cases hct : charsToken _ x with
     | none => exact satc_pure h2
     | some t => exact satc_ptcStart hS h2 (tokOk_charsToken hct)))

/-- **`process_token`** keeps the invariant -/
theorem satc_processToken (hS : StepH d0) {s : State} (hpi : PI d0 s) {token : TokToken} (ht : TokTokOk token)
    (line : Nat) : SatC (processToken token line) s (fun _ s' => PI d0 s') := by
  unfold processToken
  dsimp only
  refine satc_getS_bind ?_
  refine satc_ite (fun _ => ?_) (fun _ => ?_)
  · refine (hpi.setLine).bind ?_
    intro _ s1 h1
    pt_rest
  · have h1 := hpi
    pt_rest

/-- the tokens of a run -/
def TagsOk (toks : List (TokToken × Nat)) : Prop := ∀ p ∈ toks, TokTokOk p.1

theorem satc_processTokens (hS : StepH d0) : ∀ (toks : List (TokToken × Nat)) (acc : List SinkResult) (s : State),
    PI d0 s → TagsOk toks → SatC (processTokens toks acc) s (fun _ s' => PI d0 s') := by
  intro toks
  induction toks with
  | nil => intro acc s h _; unfold processTokens; exact satc_pure h
  | cons p rest ih =>
    intro acc s h hok
    obtain ⟨t, line⟩ := p
    unfold processTokens
    refine (satc_processToken hS h (hok (t, line) (List.mem_cons_self ..)) line).bind ?_
    intro r s1 h1
    exact ih _ s1 h1 (fun q hq => hok q (List.mem_cons_of_mem _ hq))

/-- **`end`**: the final arena -/
theorem satc_finishTB {s : State} (h : PI d0 s) : SatC finishTB s (fun _ s' => DomI d0 s') := by
  unfold finishTB
  refine satc_getS_bind ?_
  refine satc_modS_bind ?_
  rcases h with h | h
  · rw [h.st]
    show SatC (endLoop []) _ _
    unfold endLoop
    exact satc_pure ⟨h.d.inv, h.d.run⟩
  · have hcb : CB d0 { s with openElems := [] } := (cb_dropStack h.1 (List.nil_sublist _)).1
    have hctx : CtxOk s.openElems.reverse ({ s with openElems := [] } : State) :=
      fun x hx => h.1.h.open_el x (List.mem_reverse.mp hx)
    exact (cp_endLoop (c := s.openElems.reverse) _ (fun _ hx => hx) _ hcb hctx).mono (fun _ _ h' => h'.1.d)

end H5V.Lemmas.TBC
