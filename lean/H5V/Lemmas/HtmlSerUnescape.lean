import H5V.Spec.HtmlEscape
/-!
Helper lemmas for C07, part 2: the reader `unescape` inverts `escape` and stops exactly at the
delimiter that follows the escaped text.
-/
set_option linter.unusedSimpArgs false
namespace H5V.Lemmas.HtmlSerUnescape
open H5V.Spec.HtmlEscape

theorem skip_append (attr : Bool) (pre rest : List Char) :
    unescapeAux attr pre.length (pre ++ rest) = unescapeAux attr 0 rest := by
  induction pre with
  | nil => rfl
  | cons c t ih => simpa [unescapeAux] using ih

theorem aux_cons (attr : Bool) (c : Char) (rest : List Char) :
    unescapeAux attr 0 (c :: rest) =
      if c = '&' then
        match matchRef rest with
        | some (v, n) => v :: unescapeAux attr n rest
        | none => '&' :: unescapeAux attr 0 rest
      else if c = stopChar attr then []
      else if c = '\r' then
        match rest with
        | '\n' :: _ => unescapeAux attr 0 rest
        | _ => '\n' :: unescapeAux attr 0 rest
      else if c = '\u0000' then
        if attr then '\uFFFD' :: unescapeAux attr 0 rest else unescapeAux attr 0 rest
      else c :: unescapeAux attr 0 rest := by
  rfl

/-- what may follow the escaped text: nothing, or the closing delimiter and anything at all -/
def Closed (attr : Bool) (after : List Char) : Prop :=
  after = [] ∨ ∃ t, after = stopChar attr :: t

theorem unescape_after (attr : Bool) (after : List Char) (h : Closed attr after) :
    unescapeAux attr 0 after = [] := by
  rcases h with rfl | ⟨t, rfl⟩
  · rfl
  · cases attr <;> simp [unescapeAux, stopChar]

theorem unescape_escape_aux (attr : Bool) (after : List Char) (ha : Closed attr after) :
    ∀ s : List Char, noCRNUL s → unescapeAux attr 0 (escape attr s ++ after) = s := by
  intro s
  induction s with
  | nil => intro _; simpa [escape] using unescape_after attr after ha
  | cons c s ih =>
    intro hs
    have hc := hs c (by simp)
    have ih' := ih (fun x hx => hs x (by simp [hx]))
    have hesc : escape attr (c :: s) = escChar attr c ++ escape attr s := by simp [escape]
    rw [hesc, List.append_assoc]
    generalize escape attr s ++ after = X at ih'
    unfold escChar
    by_cases h1 : c = '&'
    · subst h1
      simp only [if_true, eAmp, List.cons_append, List.nil_append]
      rw [aux_cons]
      simp only [if_true]
      have : matchRef ('a' :: 'm' :: 'p' :: ';' :: X) = some ('&', 4) := by
        simp [matchRef, refs, List.findSome?, List.isPrefixOf]
      rw [this]
      simp only []
      rw [show ('a' :: 'm' :: 'p' :: ';' :: X) = ['a', 'm', 'p', ';'] ++ X from rfl,
          show (4 : Nat) = ['a', 'm', 'p', ';'].length from rfl, skip_append, ih']
    rw [if_neg h1]
    by_cases h2 : c = '\u00A0'
    · subst h2
      simp only [if_true, eNbsp, List.cons_append, List.nil_append]
      rw [aux_cons]
      simp only [if_true]
      have : matchRef ('n' :: 'b' :: 's' :: 'p' :: ';' :: X) = some ('\u00A0', 5) := by
        simp [matchRef, refs, List.findSome?, List.isPrefixOf]
      rw [this]
      simp only []
      rw [show ('n' :: 'b' :: 's' :: 'p' :: ';' :: X) = ['n', 'b', 's', 'p', ';'] ++ X from rfl,
          show (5 : Nat) = ['n', 'b', 's', 'p', ';'].length from rfl, skip_append, ih']
    rw [if_neg h2]
    by_cases h3 : c = '<'
    · subst h3
      simp only [if_true, eLt, List.cons_append, List.nil_append]
      rw [aux_cons]
      simp only [if_true]
      have : matchRef ('l' :: 't' :: ';' :: X) = some ('<', 3) := by
        simp [matchRef, refs, List.findSome?, List.isPrefixOf]
      rw [this]
      simp only []
      rw [show ('l' :: 't' :: ';' :: X) = ['l', 't', ';'] ++ X from rfl,
          show (3 : Nat) = ['l', 't', ';'].length from rfl, skip_append, ih']
    rw [if_neg h3]
    by_cases h4 : c = '>'
    · subst h4
      simp only [if_true, eGt, List.cons_append, List.nil_append]
      rw [aux_cons]
      simp only [if_true]
      have : matchRef ('g' :: 't' :: ';' :: X) = some ('>', 3) := by
        simp [matchRef, refs, List.findSome?, List.isPrefixOf]
      rw [this]
      simp only []
      rw [show ('g' :: 't' :: ';' :: X) = ['g', 't', ';'] ++ X from rfl,
          show (3 : Nat) = ['g', 't', ';'].length from rfl, skip_append, ih']
    rw [if_neg h4]
    by_cases h5 : c = '"' ∧ attr = true
    · obtain ⟨rfl, rfl⟩ := h5
      simp only [and_self, if_true, eQuot, List.cons_append, List.nil_append]
      rw [aux_cons]
      simp only [if_true]
      have : matchRef ('q' :: 'u' :: 'o' :: 't' :: ';' :: X) = some ('"', 5) := by
        simp [matchRef, refs, List.findSome?, List.isPrefixOf]
      rw [this]
      simp only []
      rw [show ('q' :: 'u' :: 'o' :: 't' :: ';' :: X) = ['q', 'u', 'o', 't', ';'] ++ X from rfl,
          show (5 : Nat) = ['q', 'u', 'o', 't', ';'].length from rfl, skip_append, ih']
    rw [if_neg h5]
    -- an ordinary character
    have hstop : c ≠ stopChar attr := by
      cases attr
      · simpa [stopChar] using h3
      · simp only [stopChar, if_true]; intro h; exact h5 ⟨h, rfl⟩
    simp only [List.cons_append, List.nil_append]
    rw [aux_cons]
    simp only [if_neg h1, if_neg hstop, if_neg hc.1, if_neg hc.2, ih']

/-- no character of escaped text can open a tag, close one, or (attribute mode) close the value -/
theorem escape_chars (attr : Bool) (s : List Char) :
    ∀ x ∈ escape attr s, x ≠ '<' ∧ x ≠ '>' ∧ (attr = true → x ≠ '"') := by
  intro x hx
  simp only [escape, List.mem_flatMap] at hx
  obtain ⟨c, _, hxc⟩ := hx
  unfold escChar at hxc
  by_cases h1 : c = '&'
  · rw [if_pos h1] at hxc
    simp only [eAmp, List.mem_cons, List.mem_nil_iff, or_false] at hxc
    rcases hxc with rfl | rfl | rfl | rfl | rfl <;> exact ⟨by decide, by decide, fun _ => by decide⟩
  rw [if_neg h1] at hxc
  by_cases h2 : c = '\u00A0'
  · rw [if_pos h2] at hxc
    simp only [eNbsp, List.mem_cons, List.mem_nil_iff, or_false] at hxc
    rcases hxc with rfl | rfl | rfl | rfl | rfl | rfl <;> exact ⟨by decide, by decide, fun _ => by decide⟩
  rw [if_neg h2] at hxc
  by_cases h3 : c = '<'
  · rw [if_pos h3] at hxc
    simp only [eLt, List.mem_cons, List.mem_nil_iff, or_false] at hxc
    rcases hxc with rfl | rfl | rfl | rfl <;> exact ⟨by decide, by decide, fun _ => by decide⟩
  rw [if_neg h3] at hxc
  by_cases h4 : c = '>'
  · rw [if_pos h4] at hxc
    simp only [eGt, List.mem_cons, List.mem_nil_iff, or_false] at hxc
    rcases hxc with rfl | rfl | rfl | rfl <;> exact ⟨by decide, by decide, fun _ => by decide⟩
  rw [if_neg h4] at hxc
  by_cases h5 : c = '"' ∧ attr = true
  · rw [if_pos h5] at hxc
    simp only [eQuot, List.mem_cons, List.mem_nil_iff, or_false] at hxc
    rcases hxc with rfl | rfl | rfl | rfl | rfl | rfl <;> exact ⟨by decide, by decide, fun _ => by decide⟩
  rw [if_neg h5] at hxc
  simp only [List.mem_cons, List.mem_nil_iff, or_false] at hxc
  subst hxc
  exact ⟨h3, h4, fun ha hq => h5 ⟨hq, ha⟩⟩

end H5V.Lemmas.HtmlSerUnescape
