import H5V.Lemmas.HtmlTBSkelRules2
/-!
C06 (skeleton invariant), part 9: `step` in the late modes, foreign content, the two early modes
(Initial, BeforeHtml: the only places where a doctype / the `html` element are appended to the
document), `process_to_completion`, `process_token`, token runs, `end()`.
-/
namespace H5V.Props.C06
open H5V.Model.Dom hiding Str
open H5V.Model.HtmlTB hiding Str
open H5V.Lemmas.Dom

/-! ### `step` in a late mode, foreign content -/

theorem presR_step (m : Mode) (hm : isLate m = true) (tok : Token) [TokOk tok] : PresR (step m tok) := by
  cases m <;> first
    | (simp [isLate] at hm; done)
    | (unfold step; exact inferInstance)
instance (m : Mode) [h : LateMode m] (tok : Token) [TokOk tok] : PresR (step m tok) := presR_step m h.h tok

theorem presRA_step_self (s : State) (tok : Token) [TokOk tok] : PresRA s (step s.mode tok) :=
  ⟨fun hl a s' e => (presR_step s.mode hl.ml.mode tok).p s a s' hl e⟩

macro_rules
  | `(tactic| tb_step) => `(tactic| with_reducible exact presRA_step_self _ _)

instance (tag : Tag) : PresR (unexpectedStartTagInForeignContent tag) := by
  unfold unexpectedStartTagInForeignContent; tb_walk

theorem presR_foreignEndTagLoop (tag : Tag) : ∀ (i : Nat) (first : Bool), PresR (foreignEndTagLoop tag i first)
  | 0, _ => by unfold foreignEndTagLoop; tb_walk
  | n + 1, first => by
    haveI := fun b => presR_foreignEndTagLoop tag n b
    unfold foreignEndTagLoop
    tb_walk
instance (tag : Tag) (i : Nat) (first : Bool) : PresR (foreignEndTagLoop tag i first) :=
  presR_foreignEndTagLoop tag i first

instance : NE ['�'] := ⟨by simp⟩

theorem presR_stepForeign (token : Token) [TokOk token] : PresR (stepForeign token) := by
  unfold stepForeign; tb_walk
instance (token : Token) [TokOk token] : PresR (stepForeign token) := presR_stepForeign token

/-! ### the early modes -/

/-- nothing has been pushed yet: the state of Initial / BeforeHtml -/
structure Early (s : State) : Prop where
  base : DomBase s.dom
  oe : s.openElems = []
  head : s.headElem = none
  doc : s.docHandle = 0
  ctx : s.contextElem = none
  ptt : s.pendingTableText = []
  orig : s.origMode = none
  tm : s.templateModes = []

/-- Initial: the document has only comments as children -/
def EarlyA (s : State) : Prop := Early s ∧ s.mode = .initial ∧ ∀ k ∈ kinds s.dom, k = .comment
/-- BeforeHtml: `comment* doctype? comment*` -/
def EarlyB (s : State) : Prop := Early s ∧ s.mode = .beforeHtml ∧ docPre 0 (kinds s.dom) = true

/-- the invariant of every reachable state -/
inductive Inv3 (s : State) : Prop
  | a : EarlyA s → Inv3 s
  | b : EarlyB s → Inv3 s
  | late : Late s → Inv3 s

/-- the fields the invariants look at are equal, the arenas have the same nodes -/
structure Same3 (s s' : State) : Prop where
  nodes : s'.dom.nodes = s.dom.nodes
  mode : s'.mode = s.mode
  orig : s'.origMode = s.origMode
  tm : s'.templateModes = s.templateModes
  oe : s'.openElems = s.openElems
  head : s'.headElem = s.headElem
  doc : s'.docHandle = s.docHandle
  ctx : s'.contextElem = s.contextElem
  ptt : s'.pendingTableText = s.pendingTableText

theorem Same3.refl (s : State) : Same3 s s := ⟨rfl, rfl, rfl, rfl, rfl, rfl, rfl, rfl, rfl⟩
theorem Same3.trans {a b c : State} (h1 : Same3 a b) (h2 : Same3 b c) : Same3 a c :=
  ⟨h2.nodes.trans h1.nodes, h2.mode.trans h1.mode, h2.orig.trans h1.orig, h2.tm.trans h1.tm, h2.oe.trans h1.oe,
   h2.head.trans h1.head, h2.doc.trans h1.doc, h2.ctx.trans h1.ctx, h2.ptt.trans h1.ptt⟩

theorem kinds_of_nodes {d d' : Dom} (h : d'.nodes = d.nodes) : kinds d' = kinds d := by
  unfold kinds docKid Dom.childrenOf Dom.dataOf
  rw [h]

theorem Early.same {s s' : State} (h : Early s) (q : Same3 s s') : Early s' :=
  ⟨h.base.sameSk (SameSk.of_nodes q.nodes), q.oe.trans h.oe, q.head.trans h.head, q.doc.trans h.doc,
   q.ctx.trans h.ctx, q.ptt.trans h.ptt, q.orig.trans h.orig, q.tm.trans h.tm⟩

theorem childrenOf_of_nodes {d d' : Dom} (h : d'.nodes = d.nodes) (x : Id) : d'.childrenOf x = d.childrenOf x := by
  unfold Dom.childrenOf; rw [h]
theorem isElement_of_nodes {d d' : Dom} (h : d'.nodes = d.nodes) (x : Id) : d'.isElement x = d.isElement x := by
  unfold Dom.isElement Dom.dataOf; rw [h]

theorem Late.same {s s' : State} (h : Late s) (q : Same3 s s') : Late s' := by
  refine ⟨h.base.sameSk (SameSk.of_nodes q.nodes), by rw [kinds_of_nodes q.nodes]; exact h.pat, ?_,
    ⟨by rw [q.mode]; exact h.ml.mode, by rw [q.orig]; exact h.ml.orig, by rw [q.tm]; exact h.ml.tm⟩⟩
  refine ⟨q.doc.trans h.st.doc, q.ctx.trans h.st.ctx, ?_, ?_, ?_, by rw [q.ptt]; exact h.st.ptt⟩
  · intro e he; rw [isElement_of_nodes q.nodes]; rw [q.oe] at he; exact h.st.oe e he
  · intro e he; rw [childrenOf_of_nodes q.nodes]; rw [q.oe] at he; exact h.st.tail e he
  · intro x hx
    rw [q.head] at hx
    rw [isElement_of_nodes q.nodes, childrenOf_of_nodes q.nodes]
    exact h.st.head x hx

theorem EarlyA.same {s s' : State} (h : EarlyA s) (q : Same3 s s') : EarlyA s' :=
  ⟨h.1.same q, q.mode.trans h.2.1, by rw [kinds_of_nodes q.nodes]; exact h.2.2⟩
theorem EarlyB.same {s s' : State} (h : EarlyB s) (q : Same3 s s') : EarlyB s' :=
  ⟨h.1.same q, q.mode.trans h.2.1, by rw [kinds_of_nodes q.nodes]; exact h.2.2⟩
theorem Inv3.same {s s' : State} (h : Inv3 s) (q : Same3 s s') : Inv3 s' := by
  cases h with
  | a h => exact .a (h.same q)
  | b h => exact .b (h.same q)
  | late h => exact .late (h.same q)

theorem same3_sink {op : SinkOp} [hq : QuietOp op] {s s' : State} {out : Output} (e : sink op s = .ok (out, s')) :
    Same3 s s' := by
  obtain ⟨d, hd, rfl⟩ := sink_ok.mp e
  exact ⟨hq.h _ _ _ hd, rfl, rfl, rfl, rfl, rfl, rfl, rfl, rfl⟩

theorem same3_sinkUnit {op : SinkOp} [QuietOp op] {s s' : State} {u : Unit} (e : sinkUnit op s = .ok (u, s')) :
    Same3 s s' := by
  obtain ⟨out, e⟩ := sinkUnit_ok.mp e
  exact same3_sink e

theorem same3_parseError {m : String} {s s' : State} {u : Unit} (e : parseError m s = .ok (u, s')) : Same3 s s' :=
  same3_sinkUnit e

theorem unexpected_run {s s' : State} {r : ProcessResult} (e : unexpected s = .ok (r, s')) :
    Same3 s s' ∧ r = .done := by
  unfold unexpected at e
  obtain ⟨u, s1, e1, e2⟩ := bind_ok.mp e
  obtain ⟨rfl, rfl⟩ := pure_ok.mp e2
  exact ⟨same3_parseError e1, rfl⟩

theorem setQuirksMode_run {s s' : State} {m : QuirksMode} {u : Unit} (e : setQuirksMode m s = .ok (u, s')) :
    Same3 s s' := by
  unfold setQuirksMode at e
  obtain ⟨u, s1, e1, e2⟩ := bind_ok.mp e
  rw [modS_ok.mp e1] at e2
  exact (⟨rfl, rfl, rfl, rfl, rfl, rfl, rfl, rfl, rfl⟩ : Same3 s { s with quirksMode := m }).trans (same3_sinkUnit e2)

/-- the fields the invariants look at, except the arena -/
structure FieldsEq (s s' : State) : Prop where
  mode : s'.mode = s.mode
  orig : s'.origMode = s.origMode
  tm : s'.templateModes = s.templateModes
  oe : s'.openElems = s.openElems
  head : s'.headElem = s.headElem
  doc : s'.docHandle = s.docHandle
  ctx : s'.contextElem = s.contextElem
  ptt : s'.pendingTableText = s.pendingTableText

theorem FieldsEq.refl (s : State) : FieldsEq s s := ⟨rfl, rfl, rfl, rfl, rfl, rfl, rfl, rfl⟩
theorem FieldsEq.trans {a b c : State} (h1 : FieldsEq a b) (h2 : FieldsEq b c) : FieldsEq a c :=
  ⟨h2.mode.trans h1.mode, h2.orig.trans h1.orig, h2.tm.trans h1.tm, h2.oe.trans h1.oe,
   h2.head.trans h1.head, h2.doc.trans h1.doc, h2.ctx.trans h1.ctx, h2.ptt.trans h1.ptt⟩

theorem Same3.fields {s s' : State} (h : Same3 s s') : FieldsEq s s' :=
  ⟨h.mode, h.orig, h.tm, h.oe, h.head, h.doc, h.ctx, h.ptt⟩

theorem sink_dom {op : SinkOp} {s s' : State} {out : Output} (e : sink op s = .ok (out, s')) :
    s.dom.apply op = .ok (s'.dom, out) ∧ FieldsEq s s' := by
  obtain ⟨d, hd, rfl⟩ := sink_ok.mp e
  exact ⟨hd, ⟨rfl, rfl, rfl, rfl, rfl, rfl, rfl, rfl⟩⟩

theorem sinkUnit_dom {op : SinkOp} {s s' : State} {u : Unit} (e : sinkUnit op s = .ok (u, s')) :
    ∃ out, s.dom.apply op = .ok (s'.dom, out) ∧ FieldsEq s s' := by
  obtain ⟨out, e⟩ := sinkUnit_ok.mp e
  exact ⟨out, sink_dom e⟩

theorem Early.fields {s s' : State} (h : Early s) (q : FieldsEq s s') (hb : DomBase s'.dom) : Early s' :=
  ⟨hb, q.oe.trans h.oe, q.head.trans h.head, q.doc.trans h.doc, q.ctx.trans h.ctx, q.ptt.trans h.ptt,
   q.orig.trans h.orig, q.tm.trans h.tm⟩

/-- `append_comment_to_doc` in an early state -/
theorem appendCommentToDoc_early {s s' : State} {text : Str} {r : ProcessResult} (h : Early s)
    (e : appendCommentToDoc text s = .ok (r, s')) :
    r = .done ∧ Early s' ∧ s'.mode = s.mode ∧ kinds s'.dom = kinds s.dom ++ [.comment] := by
  unfold appendCommentToDoc at e
  obtain ⟨c, s1, e1, e2⟩ := bind_ok.mp e
  obtain ⟨hd1, f1⟩ := sink_dom (sinkNode_ok.mp e1)
  obtain ⟨hdom1, hout⟩ := apply_createComment hd1
  cases hout
  obtain ⟨hb1, hc1, hk1, hid, hs1, hdata⟩ := createComment_spec h.base text
  rw [← hdom1] at hb1 hc1 hk1 hdata
  rw [getS_bind] at e2
  obtain ⟨u, s2, e3, e4⟩ := bind_ok.mp e2
  obtain ⟨rfl, rfl⟩ := pure_ok.mp e4
  rw [f1.doc, h.doc] at e3
  obtain ⟨out, hd2, f2⟩ := sinkUnit_dom e3
  obtain ⟨hb2, hc2, hlt, hk2⟩ := append_doc_spec hb1 (by rw [hdata]; simp) (apply_append hd2)
  have f12 := f1.trans f2
  refine ⟨rfl, h.fields f12 hb2, f12.mode, ?_⟩
  rw [kinds_snoc hb1 hc2 hk2, hc2.docKid_eq hlt, docKid_comment hdata, kinds_eq h.base hc1 (hk1 0)]

theorem createElementWithFlags_any {s s1 : State} {name : QualName} {attrs : List Attr} {dup : Bool} {el : Id}
    (hb : DomBase s.dom) (e : createElementWithFlags name attrs dup s = .ok (el, s1)) :
    FieldsEq s s1 ∧ DomBase s1.dom ∧ Chg s.dom s1.dom ∧ (∀ x, s1.dom.childrenOf x = s.dom.childrenOf x) ∧
      s.dom.size ≤ el ∧ el < s1.dom.size ∧ ∃ tc ip, s1.dom.dataOf el = some (.element name attrs tc ip) := by
  unfold createElementWithFlags at e
  generalize hfl : ({ template := _, mathmlIP := _, hadDuplicateAttributes := dup } : ElementFlags) = flags at e
  obtain ⟨hd1, f1⟩ := sink_dom (sinkNode_ok.mp e)
  obtain ⟨hdom1, hout⟩ := apply_createElement hd1
  cases hout
  obtain ⟨hb1, hc1, hk1, hfresh, hvalid, tc, hdata⟩ := createElement_spec hb name attrs flags
  rw [← hdom1] at hb1 hc1 hk1 hvalid hdata
  exact ⟨f1, hb1, hc1, hk1, hfresh, hvalid, tc, _, hdata⟩

/-- `create_root` in an early state: the `html` element completes the pattern; only the mode is still early -/
theorem createRoot_early {s s' : State} {attrs : List Attr} {u : Unit} (h : Early s)
    (hp : docPre 0 (kinds s.dom) = true) (e : createRoot attrs s = .ok (u, s')) (m : Mode) (hm : isLate m = true) :
    Late { s' with mode := m } := by
  unfold createRoot at e
  obtain ⟨el, s1, e1, e2⟩ := bind_ok.mp e
  obtain ⟨f1, hb1, hc1, hk1, hfresh, hvalid, tc, ip, hdata⟩ := createElementWithFlags_any h.base e1
  obtain ⟨u1, s2, e3, e4⟩ := bind_ok.mp e2
  unfold push at e3
  have hs2 := modS_ok.mp e3
  rw [getS_bind] at e4
  have hdoc2 : s2.docHandle = 0 := by rw [hs2]; show s1.docHandle = 0; rw [f1.doc, h.doc]
  rw [hdoc2] at e4
  obtain ⟨out, hd3, f3⟩ := sinkUnit_dom e4
  have hdom2 : s2.dom = s1.dom := by rw [hs2]
  rw [hdom2] at hd3
  obtain ⟨hb3, hc3, hlt, hk3⟩ := append_doc_spec hb1 (by rw [hdata]; simp) (apply_append hd3)
  have hel1 : s1.dom.isElement el = true := by unfold Dom.isElement; rw [hdata]
  have hel3 := hc3.isElement hel1
  have hkind : docKid s'.dom el = .html := by
    rw [hc3.docKid_eq hlt]
    unfold docKid
    rw [hdata]
    rfl
  have hoe : s'.openElems = [el] := by
    rw [f3.oe, hs2]
    show s1.openElems ++ [_] = _
    rw [f1.oe, h.oe]; rfl
  refine ⟨hb3, ?_, ⟨?_, ?_, ?_, ?_, ?_, ?_⟩, ⟨hm, ?_, ?_⟩⟩
  · show docPattern 0 (kinds s'.dom) = true
    rw [kinds_snoc hb1 hc3 hk3, hkind, kinds_eq h.base hc1 (hk1 0)]
    exact docPre_append_html (Nat.zero_le _) hp
  · show s'.docHandle = 0; rw [f3.doc]; exact hdoc2
  · show s'.contextElem = none; rw [f3.ctx, hs2]; show s1.contextElem = none; rw [f1.ctx]; exact h.ctx
  · intro e he
    have he' : e ∈ s'.openElems := he
    rw [hoe] at he'
    simp at he'; subst he'
    exact hel3
  · intro e he
    have he' : e ∈ s'.openElems.tail := he
    rw [hoe] at he'
    simp at he'
  · intro x hx
    have hx' : s'.headElem = some x := hx
    rw [f3.head, hs2] at hx'
    have : s1.headElem = some x := hx'
    rw [f1.head, h.head] at this
    cases this
  · intro p hp'
    have hp'' : p ∈ s'.pendingTableText := hp'
    rw [f3.ptt, hs2] at hp''
    have : p ∈ s1.pendingTableText := hp''
    rw [f1.ptt, h.ptt] at this
    cases this
  · intro m' hm'
    have hm'' : s'.origMode = some m' := hm'
    rw [f3.orig, hs2] at hm''
    have : s1.origMode = some m' := hm''
    rw [f1.orig, h.orig] at this
    cases this
  · intro m' hm'
    have hm'' : m' ∈ s'.templateModes := hm'
    rw [f3.tm, hs2] at hm''
    have : m' ∈ s1.templateModes := hm''
    rw [f1.tm, h.tm] at this
    cases this

theorem EarlyA.toB {s : State} (h : EarlyA s) : EarlyB { s with mode := .beforeHtml } :=
  ⟨⟨h.1.base, h.1.oe, h.1.head, h.1.doc, h.1.ctx, h.1.ptt, h.1.orig, h.1.tm⟩, rfl, docPre_of_comments h.2.2⟩

/-- the answers of the two early rules -/
inductive EarlyRes (tok : Token) : ProcessResult → Prop
  | done : tok ≠ .eof → EarlyRes tok .done
  | split (b : Str) : b ≠ [] → tok ≠ .eof → EarlyRes tok (.splitWhitespace b)

/-- rules.rs:101, Initial -/
theorem stepInitial_spec {s s' : State} {tok : Token} {r : ProcessResult} (h : EarlyA s) [ht : TokOk tok]
    (e : stepInitial tok s = .ok (r, s')) :
    (EarlyA s' ∧ EarlyRes tok r) ∨ (EarlyA s' ∧ r = .reprocess .beforeHtml tok) := by
  unfold stepInitial at e
  split at e
  · obtain ⟨rfl, rfl⟩ := pure_ok.mp e
    exact Or.inl ⟨h, .split _ (ht.h _ _ rfl) (by intro h; cases h)⟩
  · obtain ⟨rfl, rfl⟩ := pure_ok.mp e
    exact Or.inl ⟨h, .done (by intro h; cases h)⟩
  · obtain ⟨rfl, he, hm, hk⟩ := appendCommentToDoc_early h.1 e
    refine Or.inl ⟨⟨he, hm.trans h.2.1, ?_⟩, .done (by intro h; cases h)⟩
    intro k hk'
    rw [hk] at hk'
    simp only [List.mem_append, List.mem_singleton] at hk'
    rcases hk' with hk' | rfl
    · exact h.2.2 k hk'
    · rfl
  · rw [getS_bind] at e
    refine Or.inr ?_
    by_cases hc : (!s.opts.iframeSrcdoc) = true
    · simp only [hc, if_true] at e
      obtain ⟨r1, s1, e1, e2⟩ := bind_ok.mp e
      obtain ⟨q1, _⟩ := unexpected_run e1
      obtain ⟨u, s2, e3, e4⟩ := bind_ok.mp e2
      have q2 := setQuirksMode_run e3
      obtain ⟨rfl, rfl⟩ := pure_ok.mp e4
      exact ⟨h.same (q1.trans q2), rfl⟩
    · simp only [hc] at e
      obtain ⟨rfl, rfl⟩ := pure_ok.mp e
      exact ⟨h, rfl⟩

/-- rules.rs:118, BeforeHtml: the only place where `html` is created -/
theorem stepBeforeHtml_spec {s s' : State} {tok : Token} {r : ProcessResult} (h : EarlyB s) [ht : TokOk tok]
    (e : stepBeforeHtml tok s = .ok (r, s')) :
    (EarlyB s' ∧ EarlyRes tok r) ∨ (Late s' ∧ r = .done) ∨
      (Late { s' with mode := .beforeHead } ∧ r = .reprocess .beforeHead tok) := by
  have anyElse : ∀ (t : Token) (s0 : State), EarlyB s0 →
      (do createRoot []; pure (ProcessResult.reprocess Mode.beforeHead t) : M ProcessResult) s0 = .ok (r, s') →
      Late { s' with mode := .beforeHead } ∧ r = .reprocess .beforeHead t := by
    intro t s0 h0 e0
    obtain ⟨u, s1, e1, e2⟩ := bind_ok.mp e0
    obtain ⟨rfl, rfl⟩ := pure_ok.mp e2
    exact ⟨createRoot_early h0.1 h0.2.2 e1 _ rfl, rfl⟩
  unfold stepBeforeHtml at e
  split at e
  · obtain ⟨rfl, he, hm, hk⟩ := appendCommentToDoc_early h.1 e
    refine Or.inl ⟨⟨he, hm.trans h.2.1, ?_⟩, .done (by intro h; cases h)⟩
    rw [hk]; exact docPre_append_comment h.2.2
  · obtain ⟨rfl, rfl⟩ := pure_ok.mp e
    exact Or.inl ⟨h, .split _ (ht.h _ _ rfl) (by intro h; cases h)⟩
  · obtain ⟨rfl, rfl⟩ := pure_ok.mp e
    exact Or.inl ⟨h, .done (by intro h; cases h)⟩
  · rename_i tag
    by_cases h1 : tag.isStart ["html"] = true
    · simp only [h1, if_true] at e
      obtain ⟨u, s1, e1, e2⟩ := bind_ok.mp e
      obtain ⟨u2, s2, e3, e4⟩ := bind_ok.mp e2
      obtain ⟨rfl, rfl⟩ := pure_ok.mp e4
      unfold setMode at e3
      rw [modS_ok.mp e3]
      exact Or.inr (Or.inl ⟨createRoot_early h.1 h.2.2 e1 _ rfl, rfl⟩)
    · simp only [h1] at e
      by_cases h2 : tag.isEnd ["head", "body", "html", "br"] = true
      · simp only [h2, if_true] at e
        exact Or.inr (Or.inr (anyElse _ _ h e))
      · simp only [h2] at e
        by_cases h3 : (tag.kind == H5V.Model.HtmlTok.TagKind.endTag) = true
        · simp only [h3, if_true] at e
          obtain ⟨q, rfl⟩ := unexpected_run e
          exact Or.inl ⟨h.same q, .done (by intro h; cases h)⟩
        · simp only [h3] at e
          exact Or.inr (Or.inr (anyElse _ _ h e))
  · exact Or.inr (Or.inr (anyElse _ _ h e))

/-- `is_foreign` with an empty stack: no sink call, `false` -/
theorem isForeign_early {s s' : State} {tok : Token} {b : Bool} (h : s.openElems = [])
    (e : isForeign tok s = .ok (b, s')) : b = false ∧ s' = s := by
  unfold isForeign at e
  by_cases h1 : (tok == Token.eof) = true
  · simp only [h1, if_true] at e
    obtain ⟨rfl, rfl⟩ := pure_ok.mp e
    exact ⟨rfl, rfl⟩
  · simp only [h1, Bool.false_eq_true, if_false] at e
    rw [getS_bind] at e
    simp only [h, List.isEmpty_nil, if_true] at e
    obtain ⟨rfl, rfl⟩ := pure_ok.mp e
    exact ⟨rfl, rfl⟩

/-! ### `process_to_completion` -/

theorem EarlyA.notLate {s : State} (h : EarlyA s) : ¬ Late s := by
  intro hl; have := hl.ml.mode; rw [h.2.1] at this; cases this
theorem EarlyB.notLate {s : State} (h : EarlyB s) : ¬ Late s := by
  intro hl; have := hl.ml.mode; rw [h.2.1] at this; cases this

/-- the state and answer after the rule has run -/
inductive StepPost (s : State) (tok : Token) (result : ProcessResult) (s1 : State) : Prop
  | late : Late s1 → ResOk result → StepPost s tok result s1
  | earlyA : ¬ Late s → EarlyA s1 → EarlyRes tok result → StepPost s tok result s1
  | earlyB : ¬ Late s → EarlyB s1 → EarlyRes tok result → StepPost s tok result s1
  | aToB : ¬ Late s → EarlyA s1 → result = .reprocess .beforeHtml tok → StepPost s tok result s1
  | bToLate : ¬ Late s → Late { s1 with mode := .beforeHead } → result = .reprocess .beforeHead tok →
      StepPost s tok result s1

/-- the dispatch of one iteration of `process_to_completion` -/
def stepPart (tok : Token) : M ProcessResult := do
  if ← isForeign tok then stepForeign tok else step (← getS).mode tok

theorem presR_stepPart (tok : Token) [TokOk tok] : PresR (stepPart tok) := by
  unfold stepPart; tb_walk

theorem stepPart_spec {s s1 : State} {tok : Token} {result : ProcessResult} (h : Inv3 s) [TokOk tok]
    (e : stepPart tok s = .ok (result, s1)) : StepPost s tok result s1 := by
  cases h with
  | late hl =>
    obtain ⟨⟨l, _⟩, r⟩ := (presR_stepPart tok).p _ _ _ hl e
    exact .late l r
  | a ha =>
    unfold stepPart at e
    obtain ⟨b, s0, e1, e2⟩ := bind_ok.mp e
    obtain ⟨rfl, rfl⟩ := isForeign_early ha.1.oe e1
    simp only [Bool.false_eq_true, if_false] at e2
    rw [getS_bind, ha.2.1] at e2
    rcases stepInitial_spec ha e2 with ⟨h1, h2⟩ | ⟨h1, h2⟩
    · exact .earlyA ha.notLate h1 h2
    · exact .aToB ha.notLate h1 h2
  | b hb =>
    unfold stepPart at e
    obtain ⟨b, s0, e1, e2⟩ := bind_ok.mp e
    obtain ⟨rfl, rfl⟩ := isForeign_early hb.1.oe e1
    simp only [Bool.false_eq_true, if_false] at e2
    rw [getS_bind, hb.2.1] at e2
    rcases stepBeforeHtml_spec hb e2 with ⟨h1, h2⟩ | ⟨h1, h2⟩ | ⟨h1, h2⟩
    · exact .earlyB hb.notLate h1 h2
    · exact .late h1 (by rw [h2]; trivial)
    · exact .bToLate hb.notLate h1 h2

/-- the conclusion about one run of `process_to_completion` -/
def PtcPost (s : State) (tok : Token) (s' : State) : Prop :=
  Inv3 s' ∧ (Late s → Late s') ∧ (tok = .eof → Late s')

theorem PtcPost.ofLate {s s' : State} {tok : Token} (h : Late s') : PtcPost s tok s' :=
  ⟨.late h, fun _ => h, fun _ => h⟩

theorem tokOk_split {buf first rest : Str} {isWs : Bool} (h : popFrontCharRun buf = some (first, isWs, rest))
    (st : SplitStatus) : TokOk (.chars st first) :=
  haveI : NE first := ⟨C06_split_run_nonempty h⟩; inferInstance

theorem tokOk_rest {rest : Str} (h : rest.length > 0) : TokOk (.chars .notSplit rest) :=
  haveI : NE rest := ⟨by intro h0; subst h0; simp at h⟩; inferInstance

theorem ite_run {α : Type} {c : Prop} [Decidable c] {a b : M α} {s : State} {r : α} {s' : State}
    (e : (if c then a else b) s = .ok (r, s')) : (c ∧ a s = .ok (r, s')) ∨ (¬c ∧ b s = .ok (r, s')) := by
  by_cases hc : c
  · simp only [hc, if_true] at e; exact Or.inl ⟨hc, e⟩
  · simp only [hc, if_false] at e; exact Or.inr ⟨hc, e⟩

/-- the two ways the dispatch is sequenced with the handling of its answer -/
theorem split_jp {α : Type} {J : ProcessResult → M α} {b : Bool} {tok : Token} {s s0 : State} {r : α} {s' : State}
    (e1 : isForeign tok s = .ok (b, s0))
    (e2 : (if b = true then stepForeign tok >>= J else getS >>= fun st => step st.mode tok >>= J) s0 = .ok (r, s')) :
    ∃ result s1, stepPart tok s = .ok (result, s1) ∧ J result s1 = .ok (r, s') := by
  cases b with
  | true =>
    simp only [if_true] at e2
    obtain ⟨result, s1, e3, e4⟩ := bind_ok.mp e2
    refine ⟨result, s1, ?_, e4⟩
    unfold stepPart
    exact bind_ok.mpr ⟨true, s0, e1, by simp only [if_true]; exact e3⟩
  | false =>
    simp only [Bool.false_eq_true, if_false] at e2
    rw [getS_bind] at e2
    obtain ⟨result, s1, e3, e4⟩ := bind_ok.mp e2
    refine ⟨result, s1, ?_, e4⟩
    unfold stepPart
    exact bind_ok.mpr ⟨false, s0, e1, by simp only [Bool.false_eq_true, if_false]; rw [getS_bind]; exact e3⟩

set_option maxHeartbeats 1600000 in
theorem ptc_inv : ∀ (fuel : Nat) (tok : Token) (more : List Token) (s : State) (r : SinkResult) (s' : State),
    Inv3 s → TokOk tok → (∀ t ∈ more, TokOk t) → processToCompletion fuel tok more s = .ok (r, s') →
    PtcPost s tok s'
  | 0, _, _, _, _, _, _, _, _, e => by unfold processToCompletion at e; exact absurd e fuelOut_ok
  | fuel + 1, tok, more, s, r, s', hinv, htok, hmore, e => by
    have ih := ptc_inv fuel
    -- continuing with the queue of pending tokens
    have hcont : ∀ (s2 : State) (K : M SinkResult), Inv3 s2 → (Late s → Late s2) → (tok ≠ .eof ∨ Late s2) →
        ((more = [] ∧ K = pure SinkResult.continue_) ∨
          (∃ t rest, more = t :: rest ∧ K = processToCompletion fuel t rest)) →
        K s2 = .ok (r, s') → PtcPost s tok s' := by
      intro s2 K h2 hl2 heof hK e2
      rcases hK with ⟨_, rfl⟩ | ⟨t, rest, hm, rfl⟩
      · obtain ⟨_, rfl⟩ := pure_ok.mp e2
        refine ⟨h2, hl2, ?_⟩
        intro he
        rcases heof with h | h
        · exact absurd he h
        · exact h
      · obtain ⟨a1, a2, a3⟩ := ih t rest s2 r s' h2 (hmore t (by simp [hm]))
          (fun x hx => hmore x (by simp [hm, hx])) e2
        refine ⟨a1, fun hl => a2 (hl2 hl), ?_⟩
        intro he
        rcases heof with h | h
        · exact absurd he h
        · exact a2 h
    -- the queue after a split
    have hmore2 : ∀ (rest : Str), ∀ x ∈ (if List.length rest > 0 then more ++ [Token.chars SplitStatus.notSplit rest] else more),
        TokOk x := by
      intro rest x hx
      by_cases hr : rest.length > 0
      · simp only [hr, if_true, List.mem_append, List.mem_singleton] at hx
        rcases hx with hx | rfl
        · exact hmore x hx
        · exact tokOk_rest hr
      · simp only [hr, if_false] at hx
        exact hmore x hx
    unfold processToCompletion at e
    obtain ⟨b, s0, e1, e2⟩ := bind_ok.mp e
    obtain ⟨result, s1, hstep, e⟩ := split_jp e1 e2
    clear e1 e2
    have hpost := stepPart_spec hinv hstep
    cases hpost with
    | late hl1 hres =>
      -- everything from here on happens in late states
      cases result with
      | done =>
        simp only at e
        rcases ite_run e with ⟨_, e⟩ | ⟨_, e⟩
        · obtain ⟨u, s2, e3, e4⟩ := bind_ok.mp e
          have hl2 := hl1.same (same3_parseError e3)
          cases more with
          | nil => exact hcont s2 _ (.late hl2) (fun _ => hl2) (Or.inr hl2) (Or.inl ⟨rfl, rfl⟩) e4
          | cons t rest => exact hcont s2 _ (.late hl2) (fun _ => hl2) (Or.inr hl2) (Or.inr ⟨t, rest, rfl, rfl⟩) e4
        · cases more with
          | nil => exact hcont s1 _ (.late hl1) (fun _ => hl1) (Or.inr hl1) (Or.inl ⟨rfl, rfl⟩) e
          | cons t rest => exact hcont s1 _ (.late hl1) (fun _ => hl1) (Or.inr hl1) (Or.inr ⟨t, rest, rfl, rfl⟩) e
      | doneAckSelfClosing =>
        simp only at e
        cases more with
        | nil => exact hcont s1 _ (.late hl1) (fun _ => hl1) (Or.inr hl1) (Or.inl ⟨rfl, rfl⟩) e
        | cons t rest => exact hcont s1 _ (.late hl1) (fun _ => hl1) (Or.inr hl1) (Or.inr ⟨t, rest, rfl, rfl⟩) e
      | reprocess m t =>
        simp only at e
        obtain ⟨u, s2, e3, e4⟩ := bind_ok.mp e
        obtain ⟨q, ml⟩ := (quiet_setMode m hres.1).q _ _ _ hl1.ml e3
        have hl2 := hl1.qrel q ml
        exact PtcPost.ofLate ((ih t more s2 r s' (.late hl2) hres.2 hmore e4).2.1 hl2)
      | reprocessForeign t =>
        simp only at e
        exact PtcPost.ofLate ((ih t more s1 r s' (.late hl1) hres hmore e).2.1 hl1)
      | splitWhitespace buf =>
        simp only at e
        cases hp : popFrontCharRun buf with
        | none =>
          simp only [hp] at e
          obtain ⟨_, rfl⟩ := pure_ok.mp e
          exact PtcPost.ofLate hl1
        | some p =>
          obtain ⟨first, isWs, rest⟩ := p
          simp only [hp] at e
          exact PtcPost.ofLate ((ih _ _ s1 r s' (.late hl1) (tokOk_split hp _) (hmore2 rest) e).2.1 hl1)
      | script node =>
        simp only at e
        rcases ite_run e with ⟨_, e⟩ | ⟨_, e⟩
        · obtain ⟨_, _, e3, _⟩ := bind_ok.mp e
          exact absurd e3 panicAt_ok
        · obtain ⟨_, rfl⟩ := pure_ok.mp e
          exact PtcPost.ofLate hl1
      | toPlaintext =>
        simp only at e
        rcases ite_run e with ⟨_, e⟩ | ⟨_, e⟩
        · obtain ⟨_, _, e3, _⟩ := bind_ok.mp e
          exact absurd e3 panicAt_ok
        · obtain ⟨_, rfl⟩ := pure_ok.mp e
          exact PtcPost.ofLate hl1
      | toRawData k =>
        simp only at e
        rcases ite_run e with ⟨_, e⟩ | ⟨_, e⟩
        · obtain ⟨_, _, e3, _⟩ := bind_ok.mp e
          exact absurd e3 panicAt_ok
        · obtain ⟨_, rfl⟩ := pure_ok.mp e
          exact PtcPost.ofLate hl1
      | encodingIndicator enc =>
        simp only at e
        obtain ⟨_, rfl⟩ := pure_ok.mp e
        exact PtcPost.ofLate hl1
    | earlyA hnl ha hres =>
      cases hres with
      | done hne =>
        simp only at e
        rcases ite_run e with ⟨_, e⟩ | ⟨_, e⟩
        · obtain ⟨u, s2, e3, e4⟩ := bind_ok.mp e
          have ha2 := ha.same (same3_parseError e3)
          cases more with
          | nil => exact hcont s2 _ (.a ha2) (fun hl => absurd hl hnl) (Or.inl hne) (Or.inl ⟨rfl, rfl⟩) e4
          | cons t rest => exact hcont s2 _ (.a ha2) (fun hl => absurd hl hnl) (Or.inl hne) (Or.inr ⟨t, rest, rfl, rfl⟩) e4
        · cases more with
          | nil => exact hcont s1 _ (.a ha) (fun hl => absurd hl hnl) (Or.inl hne) (Or.inl ⟨rfl, rfl⟩) e
          | cons t rest => exact hcont s1 _ (.a ha) (fun hl => absurd hl hnl) (Or.inl hne) (Or.inr ⟨t, rest, rfl, rfl⟩) e
      | split buf hbuf hne =>
        simp only at e
        cases hp : popFrontCharRun buf with
        | none =>
          simp only [hp] at e
          obtain ⟨_, rfl⟩ := pure_ok.mp e
          exact ⟨.a ha, fun hl => absurd hl hnl, fun he => absurd he hne⟩
        | some p =>
          obtain ⟨first, isWs, rest⟩ := p
          simp only [hp] at e
          have := ih _ _ s1 r s' (.a ha) (tokOk_split hp _) (hmore2 rest) e
          exact ⟨this.1, fun hl => absurd hl hnl, fun he => absurd he hne⟩
    | earlyB hnl hb hres =>
      cases hres with
      | done hne =>
        simp only at e
        rcases ite_run e with ⟨_, e⟩ | ⟨_, e⟩
        · obtain ⟨u, s2, e3, e4⟩ := bind_ok.mp e
          have hb2 := hb.same (same3_parseError e3)
          cases more with
          | nil => exact hcont s2 _ (.b hb2) (fun hl => absurd hl hnl) (Or.inl hne) (Or.inl ⟨rfl, rfl⟩) e4
          | cons t rest => exact hcont s2 _ (.b hb2) (fun hl => absurd hl hnl) (Or.inl hne) (Or.inr ⟨t, rest, rfl, rfl⟩) e4
        · cases more with
          | nil => exact hcont s1 _ (.b hb) (fun hl => absurd hl hnl) (Or.inl hne) (Or.inl ⟨rfl, rfl⟩) e
          | cons t rest => exact hcont s1 _ (.b hb) (fun hl => absurd hl hnl) (Or.inl hne) (Or.inr ⟨t, rest, rfl, rfl⟩) e
      | split buf hbuf hne =>
        simp only at e
        cases hp : popFrontCharRun buf with
        | none =>
          simp only [hp] at e
          obtain ⟨_, rfl⟩ := pure_ok.mp e
          exact ⟨.b hb, fun hl => absurd hl hnl, fun he => absurd he hne⟩
        | some p =>
          obtain ⟨first, isWs, rest⟩ := p
          simp only [hp] at e
          have := ih _ _ s1 r s' (.b hb) (tokOk_split hp _) (hmore2 rest) e
          exact ⟨this.1, fun hl => absurd hl hnl, fun he => absurd he hne⟩
    | aToB hnl ha hres =>
      subst hres
      simp only at e
      obtain ⟨u, s2, e3, e4⟩ := bind_ok.mp e
      unfold setMode at e3
      rw [modS_ok.mp e3] at e4
      have := ih tok more _ r s' (.b ha.toB) htok hmore e4
      exact ⟨this.1, fun hl => absurd hl hnl, this.2.2⟩
    | bToLate hnl hl1 hres =>
      subst hres
      simp only at e
      obtain ⟨u, s2, e3, e4⟩ := bind_ok.mp e
      unfold setMode at e3
      rw [modS_ok.mp e3] at e4
      exact PtcPost.ofLate ((ih tok more _ r s' (.late hl1) htok hmore e4).2.1 hl1)

/-! ### `process_token` -/

theorem same3_modS {f : State → State} {s s' : State} {u : Unit} (hf : Same3 s (f s)) (e : modS f s = .ok (u, s')) :
    Same3 s s' := by rw [modS_ok.mp e]; exact hf

/-- after the token has been converted: run it to completion -/
theorem some_run {s s' : State} {r : SinkResult} {t : Token} (h : Inv3 s) (ht : TokOk t)
    (e : (do let __do_lift ← getS; processToCompletion (ptcFuel __do_lift t) t [] : M SinkResult) s = .ok (r, s')) :
    Inv3 s' ∧ (Late s → Late s') ∧ (t = .eof → Late s') := by
  rw [getS_bind] at e
  exact ptc_inv _ t [] s r s' h ht (by intro x hx; cases hx) e

theorem charsToken_ok {b : Bool} {x : Str} {t : Token} (h : charsToken b x = some t) : TokOk t := by
  obtain ⟨y, rfl, hy⟩ := C06_chars_token_nonempty h
  exact ⟨by intro st s e; cases e; exact hy⟩

/-- an optional action before a shared continuation -/
theorem ite_prefix_run {α : Type} {c : Prop} [Decidable c] {p : M Unit} {k : Unit → M α} {s : State} {r : α}
    {s' : State} (e : (if c then p >>= k else k ()) s = .ok (r, s')) :
    ∃ s1, (s1 = s ∨ ∃ u, p s = .ok (u, s1)) ∧ k () s1 = .ok (r, s') := by
  rcases ite_run e with ⟨_, e⟩ | ⟨_, e⟩
  · obtain ⟨u, s1, e1, e2⟩ := bind_ok.mp e
    exact ⟨s1, Or.inr ⟨u, e1⟩, e2⟩
  · exact ⟨s, Or.inl rfl, e⟩

/-- `flush_pending_table_text` (the DOCTYPE-in-table-text case of `process_token`) -/
theorem flushPendingTableText_late {s s' : State} {m : Mode} (hl : Late s)
    (e : flushPendingTableText s = .ok (m, s')) : Late s' ∧ isLate m = true ∧ Ext s.dom s'.dom := by
  unfold flushPendingTableText at e
  rw [getS_bind] at e
  have hp := hl.st.ptt
  generalize s.pendingTableText = l at e hp
  haveI := pres_flushPendingFoster l hp
  haveI := pres_flushPendingPlain l hp
  obtain ⟨u1, s1, e1, e2⟩ := bind_ok.mp e
  obtain ⟨hl1, x1⟩ := (inferInstance : Pres (modS fun s => { s with pendingTableText := [] })).p s u1 s1 hl e1
  have tail : ∀ s2 : State, Late s2 → Ext s.dom s2.dom →
      (getS >>= fun s => match s.origMode with
        | none => (panicAt "unwrap-none" "rules.rs:1172" "orig_mode.take().unwrap()" : M Mode)
        | some m => (set { s with origMode := none } : M Unit) >>= fun _ => pure m) s2 = .ok (m, s') →
      Late s' ∧ isLate m = true ∧ Ext s.dom s'.dom := by
    intro s2 hl2 x2 e4
    rw [getS_bind] at e4
    cases horig : s2.origMode with
    | none => simp only [horig] at e4; exact absurd e4 panicAt_ok
    | some m0 =>
      simp only [horig] at e4
      obtain ⟨u3, s3, e5, e6⟩ := bind_ok.mp e4
      obtain ⟨rfl, rfl⟩ := pure_ok.mp e6
      have hs3 := set_ok.mp e5
      subst hs3
      exact ⟨⟨hl2.base, hl2.pat, ⟨hl2.st.doc, hl2.st.ctx, hl2.st.oe, hl2.st.tail, hl2.st.head, hl2.st.ptt⟩,
        ⟨hl2.ml.mode, (fun m h => by cases h), hl2.ml.tm⟩⟩, hl2.ml.orig _ horig, x2⟩
  rcases ite_run e2 with ⟨_, e2⟩ | ⟨_, e2⟩
  · obtain ⟨u2, s2, e3, e4⟩ := bind_ok.mp e2
    obtain ⟨hl2, x2⟩ := (inferInstance : Pres (parseError "Non-space table text")).p s1 u2 s2 hl1 e3
    obtain ⟨u3, s3, e5, e6⟩ := bind_ok.mp e4
    obtain ⟨hl3, x3⟩ := (inferInstance : Pres (flushPendingFoster l)).p s2 u3 s3 hl2 e5
    exact tail s3 hl3 ((x1.trans x2).trans x3) e6
  · obtain ⟨u3, s3, e5, e6⟩ := bind_ok.mp e2
    obtain ⟨hl3, x3⟩ := (inferInstance : Pres (flushPendingPlain l)).p s1 u3 s3 hl1 e5
    exact tail s3 hl3 (x1.trans x3) e6

theorem processToken_inv {s s' : State} {t : TokToken} {line : Nat} {r : SinkResult} (h : Inv3 s)
    (e : processToken t line s = .ok (r, s')) :
    Inv3 s' ∧ (Late s → Late s') ∧ (t = .eof → Late s') := by
  unfold processToken at e
  rw [getS_bind] at e
  obtain ⟨s1, hs1, e1⟩ := ite_prefix_run e
  have q1 : Same3 s s1 := by
    rcases hs1 with rfl | ⟨u, hu⟩
    · exact Same3.refl _
    · exact same3_sinkUnit hu
  simp only at e1
  rw [getS_bind] at e1
  obtain ⟨u, s2, e2, e3⟩ := bind_ok.mp e1
  have q2 : Same3 s s2 := q1.trans (same3_modS ⟨rfl, rfl, rfl, rfl, rfl, rfl, rfl, rfl, rfl⟩ e2)
  have h2 : Inv3 s2 := h.same q2
  have l2 : Late s → Late s2 := fun hl => hl.same q2
  cases t with
  | parseError msg =>
    simp only at e3
    obtain ⟨u3, s3, e4, e5⟩ := bind_ok.mp e3
    obtain ⟨u4, s4, e6, e7⟩ := bind_ok.mp e5
    obtain ⟨tb, s5, e8, e9⟩ := bind_ok.mp e7
    obtain ⟨rfl, rfl⟩ := pure_ok.mp e8
    have q4 : Same3 s2 s4 := (same3_sinkUnit e4).trans (same3_modS ⟨rfl, rfl, rfl, rfl, rfl, rfl, rfl, rfl, rfl⟩ e6)
    simp only at e9
    obtain ⟨_, rfl⟩ := pure_ok.mp e9
    exact ⟨h2.same q4, fun hl => (l2 hl).same q4, fun h => by cases h⟩
  | doctype dt =>
    simp only at e3
    rw [getS_bind] at e3
    rcases ite_run e3 with ⟨hmode, e3⟩ | ⟨hmode, e3⟩
    · -- Initial: the doctype is appended
      have hmode' : s2.mode = .initial := by simpa using hmode
      have ha : EarlyA s2 := by
        cases h2 with
        | a ha => exact ha
        | b hb => have := hb.2.1; rw [hmode'] at this; cases this
        | late hl => have := hl.ml.mode; rw [hmode'] at this; cases this
      have hnl : ¬ Late s := fun hl => ha.notLate (l2 hl)
      refine ⟨?_, fun hl => absurd hl hnl, fun h => by cases h⟩
      rw [getS_bind] at e3
      cases hdq : doctypeErrorAndQuirks dt s2.opts.iframeSrcdoc with
      | mk err quirk =>
        simp only [hdq] at e3
        obtain ⟨s3, hs3, e4⟩ := ite_prefix_run e3
        have ha3 : EarlyA s3 := by
          rcases hs3 with rfl | ⟨u, hu⟩
          · exact ha
          · exact ha.same (same3_parseError hu)
        rw [getS_bind] at e4
        obtain ⟨s4, hs4, e5⟩ := ite_prefix_run e4
        have hb4 : EarlyB { s4 with mode := .beforeHtml } := by
          rcases hs4 with rfl | ⟨u, hu⟩
          · exact ha3.toB
          · obtain ⟨out, hd, f4⟩ := sinkUnit_dom hu
            obtain ⟨hb', hc', hk, hdata, hs⟩ := appendDoctype_spec ha3.1.base (apply_doctype hd)
            refine ⟨⟨hb', f4.oe.trans ha3.1.oe, f4.head.trans ha3.1.head, f4.doc.trans ha3.1.doc,
              f4.ctx.trans ha3.1.ctx, f4.ptt.trans ha3.1.ptt, f4.orig.trans ha3.1.orig, f4.tm.trans ha3.1.tm⟩, rfl, ?_⟩
            show docPre 0 (kinds s4.dom) = true
            have hkd : docKid s4.dom s3.dom.size = .doctype := by unfold docKid; rw [hdata]
            rw [kinds_snoc ha3.1.base hc' hk, hkd]
            exact docPre_append_doctype ha3.2.2
        obtain ⟨u5, s5, e6, e7⟩ := bind_ok.mp e5
        obtain ⟨u6, s6, e8, e9⟩ := bind_ok.mp e7
        obtain ⟨tb, s7, e10, e11⟩ := bind_ok.mp e9
        obtain ⟨rfl, rfl⟩ := pure_ok.mp e10
        simp only at e11
        obtain ⟨_, rfl⟩ := pure_ok.mp e11
        have q5 := setQuirksMode_run e6
        unfold setMode at e8
        rw [modS_ok.mp e8]
        refine .b ?_
        have : Same3 { s4 with mode := .beforeHtml } { s5 with mode := .beforeHtml } :=
          ⟨q5.nodes, rfl, q5.orig, q5.tm, q5.oe, q5.head, q5.doc, q5.ctx, q5.ptt⟩
        exact hb4.same this
    · have tail : ∀ s3 : State, Inv3 s3 → (Late s → Late s3) →
          (parseError "DOCTYPE in body" >>= fun _ => (pure none : M (Option Token)) >>= fun tbToken =>
            match tbToken with
            | none => pure SinkResult.continue_
            | some t => do
              let __do_lift ← getS
              processToCompletion (ptcFuel __do_lift t) t []) s3 = .ok (r, s') →
          Inv3 s' ∧ (Late s → Late s') ∧ (TokToken.doctype dt = .eof → Late s') := by
        intro s3 h3 l3 e3
        obtain ⟨u3, s4, e4, e5⟩ := bind_ok.mp e3
        obtain ⟨tb, s5, e8, e9⟩ := bind_ok.mp e5
        obtain ⟨rfl, rfl⟩ := pure_ok.mp e8
        have q3 := same3_parseError e4
        simp only at e9
        obtain ⟨_, rfl⟩ := pure_ok.mp e9
        exact ⟨h3.same q3, fun hl => (l3 hl).same q3, fun h => by cases h⟩
      rw [getS_bind] at e3
      rcases ite_run e3 with ⟨hmt, e3⟩ | ⟨_, e3⟩
      · -- in table text: the pending text is flushed, the original mode restored
        have hmt' : s2.mode = .inTableText := by simpa using hmt
        have hl2 : Late s2 := by
          cases h2 with
          | a ha => have := ha.2.1; rw [hmt'] at this; cases this
          | b hb => have := hb.2.1; rw [hmt'] at this; cases this
          | late hl => exact hl
        obtain ⟨m0, s3, e4, e5⟩ := bind_ok.mp e3
        obtain ⟨hl3, hm0, _⟩ := flushPendingTableText_late hl2 e4
        obtain ⟨u4, s4, e6, e7⟩ := bind_ok.mp e5
        unfold setMode at e6
        have hs4 := modS_ok.mp e6
        have hl4 : Late s4 := by
          rw [hs4]
          exact ⟨hl3.base, hl3.pat, ⟨hl3.st.doc, hl3.st.ctx, hl3.st.oe, hl3.st.tail, hl3.st.head, hl3.st.ptt⟩,
            ⟨hm0, hl3.ml.orig, hl3.ml.tm⟩⟩
        exact tail s4 (.late hl4) (fun _ => hl4) e7
      · exact tail s2 h2 l2 e3
  | tag tg =>
    simp only at e3
    obtain ⟨tb, s5, e8, e9⟩ := bind_ok.mp e3
    obtain ⟨rfl, rfl⟩ := pure_ok.mp e8
    simp only at e9
    obtain ⟨a, b, _⟩ := some_run h2 inferInstance e9
    exact ⟨a, fun hl => b (l2 hl), fun h => by cases h⟩
  | comment c =>
    simp only at e3
    obtain ⟨tb, s5, e8, e9⟩ := bind_ok.mp e3
    obtain ⟨rfl, rfl⟩ := pure_ok.mp e8
    simp only at e9
    obtain ⟨a, b, _⟩ := some_run h2 inferInstance e9
    exact ⟨a, fun hl => b (l2 hl), fun h => by cases h⟩
  | nullChar =>
    simp only at e3
    obtain ⟨tb, s5, e8, e9⟩ := bind_ok.mp e3
    obtain ⟨rfl, rfl⟩ := pure_ok.mp e8
    simp only at e9
    obtain ⟨a, b, _⟩ := some_run h2 inferInstance e9
    exact ⟨a, fun hl => b (l2 hl), fun h => by cases h⟩
  | eof =>
    simp only at e3
    obtain ⟨tb, s5, e8, e9⟩ := bind_ok.mp e3
    obtain ⟨rfl, rfl⟩ := pure_ok.mp e8
    simp only at e9
    obtain ⟨a, b, c⟩ := some_run h2 inferInstance e9
    exact ⟨a, fun hl => b (l2 hl), fun _ => c rfl⟩
  | chars x =>
    simp only at e3
    obtain ⟨tb, s5, e8, e9⟩ := bind_ok.mp e3
    obtain ⟨rfl, rfl⟩ := pure_ok.mp e8
    cases hct : charsToken s1.ignoreLf x with
    | none =>
      simp only [hct] at e9
      obtain ⟨_, rfl⟩ := pure_ok.mp e9
      exact ⟨h2, l2, fun h => by cases h⟩
    | some tk =>
      simp only [hct] at e9
      obtain ⟨a, b, _⟩ := some_run h2 (charsToken_ok hct) e9
      exact ⟨a, fun hl => b (l2 hl), fun h => by cases h⟩

/-! ### token runs, `TreeBuilder::new`, `end()` -/

theorem processTokens_inv : ∀ (toks : List (TokToken × Nat)) (acc : List SinkResult) (s : State)
    (r : List SinkResult) (s' : State), Inv3 s → processTokens toks acc s = .ok (r, s') →
    Inv3 s' ∧ (Late s → Late s') ∧ ((∃ line, (TokToken.eof, line) ∈ toks) → Late s')
  | [], acc, s, r, s', h, e => by
    unfold processTokens at e
    obtain ⟨_, rfl⟩ := pure_ok.mp e
    exact ⟨h, id, fun ⟨_, hm⟩ => by cases hm⟩
  | (t, line) :: rest, acc, s, r, s', h, e => by
    unfold processTokens at e
    obtain ⟨r1, s1, e1, e2⟩ := bind_ok.mp e
    obtain ⟨a1, b1, c1⟩ := processToken_inv h e1
    obtain ⟨a2, b2, c2⟩ := processTokens_inv rest _ s1 r s' a1 e2
    refine ⟨a2, fun hl => b2 (b1 hl), ?_⟩
    rintro ⟨l, hm⟩
    simp only [List.mem_cons, Prod.mk.injEq] at hm
    rcases hm with ⟨rfl, _⟩ | hm
    · exact b2 (c1 rfl)
    · exact c2 ⟨l, hm⟩

theorem earlyA_init (opts : Opts) : EarlyA (State.init opts) := by
  refine ⟨⟨DomBase.new, rfl, rfl, rfl, rfl, rfl, rfl, rfl⟩, rfl, ?_⟩
  intro k hk
  simp [kinds, State.init, Dom.new, Dom.childrenOf] at hk

theorem apply_getDocument {d d' : Dom} {out : Output} (h : d.apply .getDocument = .ok (d', out)) :
    d' = d ∧ out = .node 0 := by
  have h' : d.applyV Dom.cloneVariant Dom.beforeSiblingVariant .getDocument = .ok (d', out) := h
  simp only [Dom.applyV, Except.ok.injEq, Prod.mk.injEq] at h'
  exact ⟨h'.1.symm, h'.2.symm⟩

theorem newTB_inv {s s' : State} {u : Unit} (h : EarlyA s) (e : newTB s = .ok (u, s')) : EarlyA s' := by
  unfold newTB at e
  obtain ⟨doc, s1, e1, e2⟩ := bind_ok.mp e
  obtain ⟨hd, f1⟩ := sink_dom (sinkNode_ok.mp e1)
  obtain ⟨hdom, hout⟩ := apply_getDocument hd
  cases hout
  rw [modS_ok.mp e2]
  refine ⟨⟨by show DomBase s1.dom; rw [hdom]; exact h.1.base, f1.oe.trans h.1.oe, f1.head.trans h.1.head, rfl,
    f1.ctx.trans h.1.ctx, f1.ptt.trans h.1.ptt, f1.orig.trans h.1.orig, f1.tm.trans h.1.tm⟩,
    f1.mode.trans h.2.1, ?_⟩
  show ∀ k ∈ kinds s1.dom, k = .comment
  rw [hdom]; exact h.2.2

theorem endLoop_nodes : ∀ (l : List Id) (s s' : State) (u : Unit), endLoop l s = .ok (u, s') →
    s'.dom.nodes = s.dom.nodes
  | [], s, s', u, e => by
    unfold endLoop at e
    obtain ⟨_, rfl⟩ := pure_ok.mp e
    rfl
  | x :: rest, s, s', u, e => by
    unfold endLoop at e
    obtain ⟨u1, s1, e1, e2⟩ := bind_ok.mp e
    rw [endLoop_nodes rest s1 s' u e2]
    exact (same3_sinkUnit e1).nodes

theorem finishTB_nodes {s s' : State} {u : Unit} (e : finishTB s = .ok (u, s')) : s'.dom.nodes = s.dom.nodes := by
  unfold finishTB at e
  rw [getS_bind] at e
  obtain ⟨u1, s1, e1, e2⟩ := bind_ok.mp e
  rw [endLoop_nodes _ _ _ _ e2, modS_ok.mp e1]

/-- the dom of a completed run of `parseTokens`, and the state before `end()` -/
theorem parseTokens_ok {opts : Opts} {toks : List (TokToken × Nat)} {s : State}
    (h : parseTokens opts toks = .ok s) :
    ∃ s0, Inv3 s0 ∧ ((∃ line, (TokToken.eof, line) ∈ toks) → Late s0) ∧ s.dom.nodes = s0.dom.nodes := by
  unfold parseTokens at h
  cases hr : ((do newTB; let _ ← processTokens toks []; finishTB : M Unit).run (State.init opts)) with
  | error e => rw [hr] at h; cases h
  | ok p =>
    obtain ⟨u, sf⟩ := p
    rw [hr] at h
    have hs : sf = s := by simpa [Except.map] using h
    subst hs
    have hr' : (newTB >>= fun _ => processTokens toks [] >>= fun _ => finishTB) (State.init opts) = .ok (u, sf) := hr
    obtain ⟨u1, s1, e1, e2⟩ := bind_ok.mp hr'
    obtain ⟨r2, s2, e3, e4⟩ := bind_ok.mp e2
    have h1 := newTB_inv (earlyA_init opts) e1
    obtain ⟨a, _, c⟩ := processTokens_inv toks [] s1 r2 s2 (.a h1) e3
    exact ⟨s2, a, c, finishTB_nodes e4⟩

end H5V.Props.C06
