import H5V.Lemmas.HtmlTokCharRefRun
/-!
The character-reference sub-tokenizer against `Spec.CharRef.specCharRef`, case by case: neither a
name nor a number, named references (no match / match / legacy attribute exception), numeric
references; each for text that decides the outcome and for text cut off by the end of input.
The headline statements are in `H5V.Props.C14Run`.
-/
namespace H5V.Props.C14
open H5V H5V.Model.HtmlTok

/-- the parse-error tokens `errs` (all at the current line) amount to "parse error" iff `err` -/
def ErrsOk (m : Mach) (errs : Out) (err : Bool) : Prop :=
  (∀ t ∈ errs, ∃ msg, t = (Token.error msg, m.line)) ∧ (errs ≠ [] ↔ err = true)

theorem errsOk_nil (m : Mach) : ErrsOk m [] false := ⟨by simp, by simp⟩

theorem errsOk_one (m : Mach) (t : Token) (h : ∃ msg, t = .error msg) : ErrsOk m [(t, m.line)] true := by
  obtain ⟨msg, rfl⟩ := h
  exact ⟨by simp, by simp⟩

/-- the sub-tokenizer, started on `M.setCharRef (some cr)` with the text `s`, resolves the reference
after `k ≤ |s| + 3` steps: `chars` delivered, `s.drop n` left in the input, parse error iff `err` -/
def ResolvesFrom (o : Opts) (b : Bool) (M : Mach) (cr : CharRefSt) (s : Str) (chars : Str) (n : Nat)
    (err : Bool) : Prop :=
  ∃ errs lf k, Steps o (M.setCharRef (some cr)) s (deliver b M errs lf chars) (s.drop n) k ∧
    k ≤ s.length + 3 ∧ ErrsOk M errs err ∧ (lf = M.ignoreLf ∨ lf = false)

theorem done_step (o : Opts) {M : Mach} (b : Bool) (hs : StartState b M.state) {cr : CharRefSt} {inp : Str}
    {e : Out} {lf : Bool} {c : Option CharRefSt} {i1 : Str} {cr1 : CharRefSt} {chars : Str}
    (h : crStep o (M.setCharRef (some cr)) inp cr = .ok (pend M e lf c, i1, cr1, .done chars)) :
    stepCharRef o (M.setCharRef (some cr)) inp cr =
      .cont (deliver b M e lf (if chars.isEmpty then ['&'] else chars)) i1 := by
  rw [stepCharRef_done h]; exact process_deliver b M e lf c chars i1 hs

/-- packaging: some steps, then the step that delivers -/
theorem resolves_mk (o : Opts) (b : Bool) {M : Mach} {cr0 : CharRefSt} {s : Str} {crm : CharRefSt} {imid : Str}
    {k : Nat} (hsteps : Steps o (M.setCharRef (some cr0)) s (M.setCharRef (some crm)) imid k)
    {e : Out} {lf : Bool} {chars' chars : Str} {i1 : Str} {n : Nat} {err : Bool}
    (hlast : stepCharRef o (M.setCharRef (some crm)) imid crm = .cont (deliver b M e lf chars') i1)
    (hchars : chars' = chars) (hi : i1 = s.drop n) (hk : k + 1 ≤ s.length + 3) (he : ErrsOk M e err)
    (hlf : lf = M.ignoreLf ∨ lf = false) : ResolvesFrom o b M cr0 s chars n err := by
  subst hchars hi
  exact ⟨e, lf, 1 + k, hsteps.trans (Steps.one (setCR_charRef _ _) hlast), by omega, he, hlf⟩

/-! ### neither a name nor a number -/

theorem run_none (o : Opts) (b : Bool) {M : Mach} (hr : M.reconsume = false) (hst : StartState b M.state)
    (c : Char) (rest : Str) (hc : isAsciiAlnum c = false) (hh : c ≠ '#') :
    ResolvesFrom o b M { inAttr := b } (c :: rest) ['&'] 0 false := by
  have h := begin_other o hr { inAttr := b } c rest rfl hc hh
  rw [pend_start] at h
  have hs := done_step o b hst h
  exact resolves_mk o b (Steps.refl _ _) hs rfl rfl (by simp) (errsOk_nil M) (Or.inl rfl)

/-! ### the spec of named references, in the walk's terms -/

theorem legacyKeep_spec (b : Bool) (last next : Option Char) :
    (b && last != some ';' && (next == some '=' || next.any Spec.CharRef.isAlnum)) = legacyKeep b last next := by
  rw [isAlnum_fun]; rfl

theorem specNamed_match (b : Bool) (s : Str) (atEof : Bool) (k : Nat) (v : Nat × Nat)
    (hnp : (!atEof && Spec.CharRef.isNamePrefix s) = false)
    (hl : Spec.CharRef.longestName s = some (k, v)) :
    Spec.CharRef.specNamed b s atEof =
      if legacyKeep b s[k - 1]? s[k]? = true then Spec.CharRef.literal false
      else .resolved (Spec.CharRef.nameChars v) k (s[k - 1]? != some ';') := by
  unfold Spec.CharRef.specNamed
  simp only [hnp, Bool.false_eq_true, ↓reduceIte, hl, legacyKeep_spec]

theorem specNamed_nomatch (b : Bool) (s : Str) (atEof : Bool)
    (hnp : (!atEof && Spec.CharRef.isNamePrefix s) = false)
    (hl : Spec.CharRef.longestName s = none) :
    Spec.CharRef.specNamed b s atEof = Spec.CharRef.specAmbiguous s atEof := by
  unfold Spec.CharRef.specNamed
  simp only [hnp, Bool.false_eq_true, ↓reduceIte, hl]

theorem specAmbiguous_nil (s : Str) (atEof : Bool) (h : s.dropWhile isAsciiAlnum = []) :
    Spec.CharRef.specAmbiguous s atEof = if atEof then Spec.CharRef.literal false else .needMore := by
  unfold Spec.CharRef.specAmbiguous
  rw [isAlnum_fun]
  simp only [h]

theorem specAmbiguous_cons (s : Str) (atEof : Bool) (f : Char) (t : Str)
    (h : s.dropWhile isAsciiAlnum = f :: t) :
    Spec.CharRef.specAmbiguous s atEof = Spec.CharRef.literal (f == ';') := by
  unfold Spec.CharRef.specAmbiguous
  rw [isAlnum_fun]
  simp only [h]

/-- a text that ran the walk dry is in the map -/
theorem walk_dry_lookup (inp : Str) : ∀ (nb : Str) (mt : Option (Nat × Nat)) (len : Nat) nb' mt' len',
    Walk.walk nb mt len inp = (nb', mt', len', true) → inp ≠ [] → (entityLookup (nb ++ inp)).isSome = true := by
  induction inp with
  | nil => intro nb mt len nb' mt' len' _ h; exact absurd rfl h
  | cons c rest ih =>
    intro nb mt len nb' mt' len' h _
    simp only [Walk.walk] at h
    cases hl : entityLookup (nb ++ [c]) with
    | none => rw [hl] at h; simp at h
    | some v =>
      rw [hl] at h
      simp only at h
      cases rest with
      | nil => rw [hl]; rfl
      | cons d rest' =>
        have e : nb ++ c :: d :: rest' = (nb ++ [c]) ++ d :: rest' := by simp
        rw [e]
        split at h
        · exact ih _ _ _ _ _ _ h (by simp)
        · exact ih _ _ _ _ _ _ h (by simp)

/-- a text one of whose non-empty initial segments is outside the map is outside the map -/
theorem lookup_none_of_prefix (q p : Str) (hq : q ≠ []) (hpre : q <+: p) (h : entityLookup q = none) :
    entityLookup p = none := by
  cases hp : entityLookup p with
  | none => rfl
  | some v =>
    have := Walk.lookup_prefix_closed (p.map Char.toNat) (q.map Char.toNat) (by simpa using hq)
      (List.IsPrefix.map _ hpre) (by unfold entityLookup at hp; rw [hp]; rfl)
    unfold entityLookup at h
    rw [h] at this; simp at this

theorem isNamePrefix_false_of {s : Str} {atEof : Bool} {chars : Str} {n : Nat} {err : Bool} {b : Bool}
    (h : Spec.CharRef.specNamed b s atEof = .resolved chars n err) :
    (!atEof && Spec.CharRef.isNamePrefix s) = false := by
  unfold Spec.CharRef.specNamed at h
  cases hx : (!atEof && Spec.CharRef.isNamePrefix s) with
  | false => rfl
  | true => simp [hx] at h

/-! ### named references, decided by the text -/

/-- everything the walk knows when it stops on the character `c` that takes the buffer out of the
map: `s = pre ++ c :: post`, the sub-tokenizer stands before `c` with buffer `pre` -/
structure Stopped (o : Opts) (b : Bool) (M : Mach) (s pre : Str) (c : Char) (post : Str)
    (mt : Option (Nat × Nat)) (len : Nat) (cr : CharRefSt) : Prop where
  split : s = pre ++ c :: post
  out : entityLookup (pre ++ [c]) = none
  steps : Steps o (M.setCharRef (some { inAttr := b })) s (M.setCharRef (some cr)) (c :: post) (pre.length + 1)
  named : NamedSt cr b pre mt len
  best : Walk.Best pre mt len
  longest : Spec.CharRef.longestName s = mt.map (fun v => (len, v))

theorem walk_stopped (o : Opts) (b : Bool) {M : Mach} (hr : M.reconsume = false) (c0 : Char) (rest : Str)
    (hc0 : isAsciiAlnum c0 = true) (nb' : Str) (mt' : Option (Nat × Nat)) (len' : Nat)
    (hw : Walk.walk [] none 0 (c0 :: rest) = (nb', mt', len', false)) :
    ∃ pre c post cr, Stopped o b M (c0 :: rest) pre c post mt' len' cr := by
  have hb0 := begin_alnum o hr { inAttr := b } c0 rest rfl hc0
  have hn0 : NamedSt { ({ inAttr := b } : CharRefSt) with state := .named, nameBuf := some [] } b [] none 0 :=
    ⟨rfl, rfl, rfl, rfl, rfl, Or.inl rfl⟩
  obtain ⟨pre, c, post, cr, e1, e2, e3, hs, hn⟩ := (named_loop o hr b (c0 :: rest) [] none 0 _ hn0 nb' mt' len' false hw).2 rfl
  simp only [List.nil_append] at e2 hn
  subst e2
  obtain ⟨_, _, h3, _⟩ := Walk.walk_best (c0 :: rest) [] none 0 Walk.best_nil _ mt' len' false hw
  obtain ⟨hbest, _, _⟩ := h3 rfl
  have htk : (pre ++ [c]).take ((pre ++ [c]).length - 1) = pre := by simp
  rw [htk] at hbest
  obtain ⟨l1, l2⟩ := Walk.C14_named_longest (c0 :: rest) _ mt' len' hw
  refine ⟨pre, c, post, cr, e1, e3, ?_, hn, hbest, ?_⟩
  · exact ((Steps.one (setCR_charRef _ _) hb0).trans hs).cast (by omega)
  · apply longestName_of_best _ _ _ _ l2
    intro v hv
    obtain ⟨a1, a2, a3⟩ := l1 v hv
    obtain ⟨b1, b2, _, _⟩ := hbest.1 v hv
    refine ⟨a3, ?_, a1, a2⟩
    rw [e1]; simp; omega

/-- no identifier matched and the walk stopped on something that is not an ASCII alphanumeric -/
theorem run_nomatch_other (o : Opts) (b : Bool) {M : Mach} (hr : M.reconsume = false)
    (hst : StartState b M.state) {s pre : Str} {c : Char} {post : Str} {len : Nat} {cr : CharRefSt}
    (h : Stopped o b M s pre c post none len cr) (hc : isAsciiAlnum c = false) (hpre : pre ≠ []) :
    ResolvesFrom o b M { inAttr := b } s ['&'] 0 (c == ';') := by
  have h1 := named_last o hr h.named c post h.out
  rw [finishNamed_nomatch o _ post { cr with nameBuf := some (pre ++ [c]) } (pre ++ [c]) c rfl h.named.mt hc] at h1
  have hlen : (pre ++ [c]).length > 1 := by
    cases pre with
    | nil => exact absurd rfl hpre
    | cons x xs => simp
  have hinp : (pre ++ [c]) ++ post = s.drop 0 := by rw [h.split]; simp
  have hk : pre.length + 1 + 1 ≤ s.length + 3 := by rw [h.split]; simp; omega
  by_cases hsemi : c = ';'
  · have hc2 : (c = ';' ∧ (pre ++ [c]).length > 1) := ⟨hsemi, hlen⟩
    rw [if_pos hc2, pend_start, pend_nameErr] at h1
    refine resolves_mk o b h.steps (done_step o b hst h1) rfl hinp hk ?_ (Or.inl rfl)
    simp only [hsemi, beq_self_eq_true]
    exact errsOk_one M _ (nameErrTok_isErr o _)
  · have hc2 : ¬ (c = ';' ∧ (pre ++ [c]).length > 1) := fun x => hsemi x.1
    rw [if_neg hc2, pend_start] at h1
    refine resolves_mk o b h.steps (done_step o b hst h1) rfl hinp hk ?_ (Or.inl rfl)
    have : (c == ';') = false := by simpa using hsemi
    rw [this]; exact errsOk_nil M

/-- the bogus-name loop after a stop on an ASCII alphanumeric without a match -/
theorem nomatch_bogus_steps (o : Opts) (b : Bool) {M : Mach} (hr : M.reconsume = false)
    {s pre : Str} {c : Char} {post : Str} {len : Nat} {cr : CharRefSt}
    (h : Stopped o b M s pre c post none len cr) (hc : isAsciiAlnum c = true) :
    ∃ cr', Steps o (M.setCharRef (some { inAttr := b })) s (M.setCharRef (some cr'))
        (post.dropWhile isAsciiAlnum) ((post.takeWhile isAsciiAlnum).length + (1 + (pre.length + 1))) ∧
      BogusSt cr' b (pre ++ [c] ++ post.takeWhile isAsciiAlnum) := by
  have h1 := named_last o hr h.named c post h.out
  rw [finishNamed_bogus o _ post { cr with nameBuf := some (pre ++ [c]) } (pre ++ [c]) c rfl h.named.mt hc] at h1
  have hs1 := step_prog h1
  obtain ⟨cr', hs2, hb2⟩ := bogus_loop o hr b post (pre ++ [c])
    { cr with nameBuf := some (pre ++ [c]), state := .bogusName } ⟨rfl, h.named.attr, rfl⟩
  exact ⟨cr', (h.steps.trans (Steps.one (setCR_charRef _ _) hs1)).trans hs2, hb2⟩

theorem run_nomatch_bogus (o : Opts) (b : Bool) {M : Mach} (hr : M.reconsume = false)
    (hst : StartState b M.state) {s pre : Str} {c : Char} {post : Str} {len : Nat} {cr : CharRefSt}
    (h : Stopped o b M s pre c post none len cr) (hc : isAsciiAlnum c = true) (f : Char) (post' : Str)
    (hdw : post.dropWhile isAsciiAlnum = f :: post') :
    ResolvesFrom o b M { inAttr := b } s ['&'] 0 (f == ';') := by
  obtain ⟨cr', hs, hb⟩ := nomatch_bogus_steps o b hr h hc
  rw [hdw] at hs
  have hf := dropWhile_head_false _ _ _ _ hdw
  have h1 := bogus_last o hr hb f post' hf
  have hpost : post = post.takeWhile isAsciiAlnum ++ f :: post' := by
    rw [← hdw]; exact (List.takeWhile_append_dropWhile).symm
  have hinp : (pre ++ [c] ++ post.takeWhile isAsciiAlnum ++ [f]) ++ post' = s.drop 0 := by
    rw [h.split]
    conv => rhs; rw [hpost]
    simp
  have hk : (post.takeWhile isAsciiAlnum).length + (1 + (pre.length + 1)) + 1 ≤ s.length + 3 := by
    rw [h.split]
    conv => rhs; rw [hpost]
    simp; omega
  by_cases hsemi : f = ';'
  · rw [if_pos hsemi, pend_start, pend_nameErr] at h1
    refine resolves_mk o b hs (done_step o b hst h1) rfl hinp hk ?_ (Or.inl rfl)
    simp only [hsemi, beq_self_eq_true]
    exact errsOk_one M _ (nameErrTok_isErr o _)
  · rw [if_neg hsemi, pend_start] at h1
    refine resolves_mk o b hs (done_step o b hst h1) rfl hinp hk ?_ (Or.inl rfl)
    have : (f == ';') = false := by simpa using hsemi
    rw [this]; exact errsOk_nil M

/-- facts about a remembered match -/
theorem stopped_match_facts {o : Opts} {b : Bool} {M : Mach} {s pre : Str} {c : Char} {post : Str}
    {v : Nat × Nat} {len : Nat} {cr : CharRefSt} (h : Stopped o b M s pre c post (some v) len cr) :
    0 < len ∧ len ≤ pre.length ∧ isValidScalar v.1 = true ∧ isValidScalar v.2 = true ∧
    (pre ++ [c])[len - 1]? = s[len - 1]? ∧ (pre ++ [c])[len]? = s[len]? := by
  obtain ⟨a1, a2, a3, a4⟩ := h.best.1 v rfl
  obtain ⟨v1, v2⟩ := key_valid _ v a3 a4
  have e : s = (pre ++ [c]) ++ post := by rw [h.split]; simp
  have hl1 : len - 1 < (pre ++ [c]).length := by simp; omega
  have hl2 : len < (pre ++ [c]).length := by simp; omega
  refine ⟨a1, a2, v1, v2, ?_, ?_⟩
  · rw [e]; exact (List.getElem?_append_left hl1).symm
  · rw [e]; exact (List.getElem?_append_left hl2).symm

/-- a match, kept as text by the legacy attribute rule -/
theorem run_match_keep (o : Opts) (b : Bool) {M : Mach} (hr : M.reconsume = false)
    (hst : StartState b M.state) {s pre : Str} {c : Char} {post : Str} {v : Nat × Nat} {len : Nat}
    {cr : CharRefSt} (h : Stopped o b M s pre c post (some v) len cr)
    (hk : legacyKeep b s[len - 1]? s[len]? = true) :
    ResolvesFrom o b M { inAttr := b } s ['&'] 0 false := by
  obtain ⟨f1, f2, f3, f4, f5, f6⟩ := stopped_match_facts h
  have h1 := named_last o hr h.named c post h.out
  rw [finishNamed_match o _ post { cr with nameBuf := some (pre ++ [c]) } (pre ++ [c]) (some c) v.1 v.2 rfl
      h.named.mt (by show 0 < cr.nameLen; rw [h.named.len]; exact f1)
      (by show cr.nameLen ≤ _; rw [h.named.len]; simp; omega) f3 f4] at h1
  have e1 : ({ cr with nameBuf := some (pre ++ [c]) } : CharRefSt).nameLen = len := h.named.len
  have e2 : ({ cr with nameBuf := some (pre ++ [c]) } : CharRefSt).inAttr = b := h.named.attr
  rw [e1, e2, f5, f6, if_pos hk, pend_start] at h1
  have hinp : (pre ++ [c]) ++ post = s.drop 0 := by rw [h.split]; simp
  have hk' : pre.length + 1 + 1 ≤ s.length + 3 := by rw [h.split]; simp; omega
  exact resolves_mk o b h.steps (done_step o b hst h1) rfl hinp hk' (errsOk_nil M) (Or.inl rfl)

/-- a match that is delivered -/
theorem run_match_deliver (o : Opts) (b : Bool) {M : Mach} (hr : M.reconsume = false)
    (hst : StartState b M.state) {s pre : Str} {c : Char} {post : Str} {v : Nat × Nat} {len : Nat}
    {cr : CharRefSt} (h : Stopped o b M s pre c post (some v) len cr)
    (hk : ¬ legacyKeep b s[len - 1]? s[len]? = true) :
    ResolvesFrom o b M { inAttr := b } s (Spec.CharRef.nameChars v) len (s[len - 1]? != some ';') := by
  obtain ⟨f1, f2, f3, f4, f5, f6⟩ := stopped_match_facts h
  have h1 := named_last o hr h.named c post h.out
  rw [finishNamed_match o _ post { cr with nameBuf := some (pre ++ [c]) } (pre ++ [c]) (some c) v.1 v.2 rfl
      h.named.mt (by show 0 < cr.nameLen; rw [h.named.len]; exact f1)
      (by show cr.nameLen ≤ _; rw [h.named.len]; simp; omega) f3 f4] at h1
  have e1 : ({ cr with nameBuf := some (pre ++ [c]) } : CharRefSt).nameLen = len := h.named.len
  have e2 : ({ cr with nameBuf := some (pre ++ [c]) } : CharRefSt).inAttr = b := h.named.attr
  rw [e1, e2, f5, f6, if_neg hk] at h1
  have hinp : (pre ++ [c]).drop len ++ post = s.drop len := by
    have e : s = (pre ++ [c]) ++ post := by rw [h.split]; simp
    have hl : len ≤ (pre ++ [c]).length := by simp; omega
    rw [e]; exact (List.drop_append_of_le_length hl).symm
  have hk' : pre.length + 1 + 1 ≤ s.length + 3 := by rw [h.split]; simp; omega
  have hchars : (if (if v.2 = 0 then [Char.ofNat v.1] else [Char.ofNat v.1, Char.ofNat v.2]).isEmpty = true then ['&']
      else (if v.2 = 0 then [Char.ofNat v.1] else [Char.ofNat v.1, Char.ofNat v.2])) = Spec.CharRef.nameChars v := by
    unfold Spec.CharRef.nameChars
    split <;> rfl
  by_cases hsemi : s[len - 1]? = some ';'
  · rw [if_pos hsemi, pend_start, pend_setLf] at h1
    refine resolves_mk o b h.steps (done_step o b hst h1) hchars hinp hk' ?_ (Or.inr rfl)
    have : (s[len - 1]? != some ';') = false := by simp [hsemi]
    rw [this]; exact errsOk_nil M
  · rw [if_neg hsemi, pend_start, pend_emitErr, pend_setLf] at h1
    refine resolves_mk o b h.steps (done_step o b hst h1) hchars hinp hk' ?_ (Or.inr rfl)
    have : (s[len - 1]? != some ';') = true := by simp [hsemi]
    rw [this]; exact errsOk_one M _ ⟨_, rfl⟩

theorem literal_inj {e : Bool} {chars : Str} {n : Nat} {err : Bool}
    (h : Spec.CharRef.literal e = .resolved chars n err) : chars = ['&'] ∧ n = 0 ∧ err = e := by
  unfold Spec.CharRef.literal at h
  injection h with h1 h2 h3
  exact ⟨h1.symm, h2.symm, h3.symm⟩

theorem stopped_pre_alnum {o : Opts} {b : Bool} {M : Mach} {s pre : Str} {c : Char} {post : Str} {len : Nat}
    {cr : CharRefSt} (h : Stopped o b M s pre c post none len cr) : ∀ x ∈ pre, isAsciiAlnum x = true := by
  apply alnum_of_prefix_nokey
  · rcases h.named.inmap with e | e
    · rw [e]; rfl
    · exact e
  · cases hp : pre with
    | nil => rintro ⟨v, hv1, hv2⟩; simp [entityLookup, entityLookupN] at hv1; rw [← hv1] at hv2; simp at hv2
    | cons x xs =>
      have := h.best.2 pre.length (by simp [Walk.bestLen, hp]) (Nat.le_refl _)
      rw [List.take_length, hp] at this
      exact this

/-- **named references (decided by the text).** -/
theorem run_named (o : Opts) (b : Bool) {M : Mach} (hr : M.reconsume = false) (hst : StartState b M.state)
    (c0 : Char) (rest : Str) (hc0 : isAsciiAlnum c0 = true) (chars : Str) (n : Nat) (err : Bool)
    (hspec : Spec.CharRef.specNamed b (c0 :: rest) false = .resolved chars n err) :
    ResolvesFrom o b M { inAttr := b } (c0 :: rest) chars n err := by
  have hnp := isNamePrefix_false_of hspec
  rcases hw : Walk.walk [] none 0 (c0 :: rest) with ⟨nb', mt', len', dry⟩
  cases dry with
  | true =>
    have := walk_dry_lookup (c0 :: rest) [] none 0 nb' mt' len' hw (by simp)
    simp only [List.nil_append] at this
    rw [← isNamePrefix_eq] at this
    simp [this] at hnp
  | false =>
    obtain ⟨pre, c, post, cr, h⟩ := walk_stopped o b hr c0 rest hc0 nb' mt' len' hw
    cases mt' with
    | some v =>
      rw [specNamed_match b _ false len' v hnp h.longest] at hspec
      by_cases hk : legacyKeep b (c0 :: rest)[len' - 1]? (c0 :: rest)[len']? = true
      · rw [if_pos hk] at hspec
        obtain ⟨rfl, rfl, rfl⟩ := literal_inj hspec
        exact run_match_keep o b hr hst h hk
      · rw [if_neg hk] at hspec
        injection hspec with h1 h2 h3
        subst h1 h2 h3
        exact run_match_deliver o b hr hst h hk
    | none =>
      rw [specNamed_nomatch b _ false hnp h.longest] at hspec
      have hpa := stopped_pre_alnum h
      by_cases hc : isAsciiAlnum c = true
      · have hdw : (c0 :: rest).dropWhile isAsciiAlnum = post.dropWhile isAsciiAlnum := by
          rw [h.split]
          have : pre ++ c :: post = (pre ++ [c]) ++ post := by simp
          rw [this]
          apply dropWhile_append_all
          intro x hx
          simp only [List.mem_append, List.mem_singleton] at hx
          rcases hx with hx | rfl
          · exact hpa x hx
          · exact hc
        cases hd : post.dropWhile isAsciiAlnum with
        | nil =>
          rw [specAmbiguous_nil _ _ (hdw.trans hd)] at hspec
          simp at hspec
        | cons f post' =>
          rw [specAmbiguous_cons _ _ f post' (hdw.trans hd)] at hspec
          obtain ⟨rfl, rfl, rfl⟩ := literal_inj hspec
          exact run_nomatch_bogus o b hr hst h hc f post' hd
      · have hc' : isAsciiAlnum c = false := by simpa using hc
        have hdw : (c0 :: rest).dropWhile isAsciiAlnum = c :: post := by
          rw [h.split, dropWhile_append_all _ _ _ hpa]
          simp [hc']
        rw [specAmbiguous_cons _ _ c post hdw] at hspec
        obtain ⟨rfl, rfl, rfl⟩ := literal_inj hspec
        have hpre : pre ≠ [] := by
          intro e
          have := h.split
          rw [e] at this
          simp only [List.nil_append, List.cons.injEq] at this
          rw [← this.1, hc0] at hc'
          simp at hc'
        exact run_nomatch_other o b hr hst h hc' hpre

/-! ### numeric references -/

theorem digitPred_eq (base : Nat) (hb : base = 10 ∨ base = 16) :
    (fun c => (toDigit c base).isSome) = (fun c => (Spec.CharRef.digitVal base c).isSome) := by
  funext c; rw [toDigit_eq c base hb]

theorem digitFun_eq (base : Nat) (hb : base = 10 ∨ base = 16) :
    (fun c => toDigit c base) = Spec.CharRef.digitVal base := by
  funext c; rw [toDigit_eq c base hb]

/-- the register and latch after the digit loop stand for the value of the digits -/
theorem accum_value (base : Nat) (hb : base = 10 ∨ base = 16) (tw : Str) (cr : CharRefSt)
    (hnum : cr.num = (accum base (tw.filterMap (fun c => toDigit c base)) (0, false)).1)
    (hbig : cr.numTooBig = (accum base (tw.filterMap (fun c => toDigit c base)) (0, false)).2) :
    let v := Spec.CharRef.digitsValue base (tw.filterMap (Spec.CharRef.digitVal base))
    ((decide (cr.num > 0x10FFFF) || cr.numTooBig) = true ↔ v > 0x10FFFF) ∧ (v ≤ 0x10FFFF → cr.num = v) := by
  have hb' : 2 ≤ base ∧ base ≤ 16 := by rcases hb with rfl | rfl <;> omega
  have hd : ∀ d ∈ tw.filterMap (fun c => toDigit c base), d < base := by
    intro d hd
    rw [List.mem_filterMap] at hd
    obtain ⟨c, _, hc⟩ := hd
    rw [toDigit_eq c base hb] at hc
    exact digitVal_lt base hb c d hc
  have := C14_numeric_accumulator base hb' _ hd
  simp only at this
  rw [valueOf_eq, digitFun_eq base hb] at this
  rw [digitFun_eq base hb] at hnum hbig
  intro v
  rw [hnum, hbig]
  exact this

/-- the digits and what follows them (`s = # x? u`, the sub-tokenizer stands before `u` in state
`numeric base` with nothing accumulated) -/
theorem run_digits (o : Opts) (b : Bool) {M : Mach} (hr : M.reconsume = false) (hst : StartState b M.state)
    (s u : Str) (base : Nat) (hb : base = 10 ∨ base = 16) (hex : Option Char) (cr2 : CharRefSt) (k0 : Nat)
    (hs0 : Steps o (M.setCharRef (some { inAttr := b })) s (M.setCharRef (some cr2)) u k0) (hk0 : k0 ≤ 2)
    (hn : NumSt cr2 b base hex (0, false) false) (hsu : s = ('#' :: hex.toList) ++ u)
    (chars : Str) (n : Nat) (err : Bool)
    (hspec : Spec.CharRef.specDigits base (1 + hex.toList.length) u false = .resolved chars n err) :
    ResolvesFrom o b M { inAttr := b } s chars n err := by
  unfold Spec.CharRef.specDigits at hspec
  rw [← digitPred_eq base hb] at hspec
  dsimp only at hspec
  rw [drop_length_takeWhile] at hspec
  obtain ⟨cr3, hs3, hn3⟩ := digit_loop o hr b base hex u (0, false) false cr2 hn
  have hu : u = u.takeWhile (fun c => (toDigit c base).isSome) ++ u.dropWhile (fun c => (toDigit c base).isSome) :=
    List.takeWhile_append_dropWhile.symm
  generalize htw : u.takeWhile (fun c => (toDigit c base).isSome) = tw at hspec hs3 hn3 hu
  cases hdw : u.dropWhile (fun c => (toDigit c base).isSome) with
  | nil => simp [hdw] at hspec
  | cons f post =>
    have hf : toDigit f base = none := by
      have := dropWhile_head_false _ _ _ _ hdw
      simpa using this
    rw [hdw] at hs3 hu hspec
    simp only [List.isEmpty_cons, Bool.false_and, Bool.false_eq_true, ↓reduceIte, List.head?_cons] at hspec
    cases tw with
    | nil =>
      simp only [List.isEmpty_nil, ↓reduceIte] at hspec
      obtain ⟨rfl, rfl, rfl⟩ := literal_inj hspec
      simp only [List.isEmpty_nil, Bool.not_true, Bool.or_false, List.length_nil] at hn3 hs3
      have h1 := numeric_nodigits o hr hn3 f post hf
      rw [pend_start, pend_emitErr] at h1
      have hinp : ('#' :: hex.toList) ++ (f :: post) = s.drop 0 := by
        rw [hsu, hu]; rfl
      refine resolves_mk o b (hs0.trans hs3) (done_step o b hst h1) rfl hinp (by omega) ?_ (Or.inl rfl)
      exact errsOk_one M _ ⟨_, rfl⟩
    | cons d0 tw' =>
      simp only [List.isEmpty_cons, Bool.false_eq_true, ↓reduceIte] at hspec
      simp only [List.isEmpty_cons, Bool.not_false, Bool.or_true] at hn3
      have hs4 := numeric_to_semi o hr hn3 f post hf
      have hstep4 := (hs0.trans hs3).trans (Steps.one (setCR_charRef _ _) hs4)
      have h5 := semi_step o hr { cr3 with state := .numericSemicolon } f post rfl
      obtain ⟨hbig, hval⟩ := accum_value base hb (d0 :: tw') { cr3 with state := .numericSemicolon } hn3.num hn3.big
      have hlen : s.length = 1 + hex.toList.length + (d0 :: tw').length + (1 + post.length) := by
        rw [hsu, hu]; simp; omega
      have hkk : 1 + ((d0 :: tw').length + k0) + 1 ≤ s.length + 3 := by rw [hlen]; omega
      by_cases hsemi : f = ';'
      · subst hsemi
        simp only [beq_self_eq_true, ↓reduceIte] at hspec
        injection hspec with e1 e2 e3
        subst e1 e2 e3
        rw [if_pos rfl, finishNumericStatus_eq o _ post _ _ hbig hval] at h5
        have hinp : post = s.drop (1 + hex.toList.length + (d0 :: tw').length + 1) := by
          rw [hsu, hu]
          have e : ('#' :: hex.toList) ++ ((d0 :: tw') ++ ';' :: post) =
              (('#' :: hex.toList) ++ (d0 :: tw') ++ [';']) ++ post := by simp
          rw [e, List.drop_left' (by simp; omega)]
        cases herr : (Spec.CharRef.numericEnd (Spec.CharRef.digitsValue base
            ((d0 :: tw').filterMap (Spec.CharRef.digitVal base)))).2 with
        | true =>
          rw [herr, if_pos rfl, pend_start, pend_numericErr] at h5
          exact resolves_mk o b hstep4 (done_step o b hst h5) rfl hinp hkk
            (errsOk_one M _ (numErrTok_isErr o _)) (Or.inl rfl)
        | false =>
          rw [herr, if_neg (by simp), pend_start] at h5
          exact resolves_mk o b hstep4 (done_step o b hst h5) rfl hinp hkk (errsOk_nil M) (Or.inl rfl)
      · have hne : (some f == some ';') = false := by simpa using hsemi
        simp only [hne, Bool.false_eq_true, ↓reduceIte] at hspec
        injection hspec with e1 e2 e3
        subst e1 e2 e3
        rw [if_neg hsemi, finishNumericStatus_eq o _ (f :: post) _ _ hbig hval] at h5
        have hinp : f :: post = s.drop (1 + hex.toList.length + (d0 :: tw').length) := by
          rw [hsu, hu]
          have e : ('#' :: hex.toList) ++ ((d0 :: tw') ++ f :: post) =
              (('#' :: hex.toList) ++ (d0 :: tw')) ++ f :: post := by simp
          rw [e, List.drop_left' (by simp; omega)]
        cases herr : (Spec.CharRef.numericEnd (Spec.CharRef.digitsValue base
            ((d0 :: tw').filterMap (Spec.CharRef.digitVal base)))).2 with
        | true =>
          rw [herr, if_pos rfl, pend_start, pend_emitErr, pend_numericErr] at h5
          refine resolves_mk o b hstep4 (done_step o b hst h5) rfl hinp hkk ?_ (Or.inl rfl)
          obtain ⟨msg, hmsg⟩ := numErrTok_isErr o ({ cr3 with state := .numericSemicolon } : CharRefSt).num
          refine ⟨?_, by simp⟩
          intro t ht
          simp only [List.mem_cons, List.not_mem_nil, or_false] at ht
          rcases ht with rfl | rfl
          · exact ⟨msg, by rw [hmsg]⟩
          · exact ⟨_, rfl⟩
        | false =>
          rw [herr, if_neg (by simp), pend_start, pend_emitErr] at h5
          exact resolves_mk o b hstep4 (done_step o b hst h5) rfl hinp hkk
            (errsOk_one M _ ⟨_, rfl⟩) (Or.inl rfl)

theorem hexCond_true (c : Char) (rest : Str) (hx : c = 'x' ∨ c = 'X') :
    ((c :: rest).head? == some 'x' || (c :: rest).head? == some 'X') = true := by
  rcases hx with rfl | rfl <;> simp

theorem hexCond_false (c : Char) (rest : Str) (hx : ¬ (c = 'x' ∨ c = 'X')) :
    ((c :: rest).head? == some 'x' || (c :: rest).head? == some 'X') = false := by
  rw [Bool.eq_false_iff]
  intro h
  apply hx
  simp only [List.head?_cons, Bool.or_eq_true, beq_iff_eq, Option.some.injEq] at h
  exact h

/-- **numeric references (decided by the text).** -/
theorem run_numeric (o : Opts) (b : Bool) {M : Mach} (hr : M.reconsume = false) (hst : StartState b M.state)
    (t : Str) (chars : Str) (n : Nat) (err : Bool)
    (hspec : Spec.CharRef.specNumeric t false = .resolved chars n err) :
    ResolvesFrom o b M { inAttr := b } ('#' :: t) chars n err := by
  have hb0 := begin_hash o hr { inAttr := b } t rfl
  cases t with
  | nil => simp [Spec.CharRef.specNumeric, Spec.CharRef.specDigits] at hspec
  | cons c rest =>
    unfold Spec.CharRef.specNumeric at hspec
    by_cases hx : c = 'x' ∨ c = 'X'
    · rw [if_pos (hexCond_true c rest hx)] at hspec
      have h2 := octo_hex o hr { ({ inAttr := b } : CharRefSt) with state := .octothorpe } c rest rfl hx
      exact run_digits o b hr hst _ rest 16 (Or.inr rfl) (some c) _ 2
        ((Steps.one (setCR_charRef _ _) hb0).trans (Steps.one (setCR_charRef _ _) h2)) (by omega)
        ⟨rfl, rfl, rfl, rfl, rfl, rfl⟩ rfl chars n err hspec
    · rw [if_neg (by rw [hexCond_false c rest hx]; simp)] at hspec
      have hx' : c ≠ 'x' ∧ c ≠ 'X' := ⟨fun e => hx (Or.inl e), fun e => hx (Or.inr e)⟩
      have h2 := octo_dec o hr { ({ inAttr := b } : CharRefSt) with state := .octothorpe } c rest rfl hx'
      exact run_digits o b hr hst _ (c :: rest) 10 (Or.inl rfl) none _ 2
        ((Steps.one (setCR_charRef _ _) hb0).trans (Steps.one (setCR_charRef _ _) h2)) (by omega)
        ⟨rfl, rfl, rfl, rfl, rfl, rfl⟩ rfl chars n err hspec

/-- **every reference whose text decides the outcome.** -/
theorem run_resolves (o : Opts) (b : Bool) {M : Mach} (hr : M.reconsume = false) (hst : StartState b M.state)
    (s : Str) (chars : Str) (n : Nat) (err : Bool)
    (hspec : Spec.CharRef.specCharRef b s false = .resolved chars n err) :
    ResolvesFrom o b M { inAttr := b } s chars n err := by
  cases s with
  | nil => simp [Spec.CharRef.specCharRef] at hspec
  | cons c t =>
    simp only [Spec.CharRef.specCharRef, isAlnum_eq] at hspec
    by_cases hc : isAsciiAlnum c = true
    · rw [if_pos hc] at hspec
      exact run_named o b hr hst c t hc chars n err hspec
    · rw [if_neg hc] at hspec
      by_cases hh : c = '#'
      · subst hh
        rw [if_pos rfl] at hspec
        exact run_numeric o b hr hst t chars n err hspec
      · rw [if_neg hh] at hspec
        obtain ⟨rfl, rfl, rfl⟩ := literal_inj hspec
        exact run_none o b hr hst c t (by simpa using hc) hh

/-! ### references cut off by the end of input -/

/-- the text `s` is used up with the reference still pending (`k` steps, then `Stuck`);
`end_of_file` on that state delivers `chars` (`chars'` before the "empty means `&`" rule), gives
`s.drop n` back and reports an error iff `err` -/
def ResolvesAtEof (o : Opts) (M : Mach) (cr0 : CharRefSt) (s chars : Str) (n : Nat) (err : Bool) :
    Prop :=
  ∃ crm k errs lf cx chars', Steps o (M.setCharRef (some cr0)) s (M.setCharRef (some crm)) [] k ∧
    k ≤ s.length + 3 ∧
    crEof o (M.setCharRef (some crm)) [] crm = .ok (pend M errs lf cx, s.drop n, chars') ∧
    (if chars'.isEmpty then ['&'] else chars') = chars ∧ ErrsOk M errs err ∧ (lf = M.ignoreLf ∨ lf = false)

theorem eof_mk (o : Opts) {M : Mach} {cr0 : CharRefSt} {s : Str} {crm : CharRefSt} {k : Nat}
    (hsteps : Steps o (M.setCharRef (some cr0)) s (M.setCharRef (some crm)) [] k)
    {e : Out} {lf : Bool} {cx : Option CharRefSt} {chars' chars : Str} {i1 : Str} {cr1 : CharRefSt} {n : Nat}
    {err : Bool}
    (hlast : eofOnce o (M.setCharRef (some crm)) [] crm = .ok (pend M e lf cx, i1, cr1, .done chars'))
    (hchars : (if chars'.isEmpty then ['&'] else chars') = chars) (hi : i1 = s.drop n) (hk : k ≤ s.length + 3)
    (he : ErrsOk M e err) (hlf : lf = M.ignoreLf ∨ lf = false) : ResolvesAtEof o M cr0 s chars n err := by
  subst hi
  exact ⟨crm, k, e, lf, cx, chars', hsteps, hk, crEof_of_done o _ _ _ _ _ _ _ hlast, hchars, he, hlf⟩

/-- everything the walk knows when the text runs out inside the map -/
structure Dry (o : Opts) (b : Bool) (M : Mach) (s : Str) (mt : Option (Nat × Nat)) (len : Nat) (cr : CharRefSt) :
    Prop where
  inmap : (entityLookup s).isSome = true
  steps : Steps o (M.setCharRef (some { inAttr := b })) s (M.setCharRef (some cr)) [] (s.length + 1)
  named : NamedSt cr b s mt len
  best : Walk.Best s mt len
  longest : Spec.CharRef.longestName s = mt.map (fun v => (len, v))

theorem walk_dry (o : Opts) (b : Bool) {M : Mach} (hr : M.reconsume = false) (c0 : Char) (rest : Str)
    (hc0 : isAsciiAlnum c0 = true) (nb' : Str) (mt' : Option (Nat × Nat)) (len' : Nat)
    (hw : Walk.walk [] none 0 (c0 :: rest) = (nb', mt', len', true)) :
    ∃ cr, Dry o b M (c0 :: rest) mt' len' cr := by
  have hb0 := begin_alnum o hr { inAttr := b } c0 rest rfl hc0
  have hn0 : NamedSt { ({ inAttr := b } : CharRefSt) with state := .named, nameBuf := some [] } b [] none 0 :=
    ⟨rfl, rfl, rfl, rfl, rfl, Or.inl rfl⟩
  obtain ⟨cr, hs, hn⟩ := (named_loop o hr b (c0 :: rest) [] none 0 _ hn0 nb' mt' len' true hw).1 rfl
  obtain ⟨_, _, _, h4⟩ := Walk.walk_best (c0 :: rest) [] none 0 Walk.best_nil _ mt' len' true hw
  obtain ⟨hbest, e⟩ := h4 rfl
  simp only [List.nil_append] at e
  subst e
  have hin := walk_dry_lookup (c0 :: rest) [] none 0 _ mt' len' hw (by simp)
  simp only [List.nil_append] at hin
  refine ⟨cr, hin, ((Steps.one (setCR_charRef _ _) hb0).trans hs).cast (by simp), hn, hbest, ?_⟩
  exact longestName_of_best _ _ _ hbest.1 hbest.2

theorem dry_alnum {o : Opts} {b : Bool} {M : Mach} {s : Str} {len : Nat} {cr : CharRefSt}
    (h : Dry o b M s none len cr) (hne : s ≠ []) : ∀ x ∈ s, isAsciiAlnum x = true := by
  apply alnum_of_prefix_nokey _ h.inmap
  have := h.best.2 s.length (by
    simp only [Walk.bestLen]
    cases s with
    | nil => exact absurd rfl hne
    | cons x xs => simp) (Nat.le_refl _)
  rw [List.take_length] at this
  exact this

theorem dropWhile_all_nil {α : Type} (p : α → Bool) (l : List α) (h : ∀ x ∈ l, p x = true) :
    l.dropWhile p = [] := by
  have := dropWhile_append_all p l [] h
  simpa using this

/-- **named references cut off by the end of input.** -/
theorem eof_named (o : Opts) (b : Bool) {M : Mach} (hr : M.reconsume = false)
    (c0 : Char) (rest : Str) (hc0 : isAsciiAlnum c0 = true)
    (hspec : Spec.CharRef.specNamed b (c0 :: rest) false = .needMore) :
    ∃ chars n err, Spec.CharRef.specNamed b (c0 :: rest) true = .resolved chars n err ∧
      ResolvesAtEof o M { inAttr := b } (c0 :: rest) chars n err := by
  have hnpT : (!true && Spec.CharRef.isNamePrefix (c0 :: rest)) = false := rfl
  rcases hw : Walk.walk [] none 0 (c0 :: rest) with ⟨nb', mt', len', dry⟩
  cases dry with
  | true =>
    obtain ⟨cr, h⟩ := walk_dry o b hr c0 rest hc0 nb' mt' len' hw
    have hk : (c0 :: rest).length + 1 ≤ (c0 :: rest).length + 3 := by omega
    cases mt' with
    | none =>
      rw [specNamed_nomatch b _ true hnpT h.longest,
        specAmbiguous_nil _ true (dropWhile_all_nil _ _ (dry_alnum h (by simp)))]
      refine ⟨_, _, _, rfl, ?_⟩
      have h1 : eofOnce o (M.setCharRef (some cr)) [] cr = finishNamed o (M.setCharRef (some cr)) [] cr none := by
        simp only [eofOnce, h.named.st]
      rw [finishNamed_nomatch_eof o _ [] cr _ h.named.buf h.named.mt, pend_start] at h1
      exact eof_mk o h.steps h1 rfl (by simp) hk (errsOk_nil M) (Or.inl rfl)
    | some v =>
      obtain ⟨a1, a2, a3, a4⟩ := h.best.1 v rfl
      obtain ⟨v1, v2⟩ := key_valid _ v a3 a4
      rw [specNamed_match b _ true len' v hnpT h.longest]
      have h1 : eofOnce o (M.setCharRef (some cr)) [] cr = finishNamed o (M.setCharRef (some cr)) [] cr none := by
        simp only [eofOnce, h.named.st]
      rw [finishNamed_match o _ [] cr (c0 :: rest) none v.1 v.2 h.named.buf h.named.mt
        (by rw [h.named.len]; exact a1) (by rw [h.named.len]; exact a2) v1 v2, h.named.len, h.named.attr] at h1
      by_cases hkp : legacyKeep b (c0 :: rest)[len' - 1]? (c0 :: rest)[len']? = true
      · rw [if_pos hkp] at h1 ⊢
        rw [pend_start] at h1
        exact ⟨_, _, _, rfl, eof_mk o h.steps h1 rfl (by simp) hk (errsOk_nil M) (Or.inl rfl)⟩
      · rw [if_neg hkp] at h1 ⊢
        refine ⟨_, _, _, rfl, ?_⟩
        have hchars : (if (if v.2 = 0 then [Char.ofNat v.1] else [Char.ofNat v.1, Char.ofNat v.2]).isEmpty = true
            then ['&'] else (if v.2 = 0 then [Char.ofNat v.1] else [Char.ofNat v.1, Char.ofNat v.2])) =
            Spec.CharRef.nameChars v := by
          unfold Spec.CharRef.nameChars
          split <;> rfl
        by_cases hsemi : (c0 :: rest)[len' - 1]? = some ';'
        · rw [if_pos hsemi, pend_start, pend_setLf] at h1
          refine eof_mk o h.steps h1 hchars (by simp) hk ?_ (Or.inr rfl)
          have : ((c0 :: rest)[len' - 1]? != some ';') = false := by simp [hsemi]
          rw [this]; exact errsOk_nil M
        · rw [if_neg hsemi, pend_start, pend_emitErr, pend_setLf] at h1
          refine eof_mk o h.steps h1 hchars (by simp) hk ?_ (Or.inr rfl)
          have : ((c0 :: rest)[len' - 1]? != some ';') = true := by simp [hsemi]
          rw [this]; exact errsOk_one M _ ⟨_, rfl⟩
  | false =>
    obtain ⟨pre, c, post, cr, h⟩ := walk_stopped o b hr c0 rest hc0 nb' mt' len' hw
    have hnone : entityLookup (c0 :: rest) = none := by
      apply lookup_none_of_prefix (pre ++ [c]) _ (by simp) _ h.out
      rw [h.split]; exact ⟨post, by simp⟩
    have hnp : (!false && Spec.CharRef.isNamePrefix (c0 :: rest)) = false := by
      rw [isNamePrefix_eq, hnone]; rfl
    cases mt' with
    | some v =>
      rw [specNamed_match b _ false len' v hnp h.longest] at hspec
      split at hspec <;> simp [Spec.CharRef.literal] at hspec
    | none =>
      rw [specNamed_nomatch b _ false hnp h.longest] at hspec
      rw [specNamed_nomatch b _ true hnpT h.longest]
      have hpa := stopped_pre_alnum h
      by_cases hc : isAsciiAlnum c = true
      · have hdw : (c0 :: rest).dropWhile isAsciiAlnum = post.dropWhile isAsciiAlnum := by
          rw [h.split]
          have : pre ++ c :: post = (pre ++ [c]) ++ post := by simp
          rw [this]
          apply dropWhile_append_all
          intro x hx
          simp only [List.mem_append, List.mem_singleton] at hx
          rcases hx with hx | rfl
          · exact hpa x hx
          · exact hc
        cases hd : post.dropWhile isAsciiAlnum with
        | cons f post' =>
          rw [specAmbiguous_cons _ _ f post' (hdw.trans hd)] at hspec
          simp [Spec.CharRef.literal] at hspec
        | nil =>
          rw [specAmbiguous_nil _ true (hdw.trans hd)]
          refine ⟨_, _, _, rfl, ?_⟩
          obtain ⟨cr', hs, hb⟩ := nomatch_bogus_steps o b hr h hc
          rw [hd] at hs
          have htw : post.takeWhile isAsciiAlnum = post := by
            have := @List.takeWhile_append_dropWhile _ isAsciiAlnum post
            rw [hd, List.append_nil] at this
            exact this
          rw [htw] at hs hb
          have h1 : eofOnce o (M.setCharRef (some cr')) [] cr' =
              .ok (M.setCharRef (some cr'), (pre ++ [c] ++ post) ++ [], { cr' with nameBuf := none }, .done []) := by
            simp only [eofOnce, hb.st, hb.buf]
          rw [pend_start] at h1
          refine eof_mk o hs h1 rfl ?_ ?_ (errsOk_nil M) (Or.inl rfl)
          · rw [h.split]; simp
          · rw [h.split]; simp; omega
      · have hc' : isAsciiAlnum c = false := by simpa using hc
        have hdw : (c0 :: rest).dropWhile isAsciiAlnum = c :: post := by
          rw [h.split, dropWhile_append_all _ _ _ hpa]
          simp [hc']
        rw [specAmbiguous_cons _ _ c post hdw] at hspec
        simp [Spec.CharRef.literal] at hspec

/-- the digits cut off by the end of input -/
theorem eof_digits (o : Opts) (b : Bool) {M : Mach} (hr : M.reconsume = false)
    (s u : Str) (base : Nat) (hb : base = 10 ∨ base = 16) (hex : Option Char) (cr2 : CharRefSt) (k0 : Nat)
    (hs0 : Steps o (M.setCharRef (some { inAttr := b })) s (M.setCharRef (some cr2)) u k0) (hk0 : k0 ≤ 2)
    (hn : NumSt cr2 b base hex (0, false) false) (hsu : s = ('#' :: hex.toList) ++ u)
    (hspec : Spec.CharRef.specDigits base (1 + hex.toList.length) u false = .needMore) :
    ∃ chars n err, Spec.CharRef.specDigits base (1 + hex.toList.length) u true = .resolved chars n err ∧
      ResolvesAtEof o M { inAttr := b } s chars n err := by
  unfold Spec.CharRef.specDigits at hspec ⊢
  rw [← digitPred_eq base hb] at hspec ⊢
  dsimp only at hspec ⊢
  rw [drop_length_takeWhile] at hspec ⊢
  obtain ⟨cr3, hs3, hn3⟩ := digit_loop o hr b base hex u (0, false) false cr2 hn
  have hu : u = u.takeWhile (fun c => (toDigit c base).isSome) ++ u.dropWhile (fun c => (toDigit c base).isSome) :=
    List.takeWhile_append_dropWhile.symm
  generalize htw : u.takeWhile (fun c => (toDigit c base).isSome) = tw at hspec hs3 hn3 hu ⊢
  cases hdw : u.dropWhile (fun c => (toDigit c base).isSome) with
  | cons f post =>
    rw [hdw] at hspec
    simp only [List.isEmpty_cons, Bool.false_and, Bool.false_eq_true, ↓reduceIte] at hspec
    split at hspec
    · simp [Spec.CharRef.literal] at hspec
    · split at hspec <;> simp at hspec
  | nil =>
    rw [hdw] at hs3 hu
    simp only [List.append_nil] at hu
    simp only [List.isEmpty_nil, Bool.not_true, Bool.and_false, Bool.false_eq_true, ↓reduceIte, List.head?_nil]
    have hnum : ∃ acc, NumSt cr3 b base hex acc (!tw.isEmpty) ∧
        acc = accum base (tw.filterMap (fun c => toDigit c base)) (0, false) := ⟨_, by simpa using hn3, rfl⟩
    cases tw with
    | nil =>
      simp only [List.isEmpty_nil, ↓reduceIte]
      refine ⟨_, _, _, rfl, ?_⟩
      simp only [List.isEmpty_nil, Bool.not_true, Bool.or_false, List.length_nil] at hn3 hs3
      have h1 : eofOnce o (M.setCharRef (some cr3)) [] cr3 =
          .ok (emitErr (M.setCharRef (some cr3)) "Numeric character reference without digits",
               ('#' :: hex.toList) ++ [], cr3, .done []) := by
        simp only [eofOnce, hn3.st, hn3.seen, Bool.not_false, ↓reduceIte, unconsumeNumeric]
        rw [← hn3.hex]
        cases cr3.hexMarker <;> rfl
      rw [pend_start, pend_emitErr] at h1
      refine eof_mk o (hs0.trans hs3) h1 rfl ?_ ?_ (errsOk_one M _ ⟨_, rfl⟩) (Or.inl rfl)
      · rw [hsu, hu]; simp
      · omega
    | cons d0 tw' =>
      simp only [List.isEmpty_cons, Bool.false_eq_true, ↓reduceIte]
      have hne : ((none : Option Char) == some ';') = false := rfl
      simp only [hne, Bool.false_eq_true, ↓reduceIte]
      refine ⟨_, _, _, rfl, ?_⟩
      simp only [List.isEmpty_cons, Bool.not_false, Bool.or_true] at hn3
      obtain ⟨hbig, hval⟩ := accum_value base hb (d0 :: tw') cr3 hn3.num hn3.big
      have h1 : eofOnce o (M.setCharRef (some cr3)) [] cr3 =
          finishNumericStatus o (emitErr (M.setCharRef (some cr3)) "EOF in numeric character reference") [] cr3 := by
        simp only [eofOnce, hn3.st, hn3.seen, Bool.not_true, Bool.false_eq_true, ↓reduceIte]
      rw [finishNumericStatus_eq o _ [] _ _ hbig hval] at h1
      have hlen : s.length = 1 + hex.toList.length + (d0 :: tw').length := by
        rw [hsu, hu]; simp; omega
      have hinp : ([] : Str) = s.drop (1 + hex.toList.length + (d0 :: tw').length) := by
        rw [← hlen]; simp
      have hkk : (d0 :: tw').length + k0 ≤ s.length + 3 := by rw [hlen]; omega
      cases herr : (Spec.CharRef.numericEnd (Spec.CharRef.digitsValue base
          ((d0 :: tw').filterMap (Spec.CharRef.digitVal base)))).2 with
      | true =>
        rw [herr, if_pos rfl, pend_start, pend_emitErr, pend_numericErr] at h1
        refine eof_mk o (hs0.trans hs3) h1 rfl hinp hkk ?_ (Or.inl rfl)
        obtain ⟨msg, hmsg⟩ := numErrTok_isErr o cr3.num
        refine ⟨?_, by simp⟩
        intro t ht
        simp only [List.mem_cons, List.not_mem_nil, or_false] at ht
        rcases ht with rfl | rfl
        · exact ⟨msg, by rw [hmsg]⟩
        · exact ⟨_, rfl⟩
      | false =>
        rw [herr, if_neg (by simp), pend_start, pend_emitErr] at h1
        exact eof_mk o (hs0.trans hs3) h1 rfl hinp hkk (errsOk_one M _ ⟨_, rfl⟩) (Or.inl rfl)

/-- **numeric references cut off by the end of input.** -/
theorem eof_numeric (o : Opts) (b : Bool) {M : Mach} (hr : M.reconsume = false) (t : Str)
    (hspec : Spec.CharRef.specNumeric t false = .needMore) :
    ∃ chars n err, Spec.CharRef.specNumeric t true = .resolved chars n err ∧
      ResolvesAtEof o M { inAttr := b } ('#' :: t) chars n err := by
  have hb0 := begin_hash o hr { inAttr := b } t rfl
  cases t with
  | nil =>
    refine ⟨['&'], 0, true, by simp [Spec.CharRef.specNumeric, Spec.CharRef.specDigits, Spec.CharRef.literal], ?_⟩
    have h1 : eofOnce o (M.setCharRef (some { ({ inAttr := b } : CharRefSt) with state := .octothorpe })) []
        { ({ inAttr := b } : CharRefSt) with state := .octothorpe } =
        .ok (emitErr (M.setCharRef (some { ({ inAttr := b } : CharRefSt) with state := .octothorpe }))
              "EOF after '#' in character reference", ['#'],
             { ({ inAttr := b } : CharRefSt) with state := .octothorpe }, .done []) := rfl
    rw [pend_start, pend_emitErr] at h1
    exact eof_mk o (Steps.one (setCR_charRef _ _) hb0) h1 rfl rfl (by simp) (errsOk_one M _ ⟨_, rfl⟩) (Or.inl rfl)
  | cons c rest =>
    unfold Spec.CharRef.specNumeric at hspec ⊢
    by_cases hx : c = 'x' ∨ c = 'X'
    · rw [if_pos (hexCond_true c rest hx)] at hspec ⊢
      have h2 := octo_hex o hr { ({ inAttr := b } : CharRefSt) with state := .octothorpe } c rest rfl hx
      exact eof_digits o b hr _ rest 16 (Or.inr rfl) (some c) _ 2
        ((Steps.one (setCR_charRef _ _) hb0).trans (Steps.one (setCR_charRef _ _) h2)) (by omega)
        ⟨rfl, rfl, rfl, rfl, rfl, rfl⟩ rfl hspec
    · rw [if_neg (by rw [hexCond_false c rest hx]; simp)] at hspec ⊢
      have hx' : c ≠ 'x' ∧ c ≠ 'X' := ⟨fun e => hx (Or.inl e), fun e => hx (Or.inr e)⟩
      have h2 := octo_dec o hr { ({ inAttr := b } : CharRefSt) with state := .octothorpe } c rest rfl hx'
      exact eof_digits o b hr _ (c :: rest) 10 (Or.inl rfl) none _ 2
        ((Steps.one (setCR_charRef _ _) hb0).trans (Steps.one (setCR_charRef _ _) h2)) (by omega)
        ⟨rfl, rfl, rfl, rfl, rfl, rfl⟩ rfl hspec

/-- **every reference cut off by the end of input.** -/
theorem eof_resolves (o : Opts) (b : Bool) {M : Mach} (hr : M.reconsume = false) (s : Str)
    (hspec : Spec.CharRef.specCharRef b s false = .needMore) :
    ∃ chars n err, Spec.CharRef.specCharRef b s true = .resolved chars n err ∧
      ResolvesAtEof o M { inAttr := b } s chars n err := by
  cases s with
  | nil =>
    refine ⟨['&'], 0, false, rfl, ?_⟩
    have h1 : eofOnce o (M.setCharRef (some { inAttr := b })) [] { inAttr := b } =
        .ok (M.setCharRef (some { inAttr := b }), [], { inAttr := b }, .done []) := rfl
    rw [pend_start] at h1
    exact eof_mk o (Steps.refl _ _) h1 rfl rfl (by simp) (errsOk_nil M) (Or.inl rfl)
  | cons c t =>
    simp only [Spec.CharRef.specCharRef, isAlnum_eq] at hspec ⊢
    by_cases hc : isAsciiAlnum c = true
    · rw [if_pos hc] at hspec ⊢
      exact eof_named o b hr c t hc hspec
    · rw [if_neg hc] at hspec ⊢
      by_cases hh : c = '#'
      · subst hh
        rw [if_pos rfl] at hspec ⊢
        exact eof_numeric o b hr t hspec
      · rw [if_neg hh] at hspec
        simp [Spec.CharRef.literal] at hspec

end H5V.Props.C14
