import H5V.Lemmas.HtmlTBSplitChars
import H5V.Props.C06
/-!
C03 lifted to the tree — layer 3b: `process_to_completion` on character tokens terminates within its
fuel, and its result does not depend on the fuel: every dispatch either consumes a token of the queue
(`Done`), or turns a `NotSplit` token into a run (`SplitWhitespace`), or reprocesses the same token in a
mode of lower `rank`.
-/
namespace H5V.Lemmas.TBSplit
open H5V.Model.Dom (Id QualName Attr NodeOrText SinkOp Output ElementFlags QuirksMode Dom)
open H5V.Model.HtmlTok (TagKind RawKind)
open H5V.Model.HtmlTB
open H5V.Props.C06 (C06_split_run_nonempty C06_split_run_concat)

/-- unary use of a `RespQ` lemma: on a `Good` state the answer satisfies the postcondition and the
new state is `Good` -/
theorem RespQ.post {α : Type} {Q : α → Prop} {m : M α} (h : RespQ Q m) {s : State} (hg : Good s) {a : α} {s' : State}
    (hs : m s = .ok (a, s')) : Q a ∧ Good s' := by
  have := h s s hg.sim
  rw [hs] at this
  exact ⟨this.2.1, this.2.2.good⟩

/-- a non-empty character token -/
def CT (t : Token) : Prop := ∃ st x, t = .chars st x ∧ x ≠ []

theorem CT.tokOK {t : Token} (h : CT t) : TokOK t := by
  obtain ⟨st, x, rfl, hx⟩ := h; exact hx

/-- the answer `charsFin k st x` gives -/
def finRes (k : CKind) (st : SplitStatus) (x : Str) : ProcessResult :=
  match k with
  | .split => .splitWhitespace x
  | .re m => .reprocess m (.chars st x)
  | _ => .done

theorem FinRes.eq {k : CKind} {st : SplitStatus} {x : Str} {r : ProcessResult} (h : FinRes k st x r) :
    r = finRes k st x := by
  cases k <;> exact h

theorem isForeignChars_run (s : State) :
    (∃ e, isForeignChars s = .error e) ∨ ∃ b tr, isForeignChars s = .ok (b, withTr s tr) :=
  (isForeign_q _).run s

theorem good_withTr {s : State} (h : Good s) (tr : List (SinkOp × Output)) : Good (withTr s tr) := ⟨h.af, h.pend⟩

theorem dPre_post {s : State} (hg : Good s) {st : SplitStatus} {k : CKind} {s' : State}
    (h : dPre st s = .ok (k, s')) : DOK s.mode st k ∧ Good s' := by
  unfold dPre at h
  rw [bind_apply] at h
  rcases isForeignChars_run s with ⟨e, he⟩ | ⟨b, tr, hb⟩
  · rw [he] at h; cases h
  · rw [hb] at h
    cases b with
    | true =>
      simp only [if_true, pure_apply] at h
      cases h
      exact ⟨trivial, good_withTr hg tr⟩
    | false =>
      simp only [Bool.false_eq_true, if_false] at h
      rw [bind_apply, getS_apply] at h
      have := (charsPre_ok (withTr s tr).mode st).post (good_withTr hg tr) h
      exact ⟨this.1.dok, this.2⟩

/-- **one dispatch of a character token** -/
theorem D_chars_step {s : State} (hg : Good s) (st : SplitStatus) {x : Str} (hx : x ≠ []) :
    (∃ e, D (.chars st x) s = .error e) ∨
    ∃ k s1, Good s1 ∧ DOK s.mode st k ∧ D (.chars st x) s = .ok (finRes k st x, s1) := by
  rw [D_chars_eq, bind_apply]
  cases hp : dPre st s with
  | error e => exact Or.inl ⟨e, rfl⟩
  | ok p =>
    obtain ⟨k, s0⟩ := p
    obtain ⟨hk, hg0⟩ := dPre_post hg hp
    show (∃ e, charsFin k st x s0 = .error e) ∨ _
    cases hf : charsFin k st x s0 with
    | error e => exact Or.inl ⟨e, rfl⟩
    | ok q =>
      obtain ⟨r, s1⟩ := q
      obtain ⟨hr, hg1⟩ := (charsFin_resp k st x hx).post hg0 hf
      refine Or.inr ⟨k, s1, hg1, hk, ?_⟩
      show charsFin k st x s0 = _
      rw [hf, hr.eq]

/-! ### the measure -/

def tokLen : Token → Nat
  | .chars _ x => x.length
  | _ => 0

def totLen : List Token → Nat
  | [] => 0
  | t :: rest => tokLen t + totLen rest

def splitBonus : Token → Nat
  | .chars .notSplit _ => 8
  | _ => 0

def mu (s : State) (t : Token) (more : List Token) : Nat :=
  16 * (tokLen t + totLen more) + splitBonus t + rank s.mode

theorem rank_le (m : Mode) : rank m ≤ 6 := by cases m <;> decide
theorem splitBonus_le (t : Token) : splitBonus t ≤ 8 := by
  unfold splitBonus; split <;> omega

theorem totLen_append (l1 l2 : List Token) : totLen (l1 ++ l2) = totLen l1 + totLen l2 := by
  induction l1 with
  | nil => simp [totLen]
  | cons a t ih => simp only [List.cons_append, totLen, ih]; omega

theorem CT.len_pos {t : Token} (h : CT t) : 0 < tokLen t := by
  obtain ⟨st, x, rfl, hx⟩ := h
  exact List.length_pos_iff.mpr hx

/-- **fuel independence and the shape of the answer** for queues of character tokens -/
theorem ptc_chars_fuel : ∀ (n : Nat) (s : State) (t : Token) (more : List Token) (f f' : Nat),
    Good s → CT t → (∀ t' ∈ more, CT t') → mu s t more < n → n ≤ f → n ≤ f' →
    processToCompletion f t more s = processToCompletion f' t more s ∧
    ∀ r s', processToCompletion f t more s = .ok (r, s') → r = .continue_ ∧ Good s'
  | 0, _, _, _, _, _, _, _, _, h, _, _ => by omega
  | n + 1, s, t, more, f, f', hg, ht, hmore, hmu, hf, hf' => by
    obtain ⟨f0, rfl⟩ : ∃ f0, f = f0 + 1 := ⟨f - 1, by omega⟩
    obtain ⟨f0', rfl⟩ : ∃ f0', f' = f0' + 1 := ⟨f' - 1, by omega⟩
    obtain ⟨st, x, rfl, hx⟩ := ht
    rw [ptc_succ, ptc_succ, bind_apply, bind_apply]
    rcases D_chars_step hg st hx with ⟨e, he⟩ | ⟨k, s1, hg1, hk, hd⟩
    · rw [he]
      exact ⟨rfl, fun r s' h => by cases h⟩
    · rw [hd]
      -- the three kinds of answers
      have hlen : 0 < x.length := List.length_pos_iff.mpr hx
      cases k with
      | split =>
        have hst : st = .notSplit := hk
        subst hst
        simp only [finRes, K]
        cases hpop : popFrontCharRun x with
        | none => exact ⟨rfl, fun r s' h => by cases h; exact ⟨rfl, hg1⟩⟩
        | some v =>
          obtain ⟨first, isWs, rest⟩ := v
          have hne := C06_split_run_nonempty hpop
          have hcat := (C06_split_run_concat hpop).1
          have hl : first.length + rest.length = x.length := by rw [← hcat, List.length_append]
          simp only []
          refine ptc_chars_fuel n s1 _ _ f0 f0' hg1 ⟨_, first, rfl, hne⟩ ?_ ?_ (by omega) (by omega)
          · intro t' ht'
            split at ht'
            · rename_i hr
              rcases List.mem_append.mp ht' with h | h
              · exact hmore t' h
              · simp at h; subst h
                exact ⟨_, rest, rfl, by intro h0; subst h0; simp at hr⟩
            · exact hmore t' ht'
          · have hb : splitBonus (Token.chars (if isWs = true then SplitStatus.whitespace else .notWhitespace) first) = 0 := by
              cases isWs <;> rfl
            have hr := rank_le s1.mode
            have htot : totLen (if rest.length > 0 then more ++ [Token.chars .notSplit rest] else more) =
                totLen more + rest.length := by
              split
              · rw [totLen_append]; simp [totLen, tokLen]
              · have : rest.length = 0 := by omega
                omega
            have hb0 : splitBonus (Token.chars .notSplit x) = 8 := rfl
            simp only [mu, tokLen] at hmu ⊢
            rw [hb, htot]
            rw [hb0] at hmu
            omega
      | re m' =>
        have hk' : rank m' < rank s.mode := hk
        simp only [finRes, K, bind_apply, setMode, modS_apply]
        refine ptc_chars_fuel n { s1 with mode := m' } _ _ f0 f0' ⟨hg1.af, hg1.pend⟩ ⟨st, x, rfl, hx⟩ hmore ?_
          (by omega) (by omega)
        simp only [mu] at hmu ⊢
        omega
      | drop | fa | ffa | body _ | pend =>
        all_goals
          simp only [finRes, K, Bool.false_eq_true, if_false]
          cases more with
          | nil => exact ⟨rfl, fun r s' h => by cases h; exact ⟨rfl, hg1⟩⟩
          | cons t2 rest =>
            have ht2 := hmore t2 (List.mem_cons_self ..)
            refine ptc_chars_fuel n s1 t2 rest f0 f0' hg1 ht2 (fun t' h => hmore t' (List.mem_cons_of_mem _ h)) ?_
              (by omega) (by omega)
            have h1 := rank_le s1.mode
            have h2 := splitBonus_le t2
            simp only [mu, totLen, tokLen] at hmu ⊢
            omega

/-- the fuel `process_token` hands over is more than the measure -/
theorem mu_lt_ptcFuel (s : State) (st : SplitStatus) (x : Str) :
    mu s (.chars st x) [] < ptcFuel s (.chars st x) := by
  have h1 := rank_le s.mode
  have h2 := splitBonus_le (.chars st x)
  simp only [mu, ptcFuel, tokLen, totLen, tokenCharLen]
  omega

end H5V.Lemmas.TBSplit
