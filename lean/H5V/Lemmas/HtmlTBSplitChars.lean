import H5V.Lemmas.HtmlTBSplitActions
import H5V.Lemmas.HtmlTBSplitQuery
/-!
C03 lifted to the tree — layer 3a: what the rules do with a character token, as a *skeleton*:
`step mode (.chars st x) = charsPre mode st >>= fun k => charsFin k st x` where `charsPre` does not see
the text and answers a `CKind` (split / drop / reprocess in another mode / one of three text-consuming
terminal actions), and `charsFin` is the only place the text enters.
-/
namespace H5V.Lemmas.TBSplit
set_option linter.unusedSimpArgs false
open H5V.Model.Dom (Id QualName Attr NodeOrText SinkOp Output ElementFlags QuirksMode Dom)
open H5V.Model.HtmlTok (TagKind RawKind)
open H5V.Model.HtmlTB

/-- what a mode does with a character token -/
inductive CKind
  | split                 -- `SplitWhitespace`
  | drop                  -- ignored (`Done`; at most a parse error)
  | re (m : Mode)         -- `Reprocess(m, token)`
  | fa                    -- `append_text`
  | ffa                   -- foreign content: frameset-ok, `append_text`
  | body (foster : Bool)  -- the in-body rule: reconstruct, frameset-ok, `append_text` (foster parented or not)
  | pend                  -- in table text: pushed on `pending_table_text`
deriving DecidableEq, Repr

/-- `if any_not_whitespace(text) { frameset_ok = false }` -/
def fOk (x : Str) : M Unit := do
  if anyNotWhitespace x then setFramesetOk false

/-- the text-consuming part -/
def charsFin (k : CKind) (st : SplitStatus) (x : Str) : M ProcessResult :=
  match k with
  | .split => pure (.splitWhitespace x)
  | .drop => pure .done
  | .re m => pure (.reprocess m (.chars st x))
  | .fa => appendText x
  | .ffa => do fOk x; appendText x
  | .body false => stepInBody (.chars st x)
  | .body true => fosterParentInBody (.chars st x)
  | .pend => do
    modS fun s => { s with pendingTableText := s.pendingTableText ++ [(st, x)] }
    pure .done

/-- `process_chars_in_table` without the token -/
def tablePre : M CKind := do
  if ← currentNodeIn tableOuterChars then
    if !(← getS).pendingTableText.isEmpty then
      panicAt "assert" "mod.rs:1250" "assert!(self.pending_table_text.borrow().is_empty())"
    modS fun s => { s with origMode := some s.mode }
    pure (.re .inTableText)
  else
    parseError "Unexpected characters in table"
    pure (.body true)

/-- the text-independent part, mode by mode (the `CharacterTokens` arms of rules.rs) -/
def charsPre (mode : Mode) (st : SplitStatus) : M CKind :=
  match mode, st with
  | .initial, .notSplit => pure .split
  | .initial, .whitespace => pure .drop
  | .initial, .notWhitespace => do
    if !(← getS).opts.iframeSrcdoc then
      let _ ← unexpected
      setQuirksMode .quirks
    pure (.re .beforeHtml)
  | .beforeHtml, .notSplit => pure .split
  | .beforeHtml, .whitespace => pure .drop
  | .beforeHtml, .notWhitespace => do
    createRoot []
    pure (.re .beforeHead)
  | .beforeHead, .notSplit => pure .split
  | .beforeHead, .whitespace => pure .drop
  | .beforeHead, .notWhitespace => do
    let h ← insertPhantom "head"
    modS fun s => { s with headElem := some h }
    pure (.re .inHead)
  | .inHead, .notSplit => pure .split
  | .inHead, .whitespace => pure .fa
  | .inHead, .notWhitespace => do
    let _ ← pop
    pure (.re .afterHead)
  | .inHeadNoscript, .notSplit => pure .split
  | .inHeadNoscript, .whitespace => pure .fa
  | .inHeadNoscript, .notWhitespace => do
    let _ ← unexpected
    let _ ← pop
    pure (.re .inHead)
  | .afterHead, .notSplit => pure .split
  | .afterHead, .whitespace => pure .fa
  | .afterHead, .notWhitespace => do
    let _ ← insertPhantom "body"
    pure (.re .inBody)
  | .inBody, _ => pure (.body false)
  | .text, _ => pure .fa
  | .inTable, _ => tablePre
  | .inTableBody, _ => tablePre
  | .inRow, _ => tablePre
  | .inTableText, _ => pure .pend
  | .inCaption, _ => pure (.body false)
  | .inCell, _ => pure (.body false)
  | .inTemplate, _ => pure (.body false)
  | .inColumnGroup, .notSplit => pure .split
  | .inColumnGroup, .whitespace => pure .fa
  | .inColumnGroup, .notWhitespace => do
    if ← currentNodeNamed "colgroup" then
      let _ ← pop
      pure (.re .inTable)
    else
      let _ ← unexpected
      pure .drop
  | .afterBody, .notSplit => pure .split
  | .afterBody, .whitespace => pure (.body false)
  | .afterBody, .notWhitespace => do
    let _ ← unexpected
    pure (.re .inBody)
  | .inFrameset, .notSplit => pure .split
  | .inFrameset, .whitespace => pure .fa
  | .inFrameset, .notWhitespace => do
    let _ ← unexpected
    pure .drop
  | .afterFrameset, .notSplit => pure .split
  | .afterFrameset, .whitespace => pure .fa
  | .afterFrameset, .notWhitespace => do
    let _ ← unexpected
    pure .drop
  | .afterAfterBody, .notSplit => pure .split
  | .afterAfterBody, .whitespace => pure (.body false)
  | .afterAfterBody, .notWhitespace => do
    let _ ← unexpected
    pure (.re .inBody)
  | .afterAfterFrameset, .notSplit => pure .split
  | .afterAfterFrameset, .whitespace => pure (.body false)
  | .afterAfterFrameset, .notWhitespace => do
    let _ ← unexpected
    pure .drop

theorem unexpected_eq : unexpected = (do parseError "Unexpected token"; pure .done) := rfl

theorem processCharsInTable_eq (st : SplitStatus) (x : Str) :
    processCharsInTable (.chars st x) = tablePre >>= fun k => charsFin k st x := by
  unfold processCharsInTable tablePre
  simp only [bind_assoc, pure_bind]
  congr 1
  funext b
  cases b
  · simp only [Bool.false_eq_true, if_false, bind_assoc, pure_bind]; rfl
  · simp only [if_true, bind_assoc, pure_bind]
    congr 1
    funext s
    split <;> simp only [bind_assoc, pure_bind, charsFin] <;> rfl

/-- **the skeleton** -/
theorem step_chars_eq (mode : Mode) (st : SplitStatus) (x : Str) :
    step mode (.chars st x) = charsPre mode st >>= fun k => charsFin k st x := by
  cases mode <;> cases st <;>
    first
    | rfl
    | (simp only [step, stepInTable, stepInTableBody, stepInRow, charsPre]; exact processCharsInTable_eq _ _)
    | (simp only [step, charsPre, stepInitial, stepBeforeHtml, stepBeforeHead, stepInHead, stepInHeadNoscript,
        stepAfterHead, stepText, stepInTableText, stepInCaption, stepInCell, stepInTemplate, stepInColumnGroup,
        stepAfterBody, stepInFrameset, stepAfterFrameset, stepAfterAfterBody, stepAfterAfterFrameset,
        charsFin, bind_assoc, pure_bind, unexpected_eq] <;>
       first
       | rfl
       | (congr 1; funext _; split <;> simp only [bind_assoc, pure_bind]))

theorem stepForeign_chars_eq (st : SplitStatus) (x : Str) :
    stepForeign (.chars st x) = charsFin .ffa st x := by
  simp only [stepForeign, charsFin, fOk]
  cases anyNotWhitespace x <;> simp

/-- the in-body rule for a character token -/
theorem stepInBody_chars_eq (st : SplitStatus) (x : Str) :
    stepInBody (.chars st x) = (do reconstructActiveFormattingElements; fOk x; appendText x) := by
  simp only [stepInBody, fOk]
  cases anyNotWhitespace x <;> simp

/-! ### the dispatch of `process_to_completion` -/

/-- `if self.is_foreign(&token) { self.step_foreign(token) } else { self.step(mode, token) }` -/
def D (t : Token) : M ProcessResult := do
  if ← isForeign t then stepForeign t else step (← getS).mode t

/-- the `match result` of `process_to_completion` -/
def K (fuel : Nat) (token : Token) (more : List Token) (result : ProcessResult) : M SinkResult :=
  let shouldAck : Bool := match token with
    | .tag t => t.selfClosing && t.kind == .startTag
    | _ => false
  match result with
  | .done => do
    if shouldAck then parseError "Unacknowledged self-closing tag"
    match more with
    | [] => pure .continue_
    | t :: rest => processToCompletion fuel t rest
  | .doneAckSelfClosing =>
    match more with
    | [] => pure .continue_
    | t :: rest => processToCompletion fuel t rest
  | .reprocess m t => do
    setMode m
    processToCompletion fuel t more
  | .reprocessForeign t => processToCompletion fuel t more
  | .splitWhitespace buf =>
    match popFrontCharRun buf with
    | none => pure .continue_
    | some (first, isWs, rest) =>
      let status := if isWs then SplitStatus.whitespace else .notWhitespace
      let more := if rest.length > 0 then more ++ [.chars .notSplit rest] else more
      processToCompletion fuel (.chars status first) more
  | .script node => do
    if !more.isEmpty then panicAt "assert" "mod.rs:393" "assert!(more_tokens.is_empty())"
    pure (.script node)
  | .toPlaintext => do
    if !more.isEmpty then panicAt "assert" "mod.rs:397" "assert!(more_tokens.is_empty())"
    pure .plaintext
  | .toRawData k => do
    if !more.isEmpty then panicAt "assert" "mod.rs:401" "assert!(more_tokens.is_empty())"
    pure (.rawData k)
  | .encodingIndicator e => pure (.encodingIndicator e)

theorem ptc_succ (fuel : Nat) (token : Token) (more : List Token) :
    processToCompletion (fuel + 1) token more = D token >>= K fuel token more := by
  simp only [processToCompletion, D, bind_assoc]
  congr 1
  funext b
  cases b
  · simp only [Bool.false_eq_true, if_false, bind_assoc]
    rfl
  · simp only [if_true]
    rfl

theorem ptc_zero (token : Token) (more : List Token) :
    processToCompletion 0 token more = fuelOut "process_to_completion" := rfl

/-- "is foreign" for a character token (the text is not looked at) -/
def isForeignChars : M Bool := isForeign (.chars .notSplit [])

theorem isForeign_chars (st : SplitStatus) (x : Str) : isForeign (.chars st x) = isForeignChars := rfl

/-- the text-independent part of the dispatch for a character token -/
def dPre (st : SplitStatus) : M CKind := do
  if ← isForeignChars then pure .ffa else charsPre (← getS).mode st

/-- **the dispatch of a character token**: a text-independent prelude, then `charsFin` -/
theorem D_chars_eq (st : SplitStatus) (x : Str) :
    D (.chars st x) = dPre st >>= fun k => charsFin k st x := by
  simp only [D, dPre, isForeign_chars, bind_assoc]
  congr 1
  funext b
  cases b
  · simp only [Bool.false_eq_true, if_false, bind_assoc, step_chars_eq]
  · simp only [if_true, pure_bind, stepForeign_chars_eq]

/-! ### the skeleton respects `Sim` -/

theorem pendEmpty_eq {l1 l2 : List (SplitStatus × Str)} (h : PendRel l1 l2) : l1.isEmpty = l2.isEmpty := by
  have key : ∀ {a b : List (SplitStatus × Str)}, (∀ p ∈ b, p.2 ≠ []) → a.flatMap (·.2) = b.flatMap (·.2) → a = [] → b = [] := by
    intro a b hb hc ha
    subst ha
    cases b with
    | nil => rfl
    | cons p rest =>
      have hp := hb p (List.mem_cons_self ..)
      simp only [List.flatMap_nil, List.flatMap_cons] at hc
      have : p.2 = [] := (List.append_eq_nil_iff.mp hc.symm).1
      exact (hp this).elim
  cases h1 : l1 with
  | nil =>
    have := key h.ne2 h.cat h1
    rw [this]
  | cons a as =>
    cases h2 : l2 with
    | nil => have := key h.ne1 h.cat.symm h2; rw [h1] at this; cases this
    | cons b bs => rfl

/-- reading the state without the stability side condition -/
theorem respQ_getS_bind' {β : Type} {Q : β → Prop} {f : State → M β}
    (h : ∀ s t, Sim s t → RelR Q (f s s) (f t t)) : RespQ Q (getS >>= f) := by
  intro s t hs
  rw [bind_apply, bind_apply, getS_apply, getS_apply]
  exact h s t hs

theorem tablePre_resp : Resp tablePre := by
  unfold tablePre
  refine respQ_bind (P := fun _ => True) (currentNodeIn_resp _) ?_
  intro b _
  refine respQ_ite (fun _ => ?_) (fun _ => ?_)
  · refine respQ_getS_bind' ?_
    intro s t hst
    have he := pendEmpty_eq hst.pend
    have hr : Resp (do
        if !s.pendingTableText.isEmpty then
          panicAt "assert" "mod.rs:1250" "assert!(self.pending_table_text.borrow().is_empty())"
        modS fun s => { s with origMode := some s.mode }
        pure (CKind.re .inTableText) : M CKind) := by resp_auto
    have := hr s t hst
    rw [he] at this ⊢
    exact this
  · resp_auto
macro_rules | `(tactic| resp_lemma) => `(tactic| with_reducible exact tablePre_resp)

def rank : Mode → Nat
  | .initial => 6 | .beforeHtml => 5 | .beforeHead => 4 | .inHeadNoscript => 4 | .inHead => 3
  | .afterHead => 2 | .inColumnGroup => 2 | .inTable => 1 | .inTableBody => 1 | .inRow => 1
  | .afterBody => 1 | .afterAfterBody => 1 | _ => 0

/-- what `charsPre mode st` can answer -/
def KOK (m : Mode) (st : SplitStatus) : CKind → Prop
  | .re m' => rank m' < rank m
  | .split => st = .notSplit
  | .ffa => False
  | _ => True

macro_rules | `(tactic| resp_side) => `(tactic| (show rank _ < rank _; decide))

theorem tablePre_ok (m : Mode) (st : SplitStatus) (hm : 0 < rank m) : RespQ (KOK m st) tablePre :=
  respQ_weaken (P := fun k => k = .re .inTableText ∨ k = .body true)
    (by
      unfold tablePre
      refine respQ_bind (P := fun _ => True) (currentNodeIn_resp _) ?_
      intro b _
      refine respQ_ite (fun _ => ?_) (fun _ => ?_)
      · refine respQ_getS_bind' ?_
        intro s t hst
        have he := pendEmpty_eq hst.pend
        have hr : RespQ (fun k => k = .re .inTableText ∨ k = .body true) (do
            if !s.pendingTableText.isEmpty then
              panicAt "assert" "mod.rs:1250" "assert!(self.pending_table_text.borrow().is_empty())"
            modS fun s => { s with origMode := some s.mode }
            pure (CKind.re .inTableText) : M CKind) := by resp_auto
        have := hr s t hst
        rw [he] at this ⊢
        exact this
      · resp_auto)
    (by
      intro k hk
      rcases hk with rfl | rfl
      · exact hm
      · trivial)

theorem charsPre_ok (m : Mode) (st : SplitStatus) : RespQ (KOK m st) (charsPre m st) := by
  cases m <;> cases st <;>
    first
    | exact tablePre_ok _ _ (by decide)
    | (simp only [charsPre]; resp_auto)

theorem fOk_resp (x : Str) : Resp (fOk x) := by
  unfold fOk; resp_auto
macro_rules | `(tactic| resp_lemma) => `(tactic| with_reducible exact fOk_resp _)

theorem stepInBody_chars_done (st : SplitStatus) (x : Str) : RespQ (· = .done) (stepInBody (.chars st x)) := by
  rw [stepInBody_chars_eq]; resp_auto

theorem fosterParentInBody_chars_done (st : SplitStatus) (x : Str) :
    RespQ (· = .done) (fosterParentInBody (.chars st x)) := by
  unfold fosterParentInBody
  refine respQ_bind (P := fun _ => True) (by resp_auto) ?_
  intro _ _
  refine respQ_bind (P := (· = .done)) (stepInBody_chars_done st x) ?_
  intro r hr
  subst hr
  resp_auto

theorem cns_append (l1 l2 : List (SplitStatus × Str)) : cns (l1 ++ l2) = (cns l1 || cns l2) := by
  simp [cns, List.any_append]

theorem PendRel.append {l1 l2 m1 m2 : List (SplitStatus × Str)} (h : PendRel l1 l2) (h' : PendRel m1 m2) :
    PendRel (l1 ++ m1) (l2 ++ m2) := by
  refine ⟨?_, ?_, ?_, ?_⟩
  · simp only [List.flatMap_append, h.cat, h'.cat]
  · rw [cns_append, cns_append, h.cns, h'.cns]
  · intro p hp
    rcases List.mem_append.mp hp with hp | hp
    · exact h.ne1 p hp
    · exact h'.ne1 p hp
  · intro p hp
    rcases List.mem_append.mp hp with hp | hp
    · exact h.ne2 p hp
    · exact h'.ne2 p hp

/-- pushing a piece of table text -/
theorem pend_push_resp (st : SplitStatus) (x : Str) (hx : x ≠ []) :
    Resp (modS fun s => { s with pendingTableText := s.pendingTableText ++ [(st, x)] }) := by
  refine resp_modS ?_
  intro s t hst
  obtain ⟨hi, tr, cl, er, pt, rfl, hp⟩ := hst
  refine ⟨hi, tr, cl, er, pt ++ [(st, x)], rfl, ?_⟩
  exact hp.append (PendRel.rfl' (by intro p hp; simp at hp; subst hp; exact hx))

/-- the answer of `charsFin` -/
def FinRes (k : CKind) (st : SplitStatus) (x : Str) (r : ProcessResult) : Prop :=
  match k with
  | .split => r = .splitWhitespace x
  | .re m => r = .reprocess m (.chars st x)
  | _ => r = .done

theorem charsFin_resp (k : CKind) (st : SplitStatus) (x : Str) (hx : x ≠ []) :
    RespQ (FinRes k st x) (charsFin k st x) := by
  cases k with
  | split => exact respQ_pure rfl
  | drop => exact respQ_pure rfl
  | re m => exact respQ_pure rfl
  | fa => exact appendText_resp x
  | ffa =>
    simp only [charsFin]
    exact respQ_bind (P := fun _ => True) (fOk_resp x) (fun _ _ => appendText_resp x)
  | body f =>
    cases f
    · exact stepInBody_chars_done st x
    · exact fosterParentInBody_chars_done st x
  | pend =>
    simp only [charsFin]
    exact respQ_bind (P := fun _ => True) (pend_push_resp st x hx) (fun _ _ => respQ_pure rfl)

theorem isForeignChars_resp : Resp isForeignChars := isForeign_resp _
macro_rules | `(tactic| resp_lemma) => `(tactic| with_reducible exact isForeignChars_resp)

/-- what `dPre st` can answer in mode `m` -/
def DOK (m : Mode) (st : SplitStatus) : CKind → Prop
  | .re m' => rank m' < rank m
  | .split => st = .notSplit
  | _ => True

theorem KOK.dok {m : Mode} {st : SplitStatus} {k : CKind} (h : KOK m st k) : DOK m st k := by
  cases k <;> first | exact h | trivial

/-! ### the table of kinds -/

/-- every kind `charsPre mode st` can answer -/
def kinds (m : Mode) (st : SplitStatus) : List CKind :=
  match m, st with
  | .initial, .notSplit => [.split] | .initial, .whitespace => [.drop] | .initial, .notWhitespace => [.re .beforeHtml]
  | .beforeHtml, .notSplit => [.split] | .beforeHtml, .whitespace => [.drop]
  | .beforeHtml, .notWhitespace => [.re .beforeHead]
  | .beforeHead, .notSplit => [.split] | .beforeHead, .whitespace => [.drop]
  | .beforeHead, .notWhitespace => [.re .inHead]
  | .inHead, .notSplit => [.split] | .inHead, .whitespace => [.fa] | .inHead, .notWhitespace => [.re .afterHead]
  | .inHeadNoscript, .notSplit => [.split] | .inHeadNoscript, .whitespace => [.fa]
  | .inHeadNoscript, .notWhitespace => [.re .inHead]
  | .afterHead, .notSplit => [.split] | .afterHead, .whitespace => [.fa] | .afterHead, .notWhitespace => [.re .inBody]
  | .inBody, _ => [.body false]
  | .text, _ => [.fa]
  | .inTable, _ => [.re .inTableText, .body true]
  | .inTableBody, _ => [.re .inTableText, .body true]
  | .inRow, _ => [.re .inTableText, .body true]
  | .inTableText, _ => [.pend]
  | .inCaption, _ => [.body false]
  | .inCell, _ => [.body false]
  | .inTemplate, _ => [.body false]
  | .inColumnGroup, .notSplit => [.split] | .inColumnGroup, .whitespace => [.fa]
  | .inColumnGroup, .notWhitespace => [.re .inTable, .drop]
  | .afterBody, .notSplit => [.split] | .afterBody, .whitespace => [.body false]
  | .afterBody, .notWhitespace => [.re .inBody]
  | .inFrameset, .notSplit => [.split] | .inFrameset, .whitespace => [.fa] | .inFrameset, .notWhitespace => [.drop]
  | .afterFrameset, .notSplit => [.split] | .afterFrameset, .whitespace => [.fa]
  | .afterFrameset, .notWhitespace => [.drop]
  | .afterAfterBody, .notSplit => [.split] | .afterAfterBody, .whitespace => [.body false]
  | .afterAfterBody, .notWhitespace => [.re .inBody]
  | .afterAfterFrameset, .notSplit => [.split] | .afterAfterFrameset, .whitespace => [.body false]
  | .afterAfterFrameset, .notWhitespace => [.drop]

macro_rules | `(tactic| resp_side) => `(tactic| (show _ ∈ kinds _ _; decide))

theorem tablePre_kinds : RespQ (fun k => k = .re .inTableText ∨ k = .body true) tablePre := by
  unfold tablePre
  refine respQ_bind (P := fun _ => True) (currentNodeIn_resp _) ?_
  intro b _
  refine respQ_ite (fun _ => ?_) (fun _ => ?_)
  · refine respQ_getS_bind' ?_
    intro s t hst
    have he := pendEmpty_eq hst.pend
    have hr : RespQ (fun k => k = .re .inTableText ∨ k = .body true) (do
        if !s.pendingTableText.isEmpty then
          panicAt "assert" "mod.rs:1250" "assert!(self.pending_table_text.borrow().is_empty())"
        modS fun s => { s with origMode := some s.mode }
        pure (CKind.re .inTableText) : M CKind) := by resp_auto
    have := hr s t hst
    rw [he] at this ⊢
    exact this
  · resp_auto

theorem charsPre_kinds (m : Mode) (st : SplitStatus) : RespQ (fun k => k ∈ kinds m st) (charsPre m st) := by
  cases m <;> cases st <;>
    first
    | exact respQ_weaken tablePre_kinds (fun k hk => by rcases hk with rfl | rfl <;> decide)
    | (simp only [charsPre]; resp_auto)

end H5V.Lemmas.TBSplit
