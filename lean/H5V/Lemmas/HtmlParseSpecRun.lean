import H5V.Lemmas.HtmlParseSpecShift
import H5V.Lemmas.HtmlJointChunkReplay
/-!
Capstone, part: **the joint driver (tokenizer model with the tree-builder model as its sink, `out` emptied after
every step, the policy `polOf j` of the current tree-builder state, Script / EncodingIndicator pauses resumed
at once) is a run of the tokenizer model ALONE under a pause-free history policy `pol'`** whose `out` register
accumulates everything delivered — provided `pol'` answers like the tree builder at the (few) points where the
run really consults it (`Agrees`: after the histories that are suffixes of the final one).

This is what connects `C03`'s joint loop (`JRunsTo`) to `C01_model_eq_spec` (a theorem about `HtmlTok.feed` /
`HtmlTok.finish` under a history policy).  The work is done by `step_shift` (naturality of `Tokenizer::step` in
the `out` register, `H5V.Lemmas.HtmlParseSpecShift`).
-/
namespace H5V.Lemmas.ParseSpec
open H5V.Model.HtmlTok (Mach Pol SinkRes R Out Sig Str Tag Token step ofSig applySinkRes emit clr NoPause fuelFor feedBom)
open H5V.Model.HtmlTB (processToken adjustedCurrentNodeForeign finishTB)
open H5V.Model.HtmlTB.Joint (JState absorb polOf conv convTag toSinkRes)
open H5V.Lemmas.JointChunk

/-! ### the tree builder's two answers -/

/-- a pause is "Continue" for a tokenizer whose pauses are resumed at once -/
def np : SinkRes → SinkRes
  | .script => .continue_
  | .indicator => .continue_
  | r => r

/-- the answer of the tree builder in joint state `j` to a tag token (as `polOf` computes it) -/
def tbTag (j : JState) (tag : Tag) : SinkRes :=
  match (processToken (.tag (convTag tag)) 1).run j.tb with
  | .error _ => .continue_
  | .ok (r, _) => toSinkRes r

/-- its answer to the CDATA question -/
def tbCdata (j : JState) : Bool :=
  match adjustedCurrentNodeForeign.run j.tb with
  | .error _ => false
  | .ok (b, _) => b

theorem polOf_onTag (j : JState) (out : Out) (tag : Tag) :
    (polOf j).onTag out tag = match absorb out.reverse j with | .error _ => .continue_ | .ok j' => tbTag j' tag := by
  unfold polOf tbTag
  dsimp only
  cases absorb out.reverse j <;> rfl

theorem polOf_cdataOk (j : JState) (out : Out) :
    (polOf j).cdataOk out = match absorb out.reverse j with | .error _ => false | .ok j' => tbCdata j' := by
  unfold polOf tbCdata
  dsimp only
  cases absorb out.reverse j <;> rfl

/-! ### `absorb` -/

theorem absorb_append : ∀ (a b : List (Token × Nat)) (j : JState),
    absorb (a ++ b) j = match absorb a j with | .error e => .error e | .ok j1 => absorb b j1
  | [], b, j => rfl
  | (t, line) :: a, b, j => by
    rw [List.cons_append, absorb_cons, absorb_cons]
    cases conv t with
    | none => exact absorb_append a b j
    | some tt =>
      simp only
      cases (processToken tt line).run j.tb with
      | error e => rfl
      | ok v =>
        obtain ⟨r, tb⟩ := v
        simp only
        split
        · rfl
        · exact absorb_append a b _

theorem absorb_append_ok {a b : List (Token × Nat)} {j j2 : JState} (h : absorb (a ++ b) j = .ok j2) :
    ∃ j1, absorb a j = .ok j1 ∧ absorb b j1 = .ok j2 := by
  rw [absorb_append] at h
  cases ha : absorb a j with
  | error e => rw [ha] at h; cases h
  | ok j1 => rw [ha] at h; exact ⟨j1, rfl, h⟩

theorem absorb_pause (b : Bool) (l : Nat) (j : JState) : absorb [(Token.pause b, l)] j = .ok j := by
  rw [absorb_cons]; rfl

/-! ### what `pol'` has to satisfy -/

/-- after the history `X` (the `out` of the tokenizer-only run) `pol'` answers a tag like the tree builder that
has absorbed `X`, pauses read as "Continue" -/
def AgT (pol' : Pol) (j0 : JState) (X : Out) (tag : Tag) : Prop :=
  ∀ jx, absorb X.reverse j0 = .ok jx → pol'.onTag X tag = np (tbTag jx tag)

def AgC (pol' : Pol) (j0 : JState) (X : Out) : Prop :=
  ∀ jx, absorb X.reverse j0 = .ok jx → pol'.cdataOk X = tbCdata jx

/-- `pol'` agrees with the tree builder on the histories in `P` (a suffix-closed set: the histories the run
passes through): on a tag whenever the tag is the next token, on the CDATA question always -/
structure Agrees (pol' : Pol) (j0 : JState) (P : Out → Prop) : Prop where
  suf : ∀ Y X, P (Y ++ X) → P X
  tag : ∀ X tag l, P ((Token.tag tag, l) :: X) → AgT pol' j0 X tag
  cdata : ∀ X, P X → AgC pol' j0 X

/-! ### one step -/

/-- the result of the tokenizer-only step that corresponds to a result of the joint step: pauses continue -/
def starR (r : R) (M : Mach) : R :=
  match r with
  | .cont _ i => .cont M i
  | .suspend _ i => .suspend M i
  | .script _ i => .cont M i
  | .indicator _ i => .cont M i
  | .panic e => .panic e

/-- what a joint step adds to the history: its `out` without the pause marker -/
def stepOut (r : R) (m1 : Mach) : Out := if r.isPause then m1.out.tail else m1.out

theorem sh_clr (pre : Out) (m : Mach) : sh (m.out ++ pre) (clr m) = sh pre m := rfl

theorem sh_nil_of {m : Mach} (h : m.out = []) : sh [] m = m := by
  cases m
  simp only at h
  subst h
  rfl

theorem applySinkRes_np_sh (pre : Out) (m : Mach) (r : SinkRes) (h : r ≠ .script ∧ r ≠ .indicator) :
    applySinkRes (sh pre m) r = shMS pre (applySinkRes m r) := by
  cases r with
  | continue_ => rfl
  | plaintext => rfl
  | rawData k => rfl
  | script => exact absurd rfl h.1
  | indicator => exact absurd rfl h.2

theorem joint_step_star {o : TOpts} {pol' : Pol} (hnp : NoPause pol') {j0 : JState} {m : Mach} {inp : Str}
    {j j1 : JState} {H : Out} (hm : m.out = []) (hH : absorb H.reverse j0 = .ok j) {m1 : Mach} {i1 : Str}
    (hs : (step o (polOf j) m inp).pair? = some (m1, i1)) (ha : absorb m1.out.reverse j = .ok j1) :
    absorb (stepOut (step o (polOf j) m inp) m1 ++ H).reverse j0 = .ok j1 ∧
    ((step o (polOf j) m inp).isPause = true → m1.state = .data ∧ m1.charRef = none ∧ m1.reconsume = false) ∧
    ∀ P, Agrees pol' j0 P → P (stepOut (step o (polOf j) m inp) m1 ++ H) →
      step o pol' (sh H m) inp =
        starR (step o (polOf j) m inp) (sh (stepOut (step o (polOf j) m inp) m1 ++ H) (clr m1)) := by
  -- a pausing step goes through the tag branch
  have hpause : (step o (polOf j) m inp).isPause = true →
      ∃ (q : Mach) (tag : Tag) (i : Str), q.state = .data ∧ q.charRef = none ∧ q.reconsume = false ∧
        step o (polOf j) m inp = ofSig (applySinkRes (emit q (.tag tag)) ((polOf j).onTag q.out tag)) i := by
    intro hp
    let pol0 : Pol := ⟨fun _ _ => .continue_, fun _ => (polOf j).cdataOk m.out⟩
    have hp0 : NoPause pol0 := fun _ _ => ⟨by simp [pol0], by simp [pol0]⟩
    rcases step_shift' o (polOf j) pol0 [] m inp rfl with h1 | ⟨q, tag, i, h1, h2, h3, h4, _⟩
    · have := H5V.Model.HtmlTok.step_noPause o pol0 hp0 (sh [] m) inp
      rw [h1] at this
      cases hr : step o (polOf j) m inp <;> rw [hr] at hp this <;> simp [shR, R.isPause] at hp this
    · exact ⟨q, tag, i, h1, h2, h3, h4⟩
  -- the history after the step
  have hhist : absorb (stepOut (step o (polOf j) m inp) m1 ++ H).reverse j0 = .ok j1 := by
    rw [List.reverse_append, absorb_append, hH]
    simp only
    unfold stepOut
    by_cases hp : (step o (polOf j) m inp).isPause = true
    · rw [if_pos hp]
      obtain ⟨q, tag, i, _, _, _, he⟩ := hpause hp
      rw [he] at hs hp
      -- the last token of `m1.out` is the pause marker
      generalize (polOf j).onTag q.out tag = r at hs hp
      cases r with
      | continue_ => simp [applySinkRes, ofSig, R.isPause] at hp
      | plaintext => simp [applySinkRes, ofSig, R.isPause] at hp
      | rawData k => simp [applySinkRes, ofSig, R.isPause] at hp
      | script =>
        simp only [applySinkRes, ofSig, R.pair?, Option.some.injEq, Prod.mk.injEq] at hs
        obtain ⟨rfl, _⟩ := hs
        have e : (emit (H5V.Model.HtmlTok.to .data (emit q (.tag tag))) (.pause true)).out =
            (Token.pause true, (H5V.Model.HtmlTok.to .data (emit q (.tag tag))).line) ::
              (emit q (.tag tag)).out := rfl
        rw [e, List.reverse_cons] at ha
        obtain ⟨jx, h1, h2⟩ := absorb_append_ok ha
        rw [absorb_pause] at h2
        cases h2
        rw [e, List.tail_cons]
        exact h1
      | indicator =>
        simp only [applySinkRes, ofSig, R.pair?, Option.some.injEq, Prod.mk.injEq] at hs
        obtain ⟨rfl, _⟩ := hs
        have e : (emit (emit q (.tag tag)) (.pause false)).out =
            (Token.pause false, (emit q (.tag tag)).line) :: (emit q (.tag tag)).out := rfl
        rw [e, List.reverse_cons] at ha
        obtain ⟨jx, h1, h2⟩ := absorb_append_ok ha
        rw [absorb_pause] at h2
        cases h2
        rw [e, List.tail_cons]
        exact h1
    · rw [if_neg hp]; exact ha
  refine ⟨hhist, ?_, ?_⟩
  · intro hp
    obtain ⟨q, tag, i, h1, h2, h3, he⟩ := hpause hp
    rw [he] at hs hp
    generalize (polOf j).onTag q.out tag = r at hs hp
    cases r with
    | continue_ => simp [applySinkRes, ofSig, R.isPause] at hp
    | plaintext => simp [applySinkRes, ofSig, R.isPause] at hp
    | rawData k => simp [applySinkRes, ofSig, R.isPause] at hp
    | script =>
      simp only [applySinkRes, ofSig, R.pair?, Option.some.injEq, Prod.mk.injEq] at hs
      obtain ⟨rfl, _⟩ := hs
      exact ⟨rfl, h2, h3⟩
    | indicator =>
      simp only [applySinkRes, ofSig, R.pair?, Option.some.injEq, Prod.mk.injEq] at hs
      obtain ⟨rfl, _⟩ := hs
      exact ⟨h1, h2, h3⟩
  · intro P hP hPH
    have hPH0 : P H := hP.suf _ _ hPH
    have hc : pol'.cdataOk (m.out ++ H) = (polOf j).cdataOk m.out := by
      rw [hm, List.nil_append, polOf_cdataOk]
      show _ = match absorb ([] : Out) j with | .error _ => false | .ok j' => tbCdata j'
      exact hP.cdata H hPH0 j hH
    rcases step_shift' o (polOf j) pol' H m inp hc with h1 | ⟨q, tag, i, hq1, hq2, hq3, he, he'⟩
    · -- no tag: the shifted step is the shift of the step, which does not pause
      have hnpz := H5V.Model.HtmlTok.step_noPause o pol' hnp (sh H m) inp
      rw [h1] at hnpz ⊢
      cases hr : step o (polOf j) m inp with
      | cont a b =>
        rw [hr] at hs
        simp only [R.pair?, Option.some.injEq, Prod.mk.injEq] at hs
        obtain ⟨rfl, rfl⟩ := hs
        simp only [shR, starR, stepOut, R.isPause, Bool.false_eq_true, if_false]
        rw [sh_clr]
      | suspend a b =>
        rw [hr] at hs
        simp only [R.pair?, Option.some.injEq, Prod.mk.injEq] at hs
        obtain ⟨rfl, rfl⟩ := hs
        simp only [shR, starR, stepOut, R.isPause, Bool.false_eq_true, if_false]
        rw [sh_clr]
      | script a b => rw [hr] at hnpz; simp [shR, R.isPause] at hnpz
      | indicator a b => rw [hr] at hnpz; simp [shR, R.isPause] at hnpz
      | panic e => rw [hr] at hs; simp [R.pair?] at hs
    · -- the step emits the tag `tag` from `q`
      rw [he']
      rw [he] at hs hPH ⊢
      -- the tree builder has absorbed what the step emitted before the tag
      have hq : ∃ jq, absorb q.out.reverse j = .ok jq := by
        generalize (polOf j).onTag q.out tag = r at hs
        have key : ∀ mm : Mach, (∃ pre, mm.out = pre ++ q.out) → absorb mm.out.reverse j = .ok j1 →
            ∃ jq, absorb q.out.reverse j = .ok jq := by
          intro mm ⟨pre, hpre⟩ hab
          rw [hpre, List.reverse_append] at hab
          obtain ⟨jq, h1, _⟩ := absorb_append_ok hab
          exact ⟨jq, h1⟩
        cases r with
        | continue_ =>
          simp only [applySinkRes, ofSig, R.pair?, Option.some.injEq, Prod.mk.injEq] at hs
          obtain ⟨rfl, _⟩ := hs
          exact key _ ⟨[_], rfl⟩ ha
        | plaintext =>
          simp only [applySinkRes, ofSig, R.pair?, Option.some.injEq, Prod.mk.injEq] at hs
          obtain ⟨rfl, _⟩ := hs
          exact key _ ⟨[_], rfl⟩ ha
        | rawData k =>
          simp only [applySinkRes, ofSig, R.pair?, Option.some.injEq, Prod.mk.injEq] at hs
          obtain ⟨rfl, _⟩ := hs
          exact key _ ⟨[_], rfl⟩ ha
        | script =>
          simp only [applySinkRes, ofSig, R.pair?, Option.some.injEq, Prod.mk.injEq] at hs
          obtain ⟨rfl, _⟩ := hs
          exact key _ ⟨[_, _], rfl⟩ ha
        | indicator =>
          simp only [applySinkRes, ofSig, R.pair?, Option.some.injEq, Prod.mk.injEq] at hs
          obtain ⟨rfl, _⟩ := hs
          exact key _ ⟨[_, _], rfl⟩ ha
      obtain ⟨jq, hjq⟩ := hq
      have hjq0 : absorb (q.out ++ H).reverse j0 = .ok jq := by
        rw [List.reverse_append, absorb_append, hH]; exact hjq
      have hr : (polOf j).onTag q.out tag = tbTag jq tag := by rw [polOf_onTag, hjq]
      rw [hr] at hs hPH ⊢
      -- the shape of the history after the step
      have hPtag : P ((Token.tag tag, q.line) :: (q.out ++ H)) := by
        generalize tbTag jq tag = r at hs hPH
        cases r with
        | continue_ =>
          simp only [applySinkRes, ofSig, R.pair?, Option.some.injEq, Prod.mk.injEq] at hs
          obtain ⟨rfl, _⟩ := hs
          simpa [stepOut, applySinkRes, ofSig, R.isPause, emit] using hPH
        | plaintext =>
          simp only [applySinkRes, ofSig, R.pair?, Option.some.injEq, Prod.mk.injEq] at hs
          obtain ⟨rfl, _⟩ := hs
          simpa [stepOut, applySinkRes, ofSig, R.isPause, emit, H5V.Model.HtmlTok.to] using hPH
        | rawData k =>
          simp only [applySinkRes, ofSig, R.pair?, Option.some.injEq, Prod.mk.injEq] at hs
          obtain ⟨rfl, _⟩ := hs
          simpa [stepOut, applySinkRes, ofSig, R.isPause, emit, H5V.Model.HtmlTok.to] using hPH
        | script =>
          simp only [applySinkRes, ofSig, R.pair?, Option.some.injEq, Prod.mk.injEq] at hs
          obtain ⟨rfl, _⟩ := hs
          simpa [stepOut, applySinkRes, ofSig, R.isPause, emit, H5V.Model.HtmlTok.to] using hPH
        | indicator =>
          simp only [applySinkRes, ofSig, R.pair?, Option.some.injEq, Prod.mk.injEq] at hs
          obtain ⟨rfl, _⟩ := hs
          simpa [stepOut, applySinkRes, ofSig, R.isPause, emit] using hPH
      have hag := hP.tag (q.out ++ H) tag q.line hPtag jq hjq0
      rw [hag]
      generalize tbTag jq tag = r at hs hPH
      cases r with
      | continue_ =>
        simp only [applySinkRes, ofSig, R.pair?, Option.some.injEq, Prod.mk.injEq] at hs
        obtain ⟨rfl, rfl⟩ := hs
        rfl
      | plaintext =>
        simp only [applySinkRes, ofSig, R.pair?, Option.some.injEq, Prod.mk.injEq] at hs
        obtain ⟨rfl, rfl⟩ := hs
        rfl
      | rawData k =>
        simp only [applySinkRes, ofSig, R.pair?, Option.some.injEq, Prod.mk.injEq] at hs
        obtain ⟨rfl, rfl⟩ := hs
        rfl
      | script =>
        simp only [applySinkRes, ofSig, R.pair?, Option.some.injEq, Prod.mk.injEq] at hs
        obtain ⟨rfl, rfl⟩ := hs
        simp only [np, applySinkRes, ofSig, starR, stepOut, R.isPause, if_true]
        congr 1
        cases q
        simp only at hq1
        subst hq1
        rfl
      | indicator =>
        simp only [applySinkRes, ofSig, R.pair?, Option.some.injEq, Prod.mk.injEq] at hs
        obtain ⟨rfl, rfl⟩ := hs
        rfl

/-! ### runs -/

/-- the loop of `Tokenizer::run` under one policy, without fuel: `Continue` steps, then a suspension that leaves
no input -/
inductive TRunsTo (o : TOpts) (pol : Pol) : Mach → Str → Mach → Prop
  | susp {m inp m1} : step o pol m inp = .suspend m1 [] → TRunsTo o pol m inp m1
  | cont {m inp m1 i1 m'} : step o pol m inp = .cont m1 i1 → TRunsTo o pol m1 i1 m' → TRunsTo o pol m inp m'

theorem TRunsTo.run {o : TOpts} {pol : Pol} {m : Mach} {inp : Str} {m' : Mach} (h : TRunsTo o pol m inp m') :
    ∀ fuel, H5V.Model.HtmlTok.run o pol fuel m inp = .outOfFuel ∨ H5V.Model.HtmlTok.run o pol fuel m inp = .done m' [] := by
  induction h with
  | susp hs =>
    intro fuel
    cases fuel with
    | zero => exact Or.inl rfl
    | succ n => right; unfold H5V.Model.HtmlTok.run; rw [hs]
  | cont hs _ ih =>
    intro fuel
    cases fuel with
    | zero => exact Or.inl rfl
    | succ n => unfold H5V.Model.HtmlTok.run; rw [hs]; exact ih n

/-- in the data state, with nothing pending and no input, the tokenizer just suspends -/
theorem step_idle (o : TOpts) (pol : Pol) (M : Mach) (h1 : M.state = .data) (h2 : M.charRef = none)
    (h3 : M.reconsume = false) : step o pol M [] = .suspend M [] := by
  have hrd : H5V.Model.HtmlTok.readData o M [] = (none, M, []) := by
    unfold H5V.Model.HtmlTok.readData H5V.Model.HtmlTok.popExceptFrom H5V.Model.HtmlTok.getChar
    simp only [h3]
    by_cases hc : (o.exactErrors || false || M.ignoreLf) = true
    · simp only [hc, if_true, Bool.false_eq_true, if_false, Option.map_none]
    · simp only [hc, Bool.false_eq_true, if_false]
  unfold step
  rw [h2]
  simp only [h1, H5V.Model.HtmlTok.readKind, hrd]

/-- `JRunsTo` with what the run delivers: `D` is the log of the delivered tokens (newest first, pause markers
left out) -/
inductive JRunsD (o : TOpts) : Mach → Str → JState → Mach → JState → Out → Prop
  | susp {m inp j m1 j1} : step o (polOf j) m inp = .suspend m1 [] → absorb m1.out.reverse j = .ok j1 →
      JRunsD o m inp j (clr m1) j1 (stepOut (step o (polOf j) m inp) m1)
  | cont {m inp j m1 i1 j1 m' j' D} : step o (polOf j) m inp = .cont m1 i1 → absorb m1.out.reverse j = .ok j1 →
      JRunsD o (clr m1) i1 j1 m' j' D → JRunsD o m inp j m' j' (D ++ stepOut (step o (polOf j) m inp) m1)
  | script {m inp j m1 i1 j1 m' j' D} : step o (polOf j) m inp = .script m1 i1 → absorb m1.out.reverse j = .ok j1 →
      i1 ≠ [] → JRunsD o (clr m1) i1 j1 m' j' D → JRunsD o m inp j m' j' (D ++ stepOut (step o (polOf j) m inp) m1)
  | scriptEnd {m inp j m1 j1} : step o (polOf j) m inp = .script m1 [] → absorb m1.out.reverse j = .ok j1 →
      JRunsD o m inp j (clr m1) j1 (stepOut (step o (polOf j) m inp) m1)
  | indicator {m inp j m1 i1 j1 m' j' D} : step o (polOf j) m inp = .indicator m1 i1 →
      absorb m1.out.reverse j = .ok j1 → i1 ≠ [] → JRunsD o (clr m1) i1 j1 m' j' D →
      JRunsD o m inp j m' j' (D ++ stepOut (step o (polOf j) m inp) m1)
  | indicatorEnd {m inp j m1 j1} : step o (polOf j) m inp = .indicator m1 [] → absorb m1.out.reverse j = .ok j1 →
      JRunsD o m inp j (clr m1) j1 (stepOut (step o (polOf j) m inp) m1)

theorem jrunsD_of_jrunsTo {o : TOpts} {m : Mach} {inp : Str} {j : JState} {m' : Mach} {j' : JState}
    (h : JRunsTo o m inp j m' j') : ∃ D, JRunsD o m inp j m' j' D := by
  induction h with
  | susp hs ha => exact ⟨_, JRunsD.susp hs ha⟩
  | cont hs ha _ ih => obtain ⟨D, hD⟩ := ih; exact ⟨_, JRunsD.cont hs ha hD⟩
  | script hs ha hne _ ih => obtain ⟨D, hD⟩ := ih; exact ⟨_, JRunsD.script hs ha hne hD⟩
  | scriptEnd hs ha => exact ⟨_, JRunsD.scriptEnd hs ha⟩
  | indicator hs ha hne _ ih => obtain ⟨D, hD⟩ := ih; exact ⟨_, JRunsD.indicator hs ha hne hD⟩
  | indicatorEnd hs ha => exact ⟨_, JRunsD.indicatorEnd hs ha⟩

/-- a policy that never pauses (used where only the policy-independent part of `joint_step_star` is needed) -/
def polTriv : Pol := ⟨fun _ _ => .continue_, fun _ => false⟩
theorem noPause_polTriv : NoPause polTriv := fun _ _ => ⟨by simp [polTriv], by simp [polTriv]⟩

/-- **the joint loop as a tokenizer-only run**: the history after the run is `D ++ H` -/
theorem jruns_star {o : TOpts} {j0 : JState} {m : Mach} {inp : Str} {j : JState}
    {m' : Mach} {j' : JState} {D : Out} (h : JRunsD o m inp j m' j' D) :
    m.out = [] → ∀ H, absorb H.reverse j0 = .ok j →
    absorb (D ++ H).reverse j0 = .ok j' ∧ m'.out = [] ∧
      ∀ pol', NoPause pol' → ∀ P, Agrees pol' j0 P → P (D ++ H) → TRunsTo o pol' (sh H m) inp (sh (D ++ H) m') := by
  induction h with
  | @susp m inp j m1 j1 hs ha =>
    intro hm H hH
    obtain ⟨h1, _, _⟩ := joint_step_star (pol' := polTriv) noPause_polTriv hm hH (m1 := m1) (i1 := []) (by rw [hs]; rfl) ha
    refine ⟨h1, rfl, fun pol' hnp P hP hPH => ?_⟩
    have := (joint_step_star (pol' := pol') hnp hm hH (m1 := m1) (i1 := []) (by rw [hs]; rfl) ha).2.2 P hP hPH
    rw [hs] at this ⊢
    exact TRunsTo.susp this
  | @cont m inp j m1 i1 j1 m' j' D hs ha _ ih =>
    intro hm H hH
    obtain ⟨h1, _, _⟩ := joint_step_star (pol' := polTriv) noPause_polTriv hm hH (m1 := m1) (i1 := i1) (by rw [hs]; rfl) ha
    obtain ⟨g1, g3, g4⟩ := ih rfl _ h1
    rw [← List.append_assoc] at g1 g4
    refine ⟨g1, g3, fun pol' hnp P hP hPH => ?_⟩
    have hP1 : P (stepOut (step o (polOf j) m inp) m1 ++ H) := hP.suf D _ (by rw [← List.append_assoc]; exact hPH)
    have := (joint_step_star (pol' := pol') hnp hm hH (m1 := m1) (i1 := i1) (by rw [hs]; rfl) ha).2.2 P hP hP1
    rw [hs] at this hPH g4 ⊢
    exact TRunsTo.cont this (g4 pol' hnp P hP hPH)
  | @script m inp j m1 i1 j1 m' j' D hs ha _ _ ih =>
    intro hm H hH
    obtain ⟨h1, _, _⟩ := joint_step_star (pol' := polTriv) noPause_polTriv hm hH (m1 := m1) (i1 := i1) (by rw [hs]; rfl) ha
    obtain ⟨g1, g3, g4⟩ := ih rfl _ h1
    rw [← List.append_assoc] at g1 g4
    refine ⟨g1, g3, fun pol' hnp P hP hPH => ?_⟩
    have hP1 : P (stepOut (step o (polOf j) m inp) m1 ++ H) := hP.suf D _ (by rw [← List.append_assoc]; exact hPH)
    have := (joint_step_star (pol' := pol') hnp hm hH (m1 := m1) (i1 := i1) (by rw [hs]; rfl) ha).2.2 P hP hP1
    rw [hs] at this hPH g4 ⊢
    exact TRunsTo.cont this (g4 pol' hnp P hP hPH)
  | @scriptEnd m inp j m1 j1 hs ha =>
    intro hm H hH
    obtain ⟨h1, h2, _⟩ := joint_step_star (pol' := polTriv) noPause_polTriv hm hH (m1 := m1) (i1 := []) (by rw [hs]; rfl) ha
    refine ⟨h1, rfl, fun pol' hnp P hP hPH => ?_⟩
    have := (joint_step_star (pol' := pol') hnp hm hH (m1 := m1) (i1 := []) (by rw [hs]; rfl) ha).2.2 P hP hPH
    obtain ⟨e1, e2, e3⟩ := h2 (by rw [hs]; rfl)
    rw [hs] at this ⊢
    exact TRunsTo.cont this (TRunsTo.susp (step_idle o pol' _ e1 e2 e3))
  | @indicator m inp j m1 i1 j1 m' j' D hs ha _ _ ih =>
    intro hm H hH
    obtain ⟨h1, _, _⟩ := joint_step_star (pol' := polTriv) noPause_polTriv hm hH (m1 := m1) (i1 := i1) (by rw [hs]; rfl) ha
    obtain ⟨g1, g3, g4⟩ := ih rfl _ h1
    rw [← List.append_assoc] at g1 g4
    refine ⟨g1, g3, fun pol' hnp P hP hPH => ?_⟩
    have hP1 : P (stepOut (step o (polOf j) m inp) m1 ++ H) := hP.suf D _ (by rw [← List.append_assoc]; exact hPH)
    have := (joint_step_star (pol' := pol') hnp hm hH (m1 := m1) (i1 := i1) (by rw [hs]; rfl) ha).2.2 P hP hP1
    rw [hs] at this hPH g4 ⊢
    exact TRunsTo.cont this (g4 pol' hnp P hP hPH)
  | @indicatorEnd m inp j m1 j1 hs ha =>
    intro hm H hH
    obtain ⟨h1, h2, _⟩ := joint_step_star (pol' := polTriv) noPause_polTriv hm hH (m1 := m1) (i1 := []) (by rw [hs]; rfl) ha
    refine ⟨h1, rfl, fun pol' hnp P hP hPH => ?_⟩
    have := (joint_step_star (pol' := pol') hnp hm hH (m1 := m1) (i1 := []) (by rw [hs]; rfl) ha).2.2 P hP hPH
    obtain ⟨e1, e2, e3⟩ := h2 (by rw [hs]; rfl)
    rw [hs] at this ⊢
    exact TRunsTo.cont this (TRunsTo.susp (step_idle o pol' _ e1 e2 e3))

end H5V.Lemmas.ParseSpec
