import H5V.Lemmas.HtmlTokOptE
import H5V.Lemmas.HtmlJointChunkTok
/-!
Naturality of the HTML tokenizer model in the `out` register.

The log of delivered tokens `Mach.out` is only ever extended at its head (`emit`) and shown to the sink
policy (`pol.onTag`, `pol.cdataOk`).  Hence a step of the machine `sh pre m` (the machine `m` with an
older log `pre` below its own) is the step of `m` with `pre` appended, the policy being consulted at the
shifted history.  Two policies appear (one for each machine) and no global relation between them is
assumed: `step_shift` exposes the single tag query a step can make.
-/
namespace H5V.Lemmas.ParseSpec
open H5V.Model.HtmlTok

/-- the machine with an older log `pre` below its own -/
def sh (pre : Out) (m : Mach) : Mach := { m with out := m.out ++ pre }

def shR (pre : Out) : R → R
  | .cont m i => .cont (sh pre m) i
  | .suspend m i => .suspend (sh pre m) i
  | .script m i => .script (sh pre m) i
  | .indicator m i => .indicator (sh pre m) i
  | .panic e => .panic e

def shMS (pre : Out) (x : Mach × Sig) : Mach × Sig := (sh pre x.1, x.2)

/-! ### registers of the shifted machine

(deliberately not `rfl`-lemmas: `simp` then rewrites with congruence and repairs the `Decidable`
instances of the `if`s, so that `split` resolves both sides at once) -/

@[simp] theorem sh_state (pre : Out) (m : Mach) : (sh pre m).state = m.state := by cases m; rfl
@[simp] theorem sh_charRef (pre : Out) (m : Mach) : (sh pre m).charRef = m.charRef := by cases m; rfl
@[simp] theorem sh_currentChar (pre : Out) (m : Mach) : (sh pre m).currentChar = m.currentChar := by cases m; rfl
@[simp] theorem sh_reconsume (pre : Out) (m : Mach) : (sh pre m).reconsume = m.reconsume := by cases m; rfl
@[simp] theorem sh_ignoreLf (pre : Out) (m : Mach) : (sh pre m).ignoreLf = m.ignoreLf := by cases m; rfl
@[simp] theorem sh_tagKind (pre : Out) (m : Mach) : (sh pre m).tagKind = m.tagKind := by cases m; rfl
@[simp] theorem sh_tagName (pre : Out) (m : Mach) : (sh pre m).tagName = m.tagName := by cases m; rfl
@[simp] theorem sh_tagSelfClosing (pre : Out) (m : Mach) : (sh pre m).tagSelfClosing = m.tagSelfClosing := by cases m; rfl
@[simp] theorem sh_tagHadDup (pre : Out) (m : Mach) : (sh pre m).tagHadDup = m.tagHadDup := by cases m; rfl
@[simp] theorem sh_tagAttrs (pre : Out) (m : Mach) : (sh pre m).tagAttrs = m.tagAttrs := by cases m; rfl
@[simp] theorem sh_attrName (pre : Out) (m : Mach) : (sh pre m).attrName = m.attrName := by cases m; rfl
@[simp] theorem sh_attrValue (pre : Out) (m : Mach) : (sh pre m).attrValue = m.attrValue := by cases m; rfl
@[simp] theorem sh_comment (pre : Out) (m : Mach) : (sh pre m).comment = m.comment := by cases m; rfl
@[simp] theorem sh_doctype (pre : Out) (m : Mach) : (sh pre m).doctype = m.doctype := by cases m; rfl
@[simp] theorem sh_lastStartTag (pre : Out) (m : Mach) : (sh pre m).lastStartTag = m.lastStartTag := by cases m; rfl
@[simp] theorem sh_tempBuf (pre : Out) (m : Mach) : (sh pre m).tempBuf = m.tempBuf := by cases m; rfl
@[simp] theorem sh_line (pre : Out) (m : Mach) : (sh pre m).line = m.line := by cases m; rfl
@[simp] theorem sh_atEof (pre : Out) (m : Mach) : (sh pre m).atEof = m.atEof := by cases m; rfl
@[simp] theorem sh_discardBom (pre : Out) (m : Mach) : (sh pre m).discardBom = m.discardBom := by cases m; rfl
@[simp] theorem sh_out (pre : Out) (m : Mach) : (sh pre m).out = m.out ++ pre := by cases m; rfl
@[simp] theorem sh_hae (pre : Out) (m : Mach) : haveAppropriateEndTag (sh pre m) = haveAppropriateEndTag m := by cases m; rfl

/-- `b` is `a` with the older log `pre` below its own -/
def Sh (pre : Out) (a b : Mach) : Prop := b = sh pre a

theorem Sh.refl (pre : Out) (a : Mach) : Sh pre a (sh pre a) := rfl

theorem Sh.state {pre : Out} {a b : Mach} (h : Sh pre a b) : b.state = a.state := by subst h; rfl
theorem Sh.tempBuf {pre : Out} {a b : Mach} (h : Sh pre a b) : b.tempBuf = a.tempBuf := by subst h; rfl
theorem Sh.hae {pre : Out} {a b : Mach} (h : Sh pre a b) :
    haveAppropriateEndTag b = haveAppropriateEndTag a := by subst h; rfl

/-! ### helper congruences: one per `go!` shorthand used by the transition tables -/

macro "sh_same" h:ident : tactic => `(tactic| (subst $h; rfl))

variable {pre : Out}

theorem Sh_emit {a b : Mach} (h : Sh pre a b) (t : Token) : Sh pre (emit a t) (emit b t) := by sh_same h
theorem Sh_to {a b : Mach} (h : Sh pre a b) (s : State) : Sh pre (to s a) (to s b) := by sh_same h
theorem Sh_reconsumeTo {a b : Mach} (h : Sh pre a b) (s : State) : Sh pre (reconsumeTo s a) (reconsumeTo s b) := by sh_same h
theorem Sh_discardTag {a b : Mach} (h : Sh pre a b) : Sh pre (discardTag a) (discardTag b) := by sh_same h
theorem Sh_createTag {a b : Mach} (h : Sh pre a b) (k : TagKind) (c : Char) : Sh pre (createTag k c a) (createTag k c b) := by sh_same h
theorem Sh_pushTag {a b : Mach} (h : Sh pre a b) (c : Char) : Sh pre (pushTag c a) (pushTag c b) := by sh_same h
theorem Sh_pushTemp {a b : Mach} (h : Sh pre a b) (c : Char) : Sh pre (pushTemp c a) (pushTemp c b) := by sh_same h
theorem Sh_clearTemp {a b : Mach} (h : Sh pre a b) : Sh pre (clearTemp a) (clearTemp b) := by sh_same h
theorem Sh_pushName {a b : Mach} (h : Sh pre a b) (c : Char) : Sh pre (pushName c a) (pushName c b) := by sh_same h
theorem Sh_pushValue {a b : Mach} (h : Sh pre a b) (c : Char) : Sh pre (pushValue c a) (pushValue c b) := by sh_same h
theorem Sh_appendValue {a b : Mach} (h : Sh pre a b) (s : Str) : Sh pre (appendValue s a) (appendValue s b) := by sh_same h
theorem Sh_pushComment {a b : Mach} (h : Sh pre a b) (c : Char) : Sh pre (pushComment c a) (pushComment c b) := by sh_same h
theorem Sh_appendComment {a b : Mach} (h : Sh pre a b) (s : String) : Sh pre (appendComment s a) (appendComment s b) := by sh_same h
theorem Sh_clearComment {a b : Mach} (h : Sh pre a b) : Sh pre (clearComment a) (clearComment b) := by sh_same h
theorem Sh_createDoctype {a b : Mach} (h : Sh pre a b) : Sh pre (createDoctype a) (createDoctype b) := by sh_same h
theorem Sh_pushDoctypeName {a b : Mach} (h : Sh pre a b) (c : Char) : Sh pre (pushDoctypeName c a) (pushDoctypeName c b) := by sh_same h
theorem Sh_pushDoctypeId {a b : Mach} (h : Sh pre a b) (k : DoctypeIdKind) (c : Char) :
    Sh pre (pushDoctypeId k c a) (pushDoctypeId k c b) := by cases k <;> sh_same h
theorem Sh_clearDoctypeId {a b : Mach} (h : Sh pre a b) (k : DoctypeIdKind) :
    Sh pre (clearDoctypeId k a) (clearDoctypeId k b) := by cases k <;> sh_same h
theorem Sh_forceQuirks {a b : Mach} (h : Sh pre a b) : Sh pre (forceQuirks a) (forceQuirks b) := by sh_same h
theorem Sh_takeTag {a b : Mach} (h : Sh pre a b) : Sh pre (takeTag a) (takeTag b) := by sh_same h
theorem Sh_selfClosing {a b : Mach} (h : Sh pre a b) :
    Sh pre { a with tagSelfClosing := true } { b with tagSelfClosing := true } := by sh_same h
theorem Sh_setIgnoreLf {a b : Mach} (h : Sh pre a b) (x : Bool) : Sh pre (a.setIgnoreLf x) (b.setIgnoreLf x) := by sh_same h
theorem Sh_setReconsume {a b : Mach} (h : Sh pre a b) (x : Bool) : Sh pre (a.setReconsume x) (b.setReconsume x) := by sh_same h
theorem Sh_setTempBuf {a b : Mach} (h : Sh pre a b) (x : Str) : Sh pre (a.setTempBuf x) (b.setTempBuf x) := by sh_same h
theorem Sh_setCharRef {a b : Mach} (h : Sh pre a b) (x : Option CharRefSt) : Sh pre (a.setCharRef x) (b.setCharRef x) := by sh_same h
theorem Sh_setAtEof {a b : Mach} (h : Sh pre a b) (x : Bool) : Sh pre (a.setAtEof x) (b.setAtEof x) := by sh_same h
theorem Sh_setDiscardBom {a b : Mach} (h : Sh pre a b) (x : Bool) : Sh pre (a.setDiscardBom x) (b.setDiscardBom x) := by sh_same h
theorem Sh_bumpLine {a b : Mach} (h : Sh pre a b) : Sh pre a.bumpLine b.bumpLine := by sh_same h
theorem Sh_setCurrentChar {a b : Mach} (h : Sh pre a b) (x : Char) : Sh pre (a.setCurrentChar x) (b.setCurrentChar x) := by sh_same h
theorem Sh_emitErr {a b : Mach} (h : Sh pre a b) (s : String) : Sh pre (emitErr a s) (emitErr b s) := by sh_same h
theorem Sh_emitChars {a b : Mach} (h : Sh pre a b) (s : Str) : Sh pre (emitChars a s) (emitChars b s) := by sh_same h
theorem Sh_emitTempBuf {a b : Mach} (h : Sh pre a b) : Sh pre (emitTempBuf a) (emitTempBuf b) := by sh_same h
theorem Sh_emitComment {a b : Mach} (h : Sh pre a b) : Sh pre (emitComment a) (emitComment b) := by sh_same h
theorem Sh_emitDoctype {a b : Mach} (h : Sh pre a b) : Sh pre (emitDoctype a) (emitDoctype b) := by sh_same h
theorem Sh_ite (c : Prop) [Decidable c] {a b a' b' : Mach} (h1 : Sh pre a b) (h2 : Sh pre a' b') :
    Sh pre (if c then a else a') (if c then b else b') := by
  split <;> assumption
theorem Sh_emitChar {a b : Mach} (h : Sh pre a b) (c : Char) : Sh pre (emitChar a c) (emitChar b c) := by
  unfold emitChar; split <;> exact Sh_emit h _
theorem Sh_badChar {a b : Mach} (h : Sh pre a b) (o : Opts) : Sh pre (badChar o a) (badChar o b) := by
  subst h; unfold badChar; split <;> rfl
theorem Sh_badEof {a b : Mach} (h : Sh pre a b) (o : Opts) : Sh pre (badEof o a) (badEof o b) := by
  subst h; unfold badEof; split <;> rfl
theorem Sh_finishAttribute {a b : Mach} (h : Sh pre a b) : Sh pre (finishAttribute a) (finishAttribute b) := by
  subst h
  unfold finishAttribute Sh sh
  dsimp only
  split
  · rfl
  · split <;> rfl
theorem Sh_createAttr {a b : Mach} (h : Sh pre a b) (c : Char) : Sh pre (createAttr c a) (createAttr c b) := by
  have h1 := Sh_finishAttribute h
  unfold createAttr
  dsimp only
  generalize finishAttribute a = x at h1
  generalize finishAttribute b = y at h1
  sh_same h1
theorem finishAttribute_sh (pre : Out) (m : Mach) : finishAttribute (sh pre m) = sh pre (finishAttribute m) :=
  Sh_finishAttribute (Sh.refl pre m)

theorem tagPrologue_sh (pre : Out) (m : Mach) : tagPrologue (sh pre m) = sh pre (tagPrologue m) := by
  unfold tagPrologue
  rw [finishAttribute_sh]
  generalize finishAttribute m = x
  unfold sh emitErr emit
  dsimp only
  split
  · rfl
  · (repeat' split) <;> rfl

theorem Sh_tagPrologue {a b : Mach} (h : Sh pre a b) : Sh pre (tagPrologue a) (tagPrologue b) := by
  subst h; exact tagPrologue_sh pre a

/-! ### results of a table transition -/

/-- relation between the table result `x` of `a` (policy `pol`) and the table result `y` of its shift
(policy `pol'`): the shift of the result, or both end by emitting the current tag token (from a machine
with the `charRef`/`reconsume` registers of `a`) -/
def RelQ (pol pol' : Pol) (pre : Out) (a : Mach) (x y : Mach × Sig) : Prop :=
  y = shMS pre x ∨ ∃ mc, mc.charRef = a.charRef ∧ mc.reconsume = a.reconsume ∧
    x = emitTag pol .data mc ∧ y = emitTag pol' .data (sh pre mc)

theorem RelQ_ok {pol pol' : Pol} {a a' b' : Mach} (h : Sh pre a' b') :
    RelQ pol pol' pre a (a', .cont) (b', .cont) := by subst h; exact Or.inl rfl
theorem RelQ_panic {pol pol' : Pol} {a a' b' : Mach} (h : Sh pre a' b') (s : String) :
    RelQ pol pol' pre a (a', .panic s) (b', .panic s) := by subst h; exact Or.inl rfl
theorem RelQ_emitTag {pol pol' : Pol} {a a' b' : Mach} (h : Sh pre a' b')
    (hc : a'.charRef = a.charRef) (hr : a'.reconsume = a.reconsume) :
    RelQ pol pol' pre a (emitTag pol .data a') (emitTag pol' .data b') := by
  subst h; exact Or.inr ⟨a', hc, hr, rfl, rfl⟩
theorem RelQ_consumeCharRef {pol pol' : Pol} {a a' b' : Mach} (h : Sh pre a' b') :
    RelQ pol pol' pre a (consumeCharRef a') (consumeCharRef b') := by
  subst h
  unfold consumeCharRef sh
  dsimp only
  split <;> exact Or.inl rfl

/-- close a table arm by chaining the helper congruences -/
macro "sh_chain" h:ident : tactic =>
  `(tactic| (repeat (first
      | exact $h
      | with_reducible apply RelQ_ok | with_reducible apply RelQ_panic | with_reducible apply RelQ_consumeCharRef
      | (subst $h; exact RelQ_emitTag rfl rfl rfl)
      | with_reducible apply Sh_to | with_reducible apply Sh_reconsumeTo | with_reducible apply Sh_discardTag | with_reducible apply Sh_createTag | with_reducible apply Sh_pushTag
      | with_reducible apply Sh_pushTemp | with_reducible apply Sh_clearTemp | with_reducible apply Sh_pushName | with_reducible apply Sh_pushValue | with_reducible apply Sh_appendValue
      | with_reducible apply Sh_pushComment | with_reducible apply Sh_appendComment | with_reducible apply Sh_clearComment | with_reducible apply Sh_createDoctype
      | with_reducible apply Sh_pushDoctypeName | with_reducible apply Sh_pushDoctypeId | with_reducible apply Sh_clearDoctypeId | with_reducible apply Sh_forceQuirks
      | with_reducible apply Sh_emitChar | with_reducible apply Sh_emitChars | with_reducible apply Sh_badChar | with_reducible apply Sh_badEof | with_reducible apply Sh_emitTempBuf
      | with_reducible apply Sh_emitComment | with_reducible apply Sh_emitDoctype | with_reducible apply Sh_createAttr | with_reducible apply Sh_finishAttribute | with_reducible apply Sh_emit)))

/-! ### the transition tables -/

set_option maxHeartbeats 1600000 in
/-- the `get_char!` table -/
theorem transChar_Sh (o : Opts) (pol pol' : Pol) {a b : Mach} (h : Sh pre a b) (c : Char) :
    RelQ pol pol' pre a (transChar o pol a c) (transChar o pol' b c) := by
  unfold transChar
  simp only [h.state, h.tempBuf, h.hae]
  split <;> (repeat' split) <;> (try dsimp only) <;> sh_chain h

set_option maxHeartbeats 1600000 in
/-- the `pop_except_from` table -/
theorem transSet_Sh (o : Opts) (pol pol' : Pol) {a b : Mach} (h : Sh pre a b) (r : SetRes) :
    RelQ pol pol' pre a (transSet o pol a r) (transSet o pol' b r) := by
  unfold transSet
  simp only [h.state]
  split <;> (repeat' split) <;> (try dsimp only) <;> sh_chain h

set_option maxHeartbeats 1600000 in
/-- the `eof_step` table -/
theorem transEof_Sh (o : Opts) {a b : Mach} (h : Sh pre a b) :
    Sh pre (transEof o a).1 (transEof o b).1 ∧ (transEof o a).2 = (transEof o b).2 := by
  unfold transEof
  simp only [h.state]
  split <;> (try dsimp only) <;> refine ⟨?_, rfl⟩ <;> sh_chain h

theorem transChar_sh (o : Opts) (pol pol' : Pol) (pre : Out) (a : Mach) (c : Char) :
    RelQ pol pol' pre a (transChar o pol a c) (transChar o pol' (sh pre a) c) :=
  transChar_Sh o pol pol' (Sh.refl pre a) c

theorem transSet_sh (o : Opts) (pol pol' : Pol) (pre : Out) (a : Mach) (r : SetRes) :
    RelQ pol pol' pre a (transSet o pol a r) (transSet o pol' (sh pre a) r) :=
  transSet_Sh o pol pol' (Sh.refl pre a) r

theorem transEof_sh (o : Opts) (pre : Out) (a : Mach) :
    transEof o (sh pre a) = (sh pre (transEof o a).1, (transEof o a).2) := by
  obtain ⟨k1, k2⟩ := transEof_Sh o (Sh.refl pre a)
  rw [← k1, k2]

/-! ### the reader -/

/-- shift of a read result -/
def shRd {α : Type} (pre : Out) (r : α × Mach × Str) : α × Mach × Str := (r.1, sh pre r.2.1, r.2.2)

theorem setIgnoreLf_sh (pre : Out) (m : Mach) (x : Bool) : (sh pre m).setIgnoreLf x = sh pre (m.setIgnoreLf x) := rfl
theorem ite_sh (c : Prop) [Decidable c] (pre : Out) (a b : Mach) :
    (if c then sh pre a else sh pre b) = sh pre (if c then a else b) := by split <;> rfl

theorem foldChar_sh (o : Opts) (pre : Out) (m : Mach) (c : Char) :
    foldChar o (sh pre m) c = ((foldChar o m c).1, sh pre (foldChar o m c).2) := by
  unfold foldChar
  dsimp only
  by_cases hc : c = '\r'
  · simp only [hc, ↓reduceIte]
    (repeat' split) <;> rfl
  · simp only [hc, ↓reduceIte]
    (repeat' split) <;> rfl

theorem preprocess_sh (o : Opts) (pre : Out) (m : Mach) (c : Char) (inp : Str) :
    preprocess o (sh pre m) c inp = shRd pre (preprocess o m c inp) := by
  unfold preprocess
  simp only [sh_ignoreLf, setIgnoreLf_sh, foldChar_sh]
  split
  · split
    · cases inp <;> rfl
    · rfl
  · rfl

theorem getChar_sh (o : Opts) (pre : Out) (m : Mach) (inp : Str) :
    getChar o (sh pre m) inp = shRd pre (getChar o m inp) := by
  unfold getChar
  simp only [sh_reconsume]
  split
  · rfl
  · cases inp with
    | nil => rfl
    | cons c rest => exact preprocess_sh o pre m c rest

theorem peek_sh (pre : Out) (m : Mach) (inp : Str) : peek (sh pre m) inp = peek m inp := rfl

theorem discardChar_sh (pre : Out) (m : Mach) (inp : Str) :
    discardChar (sh pre m) inp = (sh pre (discardChar m inp).1, (discardChar m inp).2) := by
  unfold discardChar
  simp only [sh_reconsume]
  split <;> rfl

theorem popExceptFrom_sh (o : Opts) (S : List Char) (pre : Out) (m : Mach) (inp : Str) :
    popExceptFrom o S (sh pre m) inp = shRd pre (popExceptFrom o S m inp) := by
  unfold popExceptFrom
  simp only [sh_reconsume, sh_ignoreLf, getChar_sh, preprocess_sh]
  split
  · rfl
  · cases inp with
    | nil => rfl
    | cons c rest =>
      dsimp only
      split <;> rfl

theorem readData_sh (o : Opts) (pre : Out) (m : Mach) (inp : Str) :
    readData o (sh pre m) inp = shRd pre (readData o m inp) := by
  unfold readData
  simp only [sh_reconsume, sh_ignoreLf, popExceptFrom_sh]
  split
  · rfl
  · cases inp with
    | nil => rfl
    | cons c rest =>
      dsimp only
      split
      · rfl
      · split <;> rfl

theorem eatSkipLf_sh (pre : Out) (m : Mach) (inp : Str) :
    eatSkipLf (sh pre m) inp = (sh pre (eatSkipLf m inp).1, (eatSkipLf m inp).2) := by
  unfold eatSkipLf
  simp only [sh_ignoreLf, peek_sh, setIgnoreLf_sh, discardChar_sh]
  (repeat' split) <;> rfl

theorem eat_sh (pre : Out) (m : Mach) (inp pat : Str) (eq : Char → Char → Bool) :
    eat (sh pre m) inp pat eq = shRd pre (eat m inp pat eq) := by
  rw [eat_eq_core, eat_eq_core, eatSkipLf_sh]
  simp only [sh_tempBuf]
  generalize (eatSkipLf m inp).1 = m1
  generalize m1.tempBuf ++ (eatSkipLf m inp).2 = all
  unfold eatCore
  simp only [sh_atEof]
  (repeat' split) <;> rfl

/-! ### step results -/

/-- relation between a step result `r` of a machine (policy `pol`) and the step result `r'` of its shift
(policy `pol'`) -/
def StepQ (pol pol' : Pol) (pre : Out) (r r' : R) : Prop :=
  r' = shR pre r ∨
  ∃ (q : Mach) (tag : Tag) (i : Str), q.state = .data ∧ q.charRef = none ∧ q.reconsume = false ∧
    r = ofSig (applySinkRes (emit q (.tag tag)) (pol.onTag q.out tag)) i ∧
    r' = ofSig (applySinkRes (emit (sh pre q) (.tag tag)) (pol'.onTag (q.out ++ pre) tag)) i

theorem ofSig_shMS (pre : Out) (x : Mach × Sig) (i : Str) : ofSig (shMS pre x) i = shR pre (ofSig x i) := by
  obtain ⟨x1, x2⟩ := x
  cases x2 <;> rfl

theorem emitTag_sh (pol' : Pol) (pre : Out) (mc : Mach) :
    emitTag pol' .data (sh pre mc) =
      applySinkRes (emit (sh pre (takeTag (tagPrologue (to .data mc)))) (.tag (currentTag (tagPrologue (to .data mc)))))
        (pol'.onTag ((takeTag (tagPrologue (to .data mc))).out ++ pre) (currentTag (tagPrologue (to .data mc)))) := by
  unfold emitTag emitCurrentTag
  have e : to .data (sh pre mc) = sh pre (to .data mc) := rfl
  rw [e, tagPrologue_sh]
  rfl

theorem StepQ_ofSig {pol pol' : Pol} {pre : Out} {a : Mach} {x y : Mach × Sig} (h : RelQ pol pol' pre a x y)
    (hc : a.charRef = none) (hr : a.reconsume = false) (i : Str) :
    StepQ pol pol' pre (ofSig x i) (ofSig y i) := by
  rcases h with rfl | ⟨mc, h1, h2, rfl, rfl⟩
  · exact Or.inl (ofSig_shMS pre x i)
  · refine Or.inr ⟨takeTag (tagPrologue (to .data mc)), currentTag (tagPrologue (to .data mc)), i, ?_, ?_, ?_, rfl, ?_⟩
    · simp
    · simp [h1, hc]
    · simp [h2, hr]
    · rw [emitTag_sh]

theorem contChar_sh (o : Opts) (pol pol' : Pol) (pre : Out) (r : Option Char × Mach × Str)
    (hr : r.1.isSome = true → r.2.1.charRef = none ∧ r.2.1.reconsume = false) :
    StepQ pol pol' pre (contChar o pol r) (contChar o pol' (shRd pre r)) := by
  obtain ⟨c, m1, i1⟩ := r
  cases c with
  | none => exact Or.inl rfl
  | some c =>
    obtain ⟨h1, h2⟩ := hr rfl
    exact StepQ_ofSig (transChar_sh o pol pol' pre m1 c) h1 h2 i1

theorem contSet_sh (o : Opts) (pol pol' : Pol) (pre : Out) (r : Option SetRes × Mach × Str)
    (hr : r.1.isSome = true → r.2.1.charRef = none ∧ r.2.1.reconsume = false) :
    StepQ pol pol' pre (contSet o pol r) (contSet o pol' (shRd pre r)) := by
  obtain ⟨c, m1, i1⟩ := r
  cases c with
  | none => exact Or.inl rfl
  | some c =>
    obtain ⟨h1, h2⟩ := hr rfl
    exact StepQ_ofSig (transSet_sh o pol pol' pre m1 c) h1 h2 i1

/-! ### the character-reference sub-tokenizer -/

/-- shift of a char-ref step result -/
def shCR (pre : Out) (v : Mach × Str × CharRefSt × CRStatus) : Mach × Str × CharRefSt × CRStatus :=
  (sh pre v.1, v.2)

theorem numericErr_sh (o : Opts) (pre : Out) (m : Mach) (n : Nat) :
    numericErr o (sh pre m) n = sh pre (numericErr o m n) := by
  unfold numericErr; split <;> rfl
theorem nameErr_sh (o : Opts) (pre : Out) (m : Mach) (nb : Str) :
    nameErr o (sh pre m) nb = sh pre (nameErr o m nb) := by
  unfold nameErr; split <;> rfl

theorem finishNumericStatus_sh (o : Opts) (pre : Out) (m : Mach) (inp : Str) (cr : CharRefSt) :
    finishNumericStatus o (sh pre m) inp cr = (finishNumericStatus o m inp cr).map (shCR pre) := by
  unfold finishNumericStatus finishNumeric
  dsimp only
  generalize numericValue cr = v
  obtain ⟨v1, v2⟩ := v
  cases v1 <;> cases v2 <;> (try rw [numericErr_sh]) <;> rfl

theorem namedDecision_sh (pre : Out) (m : Mach) (cr : CharRefSt) (nb : Str) (c1 c2 : Nat) :
    namedDecision (sh pre m) cr nb c1 c2 =
      (namedDecision m cr nb c1 c2).map (Option.map (fun v => (sh pre v.1, v.2))) := by
  unfold namedDecision
  dsimp only
  (repeat' split) <;> rfl

theorem finishNamed_sh (o : Opts) (pre : Out) (m : Mach) (inp : Str) (cr : CharRefSt) (e : Option Char) :
    finishNamed o (sh pre m) inp cr e = (finishNamed o m inp cr e).map (shCR pre) := by
  unfold finishNamed
  split
  · rfl
  · split
    · dsimp only
      (repeat' split) <;> first | rfl | (rw [nameErr_sh]; rfl)
    · rename_i nb _ _ c1 c2 _
      rw [namedDecision_sh]
      cases namedDecision m cr nb c1 c2 with
      | error e1 => rfl
      | ok v =>
        cases v with
        | none => rfl
        | some w => rfl

theorem crStep_sh (o : Opts) (pre : Out) (m : Mach) (inp : Str) (cr : CharRefSt) :
    crStep o (sh pre m) inp cr = (crStep o m inp cr).map (shCR pre) := by
  unfold crStep unconsumeNumeric
  dsimp only
  rw [peek_sh, discardChar_sh]
  split
  · rfl
  · split <;> (repeat' split) <;>
      first
      | rfl
      | exact finishNumericStatus_sh o pre _ _ _
      | exact finishNumericStatus_sh o pre (emitErr m _) _ _
      | exact finishNamed_sh o pre _ _ _ _
      | (rw [nameErr_sh]; rfl)

theorem foldl_emitChar_sh (pre : Out) (cs : Str) : ∀ m : Mach,
    cs.foldl emitChar (sh pre m) = sh pre (cs.foldl emitChar m) := by
  induction cs with
  | nil => intro m; rfl
  | cons c cs ih =>
    intro m
    have e : emitChar (sh pre m) c = sh pre (emitChar m c) := (Sh_emitChar (Sh.refl pre m) c)
    simp only [List.foldl_cons, e, ih]

theorem foldl_pushValue_sh (pre : Out) (cs : Str) : ∀ m : Mach,
    cs.foldl (fun m c => pushValue c m) (sh pre m) = sh pre (cs.foldl (fun m c => pushValue c m) m) := by
  induction cs with
  | nil => intro m; rfl
  | cons c cs ih =>
    intro m
    have e : pushValue c (sh pre m) = sh pre (pushValue c m) := rfl
    simp only [List.foldl_cons, e, ih]

theorem processCharRef_shift (pre : Out) (m : Mach) (chars : Str) :
    processCharRef (sh pre m) chars = shMS pre (processCharRef m chars) := by
  unfold processCharRef
  simp only [sh_state]
  split
  · simp only [foldl_emitChar_sh]; rfl
  · simp only [foldl_emitChar_sh]; rfl
  · simp only [foldl_pushValue_sh]; rfl
  · rfl

theorem stepCharRef_sh (o : Opts) (pre : Out) (m : Mach) (inp : Str) (cr : CharRefSt) :
    stepCharRef o (sh pre m) inp cr = shR pre (stepCharRef o m inp cr) := by
  unfold stepCharRef
  rw [crStep_sh]
  cases crStep o m inp cr with
  | error e => rfl
  | ok v =>
    obtain ⟨m1, i1, c1, s1⟩ := v
    cases s1 with
    | stuck => rfl
    | progress => rfl
    | done chars =>
      simp only [Except.map, shCR, processCharRef_shift]
      generalize processCharRef m1 chars = p
      obtain ⟨p1, p2⟩ := p
      cases p2 <;> rfl

/-! ### `peek`/`discard_char` and `eat` states -/

theorem discardChar_reconsume_false (m : Mach) (inp : Str) : (discardChar m inp).1.reconsume = false := by
  unfold discardChar
  split
  · rfl
  · rename_i h; simpa using h
theorem discardChar_charRef_eq (m : Mach) (inp : Str) : (discardChar m inp).1.charRef = m.charRef := by
  unfold discardChar; split <;> rfl

theorem stepBav_sh (o : Opts) (pol pol' : Pol) (pre : Out) (m : Mach) (inp : Str) (hcr : m.charRef = none) :
    StepQ pol pol' pre (stepBav o pol m inp) (stepBav o pol' (sh pre m) inp) := by
  unfold stepBav
  rw [peek_sh]
  simp only [sh_ignoreLf, setIgnoreLf_sh, ite_sh]
  cases peek m inp with
  | none => exact Or.inl rfl
  | some c =>
    dsimp only
    have hm : (if m.ignoreLf = true then m.setIgnoreLf false else m).charRef = none := by
      split <;> exact hcr
    generalize (if m.ignoreLf = true then m.setIgnoreLf false else m) = m' at hm
    rw [discardChar_sh, getChar_sh]
    split
    · exact Or.inl rfl
    · split
      · generalize getChar o m' inp = r
        obtain ⟨c1, m1, i1⟩ := r
        cases c1 <;> exact Or.inl rfl
      · repeat' split
        all_goals
          first
          | exact Or.inl rfl
          | exact StepQ_ofSig (a := badChar o (discardChar m' inp).1)
              (RelQ_emitTag (Sh_badChar (Sh.refl pre _) o) rfl rfl)
              (by rw [badChar_charRef, discardChar_charRef_eq]; exact hm)
              (by rw [badChar_reconsume, discardChar_reconsume_false]) _

theorem stepMdo_sh (o : Opts) (pol pol' : Pol) (pre : Out) (m : Mach) (inp : Str)
    (hc : pol'.cdataOk (m.out ++ pre) = pol.cdataOk m.out) :
    stepMdo o pol' (sh pre m) inp = shR pre (stepMdo o pol m inp) := by
  unfold stepMdo
  rw [eat_sh]
  cases h1 : eat m inp kwDashDash eqExact with
  | mk x1 r1 =>
  obtain ⟨m1, i1⟩ := r1
  have o1 := eat_out m m1 inp i1 _ _ x1 h1
  cases x1 with
  | none => rfl
  | some t1 =>
    cases t1 with
    | true => rfl
    | false =>
      dsimp only [shRd]
      rw [eat_sh]
      cases h2 : eat m1 i1 kwDoctype eqCi with
      | mk x2 r2 =>
      obtain ⟨m2, i2⟩ := r2
      have o2 := eat_out m1 m2 i1 i2 _ _ x2 h2
      cases x2 with
      | none => rfl
      | some t2 =>
        cases t2 with
        | true => rfl
        | false =>
          dsimp only [shRd]
          simp only [sh_out]
          rw [o2, o1, hc]
          split
          · rw [eat_sh]
            generalize eat m2 i2 kwCdata eqExact = r3
            obtain ⟨x3, m3, i3⟩ := r3
            cases x3 with
            | none => rfl
            | some t3 =>
              cases t3 with
              | true => rfl
              | false =>
                dsimp only [shRd]
                exact congrArg (fun x => R.cont x i3)
                  (Sh_to (Sh_clearComment (Sh_badChar (Sh.refl pre m3) o)) _)
          · exact congrArg (fun x => R.cont x i2)
              (Sh_to (Sh_clearComment (Sh_badChar (Sh.refl pre m2) o)) _)

theorem stepAdn_sh (o : Opts) (pol pol' : Pol) (pre : Out) (m : Mach) (inp : Str) (hcr : m.charRef = none) :
    StepQ pol pol' pre (stepAdn o pol m inp) (stepAdn o pol' (sh pre m) inp) := by
  unfold stepAdn
  rw [eat_sh]
  cases h1 : eat m inp kwPublic eqCi with
  | mk x1 r1 =>
  obtain ⟨m1, i1⟩ := r1
  have o1 := (eat_fields m m1 inp i1 _ _ x1 h1).2.1
  cases x1 with
  | none => exact Or.inl rfl
  | some t1 =>
    cases t1 with
    | true => exact Or.inl rfl
    | false =>
      dsimp only [shRd]
      rw [eat_sh]
      cases h2 : eat m1 i1 kwSystem eqCi with
      | mk x2 r2 =>
      obtain ⟨m2, i2⟩ := r2
      have o2 := (eat_fields m1 m2 i1 i2 _ _ x2 h2).2.1
      cases x2 with
      | none => exact Or.inl rfl
      | some t2 =>
        cases t2 with
        | true => exact Or.inl rfl
        | false =>
          dsimp only [shRd]
          rw [getChar_sh]
          have key := contChar_sh o pol pol' pre (getChar o m2 i2) (by
            intro hs
            cases h3 : getChar o m2 i2 with
            | mk c3 r3 =>
            obtain ⟨m3, i3⟩ := r3
            rw [h3] at hs
            cases c3 with
            | none => cases hs
            | some c =>
              obtain ⟨_, _, g3, g4, _⟩ := getChar_fields o m2 m3 i2 i3 c h3
              exact ⟨by rw [g4, o2, o1, hcr], g3⟩)
          generalize getChar o m2 i2 = r at key
          obtain ⟨c3, m3, i3⟩ := r
          cases c3 <;> exact key

/-! ### one step -/

theorem step_StepQ (o : Opts) (pol pol' : Pol) (pre : Out) (m : Mach) (inp : Str)
    (hc : pol'.cdataOk (m.out ++ pre) = pol.cdataOk m.out) :
    StepQ pol pol' pre (step o pol m inp) (step o pol' (sh pre m) inp) := by
  cases hcr : m.charRef with
  | some cr =>
    rw [step_kind_charRef o pol m inp cr hcr, step_kind_charRef o pol' (sh pre m) inp cr hcr]
    exact Or.inl (stepCharRef_sh o pre m inp cr)
  | none =>
    have hcr' : (sh pre m).charRef = none := hcr
    cases hrk : readKind m.state with
    | getChar =>
      rw [step_getChar o pol m inp hcr hrk, step_getChar o pol' (sh pre m) inp hcr' hrk, getChar_sh]
      refine contChar_sh o pol pol' pre _ ?_
      intro hs
      cases h3 : getChar o m inp with
      | mk c3 r3 =>
      obtain ⟨m3, i3⟩ := r3
      rw [h3] at hs
      cases c3 with
      | none => cases hs
      | some c =>
        obtain ⟨_, _, g3, g4, _⟩ := getChar_fields o m m3 inp i3 c h3
        exact ⟨by rw [g4, hcr], g3⟩
    | popExcept =>
      rw [step_popExcept o pol m inp hcr hrk, step_popExcept o pol' (sh pre m) inp hcr' hrk]
      simp only [sh_state, popExceptFrom_sh]
      refine contSet_sh o pol pol' pre _ ?_
      intro hs
      cases h3 : popExceptFrom o (setOf m.state) m inp with
      | mk c3 r3 =>
      obtain ⟨m3, i3⟩ := r3
      rw [h3] at hs
      cases c3 with
      | none => cases hs
      | some c =>
        obtain ⟨_, _, g3, g4, _⟩ := popExceptFrom_fields o _ m m3 inp i3 c h3
        exact ⟨by rw [g4, hcr], g3⟩
    | dataSimd =>
      rw [step_dataSimd o pol m inp hcr hrk, step_dataSimd o pol' (sh pre m) inp hcr' hrk, readData_sh]
      refine contSet_sh o pol pol' pre _ ?_
      intro hs
      cases h3 : readData o m inp with
      | mk c3 r3 =>
      obtain ⟨m3, i3⟩ := r3
      rw [h3] at hs
      cases c3 with
      | none => cases hs
      | some c =>
        obtain ⟨_, _, g3, g4, _⟩ := readData_fields o m m3 inp i3 c h3
        exact ⟨by rw [g4, hcr], g3⟩
    | peekBav =>
      rw [step_kind_bav o pol m inp hcr hrk, step_kind_bav o pol' (sh pre m) inp hcr' hrk]
      exact stepBav_sh o pol pol' pre m inp hcr
    | eatMdo =>
      rw [step_kind_mdo o pol m inp hcr hrk, step_kind_mdo o pol' (sh pre m) inp hcr' hrk]
      exact Or.inl (stepMdo_sh o pol pol' pre m inp hc)
    | eatAdn =>
      rw [step_kind_adn o pol m inp hcr hrk, step_kind_adn o pol' (sh pre m) inp hcr' hrk]
      exact stepAdn_sh o pol pol' pre m inp hcr

/-- one `Tokenizer::step`, strengthened: in the tag case the machine `q` has no pending character reference
and no pending reconsume -/
theorem step_shift' (o : Opts) (pol pol' : Pol) (pre : Out) (m : Mach) (inp : Str)
    (hc : pol'.cdataOk (m.out ++ pre) = pol.cdataOk m.out) :
    step o pol' (sh pre m) inp = shR pre (step o pol m inp) ∨
    ∃ (q : Mach) (tag : Tag) (i : Str), q.state = .data ∧ q.charRef = none ∧ q.reconsume = false ∧
      step o pol m inp = ofSig (applySinkRes (emit q (.tag tag)) (pol.onTag q.out tag)) i ∧
      step o pol' (sh pre m) inp =
        ofSig (applySinkRes (emit (sh pre q) (.tag tag)) (pol'.onTag (q.out ++ pre) tag)) i :=
  step_StepQ o pol pol' pre m inp hc

/-- MASTER LEMMA: one `Tokenizer::step`.  Either the step emits no tag token (then it does not depend on
`onTag` at all and the shifted step is the shift of the step), or it ends by emitting the current tag
token from a machine `q` (already past `tagPrologue`/`takeTag`, state `.data`), in which case both steps are
given explicitly in terms of the policies' answers at the histories `q.out` resp. `q.out ++ pre`. -/
theorem step_shift (o : Opts) (pol pol' : Pol) (pre : Out) (m : Mach) (inp : Str)
    (hc : pol'.cdataOk (m.out ++ pre) = pol.cdataOk m.out) :
    step o pol' (sh pre m) inp = shR pre (step o pol m inp) ∨
    ∃ (q : Mach) (tag : Tag) (i : Str), q.state = .data ∧
      step o pol m inp = ofSig (applySinkRes (emit q (.tag tag)) (pol.onTag q.out tag)) i ∧
      step o pol' (sh pre m) inp =
        ofSig (applySinkRes (emit (sh pre q) (.tag tag)) (pol'.onTag (q.out ++ pre) tag)) i := by
  rcases step_shift' o pol pol' pre m inp hc with h | ⟨q, tag, i, h1, _, _, h2, h3⟩
  · exact Or.inl h
  · exact Or.inr ⟨q, tag, i, h1, h2, h3⟩

/-! ### end of input -/

theorem eofLoop_shift (o : Opts) (n : Nat) (pre : Out) (m : Mach) :
    eofLoop o n (sh pre m) = (eofLoop o n m).map (sh pre) := by
  induction n generalizing m with
  | zero => rfl
  | succ n ih =>
    unfold eofLoop
    rw [transEof_sh]
    generalize transEof o m = r
    obtain ⟨m1, s1⟩ := r
    cases s1 with
    | cont => exact ih m1
    | done => rfl
    | panic e => rfl

theorem crEofOnceE_sh (o : Opts) (pre : Out) (m : Mach) (inp : Str) (cr : CharRefSt) :
    crEofOnceE o (sh pre m) inp cr = (crEofOnceE o m inp cr).map (shCR pre) := by
  unfold crEofOnceE unconsumeNumeric
  split <;> (repeat' split) <;>
    first
    | rfl
    | exact finishNumericStatus_sh o pre (emitErr m _) _ _
    | exact finishNamed_sh o pre _ _ _ _

theorem crEofLast_sh (pre : Out) (r : CRRes) :
    crEofLast (r.map (shCR pre)) = (crEofLast r).map (fun r => (sh pre r.1, r.2.1, r.2.2)) := by
  cases r with
  | error e => rfl
  | ok v =>
    obtain ⟨m1, i1, c1, s1⟩ := v
    cases s1 <;> rfl

theorem crEofDrive_sh (o : Opts) (pre : Out) (r : CRRes) :
    crEofDrive o (r.map (shCR pre)) = (crEofDrive o r).map (fun r => (sh pre r.1, r.2.1, r.2.2)) := by
  cases r with
  | error e => rfl
  | ok v =>
    obtain ⟨m1, i1, c1, s1⟩ := v
    cases s1 with
    | stuck => rfl
    | done chars => rfl
    | progress =>
      show crEofLast (crEofOnceE o (sh pre m1) i1 c1) = _
      rw [crEofOnceE_sh]
      exact crEofLast_sh pre _

theorem crEof_shift (o : Opts) (pre : Out) (m : Mach) (inp : Str) (cr : CharRefSt) :
    crEof o (sh pre m) inp cr = (crEof o m inp cr).map (fun r => (sh pre r.1, r.2.1, r.2.2)) := by
  rw [crEof_eqE, crEof_eqE, crEofOnceE_sh]
  exact crEofDrive_sh o pre _

theorem feedBom_shift (pre : Out) (m : Mach) (inp : Str) :
    feedBom (sh pre m) inp = (sh pre (feedBom m inp).1, (feedBom m inp).2) := by
  unfold feedBom
  cases inp with
  | nil => rfl
  | cons c rest =>
    simp only [sh_discardBom]
    split <;> rfl

end H5V.Lemmas.ParseSpec
