import H5V.Lemmas.HtmlTBModesInvPrim2
/-!
C02 (insertion modes), the invariant `Good` of the specification's run: the rules of "text", "in cell", "in row".
(These three also serve as the worked examples of the method, see /tmp/c02algo/INV_GUIDE.md.)
-/
set_option linter.unusedSectionVars false
set_option linter.unusedSimpArgs false
namespace H5V.Lemmas.ModesInv
open H5V.Spec H5V.Spec.TreeModes
open H5V.Spec.TreeAlgo (Str Name nsHtml nsMathml nsSvg inHtml)
open H5V.Spec.TreeAlgo2 (Elem Entry PState)

section
variable {N : Type} [DecidableEq N]

/-! ### "text" -/

/-- leaving "text": pop the current node, switch to the original insertion mode -/
theorem good_leaveText {σ σ' : State N} (hg : Good σ) (hm : σ.mode = .text)
    (hm' : σ'.mode = σ.originalMode) (ht : σ'.templateModes = σ.templateModes)
    (hs : σ'.p.stack = σ.p.stack.dropLast) (hl : σ'.p.list = σ.p.list) : Good σ' := by
  obtain ⟨⟨h1, h2, h3, h4⟩, hc⟩ := hg.text hm
  refine ⟨fun h => ?_, fun h => ?_, fun h => ?_, ?_, ?_, ?_⟩
  · rw [names_eq, hs, namesOf_dropLast, ← names_eq]
    exact hc (hm' ▸ h)
  · exact absurd (hm' ▸ h) h1
  · exact absurd (hm' ▸ h) h2
  · rw [hm']; exact ⟨h3, h4⟩
  · rw [hl]; exact hg.af
  · rw [ht]; exact hg.tm

theorem keeps_text : Keeps0 (fun _ σ tok => text (N := N) σ tok) (PreMode .text) := by
  intro cfg hed σ tok r hg hst hm h
  have hm : σ.mode = .text := hm
  unfold text at h
  cases tok with
  | character c =>
    obtain ⟨s1, h1, h2⟩ := map_ok h
    subst h2
    have hu := insertChar_eff h1
    exact fun _ => hg.same hu.mode hu.orig hu.tms hu.stack hu.list
  | eof =>
    cases pure_ok h
    exact ⟨hst, good_leaveText hg hm rfl rfl rfl rfl⟩
  | endTag t =>
    dsimp only at h
    split at h
    · obtain ⟨script, _, h2⟩ := bind_ok h
      cases pure_ok h2
      exact fun _ => good_leaveText hg hm rfl rfl rfl rfl
    · cases pure_ok h
      exact fun _ => good_leaveText hg hm rfl rfl rfl rfl
  | doctype _ _ _ _ => cases h
  | startTag _ => cases h
  | comment _ => cases h

/-! ### "in cell" -/

/-- "close the cell": the mode becomes "in row" -/
theorem good_closeCell {σ : State N} (hg : Good σ) : Good (closeCell σ) := by
  unfold closeCell
  dsimp only
  refine Good.plain' (m := .inRow) rfl (by decide) ?_ ?_
  · show AFOk (TreeAlgo2.closeTheCell _).list
    have : ∀ s0 : State N, s0.p.list = σ.p.list → AFOk (TreeAlgo2.closeTheCell s0.p).list := by
      intro s0 h0
      show AFOk (TreeAlgo2.clearToLastMarker s0.p.list)
      rw [h0]; exact hg.af.clear
    split
    · exact this _ rfl
    · exact this _ rfl
  · split <;> exact hg.tm

theorem closeCell_stopped (σ : State N) : (closeCell σ).stopped = σ.stopped := by
  unfold closeCell; dsimp only; split <;> rfl

theorem keeps_inCell (hbody : Keeps (inBody (N := N)) PreBody) : Keeps (inCell (N := N)) (PreMode .inCell) := by
  intro cfg hed σ tok r hg hst hl hfr hm h
  have hm : σ.mode = .inCell := hm
  have hbody' : ∀ r', r' = r → cellEnd tok = false → inBody cfg σ tok = .ok r' → Post r' := fun r' hr hc h =>
    hbody cfg hed σ tok r' hg hst hl (hr ▸ hfr) ⟨by rw [hm]; decide, by rw [hm]; decide, fun _ => hc⟩ h
  unfold inCell at h
  cases tok with
  | endTag t =>
    dsimp only at h
    split at h
    · -- </td>, </th>
      split at h
      · cases pure_ok h; exact fun _ => hg.same
      · cases pure_ok h
        refine fun _ => Good.plain' (m := .inRow) rfl (by decide) ?_ ?_
        · simp only [setMode_p, clearToLastMarker_list, popUntilPoppedStr_list]
          split <;> simp only [err_p, genImplied_list] <;> exact hg.af.clear
        · simp only [setMode_tms, clearToLastMarker_tms, popUntilPoppedStr_tms]
          split <;> simp only [err_tms, genImplied_tms] <;> exact hg.tm
    · rename_i hnot
      split at h
      · cases pure_ok h; exact fun _ => hg.same
      · split at h
        · split at h
          · cases pure_ok h; exact fun _ => hg.same
          · cases pure_ok h
            exact ⟨by rw [closeCell_stopped]; exact hst, good_closeCell hg⟩
        · exact hbody' r rfl (by simpa [cellEnd] using hnot) h
  | startTag t =>
    dsimp only at h
    split at h
    · split at h
      · cases h
      · cases pure_ok h
        exact ⟨by rw [closeCell_stopped]; exact hst, good_closeCell hg⟩
    · exact hbody' r rfl rfl h
  | character c => exact hbody' r rfl rfl h
  | comment d => exact hbody' r rfl rfl h
  | doctype _ _ _ _ => exact hbody' r rfl rfl h
  | eof => exact hbody' r rfl rfl h

/-! ### "in row" -/

@[simp] theorem clearBackToTableRow_mode (s : State N) : (clearBackToTableRow s).mode = s.mode := rfl
@[simp] theorem clearBackToTableRow_orig (s : State N) : (clearBackToTableRow s).originalMode = s.originalMode := rfl
@[simp] theorem clearBackToTableRow_tms (s : State N) : (clearBackToTableRow s).templateModes = s.templateModes := rfl
@[simp] theorem clearBackToTableRow_stopped (s : State N) : (clearBackToTableRow s).stopped = s.stopped := rfl
@[simp] theorem clearBackToTableRow_list (s : State N) : (clearBackToTableRow s).p.list = s.p.list := rfl

theorem keeps_inRow (htable : Keeps (inTable (N := N)) PreTable) : Keeps (inRow (N := N)) (PreMode .inRow) := by
  intro cfg hed σ tok r hg hst hl hfr hm h
  have hm : σ.mode = .inRow := hm
  have htable' : ∀ r', r' = r → inTable cfg σ tok = .ok r' → Post r' := fun r' hr h =>
    htable cfg hed σ tok r' hg hst hl (hr ▸ hfr) (Or.inr (Or.inr hm)) h
  -- "close the row": the mode becomes "in table body"
  have hclose : Good ((clearBackToTableRow σ).pop.setMode .inTableBody) :=
    hg.toPlain' (m := .inTableBody) rfl (by decide)
  unfold inRow at h
  cases tok with
  | startTag t =>
    dsimp only at h
    split at h
    · -- <td>, <th>: the new cell is the current node
      rename_i htd
      obtain ⟨s1, h1, h2⟩ := bind_ok h
      cases pure_ok h2
      obtain ⟨e, he, _, hu, _⟩ := insertHtml'_eff h1
      refine fun _ => Good.ofCell rfl ?_ ?_ ?_
      · -- td/th in table scope: it is the current node
        simp only [insertMarker_names, setMode_names]
        rw [names_eq, hu.stack, namesOf_snoc]
        apply cellR_cons_td
        rw [he]
        simp only [Tag.isOneOf, strIsOneOf, List.any_cons, List.any_nil, Bool.or_false, Bool.or_eq_true, beq_iff_eq] at htd
        rcases htd with htd | htd <;> rw [htd] <;> decide
      · simp only [insertMarker_list, setMode_p, hu.list, clearBackToTableRow_list]
        exact hg.af.marker
      · simp only [insertMarker_tms, setMode_tms, hu.tms, clearBackToTableRow_tms]
        exact hg.tm
    · split at h
      · split at h
        · cases pure_ok h; exact fun _ => hg.same
        · cases pure_ok h; exact ⟨hst, hclose⟩
      · exact htable' r rfl h
  | endTag t =>
    dsimp only at h
    split at h
    · split at h
      · cases pure_ok h; exact fun _ => hg.same
      · cases pure_ok h; exact fun _ => hclose
    · split at h
      · split at h
        · cases pure_ok h; exact fun _ => hg.same
        · cases pure_ok h; exact ⟨hst, hclose⟩
      · split at h
        · split at h
          · cases pure_ok h; exact fun _ => hg.same
          · split at h
            · cases pure_ok h; exact fun _ => hg
            · cases pure_ok h; exact ⟨hst, hclose⟩
        · split at h
          · cases pure_ok h; exact fun _ => hg.same
          · exact htable' r rfl h
  | character c => exact htable' r rfl h
  | comment d => exact htable' r rfl h
  | doctype _ _ _ _ => exact htable' r rfl h
  | eof => exact htable' r rfl h

end
end H5V.Lemmas.ModesInv
