import H5V.Model.HtmlTB
import H5V.Lemmas.HtmlTBMetaBase
/-!
The tree builder never asks the tokenizer for an escaped script-data state: whenever `process_token`
answers `RawData(k)`, `k` is `Rcdata`, `Rawtext` or `ScriptData`.

The fact is syntactic: `ProcessResult.toRawData k` is built only by `toRawTextMode k`, which the rules
call with the literals `.rcdata` / `.rawtext` (through `parseRawData`) and `.scriptData` (the `script`
start tag of "in head").  Rules delegate to one another ("process using the rules for …"), so the
judgement is proved for the step function of every insertion mode and for foreign content, then
carried through the loop of `process_to_completion` (induction on its fuel) and `process_token`.

Machinery: the answer judgement `H5V.Props.C19.Ans` of the C19 package (HtmlTBMetaBase.lean) — its
bind rule does not look at the first computation, so a walk over a rule only visits tail positions —
with the same walk as HtmlTBMetaRules.lean / HtmlTBMetaRun.lean, instantiated with `RawOk`.
-/
namespace H5V.Lemmas.ParseSpec
open H5V.Model.Dom (Id QualName Attr NodeOrText SinkOp Output ElementFlags QuirksMode Dom)
open H5V.Model.HtmlTB
open H5V.Model.HtmlTok (RawKind)
open H5V.Lemmas.TBM
open H5V.Props.C19 (Ans)

/-- the raw-text kinds the tree builder asks for -/
def GoodKind (k : RawKind) : Prop := k = .rcdata ∨ k = .rawtext ∨ k = .scriptData

/-- an answer of a rule that asks for no escaped script-data state -/
def RawOk : ProcessResult → Prop
  | .toRawData k => GoodKind k
  | _ => True

/-- the same for an answer of `process_token` -/
def SinkRawOk (r : SinkResult) : Prop := ∀ k, r = .rawData k → GoodKind k

theorem SinkRawOk.of_ne {r : SinkResult} (h : ∀ k, r ≠ .rawData k) : SinkRawOk r :=
  fun k e => absurd e (h k)

/-- the walk over a rule: tail positions only (as `ans_step` of the C19 package) -/
syntax "rk_step" : tactic
macro_rules
  | `(tactic| rk_step) => `(tactic|
    first
      | exact Ans.pure trivial
      | exact Ans.pure (by with_reducible assumption)
      | exact Ans.throw _
      | exact Ans.panicAt _ _ _
      | exact Ans.fuelOut _
      | exact inferInstance
      | with_reducible assumption
      | (with_reducible apply Ans.pureBind)
      | (with_reducible apply Ans.bind)
      | (with_reducible apply Ans.iteH)
      | intro _
      | split
      | dsimp only)

syntax "rk_walk" : tactic
macro_rules
  | `(tactic| rk_walk) => `(tactic| repeat' rk_step)

/-! ### the only constructor site -/

theorem ans_toRawTextMode {k : RawKind} (hk : GoodKind k) : Ans RawOk (toRawTextMode k) := by
  have hk' : RawOk (.toRawData k) := hk
  unfold toRawTextMode; rk_walk

theorem ans_parseRawData (tag : Tag) {k : RawKind} (hk : GoodKind k) : Ans RawOk (parseRawData tag k) := by
  have h := ans_toRawTextMode hk
  unfold parseRawData; rk_walk

instance : Ans RawOk (toRawTextMode .rcdata) := ans_toRawTextMode (Or.inl rfl)
instance : Ans RawOk (toRawTextMode .rawtext) := ans_toRawTextMode (Or.inr (Or.inl rfl))
instance : Ans RawOk (toRawTextMode .scriptData) := ans_toRawTextMode (Or.inr (Or.inr rfl))
instance (tag : Tag) : Ans RawOk (parseRawData tag .rcdata) := ans_parseRawData tag (Or.inl rfl)
instance (tag : Tag) : Ans RawOk (parseRawData tag .rawtext) := ans_parseRawData tag (Or.inr (Or.inl rfl))
instance (tag : Tag) : Ans RawOk (parseRawData tag .scriptData) := ans_parseRawData tag (Or.inr (Or.inr rfl))

/-! ### helpers -/

instance : Ans RawOk unexpected := by unfold unexpected; rk_walk
instance (t : Str) : Ans RawOk (appendText t) := by unfold appendText; rk_walk
instance (t : Str) : Ans RawOk (appendComment t) := by unfold appendComment; rk_walk
instance (t : Str) : Ans RawOk (appendCommentToDoc t) := by unfold appendCommentToDoc; rk_walk
instance (t : Str) : Ans RawOk (appendCommentToHtml t) := by unfold appendCommentToHtml; rk_walk
instance (tag : Tag) : Ans RawOk (inBodyHtml tag) := by unfold inBodyHtml; rk_walk
instance (tag : Tag) : Ans RawOk (inBodyVoid tag) := by unfold inBodyVoid; rk_walk
instance (tag : Tag) (ns : Str) : Ans RawOk (enterForeign tag ns) := by unfold enterForeign; rk_walk
instance (tag : Tag) : Ans RawOk (foreignStartTag tag) := by unfold foreignStartTag; rk_walk
instance : Ans RawOk inTemplateEof := by unfold inTemplateEof; rk_walk

/-! ### the insertion modes -/

instance (tok : Token) : Ans RawOk (stepInHead tok) := by unfold stepInHead; rk_walk

-- the places where an answer is bound, something else is done, and the answer is returned
theorem ans_stepInHead_bind {β : Type} {Q : β → Prop} {tok : Token} {f : ProcessResult → M β}
    (h : ∀ r, RawOk r → Ans Q (f r)) : Ans Q (stepInHead tok >>= f) := Ans.bindK inferInstance h

macro_rules
  | `(tactic| rk_step) => `(tactic| (with_reducible apply ans_stepInHead_bind))

instance (tok : Token) : Ans RawOk (stepInitial tok) := by unfold stepInitial; rk_walk
instance (tok : Token) : Ans RawOk (stepBeforeHtml tok) := by unfold stepBeforeHtml; rk_walk
instance (tok : Token) : Ans RawOk (stepInBody tok) := by unfold stepInBody; rk_walk

theorem ans_stepInBody_bind {β : Type} {Q : β → Prop} {tok : Token} {f : ProcessResult → M β}
    (h : ∀ r, RawOk r → Ans Q (f r)) : Ans Q (stepInBody tok >>= f) := Ans.bindK inferInstance h

macro_rules
  | `(tactic| rk_step) => `(tactic| (with_reducible apply ans_stepInBody_bind))

instance (tok : Token) : Ans RawOk (stepBeforeHead tok) := by unfold stepBeforeHead; rk_walk
instance (tok : Token) : Ans RawOk (stepInHeadNoscript tok) := by unfold stepInHeadNoscript; rk_walk
instance (tok : Token) : Ans RawOk (stepAfterHead tok) := by unfold stepAfterHead; rk_walk
instance (tok : Token) : Ans RawOk (stepText tok) := by unfold stepText; rk_walk
instance (tok : Token) : Ans RawOk (fosterParentInBody tok) := by unfold fosterParentInBody; rk_walk
instance (tok : Token) : Ans RawOk (processCharsInTable tok) := by unfold processCharsInTable; rk_walk
instance (tok : Token) : Ans RawOk (stepInTable tok) := by unfold stepInTable; rk_walk
instance (tok : Token) : Ans RawOk (stepInTableText tok) := by unfold stepInTableText; rk_walk
instance (tok : Token) : Ans RawOk (stepInCaption tok) := by unfold stepInCaption; rk_walk
instance (tok : Token) : Ans RawOk (stepInColumnGroup tok) := by unfold stepInColumnGroup; rk_walk
instance (tok : Token) : Ans RawOk (stepInTableBody tok) := by unfold stepInTableBody; rk_walk
instance (tok : Token) : Ans RawOk (stepInRow tok) := by unfold stepInRow; rk_walk
instance (tok : Token) : Ans RawOk (stepInCell tok) := by unfold stepInCell; rk_walk
instance (tok : Token) : Ans RawOk (stepInTemplate tok) := by unfold stepInTemplate; rk_walk
instance (tok : Token) : Ans RawOk (stepAfterBody tok) := by unfold stepAfterBody; rk_walk
instance (tok : Token) : Ans RawOk (stepInFrameset tok) := by unfold stepInFrameset; rk_walk
instance (tok : Token) : Ans RawOk (stepAfterFrameset tok) := by unfold stepAfterFrameset; rk_walk
instance (tok : Token) : Ans RawOk (stepAfterAfterBody tok) := by unfold stepAfterAfterBody; rk_walk
instance (tok : Token) : Ans RawOk (stepAfterAfterFrameset tok) := by unfold stepAfterAfterFrameset; rk_walk

/-- **every insertion mode** asks only for `Rcdata`, `Rawtext` or `ScriptData` -/
instance (mode : Mode) (tok : Token) : Ans RawOk (step mode tok) := by
  cases mode <;> (unfold step; exact inferInstance)

/-! ### foreign content -/

instance (tag : Tag) : Ans RawOk (unexpectedStartTagInForeignContent tag) := by
  unfold unexpectedStartTagInForeignContent; rk_walk

theorem ans_foreignEndTagLoop (tag : Tag) : ∀ (i : Nat) (first : Bool), Ans RawOk (foreignEndTagLoop tag i first)
  | 0, _ => by unfold foreignEndTagLoop; rk_walk
  | i + 1, first => by
    have ih := ans_foreignEndTagLoop tag i
    unfold foreignEndTagLoop; rk_walk
instance (tag : Tag) (i : Nat) (first : Bool) : Ans RawOk (foreignEndTagLoop tag i first) :=
  ans_foreignEndTagLoop tag i first

instance (tok : Token) : Ans RawOk (stepForeign tok) := by unfold stepForeign; rk_walk

/-! ### `process_to_completion` and `process_token` -/

theorem ans_step_bind {β : Type} {Q : β → Prop} {mode : Mode} {tok : Token} {f : ProcessResult → M β}
    (h : ∀ r, RawOk r → Ans Q (f r)) : Ans Q (step mode tok >>= f) := Ans.bindK inferInstance h

theorem ans_stepForeign_bind {β : Type} {Q : β → Prop} {tok : Token} {f : ProcessResult → M β}
    (h : ∀ r, RawOk r → Ans Q (f r)) : Ans Q (stepForeign tok >>= f) := Ans.bindK inferInstance h

macro_rules
  | `(tactic| rk_step) => `(tactic|
      first | (with_reducible apply ans_step_bind) | (with_reducible apply ans_stepForeign_bind))

theorem ans_ptc (fuel : Nat) : ∀ (token : Token) (more : List Token),
    Ans SinkRawOk (processToCompletion fuel token more) := by
  induction fuel with
  | zero => intro token more; unfold processToCompletion; exact Ans.fuelOut _
  | succ fuel ih =>
    intro token more
    unfold processToCompletion
    dsimp only
    rk_walk
    all_goals first
      | exact ih _ _
      | exact Ans.pure (SinkRawOk.of_ne (fun k h => SinkResult.noConfusion h))
      | exact Ans.pure (fun k h => SinkResult.noConfusion h (fun e => e ▸ (by assumption)))

/-- `process_token` asks only for `Rcdata`, `Rawtext` or `ScriptData` -/
theorem ans_processToken (tok : TokToken) (line : Nat) : Ans SinkRawOk (processToken tok line) := by
  unfold processToken
  rk_walk
  all_goals first
    | exact ans_ptc _ _ _
    | exact Ans.pure (SinkRawOk.of_ne (fun k h => SinkResult.noConfusion h))

/-- **the tree builder never asks the tokenizer for an escaped script-data state** -/
theorem processToken_rawKind (t : TokToken) (line : Nat) (s s' : State) (k : H5V.Model.HtmlTok.RawKind)
    (h : (processToken t line).run s = .ok (.rawData k, s')) :
    k = .rcdata ∨ k = .rawtext ∨ k = .scriptData :=
  (ans_processToken t line).h s _ s' h k rfl

/-- the same for one round of `process_to_completion` (any fuel, any queue of further tokens) -/
theorem processToCompletion_rawKind (fuel : Nat) (token : Token) (more : List Token) (s s' : State)
    (k : H5V.Model.HtmlTok.RawKind)
    (h : (processToCompletion fuel token more).run s = .ok (.rawData k, s')) :
    k = .rcdata ∨ k = .rawtext ∨ k = .scriptData :=
  (ans_ptc fuel token more).h s _ s' h k rfl

/-- and for the rules themselves -/
theorem step_rawKind (mode : Mode) (tok : Token) (s s' : State) (k : H5V.Model.HtmlTok.RawKind)
    (h : (step mode tok).run s = .ok (.toRawData k, s')) :
    k = .rcdata ∨ k = .rawtext ∨ k = .scriptData :=
  (inferInstance : Ans RawOk (step mode tok)).h s _ s' h

theorem stepForeign_rawKind (tok : Token) (s s' : State) (k : H5V.Model.HtmlTok.RawKind)
    (h : (stepForeign tok).run s = .ok (.toRawData k, s')) :
    k = .rcdata ∨ k = .rawtext ∨ k = .scriptData :=
  (inferInstance : Ans RawOk (stepForeign tok)).h s _ s' h

end H5V.Lemmas.ParseSpec
