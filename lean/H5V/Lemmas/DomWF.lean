import H5V.Lemmas.DomBasic
/-!
Well-formedness of the arena DOM (`WF`): parent links consistent with child lists, no node listed
twice, parent chains terminate (acyclicity, as the inductive predicate `Rooted`).

* shape lemmas: `WF` is preserved by *attaching* a parentless node under a node that is not one
  of its descendants, by *detaching* a node, by *moving all children* of a node, and by any change
  that leaves `parentOf`/`childrenOf` alone;
* on a well-formed arena a parent chain has at most `size` entries (pigeonhole), hence the
  fuel-bounded, decidable `Dom.isAncOrSelf` used by `Contract` decides the relation `Anc`.
-/
namespace H5V.Lemmas.Dom
open H5V.Model.Dom

/-- the parent chain of `x` ends (at a parentless node) -/
inductive Rooted (d : Dom) : Id → Prop
  | root {x : Id} : d.parentOf x = none → Rooted d x
  | step {x p : Id} : d.parentOf x = some p → Rooted d p → Rooted d x

/-- `Anc d a x`: `a` is `x` or an ancestor of `x` -/
inductive Anc (d : Dom) (a : Id) : Id → Prop
  | refl : Anc d a a
  | step {x p : Id} : d.parentOf x = some p → Anc d a p → Anc d a x

/-- every node's parent link names exactly the node whose child list contains it; each node is in
at most one child list, at most once; no cycles -/
structure WF (d : Dom) : Prop where
  links : ∀ c p, d.parentOf c = some p ↔ c ∈ d.childrenOf p
  nodup : ∀ p, (d.childrenOf p).Nodup
  rooted : ∀ x, Rooted d x

theorem Anc.parent {d : Dom} {s n x : Id} (h : Anc d s x) (hs : d.parentOf s = some n) : Anc d n x := by
  induction h with
  | refl => exact Anc.step hs Anc.refl
  | step hp _ ih => exact Anc.step hp ih

theorem Anc.trans {d : Dom} {a b x : Id} (h1 : Anc d a b) (h2 : Anc d b x) : Anc d a x := by
  induction h2 with
  | refl => exact h1
  | step hp _ ih => exact Anc.step hp ih

/-! ### acyclicity is preserved when some nodes are redirected to `q` and others cut loose -/

theorem rooted_redirect {d d' : Dom} {S : Id → Prop} {q : Id}
    (hq : Rooted d q) (hS : ∀ s, S s → ¬ Anc d s q)
    (hp1 : ∀ x, S x → d'.parentOf x = some q)
    (hp2 : ∀ x, ¬ S x → d'.parentOf x = d.parentOf x ∨ d'.parentOf x = none) :
    ∀ y, Rooted d y → Rooted d' y := by
  have step1 : ∀ z, Rooted d z → (∀ s, S s → ¬ Anc d s z) → Rooted d' z := by
    intro z hz
    induction hz with
    | @root x h0 =>
      intro hs
      have hx : ¬ S x := fun hx => hs x hx Anc.refl
      rcases hp2 x hx with h | h
      · exact Rooted.root (h.trans h0)
      · exact Rooted.root h
    | @step x p hpar _ ih =>
      intro hs
      have hx : ¬ S x := fun hx => hs x hx Anc.refl
      rcases hp2 x hx with h | h
      · exact Rooted.step (h.trans hpar) (ih (fun s hsS ha => hs s hsS (Anc.step hpar ha)))
      · exact Rooted.root h
  have hq' : Rooted d' q := step1 q hq hS
  intro y hy
  induction hy with
  | @root x h0 =>
    by_cases hx : S x
    · exact Rooted.step (hp1 x hx) hq'
    · rcases hp2 x hx with h | h
      · exact Rooted.root (h.trans h0)
      · exact Rooted.root h
  | @step x p hpar _ ih =>
    by_cases hx : S x
    · exact Rooted.step (hp1 x hx) hq'
    · rcases hp2 x hx with h | h
      · exact Rooted.step (h.trans hpar) ih
      · exact Rooted.root h

theorem rooted_congr {d d' : Dom} (hp : ∀ x, d'.parentOf x = d.parentOf x) :
    ∀ y, Rooted d y → Rooted d' y := by
  intro y hy
  induction hy with
  | root h0 => exact Rooted.root ((hp _).trans h0)
  | step hpar _ ih => exact Rooted.step ((hp _).trans hpar) ih

theorem anc_congr {d d' : Dom} (hp : ∀ x, d'.parentOf x = d.parentOf x) {a x : Id} :
    Anc d a x → Anc d' a x := by
  intro h
  induction h with
  | refl => exact Anc.refl
  | step hpar _ ih => exact Anc.step ((hp _).trans hpar) ih

/-! ### shape lemmas -/

/-- nothing structural changed -/
theorem WF.congr {d d' : Dom} (h : WF d) (hp : ∀ x, d'.parentOf x = d.parentOf x)
    (hc : ∀ x, d'.childrenOf x = d.childrenOf x) : WF d' where
  links := by intro c p; rw [hp, hc]; exact h.links c p
  nodup := by intro p; rw [hc]; exact h.nodup p
  rooted := fun x => rooted_congr hp x (h.rooted x)

/-- attach the parentless node `c` somewhere in the child list of `p`, which is not in `c`'s subtree -/
theorem WF.attach {d d' : Dom} (h : WF d) {c p : Id} {l' : List Id}
    (hc : d.parentOf c = none) (hanc : ¬ Anc d c p)
    (hl : ∀ y, y ∈ l' ↔ y = c ∨ y ∈ d.childrenOf p) (hnd : l'.Nodup)
    (hp : ∀ x, d'.parentOf x = if x = c then some p else d.parentOf x)
    (hch : ∀ x, d'.childrenOf x = if x = p then l' else d.childrenOf x) : WF d' where
  links := by
    intro c' p'
    rw [hp, hch]
    by_cases hcc : c' = c
    · subst hcc
      simp only [if_true]
      by_cases hpp : p' = p
      · subst hpp; simp [hl]
      · have : ¬ c' ∈ d.childrenOf p' := fun hm => by
          have := (h.links c' p').mpr hm; rw [hc] at this; cases this
        simp [hpp, this]
        exact fun e => hpp e.symm
    · simp only [hcc, if_false]
      by_cases hpp : p' = p
      · subst hpp; simp [hl, hcc]; exact h.links c' p'
      · simp [hpp]; exact h.links c' p'
  nodup := by
    intro p'
    rw [hch]
    by_cases hpp : p' = p
    · simp [hpp, hnd]
    · simp [hpp]; exact h.nodup p'
  rooted := by
    intro x
    refine rooted_redirect (S := fun x => x = c) (q := p) (h.rooted p) ?_ ?_ ?_ x (h.rooted x)
    · intro s hs; subst hs; exact hanc
    · intro x hx; rw [hp]; simp [hx]
    · intro x hx; rw [hp]; simp [hx]

/-- detach `c` from its parent `p` -/
theorem WF.detach {d d' : Dom} (h : WF d) {c p : Id} {l' : List Id}
    (hl : ∀ y, y ∈ d.childrenOf p ↔ y = c ∨ y ∈ l') (hc' : c ∉ l') (hnd : l'.Nodup)
    (hp : ∀ x, d'.parentOf x = if x = c then none else d.parentOf x)
    (hch : ∀ x, d'.childrenOf x = if x = p then l' else d.childrenOf x) : WF d' where
  links := by
    have hcp : d.parentOf c = some p := (h.links c p).mpr ((hl c).mpr (Or.inl rfl))
    intro c' p'
    rw [hp, hch]
    by_cases hcc : c' = c
    · subst hcc
      simp only [if_true]
      by_cases hpp : p' = p
      · subst hpp; simp [hc']
      · have : ¬ c' ∈ d.childrenOf p' := fun hm => by
          have := (h.links c' p').mpr hm; rw [hcp] at this
          exact hpp (Option.some.inj this).symm
        simp [hpp, this]
    · simp only [hcc, if_false]
      by_cases hpp : p' = p
      · subst hpp
        simp only [if_true]
        rw [h.links c' p', hl]
        simp [hcc]
      · simp [hpp]; exact h.links c' p'
  nodup := by
    intro p'
    rw [hch]
    by_cases hpp : p' = p
    · simp [hpp, hnd]
    · simp [hpp]; exact h.nodup p'
  rooted := by
    intro x
    refine rooted_redirect (S := fun _ => False) (q := c) (h.rooted c) ?_ ?_ ?_ x (h.rooted x)
    · intro s hs; exact hs.elim
    · intro x hx; exact hx.elim
    · intro x _; rw [hp]
      by_cases hx : x = c
      · exact Or.inr (by simp [hx])
      · exact Or.inl (by simp [hx])

/-- move all children of `n` to the end of the child list of `np`, which is not in `n`'s subtree -/
theorem WF.reparent {d d' : Dom} (h : WF d) {n np : Id} (hne : ¬ Anc d n np)
    (hp : ∀ x, d'.parentOf x = if x ∈ d.childrenOf n then some np else d.parentOf x)
    (hch : ∀ x, d'.childrenOf x =
      if x = n then [] else if x = np then d.childrenOf np ++ d.childrenOf n else d.childrenOf x) :
    WF d' where
  links := by
    have hnn : n ≠ np := fun e => hne (e ▸ Anc.refl)
    intro c' p'
    rw [hp, hch]
    by_cases hcn : c' ∈ d.childrenOf n
    · have hpar : d.parentOf c' = some n := (h.links c' n).mpr hcn
      simp only [hcn, if_true]
      by_cases hpn : p' = n
      · subst hpn; simp; exact fun e => hnn e.symm
      · by_cases hpp : p' = np
        · subst hpp; simp [hpn, hcn]
        · have : ¬ c' ∈ d.childrenOf p' := fun hm => by
            have := (h.links c' p').mpr hm; rw [hpar] at this
            exact hpn (Option.some.inj this).symm
          simp [hpn, hpp, this]; exact fun e => hpp e.symm
    · simp only [hcn, if_false]
      by_cases hpn : p' = n
      · subst hpn
        simp
        intro hh; exact hcn ((h.links c' p').mp hh)
      · by_cases hpp : p' = np
        · subst hpp; simp [hpn, hcn]; exact h.links c' p'
        · simp [hpn, hpp]; exact h.links c' p'
  nodup := by
    have hnn : n ≠ np := fun e => hne (e ▸ Anc.refl)
    intro p'
    rw [hch]
    by_cases hpn : p' = n
    · simp [hpn]
    · by_cases hpp : p' = np
      · subst hpp
        simp only [hpn, if_false, if_true]
        refine List.nodup_append.mpr ⟨h.nodup _, h.nodup _, ?_⟩
        intro a ha b hb e
        subst e
        have h1 := (h.links a p').mpr ha
        have h2 := (h.links a n).mpr hb
        rw [h1] at h2
        exact hnn (Option.some.inj h2).symm
      · simp [hpn, hpp]; exact h.nodup p'
  rooted := by
    intro x
    refine rooted_redirect (S := fun x => x ∈ d.childrenOf n) (q := np) (h.rooted np) ?_ ?_ ?_ x (h.rooted x)
    · intro s hs ha
      exact hne (Anc.parent ha ((h.links s n).mpr hs))
    · intro x hx; rw [hp]; simp [hx]
    · intro x hx; rw [hp]; simp [hx]

/-! ### parent chains are short: pigeonhole -/

theorem length_le_of_nodup_lt : ∀ (n : Nat) (l : List Nat), l.Nodup → (∀ y ∈ l, y < n) → l.length ≤ n := by
  intro n
  induction n with
  | zero =>
    intro l _ hlt
    cases l with
    | nil => simp
    | cons a t => exact absurd (hlt a (by simp)) (Nat.not_lt_zero a)
  | succ n ih =>
    intro l hnd hlt
    have hnd' := List.Nodup.erase n hnd
    have hlt' : ∀ y ∈ l.erase n, y < n := by
      intro y hy
      have := (List.Nodup.mem_erase_iff hnd).mp hy
      have h1 := hlt y this.2
      omega
    have := ih (l.erase n) hnd' hlt'
    by_cases hm : n ∈ l
    · rw [List.length_erase_of_mem hm] at this; omega
    · rw [List.erase_of_not_mem hm] at this; omega

/-- `Chain d x l`: `l` is `x`, its parent, grandparent, … up to a parentless node -/
inductive Chain (d : Dom) : Id → List Id → Prop
  | root {x : Id} : d.parentOf x = none → Chain d x [x]
  | step {x p : Id} {l : List Id} : d.parentOf x = some p → Chain d p l → Chain d x (x :: l)

theorem Chain.of_rooted {d : Dom} {x : Id} (h : Rooted d x) : ∃ l, Chain d x l := by
  induction h with
  | root h0 => exact ⟨_, Chain.root h0⟩
  | step hp _ ih => obtain ⟨l, hl⟩ := ih; exact ⟨_, Chain.step hp hl⟩

theorem Chain.functional {d : Dom} {x : Id} {l1 l2 : List Id} (h1 : Chain d x l1) (h2 : Chain d x l2) :
    l1 = l2 := by
  induction h1 generalizing l2 with
  | root h0 =>
    cases h2 with
    | root _ => rfl
    | step hp _ => rw [h0] at hp; cases hp
  | step hp _ ih =>
    cases h2 with
    | root h0 => rw [h0] at hp; cases hp
    | step hp2 hc2 =>
      rw [hp] at hp2; cases hp2
      rw [ih hc2]

theorem Chain.suffix {d : Dom} {x : Id} {l : List Id} (h : Chain d x l) :
    ∀ y ∈ l, ∃ l', Chain d y l' ∧ l' <:+ l := by
  induction h with
  | root h0 =>
    intro y hy
    simp at hy; subst hy
    exact ⟨_, Chain.root h0, List.suffix_refl _⟩
  | step hp hc ih =>
    intro y hy
    simp only [List.mem_cons] at hy
    rcases hy with hy | hy
    · subst hy; exact ⟨_, Chain.step hp hc, List.suffix_refl _⟩
    · obtain ⟨l', h1, h2⟩ := ih y hy
      exact ⟨l', h1, h2.trans (List.suffix_cons _ _)⟩

theorem Chain.nodup {d : Dom} {x : Id} {l : List Id} (h : Chain d x l) : l.Nodup := by
  induction h with
  | root _ => simp
  | @step x p l hp hc ih =>
    refine List.nodup_cons.mpr ⟨?_, ih⟩
    intro hx
    obtain ⟨l', h1, h2⟩ := hc.suffix x hx
    have := Chain.functional h1 (Chain.step hp hc)
    subst this
    have := h2.length_le
    simp at this
    omega

theorem Chain.head {d : Dom} {x : Id} {l : List Id} (h : Chain d x l) : ∃ t, l = x :: t := by
  cases h with
  | root _ => exact ⟨[], rfl⟩
  | step _ _ => exact ⟨_, rfl⟩

theorem parent_lt_size {d : Dom} (h : WF d) {x p : Id} (hp : d.parentOf x = some p) : p < d.size := by
  have := (h.links x p).mp hp
  by_cases hlt : p < d.size
  · exact hlt
  · rw [childrenOf_nil_of_ge (Nat.le_of_not_lt hlt)] at this; cases this

theorem child_lt_size {d : Dom} {x p : Id} (hp : d.parentOf x = some p) : x < d.size := by
  by_cases hlt : x < d.size
  · exact hlt
  · rw [parentOf_none_of_ge (Nat.le_of_not_lt hlt)] at hp; cases hp

theorem Chain.lt_size {d : Dom} (hw : WF d) {x : Id} {l : List Id} (h : Chain d x l) (hx : x < d.size) :
    ∀ y ∈ l, y < d.size := by
  induction h with
  | root _ => intro y hy; simp at hy; subst hy; exact hx
  | step hp _ ih =>
    intro y hy
    simp only [List.mem_cons] at hy
    rcases hy with hy | hy
    · subst hy; exact hx
    · exact ih (parent_lt_size hw hp) y hy

theorem Chain.length_le {d : Dom} (hw : WF d) {x : Id} {l : List Id} (h : Chain d x l) (hx : x < d.size) :
    l.length ≤ d.size :=
  length_le_of_nodup_lt d.size l h.nodup (h.lt_size hw hx)

theorem Chain.mem_iff_anc {d : Dom} {x : Id} {l : List Id} (h : Chain d x l) (a : Id) :
    a ∈ l ↔ Anc d a x := by
  induction h with
  | root h0 =>
    constructor
    · intro ha; simp at ha; subst ha; exact Anc.refl
    · intro ha
      cases ha with
      | refl => simp
      | step hp _ => rw [h0] at hp; cases hp
  | step hp _ ih =>
    constructor
    · intro ha
      simp only [List.mem_cons] at ha
      rcases ha with ha | ha
      · subst ha; exact Anc.refl
      · exact Anc.step hp (ih.mp ha)
    · intro ha
      cases ha with
      | refl => simp
      | step hp2 ha2 =>
        rw [hp] at hp2; cases hp2
        exact List.mem_cons_of_mem _ (ih.mpr ha2)

theorem Chain.ancestorsOrSelf {d : Dom} {x : Id} {l : List Id} (h : Chain d x l) :
    ∀ fuel, l.length ≤ fuel → d.ancestorsOrSelf fuel x = l := by
  induction h with
  | root h0 =>
    intro fuel hf
    cases fuel with
    | zero => simp at hf
    | succ f => simp [Dom.ancestorsOrSelf, h0]
  | step hp _ ih =>
    intro fuel hf
    cases fuel with
    | zero => simp at hf
    | succ f =>
      simp only [List.length_cons] at hf
      simp [Dom.ancestorsOrSelf, hp, ih f (by omega)]

/-- the decidable test used by `Contract` decides ancestry on every well-formed arena -/
theorem isAncOrSelf_iff {d : Dom} (hw : WF d) {a x : Id} (hx : x < d.size) :
    d.isAncOrSelf a x = true ↔ Anc d a x := by
  obtain ⟨l, hl⟩ := Chain.of_rooted (hw.rooted x)
  unfold Dom.isAncOrSelf
  rw [hl.ancestorsOrSelf d.size (hl.length_le hw hx), List.contains_iff_mem]
  exact hl.mem_iff_anc a

theorem not_anc_of_isAncOrSelf_false {d : Dom} (hw : WF d) {a x : Id} (hx : x < d.size)
    (h : d.isAncOrSelf a x = false) : ¬ Anc d a x := by
  intro ha
  rw [(isAncOrSelf_iff hw hx).mpr ha] at h; cases h

end H5V.Lemmas.Dom
