import H5V.Lemmas.XmlTokRuns
/-!
`discard_bom` is only ever touched by the prologue of `feed`: no step of the tokenizer loop changes
it.  (Mechanical copy of the `Pres` development of `XmlTokChunk` for one more register.)
-/
namespace H5V.Model.XmlTok

theorem foldChar_db (o : Opts) (m : Mach) (c : Char) : (foldChar o m c).2.discardBom = m.discardBom := by
  unfold foldChar
  generalize hcm : (if c = '\r' then ('\n', m.setIgnoreLf true) else (c, m)) = cm
  have h2 : cm.2.discardBom = m.discardBom := by rw [← hcm]; split <;> simp
  dsimp only
  generalize (if cm.1 = '\x00' then '�' else cm.1) = c'
  split <;> simp [h2]

theorem getChar_db (o : Opts) (m m1 : Mach) (inp i1 : Str) (c : Option Char)
    (h : getChar o m inp = (c, m1, i1)) : m1.discardBom = m.discardBom := by
  unfold getChar at h
  split at h
  · simp only [Prod.mk.injEq] at h; obtain ⟨_, h2, _⟩ := h; subst h2; simp
  · cases inp with
    | nil => simp only [Prod.mk.injEq] at h; obtain ⟨_, h2, _⟩ := h; subst h2; simp
    | cons x xs =>
      simp only [preprocess] at h
      repeat' split at h
      all_goals
        (simp only [Prod.mk.injEq] at h
         obtain ⟨_, h2, _⟩ := h
         subst h2
         have := foldChar_db o (m.setIgnoreLf false)
         have := foldChar_db o m
         simp_all)

/-- `discard_bom` is left alone -/
def DB (m' m : Mach) : Prop := m'.discardBom = m.discardBom

theorem DB.refl (m : Mach) : DB m m := rfl
theorem DB.trans {a b c : Mach} (h1 : DB a b) (h2 : DB b c) : DB a c := Eq.trans h1 h2

theorem emitErr_db (m : Mach) (s : String) : DB (emitErr m s) m := (by simp [DB])
theorem emit_db (m : Mach) (t : Token) : DB (emit m t) m := (by simp [DB])
theorem nameErr_db (o : Opts) (m : Mach) (nb : Str) : DB (nameErr o m nb) m := by
  unfold nameErr; split
  · exact emit_db _ _
  · exact emitErr_db _ _

theorem unconsume_db (m : Mach) (inp buf : Str) : DB (unconsume m inp buf).1 m := by
  unfold unconsume; split
  · exact (by simp [DB])
  · exact DB.refl _

theorem discardChar_db (o : Opts) (m m1 : Mach) (inp i1 : Str)
    (h : discardChar o m inp = .ok (m1, i1)) : DB m1 m := by
  unfold discardChar at h
  cases hg : getChar o m inp with
  | mk c r =>
    obtain ⟨m2, i2⟩ := r
    rw [hg] at h
    cases c with
    | none => simp at h
    | some c =>
      simp only [Except.ok.injEq, Prod.mk.injEq] at h
      obtain ⟨h1, _⟩ := h; subst h1
      exact getChar_db o m m2 inp i2 _ hg

theorem finishNumeric_db (o : Opts) (m : Mach) (cr : CharRefSt) : DB (finishNumeric o m cr).1 m := by
  unfold finishNumeric
  dsimp only
  repeat' split
  all_goals first | exact DB.refl _ | exact emit_db _ _ | exact emitErr_db _ _

def CRRes.db (r : CRRes) (m : Mach) : Prop :=
  match r with
  | .error _ => True
  | .ok (m1, _, _, _) => DB m1 m

theorem CRRes.db_trans {r : CRRes} {a b : Mach} (h : r.db a) (hab : DB a b) : r.db b := by
  cases r with
  | error _ => trivial
  | ok v => obtain ⟨m1, _, _, _⟩ := v; exact DB.trans h hab

theorem unconsumeNumeric_db (m : Mach) (inp : Str) (cr : CharRefSt) : (unconsumeNumeric m inp cr).db m := by
  simp only [unconsumeNumeric, CRRes.db]
  exact DB.trans (emitErr_db _ _) (unconsume_db _ _ _)

theorem finishNumericStatus_db (o : Opts) (m : Mach) (inp : Str) (cr : CharRefSt) :
    (finishNumericStatus o m inp cr).db m := by
  unfold finishNumericStatus
  have := finishNumeric_db o m cr
  split
  · rename_i heq; rw [heq] at this; exact this
  · trivial

theorem unconsumeName_db (m : Mach) (inp : Str) (cr : CharRefSt) : (unconsumeName m inp cr).db m := by
  unfold unconsumeName
  split
  · trivial
  · exact unconsume_db _ _ _

theorem namedDecision_db (m : Mach) (cr : CharRefSt) (nb : Str) (c1 c2 : Nat) (m1 : Mach) (r : Option Str)
    (h : namedDecision m cr nb c1 c2 = .ok (m1, r)) : DB m1 m := by
  unfold namedDecision at h
  dsimp only at h
  repeat' split at h
  all_goals
    first
      | (simp at h; done)
      | (simp only [Except.ok.injEq, Prod.mk.injEq] at h
         obtain ⟨h1, _⟩ := h; subst h1
         first | exact DB.refl _ | exact emitErr_db _ _)

theorem finishNamed_db (o : Opts) (m : Mach) (inp : Str) (cr : CharRefSt) (ec : Option Char) :
    (finishNamed o m inp cr ec).db m := by
  unfold finishNamed
  repeat' split
  all_goals
    first
      | trivial
      | exact DB.refl _
      | exact unconsumeName_db _ _ _
      | exact CRRes.db_trans (unconsumeName_db _ _ _) (nameErr_db _ _ _)
      | exact CRRes.db_trans (unconsumeName_db _ _ _) (namedDecision_db _ _ _ _ _ _ _ (by assumption))
      | exact DB.trans (unconsume_db _ _ _) (namedDecision_db _ _ _ _ _ _ _ (by assumption))
      | (dsimp only; split <;>
          first
            | exact DB.refl _
            | exact unconsumeName_db _ _ _
            | exact CRRes.db_trans (unconsumeName_db _ _ _) (nameErr_db _ _ _)
            | (refine CRRes.db_trans (unconsumeName_db _ _ _) ?_
               split <;> first | exact nameErr_db _ _ _ | exact DB.refl _))


theorem crStep_db (o : Opts) (m : Mach) (inp : Str) (cr : CharRefSt) : (crStep o m inp cr).db m := by
  unfold crStep
  cases hst : cr.state with
  | named =>
    simp only
    cases hg : getChar o m inp with
    | mk c r =>
      obtain ⟨m2, i2⟩ := r
      have hp := getChar_db o m m2 inp i2 c hg
      cases c with
      | none => exact hp
      | some c =>
        simp only
        repeat' split
        all_goals first | trivial | exact hp | exact CRRes.db_trans (finishNamed_db _ _ _ _ _) hp
  | bogusName =>
    simp only
    cases hg : getChar o m inp with
    | mk c r =>
      obtain ⟨m2, i2⟩ := r
      have hp := getChar_db o m m2 inp i2 c hg
      cases c with
      | none => exact hp
      | some c =>
        simp only
        repeat' split
        all_goals
          first
            | trivial
            | exact hp
            | exact CRRes.db_trans (unconsumeName_db _ _ _) (DB.trans (nameErr_db _ _ _) hp)
            | exact CRRes.db_trans (unconsumeName_db _ _ _) hp
  | begin =>
    simp only
    repeat' split
    all_goals first | trivial | exact DB.refl _ | exact discardChar_db _ _ _ _ _ (by assumption)
  | octothorpe =>
    simp only
    repeat' split
    all_goals first | trivial | exact DB.refl _ | exact discardChar_db _ _ _ _ _ (by assumption)
  | numeric base =>
    simp only
    repeat' split
    all_goals
      first
        | trivial
        | exact DB.refl _
        | exact discardChar_db _ _ _ _ _ (by assumption)
        | exact unconsumeNumeric_db _ _ _
  | numericSemicolon =>
    simp only
    repeat' split
    all_goals
      first
        | trivial
        | exact DB.refl _
        | exact CRRes.db_trans (finishNumericStatus_db _ _ _ _) (discardChar_db _ _ _ _ _ (by assumption))
        | exact CRRes.db_trans (finishNumericStatus_db _ _ _ _) (emitErr_db _ _)

theorem foldl_emitChar_db (chars : Str) (m : Mach) :
    DB (chars.foldl emitChar m) m ∧ True := by
  induction chars generalizing m with
  | nil => exact ⟨DB.refl _, trivial⟩
  | cons c cs ih =>
    have := ih (emitChar m c)
    exact ⟨DB.trans this.1 (by simp [DB]), trivial⟩

theorem foldl_pushValue_db (chars : Str) (m : Mach) :
    DB (chars.foldl (fun m c => pushValue c m) m) m ∧ True := by
  induction chars generalizing m with
  | nil => exact ⟨DB.refl _, trivial⟩
  | cons c cs ih =>
    have := ih (pushValue c m)
    exact ⟨DB.trans this.1 (by simp [DB]), trivial⟩

theorem processCharRef_db (m : Mach) (chars : Str) : DB (processCharRef m chars).1 m := by
  unfold processCharRef
  dsimp only
  split
  · exact (foldl_emitChar_db _ _).1
  · exact (foldl_emitChar_db _ _).1
  · exact (foldl_pushValue_db _ _).1
  · exact DB.refl _

theorem setCharRef_db (m : Mach) (cr : Option CharRefSt) : DB (m.setCharRef cr) m := (by simp [DB])

theorem stepCharRef_db (o : Opts) (m : Mach) (inp : Str) (cr : CharRefSt) (m' : Mach)
    (h : (stepCharRef o m inp cr).mach? = some m') : DB m' m := by
  unfold stepCharRef at h
  have hp := crStep_db o m inp cr
  cases hc : crStep o m inp cr with
  | error x => rw [hc] at h; simp [R.mach?] at h
  | ok v =>
    obtain ⟨m1, i1, cr1, st⟩ := v
    rw [hc] at h hp
    cases st with
    | stuck =>
      simp only [R.mach?, Option.some.injEq] at h; subst h
      exact DB.trans (setCharRef_db _ _) hp
    | progress =>
      simp only [R.mach?, Option.some.injEq] at h; subst h
      exact DB.trans (setCharRef_db _ _) hp
    | done chars =>
      have := ofSig_mach _ _ _ h
      subst this
      exact DB.trans (setCharRef_db _ _) (DB.trans (processCharRef_db _ _) hp)



theorem transChar_discardBom (o : Opts) (m : Mach) (c : Char) :
    (transChar o m c).1.discardBom = m.discardBom := by table_fields
theorem transSet_discardBom (m : Mach) (r : SetRes) : (transSet m r).1.discardBom = m.discardBom := by
  unfold transSet; split <;> (repeat' split) <;> simp

theorem popExceptFrom_db (o : Opts) (S : List Char) (m m1 : Mach) (inp i1 : Str) (r : Option SetRes)
    (h : popExceptFrom o S m inp = (r, m1, i1)) : m1.discardBom = m.discardBom := by
  unfold popExceptFrom at h
  split at h
  · cases hg : getChar o m inp with
    | mk c rest =>
      obtain ⟨m2, i2⟩ := rest
      simp only [hg, Prod.mk.injEq] at h
      obtain ⟨_, h2, _⟩ := h; subst h2
      exact getChar_db o m m2 inp i2 c hg
  · rename_i hnot
    cases inp with
    | nil => simp only [Prod.mk.injEq] at h; obtain ⟨_, h2, _⟩ := h; subst h2; simp
    | cons x xs =>
      simp only at h
      split at h
      · cases hp : preprocess o m x xs with
        | mk c rest =>
          obtain ⟨m2, i2⟩ := rest
          simp only [hp, Prod.mk.injEq] at h
          obtain ⟨_, h2, _⟩ := h; subst h2
          have hr : m.reconsume = false := by
            cases hrr : m.reconsume with
            | false => rfl
            | true => simp [hrr] at hnot
          have : getChar o m (x :: xs) = (c, m2, i2) := by simp [getChar, hr, hp]
          exact getChar_db o m m2 _ i2 c this
      · simp only [Prod.mk.injEq] at h; obtain ⟨_, h2, _⟩ := h; subst h2; simp

theorem eatSkipLf_db (o : Opts) (m : Mach) (inp : Str) : (eatSkipLf o m inp).1.discardBom = m.discardBom := by
  unfold eatSkipLf
  split
  · cases hpk : peek m inp with
    | none => simp
    | some c =>
      simp only
      split
      · cases hg : getChar o (m.setIgnoreLf false) inp with
        | mk c' r =>
          obtain ⟨m2, i2⟩ := r
          have := getChar_db o _ m2 inp i2 c' hg
          simpa using this
      · simp
  · rfl

theorem eat_db (o : Opts) (m m1 : Mach) (inp i1 pat : Str) (b : Option Bool)
    (h : eat o m inp pat = (b, m1, i1)) : m1.discardBom = m.discardBom := by
  rw [eat_eq_core] at h
  unfold eatCore at h
  have hf := eatSkipLf_db o m inp
  repeat' split at h
  all_goals
    (simp only [Prod.mk.injEq] at h
     obtain ⟨_, h2, _⟩ := h
     subst h2
     simp [hf])

theorem stepMd_db (o : Opts) (m : Mach) (inp : Str) (m' : Mach)
    (h : (stepMd o m inp).mach? = some m') : m'.discardBom = m.discardBom := by
  unfold stepMd at h
  cases h1 : eat o m inp kwDashDash with
  | mk b1 r1 =>
    obtain ⟨m1, i1⟩ := r1
    have d1 := eat_db o m m1 inp i1 _ b1 h1
    rw [h1] at h
    rcases b1 with _ | _ | _
    · simp only [R.mach?, Option.some.injEq] at h; subst h; exact d1
    · simp only at h
      cases h2 : eat o m1 i1 kwCdata with
      | mk b2 r2 =>
        obtain ⟨m2, i2⟩ := r2
        have d2 := eat_db o m1 m2 i1 i2 _ b2 h2
        rw [h2] at h
        rcases b2 with _ | _ | _
        · simp only [R.mach?, Option.some.injEq] at h; subst h; exact d2.trans d1
        · simp only at h
          cases h3 : eat o m2 i2 kwDoctype with
          | mk b3 r3 =>
            obtain ⟨m3, i3⟩ := r3
            have d3 := eat_db o m2 m3 i2 i3 _ b3 h3
            rw [h3] at h
            rcases b3 with _ | _ | _ <;>
              (simp only [R.mach?, Option.some.injEq] at h; subst h; simp [d3, d2, d1])
        · simp only [R.mach?, Option.some.injEq] at h; subst h; simp [d2, d1]
    · simp only [R.mach?, Option.some.injEq] at h; subst h; simp [d1]

theorem stepAdn_db (o : Opts) (m : Mach) (inp : Str) (m' : Mach)
    (h : (stepAdn o m inp).mach? = some m') : m'.discardBom = m.discardBom := by
  unfold stepAdn at h
  cases h1 : eat o m inp kwPublic with
  | mk b1 r1 =>
    obtain ⟨m1, i1⟩ := r1
    have d1 := eat_db o m m1 inp i1 _ b1 h1
    rw [h1] at h
    rcases b1 with _ | _ | _
    · simp only [R.mach?, Option.some.injEq] at h; subst h; exact d1
    · simp only at h
      cases h2 : eat o m1 i1 kwSystem with
      | mk b2 r2 =>
        obtain ⟨m2, i2⟩ := r2
        have d2 := eat_db o m1 m2 i1 i2 _ b2 h2
        rw [h2] at h
        rcases b2 with _ | _ | _
        · simp only [R.mach?, Option.some.injEq] at h; subst h; exact d2.trans d1
        · simp only at h
          cases h3 : getChar o m2 i2 with
          | mk c3 r3 =>
            obtain ⟨m3, i3⟩ := r3
            have d3 := getChar_db o m2 m3 i2 i3 c3 h3
            rw [h3] at h
            cases c3 with
            | none => simp only [R.mach?, Option.some.injEq] at h; subst h; simp [d3, d2, d1]
            | some c3 =>
              have := ofSig_mach _ _ _ h
              subst this
              rw [transChar_discardBom, d3, d2, d1]
        · simp only [R.mach?, Option.some.injEq] at h; subst h; simp [d2, d1]
    · simp only [R.mach?, Option.some.injEq] at h; subst h; simp [d1]

/-- no step of the tokenizer loop touches `discard_bom` -/
theorem step_discardBom (o : Opts) (m : Mach) (inp : Str) (m' : Mach)
    (h : (step o m inp).mach? = some m') : m'.discardBom = m.discardBom := by
  cases hcr : m.charRef with
  | some cr =>
    rw [step_kind_charRef o m inp cr hcr] at h
    exact stepCharRef_db o m inp cr m' h
  | none =>
    cases hrk : readKind m.state with
    | getChar =>
      rw [step_getChar o m inp hcr hrk] at h
      cases hgc : getChar o m inp with
      | mk c r =>
        obtain ⟨m1, i1⟩ := r
        rw [hgc] at h
        have d := getChar_db o m m1 inp i1 c hgc
        cases c with
        | none => simp only [contChar, R.mach?, Option.some.injEq] at h; subst h; exact d
        | some c => have := ofSig_mach _ _ _ h; subst this; rw [transChar_discardBom, d]
    | popExcept =>
      rw [step_popExcept o m inp hcr hrk] at h
      cases hgc : popExceptFrom o (setOf m.state) m inp with
      | mk c r =>
        obtain ⟨m1, i1⟩ := r
        rw [hgc] at h
        have d := popExceptFrom_db o _ m m1 inp i1 c hgc
        cases c with
        | none => simp only [contSet, R.mach?, Option.some.injEq] at h; subst h; exact d
        | some c => have := ofSig_mach _ _ _ h; subst this; rw [transSet_discardBom, d]
    | eatMd => rw [step_kind_md o m inp hcr hrk] at h; exact stepMd_db o m inp m' h
    | eatAdn => rw [step_kind_adn o m inp hcr hrk] at h; exact stepAdn_db o m inp m' h

theorem runsTo_discardBom (o : Opts) {m : Mach} {a : Str} {m1 : Mach} (hrun : RunsTo o m a m1) :
    m1.discardBom = m.discardBom := by
  induction hrun with
  | @susp m0 inp0 m0' hs => exact step_discardBom o m0 inp0 m0' (by rw [hs]; rfl)
  | @cont m0 inp0 mx ix m0' hs hr ih =>
    exact ih.trans (step_discardBom o m0 inp0 mx (by rw [hs]; rfl))

end H5V.Model.XmlTok
