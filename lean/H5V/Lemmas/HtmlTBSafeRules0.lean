import H5V.Lemmas.HtmlTBSafeMisc
/-!
# Tree-builder safety, part 9: what a rule (`step mode token`) guarantees

`StepPost tok res s'`: the handle invariant holds, the state invariant holds for the mode the
builder will be in when `process_to_completion` has looked at the result (`nextMode`), and the result
has a shape `process_to_completion` can handle without hitting its `assert!(more_tokens.is_empty())`
(`ResOk`: `Reprocess` carries the same token; character tokens never switch the tokenizer state).

The specifications of the rules that other rules delegate to are stated as `Prop`s (`HeadSpec`,
`BodySpec`, `TableSpec`, `AllSpec`), so that the per-mode lemmas can be proved independently, taking
the specifications of their delegates as hypotheses.
-/
namespace H5V.Lemmas.TBSafe
open H5V.Model.HtmlTB
open H5V.Model.Dom (Id QualName Attr NodeOrText SinkOp Output ElementFlags QuirksMode Dom NodeData Node)

variable {al : Allow}

def isCharsTok : Token → Bool
  | .chars _ _ => true
  | _ => false

/-- the mode after `process_to_completion` has handled the result -/
def nextMode (res : ProcessResult) (cur : Mode) : Mode :=
  match res with
  | .reprocess m _ => m
  | _ => cur

/-- the tokens the Text insertion mode can handle -/
def textTok : Token → Bool
  | .chars _ _ => true
  | .eof => true
  | .tag t => t.kind == .endTag
  | _ => false

def ResOk (tok : Token) : ProcessResult → Prop
  | .reprocess m t => t = tok ∧ m ≠ .text
  | .reprocessForeign _ => False
  | .script _ => isCharsTok tok = false
  | .toPlaintext => isCharsTok tok = false
  | .toRawData _ => isCharsTok tok = false
  | _ => True

structure StepPost (tok : Token) (res : ProcessResult) (s' : State) : Prop where
  h : HInv s'
  s : SInv (nextMode res s'.mode) s'
  r : ResOk tok res

/-! ### changing fields the invariants do not look at -/

theorem HInv.withMode {s : State} (h : HInv s) (m : Mode) : HInv { s with mode := m } :=
  ⟨h.open_el, h.open_tc, h.af, h.head, h.form, h.ctx⟩

theorem SInv.withMode {m : Mode} {s : State} (h : SInv m s) (x : Mode) : SInv m { s with mode := x } :=
  ⟨h.root, h.stack, h.head, h.headIn, h.text, h.tableText, h.pending, h.tmpl, h.tmodes⟩

theorem HInv.withFoster {s : State} (h : HInv s) (b : Bool) : HInv { s with fosterParenting := b } :=
  ⟨h.open_el, h.open_tc, h.af, h.head, h.form, h.ctx⟩

theorem SInv.withFoster {m : Mode} {s : State} (h : SInv m s) (b : Bool) : SInv m { s with fosterParenting := b } :=
  ⟨h.root, h.stack, h.head, h.headIn, h.text, h.tableText, h.pending, h.tmpl, h.tmodes⟩

theorem TI.withFoster {s : State} (h : TI s) (b : Bool) : TI { s with fosterParenting := b } :=
  ⟨h.h.withFoster b, h.s.withFoster b⟩

theorem HInv.withIgnoreLf {s : State} (h : HInv s) (b : Bool) : HInv { s with ignoreLf := b } :=
  ⟨h.open_el, h.open_tc, h.af, h.head, h.form, h.ctx⟩

theorem SInv.withIgnoreLf {m : Mode} {s : State} (h : SInv m s) (b : Bool) : SInv m { s with ignoreLf := b } :=
  ⟨h.root, h.stack, h.head, h.headIn, h.text, h.tableText, h.pending, h.tmpl, h.tmodes⟩

theorem TI.withIgnoreLf {s : State} (h : TI s) (b : Bool) : TI { s with ignoreLf := b } :=
  ⟨h.h.withIgnoreLf b, h.s.withIgnoreLf b⟩

theorem TI.rooted {s : State} (h : TI s) (hm : preRoot s.mode = false) : Rooted s.dom s.openElems := h.s.root hm

theorem TI.place {s : State} (h : TI s) (hm : preRoot s.mode = false) : PlaceOk s none :=
  PlaceOk.of_hinv h.h (h.rooted hm)

/-- switch to a mode without `orig_mode` bookkeeping: the new mode's own requirements suffice -/
theorem SInv.chmode {m m' : Mode} {s : State} (h : SInv m s) (hm : m ≠ .inTableText)
    (hr : preRoot m' = false → Rooted s.dom s.openElems) (hs : ModeStack s.dom m' s.openElems)
    (hh : needsHead m' = true → s.headElem.isSome = true) (ht : m' ≠ .text) (htt : m' ≠ .inTableText) :
    SInv m' s :=
  ⟨hr, hs, hh, h.headIn, fun e => absurd e ht, fun e => absurd e htt, fun _ => h.pending hm, h.tmpl, h.tmodes⟩

/-- the result of a body-like step that keeps the mode -/
theorem StepPost.of_bstep {tok : Token} {res : ProcessResult} {s s' : State} (ht : TI s)
    (hm : bodyLike s.mode = true) (b : BStep s s') (hk : Keeps (modeNeed s.mode) s s')
    (hn : nextMode res s'.mode = s'.mode) (hr : ResOk tok res) : StepPost tok res s' :=
  ⟨b.hinv, by rw [hn, b.mode]; exact ht.s.of_bstep ht.h b hm hk, hr⟩

/-- nothing safety-relevant changed -/
theorem StepPost.of_same {tok : Token} {res : ProcessResult} {s s' : State} (ht : TI s) (st : Same s s')
    (hn : nextMode res s'.mode = s'.mode) (hr : ResOk tok res) : StepPost tok res s' :=
  ⟨ht.h.of_same st, by rw [hn]; exact (ht.of_same st).s, hr⟩

theorem StepPost.of_qf {tok : Token} {res : ProcessResult} {s s' : State} (ht : TI s) (q : QF s s')
    (hn : nextMode res s'.mode = s'.mode) (hr : ResOk tok res) : StepPost tok res s' :=
  StepPost.of_same ht q.same hn hr

/-- `modeNeed` names are HTML names: a step that keeps all HTML elements keeps them -/
theorem Keeps.of_html {m : Mode} {s s' : State} (h : Keeps (fun n => n.ns == nsHtml) s s') :
    Keeps (modeNeed m) s s' := by
  intro x hx hp
  refine h x hx ?_
  cases m <;> simp only [modeNeed] at hp <;> try (cases hp)
  · simp only [beq_iff_eq] at hp; rw [hp]; rfl
  · simp only [tdTh, htmlIn, Bool.and_eq_true] at hp; exact hp.1

theorem Keeps.of_tdTh {m : Mode} {s s' : State} (hm : m ≠ .inHead) (h : Keeps tdTh s s') :
    Keeps (modeNeed m) s s' := by
  intro x hx hp
  cases m <;> simp only [modeNeed] at hp <;> try (cases hp)
  · exact absurd rfl hm
  · exact h x hx hp

/-! ### the tokens `InHead` is delegated -/

/-- the tokens other modes pass on to the `InHead` rules -/
def headDeleg : Token → Bool
  | .chars .whitespace _ => true
  | .comment _ => true
  | .tag tag => tag.isStart ["base", "basefont", "bgsound", "link", "meta", "noframes", "script", "style",
                              "template", "title"] || tag.isEnd ["template"]
  | _ => false

/-! ### the specifications of the delegates -/

/-- `InHead` rules: in mode `InHead` for every token; from any other mode (except the root-less ones,
`Text`, `InTableText`) for the delegated tokens -/
def HeadSpec [al : Allow] : Prop := ∀ (tok : Token) (s : State), TI s → origOk s.mode = true →
  (s.mode = .inHead ∨ headDeleg tok = true) → Sat (stepInHead tok) s (StepPost tok)

/-- `InBody` rules, run in any body-like mode but `InHead`; in `InTableText` only for character
tokens (the flush of the pending table text), in `InCell` not for `</td>`/`</th>` (which `InCell`
handles itself).  Character tokens are answered with `Done`. -/
def BodySpec [al : Allow] : Prop := ∀ (tok : Token) (s : State), TI s → bodyLike s.mode = true → s.mode ≠ .inHead →
  (s.mode = .inTableText → isCharsTok tok = true) → (s.mode = .inCell → isTagEnd tok ["td", "th"] = false) →
  Sat (stepInBody tok) s (fun res s' => StepPost tok res s' ∧ (isCharsTok tok = true → res = .done))

/-- `InTable` rules, run in `InTable`, `InTableBody` or `InRow` -/
def TableSpec [al : Allow] : Prop := ∀ (tok : Token) (s : State), TI s → tableMode s.mode = true →
  Sat (stepInTable tok) s (StepPost tok)

/-- every rule, run in its own mode; in `Text` mode either the `unreachable!` is tolerated
(`Allow.text`) or the token is one the mode can handle -/
def AllSpec [al : Allow] : Prop := ∀ (tok : Token) (s : State), TI s →
  (s.mode = .text → al.text ∨ textTok tok = true) → Sat (step s.mode tok) s (StepPost tok)

/-- what the adoption agency / "any other end tag" do to the builder state (same as `AAPost` of
HtmlTBSafeAA.lean; duplicated so that the InBody rules can be proved against hypotheses) -/
structure AAPostB (s s' : State) : Prop where
  fr : Fr s s'
  hinv : HInv s'
  rooted : Rooted s'.dom s'.openElems
  news : ∀ x ∈ s'.openElems, x ∈ s.openElems ∨ isFmtE (nm s'.dom x) = true
  keeps : ∀ x ∈ s.openElems, specialTag (nm s.dom x) = true → x ∈ s'.openElems
  tcnt : tcount s'.dom s'.openElems ≤ tcount s.dom s.openElems

/-- `process_end_tag_in_body` -/
def EndTagSpec [al : Allow] : Prop := ∀ (tag : Tag) (s : State), HInv s → Rooted s.dom s.openElems →
  tag.name ≠ "html".toList →
  Sat (processEndTagInBody tag) s (fun _ s' => ∃ pre post, s.openElems = pre ++ post ∧ St s s' pre ∧ pre ≠ [] ∧
    ∀ y ∈ post, specialTag (nm s.dom y) = false ∨ namedP s.dom tag.name y = true)

/-- `adoption_agency` -/
def AgencySpec [al : Allow] : Prop := ∀ (subject : Str) (s : State), HInv s → Rooted s.dom s.openElems →
  isOneOf subject fmtNames = true → Sat (adoptionAgency subject) s (fun _ s' => AAPostB s s')

/-- `handle_misnested_a_tags` -/
def MisnestedSpec [al : Allow] : Prop := ∀ (s : State), HInv s → Rooted s.dom s.openElems →
  Sat handleMisnestedATags s (fun _ s' => AAPostB s s')

/-- the EOF arm of `InTemplate` (also reached from `InBody`) -/
def TemplateEofSpec [al : Allow] : Prop := ∀ (s : State), TI s → origOk s.mode = true → Sat inTemplateEof s (StepPost .eof)

/-- the tokens `AfterHead` handles by pushing the head element back and using the `InHead` rules -/
def afterHeadDeleg (tok : Token) : Bool :=
  isTagStart tok ["base", "basefont", "bgsound", "link", "meta", "noframes", "script", "style", "template", "title"]

/-- `AfterHead`: `push(head); step(InHead, token); remove_from_stack(head)` -/
def AfterHeadBlockSpec [al : Allow] : Prop := ∀ (tok : Token) (head : Id) (s : State), TI s → s.mode = .afterHead →
  s.headElem = some head → afterHeadDeleg tok = true →
  Sat (do
    push head
    let result ← stepInHead tok
    removeFromStack head
    pure result) s (StepPost tok)

/-! ### the `<html>` start tag -/

theorem stepInBody_html {tag : Tag} (h : tag.isStart ["html"] = true) :
    stepInBody (.tag tag) = inBodyHtml tag := by
  unfold stepInBody
  simp only [h, if_true]

theorem sat_inBodyHtml {tag : Tag} {s : State} (hi : HInv s) (hr : Rooted s.dom s.openElems) :
    Sat (inBodyHtml tag) s (fun res s' => res = .done ∧ QF s s') := by
  unfold inBodyHtml
  refine sat_unexpected.bind ?_
  rintro _ s1 ⟨-, hq1⟩
  refine (sat_inHtmlElemNamed (by rw [hq1.openElems]; exact hi.open_el.ext hq1.ext)).bind ?_
  rintro b s2 ⟨-, hq2⟩
  have hq := hq1.trans hq2
  split
  · obtain ⟨r, rest, hl, hn⟩ := hr
    have hl2 : s2.openElems = r :: rest := by rw [hq.openElems]; exact hl
    refine (sat_htmlElemFn hl2).bind ?_
    rintro top s2' ⟨rfl, rfl⟩
    have hel : IsEl s2'.dom top := (hi.open_el top (by rw [hl]; exact List.mem_cons_self)).ext hq.ext
    refine (sat_addAttrs hel).bind ?_
    intro _ s3 hq3
    exact sat_pure ⟨rfl, hq.trans hq3⟩
  · exact sat_pure ⟨rfl, hq⟩

/-- the `<html>` start tag, as handled by every mode that has a root -/
theorem sat_stepInBody_html {tag : Tag} {s : State} (ht : TI s) (hm : preRoot s.mode = false)
    (h : tag.isStart ["html"] = true) :
    Sat (stepInBody (.tag tag)) s (StepPost (.tag tag)) := by
  rw [stepInBody_html h]
  refine (sat_inBodyHtml ht.h (ht.rooted hm)).mono ?_
  rintro res s' ⟨rfl, hq⟩
  exact StepPost.of_qf ht hq rfl trivial

end H5V.Lemmas.TBSafe
