import H5V.Lemmas.HtmlTBFuelRules2
import H5V.Lemmas.HtmlTBSafeTable
/-!
# The fuel of `process_to_completion`, part 12: the table modes

`TableE` (`stepInTable`), and `DJ` for InTable, InTableText, InCaption, InColumnGroup, InTableBody, InRow,
InCell.
-/
namespace H5V.Lemmas.TBFuel
open H5V.Model.HtmlTB
open H5V.Model.HtmlTok (TagKind)
open H5V.Model.Dom (Id QualName Attr NodeOrText SinkOp Output ElementFlags QuirksMode Dom NodeData Node)
open H5V.Lemmas.TBSafe
open H5V.Lemmas.TBC (ok_bind ok_pure ok_getS_bind ok_modS_bind ok_ite ok_bind_pure)

/-! ### character tokens processed "in body" with foster parenting -/

theorem fmt_ne_table {n : EName} (h : isFmtE n = true) : n ≠ tableName := by
  rintro rfl
  revert h
  decide

/-- reconstructing the active formatting elements pushes formatting elements only -/
theorem wle_of_grown {s s' : State} (hi : HInv s) (g : Grown s s') : WLe s s' := by
  obtain ⟨news, ho, hn⟩ := g.open_
  refine ⟨?_, by rw [g.fr.templateModes]; exact Nat.le_refl _⟩
  rw [ho, tabCount_append, tabCount_ext g.fr.ext hi.open_el]
  have : tabCount s'.dom news = 0 := by
    unfold tabCount
    rw [List.countP_eq_zero]
    intro x hx
    have := fmt_ne_table (hn x hx)
    simpa using this
  omega

theorem WLe.of_qf' {s s' : State} (hel : AllEl s.dom s.openElems) (h : QF s s') : WLe s s' := WLe.of_qf hel h

/-- `stepInBody` on a character token: `Done`, the stack part does not grow -/
theorem ef_stepInBody_chars {sp : SplitStatus} {text : Str} {s s' : State} {r : ProcessResult} (hi : HInv s)
    (hr : Rooted s.dom s.openElems) (h : stepInBody (.chars sp text) s = .ok (r, s')) :
    r = .done ∧ WLe s s' ∧ BStep s s' := by
  obtain ⟨hres, hb⟩ := sat_ok (al := anyAl) (sat_stepInBody_chars hi hr) h
  refine ⟨hres, ?_, hb⟩
  unfold stepInBody at h
  dsimp only at h
  obtain ⟨_, s1, h1, h2⟩ := ok_bind h
  have g := sat_ok (al := anyAl) (sat_reconstructActiveFormattingElements hi hr) h1
  have hw1 := wle_of_grown hi g
  have hel1 : AllEl s1.dom s1.openElems := g.hinv.open_el
  have hq : ∀ s2, Shr s1 s2 → appendText text s2 = .ok (r, s') → WLe s s' := by
    intro s2 sh h3
    unfold appendText insertAppropriately at h3
    obtain ⟨_, s3, h4, _⟩ := ok_bind h3
    obtain ⟨ip, s4, h5, h6⟩ := ok_bind h4
    have q1 : QF s2 s4 := sq_appropriatePlaceForInsertion none s2 ip s4 h5
    have q2 : QF s4 s3 := sq_insertAt _ _ s4 _ s3 h6
    have hel2 : AllEl s2.dom s2.openElems := (sh.wa hel1).2
    have e3 : s' = s3 := by
      obtain ⟨_, s3', h4', h7⟩ := ok_bind h3
      have : s3' = s3 := by rw [h4] at h4'; cases h4'; rfl
      subst this
      exact (ok_pure h7).2.symm
    rw [e3]
    exact hw1.trans ((sh.wle hel1).trans (WLe.of_qf hel2 (q1.trans q2)))
  by_cases c : anyNotWhitespace text = true
  · rw [if_pos c] at h2
    obtain ⟨_, s2, h3, h4⟩ := ok_bind h2
    exact hq s2 (sh_setFramesetOk _ s1 _ s2 h3) h4
  · rw [if_neg c] at h2
    exact hq s1 (Shr.refl _) h2

theorem ef_fosterParentInBody_chars {sp : SplitStatus} {text : Str} {s s' : State} {r : ProcessResult} (hi : HInv s)
    (hr : Rooted s.dom s.openElems) (h : fosterParentInBody (.chars sp text) s = .ok (r, s')) :
    r = .done ∧ WLe s s' ∧ BStep s s' := by
  obtain ⟨hres, hb⟩ := sat_ok (al := anyAl) (sat_fosterParentInBody_chars hi hr) h
  refine ⟨hres, ?_, hb⟩
  unfold fosterParentInBody at h
  have h1 := ok_modS_bind h
  obtain ⟨r1, s1, h2, h3⟩ := ok_bind h1
  have h4 := ok_modS_bind h3
  obtain ⟨_, e2⟩ := ok_pure h4
  obtain ⟨_, hw, _⟩ := ef_stepInBody_chars (s := { s with fosterParenting := true }) (hi.withFoster true) hr h2
  rw [← e2]
  exact ⟨hw.tab, hw.tm⟩

theorem wle_flushPendingFoster : ∀ (l : List (SplitStatus × Str)) (s s' : State), HInv s →
    Rooted s.dom s.openElems → flushPendingFoster l s = .ok ((), s') → WLe s s' := by
  intro l
  induction l with
  | nil =>
    intro s s' _ _ h
    unfold flushPendingFoster at h
    rw [← (ok_pure h).2]; exact WLe.refl _
  | cons a rest ih =>
    intro s s' hi hr h
    obtain ⟨sp, text⟩ := a
    unfold flushPendingFoster at h
    obtain ⟨r1, s1, h1, h2⟩ := ok_bind h
    obtain ⟨hres, hw, hb⟩ := ef_fosterParentInBody_chars hi hr h1
    subst hres
    dsimp only at h2
    exact hw.trans (ih s1 s' hb.hinv hb.rooted h2)

theorem wle_flushPendingPlain : ∀ (l : List (SplitStatus × Str)) (s s' : State), AllEl s.dom s.openElems →
    flushPendingPlain l s = .ok ((), s') → WLe s s' := by
  intro l
  induction l with
  | nil =>
    intro s s' _ h
    unfold flushPendingPlain at h
    rw [← (ok_pure h).2]; exact WLe.refl _
  | cons a rest ih =>
    intro s s' hel h
    obtain ⟨sp, text⟩ := a
    unfold flushPendingPlain at h
    obtain ⟨r1, s1, h1, h2⟩ := ok_bind h
    unfold appendText insertAppropriately at h1
    obtain ⟨_, s3, h4, h7⟩ := ok_bind h1
    obtain ⟨ip, s4, h5, h6⟩ := ok_bind h4
    have q : QF s s3 := (sq_appropriatePlaceForInsertion none s ip s4 h5).trans (sq_insertAt _ _ s4 _ s3 h6)
    have e : s1 = s3 := (ok_pure h7).2.symm
    subst e
    have hel1 : AllEl s1.dom s1.openElems := by rw [q.openElems]; exact hel.ext q.ext
    exact (WLe.of_qf hel q).trans (ih s1 s' hel1 h2)

/-! ### `foster_parent_in_body` -/

theorem EB.frame {s0 s s1 s' : State} {tok : Token} {r : ProcessResult} (h : EB s0 tok r s1)
    (hd0 : s0.dom = s.dom) (ho0 : s0.openElems = s.openElems) (ht0 : s0.templateModes = s.templateModes)
    (hd1 : s'.dom = s1.dom) (ho1 : s'.openElems = s1.openElems) (ht1 : s'.templateModes = s1.templateModes) :
    EB s tok r s' := by
  cases r with
  | reprocess m' t =>
    rcases h with ⟨hc, hm, hw⟩ | ⟨he, hp⟩
    · exact Or.inl ⟨hc, hm, ⟨by rw [hd1, ho1, ← hd0, ← ho0]; exact hw.tab, by rw [ht1, ← ht0]; exact hw.tm⟩⟩
    · exact Or.inr ⟨he, ⟨by rw [hd1, ho1, ht1, ← hd0, ← ho0, ← ht0]; exact hp.w, hp.rk,
        fun hm => by rw [ht1]; exact hp.tmpl hm⟩⟩
  | splitWhitespace b => exact h
  | reprocessForeign t => exact h
  | _ => trivial

theorem eb_fosterParentInBody (hB : BodyE) {tok : Token} {s s' : State} {r : ProcessResult} (ht : TI s)
    (h : fosterParentInBody tok s = .ok (r, s')) : EB s tok r s' := by
  unfold fosterParentInBody at h
  have h1 := ok_modS_bind h
  obtain ⟨r1, s1, h2, h3⟩ := ok_bind h1
  have h4 := ok_modS_bind h3
  obtain ⟨e1, e2⟩ := ok_pure h4
  have he := hB tok _ r1 s1 (ht.withFoster true) h2
  rw [← e1, ← e2]
  exact he.frame rfl rfl rfl rfl rfl rfl

/-- `stepInBody`/`foster_parent_in_body` on a token that is neither `</html>` nor EOF is quiet -/
theorem quiet_of_eb {s s' : State} {tok : Token} {r : ProcessResult} (h : EB s tok r s')
    (h1 : cls tok ≠ .eHtml) (h2 : tok ≠ .eof) : Quiet r := by
  cases r with
  | reprocess m' t =>
    rcases h with ⟨hc, _⟩ | ⟨he, _⟩
    · exact absurd hc h1
    · exact absurd he h2
  | splitWhitespace b => exact h
  | reprocessForeign t => exact h
  | _ => trivial

/-! ### `stepInTable` -/

/-- the judgement of an arm of `stepInTable` -/
def TJ (f : M ProcessResult) (tok : Token) : Prop :=
  ∀ s r s', TI s → tableMode s.mode = true → f s = .ok (r, s') → ET s tok r s'

theorem et_of_quiet {s s' : State} {tok : Token} {r : ProcessResult} (h : Quiet r) : ET s tok r s' := by
  cases r <;> first | trivial | exact h.elim

theorem tj_of_ro {f : M ProcessResult} {tok : Token} (h : RO f Quiet) : TJ f tok :=
  fun s r s' _ _ hr => et_of_quiet (h s r s' hr)

theorem tj_ite {c : Prop} [Decidable c] {a b : M ProcessResult} {tok : Token}
    (h1 : c → TJ a tok) (h2 : ¬c → TJ b tok) : TJ (if c then a else b) tok := by
  by_cases hc : c
  · rw [if_pos hc]; exact h1 hc
  · rw [if_neg hc]; exact h2 hc

/-- `process_chars_in_table` -/
theorem tj_processCharsInTable (hB : BodyE) {tok : Token} (hc : isCharsOrNull tok = true) :
    TJ (processCharsInTable tok) tok := by
  intro s r s' ht _ hrun
  unfold processCharsInTable at hrun
  obtain ⟨b, s1, h1, h2⟩ := ok_bind hrun
  have sh1 := sh_currentNodeIn _ s b s1 h1
  by_cases cb : b = true
  · rw [if_pos cb] at h2
    have h3 := ok_getS_bind h2
    dsimp only at h3
    -- whatever the assertion did, the end is `modS …; Reprocess(InTableText, token)`
    have hend : ∀ s2, (do
        modS fun s => { s with origMode := some s.mode }
        pure (ProcessResult.reprocess Mode.inTableText tok) : M ProcessResult) s2 = .ok (r, s') →
        r = .reprocess .inTableText tok ∧ s'.dom = s2.dom ∧ s'.openElems = s2.openElems ∧
          s'.templateModes = s2.templateModes := by
      intro s2 h5
      have h6 := ok_modS_bind h5
      obtain ⟨e1, e2⟩ := ok_pure h6
      rw [← e1, ← e2]; exact ⟨rfl, rfl, rfl, rfl⟩
    by_cases cp : (!s1.pendingTableText.isEmpty) = true
    · rw [if_pos cp] at h3
      obtain ⟨_, _, h5, _⟩ := ok_bind h3
      cases h5
    · rw [if_neg cp] at h3
      obtain ⟨e, hd, ho, htm⟩ := hend s1 h3
      rw [e]
      have hw := sh1.wle ht.h.open_el
      exact Or.inl ⟨hc, rfl, ⟨by rw [hd, ho]; exact hw.tab, by rw [htm]; exact hw.tm⟩⟩
  · rw [if_neg cb] at h2
    obtain ⟨_, s2, h3, h4⟩ := ok_bind h2
    have sh2 := sh1.trans (sh_parseError _ s1 _ s2 h3)
    have ht2 : TI s2 := by
      have q1 : QF s s1 := by
        obtain ⟨top, hl⟩ : ∃ t, s.openElems.getLast? = some t := by
          cases hl : s.openElems.getLast? with
          | some t => exact ⟨t, rfl⟩
          | none =>
            exfalso
            unfold currentNodeIn currentNode at h1
            obtain ⟨_, _, h5, _⟩ := ok_bind h1
            have h6 := ok_getS_bind h5
            rw [hl] at h6; cases h6
        exact (sat_ok (al := anyAl) (sat_currentNodeIn hl (ht.h.open_el top (getLast?_mem hl))) h1).2
      have q2 : QF s1 s2 := sat_ok (al := anyAl) (Q := fun _ s' => QF s1 s') sat_parseError h3
      exact ht.of_qf (q1.trans q2)
    have he := eb_fosterParentInBody hB ht2 h4
    refine et_of_quiet (quiet_of_eb he ?_ ?_)
    · cases tok <;> first | (simp [isCharsOrNull] at hc; done) | (intro e; cases e)
    · cases tok <;> first | (simp [isCharsOrNull] at hc; done) | (intro e; cases e)

theorem nm_of_namedP_table {d : Dom} {x : Id} (h : namedP d "table".toList x = true) : nm d x = tableName := by
  unfold namedP at h
  cases hh : nm d x with
  | mk ns loc =>
    rw [hh] at h
    simp only [Bool.and_eq_true, beq_iff_eq] at h
    show (⟨ns, loc⟩ : EName) = ⟨nsHtml, "table".toList⟩
    rw [h.1, h.2]

/-- `<table>` inside a table: a table element is popped, then `Reprocess(reset_insertion_mode(), token)` -/
theorem tj_tableInTable {tok : Token} (hc : cls tok = .sTable) :
    TJ (do
      let _ ← unexpected
      if ← inScopeNamed tableScope "table" then
        let _ ← popUntilNamed "table"
        pure (ProcessResult.reprocess (← resetInsertionMode) tok)
      else pure ProcessResult.done) tok := by
  intro s r s' ht _ hrun
  obtain ⟨_, s1, h1, h2⟩ := ok_bind hrun
  have hq1 : QF s s1 := (sat_ok (al := anyAl) sat_unexpected h1).2
  have ht1 : TI s1 := ht.of_qf hq1
  obtain ⟨b, s2, h3, h4⟩ := ok_bind h2
  obtain ⟨hq2, hsp⟩ := sat_ok (al := anyAl) (sat_inScopeNamed' (scope := tableScope) (name := "table") ht1.h) h3
  have ht2 : TI s2 := ht1.of_qf hq2
  by_cases cb : b = true
  · rw [if_pos cb] at h4
    obtain ⟨pre, x, post, sp⟩ := hsp cb
    obtain ⟨n, s3, h5, h6⟩ := ok_bind h4
    unfold popUntilNamed at h5
    obtain ⟨st3, _⟩ := sat_ok (al := anyAl)
      (sat_popUntilNamedS (pre := pre) (x := x) (post := post) ht2.h.open_el sp.eq sp.px
        (fun y hy => (sp.above y hy).1)) h5
    obtain ⟨m', s4, h7, h8⟩ := ok_bind h6
    obtain ⟨e1, e2⟩ := ok_pure h8
    rw [← e1, ← e2]
    have sh4 := sh_resetInsertionMode s3 m' s4 h7
    have hq := hq1.trans hq2
    -- the stack part
    have hel3 : AllEl s3.dom s3.openElems := by
      rw [st3.openElems]
      exact fun y hy => (ht2.h.open_el y (by rw [sp.eq]; exact List.mem_append_left _ hy)).ext st3.fr.ext
    have t4 : tabCount s4.dom s4.openElems ≤ tabCount s3.dom s3.openElems := (sh4.wle hel3).tab
    have t3 : tabCount s3.dom s3.openElems = tabCount s2.dom pre := by
      rw [st3.openElems]
      exact tabCount_ext st3.fr.ext
        (fun y hy => ht2.h.open_el y (by rw [sp.eq]; exact List.mem_append_left _ hy))
    have t2 : tabCount s2.dom s2.openElems = tabCount s.dom s.openElems := by
      rw [hq.openElems]; exact tabCount_ext hq.ext ht.h.open_el
    have tx : tabCount s2.dom pre + 1 ≤ tabCount s2.dom s2.openElems := by
      rw [sp.eq, tabCount_append]
      have : 1 ≤ tabCount s2.dom (x :: post) := by
        unfold tabCount
        rw [List.countP_cons]
        have : (nm s2.dom x == tableName) = true := by rw [nm_of_namedP_table sp.px]; exact beq_self_eq_true _
        simp [this]
      omega
    have htm4 : s4.templateModes = s.templateModes := by
      rw [sh4.tm, st3.fr.templateModes, hq.templateModes]
    have hrange := range_resetInsertionMode h7
    refine Or.inr (Or.inr (Or.inr (Or.inl ⟨hc, ?_, ?_, ?_⟩)))
    · rw [htm4]; omega
    · rcases hrange with hr | hr
      · exact rank_resetRange hr .sTable (Or.inr rfl)
      · rw [htm4] at hr
        exact rank_tmplMode (ht.s.tmodes m' hr) .sTable (Or.inr rfl)
    · intro hm'
      rcases hrange with hr | hr
      · rw [hm'] at hr; exact absurd hr (by decide)
      · intro e; rw [e] at hr; cases hr
  · rw [if_neg cb] at h4
    rw [(ok_pure h4).1.symm]; trivial

/-- `foster_parent_in_body` of a tag token other than `</html>` -/
theorem ro_foster_tag (hB : BodyE) {tag : Tag} {s s' : State} {r : ProcessResult} (ht : TI s)
    (hne : cls (.tag tag) ≠ .eHtml) (h : fosterParentInBody (.tag tag) s = .ok (r, s')) : Quiet r :=
  quiet_of_eb (eb_fosterParentInBody hB ht h) hne (fun e => by cases e)

theorem cls_start_ne_eHtml {tag : Tag} {l : List String} (h : tag.isStart l = true) : cls (.tag tag) ≠ .eHtml :=
  fun hc => not_eHtml_start h hc

set_option maxHeartbeats 1600000 in
/-- **`stepInTable`** -/
theorem tableE (hH : HeadE) (hB : BodyE) : TableE := by
  intro tok
  show TJ (stepInTable tok) tok
  unfold stepInTable
  cases tok with
  | nullChar => exact tj_processCharsInTable hB rfl
  | chars st text => exact tj_processCharsInTable hB rfl
  | comment t => exact tj_of_ro (by ro_walk)
  | eof =>
    intro s r s' ht _ hrun
    have he := hB .eof s r s' ht hrun
    cases r with
    | reprocess m' t =>
      rcases he with ⟨hc, _⟩ | ⟨_, hp⟩
      · cases hc
      · exact Or.inr (Or.inr (Or.inr (Or.inr ⟨rfl, hp⟩)))
    | splitWhitespace b => exact he.elim
    | reprocessForeign t => exact he.elim
    | _ => trivial
  | tag tag =>
    dsimp only
    refine tj_ite (fun _ => tj_of_ro (by ro_walk)) (fun _ => ?_)
    refine tj_ite (fun _ => tj_of_ro (by ro_walk)) (fun _ => ?_)
    refine tj_ite (fun h => ?_) (fun _ => ?_)
    · intro s r s' ht _ hrun
      obtain ⟨e, w⟩ := (by ed_walk : ED _ Mode.inColumnGroup (Token.tag tag)) s r s' hrun
      rw [e]
      exact Or.inr (Or.inl ⟨cls_of_isStart (P := fun c => c = .sCol) h (by decide), rfl, (w ht.h.open_el).1⟩)
    refine tj_ite (fun _ => tj_of_ro (by ro_walk)) (fun _ => ?_)
    refine tj_ite (fun h => ?_) (fun _ => ?_)
    · intro s r s' ht _ hrun
      obtain ⟨e, w⟩ := (by ed_walk : ED _ Mode.inTableBody (Token.tag tag)) s r s' hrun
      rw [e]
      exact Or.inr (Or.inr (Or.inl ⟨cls_of_isStart (P := fun c => c = .sTdTh ∨ c = .sTr) h (by decide), rfl,
        (w ht.h.open_el).1⟩))
    refine tj_ite (fun h => tj_tableInTable (cls_of_isStart (P := fun c => c = .sTable) h (by decide))) (fun _ => ?_)
    refine tj_ite (fun _ => tj_of_ro (by ro_walk)) (fun _ => ?_)
    refine tj_ite (fun _ => tj_of_ro (by ro_walk)) (fun n8 => ?_)
    refine tj_ite (fun h => tj_of_ro (ro_stepInHead hH (headElse_startOrEnd h) tag_ne_notSplit)) (fun _ => ?_)
    refine tj_ite (fun h => ?_) (fun _ => ?_)
    · -- `<input>`
      intro s r s' ht _ hrun
      obtain ⟨_, s1, h1, h2⟩ := ok_bind hrun
      have ht1 : TI s1 := ht.of_qf (sat_ok (al := anyAl) sat_unexpected h1).2
      by_cases ch : isTypeHidden tag = true
      · rw [if_pos ch] at h2
        exact et_of_quiet ((by ro_walk : RO (do
          let _ ← insertAndPopElementFor tag
          pure ProcessResult.doneAckSelfClosing) Quiet) s1 r s' h2)
      · rw [if_neg ch] at h2
        exact et_of_quiet (ro_foster_tag hB ht1 (cls_start_ne_eHtml h) h2)
    refine tj_ite (fun _ => tj_of_ro (by ro_walk)) (fun _ => ?_)
    -- anything else: foster parenting
    intro s r s' ht _ hrun
    obtain ⟨_, s1, h1, h2⟩ := ok_bind hrun
    have ht1 : TI s1 := ht.of_qf (sat_ok (al := anyAl) sat_unexpected h1).2
    refine et_of_quiet (ro_foster_tag hB ht1 ?_ h2)
    intro hc
    exact n8 (end_sub ((isStart_of_cls hc).2.2.2.2.2.1 rfl) (by decide))

/-! ### the table modes -/

theorem eHtml_isEnd {tag : Tag} (hc : cls (.tag tag) = .eHtml) : tag.isEnd ["html"] = true :=
  (isStart_of_cls hc).2.2.2.2.2.1 rfl

theorem dj_stepInTable (hT : TableE) (tok : Token) : DJ (stepInTable tok) .inTable tok :=
  dj_table hT rfl (fun h => by rcases h with h | h <;> (rw [h]; decide))

/-- a token that is not a tag is not in a tag class -/
theorem cls_nontag {tok : Token} (h : ∀ t, tok ≠ .tag t) :
    cls tok = .chars ∨ cls tok = .null ∨ cls tok = .comment ∨ cls tok = .eof := by
  cases tok with
  | chars _ _ => exact Or.inl rfl
  | nullChar => exact Or.inr (Or.inl rfl)
  | comment _ => exact Or.inr (Or.inr (Or.inl rfl))
  | eof => exact Or.inr (Or.inr (Or.inr rfl))
  | tag t => exact absurd rfl (h t)

theorem rank_tt {om : Mode} {c : Cls} (hom : tableMode om = true) (h1 : c ≠ .chars) (h2 : c ≠ .null) :
    rank om c < rank .inTableText c := by
  cases om <;> first
    | (simp [tableMode] at hom; done)
    | (cases c <;> first | decide | exact absurd rfl h1 | exact absurd rfl h2)

set_option maxHeartbeats 1600000 in
theorem dj_stepInTableText (tok : Token) : DJ (stepInTableText tok) .inTableText tok := by
  unfold stepInTableText
  -- the flush-and-return arm, for every token that is neither characters nor U+0000
  have hmain : ∀ (tok : Token), cls tok ≠ .chars → cls tok ≠ .null → DJ (do
      let pending := (← getS).pendingTableText
      modS fun s => { s with pendingTableText := [] }
      let containsNonspace := pending.any (fun (split, text) =>
        match split with
        | .whitespace => false
        | .notWhitespace => true
        | .notSplit => anyNotWhitespace text)
      if containsNonspace then
        parseError "Non-space table text"
        flushPendingFoster pending
      else flushPendingPlain pending
      let s ← getS
      match s.origMode with
      | none => panicAt "unwrap-none" "rules.rs:1172" "orig_mode.take().unwrap()"
      | some m =>
        set { s with origMode := none }
        pure (ProcessResult.reprocess m tok)) .inTableText tok := by
    intro tok hc1 hc2 s r s' ht hm hrun
    have hs : SInv .inTableText s := by have := ht.s; rw [hm] at this; exact this
    have hr : Rooted s.dom s.openElems := hs.root rfl
    obtain ⟨om, ho, hom⟩ := hs.tableText rfl
    have h1 := ok_getS_bind hrun
    have h2 := ok_modS_bind h1
    dsimp only at h2
    have hi0 : HInv ({ s with pendingTableText := [] } : State) :=
      ⟨ht.h.open_el, ht.h.open_tc, ht.h.af, ht.h.head, ht.h.form, ht.h.ctx⟩
    -- the end
    have hend : ∀ s2, WLe s s2 → s2.origMode = some om → (do
        let s ← getS
        match s.origMode with
        | none => panicAt "unwrap-none" "rules.rs:1172" "orig_mode.take().unwrap()"
        | some m =>
          set { s with origMode := none }
          pure (ProcessResult.reprocess m tok) : M ProcessResult) s2 = .ok (r, s') →
        Dec s .inTableText tok r s' := by
      intro s2 hw ho2 h3
      have h4 := ok_getS_bind h3
      rw [ho2] at h4
      dsimp only at h4
      have h5 : (pure (ProcessResult.reprocess om tok) : M ProcessResult) { s2 with origMode := none } =
          .ok (r, s') := h4
      obtain ⟨e1, e2⟩ := ok_pure h5
      rw [← e1, ← e2]
      refine dec_of_rank ⟨hw.tab, hw.tm⟩ (Or.inl ?_) (rank_tt hom hc1 hc2)
      intro e; rw [e] at hom; cases hom
    by_cases c : (s.pendingTableText.any fun x =>
        match x with
        | (split, text) =>
          match split with
          | .whitespace => false
          | .notWhitespace => true
          | .notSplit => anyNotWhitespace text) = true
    · rw [if_pos c] at h2
      obtain ⟨_, s1, h5, h3⟩ := ok_bind h2
      obtain ⟨_, s2, h6, h4⟩ := ok_bind h3
      have q1 : QF ({ s with pendingTableText := [] } : State) s1 :=
        sat_ok (al := anyAl) (Q := fun _ s' => QF ({ s with pendingTableText := [] } : State) s') sat_parseError h5
      have b1 : BStep ({ s with pendingTableText := [] } : State) s1 := BStep.of_qf hi0 hr q1
      have b2 := sat_ok (al := anyAl) (sat_flushPendingFoster _ s1 b1.hinv b1.rooted) h6
      have w2 := wle_flushPendingFoster _ s1 s2 b1.hinv b1.rooted h6
      have w1 : WLe s s1 := by
        have := WLe.of_qf (s := ({ s with pendingTableText := [] } : State)) ht.h.open_el q1
        exact ⟨this.tab, this.tm⟩
      exact hend s2 (w1.trans w2) (by rw [b2.origMode, b1.origMode]; exact ho) h4
    · rw [if_neg c] at h2
      obtain ⟨_, s2, h3, h4⟩ := ok_bind h2
      have b2 := sat_ok (al := anyAl) (sat_flushPendingPlain _ _ hi0 hr) h3
      have w2 := wle_flushPendingPlain _ ({ s with pendingTableText := [] } : State) s2 ht.h.open_el h3
      exact hend s2 ⟨w2.tab, w2.tm⟩ (by rw [b2.origMode]; exact ho) h4
  cases tok with
  | nullChar => dj_quiet
  | chars st text => exact dj_of_ro (by ro_walk)
  | comment t => exact hmain _ (fun e => by cases e) (fun e => by cases e)
  | eof => exact hmain _ (fun e => by cases e) (fun e => by cases e)
  | tag tag =>
    refine hmain _ ?_ ?_
    · show clsTag tag.kind tag.name ≠ .chars
      unfold clsTag; repeat' split
      all_goals decide
    · show clsTag tag.kind tag.name ≠ .null
      unfold clsTag; repeat' split
      all_goals decide

/-- a non-tag token is not `</html>` -/
theorem nontag_ne_eHtml {tok : Token} (h : ∀ t, tok ≠ .tag t) {P : Prop} (hc : cls tok = .eHtml) : P := by
  rcases cls_nontag h with e | e | e | e <;> (rw [e] at hc; cases hc)

/-- delegation to `stepInBody` of a tag that an earlier arm excludes from being `</html>` -/
theorem dj_body_tag (hB : BodyE) {m : Mode} {tag : Tag} {l : List String}
    (hn : ¬tag.isEnd l = true) (hl : "html" ∈ l := by decide) : DJ (stepInBody (.tag tag)) m (.tag tag) :=
  dj_body hB (fun hc => absurd (end_sub (eHtml_isEnd hc) (fun x hx => by
    rw [List.mem_singleton.mp hx]; exact hl)) hn)

theorem dj_stepInCaption (hB : BodyE) (tok : Token) : DJ (stepInCaption tok) .inCaption tok := by
  unfold stepInCaption
  cases tok with
  | tag tag =>
    dsimp only
    refine dj_ite (fun h => ?_) (fun _ => ?_)
    · -- close the caption, then (unless `</caption>`) reprocess in InTable
      apply dj_of_aj
      refine aj_bind (wj_of_sh (sh_inScopeNamed _ _)) (fun b => ?_)
      refine aj_ite (fun _ => ?_) (fun _ => by aj_walk)
      refine aj_bind (by wj_walk) (fun _ => ?_)
      refine aj_bind (by wj_walk) (fun _ => ?_)
      refine aj_bind (by wj_walk) (fun _ => ?_)
      refine aj_ite (fun _ => by aj_walk) (fun hnc => aj_reprocess (by decide) ?_)
      -- not `</caption>`: a start tag of the list, or `</table>`
      rw [Bool.or_eq_true] at h
      rcases h with h | h
      · exact rank_of_isStart h (by decide)
      · obtain ⟨hk, x, hx, he⟩ := end_spec h
        simp only [List.mem_cons, List.not_mem_nil, or_false] at hx
        rcases hx with rfl | rfl
        · exact rank_of_isEnd (l := ["table"]) (by
            unfold Tag.isEnd; rw [hk, isOneOf_of_mem (x := "table") (by decide) he]; rfl) (by decide)
        · exact absurd (by unfold Tag.isEnd; rw [hk, isOneOf_of_mem (x := "caption") (by decide) he]; rfl) hnc
    refine dj_ite (fun _ => by dj_quiet) (fun n => dj_body_tag hB n)
  | chars st text => exact dj_body hB (fun hc => by cases hc)
  | comment t => exact dj_body hB (fun hc => by cases hc)
  | nullChar => exact dj_body hB (fun hc => by cases hc)
  | eof => exact dj_body hB (fun hc => by cases hc)

/-- the class of a tag token is a tag class -/
theorem cls_tag_mem (tag : Tag) : cls (.tag tag) ∈ [Cls.sTdTh, .sTr, .sCol, .sCapGrp, .sTable, .sOther,
    .eHtml, .eTable, .eTbodyGrp, .eTr, .eOther] := by
  show clsTag tag.kind tag.name ∈ _
  unfold clsTag
  repeat' split
  all_goals decide

theorem dj_stepInColumnGroup (hH : HeadE) (hB : BodyE) (tok : Token) :
    DJ (stepInColumnGroup tok) .inColumnGroup tok := by
  unfold stepInColumnGroup
  cases tok with
  | chars st text =>
    cases st with
    | notSplit => exact dj_split
    | whitespace => dj_quiet
    | notWhitespace => dsimp only; dj_arm
  | comment t => dj_quiet
  | nullChar => dsimp only; dj_arm
  | eof => exact dj_body hB (fun hc => by cases hc)
  | tag tag =>
    dsimp only
    refine dj_ite (fun h => dj_body hB (not_eHtml_start h)) (fun _ => ?_)
    refine dj_ite (fun _ => by dj_quiet) (fun ncol => ?_)
    refine dj_ite (fun _ => by dj_arm) (fun _ => ?_)
    refine dj_ite (fun _ => by dj_quiet) (fun _ => ?_)
    refine dj_ite (fun h => dj_head hH (headElse_startOrEnd h) tag_ne_notSplit) (fun _ => ?_)
    -- anything else: pop the colgroup, reprocess in InTable — for every tag but `<col>`
    apply dj_of_aj
    refine aj_bind (by wj_walk) (fun b => ?_)
    refine aj_ite (fun _ => ?_) (fun _ => by aj_walk)
    refine aj_bind (by wj_walk) (fun _ => aj_reprocess (by decide) ?_)
    have hc : cls (.tag tag) ≠ .sCol := fun hc => ncol ((isStart_of_cls hc).2.2.1 rfl)
    have hmem := cls_tag_mem tag
    generalize cls (Token.tag tag) = c at hc hmem
    cases c <;> first | decide | exact absurd rfl hc | (exact absurd hmem (by decide))

theorem dj_stepInTableBody (hT : TableE) (tok : Token) : DJ (stepInTableBody tok) .inTableBody tok := by
  unfold stepInTableBody
  cases tok with
  | tag tag =>
    dsimp only
    refine dj_ite (fun _ => by dj_quiet) (fun n1 => ?_)
    refine dj_ite (fun _ => by dj_arm) (fun n2 => ?_)
    refine dj_ite (fun _ => by dj_arm) (fun _ => ?_)
    refine dj_ite (fun _ => by dj_arm) (fun _ => ?_)
    refine dj_ite (fun _ => by dj_quiet) (fun _ => ?_)
    refine dj_table hT rfl ?_
    rintro (hc | hc)
    · exact absurd (start_sub ((isStart_of_cls hc).1 rfl) (by decide)) n2
    · exact absurd ((isStart_of_cls hc).2.1 rfl) n1
  | chars st text => exact dj_table hT rfl (by rintro (h | h) <;> cases h)
  | comment t => exact dj_table hT rfl (by rintro (h | h) <;> cases h)
  | nullChar => exact dj_table hT rfl (by rintro (h | h) <;> cases h)
  | eof => exact dj_table hT rfl (by rintro (h | h) <;> cases h)

theorem dj_stepInRow (hT : TableE) (tok : Token) : DJ (stepInRow tok) .inRow tok := by
  unfold stepInRow
  cases tok with
  | tag tag =>
    dsimp only
    refine dj_ite (fun _ => by dj_quiet) (fun n1 => ?_)
    refine dj_ite (fun _ => by dj_arm) (fun _ => ?_)
    refine dj_ite (fun _ => by dj_arm) (fun n3 => ?_)
    refine dj_ite (fun _ => by dj_arm) (fun _ => ?_)
    refine dj_ite (fun _ => by dj_quiet) (fun _ => ?_)
    refine dj_table hT rfl ?_
    rintro (hc | hc)
    · exact absurd (start_sub ((isStart_of_cls hc).1 rfl) (by decide)) n1
    · refine absurd ?_ n3
      rw [Bool.or_eq_true]
      exact Or.inl (start_sub ((isStart_of_cls hc).2.1 rfl) (by decide))
  | chars st text => exact dj_table hT rfl (by rintro (h | h) <;> cases h)
  | comment t => exact dj_table hT rfl (by rintro (h | h) <;> cases h)
  | nullChar => exact dj_table hT rfl (by rintro (h | h) <;> cases h)
  | eof => exact dj_table hT rfl (by rintro (h | h) <;> cases h)

theorem dj_stepInCell (hB : BodyE) (tok : Token) : DJ (stepInCell tok) .inCell tok := by
  unfold stepInCell
  cases tok with
  | tag tag =>
    dsimp only
    refine dj_ite (fun _ => by dj_arm) (fun _ => ?_)
    refine dj_ite (fun _ => by dj_arm) (fun _ => ?_)
    refine dj_ite (fun _ => by dj_quiet) (fun n3 => ?_)
    refine dj_ite (fun _ => by dj_arm) (fun _ => dj_body_tag hB n3)
  | chars st text => exact dj_body hB (fun hc => by cases hc)
  | comment t => exact dj_body hB (fun hc => by cases hc)
  | nullChar => exact dj_body hB (fun hc => by cases hc)
  | eof => exact dj_body hB (fun hc => by cases hc)

end H5V.Lemmas.TBFuel
