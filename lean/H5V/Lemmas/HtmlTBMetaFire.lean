import H5V.Lemmas.HtmlTBMetaRoute
import H5V.Lemmas.HtmlTBMetaHead
import H5V.Lemmas.HtmlTBMetaRun
/-!
C19, part 6: the `meta` arm of "in head", exactly: insert-and-pop, then the answer `qualifies`
prescribes; and `process_to_completion` hands an indicator straight back to the tokenizer.
-/
namespace H5V.Props.C19
open H5V.Model.Dom (Id QualName Attr NodeOrText SinkOp Output ElementFlags QuirksMode Dom)
open H5V.Model.HtmlTB
open H5V.Lemmas.TBM

/-- the answer of the `meta` arm -/
def answerOf : Option Str → ProcessResult
  | some l => .encodingIndicator l
  | none => .doneAckSelfClosing

/-- the only panic of the `meta` arm besides those of the insertion: the extracted slice is not
UTF-8 (cannot happen for a slice cut at ASCII bytes; not proved) -/
def MetaDecodes (tag : Tag) : Prop :=
  tag.getAttribute "charset" = none → isPragma tag = true →
    ∀ c, tag.getAttribute "content" = some c → ¬ labelUndecodable c

/-- what follows the insertion in the `meta` arm (rules.rs:190–222) -/
def metaAnswer (tag : Tag) : M ProcessResult :=
  match tag.getAttribute "charset" with
  | some cs => pure (.encodingIndicator cs)
  | none =>
    if isPragma tag then
      match tag.getAttribute "content" with
      | none => pure .doneAckSelfClosing
      | some c => do
        match ← extractEncoding c with
        | some enc => pure (.encodingIndicator enc)
        | none => pure .doneAckSelfClosing
    else pure .doneAckSelfClosing

theorem stepInHead_meta_eq {tag : Tag} (hm : isMetaStart tag) :
    stepInHead (.tag tag) = (insertAndPopElementFor tag >>= fun _ => metaAnswer tag) := by
  unfold stepInHead metaAnswer isPragma
  meta_simp hm
  cases h : tag.getAttribute "http-equiv" <;> rfl

theorem metaAnswer_ok {tag : Tag} {s s' : State} {r : ProcessResult} (h : metaAnswer tag s = .ok (r, s')) :
    r = answerOf (qualifies tag) ∧ s' = s := by
  unfold metaAnswer at h
  cases hcs : tag.getAttribute "charset" with
  | some cs =>
    simp only [hcs] at h
    obtain ⟨rfl, rfl⟩ := pure_ok.mp h
    exact ⟨by rw [qualifies_charset hcs]; rfl, rfl⟩
  | none =>
    simp only [hcs] at h
    rw [qualifies_pragma hcs]
    by_cases hp : isPragma tag = true
    · simp only [hp, if_true] at h ⊢
      cases hc : tag.getAttribute "content" with
      | none =>
        simp only [hc] at h
        obtain ⟨rfl, rfl⟩ := pure_ok.mp h
        exact ⟨rfl, rfl⟩
      | some c =>
        simp only [hc] at h
        obtain ⟨o, s1, e1, e2⟩ := bind_ok.mp h
        obtain ⟨rfl, rfl⟩ := extractEncoding_ok e1
        simp only [Option.bind_some]
        cases hl : contentLabel c with
        | none => simp only [hl] at e2; obtain ⟨rfl, rfl⟩ := pure_ok.mp e2; exact ⟨rfl, rfl⟩
        | some l => simp only [hl] at e2; obtain ⟨rfl, rfl⟩ := pure_ok.mp e2; exact ⟨rfl, rfl⟩
    · simp only [hp] at h ⊢
      obtain ⟨rfl, rfl⟩ := pure_ok.mp h
      exact ⟨rfl, rfl⟩

theorem metaAnswer_run {tag : Tag} (hd : MetaDecodes tag) (s : State) :
    metaAnswer tag s = .ok (answerOf (qualifies tag), s) := by
  unfold metaAnswer
  cases hcs : tag.getAttribute "charset" with
  | some cs => simp only; rw [qualifies_charset hcs]; rfl
  | none =>
    simp only
    rw [qualifies_pragma hcs]
    by_cases hp : isPragma tag = true
    · simp only [hp, if_true]
      cases hc : tag.getAttribute "content" with
      | none => rfl
      | some c =>
        simp only [Option.bind_some]
        refine bind_ok.mpr ⟨_, s, extractEncoding_run (hd hcs hp c hc) s, ?_⟩
        cases hl : contentLabel c <;> rfl
    · simp only [hp]; rfl

/-- **the `meta` arm of "in head"** (A1, ⇒): a successful run is the insertion followed by the
answer `qualifies` prescribes; nothing else happens to the state -/
theorem stepInHead_meta_ok {tag : Tag} (hm : isMetaStart tag) {s s' : State} {r : ProcessResult}
    (h : stepInHead (.tag tag) s = .ok (r, s')) :
    (∃ elem, insertAndPopElementFor tag s = .ok (elem, s')) ∧ r = answerOf (qualifies tag) := by
  rw [stepInHead_meta_eq hm] at h
  obtain ⟨elem, s1, e1, e2⟩ := bind_ok.mp h
  obtain ⟨rfl, rfl⟩ := metaAnswer_ok e2
  exact ⟨⟨elem, e1⟩, rfl⟩

/-- (A1, ⇐): if the insertion goes through, so does the rule -/
theorem stepInHead_meta_run {tag : Tag} (hm : isMetaStart tag) (hd : MetaDecodes tag) {s s' : State} {elem : Id}
    (h : insertAndPopElementFor tag s = .ok (elem, s')) :
    stepInHead (.tag tag) s = .ok (answerOf (qualifies tag), s') := by
  rw [stepInHead_meta_eq hm]
  exact bind_ok.mpr ⟨elem, s', h, metaAnswer_run hd s'⟩

/-- `meta` is neither form-associated nor `template` -/
theorem meta_plain {tag : Tag} (hm : isMetaStart tag) :
    formAssociatable ⟨nsHtml, tag.name⟩ = false ∧ isName tag.name "template" = false := by
  rw [hm.2]; exact ⟨by decide, by decide⟩

/-! ### `process_to_completion` on a `meta` start tag that reaches "in head" -/

theorem ptc_meta_fires {tag : Tag} (hm : isMetaStart tag) (hd : MetaDecodes tag) {s s1 s2 : State} {elem : Id}
    {l : Str} (hq : qualifies tag = some l)
    (hf : isForeign (.tag tag) s = .ok (false, s1)) (hmode : s1.mode = .inHead)
    (hi : insertAndPopElementFor tag s1 = .ok (elem, s2)) (fuel : Nat) (more : List Token) :
    processToCompletion (fuel + 1) (.tag tag) more s = .ok (.encodingIndicator l, s2) := by
  have hstep := stepInHead_meta_run hm hd hi
  rw [hq] at hstep
  unfold processToCompletion
  dsimp only
  refine bind_ok.mpr ⟨false, s1, hf, ?_⟩
  simp only [Bool.false_eq_true, if_false]
  refine bind_ok.mpr ⟨s1, s1, getS_ok.mpr ⟨rfl, rfl⟩, ?_⟩
  refine bind_ok.mpr ⟨_, s2, (by rw [hmode]; exact hstep), ?_⟩
  rfl

theorem ptc_meta_silent {tag : Tag} (hm : isMetaStart tag) (hd : MetaDecodes tag) {s s1 s2 : State} {elem : Id}
    (hq : qualifies tag = none)
    (hf : isForeign (.tag tag) s = .ok (false, s1)) (hmode : s1.mode = .inHead)
    (hi : insertAndPopElementFor tag s1 = .ok (elem, s2)) (fuel : Nat) :
    processToCompletion (fuel + 1) (.tag tag) [] s = .ok (.continue_, s2) := by
  have hstep := stepInHead_meta_run hm hd hi
  rw [hq] at hstep
  unfold processToCompletion
  dsimp only
  refine bind_ok.mpr ⟨false, s1, hf, ?_⟩
  simp only [Bool.false_eq_true, if_false]
  refine bind_ok.mpr ⟨s1, s1, getS_ok.mpr ⟨rfl, rfl⟩, ?_⟩
  refine bind_ok.mpr ⟨_, s2, (by rw [hmode]; exact hstep), ?_⟩
  rfl

end H5V.Props.C19
