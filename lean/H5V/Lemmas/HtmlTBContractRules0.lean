import H5V.Lemmas.HtmlTBContractLogic
/-!
# TreeSink contract for the HTML tree builder, part 5: judgements for the rules

* `TokOk tok` — the attribute list of a tag token is as the tokenizer delivers it (`AttrsOk`);
* `ResLate tok res` — what `process_to_completion` needs to know about a rule's answer: a `Reprocess`
  goes to a mode other than Initial, with the same token;
* `CPSP d0 c m R P` — `CPS` with a predicate `P` on the result; `RS d0 tok m` — the judgement of a rule;
* result lemmas by inversion (`ok_bind`, …) and `satc_and_ok`.
-/
namespace H5V.Lemmas.TBC
open H5V.Model.HtmlTB
open H5V.Model.Dom (Id QualName Attr NodeOrText SinkOp Output ElementFlags QuirksMode Dom NodeData Node Contract)
open H5V.Lemmas.TBSafe (IsEl nm sigOf Ext)

variable {d0 : Dom}

/-- tag tokens carry attribute lists as the tokenizer delivers them -/
def TokOk : Token → Prop
  | .tag t => AttrsOk t.attrs
  | _ => True

def ResLate (tok : Token) : ProcessResult → Prop
  | .reprocess m t => m ≠ .initial ∧ t = tok
  | .reprocessForeign t => t = tok
  | _ => True

/-- `CPS` with a predicate on the result -/
def CPSP (d0 : Dom) (c : List Id) {α : Type} (m : M α) (R : α → List Id) (P : α → Prop) : Prop :=
  ∀ s, CB d0 s → SAnc s.dom s.openElems → CtxOk c s →
    SatC m s (fun a s' => CB d0 s' ∧ SAnc s'.dom s'.openElems ∧ Ext s.dom s'.dom ∧ CtxOk (R a) s' ∧ P a)

/-- the judgement of a rule -/
def RS (d0 : Dom) (tok : Token) (m : M ProcessResult) : Prop := CPSP d0 [] m (fun _ => []) (ResLate tok)

theorem cpsp_of_cps {c : List Id} {α : Type} {m : M α} {R : α → List Id} (h : CPS d0 c m R) :
    CPSP d0 c m R (fun _ => True) := by
  intro s hcb hsa hc
  exact (h s hcb hsa hc).mono (fun a s' ⟨h1, h2, h3, h4⟩ => ⟨h1, h2, h3, h4, trivial⟩)

theorem cps_of_cpsp {c : List Id} {α : Type} {m : M α} {R : α → List Id} {P : α → Prop} (h : CPSP d0 c m R P) :
    CPS d0 c m R := by
  intro s hcb hsa hc
  exact (h s hcb hsa hc).mono (fun a s' ⟨h1, h2, h3, h4, _⟩ => ⟨h1, h2, h3, h4⟩)

theorem cpsp_bind {c : List Id} {α β : Type} {m : M α} {f : α → M β} {R : α → List Id} {R' : β → List Id}
    {P : β → Prop} (h1 : CPS d0 c m R) (h2 : ∀ a, CPSP d0 (R a ++ c) (f a) R' P) : CPSP d0 c (m >>= f) R' P := by
  intro s hcb hsa hc
  refine (h1 s hcb hsa hc).bind ?_
  rintro a s1 ⟨hcb1, hsa1, he1, hr1⟩
  refine (h2 a s1 hcb1 hsa1 (hr1.app (hc.ext he1))).mono ?_
  rintro b s2 ⟨hcb2, hsa2, he2, hr2, hp⟩
  exact ⟨hcb2, hsa2, he1.trans he2, hr2, hp⟩

/-- bind where the first part carries a result predicate that the continuation may use -/
theorem cpsp_bind' {c : List Id} {α β : Type} {m : M α} {f : α → M β} {R : α → List Id} {R' : β → List Id}
    {P1 : α → Prop} {P : β → Prop} (h1 : CPSP d0 c m R P1) (h2 : ∀ a, P1 a → CPSP d0 (R a ++ c) (f a) R' P) :
    CPSP d0 c (m >>= f) R' P := by
  intro s hcb hsa hc
  refine (h1 s hcb hsa hc).bind ?_
  rintro a s1 ⟨hcb1, hsa1, he1, hr1, hp1⟩
  refine (h2 a hp1 s1 hcb1 hsa1 (hr1.app (hc.ext he1))).mono ?_
  rintro b s2 ⟨hcb2, hsa2, he2, hr2, hp⟩
  exact ⟨hcb2, hsa2, he1.trans he2, hr2, hp⟩

theorem cpsp_pure {c : List Id} {α : Type} (a : α) {R : α → List Id} {P : α → Prop} (h : ∀ x ∈ R a, x ∈ c)
    (hp : P a) : CPSP d0 c (Pure.pure a : M α) R P :=
  fun s hcb hsa hc => satc_pure ⟨hcb, hsa, Ext.refl _, hc.sub h, hp⟩

theorem cpsp_pure_nil {c : List Id} {α : Type} (a : α) {P : α → Prop} (hp : P a) :
    CPSP d0 c (Pure.pure a : M α) (fun _ => []) P := cpsp_pure a (fun _ h => by cases h) hp

theorem cpsp_ite {c : List Id} {α : Type} {p : Prop} [Decidable p] {a b : M α} {R : α → List Id} {P : α → Prop}
    (h1 : p → CPSP d0 c a R P) (h2 : ¬p → CPSP d0 c b R P) : CPSP d0 c (if p then a else b) R P := by
  by_cases hp : p
  · rw [if_pos hp]; exact h1 hp
  · rw [if_neg hp]; exact h2 hp

theorem cpsp_getS_bind {c : List Id} {β : Type} {f : State → M β} {R : β → List Id} {P : β → Prop}
    (h : ∀ s0, CPSP d0 (stH s0 ++ c) (f s0) R P) : CPSP d0 c (getS >>= f) R P := by
  intro s hcb hsa hc
  refine satc_getS_bind ?_
  exact h s s hcb hsa ((ctxOk_stH hcb.h).app hc)

theorem cpsp_ctx_mono {c c' : List Id} {α : Type} {m : M α} {R : α → List Id} {P : α → Prop}
    (h : CPSP d0 c m R P) (hs : ∀ x ∈ c, x ∈ c') : CPSP d0 c' m R P :=
  fun s hcb hsa hc => h s hcb hsa (hc.sub hs)

theorem cpsp_drop {c : List Id} {α : Type} {m : M α} {R : α → List Id} {P : α → Prop} (h : CPSP d0 c m R P) :
    CPSP d0 c m (fun _ => []) P := by
  intro s hcb hsa hc
  exact (h s hcb hsa hc).mono (fun a s' ⟨h1, h2, h3, _, h5⟩ => ⟨h1, h2, h3, CtxOk.nil _, h5⟩)

theorem cpsp_weakenP {c : List Id} {α : Type} {m : M α} {R : α → List Id} {P P' : α → Prop}
    (h : CPSP d0 c m R P) (hp : ∀ a, P a → P' a) : CPSP d0 c m R P' := by
  intro s hcb hsa hc
  exact (h s hcb hsa hc).mono (fun a s' ⟨h1, h2, h3, h4, h5⟩ => ⟨h1, h2, h3, h4, hp a h5⟩)

theorem cpsp_panicAt {c : List Id} {α : Type} {cls site text : String} {R : α → List Id} {P : α → Prop}
    (h : TBSafe.infixL "@sink: ".toList (cls ++ "@" ++ site ++ ": " ++ text).toList = false := by decide) :
    CPSP d0 c (panicAt cls site text : M α) R P := fun _ _ _ _ => satc_panicAt h

/-- a rule called from another rule -/
theorem cpsp_of_rs {c : List Id} {tok : Token} {m : M ProcessResult} (h : RS d0 tok m) :
    CPSP d0 c m (fun _ => []) (ResLate tok) := cpsp_ctx_mono h (fun _ hx => by cases hx)

/-! ### results by inversion -/

theorem ok_bind {α β : Type} {m : M α} {f : α → M β} {s s'' : State} {b : β}
    (h : (m >>= f) s = .ok (b, s'')) : ∃ a s', m s = .ok (a, s') ∧ f a s' = .ok (b, s'') := by
  have h' : (StateT.bind m f) s = .ok (b, s'') := h
  unfold StateT.bind at h'
  cases hm : m s with
  | error e => rw [hm] at h'; cases h'
  | ok p => obtain ⟨a, s'⟩ := p; rw [hm] at h'; exact ⟨a, s', rfl, h'⟩

theorem ok_pure {α : Type} {a b : α} {s s' : State} (h : (pure a : M α) s = .ok (b, s')) : a = b ∧ s = s' := by
  have h' : (Except.ok (a, s) : Except String (α × State)) = .ok (b, s') := h
  cases h'; exact ⟨rfl, rfl⟩

/-- a `SatC` fact and a fact about every successful run hold together -/
theorem satc_and_ok {α : Type} {m : M α} {s : State} {Q : α → State → Prop} {P : α → Prop}
    (h : SatC m s Q) (hp : ∀ a s', m s = .ok (a, s') → P a) : SatC m s (fun a s' => Q a s' ∧ P a) := by
  unfold SatC at h ⊢
  cases hm : m s with
  | error e => rw [hm] at h; exact h
  | ok r => obtain ⟨a, s'⟩ := r; rw [hm] at h; exact ⟨h, hp a s' hm⟩

/-- a computation that ends in `pure r` answers `r` -/
theorem ok_bind_pure {α β : Type} {m : M α} {r : β} {s s'' : State} {b : β}
    (h : (m >>= fun _ => (pure r : M β)) s = .ok (b, s'')) : b = r := by
  obtain ⟨a, s', _, h2⟩ := ok_bind h
  exact (ok_pure h2).1.symm

/-- from a `CPS` fact and a result fact to `CPSP` -/
theorem cpsp_of_cps_ok {c : List Id} {α : Type} {m : M α} {R : α → List Id} {P : α → Prop} (h : CPS d0 c m R)
    (hp : ∀ s a s', m s = .ok (a, s') → P a) : CPSP d0 c m R P := by
  intro s hcb hsa hc
  exact (satc_and_ok (h s hcb hsa hc) (hp s)).mono (fun a s' ⟨⟨h1, h2, h3, h4⟩, h5⟩ => ⟨h1, h2, h3, h4, h5⟩)

/-- answers that are not `Reprocess…` are acceptable -/
def NoRep : ProcessResult → Prop
  | .reprocess _ _ => False
  | .reprocessForeign _ => False
  | _ => True

theorem ResLate.of_noRep {tok : Token} {res : ProcessResult} (h : NoRep res) : ResLate tok res := by
  cases res <;> first | trivial | exact h.elim

end H5V.Lemmas.TBC
