import H5V.Lemmas.HtmlTBReachActions3
/-!
C18, tree-builder side, part 6: the rules of `tree_builder/rules.rs` up to "in body" pass only known
handles to the sink.
-/
namespace H5V.Props.C18
open H5V.Model.Dom (Id QualName Attr NodeOrText SinkOp Output ElementFlags QuirksMode Dom)
open H5V.Model.HtmlTB
open H5V.Lemmas.TBM

theorem pv_extractEncoding {c : List Id} (content : Str) : PV c (extractEncoding content) nil := by
  unfold extractEncoding; pv_walk
macro_rules | `(tactic| pv_leaf) => `(tactic| with_reducible exact pv_extractEncoding _)

theorem pv_stepInitial {c : List Id} (t : Token) : PV c (stepInitial t) prH := by unfold stepInitial; pv_walk
macro_rules | `(tactic| pv_leaf) => `(tactic| with_reducible exact pv_stepInitial _)

theorem pv_stepBeforeHtml {c : List Id} (t : Token) : PV c (stepBeforeHtml t) prH := by unfold stepBeforeHtml; pv_walk
macro_rules | `(tactic| pv_leaf) => `(tactic| with_reducible exact pv_stepBeforeHtml _)

theorem pv_inBodyHtml {c : List Id} (t : Tag) : PV c (inBodyHtml t) prH := by unfold inBodyHtml; pv_walk
macro_rules | `(tactic| pv_leaf) => `(tactic| with_reducible exact pv_inBodyHtml _)

theorem pv_shouldAttachDeclarativeShadow {c : List Id} (t : Tag) : PV c (shouldAttachDeclarativeShadow t) nil := by
  unfold shouldAttachDeclarativeShadow
  refine PV.bind (pv_appropriatePlaceForInsertion none (by mem_tac)) fun ip => ?_
  have h1 := nodes_fst_mem ip
  pv_walk
macro_rules | `(tactic| pv_leaf) => `(tactic| with_reducible exact pv_shouldAttachDeclarativeShadow _)

set_option maxHeartbeats 1600000 in
theorem pv_stepInHead {c : List Id} (t : Token) : PV c (stepInHead t) prH := by unfold stepInHead; pv_walk
macro_rules | `(tactic| pv_leaf) => `(tactic| with_reducible exact pv_stepInHead _)

theorem pv_inTemplateEof {c : List Id} : PV c inTemplateEof prH := by unfold inTemplateEof; pv_walk
macro_rules | `(tactic| pv_leaf) => `(tactic| with_reducible exact pv_inTemplateEof)

theorem pv_inBodyVoid {c : List Id} (t : Tag) : PV c (inBodyVoid t) prH := by unfold inBodyVoid; pv_walk
macro_rules | `(tactic| pv_leaf) => `(tactic| with_reducible exact pv_inBodyVoid _)

theorem pv_listCloseSearch (b : Bool) : ∀ (c : List Id) (l : List Id), (∀ x ∈ l, x ∈ c) → PV c (listCloseSearch b l) nil
  | c, [], _ => by unfold listCloseSearch; pv_walk
  | c, e :: rest, hl => by
    have ih := fun c' => pv_listCloseSearch b c' rest
    unfold listCloseSearch; pv_walk
macro_rules | `(tactic| pv_leaf) => `(tactic| (with_reducible apply pv_listCloseSearch) <;> mem_tac)

theorem pv_findOption : ∀ (c : List Id) (l : List Id), (∀ x ∈ l, x ∈ c) → PV c (findOption l) Option.toList
  | c, [], _ => by unfold findOption; pv_walk
  | c, e :: rest, hl => by
    have ih := fun c' => pv_findOption c' rest
    unfold findOption; pv_walk
macro_rules | `(tactic| pv_leaf) => `(tactic| (with_reducible apply pv_findOption) <;> mem_tac)

theorem pv_anySameNode (x : Id) : ∀ (c : List Id) (l : List Id), x ∈ c → (∀ y ∈ l, y ∈ c) → PV c (anySameNode x l) nil
  | c, [], _, _ => by unfold anySameNode; pv_walk
  | c, e :: rest, hx, hl => by
    have ih := fun c' => pv_anySameNode x c' rest
    unfold anySameNode; pv_walk
macro_rules | `(tactic| pv_leaf) => `(tactic| (with_reducible apply pv_anySameNode) <;> mem_tac)

theorem pv_contextIsSelect {c : List Id} (site : String) : PV c (contextIsSelect site) nil := by
  unfold contextIsSelect; pv_walk
macro_rules | `(tactic| pv_leaf) => `(tactic| with_reducible exact pv_contextIsSelect _)

end H5V.Props.C18
