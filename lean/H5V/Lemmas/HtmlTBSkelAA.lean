import H5V.Lemmas.HtmlTBSkelIns
/-!
C06 (skeleton invariant), part 6: the adoption agency algorithm preserves `Late` — none of its
`remove_from_parent` / `append` / `reparent_children` calls touches the document's child list: the
nodes it moves are open elements above the bottom of the stack or elements it has just created.
-/
namespace H5V.Props.C06
open H5V.Model.Dom hiding Str
open H5V.Model.HtmlTB hiding Str
open H5V.Lemmas.Dom

/-- membership goals about contexts -/
syntax "ctx_mem" : tactic
macro_rules
  | `(tactic| ctx_mem) => `(tactic|
    first
      | assumption
      | (simp only [Ctx.app, Ctx.nil, Ctx.elem, List.mem_append, List.mem_cons, List.mem_singleton, List.not_mem_nil,
          List.nil_append, List.append_nil, or_false, false_or, true_or, or_true]; done)
      | (simp [Ctx.app, Ctx.nil, Ctx.elem, fbCtx, *]; done))

/-- leaves of the walk in the handle logic -/
syntax "pl_leaf" : tactic
macro_rules
  | `(tactic| pl_leaf) => `(tactic|
    with_reducible first
      | exact PL.create _ _ _
      | exact PL.insertElement _ _ _ _ _
      | exact PL.setOpen (by ctx_mem) _ _
      | exact PL.insertOpen (by ctx_mem) _
      | exact PL.removeFromParent (by ctx_mem)
      | exact PL.appendNode (by ctx_mem) (by ctx_mem)
      | exact PL.reparent (by ctx_mem) (by ctx_mem)
      | exact PL.push (by ctx_mem)
      | exact PL.insertAppropriatelyNode _ (by ctx_mem)
      | exact PL.panic_bind _ _ _ _
      | exact PL.readOpen _ _ _ _
      | exact PL.of_pres inferInstance
      | exact PL.of_pres (pres_modS fun s hl => ⟨hl.free rfl rfl rfl rfl rfl rfl rfl rfl rfl, rfl⟩)
      | exact PL.throw _
      | exact PL.pure _ ⟨(by intro x hx; simp at hx), (by intro x hx; simp at hx; subst hx; ctx_mem)⟩
      | exact PL.pure _ ⟨(by intro x hx; simp at hx; subst hx; ctx_mem), (by intro x hx; simp at hx)⟩)

syntax "pl_walk" : tactic
macro_rules
  | `(tactic| pl_walk) => `(tactic|
    repeat' (first
      | pl_leaf
      | with_reducible apply PL.bind
      | with_reducible apply PL.dite
      | intro _
      | split
      | dsimp only))

theorem pl_aaInner (fmt fb : Id) : ∀ (nodeIndex ic : Nat) (ln : Id) (bm : Bookmark) (c : Ctx), ln ∈ c.2 →
    PL c (aaInner fmt fb nodeIndex ic ln bm) (fun r => ([], [r.1]))
  | 0, _, _, _, _, _ => by unfold aaInner; exact PL.throw _
  | n + 1, ic, ln, bm, c, hln => by
    have ih := fun ic' ln' bm' c' h' => pl_aaInner fmt fb n ic' ln' bm' c' h'
    unfold aaInner
    repeat' (first
      | with_reducible exact ih _ _ _ _ (by ctx_mem)
      | pl_leaf
      | with_reducible apply PL.bind
      | with_reducible apply PL.dite
      | intro _
      | split
      | dsimp only)

set_option maxHeartbeats 1600000 in
theorem pl_aaOuterStep (subject : Str) : PL Ctx.nil (aaOuterStep subject) (fun _ => Ctx.nil) := by
  unfold aaOuterStep
  repeat' (first
    | with_reducible exact pl_aaInner _ _ _ _ _ _ _ (by ctx_mem)
    | with_reducible apply PL.furthest
    | pl_leaf
    | with_reducible apply PL.bind
    | with_reducible apply PL.dite
    | intro _
    | split
    | dsimp only)

instance (subject : Str) : Pres (aaOuterStep subject) := (pl_aaOuterStep subject).toPres

theorem pres_aaOuter (subject : Str) : ∀ (n : Nat), Pres (aaOuter subject n)
  | 0 => by unfold aaOuter; infer_instance
  | n + 1 => by
    haveI := pres_aaOuter subject n
    unfold aaOuter; tb_walk
instance (subject : Str) (n : Nat) : Pres (aaOuter subject n) := pres_aaOuter subject n

instance (subject : Str) : Pres (adoptionAgency subject) := by unfold adoptionAgency; tb_walk
instance : Pres handleMisnestedATags := by unfold handleMisnestedATags; tb_walk

end H5V.Props.C06
