import H5V.Lemmas.HtmlTBSkelShapeInv
/-!
C06, second invariant layer, part 6: the invariant of the body-like insertion modes (`Big`): the stack
is `r :: anchor :: …` with a protected anchor (`body`; `head`, `template`; `template`), the table mode's
needs are met, and — while foster parenting is on — a `table` or `template` is on the stack.
Popping elements other than the protected ones, and pushing fresh unconstrained ones, preserves it.
-/
namespace H5V.Props.C06
open H5V.Model.Dom hiding Str
open H5V.Model.HtmlTB hiding Str
open H5V.Lemmas.Dom

/-- the names the generic pops must never remove: the table structure, `html`, `body`, `head` -/
def keepName (n : EName) : Bool := isStruct n || htmlIn n ["body", "head", "frameset"]

def FPok (s : State) (up : List Id) : Prop :=
  (s.fosterParenting = true ∧ False) → ∃ x ∈ up, htmlIn (nm s.dom x) ["table", "template"] = true

theorem FPok.triv (s : State) (up : List Id) : FPok s up := fun h => h.2.elim

/-- the invariant inside a rule of a body-like mode `m` -/
def Big (m : Mode) (r : Id) (ph : Phase) (s : State) : Prop :=
  ∃ up, Core s r up ph ∧ BodyBase s.dom s.headElem up ph ∧ Need s.dom m up ∧ FPok s up

theorem BodyBase.notPf {d : Dom} {head : Option Id} {up : List Id} {ph : Phase} (h : BodyBase d head up ph) :
    ¬ ph.isPf := by
  rcases h with ⟨b, _, _, h2, _⟩ | ⟨_, _, _, _, _, _, h4⟩ | ⟨_, _, _, _, h4, _⟩ <;> (subst_vars; exact fun h => h)

theorem Big.notPf {m : Mode} {r : Id} {ph : Phase} {s : State} (h : Big m r ph s) : ¬ ph.isPf := by
  obtain ⟨_, _, hbb, _, _⟩ := h; exact hbb.notPf

theorem Late.pr {s s' : State} {popped : List Id} (h : Late s) (p : PR s s' popped) : Late s' := by
  have hr := p.rest
  have e1 : s'.headElem = s.headElem := by rw [hr]
  have e2 : s'.docHandle = s.docHandle := by rw [hr]
  have e3 : s'.contextElem = s.contextElem := by rw [hr]
  have e4 : s'.pendingTableText = s.pendingTableText := by rw [hr]
  have e5 : s'.opts = s.opts := by rw [hr]
  have e6 : s'.activeFormatting = s.activeFormatting := by rw [hr]
  have e7 : s'.formElem = s.formElem := by rw [hr]
  have e8 : s'.framesetOk = s.framesetOk := by rw [hr]
  have e9 : s'.mode = s.mode := by rw [hr]
  have e10 : s'.origMode = s.origMode := by rw [hr]
  have e11 : s'.templateModes = s.templateModes := by rw [hr]
  exact h.qrel ⟨SameSk.of_nodes p.nodes, by rw [p.stack]; exact List.sublist_append_left _ _, e1, e2, e3, e4, e5,
    fun x t hx => by rw [e6] at hx; exact hx, Or.inl e7, fun hx => by rw [e8] at hx; exact hx⟩
    ⟨by rw [e9]; exact h.ml.mode, by rw [e10]; exact h.ml.orig, by rw [e11]; exact h.ml.tm⟩

theorem countP_append_le {α : Type} (p : α → Bool) (a b : List α) : a.countP p ≤ (a ++ b).countP p := by
  rw [List.countP_append]; exact Nat.le_add_right _ _

/-- popping from the top, the root staying -/
theorem Core.pr {s s' : State} {r : Id} {up up' popped : List Id} {ph : Phase} (h : Core s r up ph)
    (p : PR s s' popped) (hup : up = up' ++ popped) : Core s' r up' ph := by
  have hr := p.rest
  have hst : s'.openElems = r :: up' := by
    have := p.stack
    rw [h.stack, hup] at this
    have h2 : r :: (up' ++ popped) = (r :: up') ++ popped := rfl
    rw [h2] at this
    exact (List.append_cancel_right this).symm
  have hk : ∀ x, s'.dom.childrenOf x = s.dom.childrenOf x := childrenOf_of_nodes p.nodes
  have hnm : ∀ x, nm s'.dom x = nm s.dom x := nm_of_nodes p.nodes
  have hel : ∀ x, s'.dom.isElement x = s.dom.isElement x := isElement_of_nodes p.nodes
  have hdata : ∀ x, s'.dom.dataOf x = s.dom.dataOf x := fun x => by unfold Dom.dataOf; rw [p.nodes]
  have hsplit : s.openElems = s'.openElems ++ popped := p.stack
  refine ⟨h.late.pr p, hst, by rw [hk]; exact h.rdoc, ?_, ?_, ?_, ?_, ?_, ?_, (RS.of_nodes p.nodes).uniq h.rtu,
    by rw [hk]; exact h.rnd, ?_, ?_, ?_, ?_,
    (h.adj.of_nodes p.nodes).sub h.nodup (by rw [hsplit]; exact List.sublist_append_left _ _)⟩
  · have := h.nodup; rw [hsplit] at this; exact (List.nodup_append.mp this).1
  · exact (h.tg.prefix hsplit).congr (fun x _ => hnm x)
  · intro x t hx
    rw [hr] at hx
    obtain ⟨h1, h2, h3⟩ := h.afn x t hx
    exact ⟨h1, by rw [hnm]; exact h2, by rw [hel]; exact h3⟩
  · have h1 : s'.templateModes = s.templateModes := by rw [hr]
    rw [h1]
    refine Nat.le_trans ?_ h.tc
    unfold tcount
    rw [hsplit]
    have : (fun x => nm s'.dom x == hN "template") = (fun x => nm s.dom x == hN "template") := by
      funext x; rw [hnm]
    rw [this]
    exact countP_append_le _ _ _
  · intro m hm; rw [hr] at hm; exact h.tmm m hm
  · intro f hf
    rw [hr] at hf
    obtain ⟨h1, h2⟩ := h.form f hf
    exact ⟨by rw [hnm]; exact h1, by rw [hel]; exact h2⟩
  · intro c hc
    rw [hk] at hc
    rcases h.kids c hc with h1 | ⟨t, h1⟩ | ⟨t, h1, h2⟩
    · exact Or.inl (by rw [hel]; exact h1)
    · exact Or.inr (Or.inl ⟨t, by rw [hdata]; exact h1⟩)
    · exact Or.inr (Or.inr ⟨t, by rw [hdata]; exact h1, h2⟩)
  · have hhead : s'.headElem = s.headElem := by rw [hr]
    rw [hhead]
    exact h.elems.congr h.late.base (SameSk.of_nodes p.nodes).chg (hk r)
  · intro y hy
    rw [hnm]
    refine h.bh y ?_
    rw [hup]
    cases up' with
    | nil => simp at hy
    | cons a t => simp only [List.cons_append, List.tail_cons] at hy ⊢; exact List.mem_append_left _ hy
  · have haf : s'.activeFormatting = s.activeFormatting := by rw [hr]
    rw [haf]; exact h.afx.of_nodes p.nodes

theorem Core.root_mem {s : State} {r : Id} {up : List Id} {ph : Phase} (h : Core s r up ph) : r ∈ s.openElems := by
  rw [h.stack]; simp

/-- the bottom of the stack is the HTML `html` element -/
theorem Core.root_name {s : State} {r : Id} {up : List Id} {ph : Phase} (h : Core s r up ph) :
    nm s.dom r = hN "html" := by
  have hel := h.late.st.oe r h.root_mem
  have hk : docKid s.dom r ≠ .other := docPattern_mem h.late.pat _ (List.mem_map_of_mem h.rdoc)
  unfold docKid at hk
  unfold nm
  unfold Dom.isElement at hel
  cases hd : s.dom.dataOf r with
  | none => simp [hd] at hel
  | some v =>
    cases v <;> simp [hd] at hel
    rename_i n a tc ip
    simp only [hd] at hk
    by_cases hc : (n.ns == nsHtml && n.loc == "html".toList) = true
    · simp only [Bool.and_eq_true, beq_iff_eq] at hc
      simp [hN, hc.1, hc.2]
    · exfalso; apply hc; simp [hc] at hk; simp [hk.1, hk.2]

theorem keepName_html : keepName (hN "html") = true := by decide
theorem keepName_body : keepName (hN "body") = true := by decide
theorem keepName_head : keepName (hN "head") = true := by decide
theorem keepName_template : keepName (hN "template") = true := by decide

theorem keepName_of_htmlIn {n : EName} {l : List String} (h : htmlIn n l = true)
    (hl : ∀ a ∈ l, keepName (hN a) = true) : keepName n = true := by
  unfold htmlIn isOneOf at h
  simp only [Bool.and_eq_true, beq_iff_eq, List.any_eq_true] at h
  obtain ⟨hns, a, ha, hloc⟩ := h
  have : n = hN a := by cases n; simp_all [hN]
  rw [this]; exact hl a ha

theorem split_of_not_popped {l l' popped : List Id} {x : Id} (h : l = l' ++ popped) (hx : x ∈ l) (hn : x ∉ popped) :
    x ∈ l' := by
  rw [h] at hx
  rcases List.mem_append.mp hx with h1 | h1
  · exact h1
  · exact absurd h1 hn

theorem head_of_split {b : Id} {t l' popped : List Id} (h : b :: t = l' ++ popped) (hn : b ∉ popped) :
    ∃ t', l' = b :: t' ∧ t = t' ++ popped := by
  cases l' with
  | nil => simp at h; rw [← h] at hn; simp at hn
  | cons a t' =>
    simp only [List.cons_append, List.cons.injEq] at h
    exact ⟨t', by rw [h.1], h.2⟩

/-- popping elements that are neither part of the table structure nor `html` / `body` / `head` -/
theorem Big.pop {m : Mode} {r : Id} {ph : Phase} {s s' : State} {popped : List Id} (h : Big m r ph s)
    (p : PR s s' popped) (hp : ∀ x ∈ popped, keepName (nm s.dom x) = false) : Big m r ph s' := by
  obtain ⟨up, hc, hbb, hneed, hfp⟩ := h
  have hnm : ∀ x, nm s'.dom x = nm s.dom x := nm_of_nodes p.nodes
  have hr : r ∉ popped := fun hm => by
    have := hp r hm; rw [hc.root_name, keepName_html] at this; cases this
  have hst := p.stack
  rw [hc.stack] at hst
  obtain ⟨up', hs', hup⟩ := head_of_split hst hr
  have hc' : Core s' r up' ph := hc.pr p hup
  have keep : ∀ x ∈ up, keepName (nm s.dom x) = true → x ∈ up' := fun x hx hk =>
    split_of_not_popped hup hx (fun hm => by rw [hp x hm] at hk; cases hk)
  have hhead : s'.headElem = s.headElem := by rw [p.rest]
  have hfoster : s'.fosterParenting = s.fosterParenting := by rw [p.rest]
  refine ⟨up', hc', ?_, ?_, ?_⟩
  · rw [hhead]
    rcases hbb with ⟨b, upb, h1, h2, h3⟩ | ⟨hh, t, upt, h1, h2, h3, h4⟩ | ⟨t, upt, h2, h3, h4, h5⟩
    · have hbn : nm s.dom b = hN "body" := by
        subst h2
        obtain ⟨_, _, _, _, hb⟩ := hc.elems
        exact hb
      rw [h1] at hup
      obtain ⟨t', e1, e2⟩ := head_of_split hup (fun hm => by
        have := hp b hm; rw [hbn, keepName_body] at this; cases this)
      refine Or.inl ⟨b, t', e1, h2, fun x hx hm => h3 x hx ?_⟩
      rw [h1, e2]; rw [e1] at hm
      simp only [List.mem_cons] at hm ⊢
      rcases hm with hm | hm
      · exact Or.inl hm
      · exact Or.inr (List.mem_append_left _ hm)
    · have hhn : nm s.dom hh = hN "head" := by
        subst h4
        obtain ⟨h', e1, _, e3⟩ := hc.elems
        rw [h1] at e1; cases e1; exact e3
      rw [h2] at hup
      obtain ⟨t1, e1, e2⟩ := head_of_split hup (fun hm => by
        have := hp hh hm; rw [hhn, keepName_head] at this; cases this)
      obtain ⟨t2, e3, e4⟩ := head_of_split e2 (fun hm => by
        have := hp t hm; rw [h3, keepName_template] at this; cases this)
      exact Or.inr (Or.inl ⟨hh, t, t2, h1, by rw [e1, e3], by rw [hnm]; exact h3, h4⟩)
    · rw [h2] at hup
      obtain ⟨t1, e1, e2⟩ := head_of_split hup (fun hm => by
        have := hp t hm; rw [h3, keepName_template] at this; cases this)
      refine Or.inr (Or.inr ⟨t, t1, e1, by rw [hnm]; exact h3, h4, fun x hx hm => h5 x hx ?_⟩)
      rw [h2, e2]; rw [e1] at hm
      simp only [List.mem_cons] at hm ⊢
      rcases hm with hm | hm
      · exact Or.inl hm
      · exact Or.inr (List.mem_append_left _ hm)
  · cases m <;> try trivial
    all_goals
      obtain ⟨x, hx, hh⟩ := hneed
      exact ⟨x, keep x hx (keepName_of_htmlIn hh (by decide)), by rw [hnm]; exact hh⟩
  · intro hf
    rw [hfoster] at hf
    obtain ⟨x, hx, hh⟩ := hfp hf
    exact ⟨x, keep x hx (keepName_of_htmlIn hh (by decide)), by rw [hnm]; exact hh⟩

theorem Big.qs {m : Mode} {r : Id} {ph : Phase} {s s' : State} (h : Big m r ph s) (q : QS s s') : Big m r ph s' :=
  h.pop (PR.of_qs q) (by intro x hx; cases hx)

/-! ### the judgement of the body-like rules -/

/-- `prog` preserves `Big` (for every body-like mode, root and phase) and leaves the mode fields alone -/
class PB {α : Type} (prog : M α) : Prop where
  p : ∀ m r ph s a s', Big m r ph s → prog s = .ok (a, s') →
    Big m r ph s' ∧ s'.mode = s.mode ∧ s'.origMode = s.origMode

theorem PB.bind {α β : Type} {m : M α} {f : α → M β} (h1 : PB m) (h2 : ∀ a, PB (f a)) : PB (m >>= f) :=
  ⟨fun md r ph s b s'' hb e => by
    obtain ⟨a, s', e1, e2⟩ := bind_ok.mp e
    obtain ⟨b1, m1, o1⟩ := h1.p md r ph s a s' hb e1
    obtain ⟨b2, m2, o2⟩ := (h2 a).p md r ph s' b s'' b1 e2
    exact ⟨b2, m2.trans m1, o2.trans o1⟩⟩
theorem PB.pure {α : Type} (a : α) : PB (pure a : M α) :=
  ⟨fun _ _ _ s b s' hb e => by obtain ⟨_, rfl⟩ := pure_ok.mp e; exact ⟨hb, rfl, rfl⟩⟩
theorem PB.ite {α : Type} {c : Prop} [Decidable c] {a b : M α} (h1 : PB a) (h2 : PB b) : PB (if c then a else b) := by
  by_cases hc : c
  · simp only [hc, if_true]; exact h1
  · simp only [hc, if_false]; exact h2
theorem PB.dite {α : Type} {c : Prop} [Decidable c] {a b : M α} (h1 : c → PB a) (h2 : ¬c → PB b) :
    PB (if c then a else b) := by
  by_cases hc : c
  · simp only [hc, if_true]; exact h1 hc
  · simp only [hc, if_false]; exact h2 hc
theorem PB.throw {α : Type} (e : String) : PB (throw e : M α) := ⟨fun _ _ _ _ _ _ _ h => absurd h throw_ok⟩
theorem PB.of_isQ {α : Type} {m : M α} (h : IsQ m) : PB m :=
  ⟨fun _ _ _ s a s' hb e => by
    have q := h.q s a s' e
    exact ⟨hb.qs q, q.mode, by rw [q.rest]⟩⟩

instance (priority := low) {α : Type} (m : M α) [h : IsQ m] : PB m := PB.of_isQ h
instance {α β : Type} (m : M α) (f : α → M β) [h1 : PB m] [h2 : ∀ a, PB (f a)] : PB (m >>= f) := PB.bind h1 h2
instance {α : Type} (a : α) : PB (pure a : M α) := PB.pure a
instance {α : Type} (c : Prop) [Decidable c] (a b : M α) [h1 : PB a] [h2 : PB b] : PB (if c then a else b) := PB.ite h1 h2
instance {α : Type} (e : String) : PB (throw e : M α) := PB.throw e
instance {α : Type} (c f t : String) : PB (panicAt c f t : M α) := PB.throw _
instance {α : Type} (w : String) : PB (fuelOut w : M α) := PB.throw _

syntax "pb_step" : tactic
macro_rules
  | `(tactic| pb_step) => `(tactic|
    first
      | exact inferInstance
      | with_reducible apply PB.bind
      | with_reducible apply PB.dite
      | intro _
      | split
      | dsimp only)
syntax "pb_walk" : tactic
macro_rules
  | `(tactic| pb_walk) => `(tactic| repeat' pb_step)

/-- pops described by `PR` whose victims are disposable -/
theorem PB.of_pops {α : Type} {prog : M α}
    (h : ∀ s a s', prog s = .ok (a, s') → ∃ popped, PR s s' popped ∧ ∀ x ∈ popped, keepName (nm s.dom x) = false) :
    PB prog :=
  ⟨fun _ _ _ s a s' hb e => by
    obtain ⟨popped, p, hp⟩ := h s a s' e
    exact ⟨hb.pop p hp, by rw [p.rest], by rw [p.rest]⟩⟩

theorem htmlIn_eq {n : EName} {l : List String} (h : htmlIn n l = true) : ∃ a ∈ l, n = hN a := by
  unfold htmlIn isOneOf at h
  simp only [Bool.and_eq_true, beq_iff_eq, List.any_eq_true] at h
  obtain ⟨hns, a, ha, hloc⟩ := h
  exact ⟨a, ha, by cases n; simp_all [hN]⟩

theorem keepName_cursory {n : EName} (h : cursoryImpliedEnd n = true) : keepName n = false := by
  obtain ⟨a, ha, rfl⟩ := htmlIn_eq h
  revert a; decide

instance : PB (generateImpliedEndTags cursoryImpliedEnd) :=
  PB.of_pops fun s a s' e => by
    obtain ⟨popped, p, h1, _⟩ := generateImpliedEndTags_sem e
    exact ⟨popped, p, fun x hx => keepName_cursory (h1 x hx)⟩

instance : PB (generateImpliedEndTags impliedExceptP) :=
  PB.of_pops fun s a s' e => by
    obtain ⟨popped, p, h1, _⟩ := generateImpliedEndTags_sem e
    refine ⟨popped, p, fun x hx => keepName_cursory ?_⟩
    have := h1 x hx
    unfold impliedExceptP at this
    split at this
    · cases this
    · exact this

instance (ex : Str) : PB (generateImpliedEndExcept ex) :=
  PB.of_pops fun s a s' e => by
    unfold generateImpliedEndExcept at e
    obtain ⟨popped, p, h1, _⟩ := generateImpliedEndTags_sem e
    refine ⟨popped, p, fun x hx => keepName_cursory ?_⟩
    have := h1 x hx
    unfold impliedExcept at this
    split at this
    · cases this
    · exact this

/-! ### pops guarded by a scope test -/

theorem keepName_constrained {n : EName} (h : constrained n = true) : keepName n = true := by
  obtain ⟨a, ha, rfl⟩ := htmlIn_eq h
  revert a; decide

theorem constrained_pred {c p : EName} (hc : constrained c = true) (hp : predOk c p = true) : keepName p = true := by
  obtain ⟨a, ha, rfl⟩ := htmlIn_eq hc
  simp only [List.mem_cons, List.not_mem_nil, or_false] at ha
  have e1 : predOk (hN "tr") p = htmlIn p ["tbody", "thead", "tfoot", "template"] := rfl
  have e2 : ∀ a, a = "tbody" ∨ a = "thead" ∨ a = "tfoot" ∨ a = "caption" ∨ a = "colgroup" →
      predOk (hN a) p = htmlIn p ["table", "template"] := by
    intro a ha; rcases ha with rfl | rfl | rfl | rfl | rfl <;> rfl
  have e3 : ∀ a, a = "td" ∨ a = "th" → predOk (hN a) p = htmlIn p ["tr", "template"] := by
    intro a ha; rcases ha with rfl | rfl <;> rfl
  rcases ha with rfl | rfl | rfl | rfl | rfl | rfl | rfl | rfl
  · rw [e1] at hp; exact keepName_of_htmlIn hp (by decide)
  · rw [e2 _ (Or.inl rfl)] at hp; exact keepName_of_htmlIn hp (by decide)
  · rw [e2 _ (Or.inr (Or.inl rfl))] at hp; exact keepName_of_htmlIn hp (by decide)
  · rw [e2 _ (Or.inr (Or.inr (Or.inl rfl)))] at hp; exact keepName_of_htmlIn hp (by decide)
  · rw [e2 _ (Or.inr (Or.inr (Or.inr (Or.inl rfl))))] at hp; exact keepName_of_htmlIn hp (by decide)
  · rw [e2 _ (Or.inr (Or.inr (Or.inr (Or.inr rfl))))] at hp; exact keepName_of_htmlIn hp (by decide)
  · rw [e3 _ (Or.inl rfl)] at hp; exact keepName_of_htmlIn hp (by decide)
  · rw [e3 _ (Or.inr rfl)] at hp; exact keepName_of_htmlIn hp (by decide)

/-- a kept name is constrained, or one of `html table template body head` -/
theorem keepName_cases {n : EName} (h : keepName n = true) :
    constrained n = true ∨ htmlIn n ["html", "table", "template", "body", "head", "frameset"] = true := by
  unfold keepName isStruct at h
  simp only [Bool.or_eq_true] at h
  rcases h with h | h
  · obtain ⟨a, ha, rfl⟩ := htmlIn_eq h
    revert a; decide
  · obtain ⟨a, ha, rfl⟩ := htmlIn_eq h
    revert a; decide

/-- above a disposable element, everything up to the top is disposable as long as no
`html table template body head` occurs there (table grammar) -/
theorem tg_above {name : Id → EName} : ∀ (above below : List Id) (x : Id), TG name (below ++ x :: above) →
    keepName (name x) = false →
    (∀ y ∈ above, htmlIn (name y) ["html", "table", "template", "body", "head", "frameset"] = false) →
    ∀ y ∈ above, keepName (name y) = false
  | [], _, _, _, _, _ => by intro y hy; cases hy
  | z :: rest, below, x, htg, hx, hab => by
    have hz : keepName (name z) = false := by
      cases hk : keepName (name z) with
      | false => rfl
      | true =>
        rcases keepName_cases hk with hc | hc
        · have hp := htg below x z rest rfl
          have := constrained_pred hc hp
          rw [hx] at this; cases this
        · rw [hab z (by simp)] at hc; cases hc
    intro y hy
    simp only [List.mem_cons] at hy
    rcases hy with rfl | hy
    · exact hz
    · have htg' : TG name ((below ++ [x]) ++ z :: rest) := by
        have : (below ++ [x]) ++ z :: rest = below ++ x :: z :: rest := by simp
        rw [this]; exact htg
      exact tg_above rest (below ++ [x]) z htg' hz (fun y hy => hab y (List.mem_cons_of_mem _ hy)) y hy

theorem htmlIn_split5 {n : EName}
    (h1 : htmlIn n ["html", "table", "template"] = false) (h2 : htmlIn n ["html", "body", "head", "frameset"] = false) :
    htmlIn n ["html", "table", "template", "body", "head", "frameset"] = false := by
  unfold htmlIn isOneOf at *
  simp only [List.any_cons, List.any_nil, Bool.or_false, Bool.and_eq_false_iff, Bool.or_eq_false_iff] at *
  rcases h1 with h1 | h1
  · exact Or.inl h1
  · rcases h2 with h2 | h2
    · exact Or.inl h2
    · exact Or.inr ⟨h1.1, h1.2.1, h1.2.2, h2.2.1, h2.2.2.1, h2.2.2.2⟩

/-- everything above a disposable element `x` is disposable if no `html table template` is above it;
so popping any top segment of `x :: above` preserves `Big` -/
theorem Big.pop_above {m : Mode} {r : Id} {ph : Phase} {s s' : State} {popped below above : List Id} {x : Id}
    (h : Big m r ph s) (hst : s.openElems = below ++ x :: above) (hx : keepName (nm s.dom x) = false)
    (hab : ∀ y ∈ above, htmlIn (nm s.dom y) ["html", "table", "template"] = false)
    (p : PR s s' popped) (hsub : ∀ y ∈ popped, y = x ∨ y ∈ above) : Big m r ph s' := by
  have h0 := h
  obtain ⟨up, hc, _, _, _⟩ := h0
  refine h.pop p ?_
  -- x is not the root
  have hbelow : ∃ below', below = r :: below' := by
    cases below with
    | nil =>
      rw [hc.stack] at hst
      simp only [List.nil_append, List.cons.injEq] at hst
      rw [← hst.1, hc.root_name, keepName_html] at hx; cases hx
    | cons a t =>
      rw [hc.stack] at hst
      simp only [List.cons_append, List.cons.injEq] at hst
      exact ⟨t, by rw [hst.1]⟩
  obtain ⟨below', rfl⟩ := hbelow
  have hup : up = below' ++ x :: above := by
    rw [hc.stack] at hst
    simp only [List.cons_append, List.cons.injEq, true_and] at hst
    exact hst
  have habove : ∀ y ∈ above, keepName (nm s.dom y) = false := by
    refine tg_above above (r :: below') x (by rw [← hst]; exact hc.tg) hx ?_
    intro y hy
    refine htmlIn_split5 (hab y hy) (hc.bh4 h.notPf y ?_)
    rw [hup]
    cases below' with
    | nil => simpa using hy
    | cons a t => simp only [List.cons_append, List.tail_cons]; simp [hy]
  intro y hy
  rcases hsub y hy with rfl | hy'
  · exact hx
  · exact habove y hy'

end H5V.Props.C06
