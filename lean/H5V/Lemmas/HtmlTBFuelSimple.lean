import H5V.Lemmas.HtmlTBFuelRules1
/-!
# The fuel of `process_to_completion`, part 8: the small insertion modes

`DJ (stepX tok) .x tok` for Initial, BeforeHtml, BeforeHead, InHeadNoscript, AfterHead, Text, InTemplate,
AfterBody, InFrameset, AfterFrameset, AfterAfterBody, AfterAfterFrameset, relative to what the delegated
rules may answer (`HeadE`, `BodyE`).
-/
namespace H5V.Lemmas.TBFuel
open H5V.Model.HtmlTB
open H5V.Model.HtmlTok (TagKind)
open H5V.Model.Dom (Id QualName Attr NodeOrText SinkOp Output ElementFlags QuirksMode Dom NodeData Node)
open H5V.Lemmas.TBSafe
open H5V.Lemmas.TBC (ok_bind ok_pure ok_getS_bind ok_modS_bind ok_ite ok_bind_pure)

theorem headElse_startOrEnd {tag : Tag} {l1 l2 : List String} (h : (tag.isStart l1 || tag.isEnd l2) = true)
    (h1 : ∀ x ∈ l1, x ∈ headStarts := by decide) (h2 : ∀ x ∈ l2, x ∉ ["body", "html", "br"] := by decide) :
    headElse (.tag tag) = false := by
  rw [Bool.or_eq_true] at h
  rcases h with h | h
  · exact headElse_start h h1
  · exact headElse_end h h2

theorem not_eHtml_start {tag : Tag} {l : List String} {P : Prop} (h : tag.isStart l = true)
    (hc : cls (.tag tag) = .eHtml) : P := by
  obtain ⟨hk, _⟩ := start_spec h
  have : clsTag tag.kind tag.name = .eHtml := hc
  rw [hk] at this
  unfold clsTag at this
  dsimp only at this
  repeat' split at this
  all_goals cases this

theorem tag_ne_notSplit {tag : Tag} : ∀ b, Token.tag tag ≠ .chars .notSplit b := fun _ h => by cases h

theorem dj_stepInitial (tok : Token) : DJ (stepInitial tok) .initial tok := by
  unfold stepInitial
  cases tok with
  | chars st text =>
    cases st with
    | notSplit => exact dj_split
    | whitespace => dj_quiet
    | notWhitespace => dsimp only; dj_edge_tac
  | comment t => dj_quiet
  | nullChar => dsimp only; dj_edge_tac
  | eof => dsimp only; dj_edge_tac
  | tag tag => dsimp only; dj_edge_tac

theorem dj_stepBeforeHtml (tok : Token) : DJ (stepBeforeHtml tok) .beforeHtml tok := by
  unfold stepBeforeHtml
  cases tok with
  | chars st text =>
    cases st with
    | notSplit => exact dj_split
    | whitespace => dj_quiet
    | notWhitespace => dsimp only; dj_edge_tac
  | comment t => dj_quiet
  | nullChar => dsimp only; dj_edge_tac
  | eof => dsimp only; dj_edge_tac
  | tag tag =>
    dsimp only
    refine dj_ite (fun _ => by dj_quiet) (fun _ => ?_)
    refine dj_ite (fun _ => by dj_edge_tac) (fun _ => ?_)
    refine dj_ite (fun _ => by dj_quiet) (fun _ => by dj_edge_tac)

theorem dj_stepBeforeHead (hB : BodyE) (tok : Token) : DJ (stepBeforeHead tok) .beforeHead tok := by
  unfold stepBeforeHead
  cases tok with
  | chars st text =>
    cases st with
    | notSplit => exact dj_split
    | whitespace => dj_quiet
    | notWhitespace => dsimp only; dj_edge_tac
  | comment t => dj_quiet
  | nullChar => dsimp only; dj_edge_tac
  | eof => dsimp only; dj_edge_tac
  | tag tag =>
    dsimp only
    refine dj_ite (fun h => dj_body hB (not_eHtml_start h)) (fun _ => ?_)
    refine dj_ite (fun _ => by dj_quiet) (fun _ => ?_)
    refine dj_ite (fun _ => by dj_edge_tac) (fun _ => ?_)
    refine dj_ite (fun _ => by dj_quiet) (fun _ => by dj_edge_tac)

theorem dj_stepInHeadNoscript (hH : HeadE) (hB : BodyE) (tok : Token) :
    DJ (stepInHeadNoscript tok) .inHeadNoscript tok := by
  unfold stepInHeadNoscript
  cases tok with
  | chars st text =>
    cases st with
    | notSplit => exact dj_split
    | whitespace => exact dj_head hH rfl (fun _ h => by cases h)
    | notWhitespace => dsimp only; dj_edge_tac
  | comment t => exact dj_head hH rfl (fun _ h => by cases h)
  | nullChar => dsimp only; dj_edge_tac
  | eof => dsimp only; dj_edge_tac
  | tag tag =>
    dsimp only
    refine dj_ite (fun h => dj_body hB (not_eHtml_start h)) (fun _ => ?_)
    refine dj_ite (fun _ => by dj_quiet) (fun _ => ?_)
    refine dj_ite (fun h => dj_head hH (headElse_start h) tag_ne_notSplit) (fun _ => ?_)
    refine dj_ite (fun _ => by dj_edge_tac) (fun _ => ?_)
    refine dj_ite (fun _ => by dj_quiet) (fun _ => by dj_edge_tac)

theorem dj_stepAfterBody (hB : BodyE) (tok : Token) : DJ (stepAfterBody tok) .afterBody tok := by
  unfold stepAfterBody
  cases tok with
  | chars st text =>
    cases st with
    | notSplit => exact dj_split
    | whitespace => exact dj_body hB (fun h => by cases h)
    | notWhitespace => dsimp only; dj_edge_tac
  | comment t => dj_quiet
  | nullChar => dsimp only; dj_edge_tac
  | eof => dj_quiet
  | tag tag =>
    dsimp only
    refine dj_ite (fun h => dj_body hB (fun hc => ?_)) (fun _ => ?_)
    · exact absurd hc (cls_of_isStart (P := fun c => c ≠ .eHtml) h (by decide))
    refine dj_ite (fun _ => by dj_quiet) (fun hne => ?_)
    -- anything else: not `</html>`
    apply dj_of_ed
    case h => ed_walk
    case hm => decide
    case hr =>
      have hc : cls (.tag tag) ≠ .eHtml := fun hc => hne ((isStart_of_cls hc).2.2.2.2.2.1 rfl)
      generalize cls (Token.tag tag) = c at hc
      cases c <;> first | decide | exact absurd rfl hc

theorem dj_stepInFrameset (hH : HeadE) (hB : BodyE) (tok : Token) : DJ (stepInFrameset tok) .inFrameset tok := by
  unfold stepInFrameset
  cases tok with
  | chars st text =>
    cases st with
    | notSplit => exact dj_split
    | whitespace => dj_quiet
    | notWhitespace => dj_quiet
  | comment t => dj_quiet
  | nullChar => dj_quiet
  | eof => dj_quiet
  | tag tag =>
    dsimp only
    refine dj_ite (fun h => dj_body hB (not_eHtml_start h)) (fun _ => ?_)
    refine dj_ite (fun _ => by dj_quiet) (fun _ => ?_)
    refine dj_ite (fun _ => by dj_quiet) (fun _ => ?_)
    refine dj_ite (fun _ => by dj_quiet) (fun _ => ?_)
    refine dj_ite (fun h => dj_head hH (headElse_start h) tag_ne_notSplit) (fun _ => by dj_quiet)

theorem dj_stepAfterFrameset (hH : HeadE) (hB : BodyE) (tok : Token) :
    DJ (stepAfterFrameset tok) .afterFrameset tok := by
  unfold stepAfterFrameset
  cases tok with
  | chars st text =>
    cases st with
    | notSplit => exact dj_split
    | whitespace => dj_quiet
    | notWhitespace => dj_quiet
  | comment t => dj_quiet
  | nullChar => dj_quiet
  | eof => dj_quiet
  | tag tag =>
    dsimp only
    refine dj_ite (fun h => dj_body hB (not_eHtml_start h)) (fun _ => ?_)
    refine dj_ite (fun _ => by dj_quiet) (fun _ => ?_)
    refine dj_ite (fun h => dj_head hH (headElse_start h) tag_ne_notSplit) (fun _ => by dj_quiet)

theorem dj_stepAfterAfterBody (hB : BodyE) (tok : Token) : DJ (stepAfterAfterBody tok) .afterAfterBody tok := by
  unfold stepAfterAfterBody
  cases tok with
  | chars st text =>
    cases st with
    | notSplit => exact dj_split
    | whitespace => exact dj_body hB (fun h => by cases h)
    | notWhitespace => dsimp only; dj_edge_tac
  | comment t => dj_quiet
  | nullChar => dsimp only; dj_edge_tac
  | eof => dj_quiet
  | tag tag =>
    dsimp only
    refine dj_ite (fun h => dj_body hB (not_eHtml_start h)) (fun _ => by dj_edge_tac)

theorem dj_stepAfterAfterFrameset (hH : HeadE) (hB : BodyE) (tok : Token) :
    DJ (stepAfterAfterFrameset tok) .afterAfterFrameset tok := by
  unfold stepAfterAfterFrameset
  cases tok with
  | chars st text =>
    cases st with
    | notSplit => exact dj_split
    | whitespace => exact dj_body hB (fun h => by cases h)
    | notWhitespace => dj_quiet
  | comment t => dj_quiet
  | nullChar => dj_quiet
  | eof => dj_quiet
  | tag tag =>
    dsimp only
    refine dj_ite (fun h => dj_body hB (not_eHtml_start h)) (fun _ => ?_)
    refine dj_ite (fun h => dj_head hH (headElse_start h) tag_ne_notSplit) (fun _ => by dj_quiet)

/-! ### AfterHead -/

theorem ro_bind' {α β : Type} {m : M α} {f : α → M β} {P1 : α → Prop} {P : β → Prop} (h1 : RO m P1)
    (h2 : ∀ a, P1 a → RO (f a) P) : RO (m >>= f) P := by
  intro s b s'' hr
  obtain ⟨a, s', hm, hf⟩ := ok_bind hr
  exact h2 a (h1 s a s' hm) s' b s'' hf

/-- `stepInHead` on a token that does not reach its "anything else" -/
theorem ro_stepInHead (hH : HeadE) {tok : Token} (hq : headElse tok = false)
    (hns : ∀ b, tok ≠ .chars .notSplit b) : RO (stepInHead tok) Quiet := by
  intro s r s' hr
  have he := hH tok s r s' hr
  cases r with
  | reprocess m' t =>
    have h2 : headElse tok = true := he.2.1
    rw [hq] at h2; cases h2
  | splitWhitespace b => exact absurd he.1 (hns b)
  | reprocessForeign t => exact he.elim
  | _ => trivial

theorem dj_stepAfterHead (hH : HeadE) (hB : BodyE) (tok : Token) : DJ (stepAfterHead tok) .afterHead tok := by
  unfold stepAfterHead
  cases tok with
  | chars st text =>
    cases st with
    | notSplit => exact dj_split
    | whitespace => dj_quiet
    | notWhitespace => dsimp only; dj_edge_tac
  | comment t => dj_quiet
  | nullChar => dsimp only; dj_edge_tac
  | eof => dsimp only; dj_edge_tac
  | tag tag =>
    dsimp only
    refine dj_ite (fun h => dj_body hB (not_eHtml_start h)) (fun _ => ?_)
    refine dj_ite (fun _ => by dj_quiet) (fun _ => ?_)
    refine dj_ite (fun _ => by dj_quiet) (fun _ => ?_)
    refine dj_ite (fun h => ?_) (fun _ => ?_)
    · -- the head element is pushed, `stepInHead` runs, the head element is removed again
      refine dj_of_ro ?_
      refine ro_bind (fun _ => ro_bind (fun s0 => ?_))
      cases s0.headElem with
      | none => exact ro_panicAt
      | some head =>
        dsimp only
        refine ro_bind (fun _ => ?_)
        refine ro_bind' (ro_stepInHead hH (headElse_start h) tag_ne_notSplit) (fun r hr => ?_)
        exact ro_bind (fun _ => ro_pure _ hr)
    refine dj_ite (fun h => dj_head hH (headElse_end h) tag_ne_notSplit) (fun _ => ?_)
    refine dj_ite (fun _ => by dj_edge_tac) (fun _ => ?_)
    refine dj_ite (fun _ => by dj_quiet) (fun _ => by dj_edge_tac)

/-! ### Text -/

theorem rank_origOk {m : Mode} (h : origOk m = true) : rank m .eof ≤ 3 := by
  cases m <;> first | decide | (simp [origOk] at h)

/-- `let m = orig_mode.take().unwrap(); Reprocess(m, eof)` after helpers that shrink the stack -/
theorem dj_textEof {α : Type} {pre : M α} (hpre : SH pre) {cls' site text : String} :
    DJ (pre >>= fun _ => do
      let s ← getS
      match s.origMode with
      | none => panicAt cls' site text
      | some m =>
        set { s with origMode := none }
        pure (ProcessResult.reprocess m Token.eof)) .text .eof := by
  intro s r s' ht hm hrun
  obtain ⟨a, s1, h1, h2⟩ := ok_bind hrun
  have hs1 := hpre s a s1 h1
  have h3 := ok_getS_bind h2
  obtain ⟨om, hom, hok, _⟩ := (hm ▸ ht.s).text rfl
  have hom1 : s1.origMode = some om := by rw [hs1.orig]; exact hom
  rw [hom1] at h3
  dsimp only at h3
  have h4 : (pure (ProcessResult.reprocess om Token.eof) : M ProcessResult) { s1 with origMode := none } =
      .ok (r, s') := h3
  obtain ⟨e1, e2⟩ := ok_pure h4
  rw [← e1, ← e2]
  refine dec_of_slack rfl ?_ (rank_origOk hok) (by decide)
  have hw0 := hs1.wle ht.h.open_el
  have hw : WLe s ({ s1 with origMode := none } : State) := ⟨hw0.tab, hw0.tm⟩
  unfold wW
  have h5 := hw.tab
  have h6 := tmW_le ({ s1 with origMode := none } : State) om
  have h7 : ({ s1 with origMode := none } : State).templateModes.length ≤ s.templateModes.length := hw.tm
  have h8 : s.templateModes.length ≤ tmW s .text := by unfold tmW; omega
  omega

theorem dj_stepText (tok : Token) : DJ (stepText tok) .text tok := by
  unfold stepText
  cases tok with
  | chars st text => dj_quiet
  | comment t => exact dj_of_ro ro_panicAt
  | nullChar => exact dj_of_ro ro_panicAt
  | eof =>
    dsimp only
    intro s r s' ht hm hrun
    -- normalise: everything before the final `getS` shrinks the stack
    obtain ⟨_, s1, h1, h2⟩ := ok_bind hrun
    obtain ⟨b, s2, h3, h4⟩ := ok_bind h2
    have hs12 : Shr s s2 := (sh_unexpected s _ s1 h1).trans (sh_currentNodeNamed _ s1 b s2 h3)
    have htail : ∀ s3, Shr s s3 → (do
        let _ ← pop
        let s ← getS
        match s.origMode with
        | none => panicAt "unwrap-none" "rules.rs:1023" "orig_mode.take().unwrap()"
        | some m =>
          set { s with origMode := none }
          pure (ProcessResult.reprocess m Token.eof) : M ProcessResult) s3 = .ok (r, s') →
        Dec s .text .eof r s' := by
      intro s3 hs3 h5
      obtain ⟨h0, s4, h6, h7⟩ := ok_bind h5
      have hs4 : Shr s s4 := hs3.trans (sh_pop s3 h0 s4 h6)
      have h8 := ok_getS_bind h7
      obtain ⟨om, hom, hok, _⟩ := (hm ▸ ht.s).text rfl
      have hom4 : s4.origMode = some om := by rw [hs4.orig]; exact hom
      rw [hom4] at h8
      dsimp only at h8
      have h9 : (pure (ProcessResult.reprocess om Token.eof) : M ProcessResult) { s4 with origMode := none } =
          .ok (r, s') := h8
      obtain ⟨e1, e2⟩ := ok_pure h9
      rw [← e1, ← e2]
      refine dec_of_slack rfl ?_ (rank_origOk hok) (by decide)
      have hw0 := hs4.wle ht.h.open_el
      have hw : WLe s ({ s4 with origMode := none } : State) := ⟨hw0.tab, hw0.tm⟩
      unfold wW
      have h5' := hw.tab
      have h6' := tmW_le ({ s4 with origMode := none } : State) om
      have h7' : ({ s4 with origMode := none } : State).templateModes.length ≤ s.templateModes.length := hw.tm
      have h8' : s.templateModes.length ≤ tmW s .text := by unfold tmW; omega
      omega
    by_cases hb : b = true
    · rw [if_pos hb] at h4
      have h5 := ok_getS_bind h4
      cases hl : s2.openElems.getLast? with
      | none =>
        rw [hl] at h5
        obtain ⟨_, _, h6, _⟩ := ok_bind h5
        cases h6
      | some cur =>
        rw [hl] at h5
        dsimp only at h5
        simp only [pure_bind] at h5
        obtain ⟨_, s3, h6, h7⟩ := ok_bind h5
        exact htail s3 (hs12.trans (sh_sinkUnit _ s2 _ s3 h6)) h7
    · rw [if_neg hb] at h4
      exact htail s2 hs12 h4
  | tag tag =>
    dsimp only
    refine dj_ite (fun _ => ?_) (fun _ => dj_of_ro ro_panicAt)
    refine dj_of_ro (ro_bind (fun node => ro_bind (fun s0 => ?_)))
    cases s0.origMode with
    | none => exact ro_panicAt
    | some m =>
      dsimp only
      exact ro_bind (fun _ => ro_ite (fun _ => ro_pure _ trivial) (fun _ => ro_pure _ trivial))

/-! ### InTemplate -/

/-- a template on the stack: there is a template mode -/
theorem tm_pos_of_template {s : State} (ht : TI s) (h : hasNamed s.dom s.openElems "template".toList = true) :
    1 ≤ s.templateModes.length := by
  obtain ⟨x, hx, hp⟩ : ∃ x ∈ s.openElems, namedP s.dom "template".toList x = true := by
    unfold hasNamed at h
    rw [List.any_eq_true] at h
    exact h
  have hxn : nm s.dom x = tmplName := namedP_tmpl hp
  have h1 : 1 ≤ tcount s.dom s.openElems := by
    unfold tcount
    exact List.countP_pos_iff.mpr ⟨x, hx, by simp [isTmpl, hxn]⟩
  have := ht.s.tmpl
  omega

/-- **EOF inside a template**: `Done`, or `Reprocess(reset_insertion_mode(), EOF)` with a template mode popped -/
theorem ef_inTemplateEof {s s' : State} {r : ProcessResult} (ht : TI s) (h : inTemplateEof s = .ok (r, s')) :
    r = .done ∨ ∃ m', r = .reprocess m' .eof ∧ Pay s s' m' .eof := by
  unfold inTemplateEof at h
  obtain ⟨b, s1, h1, h2⟩ := ok_bind h
  obtain ⟨hb, hq1⟩ := sat_ok (al := anyAl) (sat_inHtmlElemNamed ht.h.open_el) h1
  by_cases c : (!b) = true
  · rw [if_pos c] at h2; exact Or.inl (ok_pure h2).1.symm
  rw [if_neg c] at h2
  have hb' : hasNamed s.dom s.openElems "template".toList = true := by rw [← hb]; simpa using c
  have htm := tm_pos_of_template ht hb'
  right
  obtain ⟨_, s2, h3, h4⟩ := ok_bind h2
  obtain ⟨_, s3, h5, h6⟩ := ok_bind h4
  obtain ⟨_, s4, h7, h8⟩ := ok_bind h6
  have h9 := ok_modS_bind h8
  obtain ⟨m1, s5, h10, h11⟩ := ok_bind h9
  obtain ⟨_, s6, h12, h13⟩ := ok_bind h11
  obtain ⟨m', s7, h14, h15⟩ := ok_bind h13
  obtain ⟨e1, e2⟩ := ok_pure h15
  refine ⟨m', e1.symm, ?_⟩
  rw [← e2]
  -- before the template mode is popped
  have sh14 : Shr s s4 :=
    ((⟨hq1.ext, by rw [hq1.openElems]; exact List.Sublist.refl _, hq1.templateModes, hq1.origMode⟩ : Shr s s1).trans
      (sh_unexpected s1 _ s2 h3)).trans
      ((sh_popUntilNamed _ s2 _ s3 h5).trans (sh_clearActiveFormattingToMarker s3 _ s4 h7))
  obtain ⟨hw4, hel4⟩ := sh14.wa ht.h.open_el
  -- after
  have sh57 : Shr ({ s4 with templateModes := s4.templateModes.dropLast } : State) s7 :=
    ((sh_resetInsertionMode _ m1 s5 h10).trans (sh_setMode _ s5 _ s6 h12)).trans
      (sh_resetInsertionMode s6 m' s7 h14)
  obtain ⟨hw7, _⟩ := sh57.wa (s := ({ s4 with templateModes := s4.templateModes.dropLast } : State)) hel4
  have htm7 : s7.templateModes = s.templateModes.dropLast := by rw [sh57.tm]; show s4.templateModes.dropLast = _; rw [sh14.tm]
  have hrange := range_resetInsertionMode h14
  refine ⟨?_, ?_, ?_⟩
  · have t1 : tabCount s7.dom s7.openElems ≤ tabCount s4.dom s4.openElems := hw7.tab
    have t2 := hw4.tab
    rw [htm7, List.length_dropLast]
    omega
  · rcases hrange with hr | hr
    · exact rank_resetRange hr .eof (Or.inl rfl)
    · rw [htm7] at hr
      exact rank_tmplMode (ht.s.tmodes m' (List.dropLast_subset _ hr)) .eof (Or.inl rfl)
  · intro hm'
    rcases hrange with hr | hr
    · rw [hm'] at hr; exact absurd hr (by decide)
    · intro e; rw [e] at hr; cases hr

/-- `set_template_mode(m'); Reprocess(m', token)` -/
theorem dj_setTemplateMode {m' : Mode} {tok t : Token} (hm' : m' ≠ .inTemplate)
    (hr : rank m' (cls tok) < rank .inTemplate (cls tok)) :
    DJ (do setTemplateMode m'; pure (ProcessResult.reprocess m' t)) .inTemplate tok := by
  intro s r s' ht hm hrun
  unfold setTemplateMode at hrun
  have h1 := ok_modS_bind hrun
  obtain ⟨e1, e2⟩ := ok_pure h1
  rw [← e1, ← e2]
  show ms _ m' tok < ms s .inTemplate tok
  unfold ms
  by_cases hc : isCharsTok tok = true
  · rw [if_pos hc, if_pos hc]
    have : cls tok = .chars := by
      cases tok <;> first | rfl | (simp [isCharsTok] at hc)
    rw [this] at hr
    omega
  · rw [if_neg hc, if_neg hc]
    have hw : wW ({ s with templateModes := s.templateModes.dropLast ++ [m'] } : State) m' ≤ wW s .inTemplate := by
      unfold wW tmW
      rw [if_neg hm', if_pos rfl]
      show 4 * tabCount s.dom s.openElems + 4 * max (s.templateModes.dropLast ++ [m']).length 0 ≤ _
      rw [List.length_append, List.length_dropLast]
      simp only [List.length_singleton]
      omega
    omega

theorem dj_stepInTemplate (hH : HeadE) (hB : BodyE) (tok : Token) : DJ (stepInTemplate tok) .inTemplate tok := by
  unfold stepInTemplate
  cases tok with
  | chars st text => exact dj_body hB (fun h => by cases h)
  | comment t => exact dj_body hB (fun h => by cases h)
  | nullChar => dj_quiet
  | eof =>
    intro s r s' ht _ hrun
    rcases ef_inTemplateEof ht hrun with e | ⟨m', e, hp⟩
    · rw [e]; trivial
    · rw [e]; exact dec_of_payS rfl hp
  | tag tag =>
    dsimp only
    refine dj_ite (fun h => dj_head hH (headElse_startOrEnd h) tag_ne_notSplit) (fun _ => ?_)
    refine dj_ite (fun h => dj_setTemplateMode (by decide)
      (cls_of_isStart (P := fun c => rank .inTable c < rank .inTemplate c) h (by decide))) (fun _ => ?_)
    refine dj_ite (fun h => dj_setTemplateMode (by decide)
      (cls_of_isStart (P := fun c => rank .inColumnGroup c < rank .inTemplate c) h (by decide))) (fun _ => ?_)
    refine dj_ite (fun h => dj_setTemplateMode (by decide)
      (cls_of_isStart (P := fun c => rank .inTableBody c < rank .inTemplate c) h (by decide))) (fun _ => ?_)
    refine dj_ite (fun h => dj_setTemplateMode (by decide)
      (cls_of_isStart (P := fun c => rank .inRow c < rank .inTemplate c) h (by decide))) (fun _ => ?_)
    refine dj_ite (fun h => dj_setTemplateMode (by decide) ?_) (fun _ => by dj_quiet)
    -- any other start tag → InBody
    have hk : tag.kind = .startTag := eq_of_beq h
    show rank .inBody (clsTag tag.kind tag.name) < rank .inTemplate (clsTag tag.kind tag.name)
    rw [hk]
    unfold clsTag
    dsimp only
    repeat' split
    all_goals decide

end H5V.Lemmas.TBFuel
