import H5V.Lemmas.HtmlTokSafe
/-!
Line accounting of the HTML tokenizer model: the potential
`Phi m inp = m.line + brk m.ignoreLf (stash m ++ inp)` — the current line plus the number of line
breaks (CR, LF, CRLF once) still ahead in the logically unread input — is invariant under
`Tokenizer::step`.  The "logically unread input" is what the look-ahead machinery has stashed
(`temp_buf` in the two `eat` states, `name_buf` of a character reference in progress) followed by
the queue.
-/
namespace H5V.Model.HtmlTok
open H5V.Props.C14

def isBrk (c : Char) : Bool := c = '\n' || c = '\r'

/-- number of line breaks in raw text; `f` = the previous character was a CR (a leading LF belongs
to it) -/
def brk : Bool → Str → Nat
  | _, [] => 0
  | f, c :: s =>
    if c = '\r' then 1 + brk true s
    else if c = '\n' then (if f then 0 else 1) + brk false s
    else brk false s

@[simp] theorem brk_nil (f : Bool) : brk f [] = 0 := by simp [brk]

theorem brk_cons_plain (f : Bool) (c : Char) (s : Str) (h : isBrk c = false) :
    brk f (c :: s) = brk false s := by
  simp only [isBrk, Bool.or_eq_false_iff, decide_eq_false_iff_not] at h
  simp [brk, h.1, h.2]

theorem brk_cons_cr (f : Bool) (s : Str) : brk f ('\r' :: s) = 1 + brk true s := by simp [brk]

theorem brk_cons_lf (f : Bool) (s : Str) :
    brk f ('\n' :: s) = (if f then 0 else 1) + brk false s := by
  simp [brk]

/-- a pending-LF flag only matters when the text starts with LF -/
theorem brk_flag (c : Char) (s : Str) (h : c ≠ '\n') : brk true (c :: s) = brk false (c :: s) := by
  by_cases hc : c = '\r'
  · subst hc; simp [brk]
  · simp [brk, hc, h]

theorem brk_plain_append (f : Bool) (a s : Str) (h : ∀ c ∈ a, isBrk c = false) (ha : a ≠ []) :
    brk f (a ++ s) = brk false s := by
  induction a generalizing f with
  | nil => exact absurd rfl ha
  | cons c t ih =>
    rw [List.cons_append, brk_cons_plain _ _ _ (h c (List.mem_cons_self ..))]
    by_cases ht : t = []
    · subst ht; rfl
    · exact ih false (fun x hx => h x (List.mem_cons_of_mem _ hx)) ht

theorem brk_plain_append' (a s : Str) (h : ∀ c ∈ a, isBrk c = false) :
    brk false (a ++ s) = brk false s := by
  by_cases ha : a = []
  · subst ha; rfl
  · exact brk_plain_append false a s h ha

/-- the logically unread text held back by the look-ahead machinery -/
def stash (m : Mach) : Str :=
  match m.charRef with
  | some cr => cr.nameBuf.getD []
  | none => if m.state = .markupDeclarationOpen ∨ m.state = .afterDoctypeName then m.tempBuf else []

def Phi (m : Mach) (inp : Str) : Nat := m.line + brk m.ignoreLf (stash m ++ inp)

/-! ### the entity table contains no line break -/

def keyCharOk (x : Nat) : Bool := x != 10 && x != 13

def tableNoBreak : Bool :=
  Gen.Entities.firstLetters.all (fun c => (Gen.Entities.bucket c).all (fun r => r.1.all keyCharOk))

theorem tableNoBreak_true : tableNoBreak = true := by decide +kernel


theorem isBrk_of_toNat (x : Char) (h : keyCharOk x.toNat = true) : isBrk x = false := by
  simp only [keyCharOk, Bool.and_eq_true, bne_iff_ne, ne_eq] at h
  simp only [isBrk, Bool.or_eq_false_iff, decide_eq_false_iff_not]
  constructor
  · intro hx; subst hx; exact h.1 (by decide)
  · intro hx; subst hx; exact h.2 (by decide)

/-- a buffer that is in the entity map (a name or a prefix of one) contains no line break -/
theorem lookup_no_break (nb : Str) (mt : Nat × Nat) (h : entityLookup nb = some mt) :
    ∀ x ∈ nb, isBrk x = false := by
  unfold entityLookup at h
  cases hk : nb.map Char.toNat with
  | nil =>
    have : nb = [] := by simpa using hk
    subst this
    intro x hx; exact absurd hx List.not_mem_nil
  | cons c rest =>
    have hsome : (entityLookupN (c :: rest)).isSome = true := by rw [← hk, h]; rfl
    obtain ⟨r, hr, hp⟩ := (Walk.lookup_some_iff c rest).mp hsome
    have hc := bucket_letter c r hr
    have ht := tableNoBreak_true
    simp only [tableNoBreak, List.all_eq_true] at ht
    have hrow := ht c hc r hr
    intro x hx
    apply isBrk_of_toNat
    have : x.toNat ∈ c :: rest := by rw [← hk]; exact List.mem_map_of_mem hx
    exact hrow _ (hp.subset this)


/-! ### the reader conserves `line + breaks ahead` -/

theorem foldChar_line (o : Opts) (m : Mach) (c : Char) :
    (foldChar o m c).2.line = m.line + (if isBrk c then 1 else 0) := by
  unfold foldChar isBrk
  dsimp only
  by_cases h1 : c = '\r'
  · subst h1
    simp only [↓reduceIte]
    split <;> simp
  · simp only [h1, ↓reduceIte]
    by_cases h2 : c = '\n'
    · subst h2; simp only [↓reduceIte]; split <;> simp
    · simp only [h2, ↓reduceIte]; split <;> simp [h1, h2]

/-- one character through input preprocessing (flag clear) -/
theorem foldChar_phi (o : Opts) (m : Mach) (c : Char) (rest : Str) (h : m.ignoreLf = false) :
    (foldChar o m c).2.line + brk (foldChar o m c).2.ignoreLf rest = m.line + brk false (c :: rest) := by
  have hf := foldChar_fields o m c
  rw [foldChar_line, hf.2.2.2.2.2.1]
  by_cases h1 : c = '\r'
  · subst h1; simp [isBrk, brk_cons_cr]; omega
  · by_cases h2 : c = '\n'
    · subst h2; simp [isBrk, h, brk_cons_lf]; omega
    · have : isBrk c = false := by simp [isBrk, h1, h2]
      simp [h1, h, this, brk_cons_plain]

theorem preprocess_phi (o : Opts) (m : Mach) (c : Char) (rest : Str) :
    (preprocess o m c rest).2.1.line + brk (preprocess o m c rest).2.1.ignoreLf (preprocess o m c rest).2.2
      = m.line + brk m.ignoreLf (c :: rest) := by
  unfold preprocess
  split
  · rename_i hil
    split
    · rename_i hc
      subst hc
      cases rest with
      | nil => simp [hil, brk_cons_lf]
      | cons y ys =>
        simp only
        rw [foldChar_phi o (m.setIgnoreLf false) y ys (by simp)]
        simp [hil, brk_cons_lf]
    · rename_i hc
      simp only
      rw [foldChar_phi o (m.setIgnoreLf false) c rest (by simp), hil, brk_flag c rest hc]
      simp
  · rename_i hil
    simp only
    rw [foldChar_phi o m c rest (by simpa using hil)]
    simp at hil; rw [hil]

theorem getChar_phi (o : Opts) (m : Mach) (inp : Str) :
    (getChar o m inp).2.1.line + brk (getChar o m inp).2.1.ignoreLf (getChar o m inp).2.2
      = m.line + brk m.ignoreLf inp := by
  unfold getChar
  split
  · simp
  · cases inp with
    | nil => simp
    | cons c rest => exact preprocess_phi o m c rest


theorem not_brk_of_not_mem (S : List Char) (c : Char)
    (hS : S.contains '\r' = true ∧ S.contains '\n' = true) (hc : S.contains c = false) : isBrk c = false := by
  simp only [isBrk, Bool.or_eq_false_iff, decide_eq_false_iff_not]
  constructor
  · intro h; subst h; rw [hS.2] at hc; simp at hc
  · intro h; subst h; rw [hS.1] at hc; simp at hc

theorem popExceptFrom_phi (o : Opts) (S : List Char) (m : Mach) (inp : Str)
    (hS : S.contains '\r' = true ∧ S.contains '\n' = true) :
    (popExceptFrom o S m inp).2.1.line + brk (popExceptFrom o S m inp).2.1.ignoreLf (popExceptFrom o S m inp).2.2
      = m.line + brk m.ignoreLf inp := by
  unfold popExceptFrom
  split
  · exact getChar_phi o m inp
  · rename_i hcond
    simp only [Bool.or_eq_true, not_or, Bool.not_eq_true] at hcond
    cases inp with
    | nil => simp
    | cons c rest =>
      simp only
      split
      · exact preprocess_phi o m c rest
      · rename_i hc
        simp only
        rw [hcond.2, brk_cons_plain _ _ _ (not_brk_of_not_mem S c hS (by simpa using hc))]

theorem readData_phi (o : Opts) (m : Mach) (inp : Str) :
    (readData o m inp).2.1.line + brk (readData o m inp).2.1.ignoreLf (readData o m inp).2.2
      = m.line + brk m.ignoreLf inp := by
  have hS := setOf_crlf .data (Or.inr rfl)
  unfold readData
  split
  · exact popExceptFrom_phi o _ m inp hS
  · rename_i hcond
    simp only [Bool.or_eq_true, not_or, Bool.not_eq_true] at hcond
    cases inp with
    | nil => simp
    | cons c rest =>
      simp only
      split
      · exact popExceptFrom_phi o _ m (c :: rest) hS
      · rename_i hc
        have hnb : isBrk c = false := not_brk_of_not_mem simdFirst c (by decide) (by simpa using hc)
        have hn : c ≠ '\n' := by
          intro h; subst h; simp [isBrk] at hnb
        simp only [hn, ↓reduceIte]
        rw [hcond.2, brk_cons_plain _ _ _ hnb]


/-! ### invariants that the accounting relies on -/

/-- states in which `temp_buf` may hold stale text (it is only ever consulted after being reset) -/
def isRaw : State → Bool
  | .rawData _ | .plaintext | .rawLessThanSign _ | .rawEndTagOpen _ | .rawEndTagName _
  | .scriptDataEscapeStart _ | .scriptDataEscapeStartDash | .scriptDataEscapedDash _
  | .scriptDataEscapedDashDash _ | .scriptDataDoubleEscapeEnd
  | .cdataSection | .cdataSectionBracket | .cdataSectionEnd => true
  | _ => false

theorem sinkState_raw {s0 s : State} (h : sinkState s0 s) (h0 : isRaw s = false) : s = s0 := by
  unfold sinkState at h
  rcases h with h | h | ⟨k, h⟩
  · exact h
  · subst h; simp [isRaw] at h0
  · subst h; simp [isRaw] at h0

/-- outside the raw-text states a transition leaves `temp_buf` empty if it found it empty -/
theorem transChar_nr (o : Opts) (pol : Pol) (m : Mach) (c : Char)
    (h : isRaw m.state = false → m.tempBuf = []) :
    isRaw (transChar o pol m c).1.state = false → (transChar o pol m c).1.tempBuf = [] := by
  unfold transChar
  split <;> (repeat' split) <;>
    (have h1 := fun h0 => sinkState_raw (emitTag_state pol .data m) h0
     have h2 := fun h0 => sinkState_raw (emitTag_state pol .data (clearTemp m)) h0
     have h3 := fun h0 => sinkState_raw (emitTag_state pol .data { m with tagSelfClosing := true }) h0
     simp_all [isRaw, clearTemp, emitTempBuf])

end H5V.Model.HtmlTok
