import H5V.Lemmas.HtmlTokSafe
/-!
Line accounting of the HTML tokenizer model: the potential
`Phi m inp = m.line + brk m.ignoreLf (stash m ++ inp)` — the current line plus the number of line
breaks (CR, LF, CRLF once) still ahead in the logically unread input — is invariant under
`Tokenizer::step`.  The "logically unread input" is what the look-ahead machinery has stashed
(`temp_buf` in the two `eat` states, `name_buf` of a character reference in progress) followed by
the queue.
-/
namespace H5V.Model.HtmlTok
open H5V.Props.C14

def isBrk (c : Char) : Bool := c = '\n' || c = '\r'

/-- number of line breaks in raw text; `f` = the previous character was a CR (a leading LF belongs
to it) -/
def brk : Bool → Str → Nat
  | _, [] => 0
  | f, c :: s =>
    if c = '\r' then 1 + brk true s
    else if c = '\n' then (if f then 0 else 1) + brk false s
    else brk false s

@[simp] theorem brk_nil (f : Bool) : brk f [] = 0 := by simp [brk]

theorem brk_cons_plain (f : Bool) (c : Char) (s : Str) (h : isBrk c = false) :
    brk f (c :: s) = brk false s := by
  simp only [isBrk, Bool.or_eq_false_iff, decide_eq_false_iff_not] at h
  simp [brk, h.1, h.2]

theorem brk_cons_cr (f : Bool) (s : Str) : brk f ('\r' :: s) = 1 + brk true s := by simp [brk]

theorem brk_cons_lf (f : Bool) (s : Str) :
    brk f ('\n' :: s) = (if f then 0 else 1) + brk false s := by
  simp [brk]

/-- a pending-LF flag only matters when the text starts with LF -/
theorem brk_flag (c : Char) (s : Str) (h : c ≠ '\n') : brk true (c :: s) = brk false (c :: s) := by
  by_cases hc : c = '\r'
  · subst hc; simp [brk]
  · simp [brk, hc, h]

theorem brk_plain_append (f : Bool) (a s : Str) (h : ∀ c ∈ a, isBrk c = false) (ha : a ≠ []) :
    brk f (a ++ s) = brk false s := by
  induction a generalizing f with
  | nil => exact absurd rfl ha
  | cons c t ih =>
    rw [List.cons_append, brk_cons_plain _ _ _ (h c (List.mem_cons_self ..))]
    by_cases ht : t = []
    · subst ht; rfl
    · exact ih false (fun x hx => h x (List.mem_cons_of_mem _ hx)) ht

theorem brk_plain_append' (a s : Str) (h : ∀ c ∈ a, isBrk c = false) :
    brk false (a ++ s) = brk false s := by
  by_cases ha : a = []
  · subst ha; rfl
  · exact brk_plain_append false a s h ha

/-- the logically unread text held back by the look-ahead machinery -/
def stash (m : Mach) : Str :=
  match m.charRef with
  | some cr => cr.nameBuf.getD []
  | none => if m.state = .markupDeclarationOpen ∨ m.state = .afterDoctypeName then m.tempBuf else []

def Phi (m : Mach) (inp : Str) : Nat := m.line + brk m.ignoreLf (stash m ++ inp)

/-! ### the entity table contains no line break -/

def keyCharOk (x : Nat) : Bool := x != 10 && x != 13

def tableNoBreak : Bool :=
  Gen.Entities.firstLetters.all (fun c => (Gen.Entities.bucket c).all (fun r => r.1.all keyCharOk))

theorem tableNoBreak_true : tableNoBreak = true := by decide +kernel


theorem isBrk_of_toNat (x : Char) (h : keyCharOk x.toNat = true) : isBrk x = false := by
  simp only [keyCharOk, Bool.and_eq_true, bne_iff_ne, ne_eq] at h
  simp only [isBrk, Bool.or_eq_false_iff, decide_eq_false_iff_not]
  constructor
  · intro hx; subst hx; exact h.1 (by decide)
  · intro hx; subst hx; exact h.2 (by decide)

/-- a buffer that is in the entity map (a name or a prefix of one) contains no line break -/
theorem lookup_no_break (nb : Str) (mt : Nat × Nat) (h : entityLookup nb = some mt) :
    ∀ x ∈ nb, isBrk x = false := by
  unfold entityLookup at h
  cases hk : nb.map Char.toNat with
  | nil =>
    have : nb = [] := by simpa using hk
    subst this
    intro x hx; exact absurd hx List.not_mem_nil
  | cons c rest =>
    have hsome : (entityLookupN (c :: rest)).isSome = true := by rw [← hk, h]; rfl
    obtain ⟨r, hr, hp⟩ := (Walk.lookup_some_iff c rest).mp hsome
    have hc := bucket_letter c r hr
    have ht := tableNoBreak_true
    simp only [tableNoBreak, List.all_eq_true] at ht
    have hrow := ht c hc r hr
    intro x hx
    apply isBrk_of_toNat
    have : x.toNat ∈ c :: rest := by rw [← hk]; exact List.mem_map_of_mem hx
    exact hrow _ (hp.subset this)


/-! ### the reader conserves `line + breaks ahead` -/

theorem foldChar_line (o : Opts) (m : Mach) (c : Char) :
    (foldChar o m c).2.line = m.line + (if isBrk c then 1 else 0) := by
  unfold foldChar isBrk
  dsimp only
  by_cases h1 : c = '\r'
  · subst h1
    simp only [↓reduceIte]
    split <;> simp
  · simp only [h1, ↓reduceIte]
    by_cases h2 : c = '\n'
    · subst h2; simp only [↓reduceIte]; split <;> simp
    · simp only [h2, ↓reduceIte]; split <;> simp [h1, h2]

/-- one character through input preprocessing (flag clear) -/
theorem foldChar_phi (o : Opts) (m : Mach) (c : Char) (rest : Str) (h : m.ignoreLf = false) :
    (foldChar o m c).2.line + brk (foldChar o m c).2.ignoreLf rest = m.line + brk false (c :: rest) := by
  have hf := foldChar_fields o m c
  rw [foldChar_line, hf.2.2.2.2.2.1]
  by_cases h1 : c = '\r'
  · subst h1; simp [isBrk, brk_cons_cr]; omega
  · by_cases h2 : c = '\n'
    · subst h2; simp [isBrk, h, brk_cons_lf]; omega
    · have : isBrk c = false := by simp [isBrk, h1, h2]
      simp [h1, h, this, brk_cons_plain]

theorem preprocess_phi (o : Opts) (m : Mach) (c : Char) (rest : Str) :
    (preprocess o m c rest).2.1.line + brk (preprocess o m c rest).2.1.ignoreLf (preprocess o m c rest).2.2
      = m.line + brk m.ignoreLf (c :: rest) := by
  unfold preprocess
  split
  · rename_i hil
    split
    · rename_i hc
      subst hc
      cases rest with
      | nil => simp [hil, brk_cons_lf]
      | cons y ys =>
        simp only
        rw [foldChar_phi o (m.setIgnoreLf false) y ys (by simp)]
        simp [hil, brk_cons_lf]
    · rename_i hc
      simp only
      rw [foldChar_phi o (m.setIgnoreLf false) c rest (by simp), hil, brk_flag c rest hc]
      simp
  · rename_i hil
    simp only
    rw [foldChar_phi o m c rest (by simpa using hil)]
    simp at hil; rw [hil]

theorem getChar_phi (o : Opts) (m : Mach) (inp : Str) :
    (getChar o m inp).2.1.line + brk (getChar o m inp).2.1.ignoreLf (getChar o m inp).2.2
      = m.line + brk m.ignoreLf inp := by
  unfold getChar
  split
  · simp
  · cases inp with
    | nil => simp
    | cons c rest => exact preprocess_phi o m c rest


theorem not_brk_of_not_mem (S : List Char) (c : Char)
    (hS : S.contains '\r' = true ∧ S.contains '\n' = true) (hc : S.contains c = false) : isBrk c = false := by
  simp only [isBrk, Bool.or_eq_false_iff, decide_eq_false_iff_not]
  constructor
  · intro h; subst h; rw [hS.2] at hc; simp at hc
  · intro h; subst h; rw [hS.1] at hc; simp at hc

theorem popExceptFrom_phi (o : Opts) (S : List Char) (m : Mach) (inp : Str)
    (hS : S.contains '\r' = true ∧ S.contains '\n' = true) :
    (popExceptFrom o S m inp).2.1.line + brk (popExceptFrom o S m inp).2.1.ignoreLf (popExceptFrom o S m inp).2.2
      = m.line + brk m.ignoreLf inp := by
  unfold popExceptFrom
  split
  · exact getChar_phi o m inp
  · rename_i hcond
    simp only [Bool.or_eq_true, not_or, Bool.not_eq_true] at hcond
    cases inp with
    | nil => simp
    | cons c rest =>
      simp only
      split
      · exact preprocess_phi o m c rest
      · rename_i hc
        simp only
        rw [hcond.2, brk_cons_plain _ _ _ (not_brk_of_not_mem S c hS (by simpa using hc))]

theorem readData_phi (o : Opts) (m : Mach) (inp : Str) :
    (readData o m inp).2.1.line + brk (readData o m inp).2.1.ignoreLf (readData o m inp).2.2
      = m.line + brk m.ignoreLf inp := by
  have hS := setOf_crlf .data (Or.inr rfl)
  unfold readData
  split
  · exact popExceptFrom_phi o _ m inp hS
  · rename_i hcond
    simp only [Bool.or_eq_true, not_or, Bool.not_eq_true] at hcond
    cases inp with
    | nil => simp
    | cons c rest =>
      simp only
      split
      · exact popExceptFrom_phi o _ m (c :: rest) hS
      · rename_i hc
        have hnb : isBrk c = false := not_brk_of_not_mem simdFirst c (by decide) (by simpa using hc)
        have hn : c ≠ '\n' := by
          intro h; subst h; simp [isBrk] at hnb
        simp only [hn, ↓reduceIte]
        rw [hcond.2, brk_cons_plain _ _ _ hnb]


/-! ### invariants that the accounting relies on -/

/-- states in which `temp_buf` may hold stale text (it is only ever consulted after being reset) -/
def isRaw : State → Bool
  | .rawData _ | .plaintext | .rawLessThanSign _ | .rawEndTagOpen _ | .rawEndTagName _
  | .scriptDataEscapeStart _ | .scriptDataEscapeStartDash | .scriptDataEscapedDash _
  | .scriptDataEscapedDashDash _ | .scriptDataDoubleEscapeEnd
  | .cdataSection | .cdataSectionBracket | .cdataSectionEnd => true
  | _ => false

/-- outside the raw-text states a transition leaves `temp_buf` empty if it found it empty -/
theorem transChar_nr (o : Opts) (pol : Pol) (m : Mach) (c : Char)
    (h : isRaw m.state = false → m.tempBuf = []) :
    (transChar o pol m c).1.tempBuf ≠ [] → isRaw (transChar o pol m c).1.state = true := by
  unfold transChar
  split <;> (repeat' split) <;> simp_all [isRaw, clearTemp, emitTempBuf]


theorem transSet_raw (o : Opts) (pol : Pol) (m : Mach) (r : SetRes) (h : isRaw m.state = true) :
    isRaw (transSet o pol m r).1.state = true := by
  unfold transSet
  split <;> (repeat' split) <;> simp_all [isRaw]

/-- a transition never asks to reconsume in a state that reads with `peek`/`eat` -/
theorem transChar_recon (o : Opts) (pol : Pol) (m : Mach) (c : Char) (h : m.reconsume = false) :
    (transChar o pol m c).1.reconsume = true →
    (transChar o pol m c).1.state ≠ .beforeAttributeValue ∧
    (transChar o pol m c).1.state ≠ .markupDeclarationOpen ∧
    (transChar o pol m c).1.state ≠ .afterDoctypeName := by
  unfold transChar
  split <;> (repeat' split) <;> simp_all


/-! ### `eat` (look-ahead) -/

/-- the prologue of `eat` on a machine that is not reconsuming and whose stash is empty whenever a
LF is pending: the flag and the input change together -/
theorem eatSkipLf_phi (m : Mach) (inp : Str) (hr : m.reconsume = false) (hok : EatOk m) :
    (eatSkipLf m inp).1.tempBuf = m.tempBuf ∧ (eatSkipLf m inp).1.line = m.line ∧
    (eatSkipLf m inp).1.reconsume = false ∧
    brk (eatSkipLf m inp).1.ignoreLf ((eatSkipLf m inp).1.tempBuf ++ (eatSkipLf m inp).2)
      = brk m.ignoreLf (m.tempBuf ++ inp) ∧
    ((eatSkipLf m inp).1.ignoreLf = true → m.tempBuf = [] ∧ inp = [] ∧ (eatSkipLf m inp).2 = []) := by
  unfold eatSkipLf
  cases hil : m.ignoreLf with
  | false => simp [hr, hil]
  | true =>
    have ht := hok hil
    cases inp with
    | nil => simp [peek, hr, hil, ht]
    | cons c rest =>
      simp only [peek, hr, Bool.false_eq_true, ↓reduceIte, List.head?_cons]
      by_cases hc : c = '\n'
      · subst hc
        simp [discardChar, hr, ht, brk_cons_lf]
      · simp [hc, hr, ht, brk_flag c rest hc]

/-- the characters a keyword can match are never line breaks -/
def PatOk (eq : Char → Char → Bool) (pat : Str) : Prop :=
  ∀ p ∈ pat, eq '\n' p = false ∧ eq '\r' p = false

theorem patOk_kw : PatOk eqExact kwDashDash ∧ PatOk eqCi kwDoctype ∧ PatOk eqExact kwCdata ∧
    PatOk eqCi kwPublic ∧ PatOk eqCi kwSystem := by
  refine ⟨?_, ?_, ?_, ?_, ?_⟩ <;> (intro p hp; revert p; decide)

theorem patOk_not_brk {eq : Char → Char → Bool} {pat : Str} (h : PatOk eq pat) (a p : Char) (hp : p ∈ pat)
    (he : eq a p = true) : isBrk a = false := by
  simp only [isBrk, Bool.or_eq_false_iff, decide_eq_false_iff_not]
  constructor
  · intro ha; subst ha; rw [(h p hp).1] at he; simp at he
  · intro ha; subst ha; rw [(h p hp).2] at he; simp at he

/-- whatever `eatCmp` accepted as (a prefix of) the keyword contains no line break -/
theorem eatCmp_none_plain (eq : Char → Char → Bool) (all pat : Str) (hp : PatOk eq pat)
    (h : eatCmp eq all pat = none) : ∀ c ∈ all, isBrk c = false := by
  induction all generalizing pat with
  | nil => intro c hc; exact absurd hc List.not_mem_nil
  | cons a t ih =>
    cases pat with
    | nil => simp [eatCmp] at h
    | cons p ps =>
      simp only [eatCmp] at h
      split at h
      · rename_i he
        intro c hc
        rcases List.mem_cons.mp hc with hc | hc
        · subst hc; exact patOk_not_brk hp _ p (List.mem_cons_self ..) he
        · exact ih ps (fun q hq => hp q (List.mem_cons_of_mem _ hq)) h c hc
      · simp at h

theorem eatCmp_true_plain (eq : Char → Char → Bool) (all pat : Str) (hp : PatOk eq pat)
    (h : eatCmp eq all pat = some true) :
    (∀ c ∈ all.take pat.length, isBrk c = false) ∧ pat.length ≤ all.length := by
  induction all generalizing pat with
  | nil =>
    cases pat with
    | nil => simp
    | cons p ps => simp [eatCmp] at h
  | cons a t ih =>
    cases pat with
    | nil => simp
    | cons p ps =>
      simp only [eatCmp] at h
      split at h
      · rename_i he
        obtain ⟨h1, h2⟩ := ih ps (fun q hq => hp q (List.mem_cons_of_mem _ hq)) h
        refine ⟨?_, by simp; omega⟩
        intro c hc
        simp only [List.length_cons, List.take_succ_cons, List.mem_cons] at hc
        rcases hc with hc | hc
        · subst hc; exact patOk_not_brk hp _ p (List.mem_cons_self ..) he
        · exact h1 c hc
      · simp at h


/-- `eat` moves text between the queue and the stash, or consumes a matched keyword (which holds no
line break): the breaks ahead in stash ++ queue do not change -/
theorem eat_phi (m : Mach) (inp pat : Str) (eq : Char → Char → Bool)
    (hr : m.reconsume = false) (hok : EatOk m)
    (hp : PatOk eq pat) (hne : pat ≠ [])
    (b : Option Bool) (m1 : Mach) (i1 : Str) (h : eat m inp pat eq = (b, m1, i1)) :
    m1.line = m.line ∧ m1.reconsume = false ∧ EatOk m1 ∧
    brk m1.ignoreLf (m1.tempBuf ++ i1) = brk m.ignoreLf (m.tempBuf ++ inp) ∧
    (b ≠ none → m1.tempBuf = []) ∧ (b = none → ∀ c ∈ m1.tempBuf, isBrk c = false) := by
  rw [eat_eq_core] at h
  obtain ⟨f1, f2, f3, f4, f5⟩ := eatSkipLf_phi m inp hr hok
  generalize hmi : (eatSkipLf m inp).1 = mi at *
  generalize hii : (eatSkipLf m inp).2 = ii at *
  unfold eatCore at h
  cases hc : eatCmp eq (mi.tempBuf ++ ii) pat with
  | none =>
    cases hae : mi.atEof with
    | true =>
      -- at EOF the look-ahead gives up: everything goes back to the queue
      simp only [hc, hae, ↓reduceIte, Prod.mk.injEq] at h
      obtain ⟨hb, hm1, hi1⟩ := h
      subst hb hm1 hi1
      refine ⟨by simpa using f2, by simpa using f3, fun _ => by simp, ?_, fun _ => by simp, fun hx => by simp at hx⟩
      simpa using f4
    | false =>
      simp only [hc, hae, Bool.false_eq_true, ↓reduceIte, Prod.mk.injEq] at h
      obtain ⟨hb, hm1, hi1⟩ := h
      subst hb hm1 hi1
      refine ⟨by simpa using f2, by simpa using f3, ?_, by simpa using f4, by simp, fun _ => ?_⟩
      · intro hil
        have := f5 (by simpa using hil)
        simp [f1, this.1, this.2.2]
      · simpa using eatCmp_none_plain eq _ pat hp hc
  | some bb =>
    have hall : mi.tempBuf ++ ii ≠ [] := by
      intro hnil
      rw [hnil] at hc
      cases pat with
      | nil => exact hne rfl
      | cons p ps => simp [eatCmp] at hc
    have hig : mi.ignoreLf = false := by
      cases hx : mi.ignoreLf with
      | false => rfl
      | true =>
        have := f5 hx
        exact absurd (by simp [f1, this.1, this.2.2]) hall
    cases bb with
    | false =>
      simp only [hc, Prod.mk.injEq] at h
      obtain ⟨hb, hm1, hi1⟩ := h
      subst hb hm1 hi1
      refine ⟨by simpa using f2, by simpa using f3, fun _ => by simp, ?_, fun _ => by simp, fun hx => by simp at hx⟩
      simpa using f4
    | true =>
      simp only [hc, Prod.mk.injEq] at h
      obtain ⟨hb, hm1, hi1⟩ := h
      subst hb hm1 hi1
      refine ⟨by simpa using f2, by simpa using f3, fun _ => by simp, ?_, fun _ => by simp, fun hx => by simp at hx⟩
      obtain ⟨hpl, hlen⟩ := eatCmp_true_plain eq _ pat hp hc
      have hk : (mi.tempBuf ++ ii).take pat.length ≠ [] := by
        intro hnil
        have : pat.length = 0 ∨ (mi.tempBuf ++ ii) = [] := by
          rcases List.take_eq_nil_iff.mp hnil with h0 | h0
          · exact Or.inl h0
          · exact Or.inr h0
        rcases this with h0 | h0
        · exact hne (List.length_eq_zero_iff.mp h0)
        · exact hall h0
      have hsplit := brk_plain_append mi.ignoreLf _ ((mi.tempBuf ++ ii).drop pat.length) hpl hk
      rw [List.take_append_drop] at hsplit
      simp only [Mach.setTempBuf, List.nil_append]
      rw [← f4, hsplit, hig]


/-! ### the character-reference sub-tokenizer -/

theorem toDigit_not_brk (c : Char) (base n : Nat) (h : toDigit c base = some n) : isBrk c = false := by
  simp only [isBrk, Bool.or_eq_false_iff, decide_eq_false_iff_not]
  constructor
  · intro hc; subst hc; simp [toDigit] at h
  · intro hc; subst hc; simp [toDigit] at h

theorem alnum_not_brk (c : Char) (h : isAsciiAlnum c = true) : isBrk c = false := by
  simp only [isBrk, Bool.or_eq_false_iff, decide_eq_false_iff_not]
  constructor
  · intro hc; subst hc; simp [isAsciiAlnum] at h
  · intro hc; subst hc; simp [isAsciiAlnum] at h

/-- the registers of the sub-tokenizer as far as line accounting cares -/
structure CRLines (cr : CharRefSt) : Prop where
  plain : ∀ c ∈ cr.nameBuf.getD [], isBrk c = false
  noBuf : cr.state ≠ .named → cr.state ≠ .bogusName → cr.nameBuf = none
  hex : ∀ c, cr.hexMarker = some c → isBrk c = false

/-- `m1` differs from `m` at most in what was emitted -/
def SameLines (m1 m : Mach) : Prop :=
  m1.line = m.line ∧ m1.ignoreLf = m.ignoreLf ∧ m1.reconsume = m.reconsume

theorem SameLines.refl (m : Mach) : SameLines m m := ⟨rfl, rfl, rfl⟩
theorem sameLines_emitErr (m : Mach) (s : String) : SameLines (emitErr m s) m := by simp [SameLines]
theorem sameLines_emit (m : Mach) (t : Token) : SameLines (emit m t) m := by simp [SameLines]
theorem sameLines_nameErr (o : Opts) (m : Mach) (nb : Str) : SameLines (nameErr o m nb) m := by
  unfold nameErr; split <;> simp [SameLines]
theorem sameLines_finishNumeric (o : Opts) (m : Mach) (cr : CharRefSt) : SameLines (finishNumeric o m cr).1 m := by
  unfold finishNumeric numericErr
  dsimp only
  split
  · split <;> simp [SameLines]
  · exact SameLines.refl m


/-- what one step of the sub-tokenizer must satisfy: same line, no pending LF, and the breaks ahead
in `name_buf ++ queue` unchanged (on `Done` the buffer has been given back or consumed) -/
def CROk (m : Mach) (nb : Str) (inp : Str) : CRRes → Prop
  | .error _ => True
  | .ok (m1, i1, cr1, st) =>
    m1.line = m.line ∧ m1.ignoreLf = false ∧ m1.reconsume = false ∧
    (match st with
     | .done _ => brk false i1 = brk false (nb ++ inp)
     | _ => CRLines cr1 ∧ brk false (cr1.nameBuf.getD [] ++ i1) = brk false (nb ++ inp))

theorem namedDecision_lines (m : Mach) (cr : CharRefSt) (nb : Str) (c1 c2 : Nat) (m1 : Mach) (chars : Str)
    (h : namedDecision m cr nb c1 c2 = .ok (some (m1, chars))) :
    m1.line = m.line ∧ m1.ignoreLf = false ∧ m1.reconsume = m.reconsume := by
  unfold namedDecision at h
  dsimp only at h
  repeat' split at h
  all_goals (try (simp at h; done))
  all_goals
    (simp only [Except.ok.injEq, Option.some.injEq, Prod.mk.injEq] at h
     obtain ⟨h1, _⟩ := h
     subst h1
     simp)

theorem finishNamed_phi (o : Opts) (m : Mach) (inp : Str) (cr : CharRefSt) (ec : Option Char) (nb : Str)
    (hil : m.ignoreLf = false) (hr : m.reconsume = false) (hnb : cr.nameBuf = some nb)
    (h1 : cr.nameMatch ≠ none → ∀ x ∈ nb.take cr.nameLen, isBrk x = false)
    (h2 : ∀ c, ec = some c → isAsciiAlnum c = true → ∀ x ∈ nb, isBrk x = false)
    (hhex : ∀ c, cr.hexMarker = some c → isBrk c = false) :
    CROk m nb inp (finishNamed o m inp cr ec) := by
  unfold finishNamed
  rw [hnb]
  dsimp only
  cases hm : cr.nameMatch with
  | none =>
    dsimp only
    cases ec with
    | none =>
      simp only [Bool.false_eq_true, ↓reduceIte]
      exact ⟨rfl, hil, hr, rfl⟩
    | some c =>
      dsimp only
      by_cases hcb : isAsciiAlnum c = true
      · simp only [hcb, ↓reduceIte]
        refine ⟨rfl, hil, hr, ⟨?_, ?_, hhex⟩, by simp⟩
        · simpa using h2 c rfl hcb
        · intro _ hx; simp at hx
      · simp only [hcb, Bool.false_eq_true, ↓reduceIte]
        have hs : SameLines (if (c = ';' && decide (nb.length > 1)) = true then nameErr o m nb else m) m := by
          split
          · exact sameLines_nameErr o m nb
          · exact SameLines.refl m
        exact ⟨hs.1, by rw [hs.2.1, hil], by rw [hs.2.2, hr], rfl⟩
  | some mt =>
    obtain ⟨c1, c2⟩ := mt
    dsimp only
    cases hd : namedDecision m cr nb c1 c2 with
    | error e => trivial
    | ok r =>
      cases r with
      | none => exact ⟨rfl, hil, hr, rfl⟩
      | some mc =>
        obtain ⟨m1, chars⟩ := mc
        obtain ⟨l1, l2, l3⟩ := namedDecision_lines m cr nb c1 c2 m1 chars hd
        refine ⟨l1, l2, by rw [l3, hr], ?_⟩
        show brk false (nb.drop cr.nameLen ++ inp) = brk false (nb ++ inp)
        have hp := h1 (by rw [hm]; simp)
        conv => rhs; rw [← List.take_append_drop cr.nameLen nb, List.append_assoc]
        exact (brk_plain_append' _ _ hp).symm


theorem finishNumericStatus_phi (o : Opts) (m m0 : Mach) (inp i0 : Str) (cr : CharRefSt) (nb : Str)
    (hs : SameLines m m0) (hil : m0.ignoreLf = false) (hr : m0.reconsume = false)
    (hb : brk false inp = brk false (nb ++ i0)) :
    CROk m0 nb i0 (finishNumericStatus o m inp cr) := by
  unfold finishNumericStatus
  have hf := sameLines_finishNumeric o m cr
  cases hfn : finishNumeric o m cr with
  | mk m1 r =>
    rw [hfn] at hf
    cases r with
    | error e => trivial
    | ok ch =>
      exact ⟨by rw [hf.1, hs.1], by rw [hf.2.1, hs.2.1, hil], by rw [hf.2.2, hs.2.2, hr], hb⟩

theorem crStep_phi (o : Opts) (m : Mach) (inp : Str) (cr : CharRefSt)
    (hil : m.ignoreLf = false) (hr : m.reconsume = false) (hc : CRLines cr) (hs : CRSafe cr) :
    CROk m (cr.nameBuf.getD []) inp (crStep o m inp cr) := by
  unfold crStep
  cases inp with
  | nil => simp only [peek, hr, Bool.false_eq_true, ↓reduceIte, List.head?_nil]; exact ⟨rfl, hil, hr, hc, rfl⟩
  | cons c rest =>
    simp only [peek, hr, Bool.false_eq_true, ↓reduceIte, List.head?_cons]
    have hd : discardChar m (c :: rest) = (m, rest) := by simp [discardChar, hr]
    cases hst : cr.state with
    | begin =>
      have hnb : cr.nameBuf = none := hc.noBuf (by simp [hst]) (by simp [hst])
      simp only [hnb, Option.getD_none, List.nil_append]
      split
      · refine ⟨rfl, hil, hr, ⟨by simp, by simp, hc.hex⟩, by simp⟩
      · split
        · rename_i hh
          rw [hd]
          refine ⟨rfl, hil, hr, ⟨by simp [hnb], fun _ _ => (by simp [hnb]), hc.hex⟩, ?_⟩
          simp only [hnb, Option.getD_none, List.nil_append]
          rw [hh, brk_cons_plain _ _ _ (by decide)]
        · exact ⟨rfl, hil, hr, rfl⟩
    | octothorpe =>
      have hnb : cr.nameBuf = none := hc.noBuf (by simp [hst]) (by simp [hst])
      simp only [hnb, Option.getD_none, List.nil_append]
      split
      · rename_i hx
        rw [hd]
        have hcb : isBrk c = false := by
          simp only [Bool.or_eq_true, decide_eq_true_eq] at hx
          rcases hx with hx | hx <;> (subst hx; decide)
        refine ⟨rfl, hil, hr, ⟨by simp [hnb], fun _ _ => (by simp [hnb]), ?_⟩, ?_⟩
        · intro c' hc'; simp only [Option.some.injEq] at hc'; subst hc'; exact hcb
        · simp only [hnb, Option.getD_none, List.nil_append]
          rw [brk_cons_plain _ _ _ hcb]
      · refine ⟨rfl, hil, hr, ⟨by simp [hnb], fun _ _ => (by simp [hnb]), by simp⟩, by simp [hnb]⟩
    | numeric base =>
      have hnb : cr.nameBuf = none := hc.noBuf (by simp [hst]) (by simp [hst])
      simp only [hnb, Option.getD_none, List.nil_append]
      cases htd : toDigit c base with
      | some n =>
        simp only
        rw [hd]
        refine ⟨rfl, hil, hr, ⟨by simp [hnb], fun _ _ => (by simp [hnb]), hc.hex⟩, ?_⟩
        simp only [hnb, Option.getD_none, List.nil_append]
        rw [brk_cons_plain _ _ _ (toDigit_not_brk c base n htd)]
      | none =>
        simp only
        split
        · unfold unconsumeNumeric
          refine ⟨by simp, by simp [hil], by simp [hr], ?_⟩
          show brk false (('#' :: (match cr.hexMarker with | some c => [c] | none => [])) ++ c :: rest) = _
          apply brk_plain_append'
          intro x hx
          simp only [List.mem_cons] at hx
          rcases hx with hx | hx
          · subst hx; decide
          · cases hh : cr.hexMarker with
            | none => rw [hh] at hx; simp at hx
            | some y =>
              rw [hh] at hx
              simp only [List.mem_cons, List.not_mem_nil, or_false] at hx
              subst hx
              exact hc.hex _ hh
        · refine ⟨rfl, hil, hr, ⟨by simp [hnb], fun _ _ => (by simp [hnb]), hc.hex⟩, by simp [hnb]⟩
    | numericSemicolon =>
      have hnb : cr.nameBuf = none := hc.noBuf (by simp [hst]) (by simp [hst])
      simp only [hnb, Option.getD_none]
      split
      · rename_i hx
        rw [hd]
        exact finishNumericStatus_phi o m m rest (c :: rest) cr [] (SameLines.refl m) hil hr
          (by rw [hx]; exact (brk_cons_plain _ _ _ (by decide)).symm)
      · exact finishNumericStatus_phi o _ m (c :: rest) (c :: rest) cr [] (sameLines_emitErr m _) hil hr (by simp)
    | named =>
      rw [hd]
      dsimp only
      cases hnb : cr.nameBuf with
      | none => trivial
      | some nb =>
        dsimp only
        have hplain : ∀ x ∈ nb, isBrk x = false := by simpa [hnb] using hc.plain
        have happ : brk false ((nb ++ [c]) ++ rest) = brk false (nb ++ c :: rest) := by simp
        cases hlk : entityLookup (nb ++ [c]) with
        | some mt =>
          dsimp only
          have hp2 := lookup_no_break _ _ hlk
          split
          · exact ⟨rfl, hil, hr, ⟨by simpa using hp2, by simp [hst], hc.hex⟩, by simpa using happ⟩
          · exact ⟨rfl, hil, hr, ⟨by simpa using hp2, by simp [hst], hc.hex⟩, by simpa using happ⟩
        | none =>
          dsimp only
          have := finishNamed_phi o m rest { cr with state := .named, nameBuf := some (nb ++ [c]) } (some c) (nb ++ [c]) hil hr rfl
            (by
              intro hm x hx
              obtain ⟨c1, c2, hmm⟩ : ∃ c1 c2, cr.nameMatch = some (c1, c2) := by
                cases h : cr.nameMatch with
                | none => exact absurd h hm
                | some v => exact ⟨v.1, v.2, rfl⟩
              obtain ⟨nb', hnb', _, hle, _⟩ := hs.matched c1 c2 hmm
              rw [hnb] at hnb'
              simp only [Option.some.injEq] at hnb'
              subst hnb'
              have : List.take cr.nameLen (nb ++ [c]) = List.take cr.nameLen nb := by
                rw [List.take_append_of_le_length hle]
              rw [this] at hx
              exact hplain x (List.mem_of_mem_take hx))
            (by
              intro c' hc' hal x hx
              simp only [Option.some.injEq] at hc'
              subst hc'
              rcases List.mem_append.mp hx with hx | hx
              · exact hplain x hx
              · simp only [List.mem_cons, List.not_mem_nil, or_false] at hx
                subst hx
                exact alnum_not_brk _ hal)
            hc.hex
          simp only [Option.getD_some]
          unfold CROk at this ⊢
          rw [← happ]
          exact this
    | bogusName =>
      rw [hd]
      dsimp only
      cases hnb : cr.nameBuf with
      | none => trivial
      | some nb =>
        dsimp only
        have hplain : ∀ x ∈ nb, isBrk x = false := by simpa [hnb] using hc.plain
        split
        · rename_i hal
          refine ⟨rfl, hil, hr, ⟨?_, by simp [hst], hc.hex⟩, by simp⟩
          intro x hx
          simp only [Option.getD_some] at hx
          rcases List.mem_append.mp hx with hx | hx
          · exact hplain x hx
          · simp only [List.mem_cons, List.not_mem_nil, or_false] at hx
            subst hx
            exact alnum_not_brk _ hal
        · have hsl : SameLines (if c = ';' then nameErr o m (nb ++ [c]) else m) m := by
            split
            · exact sameLines_nameErr o m _
            · exact SameLines.refl m
          exact ⟨hsl.1, by rw [hsl.2.1, hil], by rw [hsl.2.2, hr], by simp⟩


/-! ### the step-level invariant -/

theorem transSet_not_bav (o : Opts) (pol : Pol) (m : Mach) (r : SetRes)
    (hk : readKind m.state = .popExcept ∨ readKind m.state = .dataSimd) :
    (transSet o pol m r).1.state ≠ .beforeAttributeValue := by
  have h1 := emitTag_state pol .data m
  cases hs : m.state with
  | data => cases r <;> simp only [transSet, hs] <;> (repeat' split) <;> simp_all [sinkState]
  | plaintext => cases r <;> simp only [transSet, hs] <;> (repeat' split) <;> simp_all [sinkState]
  | rawData k =>
    cases k with
    | scriptDataEscaped e =>
      cases e <;> cases r <;> simp only [transSet, hs] <;> (repeat' split) <;> simp_all [sinkState]
    | _ => cases r <;> simp only [transSet, hs] <;> (repeat' split) <;> simp_all [sinkState]
  | attributeValue k =>
    cases k <;> cases r <;> simp only [transSet, hs] <;> (repeat' split) <;>
      (first | (simp_all [sinkState]; done) | (rcases h1 with h1 | h1 | h1 | ⟨k', h1⟩ <;> simp_all))
  | _ => simp [hs, readKind] at hk

/-- a character reference is only ever started on `&` -/
theorem transSet_amp (o : Opts) (pol : Pol) (m : Mach) (r : SetRes) (hcr : m.charRef = none)
    (h : (transSet o pol m r).1.charRef ≠ none) : r = .fromSet '&' := by
  have he := emitTag_charRef pol .data m
  unfold transSet at h
  split at h <;> (repeat' split at h) <;> simp_all

def R.pair? : R → Option (Mach × Str)
  | .cont m i | .suspend m i | .script m i | .indicator m i => some (m, i)
  | .panic _ => none

theorem ofSig_pair (ms : Mach × Sig) (inp : Str) (m' : Mach) (i' : Str)
    (h : (ofSig ms inp).pair? = some (m', i')) : m' = ms.1 ∧ i' = inp := by
  unfold ofSig at h
  split at h <;> simp_all [R.pair?]

theorem pair_mach (r : R) (m' : Mach) (i' : Str) (h : r.pair? = some (m', i')) : r.mach? = some m' := by
  cases r <;> simp_all [R.pair?, R.mach?]


theorem foldChar_currentChar (o : Opts) (m : Mach) (c : Char) :
    (foldChar o m c).2.currentChar = (foldChar o m c).1 := rfl

theorem getChar_ri (o : Opts) (m m1 : Mach) (inp i1 : Str) (c : Char)
    (hri : m.reconsume = true → m.ignoreLf = true → m.currentChar = '\n')
    (h : getChar o m inp = (some c, m1, i1)) :
    m1.currentChar = c ∧ (m1.ignoreLf = true → c = '\n') := by
  have hf := getChar_fields o m m1 inp i1 c h
  cases hr : m.reconsume with
  | true =>
    unfold getChar at h
    simp only [hr, ↓reduceIte, Prod.mk.injEq, Option.some.injEq] at h
    obtain ⟨h1, h2, _⟩ := h
    subst h1 h2
    refine ⟨by simp, fun hil => ?_⟩
    exact hri hr (by simpa using hil)
  | false =>
    refine ⟨?_, hf.2.2.2.2.2.1 hr⟩
    unfold getChar at h
    simp only [hr, Bool.false_eq_true, ↓reduceIte] at h
    cases inp with
    | nil => simp at h
    | cons x xs =>
      obtain ⟨m0, c0, _, _, hc, hm1⟩ := preprocess_via_fold o m m1 x c xs i1 h
      rw [hm1, hc]
      exact foldChar_currentChar o m0 c0

/-- the accounting invariant of the machine at step boundaries -/
structure LInv (m : Mach) : Prop where
  safe : Safe m
  eatOk : (m.state = .markupDeclarationOpen ∨ m.state = .afterDoctypeName) → EatOk m
  nr : isRaw m.state = false → m.state ≠ .markupDeclarationOpen → m.state ≠ .afterDoctypeName → m.tempBuf = []
  peekNoRecon : (m.state = .beforeAttributeValue ∨ m.state = .markupDeclarationOpen ∨ m.state = .afterDoctypeName) →
    m.reconsume = false
  ri : m.reconsume = true → m.ignoreLf = true → m.currentChar = '\n'
  stashOk : ∀ c ∈ stash m, isBrk c = false
  cr : ∀ cr, m.charRef = some cr → m.ignoreLf = false ∧ m.reconsume = false ∧ CRLines cr

theorem stash_nil_of {m : Mach} (hcr : m.charRef = none)
    (h : (m.state = .markupDeclarationOpen ∨ m.state = .afterDoctypeName) → m.tempBuf = []) : stash m = [] := by
  unfold stash
  rw [hcr]
  dsimp only
  split
  · rename_i hs; exact h hs
  · rfl

/-- what the table leaves behind after a `get_char!` read (also used for the last read of
`after-doctype-name`) -/
theorem afterChar_lines (o : Opts) (pol : Pol) (m1 : Mach) (c : Char)
    (hcr : m1.charRef = none) (hN : isRaw m1.state = false → m1.tempBuf = [])
    (hrec : m1.reconsume = false) (hcc : m1.currentChar = c) (hil : m1.ignoreLf = true → c = '\n') :
    let m' := (transChar o pol m1 c).1
    (isRaw m'.state = false → m'.tempBuf = []) ∧
    ((m'.state = .beforeAttributeValue ∨ m'.state = .markupDeclarationOpen ∨ m'.state = .afterDoctypeName) →
      m'.reconsume = false) ∧
    (m'.reconsume = true → m'.ignoreLf = true → m'.currentChar = '\n') ∧
    m'.charRef = none ∧ stash m' = [] ∧ m'.line = m1.line ∧ m'.ignoreLf = m1.ignoreLf := by
  intro m'
  have hnr : isRaw m'.state = false → m'.tempBuf = [] := by
    intro hraw
    by_cases ht : m'.tempBuf = []
    · exact ht
    · have := transChar_nr o pol m1 c hN ht
      rw [hraw] at this; simp at this
  have hcr' : m'.charRef = none := by rw [transChar_charRef, hcr]
  refine ⟨hnr, ?_, ?_, hcr', ?_, transChar_line o pol m1 c, transChar_ignoreLf o pol m1 c⟩
  · intro hs
    cases hr' : m'.reconsume with
    | false => rfl
    | true =>
      obtain ⟨a, b, d⟩ := transChar_recon o pol m1 c hrec hr'
      rcases hs with hs | hs | hs
      · exact absurd hs a
      · exact absurd hs b
      · exact absurd hs d
  · intro _ hil'
    rw [transChar_currentChar, hcc]
    rw [transChar_ignoreLf] at hil'
    exact hil hil'
  · apply stash_nil_of hcr'
    intro hs
    apply hnr
    rcases hs with hs | hs <;> rw [hs] <;> rfl


theorem stash_congr {m m' : Mach} (h1 : m'.state = m.state) (h2 : m'.tempBuf = m.tempBuf)
    (h3 : m'.charRef = m.charRef) : stash m' = stash m := by
  unfold stash; rw [h1, h2, h3]

/-- clearing a pending-LF flag keeps the invariant -/
theorem LInv.setIgnoreLf_false {m : Mach} (hi : LInv m)
    (hs : Safe (m.setIgnoreLf false)) : LInv (m.setIgnoreLf false) where
  safe := hs
  eatOk := fun _ hil => by simp at hil
  nr := by simpa using hi.nr
  peekNoRecon := by simpa using hi.peekNoRecon
  ri := by intro _ h; simp at h
  stashOk := by
    rw [stash_congr (m := m) (by simp) (by simp) (by simp)]; exact hi.stashOk
  cr := by
    intro cr hcr
    have := hi.cr cr (by simpa using hcr)
    exact ⟨by simp, by simpa using this.2.1, this.2.2⟩

theorem phi_eq {m m' : Mach} {i i' : Str} (hs : stash m = []) (hs' : stash m' = [])
    (h : m'.line + brk m'.ignoreLf i' = m.line + brk m.ignoreLf i) : Phi m' i' = Phi m i := by
  unfold Phi; rw [hs, hs']; simpa using h

theorem lines_getChar (o : Opts) (pol : Pol) (m : Mach) (inp : Str) (hi : LInv m)
    (hcr : m.charRef = none) (hrk : readKind m.state = .getChar) (m' : Mach) (i' : Str)
    (h : (contChar o pol (getChar o m inp)).pair? = some (m', i'))
    (hs' : Safe m') :
    LInv m' ∧ Phi m' i' = Phi m inp := by
  have hf := readKind_getChar_facts hrk
  have hst : stash m = [] := stash_nil_of hcr (by
    intro hs; rcases hs with hs | hs
    · exact absurd hs hf.1
    · exact absurd hs hf.2.2)
  have hphi := getChar_phi o m inp
  cases hgc : getChar o m inp with
  | mk oc r =>
    obtain ⟨m1, i1⟩ := r
    rw [hgc] at h hphi
    simp only at hphi
    cases oc with
    | none =>
      obtain ⟨g1, g2, g3⟩ := getChar_none o m m1 inp i1 hgc
      simp only [contChar, R.pair?, Option.some.injEq, Prod.mk.injEq] at h
      obtain ⟨h1, h2⟩ := h
      subst h1 h2
      rcases g3 with ⟨_, g4⟩ | ⟨_, _, g4⟩ <;> subst g4
      · exact ⟨hi, phi_eq hst hst hphi⟩
      · exact ⟨hi.setIgnoreLf_false hs',
          phi_eq hst (by rw [stash_congr (m := m) (by simp) (by simp) (by simp)]; exact hst) hphi⟩
    | some c =>
      obtain ⟨f1, f2, f3, f4, _⟩ := getChar_fields o m m1 inp i1 c hgc
      obtain ⟨r1, r2⟩ := getChar_ri o m m1 inp i1 c hi.ri hgc
      simp only [contChar] at h
      obtain ⟨h1, h2⟩ := ofSig_pair _ _ _ _ h
      subst h1 h2
      obtain ⟨a1, a2, a3, a4, a5, a6, a7⟩ := afterChar_lines o pol m1 c (by rw [f4, hcr])
        (by intro hraw; rw [f2]; rw [f1] at hraw; exact hi.nr hraw hf.1 hf.2.2) f3 r1 r2
      refine ⟨⟨hs', fun hx _ => a1 (by rcases hx with hx | hx <;> rw [hx] <;> rfl), fun hraw _ _ => a1 hraw, a2, a3,
        by rw [a5]; intro c hc; exact absurd hc List.not_mem_nil,
        by intro cr hcr'; rw [a4] at hcr'; simp at hcr'⟩, phi_eq hst a5 ?_⟩
      rw [a6, a7]; exact hphi


theorem CRLines.fresh (b : Bool) : CRLines { inAttr := b } :=
  ⟨by simp, fun _ _ => rfl, by simp⟩

theorem afterSet_lines (o : Opts) (pol : Pol) (m1 : Mach) (sr : SetRes)
    (hcr : m1.charRef = none) (hk : readKind m1.state = .popExcept ∨ readKind m1.state = .dataSimd)
    (hN : isRaw m1.state = false → m1.tempBuf = []) (hrec : m1.reconsume = false)
    (hamp : m1.ignoreLf = true → sr ≠ .fromSet '&') :
    let m' := (transSet o pol m1 sr).1
    (isRaw m'.state = false → m'.tempBuf = []) ∧
    (m'.state ≠ .beforeAttributeValue ∧ m'.state ≠ .markupDeclarationOpen ∧ m'.state ≠ .afterDoctypeName) ∧
    m'.reconsume = false ∧
    (∀ cr, m'.charRef = some cr → m'.ignoreLf = false ∧ CRLines cr) ∧
    stash m' = [] ∧ m'.line = m1.line ∧ m'.ignoreLf = m1.ignoreLf := by
  intro m'
  have hsf := readKind_state_facts hk
  have hne := transSet_not_eat o pol m1 sr ⟨hsf.1, hsf.2.1⟩
  have hnb := transSet_not_bav o pol m1 sr hk
  have hcrf := (transSet_charRef o pol m1 sr hcr hk).2
  have hcrl : ∀ cr, m'.charRef = some cr → m'.ignoreLf = false ∧ CRLines cr := by
    intro cr hcr'
    rcases hcrf with hx | ⟨hx, _, _⟩
    · rw [hx] at hcr'; simp at hcr'
    · rw [hx] at hcr'
      simp only [Option.some.injEq] at hcr'
      subst hcr'
      refine ⟨?_, CRLines.fresh _⟩
      cases hil : m'.ignoreLf with
      | false => rfl
      | true =>
        have h1 : m1.ignoreLf = true := by rw [← transSet_ignoreLf o pol m1 sr]; exact hil
        have h2 := transSet_amp o pol m1 sr hcr (by rw [hx]; simp)
        exact absurd h2 (hamp h1)
  refine ⟨?_, ⟨hnb, hne.1, hne.2⟩, by rw [transSet_reconsume, hrec], hcrl, ?_, transSet_line o pol m1 sr,
    transSet_ignoreLf o pol m1 sr⟩
  · intro hraw
    rw [transSet_tempBuf]
    cases hr1 : isRaw m1.state with
    | false => exact hN hr1
    | true =>
      have := transSet_raw o pol m1 sr hr1
      rw [hraw] at this; simp at this
  · rcases hcrf with hx | ⟨hx, _, _⟩
    · exact stash_nil_of hx (by intro hs; rcases hs with hs | hs; exact absurd hs hne.1; exact absurd hs hne.2)
    · unfold stash; rw [hx]; rfl


theorem popExceptFrom_ri (o : Opts) (S : List Char) (m m1 : Mach) (inp i1 : Str) (sr : SetRes)
    (hri : m.reconsume = true → m.ignoreLf = true → m.currentChar = '\n')
    (h : popExceptFrom o S m inp = (some sr, m1, i1)) : m1.ignoreLf = true → sr = .fromSet '\n' := by
  unfold popExceptFrom at h
  split at h
  · cases hg : getChar o m inp with
    | mk c rest =>
      obtain ⟨m2, i2⟩ := rest
      rw [hg] at h
      cases c with
      | none => simp at h
      | some c =>
        simp only [Option.map_some, Prod.mk.injEq, Option.some.injEq] at h
        obtain ⟨h1, h2, _⟩ := h
        subst h1 h2
        intro hil
        rw [(getChar_ri o m m2 inp i2 c hri hg).2 hil]
  · rename_i hs
    have hs' : o.exactErrors = false ∧ m.reconsume = false ∧ m.ignoreLf = false := by
      simpa [and_assoc] using hs
    cases inp with
    | nil => simp at h
    | cons x xs =>
      simp only at h
      split at h
      · have hg : getChar o m (x :: xs) = preprocess o m x xs := by
          unfold getChar; simp [hs'.2.1]
        cases hp : preprocess o m x xs with
        | mk c rest =>
          obtain ⟨m2, i2⟩ := rest
          rw [hp] at h hg
          cases c with
          | none => simp at h
          | some c =>
            simp only [Option.map_some, Prod.mk.injEq, Option.some.injEq] at h
            obtain ⟨h1, h2, _⟩ := h
            subst h1 h2
            intro hil
            rw [(getChar_ri o m m2 (x :: xs) i2 c hri hg).2 hil]
      · simp only [Prod.mk.injEq, Option.some.injEq] at h
        obtain ⟨_, h2, _⟩ := h
        subst h2
        intro hil; rw [hs'.2.2] at hil; simp at hil

theorem readData_ri (o : Opts) (m m1 : Mach) (inp i1 : Str) (sr : SetRes)
    (hri : m.reconsume = true → m.ignoreLf = true → m.currentChar = '\n')
    (h : readData o m inp = (some sr, m1, i1)) : m1.ignoreLf = true → sr = .fromSet '\n' := by
  unfold readData at h
  split at h
  · exact popExceptFrom_ri o _ m m1 inp i1 sr hri h
  · rename_i hs
    have hs' : o.exactErrors = false ∧ m.reconsume = false ∧ m.ignoreLf = false := by
      simpa [and_assoc] using hs
    cases inp with
    | nil => simp at h
    | cons x xs =>
      simp only at h
      split at h
      · exact popExceptFrom_ri o _ m m1 (x :: xs) i1 sr hri h
      · simp only [Prod.mk.injEq, Option.some.injEq] at h
        obtain ⟨_, h2, _⟩ := h
        subst h2
        intro hil
        have : m.ignoreLf = true := by
          revert hil; split <;> simp
        rw [hs'.2.2] at this; simp at this

/-- a `pop_except_from` / data-state step, given what its read did -/
theorem lines_set (o : Opts) (pol : Pol) (m : Mach) (inp : Str) (hi : LInv m)
    (hcr : m.charRef = none) (hk : readKind m.state = .popExcept ∨ readKind m.state = .dataSimd)
    (rd : Option SetRes × Mach × Str)
    (hphi : rd.2.1.line + brk rd.2.1.ignoreLf rd.2.2 = m.line + brk m.ignoreLf inp)
    (hnone : rd.1 = none → rd.2.2 = [] ∧ (rd.2.1 = m ∨ rd.2.1 = m.setIgnoreLf false))
    (hsome : ∀ sr, rd.1 = some sr → ReadOk m rd.2.1 sr ∧ (rd.2.1.ignoreLf = true → sr = .fromSet '\n'))
    (m' : Mach) (i' : Str) (h : (contSet o pol rd).pair? = some (m', i'))
    (hs' : Safe m') :
    LInv m' ∧ Phi m' i' = Phi m inp := by
  have hsf := readKind_state_facts hk
  have hst : stash m = [] := stash_nil_of hcr (by
    intro hs; rcases hs with hs | hs
    · exact absurd hs hsf.1
    · exact absurd hs hsf.2.1)
  obtain ⟨oc, m1, i1⟩ := rd
  simp only at hphi hnone hsome
  cases oc with
  | none =>
    obtain ⟨g1, g2⟩ := hnone rfl
    simp only [contSet, R.pair?, Option.some.injEq, Prod.mk.injEq] at h
    obtain ⟨h1, h2⟩ := h
    subst h1 h2 g1
    rcases g2 with g2 | g2 <;> subst g2
    · exact ⟨hi, phi_eq hst hst hphi⟩
    · exact ⟨hi.setIgnoreLf_false hs',
        phi_eq hst (by rw [stash_congr (m := m) (by simp) (by simp) (by simp)]; exact hst) hphi⟩
  | some sr =>
    obtain ⟨⟨f1, f2, f3, f4, _, _⟩, hri⟩ := hsome sr rfl
    simp only [contSet] at h
    obtain ⟨h1, h2⟩ := ofSig_pair _ _ _ _ h
    subst h1 h2
    obtain ⟨a1, a2, a3, a4, a5, a6, a7⟩ := afterSet_lines o pol m1 sr (by rw [f4, hcr]) (by rw [f1]; exact hk)
      (by intro hraw; rw [f2]; rw [f1] at hraw; exact hi.nr hraw hsf.1 hsf.2.1) f3
      (by intro hil hx; have := hri hil; rw [this] at hx; simp at hx)
    refine ⟨⟨hs', fun hx _ => a1 (by rcases hx with hx | hx <;> rw [hx] <;> rfl), fun hraw _ _ => a1 hraw, ?_,
      by intro hx; rw [a3] at hx; simp at hx,
      by rw [a5]; intro c hc; exact absurd hc List.not_mem_nil, ?_⟩, phi_eq hst a5 ?_⟩
    · intro hx
      rcases hx with hx | hx | hx
      · exact absurd hx a2.1
      · exact absurd hx a2.2.1
      · exact absurd hx a2.2.2
    · intro cr hcr'
      obtain ⟨b1, b2⟩ := a4 cr hcr'
      exact ⟨b1, a3, b2⟩
    · rw [a6, a7]; exact hphi


theorem processCharRef_line (m : Mach) (chars : Str) : (processCharRef m chars).1.line = m.line := by
  have h1 : ∀ (cs : Str) (m : Mach), (cs.foldl emitChar m).line = m.line := by
    intro cs; induction cs with
    | nil => intro m; rfl
    | cons c cs ih => intro m; simp only [List.foldl_cons]; rw [ih]; simp
  have h2 : ∀ (cs : Str) (m : Mach), (cs.foldl (fun m c => pushValue c m) m).line = m.line := by
    intro cs; induction cs with
    | nil => intro m; rfl
    | cons c cs ih => intro m; simp only [List.foldl_cons]; rw [ih]; simp
  unfold processCharRef
  dsimp only
  split
  · exact h1 _ m
  · exact h1 _ m
  · exact h2 _ m
  · rfl

theorem lines_charRef (o : Opts) (m : Mach) (inp : Str) (cr : CharRefSt) (hi : LInv m)
    (hcr : m.charRef = some cr) (m' : Mach) (i' : Str)
    (h : (stepCharRef o m inp cr).pair? = some (m', i'))
    (hs' : Safe m') :
    LInv m' ∧ Phi m' i' = Phi m inp := by
  obtain ⟨c1, c2, c3⟩ := hi.cr cr hcr
  have hsafe := hi.safe.crRegs cr hcr
  have hstate := hi.safe.crState cr hcr
  have hne : m.state ≠ .markupDeclarationOpen ∧ m.state ≠ .afterDoctypeName ∧ m.state ≠ .beforeAttributeValue := by
    rcases hstate with hx | hx | ⟨k, hx⟩ <;> rw [hx] <;> simp
  have hphi0 : Phi m inp = m.line + brk false (cr.nameBuf.getD [] ++ inp) := by
    unfold Phi stash; rw [hcr, c1]
  have hok := crStep_phi o m inp cr c1 c2 c3 hsafe
  unfold stepCharRef at h
  cases hc : crStep o m inp cr with
  | error x => rw [hc] at h; simp [R.pair?] at h
  | ok v =>
    obtain ⟨m1, i1, cr1, st⟩ := v
    have hw := crStep_weaker o m m1 inp i1 cr cr1 st hc
    rw [hc] at h hok
    obtain ⟨k1, k2, k3, k4⟩ := hok
    have mk : ∀ (mm : Mach), mm.state = m.state → mm.tempBuf = m.tempBuf → mm.reconsume = false →
        (∀ c ∈ stash mm, isBrk c = false) →
        (∀ cr, mm.charRef = some cr → mm.ignoreLf = false ∧ mm.reconsume = false ∧ CRLines cr) →
        Safe mm → LInv mm := by
      intro mm e1 e2 e3 e4 e5 s
      refine ⟨s, ?_, ?_, fun _ => e3, by intro hx; rw [e3] at hx; simp at hx, e4, e5⟩
      · intro hx; rw [e1] at hx
        rcases hx with hx | hx
        · exact absurd hx hne.1
        · exact absurd hx hne.2.1
      · rw [e1, e2]; exact hi.nr
    cases st with
    | stuck =>
      simp only [R.pair?, Option.some.injEq, Prod.mk.injEq] at h
      obtain ⟨h1, h2⟩ := h
      subst h1 h2
      simp only at k4
      refine ⟨mk _ (by simp [hw.1]) (by simp [hw.2.1]) (by simpa using k3)
        (by unfold stash; simpa using k4.1.plain) (by
          intro cr' hcr'
          simp only [Mach.setCharRef, Option.some.injEq] at hcr'
          subst hcr'
          exact ⟨by simpa using k2, by simpa using k3, k4.1⟩) hs', ?_⟩
      rw [hphi0]
      unfold Phi stash
      simp only [Mach.setCharRef]
      rw [k1]
      have : (m1.setCharRef (some cr1)).ignoreLf = false := by simpa using k2
      simp only [Mach.setCharRef] at this
      rw [this, k4.2]
    | progress =>
      simp only [R.pair?, Option.some.injEq, Prod.mk.injEq] at h
      obtain ⟨h1, h2⟩ := h
      subst h1 h2
      simp only at k4
      refine ⟨mk _ (by simp [hw.1]) (by simp [hw.2.1]) (by simpa using k3)
        (by unfold stash; simpa using k4.1.plain) (by
          intro cr' hcr'
          simp only [Mach.setCharRef, Option.some.injEq] at hcr'
          subst hcr'
          exact ⟨by simpa using k2, by simpa using k3, k4.1⟩) hs', ?_⟩
      rw [hphi0]
      unfold Phi stash
      simp only [Mach.setCharRef]
      rw [k1]
      have : (m1.setCharRef (some cr1)).ignoreLf = false := by simpa using k2
      simp only [Mach.setCharRef] at this
      rw [this, k4.2]
    | done chars =>
      simp only at k4
      obtain ⟨h1, h2⟩ := ofSig_pair _ _ _ _ h
      subst h1 h2
      have hp := processCharRef_fields m1 chars
      have hpl := processCharRef_line m1 chars
      have hst' : stash ((processCharRef m1 chars).1.setCharRef none) = [] := by
        apply stash_nil_of (by simp)
        intro hx
        simp only [setCharRef_state, hp.1, hw.1] at hx
        rcases hx with hx | hx
        · exact absurd hx hne.1
        · exact absurd hx hne.2.1
      refine ⟨mk _ (by simp [hp.1, hw.1]) (by simp [hp.2.1, hw.2.1]) (by simp [hp.2.2.2.1, k3])
        (by rw [hst']; intro c hc; exact absurd hc List.not_mem_nil)
        (by intro cr' hcr'; simp at hcr') hs', ?_⟩
      rw [hphi0]
      unfold Phi
      rw [hst']
      simp only [List.nil_append, setCharRef_line, setCharRef_ignoreLf, hpl, hp.2.2.1, k1, k2, k4]


/-! ### before-attribute-value (`peek` / `discard_char`) -/

/-- every result of the state: `(fields, accounting)` -/
theorem stepBav_lines (o : Opts) (pol : Pol) (m : Mach) (inp : Str) (hr : m.reconsume = false)
    (m' : Mach) (i' : Str) (h : (stepBav o pol m inp).pair? = some (m', i')) :
    m'.tempBuf = m.tempBuf ∧ m'.reconsume = false ∧
    m'.line + brk m'.ignoreLf i' = m.line + brk m.ignoreLf inp := by
  unfold stepBav at h
  cases inp with
  | nil =>
    simp only [peek, hr, Bool.false_eq_true, ↓reduceIte, List.head?_nil, R.pair?, Option.some.injEq,
      Prod.mk.injEq] at h
    obtain ⟨h1, h2⟩ := h
    subst h1 h2
    exact ⟨rfl, hr, rfl⟩
  | cons c rest =>
    simp only [peek, hr, Bool.false_eq_true, ↓reduceIte, List.head?_cons] at h
    -- the machine after the pending-LF flag was dealt with
    have hma : ∀ ma : Mach, ma = (if m.ignoreLf = true then m.setIgnoreLf false else m) →
        ma.tempBuf = m.tempBuf ∧ ma.reconsume = false ∧ ma.line = m.line ∧ ma.ignoreLf = false := by
      intro ma hx; subst hx
      split
      · simp [hr]
      · rename_i hx; simp [hr]; simpa using hx
    generalize hmad : (if m.ignoreLf = true then m.setIgnoreLf false else m) = ma at h
    obtain ⟨t1, t2, t3, t4⟩ := hma ma hmad.symm
    have hd : discardChar ma (c :: rest) = (ma, rest) := by simp [discardChar, t2]
    by_cases hskip : (m.ignoreLf && decide (c = '\n')) = true
    · simp only [hskip, ↓reduceIte, hd, R.pair?, Option.some.injEq, Prod.mk.injEq] at h
      obtain ⟨h1, h2⟩ := h
      subst h1 h2
      simp only [Bool.and_eq_true, decide_eq_true_eq] at hskip
      refine ⟨t1, t2, ?_⟩
      rw [t3, t4, hskip.1, hskip.2, brk_cons_lf]; simp
    · simp only [hskip, Bool.false_eq_true, ↓reduceIte] at h
      -- from here on the flag no longer matters for `c :: rest`
      have hflag : brk m.ignoreLf (c :: rest) = brk false (c :: rest) := by
        cases hil : m.ignoreLf with
        | false => rfl
        | true =>
          have : c ≠ '\n' := by
            intro hc; simp [hil, hc] at hskip
          exact brk_flag c rest this
      by_cases hbrk : c = '\n' ∨ c = '\r'
      · rw [if_pos (by simpa using hbrk)] at h
        have hphi := getChar_phi o ma (c :: rest)
        cases hg : getChar o ma (c :: rest) with
        | mk oc r =>
          obtain ⟨m2, i2⟩ := r
          rw [hg] at h hphi
          simp only at hphi
          cases oc with
          | none =>
            obtain ⟨_, _, g3⟩ := getChar_none o ma m2 (c :: rest) i2 hg
            simp only [R.pair?, Option.some.injEq, Prod.mk.injEq] at h
            obtain ⟨h1, h2⟩ := h
            subst h1 h2
            rcases g3 with ⟨g3, _⟩ | ⟨_, g3, _⟩
            · simp at g3
            · rw [t4] at g3; simp at g3
          | some c2 =>
            obtain ⟨f1, f2, f3, _⟩ := getChar_fields o ma m2 (c :: rest) i2 c2 hg
            simp only [R.pair?, Option.some.injEq, Prod.mk.injEq] at h
            obtain ⟨h1, h2⟩ := h
            subst h1 h2
            exact ⟨by rw [f2, t1], f3, by rw [hphi, t3, t4, hflag]⟩
      · rw [if_neg (by simpa using hbrk)] at h
        have hnb : isBrk c = false := by
          simp only [not_or] at hbrk
          simp [isBrk, hbrk.1, hbrk.2]
        have hcons : brk m.ignoreLf (c :: rest) = brk false rest := by
          rw [hflag, brk_cons_plain _ _ _ hnb]
        split at h
        · simp only [hd, R.pair?, Option.some.injEq, Prod.mk.injEq] at h
          obtain ⟨h1, h2⟩ := h
          subst h1 h2
          exact ⟨t1, t2, by rw [t3, t4, hcons]⟩
        · split at h
          · simp only [hd, R.pair?, Option.some.injEq, Prod.mk.injEq] at h
            obtain ⟨h1, h2⟩ := h
            subst h1 h2
            exact ⟨by simp [t1], by simp [t2], by simp [t3, t4, hcons]⟩
          · split at h
            · simp only [hd, R.pair?, Option.some.injEq, Prod.mk.injEq] at h
              obtain ⟨h1, h2⟩ := h
              subst h1 h2
              exact ⟨by simp [t1], by simp [t2], by simp [t3, t4, hcons]⟩
            · split at h
              · simp only [hd] at h
                obtain ⟨h1, h2⟩ := ofSig_pair _ _ _ _ h
                subst h1 h2
                exact ⟨by simp [t1], by simp [t2], by simp [t3, t4, hcons]⟩
              · simp only [R.pair?, Option.some.injEq, Prod.mk.injEq] at h
                obtain ⟨h1, h2⟩ := h
                subst h1 h2
                exact ⟨by simp [t1], by simp [t2], by simp [t3, t4, hflag]⟩


/-! ### the look-ahead states -/

theorem stash_eat {m : Mach} (hcr : m.charRef = none)
    (hs : m.state = .markupDeclarationOpen ∨ m.state = .afterDoctypeName) : stash m = m.tempBuf := by
  unfold stash; rw [hcr]; simp [hs]

theorem stash_plain {m : Mach} (hcr : m.charRef = none)
    (h1 : m.state ≠ .markupDeclarationOpen) (h2 : m.state ≠ .afterDoctypeName) : stash m = [] :=
  stash_nil_of hcr (by intro hs; rcases hs with hs | hs; exact absurd hs h1; exact absurd hs h2)

/-- the facts carried from one `eat` to the next inside a look-ahead state -/
structure EatSt (s : State) (K : Nat) (m : Mach) (i : Str) : Prop where
  st : m.state = s
  cr : m.charRef = none
  nrec : m.reconsume = false
  ok : EatOk m
  phi : m.line + brk m.ignoreLf (m.tempBuf ++ i) = K

theorem eat_stage {s : State} {K : Nat} {m : Mach} {i : Str} (h0 : EatSt s K m i)
    (pat : Str) (eq : Char → Char → Bool) (hp : PatOk eq pat) (hne : pat ≠ [])
    (b : Option Bool) (m1 : Mach) (i1 : Str) (h : eat m i pat eq = (b, m1, i1)) :
    EatSt s K m1 i1 ∧ (b ≠ none → m1.tempBuf = []) ∧ (b = none → ∀ c ∈ m1.tempBuf, isBrk c = false) := by
  obtain ⟨p1, p2, p3, p4, p5, p6⟩ := eat_phi m i pat eq h0.nrec h0.ok hp hne b m1 i1 h
  obtain ⟨f1, f2, f3⟩ := eat_fields m m1 i i1 pat eq b h
  exact ⟨⟨by rw [f1, h0.st], by rw [f2, h0.cr], p2, p3, by rw [p1, p4]; exact h0.phi⟩, p5, p6⟩

/-- a terminal result of a look-ahead state: machine `mm` derived from the last `eat`'s machine by
operations that touch neither the line registers nor `temp_buf` (or clear it) -/
theorem eat_exit {s : State} {K : Nat} {m1 : Mach} {i1 : Str} (h1 : EatSt s K m1 i1) (ht : m1.tempBuf = [])
    (mm : Mach) (e1 : mm.line = m1.line) (e2 : mm.ignoreLf = m1.ignoreLf) (e3 : mm.tempBuf = [])
    (e4 : mm.reconsume = false) (e5 : mm.charRef = none)
    (e6 : mm.state ≠ .markupDeclarationOpen) (e7 : mm.state ≠ .afterDoctypeName) :
    mm.reconsume = false ∧ mm.charRef = none ∧ (∀ c ∈ stash mm, isBrk c = false) ∧
    Phi mm i1 = K ∧ (mm.state ≠ s → mm.tempBuf = []) ∧ EatOk mm := by
  have hst := stash_plain e5 e6 e7
  refine ⟨e4, e5, by rw [hst]; intro c hc; exact absurd hc List.not_mem_nil, ?_, fun _ => e3, fun _ => e3⟩
  unfold Phi
  rw [hst, e1, e2]
  have := h1.phi
  rw [ht] at this
  simpa using this

theorem eat_suspend {s : State} {K : Nat} {m1 : Mach} {i1 : Str} (h1 : EatSt s K m1 i1)
    (hs : s = .markupDeclarationOpen ∨ s = .afterDoctypeName)
    (hpl : ∀ c ∈ m1.tempBuf, isBrk c = false) :
    m1.reconsume = false ∧ m1.charRef = none ∧ (∀ c ∈ stash m1, isBrk c = false) ∧
    Phi m1 i1 = K ∧ (m1.state ≠ s → m1.tempBuf = []) ∧ EatOk m1 := by
  have hst : stash m1 = m1.tempBuf := stash_eat h1.cr (by rw [h1.st]; exact hs)
  refine ⟨h1.nrec, h1.cr, by rw [hst]; exact hpl, ?_, fun hx => absurd h1.st hx, h1.ok⟩
  unfold Phi; rw [hst]; exact h1.phi

theorem stepMdo_lines (o : Opts) (pol : Pol) (m : Mach) (inp : Str) (K : Nat)
    (h0 : EatSt .markupDeclarationOpen K m inp) (m' : Mach) (i' : Str)
    (h : (stepMdo o pol m inp).pair? = some (m', i')) :
    m'.reconsume = false ∧ m'.charRef = none ∧ (∀ c ∈ stash m', isBrk c = false) ∧
    Phi m' i' = K ∧ (m'.state ≠ .markupDeclarationOpen → m'.tempBuf = []) ∧ EatOk m' := by
  obtain ⟨pk1, pk2, pk3, _, _⟩ := patOk_kw
  obtain ⟨n1, n2, n3, _, _⟩ := kw_ne
  unfold stepMdo at h
  cases h1 : eat m inp kwDashDash eqExact with
  | mk b1 r1 =>
    obtain ⟨m1, i1⟩ := r1
    obtain ⟨s1, t1, u1⟩ := eat_stage h0 _ _ pk1 n1 b1 m1 i1 h1
    rw [h1] at h
    cases b1 with
    | none =>
      simp only [R.pair?, Option.some.injEq, Prod.mk.injEq] at h
      obtain ⟨e1, e2⟩ := h; subst e1 e2
      exact eat_suspend s1 (Or.inl rfl) (u1 rfl)
    | some b1 =>
      cases b1 with
      | true =>
        simp only [R.pair?, Option.some.injEq, Prod.mk.injEq] at h
        obtain ⟨e1, e2⟩ := h; subst e1 e2
        exact eat_exit s1 (t1 (by simp)) _ (by simp) (by simp) (by simp [t1]) (by simp [s1.nrec]) (by simp [s1.cr])
          (by simp) (by simp)
      | false =>
        simp only at h
        cases h2 : eat m1 i1 kwDoctype eqCi with
        | mk b2 r2 =>
          obtain ⟨m2, i2⟩ := r2
          obtain ⟨s2, t2, u2⟩ := eat_stage s1 _ _ pk2 n2 b2 m2 i2 h2
          rw [h2] at h
          cases b2 with
          | none =>
            simp only [R.pair?, Option.some.injEq, Prod.mk.injEq] at h
            obtain ⟨e1, e2⟩ := h; subst e1 e2
            exact eat_suspend s2 (Or.inl rfl) (u2 rfl)
          | some b2 =>
            cases b2 with
            | true =>
              simp only [R.pair?, Option.some.injEq, Prod.mk.injEq] at h
              obtain ⟨e1, e2⟩ := h; subst e1 e2
              exact eat_exit s2 (t2 (by simp)) _ (by simp) (by simp) (by simp [t2]) (by simp [s2.nrec])
                (by simp [s2.cr]) (by simp) (by simp)
            | false =>
              simp only at h
              split at h
              · cases h3 : eat m2 i2 kwCdata eqExact with
                | mk b3 r3 =>
                  obtain ⟨m3, i3⟩ := r3
                  obtain ⟨s3, t3, u3⟩ := eat_stage s2 _ _ pk3 n3 b3 m3 i3 h3
                  rw [h3] at h
                  cases b3 with
                  | none =>
                    simp only [R.pair?, Option.some.injEq, Prod.mk.injEq] at h
                    obtain ⟨e1, e2⟩ := h; subst e1 e2
                    exact eat_suspend s3 (Or.inl rfl) (u3 rfl)
                  | some b3 =>
                    cases b3 <;>
                      (simp only [R.pair?, Option.some.injEq, Prod.mk.injEq] at h
                       obtain ⟨e1, e2⟩ := h; subst e1 e2
                       exact eat_exit s3 (t3 (by simp)) _ (by simp) (by simp) (by simp [t3, clearTemp]) (by simp [s3.nrec])
                         (by simp [s3.cr]) (by simp) (by simp))
              · simp only [R.pair?, Option.some.injEq, Prod.mk.injEq] at h
                obtain ⟨e1, e2⟩ := h; subst e1 e2
                exact eat_exit s2 (t2 (by simp)) _ (by simp) (by simp) (by simp [t2]) (by simp [s2.nrec])
                  (by simp [s2.cr]) (by simp) (by simp)


theorem stepAdn_lines (o : Opts) (pol : Pol) (m : Mach) (inp : Str) (K : Nat)
    (h0 : EatSt .afterDoctypeName K m inp) (m' : Mach) (i' : Str)
    (h : (stepAdn o pol m inp).pair? = some (m', i')) :
    ((m'.state = .beforeAttributeValue ∨ m'.state = .markupDeclarationOpen ∨ m'.state = .afterDoctypeName) →
      m'.reconsume = false) ∧
    (m'.reconsume = true → m'.ignoreLf = true → m'.currentChar = '\n') ∧
    m'.charRef = none ∧ (∀ c ∈ stash m', isBrk c = false) ∧
    Phi m' i' = K ∧ (isRaw m'.state = false → m'.state ≠ .afterDoctypeName → m'.tempBuf = []) ∧
    ((m'.state = .markupDeclarationOpen ∨ m'.state = .afterDoctypeName) → EatOk m') := by
  obtain ⟨_, _, _, pk4, pk5⟩ := patOk_kw
  obtain ⟨_, _, _, n4, n5⟩ := kw_ne
  -- results in which `reconsume` is known to be clear
  have pack : ∀ mm ii, (mm.reconsume = false ∧ mm.charRef = none ∧ (∀ c ∈ stash mm, isBrk c = false) ∧
      Phi mm ii = K ∧ (mm.state ≠ .afterDoctypeName → mm.tempBuf = []) ∧ EatOk mm) →
      ((mm.state = .beforeAttributeValue ∨ mm.state = .markupDeclarationOpen ∨ mm.state = .afterDoctypeName) →
        mm.reconsume = false) ∧
      (mm.reconsume = true → mm.ignoreLf = true → mm.currentChar = '\n') ∧
      mm.charRef = none ∧ (∀ c ∈ stash mm, isBrk c = false) ∧
      Phi mm ii = K ∧ (isRaw mm.state = false → mm.state ≠ .afterDoctypeName → mm.tempBuf = []) ∧
      ((mm.state = .markupDeclarationOpen ∨ mm.state = .afterDoctypeName) → EatOk mm) := by
    intro mm ii ⟨q1, q2, q3, q4, q5, q6⟩
    exact ⟨fun _ => q1, by intro hx; rw [q1] at hx; simp at hx, q2, q3, q4, fun _ hx => q5 hx, fun _ => q6⟩
  unfold stepAdn at h
  cases h1 : eat m inp kwPublic eqCi with
  | mk b1 r1 =>
    obtain ⟨m1, i1⟩ := r1
    obtain ⟨s1, t1, u1⟩ := eat_stage h0 _ _ pk4 n4 b1 m1 i1 h1
    rw [h1] at h
    cases b1 with
    | none =>
      simp only [R.pair?, Option.some.injEq, Prod.mk.injEq] at h
      obtain ⟨e1, e2⟩ := h; subst e1 e2
      exact pack _ _ (eat_suspend s1 (Or.inr rfl) (u1 rfl))
    | some b1 =>
      cases b1 with
      | true =>
        simp only [R.pair?, Option.some.injEq, Prod.mk.injEq] at h
        obtain ⟨e1, e2⟩ := h; subst e1 e2
        exact pack _ _ (eat_exit s1 (t1 (by simp)) _ (by simp) (by simp) (by simp [t1]) (by simp [s1.nrec])
          (by simp [s1.cr]) (by simp) (by simp))
      | false =>
        simp only at h
        cases h2 : eat m1 i1 kwSystem eqCi with
        | mk b2 r2 =>
          obtain ⟨m2, i2⟩ := r2
          obtain ⟨s2, t2, u2⟩ := eat_stage s1 _ _ pk5 n5 b2 m2 i2 h2
          rw [h2] at h
          cases b2 with
          | none =>
            simp only [R.pair?, Option.some.injEq, Prod.mk.injEq] at h
            obtain ⟨e1, e2⟩ := h; subst e1 e2
            exact pack _ _ (eat_suspend s2 (Or.inr rfl) (u2 rfl))
          | some b2 =>
            cases b2 with
            | true =>
              simp only [R.pair?, Option.some.injEq, Prod.mk.injEq] at h
              obtain ⟨e1, e2⟩ := h; subst e1 e2
              exact pack _ _ (eat_exit s2 (t2 (by simp)) _ (by simp) (by simp) (by simp [t2]) (by simp [s2.nrec])
                (by simp [s2.cr]) (by simp) (by simp))
            | false =>
              simp only at h
              have ht2 := t2 (by simp)
              have hK : m2.line + brk m2.ignoreLf i2 = K := by
                have := s2.phi; rw [ht2] at this; simpa using this
              have hphi := getChar_phi o m2 i2
              cases hg : getChar o m2 i2 with
              | mk oc r =>
                obtain ⟨m3, i3⟩ := r
                rw [hg] at h hphi
                simp only at hphi
                cases oc with
                | none =>
                  obtain ⟨_, _, g3⟩ := getChar_none o m2 m3 i2 i3 hg
                  simp only [R.pair?, Option.some.injEq, Prod.mk.injEq] at h
                  obtain ⟨e1, e2⟩ := h; subst e1 e2
                  have hf : m3.state = .afterDoctypeName ∧ m3.tempBuf = [] ∧ m3.reconsume = false ∧ m3.charRef = none := by
                    rcases g3 with ⟨_, g4⟩ | ⟨_, _, g4⟩ <;> subst g4
                    · exact ⟨s2.st, ht2, s2.nrec, s2.cr⟩
                    · exact ⟨by simp [s2.st], by simp [ht2], by simp [s2.nrec], by simp [s2.cr]⟩
                  have hst : stash m3 = [] := by rw [stash_eat hf.2.2.2 (Or.inr hf.1)]; exact hf.2.1
                  refine pack _ _ ⟨hf.2.2.1, hf.2.2.2, by rw [hst]; intro c hc; exact absurd hc List.not_mem_nil, ?_,
                    fun hx => absurd hf.1 hx, fun _ => hf.2.1⟩
                  unfold Phi; rw [hst]; simp only [List.nil_append]; rw [hphi, hK]
                | some c =>
                  obtain ⟨f1, f2, f3, f4, _⟩ := getChar_fields o m2 m3 i2 i3 c hg
                  obtain ⟨r1, r2⟩ := getChar_ri o m2 m3 i2 i3 c (by intro hx; rw [s2.nrec] at hx; simp at hx) hg
                  obtain ⟨e1, e2⟩ := ofSig_pair _ _ _ _ h
                  subst e1 e2
                  obtain ⟨a1, a2, a3, a4, a5, a6, a7⟩ := afterChar_lines o pol m3 c (by rw [f4, s2.cr])
                    (by intro _; rw [f2, ht2]) f3 r1 r2
                  refine ⟨a2, a3, a4, by rw [a5]; intro c hc; exact absurd hc List.not_mem_nil, ?_, fun hraw _ => a1 hraw,
                    fun hx _ => a1 (by rcases hx with hx | hx <;> rw [hx] <;> rfl)⟩
                  unfold Phi; rw [a5]; simp only [List.nil_append]; rw [a6, a7, hphi, hK]


/-! ### every step conserves `Phi` and keeps the invariant -/

theorem step_lines (o : Opts) (pol : Pol) (m : Mach) (inp : Str) (hi : LInv m) (m' : Mach) (i' : Str)
    (h : (step o pol m inp).pair? = some (m', i')) : LInv m' ∧ Phi m' i' = Phi m inp := by
  have hmach := pair_mach _ _ _ h
  have hs' := (step_safe o pol m inp hi.safe).2 m' hmach
  cases hcr : m.charRef with
  | some cr =>
    rw [step_kind_charRef o pol m inp cr hcr] at h
    exact lines_charRef o m inp cr hi hcr m' i' h hs'
  | none =>
    cases hrk : readKind m.state with
    | getChar =>
      rw [step_getChar o pol m inp hcr hrk] at h
      exact lines_getChar o pol m inp hi hcr hrk m' i' h hs'
    | popExcept =>
      rw [step_popExcept o pol m inp hcr hrk] at h
      refine lines_set o pol m inp hi hcr (Or.inl hrk) _ (popExceptFrom_phi o _ m inp (setOf_crlf _ (Or.inl hrk)))
        ?_ ?_ m' i' h hs'
      · intro hn
        cases hp : popExceptFrom o (setOf m.state) m inp with
        | mk a b =>
          obtain ⟨m1, i1⟩ := b
          rw [hp] at hn; simp only at hn; subst hn
          obtain ⟨g1, _, g3⟩ := popExceptFrom_none o _ m m1 inp i1 hp
          exact ⟨g1, by rcases g3 with ⟨_, g4⟩ | ⟨_, _, g4⟩ <;> simp [g4]⟩
      · intro sr hsr
        cases hp : popExceptFrom o (setOf m.state) m inp with
        | mk a b =>
          obtain ⟨m1, i1⟩ := b
          rw [hp] at hsr; simp only at hsr; subst hsr
          exact ⟨popExceptFrom_fields o _ m m1 inp i1 sr hp, popExceptFrom_ri o _ m m1 inp i1 sr hi.ri hp⟩
    | dataSimd =>
      rw [step_dataSimd o pol m inp hcr hrk] at h
      refine lines_set o pol m inp hi hcr (Or.inr hrk) _ (readData_phi o m inp) ?_ ?_ m' i' h hs'
      · intro hn
        cases hp : readData o m inp with
        | mk a b =>
          obtain ⟨m1, i1⟩ := b
          rw [hp] at hn; simp only at hn; subst hn
          obtain ⟨g1, _, g3⟩ := readData_none o m m1 inp i1 hp
          exact ⟨g1, by rcases g3 with ⟨_, g4⟩ | ⟨_, _, g4⟩ <;> simp [g4]⟩
      · intro sr hsr
        cases hp : readData o m inp with
        | mk a b =>
          obtain ⟨m1, i1⟩ := b
          rw [hp] at hsr; simp only at hsr; subst hsr
          exact ⟨readData_fields o m m1 inp i1 sr hp, readData_ri o m m1 inp i1 sr hi.ri hp⟩
    | peekBav =>
      have hst := readKind_bav hrk
      rw [step_kind_bav o pol m inp hcr hrk] at h
      have hr := hi.peekNoRecon (Or.inl hst)
      obtain ⟨b1, b2, b3⟩ := stepBav_lines o pol m inp hr m' i' h
      have hcr' : m'.charRef = none := by
        rw [(stepBav_charRef o pol m inp).2 m' (pair_mach _ _ _ h), hcr]
      have htb : m.tempBuf = [] := hi.nr (by rw [hst]; rfl) (by rw [hst]; simp) (by rw [hst]; simp)
      have htb' : m'.tempBuf = [] := by rw [b1, htb]
      have hs0 : stash m = [] := stash_nil_of hcr (fun _ => htb)
      have hs1 : stash m' = [] := stash_nil_of hcr' (fun _ => htb')
      exact ⟨⟨hs', fun _ _ => htb', fun _ _ _ => htb', fun _ => b2, by intro hx; rw [b2] at hx; simp at hx,
        by rw [hs1]; intro c hc; exact absurd hc List.not_mem_nil,
        by intro cr hc; rw [hcr'] at hc; simp at hc⟩, phi_eq hs0 hs1 b3⟩
    | eatMdo =>
      have hst := readKind_mdo hrk
      rw [step_kind_mdo o pol m inp hcr hrk] at h
      have h0 : EatSt .markupDeclarationOpen (Phi m inp) m inp :=
        ⟨hst, hcr, hi.peekNoRecon (Or.inr (Or.inl hst)), hi.eatOk (Or.inl hst),
          by unfold Phi; rw [stash_eat hcr (Or.inl hst)]⟩
      obtain ⟨c1, c2, c3, c4, c5, c6⟩ := stepMdo_lines o pol m inp _ h0 m' i' h
      exact ⟨⟨hs', fun _ => c6, fun _ hx _ => c5 hx, fun _ => c1, by intro hx; rw [c1] at hx; simp at hx, c3,
        by intro cr hc; rw [c2] at hc; simp at hc⟩, c4⟩
    | eatAdn =>
      have hst := readKind_adn hrk
      rw [step_kind_adn o pol m inp hcr hrk] at h
      have h0 : EatSt .afterDoctypeName (Phi m inp) m inp :=
        ⟨hst, hcr, hi.peekNoRecon (Or.inr (Or.inr hst)), hi.eatOk (Or.inr hst),
          by unfold Phi; rw [stash_eat hcr (Or.inr hst)]⟩
      obtain ⟨c1, c2, c3, c4, c5, c6, c7⟩ := stepAdn_lines o pol m inp _ h0 m' i' h
      exact ⟨⟨hs', c7, fun hraw _ hx => c6 hraw hx, c1, c2, c4,
        by intro cr hc; rw [c3] at hc; simp at hc⟩, c5⟩

/-! ### whole runs -/

theorem brk_plain (f : Bool) (s : Str) (h : ∀ c ∈ s, isBrk c = false) : brk f s = 0 := by
  induction s generalizing f with
  | nil => rfl
  | cons c t ih =>
    rw [brk_cons_plain _ _ _ (h c (List.mem_cons_self ..))]
    exact ih false (fun x hx => h x (List.mem_cons_of_mem _ hx))

theorem runsTo_lines (o : Opts) (pol : Pol) {m : Mach} {inp : Str} {m' : Mach}
    (hrun : RunsTo o pol m inp m') : LInv m → LInv m' ∧ Phi m' [] = Phi m inp := by
  induction hrun with
  | @susp m0 i0 m0' hs =>
    intro hi
    exact step_lines o pol m0 i0 hi m0' [] (by rw [hs]; rfl)
  | @cont m0 i0 mx ix m0' hs _ ih =>
    intro hi
    obtain ⟨h1, h2⟩ := step_lines o pol m0 i0 hi mx ix (by rw [hs]; rfl)
    obtain ⟨h3, h4⟩ := ih h1
    exact ⟨h3, by rw [h4, h2]⟩
  | @script m0 i0 mx ix m0' hs _ ih =>
    intro hi
    obtain ⟨h1, h2⟩ := step_lines o pol m0 i0 hi mx ix (by rw [hs]; rfl)
    obtain ⟨h3, h4⟩ := ih h1
    exact ⟨h3, by rw [h4, h2]⟩
  | @indicator m0 i0 mx ix m0' hs _ ih =>
    intro hi
    obtain ⟨h1, h2⟩ := step_lines o pol m0 i0 hi mx ix (by rw [hs]; rfl)
    obtain ⟨h3, h4⟩ := ih h1
    exact ⟨h3, by rw [h4, h2]⟩

/-- when the tokenizer has taken everything it was given, its line counter is the line it started
on plus the number of line breaks in that text -/
theorem runsTo_line (o : Opts) (pol : Pol) {m : Mach} {inp : Str} {m' : Mach}
    (hrun : RunsTo o pol m inp m') (hi : LInv m) :
    m'.line = m.line + brk m.ignoreLf (stash m ++ inp) := by
  obtain ⟨h1, h2⟩ := runsTo_lines o pol hrun hi
  have : Phi m' [] = m'.line := by
    unfold Phi
    rw [List.append_nil, brk_plain _ _ h1.stashOk]; rfl
  rw [← this, h2]; rfl

theorem Sim.line {m1 m2 : Mach} (h : Sim m1 m2) : m1.line = m2.line := by
  rcases h with h | ⟨_, a, h⟩ <;> subst h <;> simp

theorem session_line (o : Opts) (pol : Pol) {m : Mach} {cs : List Str} {mf : Mach}
    (hs : Session o pol m cs mf) (hi : LInv m) (hg : Good m) (hat : m.atEof = false) (hne : cs ≠ []) :
    mf.line = m.line + brk m.ignoreLf (stash m ++ cs.flatten) := by
  rcases session_flatten o pol hs hg hat with ⟨h, _⟩ | ⟨mf', hr, hsim⟩
  · exact absurd h hne
  · rw [← hsim.line]; exact runsTo_line o pol hr hi

/-- a machine that has not read anything yet satisfies the invariant -/
theorem linv_fresh (m : Mach) (h1 : m.tempBuf = []) (h2 : m.reconsume = false) (h3 : m.charRef = none) :
    LInv m where
  safe := Safe.of_none h3
  eatOk := fun _ _ => h1
  nr := fun _ _ _ => h1
  peekNoRecon := fun _ => h2
  ri := by intro hx; rw [h2] at hx; simp at hx
  stashOk := by rw [stash_nil_of h3 (fun _ => h1)]; intro c hc; exact absurd hc List.not_mem_nil
  cr := by intro cr hc; rw [h3] at hc; simp at hc

/-! ### `Tokenizer::end` -/

theorem transEof_line (o : Opts) (m : Mach) : (transEof o m).1.line = m.line := by
  unfold transEof
  split <;> simp [emitTempBuf, reconsumeTo]

theorem eofLoop_line (o : Opts) (fuel : Nat) (m mf : Mach) (h : eofLoop o fuel m = .ok mf) : mf.line = m.line := by
  induction fuel generalizing m with
  | zero => simp [eofLoop] at h
  | succ n ih =>
    unfold eofLoop at h
    have hl := transEof_line o m
    cases ht : transEof o m with
    | mk m1 sig =>
      rw [ht] at h hl
      simp only at hl
      cases sig with
      | cont => simp only at h; rw [ih m1 h, hl]
      | done => simp only [Except.ok.injEq] at h; rw [← h, hl]
      | panic e => simp at h

theorem run_lines (o : Opts) (pol : Pol) (fuel : Nat) (m : Mach) (inp : Str) (m' : Mach) (i' : Str)
    (h : run o pol fuel m inp = .done m' i') (hi : LInv m) : LInv m' ∧ Phi m' i' = Phi m inp := by
  induction fuel generalizing m inp with
  | zero => simp [run] at h
  | succ n ih =>
    unfold run at h
    cases hs : step o pol m inp with
    | cont m1 i1 =>
      rw [hs] at h
      simp only at h
      obtain ⟨h1, h2⟩ := step_lines o pol m inp hi m1 i1 (by rw [hs]; rfl)
      obtain ⟨h3, h4⟩ := ih m1 i1 h h1
      exact ⟨h3, by rw [h4, h2]⟩
    | suspend m1 i1 =>
      rw [hs] at h
      simp only [RunRes.done.injEq] at h
      obtain ⟨e1, e2⟩ := h; subst e1 e2
      exact step_lines o pol m inp hi m1 i1 (by rw [hs]; rfl)
    | script m1 i1 => rw [hs] at h; simp at h
    | indicator m1 i1 => rw [hs] at h; simp at h
    | panic e => rw [hs] at h; simp at h

theorem LInv.setAtEof {m : Mach} (hi : LInv m) (b : Bool) : LInv (m.setAtEof b) where
  safe := ⟨fun cr h => by simpa using hi.safe.crState cr (by simpa using h),
           fun cr h => hi.safe.crRegs cr (by simpa using h)⟩
  eatOk := by
    intro hs hil
    have := hi.eatOk (by simpa using hs) (by simpa using hil)
    simpa using this
  nr := by simpa using hi.nr
  peekNoRecon := by simpa using hi.peekNoRecon
  ri := by simpa using hi.ri
  stashOk := by rw [stash_congr (m := m) (by simp) (by simp) (by simp)]; exact hi.stashOk
  cr := by
    intro cr hcr
    have := hi.cr cr (by simpa using hcr)
    exact ⟨by simpa using this.1, by simpa using this.2.1, this.2.2⟩

/-- one round of `end_of_file` of the character-reference tokenizer (the `once` of `crEof`) -/
def crEofOnce (o : Opts) (m : Mach) (inp : Str) (cr : CharRefSt) : CRRes :=
  match cr.state with
  | .begin => .ok (m, inp, cr, .done [])
  | .numeric _ =>
    if !cr.seenDigit then unconsumeNumeric m inp cr
    else finishNumericStatus o (emitErr m "EOF in numeric character reference") inp cr
  | .numericSemicolon =>
    finishNumericStatus o (emitErr m "EOF in numeric character reference") inp cr
  | .named => finishNamed o m inp cr none
  | .bogusName =>
    match cr.nameBuf with
    | none => .error "unconsume_name: unwrap on None"
    | some nb => .ok (m, nb ++ inp, { cr with nameBuf := none }, .done [])
  | .octothorpe =>
    .ok (emitErr m "EOF after '#' in character reference", '#' :: inp, cr, .done [])

theorem crEof_eq (o : Opts) (m : Mach) (inp : Str) (cr : CharRefSt) :
    crEof o m inp cr =
      (match crEofOnce o m inp cr with
       | .error e => .error e
       | .ok (m, inp, _, .done chars) => .ok (m, inp, chars)
       | .ok (m, inp, _, .stuck) => .ok (m, inp, [])
       | .ok (m, inp, cr, .progress) =>
         match crEofOnce o m inp cr with
         | .error e => .error e
         | .ok (m, inp, _, .done chars) => .ok (m, inp, chars)
         | .ok (m, inp, _, _) => .ok (m, inp, [])) := rfl

/-- a round of `end_of_file` always finishes, leaves the line registers alone, and what it gives
back to the (empty) queue holds no line break -/
theorem crEofOnce_lines (o : Opts) (m : Mach) (cr : CharRefSt) (hil : m.ignoreLf = false) (hr : m.reconsume = false)
    (hc : CRLines cr) (m1 : Mach) (i1 : Str) (cr1 : CharRefSt) (st : CRStatus)
    (h : crEofOnce o m [] cr = .ok (m1, i1, cr1, st)) :
    (∃ chars, st = .done chars) ∧
    m1.line = m.line ∧ m1.ignoreLf = false ∧ m1.reconsume = false ∧ brk false i1 = 0 ∧
    m1.state = m.state ∧ m1.tempBuf = m.tempBuf := by
  have hplain : ∀ x ∈ cr.nameBuf.getD [], isBrk x = false := hc.plain
  unfold crEofOnce at h
  cases hst : cr.state with
  | begin =>
    simp only [hst, Except.ok.injEq, Prod.mk.injEq] at h
    obtain ⟨e1, e2, _, e4⟩ := h; subst e1 e2
    exact ⟨⟨_, e4.symm⟩, rfl, hil, hr, rfl, rfl, rfl⟩
  | octothorpe =>
    simp only [hst, Except.ok.injEq, Prod.mk.injEq] at h
    obtain ⟨e1, e2, _, e4⟩ := h; subst e1 e2
    exact ⟨⟨_, e4.symm⟩, by simp, by simp [hil], by simp [hr], by rw [brk_cons_plain _ _ _ (by decide)]; rfl,
      by simp, by simp⟩
  | numeric base =>
    simp only [hst] at h
    split at h
    · unfold unconsumeNumeric at h
      simp only [Except.ok.injEq, Prod.mk.injEq] at h
      obtain ⟨e1, e2, _, e4⟩ := h; subst e1 e2
      refine ⟨⟨_, e4.symm⟩, by simp, by simp [hil], by simp [hr], ?_, by simp, by simp⟩
      apply brk_plain
      intro x hx
      simp only [List.append_nil, List.mem_cons] at hx
      rcases hx with hx | hx
      · subst hx; decide
      · cases hh : cr.hexMarker with
        | none => rw [hh] at hx; simp at hx
        | some y =>
          rw [hh] at hx
          simp only [List.mem_cons, List.not_mem_nil, or_false] at hx
          subst hx; exact hc.hex _ hh
    · unfold finishNumericStatus at h
      have hf := sameLines_finishNumeric o (emitErr m "EOF in numeric character reference") cr
      have hwk := finishNumeric_weaker o (emitErr m "EOF in numeric character reference") cr
      cases hfn : finishNumeric o (emitErr m "EOF in numeric character reference") cr with
      | mk mx r =>
        rw [hfn] at h hf hwk
        cases r with
        | error e => simp at h
        | ok ch =>
          simp only [Except.ok.injEq, Prod.mk.injEq] at h
          obtain ⟨e1, e2, _, e4⟩ := h; subst e1 e2
          exact ⟨⟨_, e4.symm⟩, by rw [hf.1]; simp, by rw [hf.2.1]; simp [hil], by rw [hf.2.2]; simp [hr], rfl,
            by rw [hwk.1]; simp, by rw [hwk.2.1]; simp⟩
  | numericSemicolon =>
    simp only [hst] at h
    unfold finishNumericStatus at h
    have hf := sameLines_finishNumeric o (emitErr m "EOF in numeric character reference") cr
    have hwk := finishNumeric_weaker o (emitErr m "EOF in numeric character reference") cr
    cases hfn : finishNumeric o (emitErr m "EOF in numeric character reference") cr with
    | mk mx r =>
      rw [hfn] at h hf hwk
      cases r with
      | error e => simp at h
      | ok ch =>
        simp only [Except.ok.injEq, Prod.mk.injEq] at h
        obtain ⟨e1, e2, _, e4⟩ := h; subst e1 e2
        exact ⟨⟨_, e4.symm⟩, by rw [hf.1]; simp, by rw [hf.2.1]; simp [hil], by rw [hf.2.2]; simp [hr], rfl,
          by rw [hwk.1]; simp, by rw [hwk.2.1]; simp⟩
  | bogusName =>
    simp only [hst] at h
    cases hnb : cr.nameBuf with
    | none => rw [hnb] at h; simp at h
    | some nb =>
      rw [hnb] at h
      simp only [Except.ok.injEq, Prod.mk.injEq] at h
      obtain ⟨e1, e2, _, e4⟩ := h; subst e1 e2
      refine ⟨⟨_, e4.symm⟩, rfl, hil, hr, ?_, rfl, rfl⟩
      apply brk_plain
      simpa [hnb] using hplain
  | named =>
    simp only [hst] at h
    unfold finishNamed at h
    cases hnb : cr.nameBuf with
    | none => rw [hnb] at h; simp at h
    | some nb =>
      have hpl : ∀ x ∈ nb, isBrk x = false := by simpa [hnb] using hplain
      rw [hnb] at h
      dsimp only at h
      cases hm : cr.nameMatch with
      | none =>
        rw [hm] at h
        simp only [Bool.false_eq_true, ↓reduceIte, Except.ok.injEq, Prod.mk.injEq] at h
        obtain ⟨e1, e2, _, e4⟩ := h; subst e1 e2
        exact ⟨⟨_, e4.symm⟩, rfl, hil, hr, by apply brk_plain; simpa using hpl, rfl, rfl⟩
      | some mt =>
        obtain ⟨c1, c2⟩ := mt
        rw [hm] at h
        dsimp only at h
        cases hd : namedDecision m cr nb c1 c2 with
        | error e => rw [hd] at h; simp at h
        | ok r =>
          rw [hd] at h
          cases r with
          | none =>
            simp only [Except.ok.injEq, Prod.mk.injEq] at h
            obtain ⟨e1, e2, _, e4⟩ := h; subst e1 e2
            exact ⟨⟨_, e4.symm⟩, rfl, hil, hr, by apply brk_plain; simpa using hpl, rfl, rfl⟩
          | some mc =>
            obtain ⟨mx, cs⟩ := mc
            simp only [Except.ok.injEq, Prod.mk.injEq] at h
            obtain ⟨e1, e2, _, e4⟩ := h; subst e1 e2
            obtain ⟨l1, l2, l3⟩ := namedDecision_lines m cr nb c1 c2 mx cs hd
            have hwk := namedDecision_weaker m cr nb c1 c2 mx cs hd
            refine ⟨⟨_, e4.symm⟩, l1, l2, by rw [l3, hr], ?_, hwk.1, hwk.2.1⟩
            apply brk_plain
            intro x hx
            simp only [List.append_nil] at hx
            exact hpl x (List.mem_of_mem_drop hx)

theorem crEof_lines (o : Opts) (m : Mach) (cr : CharRefSt) (hil : m.ignoreLf = false) (hr : m.reconsume = false)
    (hc : CRLines cr) (m1 : Mach) (i1 chars : Str) (h : crEof o m [] cr = .ok (m1, i1, chars)) :
    m1.line = m.line ∧ m1.ignoreLf = false ∧ m1.reconsume = false ∧ brk false i1 = 0 ∧
    m1.state = m.state ∧ m1.tempBuf = m.tempBuf := by
  rw [crEof_eq] at h
  cases hon : crEofOnce o m [] cr with
  | error e => rw [hon] at h; simp at h
  | ok v =>
    obtain ⟨mx, ix, crx, st⟩ := v
    obtain ⟨⟨cs, hcs⟩, rest⟩ := crEofOnce_lines o m cr hil hr hc mx ix crx st hon
    subst hcs
    rw [hon] at h
    simp only [Except.ok.injEq, Prod.mk.injEq] at h
    obtain ⟨e1, e2, _⟩ := h; subst e1 e2
    exact rest

theorem processCharRef_charRef (m : Mach) (chars : Str) : (processCharRef m chars).1.charRef = m.charRef := by
  have h1 : ∀ (cs : Str) (m : Mach), (cs.foldl emitChar m).charRef = m.charRef := by
    intro cs; induction cs with
    | nil => intro m; rfl
    | cons c cs ih => intro m; simp only [List.foldl_cons]; rw [ih]; simp
  have h2 : ∀ (cs : Str) (m : Mach), (cs.foldl (fun m c => pushValue c m) m).charRef = m.charRef := by
    intro cs; induction cs with
    | nil => intro m; rfl
    | cons c cs ih => intro m; simp only [List.foldl_cons]; rw [ih]; simp
  unfold processCharRef
  dsimp only
  split
  · exact h1 _ m
  · exact h1 _ m
  · exact h2 _ m
  · rfl

theorem phi_nil_eq_line {m : Mach} (hi : LInv m) : Phi m [] = m.line := by
  unfold Phi
  rw [List.append_nil, brk_plain _ _ hi.stashOk]; rfl

/-- the part of `Tokenizer::end` after the character-reference hand-back -/
theorem finish_tail_line (o : Opts) (pol : Pol) (m : Mach) (inp : Str) (mf : Mach) (hi : LInv m)
    (hb : brk m.ignoreLf (stash m ++ inp) = 0)
    (h : (match run o pol (fuelFor (m.setAtEof true) inp) (m.setAtEof true) inp with
          | .done m inp => if !inp.isEmpty then .error "assertion failed: input.is_empty()" else eofLoop o 8 m
          | .script _ _ | .indicator _ _ =>
            .error "assertion failed: matches!(self.run(&input), TokenizerResult::Done)"
          | .panic e => .error e
          | .outOfFuel => .error "run out of fuel") = Except.ok mf) : mf.line = m.line := by
  cases hrun : run o pol (fuelFor (m.setAtEof true) inp) (m.setAtEof true) inp with
  | done m4 i4 =>
    rw [hrun] at h
    simp only at h
    split at h
    · simp at h
    · rename_i hemp
      have hi4 : i4 = [] := by simpa using hemp
      subst hi4
      obtain ⟨h1, h2⟩ := run_lines o pol _ _ _ m4 [] hrun (hi.setAtEof true)
      rw [eofLoop_line o 8 m4 mf h, ← phi_nil_eq_line h1, h2]
      unfold Phi
      rw [stash_congr (m := m) (by simp) (by simp) (by simp)]
      simp only [setAtEof_line, setAtEof_ignoreLf]
      rw [hb]; rfl
  | script _ _ => rw [hrun] at h; simp at h
  | indicator _ _ => rw [hrun] at h; simp at h
  | panic e => rw [hrun] at h; simp at h
  | outOfFuel => rw [hrun] at h; simp at h

/-- **`Tokenizer::end` never moves the line**: whatever the look-ahead machinery still holds at the
end of the input contains no line break, so everything `end()` emits — the EOF token included —
carries the line reached after the last feed -/
theorem finish_line (o : Opts) (pol : Pol) (m mf : Mach) (hi : LInv m) (h : finish o pol m = .ok mf) :
    mf.line = m.line := by
  unfold finish at h
  cases hcr : m.charRef with
  | none =>
    simp only [hcr] at h
    refine finish_tail_line o pol m [] mf hi ?_ h
    rw [List.append_nil]; exact brk_plain _ _ hi.stashOk
  | some cr =>
    obtain ⟨c1, c2, c3⟩ := hi.cr cr hcr
    have hstate := hi.safe.crState cr hcr
    simp only [hcr] at h
    cases hce : crEof o m [] cr with
    | error e => rw [hce] at h; simp at h
    | ok v =>
      obtain ⟨m1, i1, chars⟩ := v
      obtain ⟨l1, l2, l3, l4, l5, l6⟩ := crEof_lines o m cr c1 c2 c3 m1 i1 chars hce
      rw [hce] at h
      simp only at h
      have hp := processCharRef_fields (m1.setCharRef none) chars
      have hpl := processCharRef_line (m1.setCharRef none) chars
      cases hpc : processCharRef (m1.setCharRef none) chars with
      | mk m2 sig =>
        rw [hpc] at h hp hpl
        simp only at hp hpl
        cases sig with
        | cont =>
          simp only at h
          have hne : m2.state ≠ .markupDeclarationOpen ∧ m2.state ≠ .afterDoctypeName ∧ m2.state ≠ .beforeAttributeValue := by
            rw [hp.1]; simp only [setCharRef_state]; rw [l5]
            rcases hstate with hx | hx | ⟨k, hx⟩ <;> rw [hx] <;> simp
          have hcr2 : m2.charRef = none := by
            have := (processCharRef_charRef (m1.setCharRef none) chars)
            rw [hpc] at this; simpa using this
          have hst2 : stash m2 = [] := stash_plain hcr2 hne.1 hne.2.1
          have hrec2 : m2.reconsume = false := by rw [hp.2.2.2.1]; simpa using l3
          have hi2 : LInv m2 := by
            refine ⟨Safe.of_none hcr2, ?_, ?_, fun _ => hrec2, by intro hx; rw [hrec2] at hx; simp at hx,
              by rw [hst2]; intro c hc; exact absurd hc List.not_mem_nil,
              by intro cr' hc'; rw [hcr2] at hc'; simp at hc'⟩
            · intro hx; rcases hx with hx | hx
              · exact absurd hx hne.1
              · exact absurd hx hne.2.1
            · intro hraw h1 h2
              rw [hp.2.1]; simp only [setCharRef_tempBuf]; rw [l6]
              apply hi.nr
              · rw [hp.1] at hraw; simp only [setCharRef_state] at hraw; rw [l5] at hraw; exact hraw
              · rcases hstate with hx | hx | ⟨k, hx⟩ <;> rw [hx] <;> simp
              · rcases hstate with hx | hx | ⟨k, hx⟩ <;> rw [hx] <;> simp
          have := finish_tail_line o pol m2 i1 mf hi2 (by
            rw [hst2, hp.2.2.1]; simp only [setCharRef_ignoreLf, List.nil_append]; rw [l2, l4]) h
          rw [this, hpl]; simpa using l1
        | script => simp at h
        | indicator => simp at h
        | panic e => simp at h

theorem LInv.of_sim {m1 m2 : Mach} (hi : LInv m1) (h : Sim m1 m2) : LInv m2 := by
  rcases h with h | ⟨hd, a, h⟩
  · subst h; exact hi
  · subst h
    refine ⟨⟨fun cr hc => by simpa using hi.safe.crState cr (by simpa using hc),
             fun cr hc => hi.safe.crRegs cr (by simpa using hc)⟩, ?_, by simpa using hi.nr,
            by simpa using hi.peekNoRecon, ?_, ?_, ?_⟩
    · intro hs hil
      have := hi.eatOk (by simpa using hs) (by simpa using hil)
      simpa using this
    · intro hx; simp only [setCurrentChar_reconsume] at hx; rw [hd.1] at hx; simp at hx
    · rw [stash_congr (m := m1) (by simp) (by simp) (by simp)]; exact hi.stashOk
    · intro cr hc
      have := hi.cr cr (by simpa using hc)
      exact ⟨by simpa using this.1, by simpa using this.2.1, this.2.2⟩

/-- after a session (any chunking) the invariant holds and the line is start + breaks fed -/
theorem session_linv (o : Opts) (pol : Pol) {m : Mach} {cs : List Str} {mf : Mach}
    (hs : Session o pol m cs mf) (hi : LInv m) (hg : Good m) (hat : m.atEof = false) : LInv mf := by
  rcases session_flatten o pol hs hg hat with ⟨_, h⟩ | ⟨mf', hr, hsim⟩
  · rw [h]; exact hi
  · exact (runsTo_lines o pol hr hi).1.of_sim hsim

/-! ### `brk` is the number of LF after the standard's newline normalisation -/

/-- CRLF → LF, lone CR → LF (`f`: the previous character was a CR) -/
def normNl : Bool → Str → Str
  | _, [] => []
  | f, c :: s =>
    if c = '\r' then '\n' :: normNl true s
    else if c = '\n' then (if f then normNl false s else '\n' :: normNl false s)
    else c :: normNl false s

theorem brk_eq_count (f : Bool) (s : Str) : brk f s = (normNl f s).count '\n' := by
  induction s generalizing f with
  | nil => rfl
  | cons c t ih =>
    by_cases h1 : c = '\r'
    · subst h1; simp [brk, normNl, ih]; omega
    · by_cases h2 : c = '\n'
      · subst h2
        cases f <;> simp [brk, normNl, ih] <;> omega
      · have : ('\n' == c) = false := by simp; exact fun h => h2 h.symm
        simp [brk, normNl, h1, h2, ih, List.count_cons, this]

end H5V.Model.HtmlTok
