import H5V.Lemmas.HtmlTokSafe
/-!
Line accounting of the HTML tokenizer model: the potential
`Phi m inp = m.line + brk m.ignoreLf (stash m ++ inp)` — the current line plus the number of line
breaks (CR, LF, CRLF once) still ahead in the logically unread input — is invariant under
`Tokenizer::step`.  The "logically unread input" is what the look-ahead machinery has stashed
(`temp_buf` in the two `eat` states, `name_buf` of a character reference in progress) followed by
the queue.
-/
namespace H5V.Model.HtmlTok
open H5V.Props.C14

def isBrk (c : Char) : Bool := c = '\n' || c = '\r'

/-- number of line breaks in raw text; `f` = the previous character was a CR (a leading LF belongs
to it) -/
def brk : Bool → Str → Nat
  | _, [] => 0
  | f, c :: s =>
    if c = '\r' then 1 + brk true s
    else if c = '\n' then (if f then 0 else 1) + brk false s
    else brk false s

@[simp] theorem brk_nil (f : Bool) : brk f [] = 0 := by simp [brk]

theorem brk_cons_plain (f : Bool) (c : Char) (s : Str) (h : isBrk c = false) :
    brk f (c :: s) = brk false s := by
  simp only [isBrk, Bool.or_eq_false_iff, decide_eq_false_iff_not] at h
  simp [brk, h.1, h.2]

theorem brk_cons_cr (f : Bool) (s : Str) : brk f ('\r' :: s) = 1 + brk true s := by simp [brk]

theorem brk_cons_lf (f : Bool) (s : Str) :
    brk f ('\n' :: s) = (if f then 0 else 1) + brk false s := by
  simp [brk]

/-- a pending-LF flag only matters when the text starts with LF -/
theorem brk_flag (c : Char) (s : Str) (h : c ≠ '\n') : brk true (c :: s) = brk false (c :: s) := by
  by_cases hc : c = '\r'
  · subst hc; simp [brk]
  · simp [brk, hc, h]

theorem brk_plain_append (f : Bool) (a s : Str) (h : ∀ c ∈ a, isBrk c = false) (ha : a ≠ []) :
    brk f (a ++ s) = brk false s := by
  induction a generalizing f with
  | nil => exact absurd rfl ha
  | cons c t ih =>
    rw [List.cons_append, brk_cons_plain _ _ _ (h c (List.mem_cons_self ..))]
    by_cases ht : t = []
    · subst ht; rfl
    · exact ih false (fun x hx => h x (List.mem_cons_of_mem _ hx)) ht

theorem brk_plain_append' (a s : Str) (h : ∀ c ∈ a, isBrk c = false) :
    brk false (a ++ s) = brk false s := by
  by_cases ha : a = []
  · subst ha; rfl
  · exact brk_plain_append false a s h ha

/-- the logically unread text held back by the look-ahead machinery -/
def stash (m : Mach) : Str :=
  match m.charRef with
  | some cr => cr.nameBuf.getD []
  | none => if m.state = .markupDeclarationOpen ∨ m.state = .afterDoctypeName then m.tempBuf else []

def Phi (m : Mach) (inp : Str) : Nat := m.line + brk m.ignoreLf (stash m ++ inp)

/-! ### the entity table contains no line break -/

def keyCharOk (x : Nat) : Bool := x != 10 && x != 13

def tableNoBreak : Bool :=
  Gen.Entities.firstLetters.all (fun c => (Gen.Entities.bucket c).all (fun r => r.1.all keyCharOk))

theorem tableNoBreak_true : tableNoBreak = true := by decide +kernel

end H5V.Model.HtmlTok
