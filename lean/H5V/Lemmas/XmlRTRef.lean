import H5V.Lemmas.XmlRTDefs
import H5V.Lemmas.HtmlRTTok2
/-!
C17, tokenizer half, part 1: the character references the XML serializer writes — `&amp;` `&lt;`
`&gt;` `&quot;` `&apos;` (named, resolved through the entity table: every prefix of the name is known,
the full name matches its value, nothing in the table continues it) and `&#13;` (numeric; value 13 is
delivered as U+000D together with the parse error "Invalid numeric character reference").

The XML character-reference tokenizer reads the name with `get_char` and pushes the first character
that no longer fits back (`unconsume`), so a named reference needs one character of look-ahead.
-/
namespace H5V.Lemmas.XmlRT
open H5V.Model.XmlTok

/-- control registers while a character reference is being read -/
structure CRCtl (m : Mach) (st : State) (cr : CharRefSt) : Prop where
  st : m.state = st
  cr : m.charRef = some cr
  rc : m.reconsume = false
  ilf : m.ignoreLf = false
  tb : m.tempBuf = []

/-- a register predicate that does not look at `char_ref_tokenizer` / `current_char` -/
structure Carried (X : Mach → Prop) : Prop where
  setCR : ∀ m y, X m → X (m.setCharRef y)
  setCC : ∀ m c, X m → X (m.setCurrentChar c)

def crNamed (a : Option Char) : CharRefSt := { state := .named, addnlAllowed := a, nameBuf := some [] }

/-- the `named` state after one more character whose extended name is still in the table -/
def crFeed (cr : CharRefSt) (c : Char) : CharRefSt :=
  match entityLookup ((cr.nameBuf.getD []) ++ [c]) with
  | some mt =>
    if mt.1 ≠ 0 then { cr with nameBuf := some ((cr.nameBuf.getD []) ++ [c]), nameMatch := some mt,
                               nameLen := ((cr.nameBuf.getD []) ++ [c]).length }
    else { cr with nameBuf := some ((cr.nameBuf.getD []) ++ [c]) }
  | none => cr

theorem cr_begin (o : Opts) (m : Mach) (c : Char) (rest : Str) (st : State) (a : Option Char)
    (h : CRCtl m st { addnlAllowed := a })
    (hc : c ≠ '\t' ∧ c ≠ '\n' ∧ c ≠ '\x0c' ∧ c ≠ ' ' ∧ c ≠ '<' ∧ c ≠ '&' ∧ c ≠ '#') (ha : some c ≠ a) :
    step o m (c :: rest) = .cont (m.setCharRef (some (crNamed a))) (c :: rest) := by
  obtain ⟨s1, s2, s3, s4, s5⟩ := h
  obtain ⟨c1, c2, c3, c4, c5, c6, c7⟩ := hc
  simp [step, s2, stepCharRef, crStep, peek, s3, c1, c2, c3, c4, c5, c6, c7, ha, crNamed]

theorem cr_feed (o : Opts) (ho : o.exactErrors = false) (m : Mach) (c : Char) (rest : Str) (st : State)
    (cr : CharRefSt) (nb : Str) (mt : Nat × Nat)
    (h : CRCtl m st cr) (hs : cr.state = .named) (hnb : cr.nameBuf = some nb)
    (hl : entityLookup (nb ++ [c]) = some mt) (h1 : c ≠ '\r') (h2 : c ≠ '\x00') :
    step o m (c :: rest) = .cont ((m.setCurrentChar c).setCharRef (some (crFeed cr c))) rest := by
  obtain ⟨s1, s2, s3, s4, s5⟩ := h
  by_cases h0 : mt.1 = 0
  · simp [step, s2, stepCharRef, crStep, getChar, s3, preprocess, s4, foldChar, h1, h2, ho, hs, hnb, hl, h0, crFeed]
  · simp [step, s2, stepCharRef, crStep, getChar, s3, preprocess, s4, foldChar, h1, h2, ho, hs, hnb, hl, h0, crFeed]

/-- the state of the sub-tokenizer when the whole name `nm` (ending in `;`) has been read and matched
with value `v` -/
structure CRDone (cr : CharRefSt) (nm : Str) (v : Nat) : Prop where
  st : cr.state = .named
  nb : cr.nameBuf = some nm
  mt : cr.nameMatch = some (v, 0)
  len : cr.nameLen = nm.length

theorem getElem?_snoc_last (nm : Str) (x : Char) (hne : nm ≠ []) :
    (nm ++ [x])[nm.length - 1]? = nm.getLast? := by
  have hl : 0 < nm.length := List.length_pos_iff.mpr hne
  rw [List.getElem?_append_left (by omega), List.getLast?_eq_getElem?]

theorem namedDecision_semi (m : Mach) (nm : Str) (v : Nat) (x : Char)
    (hne : nm ≠ []) (hsemi : nm.getLast? = some ';') (hv : isValidScalar v = true) (cr' : CharRefSt)
    (hlen : cr'.nameLen = nm.length) :
    namedDecision m cr' (nm ++ [x]) v 0 = .ok (m, some [Char.ofNat v]) := by
  have hl : 0 < nm.length := List.length_pos_iff.mpr hne
  have h0 : nm.length ≠ 0 := by omega
  unfold namedDecision
  simp only [hlen, h0, if_false, getElem?_snoc_last nm x hne, hsemi, if_true, Bool.false_eq_true, hv]
  simp [isValidScalar]

/-- the step that reads the look-ahead character `x`, finds that the table does not continue the
name, hands `x` back and delivers the character -/
theorem cr_finish_step (o : Opts) (ho : o.exactErrors = false) (m : Mach) (x : Char) (rest : Str) (st : State)
    (cr : CharRefSt) (nm : Str) (v : Nat)
    (h : CRCtl m st cr) (hd : CRDone cr nm v) (hne : nm ≠ []) (hsemi : nm.getLast? = some ';')
    (hv : isValidScalar v = true) (hnone : entityLookup (nm ++ [x]) = none) (h1 : x ≠ '\r') (h2 : x ≠ '\x00') :
    step o m (x :: rest) =
      ofSig ((processCharRef (m.setCurrentChar x) [Char.ofNat v]).1.setCharRef none,
             (processCharRef (m.setCurrentChar x) [Char.ofNat v]).2) (x :: rest) := by
  obtain ⟨s1, s2, s3, s4, s5⟩ := h
  obtain ⟨d1, d2, d3, d4⟩ := hd
  simp only [step, s2, stepCharRef, crStep, getChar, s3, Bool.false_eq_true, if_false, preprocess, s4, foldChar,
    h1, h2, ho, Bool.false_and, d1, d2, hnone, finishNamed, d3]
  rw [namedDecision_semi (m.setCurrentChar x) nm v x hne hsemi hv _ (by exact d4)]
  simp [unconsume, s4, Mach.setCurrentChar, d4]

/-! ### the table facts -/

/-- what the round trip needs to know about one reference `&nm` with value `v` -/
structure RefOk (nm : Str) (v : Nat) : Prop where
  ne : nm ≠ []
  first : ∀ c, nm.head? = some c →
    c ≠ '\t' ∧ c ≠ '\n' ∧ c ≠ '\x0c' ∧ c ≠ ' ' ∧ c ≠ '<' ∧ c ≠ '&' ∧ c ≠ '#' ∧ c ≠ '"'
  plain : ∀ c ∈ nm, c ≠ '\r' ∧ c ≠ '\x00'
  semi : nm.getLast? = some ';'
  pre : ∀ k, k < nm.length → (entityLookup (nm.take (k + 1))).isSome = true
  foldN : nm.foldl crFeed (crNamed none) =
    { state := .named, addnlAllowed := none, nameBuf := some nm, nameMatch := some (v, 0), nameLen := nm.length }
  foldQ : nm.foldl crFeed (crNamed (some '"')) =
    { state := .named, addnlAllowed := some '"', nameBuf := some nm, nameMatch := some (v, 0), nameLen := nm.length }
  none : ∀ x, entityLookup (nm ++ [x]) = none
  valid : isValidScalar v = true
  nz : Char.ofNat v ≠ '\x00'

def preOk (nm : Str) : Bool := (List.range nm.length).all (fun k => (entityLookup (nm.take (k + 1))).isSome)

def foldOk (nm : Str) (v : Nat) (a : Option Char) : Bool :=
  decide (nm.foldl crFeed (crNamed a) =
    { state := .named, addnlAllowed := a, nameBuf := some nm, nameMatch := some (v, 0), nameLen := nm.length })

def firstOk (c : Char) : Bool :=
  c != '\t' && c != '\n' && c != '\x0c' && c != ' ' && c != '<' && c != '&' && c != '#' && c != '"'

theorem refOk_of (nm : Str) (v : Nat) (c0 : Char) (t : Str) (hk : nm = c0 :: t)
    (h1 : firstOk c0 = true) (h1' : nm.all (fun c => c != '\r' && c != '\x00') = true)
    (h2 : nm.getLast? = some ';') (h3 : preOk nm = true)
    (h4 : foldOk nm v none = true ∧ foldOk nm v (some '"') = true)
    (h5 : HtmlRT.noExt (nm.map Char.toNat) c0.toNat = true) (h6 : isValidScalar v = true)
    (h7 : Char.ofNat v ≠ '\x00') :
    RefOk nm v where
  ne := by rw [hk]; simp
  first := by
    intro c hc; rw [hk] at hc; simp at hc; subst hc
    simp [firstOk] at h1
    simp [h1]
  plain := by
    intro c hc
    have := List.all_eq_true.mp h1' c hc
    simpa using this
  semi := h2
  pre := by
    intro k hkl
    exact List.all_eq_true.mp h3 k (List.mem_range.mpr hkl)
  foldN := of_decide_eq_true h4.1
  foldQ := of_decide_eq_true h4.2
  none := by
    intro x
    rw [entityLookup_eq]
    unfold Model.HtmlTok.entityLookup
    rw [List.map_append]
    exact HtmlRT.lookup_ext_none (nm.map Char.toNat) c0.toNat (t.map Char.toNat) (by rw [hk]; rfl) h5 x.toNat
  valid := h6
  nz := h7

def nAmp : Str := ['a','m','p',';']
def nLt : Str := ['l','t',';']
def nGt : Str := ['g','t',';']
def nQuot : Str := ['q','u','o','t',';']
def nApos : Str := ['a','p','o','s',';']

theorem refOk_amp : RefOk nAmp 38 :=
  refOk_of nAmp 38 'a' ['m','p',';'] rfl (by decide) (by decide) (by decide) (by decide +kernel)
    ⟨by decide +kernel, by decide +kernel⟩ (by decide +kernel) (by decide) (by decide)
theorem refOk_lt : RefOk nLt 60 :=
  refOk_of nLt 60 'l' ['t',';'] rfl (by decide) (by decide) (by decide) (by decide +kernel)
    ⟨by decide +kernel, by decide +kernel⟩ (by decide +kernel) (by decide) (by decide)
theorem refOk_gt : RefOk nGt 62 :=
  refOk_of nGt 62 'g' ['t',';'] rfl (by decide) (by decide) (by decide) (by decide +kernel)
    ⟨by decide +kernel, by decide +kernel⟩ (by decide +kernel) (by decide) (by decide)
theorem refOk_quot : RefOk nQuot 34 :=
  refOk_of nQuot 34 'q' ['u','o','t',';'] rfl (by decide) (by decide) (by decide) (by decide +kernel)
    ⟨by decide +kernel, by decide +kernel⟩ (by decide +kernel) (by decide) (by decide)
theorem refOk_apos : RefOk nApos 39 :=
  refOk_of nApos 39 'a' ['p','o','s',';'] rfl (by decide) (by decide) (by decide) (by decide +kernel)
    ⟨by decide +kernel, by decide +kernel⟩ (by decide +kernel) (by decide) (by decide)

/-! ### reading a named reference -/

theorem CRCtl.upd {m : Mach} {st : State} {cr : CharRefSt} (h : CRCtl m st cr) (c : Char) (cr' : CharRefSt) :
    CRCtl ((m.setCurrentChar c).setCharRef (some cr')) st cr' := by
  obtain ⟨s1, s2, s3, s4, s5⟩ := h
  constructor <;> simp [Mach.setCharRef, Mach.setCurrentChar, *]

theorem CRCtl.upd' {m : Mach} {st : State} {cr : CharRefSt} (h : CRCtl m st cr) (cr' : CharRefSt) :
    CRCtl (m.setCharRef (some cr')) st cr' := by
  obtain ⟨s1, s2, s3, s4, s5⟩ := h
  constructor <;> simp [Mach.setCharRef, *]

theorem crFeed_inv : ∀ (q p0 : Str) (cr : CharRefSt), cr.state = .named → cr.nameBuf = some p0 →
    (∀ k, k < q.length → (entityLookup (p0 ++ q.take (k + 1))).isSome = true) →
    (q.foldl crFeed cr).state = .named ∧ (q.foldl crFeed cr).nameBuf = some (p0 ++ q) := by
  intro q
  induction q with
  | nil => intro p0 cr h1 h2 _; simp [h1, h2]
  | cons c q ih =>
    intro p0 cr h1 h2 hl
    have h0 := hl 0 (by simp)
    simp only [List.take_succ_cons, List.take_zero] at h0
    obtain ⟨mt, hmt⟩ := Option.isSome_iff_exists.mp h0
    have hf1 : (crFeed cr c).state = .named := by
      unfold crFeed; rw [h2]; simp only [Option.getD_some, hmt]; split <;> exact h1
    have hf2 : (crFeed cr c).nameBuf = some (p0 ++ [c]) := by
      unfold crFeed; rw [h2]; simp only [Option.getD_some, hmt]; split <;> rfl
    have := ih (p0 ++ [c]) (crFeed cr c) hf1 hf2 (by
      intro k hk
      have := hl (k + 1) (by simp; omega)
      simpa [List.take_succ_cons] using this)
    simpa using this

/-- the name characters of a reference, one `named` step each -/
theorem ref_feed (o : Opts) (ho : o.exactErrors = false) (st : State) {X : Mach → Prop} (hx : Carried X)
    (rest : Str) : ∀ (q p0 : Str) (cr : CharRefSt) (m : Mach), CRCtl m st cr → X m →
      cr.state = .named → cr.nameBuf = some p0 → (∀ c ∈ q, c ≠ '\r' ∧ c ≠ '\x00') →
      (∀ k, k < q.length → (entityLookup (p0 ++ q.take (k + 1))).isSome = true) →
      ∃ m', Reach o m (q ++ rest) m' rest ∧ CRCtl m' st (q.foldl crFeed cr) ∧ X m' ∧ m'.out = m.out := by
  intro q
  induction q with
  | nil => intro p0 cr m hc hxm _ _ _ _; exact ⟨m, Reach.refl _ _, hc, hxm, rfl⟩
  | cons c q ih =>
    intro p0 cr m hc hxm h1 h2 hp hl
    have h0 := hl 0 (by simp)
    simp only [List.take_succ_cons, List.take_zero] at h0
    obtain ⟨mt, hmt⟩ := Option.isSome_iff_exists.mp h0
    have hinv := crFeed_inv [c] p0 cr h1 h2 (by
      intro k hk; simp at hk; subst hk; simpa using h0)
    simp only [List.foldl_cons, List.foldl_nil] at hinv
    have hpc := hp c (by simp)
    have hs := cr_feed o ho m c (q ++ rest) st cr p0 mt hc h1 h2 hmt hpc.1 hpc.2
    obtain ⟨m', hr, hc', hx', ho'⟩ := ih (p0 ++ [c]) (crFeed cr c) _ (hc.upd c _)
      (hx.setCR _ _ (hx.setCC _ c hxm)) hinv.1 hinv.2 (fun d hd => hp d (by simp [hd])) (by
        intro k hk
        have := hl (k + 1) (by simp; omega)
        simpa [List.take_succ_cons] using this)
    exact ⟨m', Reach.cons hs hr, hc', hx', by rw [ho']; rfl⟩

/-- after the `&`: the whole name of a reference is read silently and is matched -/
theorem ref_read (o : Opts) (ho : o.exactErrors = false) (st : State) {X : Mach → Prop} (hx : Carried X)
    (rest : Str) (nm : Str) (v : Nat) (hr : RefOk nm v) (a : Option Char) (ha : a = none ∨ a = some '"')
    (m : Mach) (hc : CRCtl m st { addnlAllowed := a }) (hxm : X m) :
    ∃ m' cr, Reach o m (nm ++ rest) m' rest ∧ CRCtl m' st cr ∧ CRDone cr nm v ∧ X m' ∧ m'.out = m.out := by
  obtain ⟨c0, t, hnm⟩ : ∃ c0 t, nm = c0 :: t := by
    cases hq : nm with
    | nil => exact absurd hq hr.ne
    | cons a b => exact ⟨a, b, rfl⟩
  obtain ⟨f1, f2, f3, f4, f5, f6, f7, f8⟩ := hr.first c0 (by rw [hnm]; rfl)
  have hne : some c0 ≠ a := by
    rcases ha with rfl | rfl
    · simp
    · simpa using f8
  have hs := cr_begin o m c0 (t ++ rest) st a hc ⟨f1, f2, f3, f4, f5, f6, f7⟩ hne
  obtain ⟨m', hre, hc', hx', ho'⟩ := ref_feed o ho st hx rest nm [] (crNamed a) _ (hc.upd' _)
    (hx.setCR _ _ hxm) rfl rfl hr.plain (by intro k hk; simpa using hr.pre k hk)
  have hfold : nm.foldl crFeed (crNamed a) =
      { state := .named, addnlAllowed := a, nameBuf := some nm, nameMatch := some (v, 0), nameLen := nm.length } := by
    rcases ha with rfl | rfl
    · exact hr.foldN
    · exact hr.foldQ
  rw [hfold] at hc'
  refine ⟨m', _, ?_, hc', ⟨rfl, rfl, rfl, rfl⟩, hx', by rw [ho']; rfl⟩
  rw [hnm] at hre ⊢
  exact Reach.cons hs hre

/-! ### `&#13;` -/

def crN1 (a : Option Char) : CharRefSt := { state := .octothorpe, addnlAllowed := a }
def crN2 (a : Option Char) : CharRefSt := { state := .numeric 10, addnlAllowed := a }
def crN3 (a : Option Char) : CharRefSt := { state := .numeric 10, addnlAllowed := a, num := 1, seenDigit := true }
def crN4 (a : Option Char) : CharRefSt := { state := .numeric 10, addnlAllowed := a, num := 13, seenDigit := true }
/-- the sub-tokenizer after `#13`, before the semicolon -/
def crNum13 (a : Option Char) : CharRefSt :=
  { state := .numericSemicolon, addnlAllowed := a, num := 13, seenDigit := true }

theorem cr_n1 (o : Opts) (ho : o.exactErrors = false) (m : Mach) (rest : Str) (st : State) (a : Option Char)
    (h : CRCtl m st { addnlAllowed := a }) (ha : some '#' ≠ a) :
    step o m ('#' :: rest) = .cont ((m.setCurrentChar '#').setCharRef (some (crN1 a))) rest := by
  obtain ⟨s1, s2, s3, s4, s5⟩ := h
  simp [step, s2, stepCharRef, crStep, peek, s3, ha, discardChar, getChar, preprocess, s4, foldChar, ho, crN1]

theorem cr_n2 (o : Opts) (m : Mach) (rest : Str) (st : State) (a : Option Char) (h : CRCtl m st (crN1 a)) :
    step o m ('1' :: rest) = .cont (m.setCharRef (some (crN2 a))) ('1' :: rest) := by
  obtain ⟨s1, s2, s3, s4, s5⟩ := h
  simp [step, s2, stepCharRef, crStep, peek, s3, crN1, crN2]

theorem cr_n3 (o : Opts) (ho : o.exactErrors = false) (m : Mach) (rest : Str) (st : State) (a : Option Char)
    (h : CRCtl m st (crN2 a)) :
    step o m ('1' :: rest) = .cont ((m.setCurrentChar '1').setCharRef (some (crN3 a))) rest := by
  obtain ⟨s1, s2, s3, s4, s5⟩ := h
  have hd : toDigit '1' 10 = some 1 := by decide
  simp [step, s2, stepCharRef, crStep, peek, s3, discardChar, getChar, preprocess, s4, foldChar, ho, crN2, crN3, hd]

theorem cr_n4 (o : Opts) (ho : o.exactErrors = false) (m : Mach) (rest : Str) (st : State) (a : Option Char)
    (h : CRCtl m st (crN3 a)) :
    step o m ('3' :: rest) = .cont ((m.setCurrentChar '3').setCharRef (some (crN4 a))) rest := by
  obtain ⟨s1, s2, s3, s4, s5⟩ := h
  have hd : toDigit '3' 10 = some 3 := by decide
  simp [step, s2, stepCharRef, crStep, peek, s3, discardChar, getChar, preprocess, s4, foldChar, ho, crN3, crN4, hd]

theorem cr_n5 (o : Opts) (m : Mach) (rest : Str) (st : State) (a : Option Char) (h : CRCtl m st (crN4 a)) :
    step o m (';' :: rest) = .cont (m.setCharRef (some (crNum13 a))) (';' :: rest) := by
  obtain ⟨s1, s2, s3, s4, s5⟩ := h
  have hd : toDigit ';' 10 = none := by decide
  simp [step, s2, stepCharRef, crStep, peek, s3, crN4, crNum13, hd]

theorem ref_num13 (o : Opts) (ho : o.exactErrors = false) (st : State) {X : Mach → Prop} (hx : Carried X)
    (rest : Str) (a : Option Char) (ha : a = none ∨ a = some '"')
    (m : Mach) (hc : CRCtl m st { addnlAllowed := a }) (hxm : X m) :
    ∃ m', Reach o m ('#' :: '1' :: '3' :: ';' :: rest) m' (';' :: rest) ∧ CRCtl m' st (crNum13 a) ∧ X m' ∧
      m'.out = m.out := by
  have hne : some '#' ≠ a := by rcases ha with rfl | rfl <;> simp
  have e1 := cr_n1 o ho m ('1' :: '3' :: ';' :: rest) st a hc hne
  have c1 := hc.upd '#' (crN1 a)
  have e2 := cr_n2 o _ ('3' :: ';' :: rest) st a c1
  have c2 := c1.upd' (crN2 a)
  have e3 := cr_n3 o ho _ ('3' :: ';' :: rest) st a c2
  have c3 := c2.upd '1' (crN3 a)
  have e4 := cr_n4 o ho _ (';' :: rest) st a c3
  have c4 := c3.upd '3' (crN4 a)
  have e5 := cr_n5 o _ rest st a c4
  have c5 := c4.upd' (crNum13 a)
  refine ⟨_, Reach.cons e1 (Reach.cons e2 (Reach.cons e3 (Reach.cons e4 (Reach.one e5)))), c5, ?_, rfl⟩
  exact hx.setCR _ _ (hx.setCR _ _ (hx.setCC _ _ (hx.setCR _ _ (hx.setCC _ _ (hx.setCR _ _ (hx.setCR _ _ (hx.setCC _ _ hxm)))))))

/-- the semicolon of `&#13;`: U+000D is delivered, with the parse error for a control character -/
theorem cr_num13_finish (o : Opts) (ho : o.exactErrors = false) (m : Mach) (rest : Str) (st : State)
    (a : Option Char) (h : CRCtl m st (crNum13 a)) :
    step o m (';' :: rest) =
      ofSig ((processCharRef (emitErr (m.setCurrentChar ';') "Invalid numeric character reference") ['\r']).1.setCharRef none,
             (processCharRef (emitErr (m.setCurrentChar ';') "Invalid numeric character reference") ['\r']).2) rest := by
  obtain ⟨s1, s2, s3, s4, s5⟩ := h
  simp [step, s2, stepCharRef, crStep, crNum13, peek, s3, discardChar, getChar, preprocess, s4, foldChar, ho,
    finishNumericStatus, finishNumeric, isValidScalar]


end H5V.Lemmas.XmlRT
