import H5V.Lemmas.XmlSerFixed
/-!
C17, shape of parsed trees, part 1: the class of tags the (fixed) parser produces — `TagOKW` — and the
theorem "the fixed serializer declares everything" (`okEvs_fixedW`) for it.

`XmlSerFixed.TagOKP` (the class `C17_roundtrip_fixed` is stated for) asks, in its field `consistent`, that
two names of one tag with the same prefix have the same namespace as soon as ONE of them needs a
declaration.  A parser-produced tag violates that whenever the element is in a default namespace and
carries an unprefixed attribute (`<a xmlns="u" k="1"/>`: the element `a` has prefix `none` and namespace
`u`, the attribute `k` prefix `none` and no namespace) — see `C17Shape.C17_witness_class_gap`.  The proof of
`okEvs_fixed` only needs the weaker field of `TagOKW` (both names need a declaration); the chain
`topFixed_sat → elem_ok → serNode(s)_ok → okEvs_fixed` is redone here for `TagOKW`.
-/
namespace H5V.Lemmas.XmlShape
open H5V.Model.XmlTB H5V.Model.XmlSer H5V.Spec.XmlNs H5V.Lemmas.XmlNs H5V.Lemmas.XmlSer H5V.Props.C16
open H5V.Lemmas.XmlSerFixed

/-- a tag as the (fixed) parser produces it.  Differs from `TagOKP` in `consistent` only: the namespaces of
two names with one prefix must agree if BOTH need a declaration (an unprefixed attribute never does). -/
structure TagOKW (n : QName) (as : List Attr) : Prop where
  name : ElemNameOK n
  attrs : ∀ a ∈ as, AttrNameOK a.name
  distinct : (as.map (fun a => (⟨a.name.pfx, a.name.loc⟩ : RName))).Nodup
  expanded : ((as.filter (fun a => a.name.pfx.isSome)).map (fun a => (a.name.ns, a.name.loc))).Nodup
  consistent : ∀ x ∈ n :: as.map (·.name), ∀ y ∈ n :: as.map (·.name),
    y.pfx = x.pfx → needs y = true → needs x = true → y.ns = x.ns

theorem TagOKW.of_TagOKP {n : QName} {as : List Attr} (h : TagOKP n as) : TagOKW n as :=
  ⟨h.name, h.attrs, h.distinct, h.expanded, fun x hx y hy hp hn _ => h.consistent x hx y hy hp hn⟩

theorem reg1_preservesW (sst : List SMap) (F : SMap) (x y : QName) (hy : Sat y (F :: sst))
    (hc : y.pfx = x.pfx → needs y = true → needs x = true → y.ns = x.ns) : Sat y (reg1 sst F x :: sst) := by
  unfold reg1
  split
  · rename_i hins
    have hnx : needs x = true := by
      simp only [Bool.and_eq_true] at hins; exact hins.1
    rcases hy with hy | hy
    · exact Or.inl hy
    · by_cases hp : y.pfx = x.pfx
      · by_cases hny : needs y = true
        · have hns := hc hp hny hnx
          have : Model.XmlSer.findUri (F :: sst) x = true := by
            rw [← findUri_congr (F :: sst) x y hp hns]; exact hy
          simp [this] at hins
        · exact Or.inl (by simpa using hny)
      · right
        rw [findUri_cons, lookup_insert]
        simp only [hp, ↓reduceIte]
        rw [findUri_cons] at hy; exact hy
  · exact hy

theorem regAll_satW (sst : List SMap) (xs : List QName) (F : SMap) (done : List QName)
    (hdone : ∀ y ∈ done, Sat y (F :: sst))
    (hc : ∀ x ∈ done ++ xs, ∀ y ∈ done ++ xs, y.pfx = x.pfx → needs y = true → needs x = true → y.ns = x.ns) :
    ∀ y ∈ done ++ xs, Sat y (regAll sst F xs :: sst) := by
  induction xs generalizing F done with
  | nil => simpa [regAll] using hdone
  | cons x rest ih =>
    have := ih (reg1 sst F x) (done ++ [x]) (by
      intro y hy
      rcases List.mem_append.mp hy with hy | hy
      · exact reg1_preservesW sst F x y (hdone y hy) (hc x (by simp) y (by simp [hy]))
      · simp at hy; subst hy; exact reg1_sat sst F y) (by simpa using hc)
    simpa [regAll] using this

theorem topFixed_goodW (sst : List SMap) (n : QName) (as : List Attr) (ht : TagOKW n as) :
    GoodMap (topFixed sst n as) := by
  unfold topFixed
  apply goodMap_regAll
  · have h0 := goodMap_reg1 sst [] n goodMap_nil ht.name.regOK
    split
    · exact goodMap_insert _ none [] h0 (fun e => absurd e (by decide)) (fun p hp => by cases hp)
    · exact h0
  · intro x hx
    obtain ⟨a, ha, rfl⟩ := List.mem_map.mp hx
    exact (ht.attrs a ha).regOK

theorem topFixed_satW (sst : List SMap) (n : QName) (as : List Attr) (ht : TagOKW n as) :
    ∀ y ∈ n :: as.map (·.name), Sat y (topFixed sst n as :: sst) := by
  unfold topFixed
  simp only []
  have h0 : Sat n (reg1 sst [] n :: sst) := reg1_sat sst [] n
  have h1 : Sat n ((if (n.pfx.isNone && n.ns == [] && defaultBound (reg1 sst [] n :: sst)) = true
      then (reg1 sst [] n).insert none [] else reg1 sst [] n) :: sst) := by
    split
    · rename_i hc
      left
      simp only [Bool.and_eq_true, Option.isNone_iff_eq_none, beq_iff_eq] at hc
      simp [needs, hc.1.1, hc.1.2]
    · exact h0
  have := regAll_satW sst (as.map (·.name)) _ [n] (by intro y hy; simp at hy; subst hy; exact h1)
    (by simpa using ht.consistent)
  simpa using this

theorem topFixed_defaultW (sst : List SMap) (n : QName) (as : List Attr) (ht : TagOKW n as)
    (hn : needs n = false) : defaultBound (topFixed sst n as :: sst) = false := by
  have hpn : n.pfx = none ∧ n.ns = [] := by
    unfold needs at hn
    simp only [Bool.or_eq_false_iff, Option.isSome_eq_false_iff, Option.isNone_iff_eq_none, bne_eq_false_iff_eq] at hn
    exact hn
  have hattr : ∀ x ∈ as.map (·.name), x.pfx = none → needs x = false := by
    intro x hx hp
    obtain ⟨a, ha, rfl⟩ := List.mem_map.mp hx
    have := ((ht.attrs a ha).unprefixed hp).1
    simp [needs, hp, this]
  have h0 : reg1 sst [] n = [] := by unfold reg1; simp [hn]
  rw [defaultBound_cons]
  unfold topFixed
  simp only [h0]
  rw [regAll_lookup_none sst _ _ hattr]
  by_cases hc : defaultBound ([] :: sst) = true
  · simp [hpn.1, hpn.2, hc, lookup_insert]
  · have hc' : defaultBound ([] :: sst) = false := by simpa using hc
    simp only [hpn.1, hpn.2, hc', Option.isNone_none, beq_self_eq_true, Bool.and_false, Bool.false_eq_true, ↓reduceIte]
    rw [defaultBound_cons] at hc'
    simpa using hc'

/-- `tagOf_fixed` for `TagOKW` (its proof never looks at `consistent`) -/
theorem tagOf_fixedW (n : QName) (as : List Attr) (decls : SMap) (hd : GoodMap decls) (ht : TagOKW n as) :
    tagOf SerCfg.fixed LexCfg.fixed n decls as =
      ⟨.start, ⟨n.pfx, n.loc⟩, (declRAttrs decls).reverse ++ attrRAttrs as⟩ := by
  have hraw : (decls.map declRaw ++ as.map attrRaw).map splitAttr = declRAttrs decls ++ attrRAttrs as := by
    simp only [List.map_append, List.map_map, declRAttrs, attrRAttrs]
    congr 1
    · apply List.map_congr_left
      intro d hdm
      exact splitAttr_declRaw d (fun p hp => hd.keyOK p d.2 (by rw [← hp]; exact hdm))
    · apply List.map_congr_left
      intro a ha
      exact splitAttr_attrRaw a (ht.attrs a ha).toNameOK
  have hne : ∀ r ∈ decls.map declRaw ++ as.map attrRaw, r.name ≠ [] := by
    intro r hr
    rcases List.mem_append.mp hr with hr | hr
    · obtain ⟨d, _, rfl⟩ := List.mem_map.mp hr
      simp only [declRaw, declName]
      cases d.1 <;> simp [sXmlns] <;> decide
    · obtain ⟨a, ha, rfl⟩ := List.mem_map.mp hr
      exact (ht.attrs a ha).toNameOK.nonempty
  have hnames : (decls.map declRaw ++ as.map attrRaw).map (fun r => splitQName r.name) =
      (declRAttrs decls ++ attrRAttrs as).map (·.name) := by
    rw [← hraw, List.map_map]; rfl
  have hnd : ((decls.map declRaw ++ as.map attrRaw).map (fun r => splitQName r.name)).Nodup := by
    rw [hnames, List.map_append, List.nodup_append]
    refine ⟨?_, ?_, ?_⟩
    · have : (declRAttrs decls).map (·.name) = (decls.map Prod.fst).map declNameOf := by
        simp [declRAttrs]
      rw [this]
      exact nodup_map_of_inj declNameOf declNameOf_inj _ hd.nodup
    · have : (attrRAttrs as).map (·.name) = as.map (fun a => (⟨a.name.pfx, a.name.loc⟩ : RName)) := by
        simp [attrRAttrs]
      rw [this]; exact ht.distinct
    · intro x hx y hy hxy
      subst hxy
      obtain ⟨d, hdm, rfl⟩ := List.mem_map.mp hx
      obtain ⟨d', _, rfl⟩ := List.mem_map.mp hdm
      obtain ⟨a, ham, hae⟩ := List.mem_map.mp hy
      obtain ⟨a', ha', rfl⟩ := List.mem_map.mp ham
      have h1 := isDecl_declNameOf d'.1
      have h2 := attr_not_decl a'.name (ht.attrs a' ha')
      simp only at hae
      rw [← hae] at h1
      rw [h1] at h2; cases h2
  have hs := tagAttrs_fixed_struct _ hne hnd
  rw [hraw] at hs
  simp only [List.filter_append, filter_decl_D, filter_decl_A as ht.attrs, filter_ndecl_D,
    filter_ndecl_A as ht.attrs, List.append_nil, List.nil_append] at hs
  unfold tagOf finishTag
  simp only [LexCfg.fixed, ht.name.split]
  have hl : (decls.map (fun d => (⟨declName d.1, lexAttrValue ⟨TokCfg.fixed, true⟩ (declValue SerCfg.fixed d.2)⟩ : RawAttr)) ++
      as.map (fun a => (⟨rawName a.name, lexAttrValue ⟨TokCfg.fixed, true⟩ (escape SerCfg.fixed true a.value)⟩ : RawAttr))) =
      decls.map declRaw ++ as.map attrRaw := rfl
  rw [hl, hs]

/-- **one element** (`elem_ok` for `TagOKW`) -/
theorem elem_okW (sst : List SMap) (pst : List NsMap) (env : List NsFrame) (hR : Rel sst pst env)
    (n : QName) (as : List Attr) (ht : TagOKW n as) :
    (processNamespaces TbCfg.fixed pst
        (tagOf SerCfg.fixed LexCfg.fixed n (sortDecls (topFixed sst n as)) as)).name = n ∧
    (processNamespaces TbCfg.fixed pst
        (tagOf SerCfg.fixed LexCfg.fixed n (sortDecls (topFixed sst n as)) as)).attrs = as ∧
    Rel (topFixed sst n as :: sst)
      ((processNamespaces TbCfg.fixed pst
        (tagOf SerCfg.fixed LexCfg.fixed n (sortDecls (topFixed sst n as)) as)).map :: pst)
      (frameOf (tagOf SerCfg.fixed LexCfg.fixed n (sortDecls (topFixed sst n as)) as).attrs :: env) := by
  have hF := topFixed_goodW sst n as ht
  have hFs : GoodMap (sortDecls (topFixed sst n as)) := goodMap_perm (sortDecls_perm _) hF
  have htag := tagOf_fixedW n as (sortDecls (topFixed sst n as)) hFs ht
  generalize hF' : topFixed sst n as = F at *
  have hnd : NoDupDecl (tagOf SerCfg.fixed LexCfg.fixed n (sortDecls F) as).attrs :=
    noDupDecl_of_nodup_names _ (C16_tok_no_dup_qname_fixed _)
  have hok : TagOK TbCfg.fixed (tagOf SerCfg.fixed LexCfg.fixed n (sortDecls F) as) := ⟨Or.inl rfl, hnd⟩
  obtain ⟨hbn, hba, hbm⟩ := processNamespaces_eq TbCfg.fixed pst (env.map (fun f => (⟨[], [], f⟩ : Scope)))
    (tagOf SerCfg.fixed LexCfg.fixed n (sortDecls F) as) hok
    (by rw [envOf_dummy]; exact hR.stack) (by rw [envOf_dummy]; exact hR.clean)
  rw [hbn, hba]
  unfold resolveTag
  simp only [envOf_dummy]
  rw [htag] at hbm ⊢
  simp only []
  have hfa : FA (F :: sst) (frameOf ((declRAttrs (sortDecls F)).reverse ++ attrRAttrs as) :: env) :=
    ⟨frame_lookup F hF as ht.attrs, hR.fa⟩
  have hgood : GoodStack (F :: sst) := by
    intro G hG; simp at hG; rcases hG with rfl | hG; exact hF; exact hR.good G hG
  have hsat := topFixed_satW sst n as ht
  rw [hF'] at hsat
  refine ⟨?_, ?_, ?_⟩
  · unfold resolveElemName
    simp only []
    by_cases hn : needs n = true
    · rw [lookupNs_sat (F :: sst) _ hfa hgood n (hsat n (by simp)) hn ht.name.xml ht.name.xmlns]
    · have hn' : needs n = false := by simpa using hn
      have hpn : n.pfx = none ∧ n.ns = [] := by
        unfold needs at hn'
        simp only [Bool.or_eq_false_iff, Option.isSome_eq_false_iff, Option.isNone_iff_eq_none, bne_eq_false_iff_eq] at hn'
        exact hn'
      have hd := topFixed_defaultW sst n as ht hn'
      rw [hF'] at hd
      rw [hpn.1, lookupNs_default (F :: sst) _ hfa hgood hd]
      cases n; simp_all
  · unfold resolveAttrs
    have hfilt : ((declRAttrs (sortDecls F)).reverse ++ attrRAttrs as).filter (fun a => !isDecl a.name) =
        attrRAttrs as := by
      rw [List.filter_append, List.filter_reverse, filter_ndecl_D, filter_ndecl_A as ht.attrs]; simp
    rw [hfilt]
    generalize (frameOf ((declRAttrs (sortDecls F)).reverse ++ attrRAttrs as) :: env) = env' at hfa ⊢
    have hmap : (attrRAttrs as).map (fun a => (⟨resolveAttrName env' a.name, a.value⟩ : Attr)) = as := by
      unfold attrRAttrs
      rw [List.map_map]
      conv => rhs; rw [← List.map_id as]
      apply List.map_congr_left
      intro a ha
      simp only [Function.comp, id]
      have hao := ht.attrs a ha
      unfold resolveAttrName
      cases hp : a.name.pfx with
      | none =>
        have := (hao.unprefixed hp).1
        cases a with
        | mk nm v => cases nm; simp_all
      | some q =>
        simp only []
        have hn : needs a.name = true := by simp [needs, hp]
        have := lookupNs_sat (F :: sst) _ hfa hgood a.name (hsat a.name (by simp; right; exact ⟨a, ha, rfl⟩)) hn
          hao.xml (fun e => absurd e hao.notXmlns)
        rw [hp] at this
        rw [this]
        cases a with
        | mk nm v => cases nm; simp_all
    rw [hmap]
    exact dedup_id [] as ht.expanded (by simp)
  · exact ⟨by rw [stackAgree_cons]; exact ⟨hbm, hR.stack⟩,
      by intro f hf; simp at hf; rcases hf with rfl | hf; exact frameOf_clean _; exact hR.clean f hf,
      hfa, hgood⟩

/-! ### whole trees -/

mutual
/-- every tag of the tree is one the (fixed) parser can have produced (`TagOKW`) -/
def treeOKW : Node → Prop
  | .elem n as ks => TagOKW n as ∧ treesOKW ks
  | _ => True
def treesOKW : List Node → Prop
  | [] => True
  | n :: rest => treeOKW n ∧ treesOKW rest
end

mutual
theorem treeOKW_of_treeOK : ∀ (nd : Node), treeOK nd → treeOKW nd
  | .elem n as ks, h => by
    simp only [treeOK] at h; simp only [treeOKW]
    exact ⟨TagOKW.of_TagOKP h.1, treesOKW_of_treesOK ks h.2⟩
  | .text _, _ => trivial
  | .comment _, _ => trivial
  | .pi _ _, _ => trivial
  | .doctype _ _ _, _ => trivial
theorem treesOKW_of_treesOK : ∀ (ns : List Node), treesOK ns → treesOKW ns
  | [], _ => trivial
  | n :: rest, h => by
    simp only [treesOK] at h; simp only [treesOKW]
    exact ⟨treeOKW_of_treeOK n h.1, treesOKW_of_treesOK rest h.2⟩
end

mutual
theorem serNode_okW : ∀ (nd : Node) (sst : List SMap) (pst : List NsMap) (env : List NsFrame),
    Rel sst pst env → treeOKW nd →
    okEvs SerCfg.fixed LexCfg.fixed TbCfg.fixed pst (serNode SerCfg.fixed sst nd).1 = true ∧
      (serNode SerCfg.fixed sst nd).2 = sst
  | .elem n as ks, sst, pst, env, hR, hT => by
    simp only [treeOKW] at hT
    obtain ⟨ht, hks⟩ := hT
    obtain ⟨hbn, hba, hR'⟩ := elem_okW sst pst env hR n as ht
    have ih := serNodes_okW ks _ _ _ hR' hks
    have hsp := serNodes_spells SerCfg.fixed (topFixed sst n as :: sst) ks
    simp only [serNode, startElem_fixed, endElem_fixed]
    refine ⟨?_, by rw [ih.2]; rfl⟩
    simp only [List.cons_append, okEvs, hbn, hba, beq_self_eq_true, Bool.true_and]
    rw [okEvs_append SerCfg.fixed LexCfg.fixed TbCfg.fixed hsp, ih.1]
    simp [okEvs]
  | .text s, sst, pst, env, _, _ => by simp [serNode, okEvs]
  | .comment s, sst, pst, env, _, _ => by simp [serNode, okEvs]
  | .pi t d, sst, pst, env, _, _ => by simp [serNode, okEvs]
  | .doctype n p sy, sst, pst, env, _, _ => by simp [serNode, okEvs]
theorem serNodes_okW : ∀ (ns : List Node) (sst : List SMap) (pst : List NsMap) (env : List NsFrame),
    Rel sst pst env → treesOKW ns →
    okEvs SerCfg.fixed LexCfg.fixed TbCfg.fixed pst (serNodes SerCfg.fixed sst ns).1 = true ∧
      (serNodes SerCfg.fixed sst ns).2 = sst
  | [], sst, pst, env, _, _ => by simp [serNodes, okEvs]
  | nd :: rest, sst, pst, env, hR, hT => by
    simp only [treesOKW] at hT
    have h1 := serNode_okW nd sst pst env hR hT.1
    have hsp := serNode_spells SerCfg.fixed sst nd
    simp only [serNodes]
    rw [h1.2]
    have h2 := serNodes_okW rest sst pst env hR hT.2
    refine ⟨?_, h2.2⟩
    rw [okEvs_append SerCfg.fixed LexCfg.fixed TbCfg.fixed hsp, h1.1, h2.1]
    rfl
end

/-- **the fixed serializer declares everything**, for the full class of parser-produced tags -/
theorem okEvs_fixedW (doc : List Node) (h : treesOKW doc) :
    okEvs SerCfg.fixed LexCfg.fixed TbCfg.fixed [defaultMap] (serDoc SerCfg.fixed doc) = true :=
  (serNodes_okW doc [] [defaultMap] [] rel_init h).1

end H5V.Lemmas.XmlShape
