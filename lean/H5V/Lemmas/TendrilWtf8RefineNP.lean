import H5V.Lemmas.TendrilWtf8RefineStep
/-!
No spurious panic for formats with a concatenation fix-up: `C11_no_spurious_panic` of
`H5V/Props/C11.lean` over `LawsFx F cat`, for a fix-up that does not make the result longer than the
plain concatenation (`FixupSmall`: it inserts at most as many bytes as it drops).
-/
namespace H5V.Props.C11
open H5V.Model.Tendril H5V.Lemmas.Tendril

set_option linter.unusedSimpArgs false

/-- the fix-up inserts at most as many bytes as it drops -/
def FixupSmall (F : Format) : Prop :=
  ∀ a b, (F.fixup a b).insert.length ≤ (F.fixup a b).dropLeft + (F.fixup a b).dropRight

theorem Laws.fixupSmall {F : Format} (L : Laws F) : FixupSmall F := by
  intro a b; rw [L.noFixup]; exact Nat.zero_le _

theorem np_mkInline (x : List UInt8) (s : String) : NP (mkInline x s) := by
  unfold mkInline; split
  · exact NP.ok
  · exact NP.ub

theorem np_pushBytesUnchecked_fx {F : Format} (hF : FixupOK F) (hI : FixupSmall F) {h : Heap} {t : T}
    {rest : List T} (buf : List UInt8) (w : WF h (t :: rest))
    (hs1 : t.len32 ≤ 1073741824) (hs2 : buf.length ≤ 1073741824) : NP (pushBytesUnchecked F h t buf) := by
  have hlen := abs_length (w.twf t (List.mem_cons_self ..))
  obtain ⟨hdl, hdr⟩ := hF (abs h t) buf
  have hi := hI (abs h t) buf
  unfold pushBytesUnchecked
  simp only [bind, Except.bind]
  apply NP.ite_panic (by omega)
  rw [asByteSlice_head w]
  simp only []
  generalize hfx : F.fixup (abs h t) buf = fx at hdl hdr hi ⊢
  apply NP.ite_panic (by omega)
  apply NP.ite_panic (by omega)
  apply NP.ite_panic (by omega)
  apply NP.ite_panic (by omega)
  apply NP.ite_ub
  split
  · apply NP.ite_ub
    cases hm : mkInline (List.take (t.len32 + fx.insert.length - fx.dropLeft + buf.length - fx.dropRight)
        (List.take ((abs h t).length - fx.dropLeft) (abs h t) ++ fx.insert ++ List.drop fx.dropRight buf))
        "push_bytes" with
    | error e =>
      have := np_mkInline (List.take (t.len32 + fx.insert.length - fx.dropLeft + buf.length - fx.dropRight)
        (List.take ((abs h t).length - fx.dropLeft) (abs h t) ++ fx.insert ++ List.drop fx.dropRight buf))
        "push_bytes"
      rw [hm] at this
      intro s hse; cases hse; exact this s rfl
    | ok t' =>
      simp only []
      apply NP.bind (NP.of_satT (dropT_spec w))
      intro h1 _
      exact NP.ok
  · apply NP.bind (np_makeOwnedWithCapacity _ w (by omega) (by omega))
    rintro ⟨h1, t1⟩ he
    obtain ⟨w1, _, _, id, c, ht1, hge⟩ := (makeOwnedWithCapacity_spec _ w).of_ok he
    simp only at w1 ht1 hge
    subst ht1
    simp only []
    apply NP.ite_ub
    obtain ⟨b, hb, hl, hc, hlen1, hok, hrc, hr0⟩ := w1.owned_head
    rw [write_ok _ hb hl (by omega) (by simp; omega)]
    exact NP.ok

theorem np_pushTendril_fx {F : Format} (hF : FixupOK F) (hI : FixupSmall F) {h : Heap} {t o : T}
    {rest : List T} (w : WF h (t :: rest)) (ho : o ∈ rest)
    (hs1 : t.len32 ≤ 1073741824) (hs2 : o.len32 ≤ 1073741824) : NP (pushTendril F h t o) := by
  have wo : TWF h o := w.twf o (List.mem_cons_of_mem _ ho)
  have hlo := abs_length wo
  have slow : NP (asByteSlice h o >>= fun bs => pushBytesUnchecked F h t bs) := by
    rw [asByteSlice_eq wo w.bufs]
    exact np_pushBytesUnchecked_fx hF hI _ w hs1 (by rw [hlo]; exact hs2)
  unfold pushTendril
  apply NP.ite_panic (by omega)
  split
  · split
    · exact NP.ok
    · exact slow
  · exact slow

/-- the operations that can reach an `OFLOW` guard or a length assert do not panic while the sizes
are small -/
theorem stepM_np_fx (F : Format) (cat : List UInt8 → List UInt8 → List UInt8) (L : LawsFx F cat)
    (hI : FixupSmall F) (st : St) (op : Op) (hwf : StWF st) (hs : Small F st op)
    (hop : oflowOp op = true) :
    match stepM F st op with
    | none => True
    | some m => NP m := by
  cases op with
  | new i => simp [oflowOp] at hop
  | tryPopFront i n => simp [oflowOp] at hop
  | tryPopBack i n => simp [oflowOp] at hop
  | trySubtendril i j o l => simp [oflowOp] at hop
  | clone i j => simp [oflowOp] at hop
  | clear i => simp [oflowOp] at hop
  | drop i => simp [oflowOp] at hop
  | popFrontChar i => simp [oflowOp] at hop
  | popFrontCharRun i j k => simp [oflowOp] at hop
  | popFront i n => simp [oflowOp] at hop
  | popBack i n => simp [oflowOp] at hop
  | subtendril i j o l => simp [oflowOp] at hop
  | fromBytes i bs =>
    by_cases hi : i < st.pool.length
    · simp only [stepM, hi, ↓reduceIte]
      split
      · apply NP.bind (np_fromBytesUnchecked bs (by simp only [Small] at hs; omega))
        rintro ⟨h1, t1⟩ he
        obtain ⟨w1, _, _⟩ := (fromBytesUnchecked_spec bs hwf).of_ok he
        apply NP.bind (np_store (st := ⟨h1, st.pool⟩) hi w1)
        intro st' _; exact NP.ok
      · exact NP.ok
    · simp only [stepM, hi, ↓reduceIte]
  | pushBytes i bs =>
    cases hp : st.pool[i]? with
    | none => simp only [stepM, hp]
    | some o => cases o with
      | none => simp only [stepM, hp]
      | some t =>
        simp only [stepM, hp]
        simp only [Small, slotLen_eq hp] at hs
        split
        · apply NP.bind (np_pushBytesUnchecked_fx L.fixupOK hI bs (focusWF hwf hp) (by omega) (by omega))
          intro r _; exact NP.ok
        · exact NP.ok
  | pushChar i c =>
    cases hp : st.pool[i]? with
    | none => simp only [stepM, hp]
    | some o => cases o with
      | none => simp only [stepM, hp]
      | some t =>
        simp only [stepM, hp]
        simp only [Small, slotLen_eq hp] at hs
        cases he : F.encodeChar c with
        | none => exact NP.ok
        | some bs =>
          simp only []
          have := hs.1 bs he
          apply NP.bind (np_pushBytesUnchecked_fx L.fixupOK hI bs (focusWF hwf hp) (by omega) (by omega))
          intro r _; exact NP.ok
  | pushTendril i j =>
    cases hp : st.pool[i]? with
    | none => simp only [stepM, hp]
    | some o => cases o with
      | none => simp only [stepM, hp]
      | some t =>
        cases hq : st.pool[j]? with
        | none => simp only [stepM, hp, hq]
        | some o2 => cases o2 with
          | none => simp only [stepM, hp, hq]
          | some o =>
            simp only [stepM, hp, hq]
            simp only [Small, slotLen_eq hp, slotLen_eq hq] at hs
            by_cases hij : i = j
            · simp only [hij, ↓reduceIte]
            · simp only [hij, ↓reduceIte]
              apply NP.bind (np_pushTendril_fx L.fixupOK hI (focusWF hwf hp) (others_mem (Ne.symm hij) hq) (by omega) (by omega))
              intro r _; exact NP.ok
  | sendRoundTrip i =>
    cases hp : st.pool[i]? with
    | none => simp only [stepM, hp]
    | some o => cases o with
      | none => simp only [stepM, hp]
      | some t =>
        simp only [stepM, hp]
        simp only [Small, slotLen_eq hp] at hs
        apply NP.bind (np_makeOwned (focusWF hwf hp) (by omega))
        intro r _; exact NP.ok
  | reserve i n =>
    cases hp : st.pool[i]? with
    | none => simp only [stepM, hp]
    | some o => cases o with
      | none => simp only [stepM, hp]
      | some t =>
        simp only [stepM, hp]
        simp only [Small, slotLen_eq hp] at hs
        apply NP.bind (np_reserveT n (focusWF hwf hp) (by omega))
        intro r _; exact NP.ok
  | withCapacity i n =>
    by_cases hi : i < st.pool.length
    · simp only [stepM, hi, ↓reduceIte]
      simp only [Small] at hs
      apply NP.bind (np_withCapacity n hwf (by omega))
      rintro ⟨h1, t1⟩ he
      obtain ⟨w1, _, _⟩ := (withCapacity_spec n hwf).of_ok he
      apply NP.bind (np_store (st := ⟨h1, st.pool⟩) hi w1)
      intro st' _; exact NP.ok
    · simp only [stepM, hi, ↓reduceIte]
  | setByte i k v =>
    cases hp : st.pool[i]? with
    | none => simp only [stepM, hp]
    | some o => cases o with
      | none => simp only [stepM, hp]
      | some t =>
        simp only [stepM, hp]
        simp only [Small, slotLen_eq hp] at hs
        have wt := focusWF hwf hp
        apply NP.bind (np_derefMut wt (by omega))
        rintro ⟨h1, t1⟩ he
        obtain ⟨w1, _, _, _, hns⟩ := (derefMut_spec wt).of_ok he
        simp only at w1 hns
        by_cases hk : k < t1.len32
        · simp only [hk, ↓reduceIte]
          apply NP.bind (NP.of_satT (storeByte_spec k v w1 hns hk))
          intro r _; exact NP.ok
        · simp only [hk, ↓reduceIte]; exact NP.ok
/-- **No spurious panic**, for a format with a (small) concatenation fix-up: while the tendrils and the
operands involved are below 2^30 bytes, the model panics only where the specification panics — so
below that size every operation refines the specification exactly. -/
theorem C11_no_spurious_panic_fx (F : Format) (cat : List UInt8 → List UInt8 → List UInt8)
    (L : LawsFx F cat) (hI : FixupSmall F) (st : St) (op : Op) (hwf : StWF st)
    (hv : AValid F (absPool st)) (hd : DV F st.heap) (hs : Small F st op) :
    (absPool (step F st op).1, (step F st op).2) = Spec.stepFx F cat (absPool st) op := by
  have h := stepM_spec_fx F cat L st op hwf hv hd
  have hn := stepM_np_fx F cat L hI st op hwf hs
  unfold step
  cases hm : stepM F st op with
  | none => rw [hm] at h; exact h.symm
  | some m =>
    rw [hm] at h hn
    cases m with
    | ok r => exact h.2
    | error e =>
      cases e with
      | ub s => exact h.elim
      | panic s =>
        -- `h : mayPanic …`
        have h' : mayPanic F (absPool st) op := h
        simp only []
        by_cases ho : oflowOp op = true
        · exact ((hn ho) s rfl).elim
        · cases op <;> simp only [oflowOp, mayPanic, not_true_eq_false] at ho h' <;>
            first
            | exact h'.elim
            | exact (Spec.step_panic_state F _ _ h').symm
            | (simp only [Spec.stepFx]; exact (Spec.step_panic_state F _ _ h').symm)
end H5V.Props.C11
