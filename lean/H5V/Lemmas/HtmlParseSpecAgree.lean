import H5V.Lemmas.HtmlParseSpecBridge
import H5V.Lemmas.HtmlParseSpecRun
import H5V.Lemmas.HtmlTokSpecDefs
import H5V.Spec.Parse
/-!
Capstone, part: **the bridge** — the sink policy induced by the specification's coupling `Spec.Parse.treeOfSpec`
answers like the tree-builder MODEL after every history the joint run passes through (`agrees_of_lock`), given
that the model and `Spec.TreeModes` run in lock-step over the delivered token stream (`Lock`, from C02Modes).

* `convAll` — the tokens the joint driver hands to the tree builder (`absorb` = `processTokens ∘ convAll`);
* `polOfTree` — the pause-free sink policy that answers as a `Tree` does; `polTree_polOfTree`: `PolTree` holds by
  construction, so `C01_model_eq_spec` applies to it;
* `acn_bridge` — the CDATA question: `adjusted_current_node_present_but_not_in_html_namespace` of the model is
  the standard's "there is an adjusted current node and it is not an element in the HTML namespace" on `absF`;
* `specToks_convAll` — a history of single-character tokens is, token for token, the history of the
  specification's tokenizer.
-/
namespace H5V.Lemmas.ParseSpec
open H5V.Model.HtmlTB
open H5V.Model.Dom (Id SinkOp Output Dom QualName Attr NodeOrText ElementFlags NodeData QuirksMode)
open H5V.Lemmas.HtmlTBAlgo
open H5V.Lemmas.HtmlTBModes
open H5V.Lemmas.TBSafe (TI HInv SInv)
open H5V.Spec.TreeModes (STok ETok IMode Config Out TokSwitch XOp Op Step Edition)
open H5V.Model.HtmlTB.Joint (JState absorb polOf conv convTag toSinkRes)
open H5V.Lemmas.JointChunk
open H5V.Lemmas.HtmlTokSpec (flat flatTok PolTree)
open H5V.Spec.HtmlTokenizer (Emit Tree Switch)
open H5V.Spec.Parse (Cfg treeOfSpec stateAfter treeTok treeTag lastSwitch acnForeign)

abbrev TTok := H5V.Model.HtmlTok.Token
abbrev TOut := H5V.Model.HtmlTok.Out

/-! ### the token stream handed to the tree builder -/

/-- the tokens of a log (oldest first) as the tree builder receives them (pause markers are not tokens) -/
def convAll (l : List (TTok × Nat)) : List (TokToken × Nat) := l.filterMap fun p => (conv p.1).map (·, p.2)

theorem convAll_append (a b : List (TTok × Nat)) : convAll (a ++ b) = convAll a ++ convAll b := by
  simp [convAll]

theorem convAll_cons (t : TTok) (l : Nat) (rest : List (TTok × Nat)) :
    convAll ((t, l) :: rest) = (match conv t with | none => [] | some tt => [(tt, l)]) ++ convAll rest := by
  unfold convAll
  rw [List.filterMap_cons]
  cases conv t <;> rfl

/-- `absorb` is the tree builder fed `convAll` -/
theorem absorb_model : ∀ (toks : List (TTok × Nat)) (j j' : JState), absorb toks j = .ok j' →
    (processTokens (convAll toks) j.results).run j.tb = .ok (j'.results, j'.tb)
  | [], j, j', h => by cases h; rfl
  | (t, line) :: rest, j, j', h => by
    rw [absorb_cons] at h
    rw [convAll_cons]
    cases hc : conv t with
    | none => rw [hc] at h; exact absorb_model rest j j' h
    | some tt =>
      rw [hc] at h
      simp only at h
      cases hp : (processToken tt line).run j.tb with
      | error e => rw [hp] at h; cases h
      | ok v =>
        obtain ⟨r, tb⟩ := v
        rw [hp] at h
        simp only at h
        by_cases hcnd : (!isTagT tt && r != .continue_) = true
        · rw [if_pos hcnd] at h; cases h
        · rw [if_neg hcnd] at h
          have ih := absorb_model rest _ j' h
          show (processToken tt line >>= fun r => processTokens (convAll rest)
            (if r == .continue_ then j.results else r :: j.results)) j.tb = _
          rw [H5V.Lemmas.TBSplit.bind_apply]
          have : processToken tt line j.tb = .ok (r, tb) := hp
          rw [this]
          exact ih

/-! ### the policy of a `Tree` -/

/-- the sink answer that makes html5ever perform a given switch -/
def sinkResOf : Switch → H5V.Model.HtmlTok.SinkRes
  | .none => .continue_
  | .data => .continue_
  | .plaintext => .plaintext
  | .rcdata => .rawData .rcdata
  | .rawtext => .rawData .rawtext
  | .scriptData => .rawData .scriptData
  | .scriptDataEscaped => .rawData (.scriptDataEscaped .escaped)
  | .scriptDataDoubleEscaped => .rawData (.scriptDataEscaped .doubleEscaped)

/-- the pause-free sink policy that answers as the tree-construction feedback `t` does -/
def polOfTree (t : Tree) : H5V.Model.HtmlTok.Pol :=
  { onTag := fun out tag => sinkResOf (t.onTag (Emit.tag tag :: flat out) tag)
    cdataOk := fun out => t.foreign (flat out) }

theorem noPause_polOfTree (t : Tree) : H5V.Model.HtmlTok.NoPause (polOfTree t) := by
  intro out tag
  show sinkResOf _ ≠ _ ∧ sinkResOf _ ≠ _
  cases t.onTag (Emit.tag tag :: flat out) tag <;> simp [sinkResOf]

/-- `PolTree` holds by construction for a tree that never asks for the plain data state -/
theorem polTree_polOfTree (t : Tree) (h : ∀ hist tag, t.onTag hist tag ≠ .data) : PolTree (polOfTree t) t where
  noPause := noPause_polOfTree t
  onTag := fun out tag => by
    show _ = H5V.Lemmas.HtmlTokSpec.switchOf (sinkResOf _)
    have := h (Emit.tag tag :: flat out) tag
    cases hh : t.onTag (Emit.tag tag :: flat out) tag <;> simp_all [sinkResOf, H5V.Lemmas.HtmlTokSpec.switchOf]
  cdata := fun _ => rfl

theorem lastSwitch_ne_data (s : Spec.TreeModes.State Nat) : lastSwitch s ≠ .data := by
  unfold lastSwitch
  cases s.outs.getLast? with
  | none => simp
  | some o =>
    simp only
    cases o.switch with
    | none => simp [H5V.Spec.Parse.switchOf]
    | some w => cases w <;> simp [H5V.Spec.Parse.switchOf]

theorem treeOfSpec_ne_data (c : Cfg) (hist : List Emit) (tag : H5V.Model.HtmlTok.Tag) :
    (treeOfSpec c).onTag hist tag ≠ .data := by
  show (match stateAfter c hist with | .ok s => lastSwitch s | .error _ => Switch.none) ≠ _
  cases stateAfter c hist with
  | error e => simp
  | ok s => exact lastSwitch_ne_data s

/-! ### the CDATA question -/

theorem acn_map2 {α β γ : Type} (f1 f2 : α → β) (g : β → γ) (hg : ∀ a, g (f1 a) = g (f2 a)) :
    ∀ (l : List α) (c : Option α),
      (Spec.TreeAlgo.adjustedCurrentNode (l.map f1) (c.map f2)).map g =
        (Spec.TreeAlgo.adjustedCurrentNode l c).map (fun a => g (f1 a))
  | [], c => by cases c <;> rfl
  | [a], none => rfl
  | [a], some c => by simp [Spec.TreeAlgo.adjustedCurrentNode, hg]
  | a :: b :: t, c => by cases c <;> rfl

/-- the standard's CDATA condition on the abstract state, in terms of the model's stack -/
theorem acnForeign_absF (s : State) (x : Aux) (hx : AuxOk s x) :
    acnForeign (cfgOf s) (absF s x) =
      match Spec.TreeAlgo.adjustedCurrentNode s.openElems.reverse s.contextElem with
      | some h => (nameOf s.dom h).ns != nsHtml
      | none => false := by
  have hstack : (absF s x).p.stack = absStack s.dom s.openElems := by
    simp only [absF, absP, hx.live, Bool.false_eq_true, if_false]
  unfold acnForeign Spec.TreeModes.adjustedCurrentNode
  rw [hstack]
  have hrev : (absStack s.dom s.openElems).reverse.map (Spec.TreeModes.openElem (absF s x)) =
      s.openElems.reverse.map (fun h => Spec.TreeModes.openElem (absF s x) (elemOf s.dom h)) := by
    unfold absStack
    rw [← List.map_reverse, List.map_map]
    rfl
  have hctx : (cfgOf s).context.map (fun c => ({ name := c.name, encodingHtml := (cfgOf s).contextEncodingHtml } : Spec.TreeAlgo.OpenElem)) =
      s.contextElem.map (fun h => ({ name := (elemOf s.dom h).name, encodingHtml := (cfgOf s).contextEncodingHtml } : Spec.TreeAlgo.OpenElem)) := by
    simp only [cfgOf, Option.map_map]
    rfl
  rw [hrev, hctx]
  have key := acn_map2 (fun h => Spec.TreeModes.openElem (absF s x) (elemOf s.dom h))
    (fun h => ({ name := (elemOf s.dom h).name, encodingHtml := (cfgOf s).contextEncodingHtml } : Spec.TreeAlgo.OpenElem))
    (fun e => e.name.ns != Spec.TreeAlgo.nsHtml) (fun _ => rfl) s.openElems.reverse s.contextElem
  generalize Spec.TreeAlgo.adjustedCurrentNode
    (s.openElems.reverse.map (fun h => Spec.TreeModes.openElem (absF s x) (elemOf s.dom h)))
    (s.contextElem.map (fun h => ({ name := (elemOf s.dom h).name, encodingHtml := (cfgOf s).contextEncodingHtml } : Spec.TreeAlgo.OpenElem))) = a at key ⊢
  generalize Spec.TreeAlgo.adjustedCurrentNode s.openElems.reverse s.contextElem = b at key ⊢
  cases a <;> cases b <;> simp at key ⊢
  exact key

/-- **the CDATA question**: the model's `adjusted_current_node_present_but_not_in_html_namespace` answers the
standard's condition on the abstract state -/
theorem acn_bridge {s : State} (hm : MInv s) (x : Aux) (hx : AuxOk s x) :
    ∃ s1, adjustedCurrentNodeForeign.run s = .ok (acnForeign (cfgOf s) (absF s x), s1) := by
  rw [acnForeign_absF s x hx]
  have hq : ∀ a, HtmlTBSpec.Query adjustedCurrentNodeForeign s a → ∃ s1, adjustedCurrentNodeForeign.run s = .ok (a, s1) := by
    intro a hq
    obtain ⟨tr', h⟩ := hq s.traceRev
    exact ⟨_, h⟩
  cases hl : s.openElems.reverse with
  | nil =>
    have he : s.openElems = [] := by simpa using hl
    apply hq
    unfold adjustedCurrentNodeForeign
    refine HtmlTBSpec.query_getS_bind (fun tr => ?_)
    simp only [HtmlTBSpec.withTr, he, List.isEmpty_nil, if_true, Spec.TreeAlgo.adjustedCurrentNode]
    exact HtmlTBSpec.query_pure _ _
  | cons top rest =>
    have hne : s.openElems.isEmpty = false := by
      cases ho : s.openElems with
      | nil => rw [ho] at hl; cases hl
      | cons _ _ => rfl
    have hmem : top ∈ s.openElems := by
      have : top ∈ s.openElems.reverse := by rw [hl]; simp
      simpa using this
    -- the adjusted current node of the model is an element
    have hc : ∃ c, Spec.TreeAlgo.adjustedCurrentNode (top :: rest) s.contextElem = some c ∧ s.dom.isElement c = true := by
      cases rest with
      | nil =>
        cases hcx : s.contextElem with
        | none => exact ⟨top, rfl, hm.elems top hmem⟩
        | some c => exact ⟨c, rfl, hm.ctx c hcx⟩
      | cons r rs => exact ⟨top, by cases s.contextElem <;> rfl, hm.elems top hmem⟩
    obtain ⟨c, hc1, hc2⟩ := hc
    rw [hc1]
    obtain ⟨n, hn⟩ := elemName_of_isElement hc2
    have hname : nameOf s.dom c = ⟨n.1, n.2⟩ := by unfold nameOf; rw [hn]
    show ∃ s1, adjustedCurrentNodeForeign.run s = .ok ((nameOf s.dom c).ns != nsHtml, s1)
    rw [hname]
    apply hq
    unfold adjustedCurrentNodeForeign
    refine HtmlTBSpec.query_getS_bind (fun tr => ?_)
    simp only [HtmlTBSpec.withTr, hne, Bool.false_eq_true, if_false]
    refine HtmlTBSpec.query_bind (HtmlTBSpec.adjustedCurrentNode_query s c (by rw [hl]; exact hc1)) ?_
    exact HtmlTBSpec.query_bind (HtmlTBSpec.query_elemName (ns := n.1) (loc := n.2) hn) (HtmlTBSpec.query_pure _ _)

/-! ### single-character histories are the histories of the specification's tokenizer -/

/-- every character token of the log holds exactly one character -/
def SingleChars (out : TOut) : Prop := ∀ p ∈ out, ∀ s, p.1 = .chars s → ∃ c, s = [c]

def NoEof (out : TOut) : Prop := ∀ p ∈ out, p.1 ≠ .eof

theorem specToks_append (a b : List (TokToken × Nat)) : specToks (a ++ b) = specToks a ++ specToks b := by
  simp [specToks]

theorem specTag_convTag (t : H5V.Model.HtmlTok.Tag) : specTag (convTag t) = treeTag t := by
  simp only [specTag, convTag, treeTag, List.map_map]
  congr 1

theorem specToks_one (t : TTok) (l : Nat) (hs : ∀ s, t = .chars s → ∃ c, s = [c]) (he : t ≠ .eof) :
    specToks (convAll [(t, l)]) = (flatTok t).map treeTok := by
  cases t with
  | doctype d => rfl
  | tag t =>
    simp only [convAll, specToks, List.filterMap_cons, List.filterMap_nil, conv, Option.map_some, specTokOf, flatTok,
      List.map_cons, List.map_nil, treeTok, specTag_convTag]
    rfl
  | comment c => rfl
  | chars s =>
    obtain ⟨c, rfl⟩ := hs s rfl
    rfl
  | nullChar => rfl
  | eof => exact absurd rfl he
  | error m => rfl
  | pause b => rfl

theorem specToks_convAll : ∀ (out : TOut), SingleChars out → NoEof out →
    specToks (convAll out.reverse) = (flat out).reverse.map treeTok
  | [], _, _ => rfl
  | (t, l) :: rest, hs, he => by
    have ih := specToks_convAll rest (fun p hp => hs p (by simp [hp])) (fun p hp => he p (by simp [hp]))
    rw [List.reverse_cons, convAll_append, specToks_append, ih, specToks_one t l (hs (t, l) (by simp)) (he (t, l) (by simp))]
    show _ = (((flatTok t).reverse ++ flat rest).reverse).map treeTok
    rw [List.reverse_append, List.reverse_reverse, List.map_append]

/-! ### `Spec.TreeModes.run` over a concatenation -/

theorem srun_append {N : Type} [DecidableEq N] (cfg : Config N) (fuel : Nat) :
    ∀ (a b : List Spec.TreeModes.Token) (s : Spec.TreeModes.State N),
      Spec.TreeModes.run cfg fuel s (a ++ b) =
        match Spec.TreeModes.run cfg fuel s a with
        | .ok s1 => Spec.TreeModes.run cfg fuel s1 b
        | .error e => .error e
  | [], b, s => rfl
  | t :: a, b, s => by
    simp only [List.cons_append, Spec.TreeModes.run]
    cases Spec.TreeModes.processToken cfg fuel s t with
    | error e => rfl
    | ok s1 => exact srun_append cfg fuel a b s1

/-- if the specification does not stop at the Assert of "in cell" on the whole list, then on a prefix it yields
what the completed specification yields -/
theorem srun_prefix {cfg : Config Id} {fuel : Nat} {a b : List Spec.TreeModes.Token} {s r : Spec.TreeModes.State Id}
    (hna : Spec.TreeModes.run cfg fuel s (a ++ b) ≠ .error cellAssertMsg)
    (hd : runDev cfg fuel s a = .ok r) : Spec.TreeModes.run cfg fuel s a = .ok r := by
  rcases stdOrAssert_run cfg fuel a s r hd with h | h
  · exact h
  · exfalso; apply hna
    rw [srun_append, h]

end H5V.Lemmas.ParseSpec
