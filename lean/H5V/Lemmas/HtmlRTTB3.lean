import H5V.Lemmas.HtmlRTTB2
/-!
C07 round trip, tree-builder half, part 3: the fragment set-up (`new_for_fragment` with an HTML
`div` as context element), the EOF token, `TreeBuilder::end`, and reading the forest off the arena.
-/
namespace H5V.Lemmas.HtmlRT
open H5V.Model.HtmlTB
open H5V.Model.Dom (Id SinkOp Output Dom NodeData NodeOrText)
open H5V.Lemmas.HtmlTBSpec

/-- `parse_fragment`'s set-up: create the context element (an HTML `div` without attributes, no
form element), then `TreeBuilder::new_for_fragment` -/
def fragSetup : M Unit := do
  let c ← createElementWithFlags (htmlQual nDiv) [] false
  newForFragment c none

def nHtml : Str := "html".toList
def rootFrame (cs : Forest) : Frame := ⟨nHtml, [], cs⟩

theorem divTests :
    (nsHtml != nsHtml) = false ∧ isOneOf nDiv ["td", "th"] = false ∧ isName nDiv "tr" = false ∧
    isOneOf nDiv ["tbody", "thead", "tfoot"] = false ∧ isName nDiv "caption" = false ∧
    isName nDiv "colgroup" = false ∧ isName nDiv "table" = false ∧ isName nDiv "template" = false ∧
    isName nDiv "head" = false ∧ isName nDiv "body" = false ∧ isName nDiv "frameset" = false ∧
    isName nDiv "html" = false ∧ isName nHtml "template" = false ∧ isName nHtml "p" = false := by decide

theorem getDocument_apply (d : Dom) : d.apply .getDocument = .ok (d, .node 0) := rfl

theorem fragSetup_runs (opts : Opts) :
    ∃ s0, Runs fragSetup (State.init opts) () s0 ∧ TBInv s0 [] (rootFrame []) 0 2 ∧ s0.opts = opts := by
  obtain ⟨t1, t2, t3, t4, t5, t6, t7, t8, t9, t10, t11, t12, t13, t14⟩ := divTests
  -- the arena after the two `create_element`s and the `append` to the document
  let d0 : Dom := Dom.new
  have hdoc : d0.nodes[0]? = some ⟨.document, none, []⟩ := rfl
  have e1 : d0.apply (.createElement (htmlQual nDiv) (tbAttrs []) plainFlags)
      = .ok ((d0.alloc (elData nDiv [])).1, .node 1) := rfl
  generalize hd1 : (d0.alloc (elData nDiv [])).1 = d1 at e1
  have hd1doc : d1.nodes[0]? = some ⟨.document, none, []⟩ := by rw [← hd1]; rfl
  have hd1div : d1.nodes[1]? = some ⟨elData nDiv [], none, []⟩ := by rw [← hd1]; rfl
  have hd1size : d1.nodes.size = 2 := by rw [← hd1]; rfl
  obtain ⟨d2, d3, e2, e3, hp⟩ := dom_create_append d1 0 _ nHtml [] hd1doc
  rw [hd1size] at e2 e3
  have hp1 := hp.atTop; have hp2 := hp.atNew; have hp3 := hp.frame; have hp4 := hp.size
  rw [hd1size] at hp1 hp2 hp3 hp4
  let s1 : State := { State.init opts with dom := d1 }
  let s2 : State := { s1 with docHandle := 0, templateModes := [], formElem := none, contextElem := some 1 }
  let s3 : State := { s2 with openElems := [2], dom := d3 }
  refine ⟨{ s3 with mode := .inBody }, ?_, ?_, rfl⟩
  · unfold fragSetup
    refine runs_bind (s1 := s1) (a := 1) ?_ ?_
    · have := createFlags_eq nDiv [] t8
      rw [show tbAttrs [] = [] from rfl] at this
      rw [show htmlQual nDiv = { pfx := none, ns := nsHtml, loc := nDiv } from rfl, this]
      exact runs_sinkNode (s := State.init opts) e1
    unfold newForFragment
    refine runs_bind (s1 := s1) (a := 0) (runs_sinkNode (s := s1) (getDocument_apply _)) ?_
    refine runs_bind (s1 := s1) (a := ⟨nsHtml, nDiv⟩)
      (Runs.of_query (query_elemName (s := s1) (elData_elemName hd1div))) ?_
    simp only [t8, Bool.and_false, Bool.false_eq_true, if_false]
    refine runs_modS_bind (s := s1) (fun tr => rfl) ?_
    refine runs_bind (s1 := s3) (a := ()) ?_ ?_
    · unfold createRoot
      have := createFlags_eq nHtml [] t13
      rw [show tbAttrs [] = [] from rfl] at this
      rw [show htmlQual "html".toList = { pfx := none, ns := nsHtml, loc := nHtml } from rfl, this]
      refine runs_bind (s1 := { s2 with dom := d2 }) (a := 2) (runs_sinkNode (s := s2) e2) ?_
      refine runs_bind (s1 := { s2 with openElems := [2], dom := d2 }) (a := ()) ?_ ?_
      · unfold push; exact runs_modS (fun tr => rfl)
      refine runs_getS_bind (fun tr => ?_)
      exact runs_sinkUnit (s := { s2 with openElems := [2], dom := d2 }) e3
    refine runs_bind (s1 := s3) (a := .inBody) (Runs.of_query ?_) ?_
    · unfold resetInsertionMode
      refine query_getS_bind (fun tr => ?_)
      simp only [withTr_openElems, show s3.openElems = [2] from rfl, List.reverse_cons, List.reverse_nil,
        List.nil_append, List.length_singleton, resetLoop]
      refine query_getS_bind (fun tr => ?_)
      simp only [withTr_contextElem, show s3.contextElem = some 1 from rfl, Nat.sub_self, BEq.rfl]
      have hdiv3 : s3.dom.nodes[1]? = some ⟨elData nDiv [], none, []⟩ := by
        show d3.nodes[1]? = _
        rw [hp3 1 (by omega) (by omega)]; exact hd1div
      refine query_bind (query_elemName (s := s3) (elData_elemName hdiv3)) ?_
      simp only [t1, t2, t3, t4, t5, t6, t7, t8, t9, t10, t11, t12, Bool.false_eq_true, if_false,
        Bool.false_and]
      exact query_pure _ _
    unfold setMode
    exact runs_modS (fun tr => rfl)
  · refine ⟨⟨rfl, rfl⟩, ?_, by simp [RepF, rootFrame], ?_, rfl, ?_, rfl, rfl, rfl,
      ⟨fun e he => (by cases he), List.Pairwise.nil⟩, rfl, rfl, rfl, ?_, ?_, ?_⟩
    · show d3.nodes[2]? = _
      rw [hp2]; rfl
    · show d3.nodes.size = _
      rw [hp4]; simp [rootFrame, sizeF]
    · show d3.nodes[1]? = _
      rw [hp3 1 (by omega) (by omega)]; exact hd1div
    · intro f hf
      simp only [List.nil_append, List.mem_singleton] at hf
      subst hf; exact t13
    · show d3.errorsRev = []
      rw [hp.errs, ← hd1]; rfl
    · intro f hf
      simp only [List.nil_append, List.mem_singleton] at hf
      subst hf; exact t14

/-! ### EOF and `end` -/

theorem bodyEndOk_html : bodyEndOk ⟨nsHtml, nHtml⟩ = true := by decide

/-- the EOF token with only the root open: no `Unexpected open tag` error, `Done` -/
theorem TBInv.eof {s cs tp tid} (h : TBInv s [] (rootFrame cs) tp tid) (line : Nat) :
    Runs (processToken .eof line) s .continue_ s := by
  refine processToken_frame s _ _ line _ rfl ?_
  rw [eq_self_withIlf h.ilf]
  simp only [tbTok]
  refine ptc_done _ _ _ rfl (h.notForeign _) h.mode ?_
  unfold stepInBody
  dsimp only
  refine runs_getS_bind (fun tr => ?_)
  rw [show (withTr s tr).templateModes = [] from h.tm]
  simp only [List.isEmpty_nil, Bool.not_true, Bool.false_eq_true, if_false]
  refine runs_bind (s1 := s) (a := ()) (Runs.of_query ?_) (runs_pure _ _)
  unfold checkBodyEnd
  refine query_getS_bind (fun tr => ?_)
  rw [show (withTr s tr).openElems = [tid] from by rw [withTr_openElems, h.stack]; rfl]
  simp only [checkBodyEndLoop]
  refine query_bind (query_elemName (elData_elemName h.topNode)) ?_
  rw [show (rootFrame cs).name = nHtml from rfl, bodyEndOk_html]
  simp only [if_true]
  exact query_pure _ _

theorem endLoop_runs (s : State) (l : List Nat) : Runs (endLoop l) s () s := by
  induction l with
  | nil => exact runs_pure _ _
  | cons e rest ih =>
    simp only [endLoop]
    exact runs_bind (runs_sinkUnit (pop_apply _ _)) ih

/-- `TreeBuilder::end`: the stack is emptied, the arena is not touched -/
theorem finishTB_runs (s : State) : Runs finishTB s () { s with openElems := [] } := by
  unfold finishTB
  refine runs_getS_bind (fun tr => ?_)
  refine runs_modS_bind (fun tr => rfl) ?_
  exact endLoop_runs _ _

/-! ### reading the forest off the arena -/

theorem toDTreeF_length (f : Forest) : (toDTreeF f).length = f.length := by
  induction f with
  | nil => rfl
  | cons t ts ih => simp [toDTreeF, ih]

mutual
def HNode.depth : HNode → Nat
  | .elem _ _ ch => 1 + depthF ch
  | .text _ => 1
def depthF : Forest → Nat
  | [] => 0
  | t :: ts => max t.depth (depthF ts)
end

mutual
theorem extract_of_rep (d : Dom) (p : Nat) : ∀ (t : HNode) (id fuel : Nat), RepT d p id t → t.depth ≤ fuel →
    extract d fuel (some p) id = some (toDTree t)
  | .text x, id, fuel, h, hf => by
    simp only [RepT] at h
    obtain ⟨k, rfl⟩ : ∃ k, fuel = k + 1 := ⟨fuel - 1, by simp [HNode.depth] at hf; omega⟩
    simp [extract, h, toDTree]
  | .elem n as ch, id, fuel, h, hf => by
    simp only [RepT] at h
    obtain ⟨k, rfl⟩ : ∃ k, fuel = k + 1 := ⟨fuel - 1, by simp [HNode.depth] at hf; omega⟩
    have := extractList_of_rep d id ch (id + 1) k h.2 (by simp [HNode.depth] at hf; omega)
    simp [extract, h.1, elData, this, toDTree]
theorem extractList_of_rep (d : Dom) (p : Nat) : ∀ (f : Forest) (start fuel : Nat), RepF d p start f →
    depthF f ≤ fuel → extractList d fuel p (childIds start f) = some (toDTreeF f)
  | [], _, _, _, _ => by simp [childIds, extractList, toDTreeF]
  | t :: ts, start, fuel, h, hf => by
    simp only [RepF] at h
    have h1 := extract_of_rep d p t start fuel h.1 (by simp [depthF] at hf; omega)
    have h2 := extractList_of_rep d p ts (start + t.size) fuel h.2 (by simp [depthF] at hf; omega)
    simp [childIds, extractList, h1, h2, toDTreeF]
end

mutual
theorem depth_le_size : ∀ t : HNode, t.depth ≤ t.size
  | .text _ => by simp [HNode.depth, HNode.size]
  | .elem _ _ ch => by have := depthF_le_sizeF ch; simp [HNode.depth, HNode.size]; omega
theorem depthF_le_sizeF : ∀ f : Forest, depthF f ≤ sizeF f
  | [] => by simp [depthF, sizeF]
  | t :: ts => by
    have := depth_le_size t; have := depthF_le_sizeF ts
    simp [depthF, sizeF]; omega
end

/-- the children of the root `html` element (node 2) as a list of trees -/
def rootChildren (d : Dom) : Option (List DTree) := extractList d d.nodes.size 2 (d.childrenOf 2)

theorem TBInv.rootChildren_eq {s cs tp tid} (h : TBInv s [] (rootFrame cs) tp tid) :
    rootChildren s.dom = some (toDTreeF cs) := by
  have hl := h.low
  simp only [Lower] at hl
  obtain ⟨rfl, rfl⟩ := hl
  have hn := h.topNode
  unfold rootChildren Dom.childrenOf
  rw [hn]
  simp only [rootFrame]
  refine extractList_of_rep s.dom 2 cs 3 _ h.topRep ?_
  have := depthF_le_sizeF cs
  have := h.size
  simp only [rootFrame] at this
  omega

end H5V.Lemmas.HtmlRT
