import H5V.Lemmas.HtmlTBContractBody1
/-!
# TreeSink contract for the HTML tree builder, part 10b: the "in body" rules

`rs_stepInBody`: `RS d0 tok (stepInBody tok)` for every token, against the delegation hypothesis `HeadH`
(the "in head" rules); `bodyH` discharges `BodyH` from `HeadH`.

The `if … else if …` chain of the tag arm is peeled arm by arm; an arm made of registered leaves is closed by
the walker `bs_walk`, the special arms (`<body>`, `<frameset>`, `<li>`, `</form>`, `</option>`, `<a>`, `<nobr>`,
the adoption agency, `</br>`) are navigated by hand with the lemmas of `HtmlTBContractBody1`.
-/
namespace H5V.Lemmas.TBC
open H5V.Model.HtmlTB
open H5V.Model.Dom (Id Dom)
open H5V.Lemmas.TBSafe (Ext fmtNames)
variable {d0 : Dom}

/-- peel one arm off an `if … else if …` chain.  `apply`, not `refine cpsp_ite (fun h => ?_) (fun _ => ?_)`:
after some forty `refine`s in one proof every failing alternative of the leaf walker costs several times as much
(the walk of the `<rp>` arm took 12 s instead of 4 s). -/
macro "peel" h:ident : tactic => `(tactic| ((with_reducible apply cpsp_ite) <;> intro $h:ident))

set_option maxHeartbeats 1600000 in
theorem rs_stepInBody (hH : HeadH d0) : ∀ tok, TokOk tok → RS d0 tok (stepInBody tok) := by
  unfold H5V.Model.HtmlTB.stepInBody
  intro tok ht
  unfold RS
  cases tok with
  | chars st text => dsimp only; bs_walk
  | comment t => dsimp only; bs_walk
  | nullChar => dsimp only; bs_walk
  | eof => dsimp only; bs_walk
  | tag tag =>
    have ha : AttrsOk tag.attrs := ht
    dsimp only
    -- <html>
    peel h1
    · bs_walk
    -- head elements, </template>: the in-head rules
    peel h2
    · bs_walk
    -- <body>
    peel h3
    · refine cpsp_bind_cp cp_unexpected (fun _ => ?_)
      refine cpsp_bind_cp cp_bodyElem (fun r => ?_)
      cases r with
      | none => exact cpsp_pure_nil _ trivial
      | some node => dsimp only; bs_walk
    -- <frameset>
    peel h4
    · refine cpsp_bind_cp cp_unexpected (fun _ => ?_)
      refine cpsp_getS_bind (fun s0 => ?_)
      refine cpsp_ite (fun _ => cpsp_pure_nil _ trivial) (fun _ => ?_)
      refine cpsp_bind_cp cp_bodyElem (fun r => ?_)
      cases r with
      | none => exact cpsp_pure_nil _ trivial
      | some node =>
        dsimp only
        refine cpsp_bind (cps_removeFromParent (by ctx_mem)) (fun _ => ?_)
        bs_walk
    -- </body>
    peel h5
    · bs_walk
    -- </html>
    peel h6
    · bs_walk
    -- <address> … <ul>
    peel h7
    · bs_walk
    -- <menu>
    peel h8
    · bs_walk
    -- <h1> … <h6>
    peel h9
    · bs_walk
    -- <pre>, <listing>
    peel h10
    · bs_walk
    -- <form>
    peel h11
    · bs_walk
    -- <li>, <dd>, <dt>
    peel h12
    · refine cpsp_bind_cp cp_setFramesetOk (fun _ => ?_)
      refine cpsp_getS_bind (fun s0 => ?_)
      refine cpsp_bind_cp cp_listCloseSearch_state (fun r => ?_)
      cases r with
      | none => dsimp only; bs_walk
      | some name => dsimp only; bs_walk
    -- <plaintext>
    peel h13
    · bs_walk
    -- <button>
    peel h14
    · bs_walk
    -- </address> … </ul>
    peel h15
    · bs_walk
    -- </form>
    peel h16
    · refine cpsp_bind_cp cp_inHtmlElemNamed (fun b => ?_)
      refine cpsp_ite (fun _ => ?_) (fun _ => by bs_walk)
      refine cpsp_getS_bind_at (fun s0 => ?_)
      cases hf : s0.formElem with
      | none => dsimp only; refine cpsp_at ?_ s0; bs_walk
      | some node =>
        dsimp only
        intro hcb hsa hc
        refine cpspat_set_bind (fun h1 h2 => cb_clearForm h1 h2) ?_ hcb hsa hc
        have hn : node ∈ stH s0 := by simp [stH, hf]
        refine cpsp_bind_cp (cp_inScope_sameNodeL (by simp [hn])) (fun b2 => ?_)
        refine cpsp_ite (fun _ => by bs_walk) (fun _ => ?_)
        refine cpsp_bind_cp cp_generateImpliedEndTags (fun _ => ?_)
        refine cpsp_bind_cp cp_currentNode (fun current => ?_)
        refine cpsp_bind_cp (cp_removeFromStack (by simp [hn])) (fun _ => ?_)
        refine cpsp_bind_cp (cp_sameNode (by simp) (by simp [hn])) (fun b3 => ?_)
        bs_walk
    -- </option>
    peel h17
    · refine cpsp_findOption_bind (fun r s hcb hsa hr => ?_)
      cases r with
      | none => exact satc_pure ⟨hcb, hsa, Ext.refl _, trivial⟩
      | some o => exact satc_optionMirror hcb hsa (hr o rfl).1 (hr o rfl).2
    -- </p>
    peel h18
    · bs_walk
    -- </li>, </dd>, </dt>
    peel h19
    · bs_walk
    -- </h1> … </h6>
    peel h20
    · bs_walk
    -- <a>
    peel h21
    · have hfmt : isOneOf tag.name fmtNames = true := start_sub h21
      refine cpsp_bind cps_handleMisnestedATags (fun _ => ?_)
      bs_walk
    -- <b> … <u>
    peel h22
    · have hfmt : isOneOf tag.name fmtNames = true := start_sub h22
      bs_walk
    -- <nobr>
    peel h23
    · have hfmt : isOneOf tag.name fmtNames = true := start_sub h23
      refine cpsp_bind_cp cp_reconstructActiveFormattingElements (fun _ => ?_)
      refine cpsp_bind_cp cp_inScopeNamed (fun b => ?_)
      refine cpsp_ite (fun _ => ?_) (fun _ => by bs_walk)
      refine cpsp_bind_cp cp_parseError (fun _ => ?_)
      refine cpsp_bind (cps_adoptionAgency (by decide)) (fun _ => ?_)
      bs_walk
    -- </a> … </u>: the adoption agency
    peel h24
    · refine cpsp_bind (cps_adoptionAgency (end_sub h24)) (fun _ => ?_)
      bs_walk
    -- <applet>, <marquee>, <object>
    peel h25
    · bs_walk
    -- </applet>, </marquee>, </object>
    peel h26
    · bs_walk
    -- <table>
    peel h27
    · bs_walk
    -- </br>
    peel h28
    · have hnil : AttrsOk ({ tag with kind := .startTag, attrs := [] } : Tag).attrs := attrsOk_nil
      bs_walk
    -- <area> … <wbr>
    peel h29
    · bs_walk
    -- <input>
    peel h30
    · exact arm_input ha
    -- <param>, <source>, <track>
    peel h31
    · bs_walk
    -- <hr>
    peel h32
    · exact arm_hr ha
    -- <image>
    peel h33
    · bs_walk
    -- <textarea>
    peel h34
    · bs_walk
    -- <xmp>
    peel h35
    · bs_walk
    -- <iframe>
    peel h36
    · bs_walk
    -- <noembed>
    peel h37
    · bs_walk
    -- <select>
    peel h38
    · exact arm_select ha
    -- <option>
    peel h39
    · exact arm_option ha
    -- <optgroup>
    peel h40
    · exact arm_optgroup ha
    -- <rb>, <rtc>
    peel h41
    · exact arm_rbRtc ha
    -- <rp>, <rt>
    peel h42
    · exact arm_rpRt ha
    -- <math>
    peel h43
    · bs_walk
    -- <svg>
    peel h44
    · bs_walk
    -- <caption> … <tr>
    peel h45
    · bs_walk
    -- any other start tag
    peel h46
    · bs_walk
    -- any other end tag
    bs_walk

theorem bodyH (hH : HeadH d0) : BodyH d0 := rs_stepInBody hH

end H5V.Lemmas.TBC
